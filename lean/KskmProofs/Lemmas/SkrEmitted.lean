/-
  What `create_skr` emits lies in the writer's domain (helper lemmas for KskmProofs/C10.lean,
  section "The emitted file, from the inputs").

  `C10.emitted_is_loadable` assumes `WriterDomain skr` and `C11.Constructible skr` of the SKR a ceremony
  writes.  Here they are derived from facts about the INPUTS — the request and the configuration —
  and from the gates `create_skr` itself passed, for every token, every hash function and every
  software verifier that rejects the empty octet string:

    * every key of a response bundle is a request key, a fetched KSK record or the revoked form of one
      (`C02.SlotKeys.sound`), each with the TTL replaced: what the domain asks of its identifier, tag,
      flags, protocol and exponent is inherited from that origin (`KeyGood`);
    * every signature was made by `_sign_keys`, whose `make_raw_rrsig` call succeeded: hence the signer
      name is the root, TTL / tag / labels / algorithm fit their wire fields, and EVERY key of the
      published set has decodable base64 text and an RDATA below 65536 octets (`makeRawRrsig_ok`);
    * `_ksk_signature_policy` succeeded: hence every published key is an RSA key whose text decodes to a
      non-empty octet string (`kskSignaturePolicy_ok`);
    * `load_pkcs11_key` compared the exponent of an RSA token key with the configured one
      (`loadPkcs11Key_loaded`, proved here): hence the exponent printed in the KSK policy is the
      configured number.
-/
import KskmProofs.C01
import KskmProofs.C11
import KskmProofs.Lemmas.Echo
namespace Kskm.Emitted
open Kskm Kskm.ReadBack

/-! ### `load_pkcs11_key`, once more: what it checked of an RSA-configured key -/

/-- what a successful `load_pkcs11_key(ksk, …)` guarantees of the composite key it returns: the DNSKEY
    record is built from the token's public key text, and — when the configured algorithm is an RSA
    one — that text decodes to an RSA key whose exponent is the configured `rsa_exponent` -/
def LoadedAs (ksk : KskKey) (pol : KskPolicy) (ck : CompositeKey) : Prop :=
  ∃ pk, ck.p11.publicKey = some pk ∧
    publicKeyToDnssecKey pk ksk.label ksk.algorithm pol.ttl 257 = .ok ck.dns ∧
    (isAlgorithmRsa ksk.algorithm = true →
      ∃ pub, rsaDecode pk ksk.algorithm = .ok pub ∧ some (pub.exponent : Int) = ksk.rsaExponent)

theorem GoodLoad.ite' {Q : CompositeKey → Prop} {c : Prop} [Decidable c] {a b : TokM (Option CompositeKey)}
    (ha : c → GoodLoad Q a) (hb : ¬ c → GoodLoad Q b) : GoodLoad Q (if c then a else b) := by
  split
  · exact ha ‹_›
  · exact hb ‹_›

theorem GoodLoad.lift_bind {Q : CompositeKey → Prop} {α} (r : Res α) (f : α → TokM (Option CompositeKey))
    (h : ∀ a, r = .ok a → GoodLoad Q (f a)) : GoodLoad Q (TokM.lift r >>= f) := ⟨by
  intro t s s' ck h'
  obtain ⟨a, ha, h2⟩ := (TokM.lift_bind_ok_iff _ _ _ _ _ _).mp h'
  exact (h a ha).out t s s' ck h2⟩

theorem loadPkcs11Key_loaded (mods : List P11Module) (ksk : KskKey) (pol : KskPolicy) (bundle : Bundle)
    (isPublic : Bool) : GoodLoad (LoadedAs ksk pol) (loadPkcs11Key mods ksk pol bundle isPublic) := by
  unfold loadPkcs11Key
  extract_lets jp jp0
  have hjp : ∀ f, GoodLoad (LoadedAs ksk pol) (jp f) := by
    intro f
    simp only [jp]
    cases hpk : f.publicKey with
    | none => exact GoodLoad.pure_none
    | some pk =>
      simp only
      apply GoodLoad.ite GoodLoad.pure_none
      have fin : (isAlgorithmRsa ksk.algorithm = true →
            ∃ pub, rsaDecode pk ksk.algorithm = .ok pub ∧ some (pub.exponent : Int) = ksk.rsaExponent) →
          GoodLoad (LoadedAs ksk pol)
          (do let key ← TokM.lift (publicKeyToDnssecKey pk ksk.label ksk.algorithm pol.ttl 257)
              pure (some { p11 := f, dns := key })) := fun hrsa => ⟨by
        intro t s s' ck h
        obtain ⟨key, hkey, h⟩ := (TokM.lift_bind_ok_iff _ _ _ _ _ _).mp h
        simp at h
        obtain ⟨rfl, _⟩ := h
        exact ⟨pk, hpk, hkey, hrsa⟩⟩
      cases f.keyType
      · simp only
        apply GoodLoad.ite (GoodLoad.err_bind _ _)
        apply GoodLoad.lift_bind
        intro pub hpub
        apply GoodLoad.ite (GoodLoad.err_bind _ _)
        apply GoodLoad.ite' (fun _ => GoodLoad.err_bind _ _)
        intro hne
        apply fin
        intro _
        refine ⟨pub, hpub, ?_⟩
        simpa using hne
      · simp only
        apply GoodLoad.ite' (fun _ => GoodLoad.err_bind _ _)
        intro hne
        apply fin
        intro hr
        exfalso
        apply hne
        have : ∀ a, isAlgorithmRsa a = true → (!isAlgorithmEcdsa a && !isAlgorithmEddsa a) = true := by
          intro a ha
          simp only [isAlgorithmRsa, algRSASHA1, algRSASHA256, algRSASHA512, Bool.or_eq_true, beq_iff_eq] at ha
          rcases ha with (rfl | rfl) | rfl <;> decide
        exact this _ hr
      · exact GoodLoad.pure_none
      · exact GoodLoad.pure_none
  have hjp0 : ∀ r, GoodLoad (LoadedAs ksk pol) (jp0 r) := by
    intro r
    simp only [jp0]
    apply GoodLoad.bind
    intro g
    cases g with
    | none => exact GoodLoad.pure_none
    | some found =>
      simp only
      apply GoodLoad.ite
      · apply GoodLoad.bind
        intro g2
        cases g2 with
        | none => exact GoodLoad.bind _ _ hjp
        | some fp => exact GoodLoad.bind _ _ hjp
      · exact GoodLoad.bind _ _ hjp
  apply GoodLoad.ite (GoodLoad.fail_bind _ _)
  cases ksk.validUntil with
  | none => exact hjp0 ()
  | some u => exact GoodLoad.ite (GoodLoad.fail_bind _ _) (hjp0 ())


/-- `_fetch_keys`: every returned key was loaded for a listed, configured name -/
theorem fetchKeys_loaded {ext : Externals} {mods : List P11Module} {cfg : SignerConfig} {bundle : Bundle}
    {isPublic : Bool} {names : List String} {t : Token} {s s' : TokState} {cks : List CompositeKey}
    (h : fetchKeys ext mods cfg bundle isPublic names t s = (.ok cks, s')) :
    ∀ ck ∈ cks, ∃ name ∈ names, ∃ ksk, cfg.kskKeys.lookup name = some ksk ∧ LoadedAs ksk cfg.kskPolicy ck := by
  induction names generalizing s cks with
  | nil =>
    simp [fetchKeys] at h
    obtain ⟨rfl, _⟩ := h
    simp
  | cons name rest ih =>
    unfold fetchKeys at h
    cases hl : cfg.kskKeys.lookup name with
    | none => simp [hl] at h
    | some ksk =>
      simp only [hl] at h
      obtain ⟨g, s1, hg, h⟩ := TokM.bind_ok _ _ _ _ _ _ h
      cases g with
      | none => simp at h
      | some ck =>
        simp only at h
        obtain ⟨u, _, h⟩ := (TokM.lift_bind_ok_iff _ _ _ _ _ _).mp h
        obtain ⟨more, s2, hmore, h⟩ := TokM.bind_ok _ _ _ _ _ _ h
        simp only [TokM.pure_run, Prod.mk.injEq, Except.ok.injEq] at h
        obtain ⟨rfl, rfl⟩ := h
        have hck := (loadPkcs11Key_loaded mods ksk cfg.kskPolicy bundle isPublic).out _ _ _ _ hg
        intro c hc
        rcases List.mem_cons.mp hc with rfl | hc
        · exact ⟨name, by simp, ksk, hl, hck⟩
        · obtain ⟨n, hn, r⟩ := ih hmore c hc
          exact ⟨n, List.mem_cons_of_mem _ hn, r⟩

/-! ### small facts about the codecs -/

theorem printable_small (i : Int) (h0 : 0 ≤ i) (h1 : i.toNat < 10000000000) : printable i = true := by
  have big : (10000000000 : Nat) ≤ 10 ^ maxStrDigits := by
    calc (10000000000 : Nat) ≤ 10 ^ 10 := by decide
      _ ≤ 10 ^ maxStrDigits := Nat.pow_le_pow_right (by decide) (by decide)
  simp only [printable, decide_eq_true_eq]
  omega

theorem rfc4034KeyTag_lt (r : Bytes) : C14.rfc4034KeyTag r < 65536 := by
  unfold C14.rfc4034KeyTag
  exact Nat.mod_lt _ (by decide)

theorem rsaDecodeBytes_ok {b : Bytes} {pub : RsaPub} (h : rsaDecodeBytes b = .ok pub) :
    b ≠ [] ∧ pub.bits ≤ b.length * 8 := by
  unfold rsaDecodeBytes at h
  split at h
  · simp [err] at h
  · rename_i x rest
    refine ⟨by simp, ?_⟩
    split at h
    · split at h
      · simp only [pure, Except.pure, Except.ok.injEq] at h
        subst h
        simp only [List.length_drop, List.length_cons]
        omega
      · simp [err] at h
    · simp only [pure, Except.pure, Except.ok.injEq] at h
      subst h
      simp only [List.length_drop, List.length_cons]
      omega

theorem rsaDecode_ok {pk : String} {alg : Nat} {pub : RsaPub} (h : rsaDecode pk alg = .ok pub) :
    isAlgorithmRsa alg = true ∧ ∃ b, Base64.decode pk = some b ∧ b ≠ [] ∧ pub.bits ≤ b.length * 8 := by
  unfold rsaDecode at h
  cases hd : Base64.decode pk with
  | none => simp [hd, unsupported] at h
  | some b =>
    simp only [hd, bind, Except.bind] at h
    cases hb : rsaDecodeBytes b with
    | error e => simp [hb] at h
    | ok r =>
      simp only [hb] at h
      by_cases ha : isAlgorithmRsa alg = true
      · simp only [ha, ↓reduceIte, pure, Except.pure, Except.ok.injEq] at h
        subst h
        obtain ⟨h1, h2⟩ := rsaDecodeBytes_ok hb
        exact ⟨ha, b, rfl, h1, h2⟩
      · simp [ha, err] at h

theorem algorithmPolicyOfKey_ok {k : Key} {a : AlgPolicy} (h : algorithmPolicyOfKey k = .ok a) :
    isAlgorithmRsa k.algorithm = true ∧ ∃ pub, rsaDecode k.publicKey k.algorithm = .ok pub ∧
      a = { kind := .rsa, bits := pub.bits, algorithm := k.algorithm, exponent := some pub.exponent } := by
  unfold algorithmPolicyOfKey at h
  by_cases hr : isAlgorithmRsa k.algorithm = true
  · simp only [hr, ↓reduceIte, bind, Except.bind] at h
    cases hd : rsaDecode k.publicKey k.algorithm with
    | error e => simp [hd] at h
    | ok pub =>
      simp only [hd, pure, Except.pure, Except.ok.injEq] at h
      exact ⟨hr, pub, rfl, h.symm⟩
  · simp only [hr, Bool.false_eq_true, ↓reduceIte] at h
    split at h
    · split at h <;> simp [unsupported, err] at h
    · split at h <;> simp [err] at h

theorem keyToRdata_ok {k : Key} {r : Bytes} (h : keyToRdata k = .ok r) :
    0 ≤ k.flags ∧ k.flags ≤ 65535 ∧ k.algorithm ≤ 255 ∧
      ∃ b, Base64.decode k.publicKey = some b ∧ r.length = b.length + 4 := by
  unfold keyToRdata at h
  split at h
  · simp [err] at h
  · rename_i hc
    simp only [Bool.not_eq_true', Bool.not_eq_false, Bool.and_eq_true, decide_eq_true_eq, inRange] at hc
    cases hd : Base64.decode k.publicKey with
    | none => simp [hd, unsupported] at h
    | some b =>
      simp only [hd, pure, Except.pure, Except.ok.injEq] at h
      subst h
      refine ⟨hc.1.1.1, by omega, by omega, b, rfl, ?_⟩
      simp [rdataOf, be16, be8]

theorem rsa_alg_cases {a : Nat} (h : isAlgorithmRsa a = true) : a = 5 ∨ a = 8 ∨ a = 10 := by
  simp only [isAlgorithmRsa, algRSASHA1, algRSASHA256, algRSASHA512, Bool.or_eq_true, beq_iff_eq] at h
  omega


/-! ### one key -/

/-- what the writer's domain asks of a key and that is inherited from where the key comes from (the
    request, or the configuration and the token) — none of it touched by the TTL override -/
structure KeyGood (k : Key) : Prop where
  id : attrTextOk k.keyIdentifier = true
  tag0 : 0 ≤ k.keyTag
  tag1 : k.keyTag ≤ 65535
  flags : k.flags = 256 ∨ k.flags = 257 ∨ k.flags = 385
  protocol : k.protocol = 3
  /-- an RSA exponent that `str()` can print (at most 4300 decimal digits) -/
  exp : ∀ pub, rsaDecode k.publicKey k.algorithm = .ok pub → printable (pub.exponent : Int) = true

/-- what is asked of one configured KSK -/
structure KskGood (ksk : KskKey) : Prop where
  label : attrTextOk ksk.label = true
  exp : ∀ e, ksk.rsaExponent = some e → printable e = true

theorem KeyGood.withTtl {k : Key} (h : KeyGood k) (t : Int) : KeyGood { k with ttl := t } :=
  ⟨h.id, h.tag0, h.tag1, h.flags, h.protocol, h.exp⟩

/-- a fetched KSK record -/
theorem keyGood_of_loaded {ksk : KskKey} {pol : KskPolicy} {ck : CompositeKey} (hk : KskGood ksk)
    (h : LoadedAs ksk pol ck) : KeyGood ck.dns ∧ ck.dns.flags = 257 := by
  obtain ⟨pk, _, hdns, hrsa⟩ := h
  obtain ⟨h1, _, h3, h4, h5, h6, r, _, h8⟩ := publicKeyToDnssecKey_ok hdns
  refine ⟨⟨by rw [h1]; exact hk.label, by rw [h8]; omega, ?_, Or.inr (Or.inl h3), h4, ?_⟩, h3⟩
  · rw [h8, C14.keyTag_eq_rfc4034]
    have := rfc4034KeyTag_lt r
    omega
  · intro pub hpub
    rw [h5, h6] at hpub
    obtain ⟨pub', hpub', he⟩ := hrsa (rsaDecode_ok hpub).1
    rw [hpub] at hpub'
    cases hpub'
    exact hk.exp _ he.symm

/-- the revoked form of a KSK record -/
theorem keyGood_revoked {k r : Key} (h : KeyGood k) (hf : k.flags = 257) (hr : k.asRevoked = .ok r) : KeyGood r := by
  obtain ⟨rd, h1, _, h3, _, h5, h6, h7, _, h9⟩ := C14.revoke_sets_only_bit_and_retags k r hr
  refine ⟨by rw [h3]; exact h.id, by rw [h9]; omega, ?_, ?_, by rw [h5]; exact h.protocol, ?_⟩
  · rw [h9]
    have := rfc4034KeyTag_lt rd
    omega
  · right; right
    rw [h1, hf]
    decide
  · rw [h6, h7]
    exact h.exp

theorem elemTextOk_of_decode {s : String} {b : Bytes} (h : Base64.decode s = some b) : elemTextOk s = true :=
  elemTextOk_of_ink s (ink_of_base64 s (by rw [h]; rfl))

/-- **One key of an emitted bundle is in the writer's domain**, given where it comes from (`KeyGood`),
    that `_ksk_signature_policy` could read it, that `make_raw_rrsig` could pack it, and a TTL that fits
    32 bits. -/
theorem key_in_domain {k : Key} (hg : KeyGood k) (ha : ∃ a, algorithmPolicyOfKey k = .ok a)
    {r : Bytes} (hr : keyToRdata k = .ok r) (hlen : r.length < 65536)
    (httl0 : 0 ≤ k.ttl) (httl1 : k.ttl.toNat < 2 ^ 32) :
    keyOk k = true ∧ keyConstructible k = true ∧ ∀ a, algorithmPolicyOfKey k = .ok a → algOk a = true := by
  obtain ⟨a0, ha0⟩ := ha
  obtain ⟨hrsa, pub, hpub, _⟩ := algorithmPolicyOfKey_ok ha0
  obtain ⟨_, b, hb, hne, hbits⟩ := rsaDecode_ok hpub
  obtain ⟨hf0, hf1, halg, b', hb', hrl⟩ := keyToRdata_ok hr
  rw [hb] at hb'
  cases hb'
  have hcases := rsa_alg_cases hrsa
  refine ⟨?_, ?_, ?_⟩
  · have hne' : k.publicKey.toList ≠ [] := by
      intro he
      have : Base64.decode k.publicKey = some [] := by
        unfold Base64.decode
        rw [he]
        rfl
      rw [hb] at this
      cases this
      exact hne rfl
    have hpt : printable k.ttl = true := printable_small _ httl0 (by omega)
    simp only [keyOk, Bool.and_eq_true, decide_eq_true_eq, Bool.not_eq_true', List.isEmpty_eq_false_iff]
    exact ⟨⟨⟨⟨⟨⟨⟨⟨⟨⟨⟨hg.id, elemTextOk_of_decode hb⟩, hne'⟩, by rw [hb]; rfl⟩, hg.tag0⟩, hg.tag1⟩, httl0⟩, hf0⟩,
      hf1⟩, hg.protocol⟩, halg⟩, hpt⟩
  · have hv : k.validate = .ok () := by
      unfold Key.validate
      have hnec : isAlgorithmEcdsa k.algorithm = false := by
        rcases hcases with e | e | e <;> rw [e] <;> decide
      simp only [hnec, Bool.false_eq_true, ↓reduceIte, pure, Except.pure]
      rcases hg.flags with e | e | e <;> simp [e]
    have hm : algMember k.algorithm = true := by
      rcases hcases with e | e | e <;> rw [e] <;> decide
    simp only [keyConstructible, Bool.and_eq_true, decide_eq_true_eq]
    exact ⟨hv, hm⟩
  · intro a ha
    obtain ⟨_, pub', hpub', rfl⟩ := algorithmPolicyOfKey_ok ha
    rw [hpub] at hpub'
    cases hpub'
    have hpb : printable (pub.bits : Int) = true := printable_small _ (by omega) (by omega)
    have hpe := hg.exp pub hpub
    simp only [algOk, Bool.and_eq_true, Bool.or_eq_true, decide_eq_true_eq, beq_iff_eq, Option.isSome_some,
      Option.getD_some]
    exact ⟨⟨⟨⟨⟨⟨trivial, trivial⟩, by omega⟩, by omega⟩, by omega⟩, hpb⟩, hpe⟩


/-! ### one signature -/

/-- a software verifier that never accepts the empty octet string as a signature (true of every real
    scheme: an RSA signature has the length of the modulus, an ECDSA one twice the field length) -/
def RejectsEmpty (v : Verifier) : Prop := ∀ alg pk msg, v alg pk msg [] ≠ .valid

theorem encodeChars_ne_nil {b : Bytes} (h : b ≠ []) : Base64.encodeChars b ≠ [] := by
  match b, h with
  | [_], _ => simp [Base64.encodeChars]
  | [_, _], _ => simp [Base64.encodeChars]
  | _ :: _ :: _ :: _, _ => simp [Base64.encodeChars]

/-- **One emitted signature is in the writer's domain** — and its `make_raw_rrsig` call vouches for the
    TTL and for every key of the published set. -/
theorem sig_in_domain {ext : Externals} {inc exp : Int} {pol : KskPolicy} {keys : List Key} {sk : CompositeKey}
    {σ : Signature} {dnsKey : Key} {raw sigBytes : Bytes} {pk : String}
    (hv : RejectsEmpty ext.verify) (h : C01.SigSpec ext inc exp pol keys sk σ dnsKey raw sigBytes pk)
    (hid : attrTextOk sk.dns.keyIdentifier = true) (hinc : instantOk inc = true) (hexp : instantOk exp = true) :
    sigOk σ = true ∧ (0 ≤ pol.ttl ∧ pol.ttl.toNat < 2 ^ 32) ∧
      ∀ k ∈ keys, ∃ r, keyToRdata k = .ok r ∧ r.length < 65536 := by
  obtain ⟨rdatas, hrd, _, _, halg, hlab, hottl, _, _, htag, hlen, _⟩ := makeRawRrsig_ok h.tbs
  simp only [inRange, Bool.and_eq_true, decide_eq_true_eq] at hlab hottl htag
  have hot : σ.originalTtl = pol.ttl := h.originalTtl
  have ht : σ.ttl = pol.ttl := h.ttl
  have hne : sigBytes ≠ [] := by
    intro e
    have := h.verified
    rw [e] at this
    exact hv _ _ _ this
  have httl : 0 ≤ pol.ttl ∧ pol.ttl.toNat < 2 ^ 32 := by
    rw [← hot]; exact hottl
  refine ⟨?_, httl, ?_⟩
  · have hname : σ.signersName = "." := by rw [h.signersName, h.root]
    have hdata : σ.signatureData = Base64.encode sigBytes := h.sigData
    have hd1 : elemTextOk σ.signatureData = true := by
      rw [hdata]; exact elemTextOk_of_ink _ (ink_encode _)
    have hd2 : σ.signatureData.toList ≠ [] := by
      rw [hdata]
      simp only [Base64.encode, String.toList_ofList]
      exact encodeChars_ne_nil hne
    have hd3 : (Base64.decode σ.signatureData).isSome = true := by
      rw [hdata, Base64.decode_encode]; rfl
    have hp : printable pol.ttl = true := printable_small _ httl.1 (by have := httl.2; omega)
    simp only [sigOk, Bool.and_eq_true, decide_eq_true_eq, beq_iff_eq, Bool.not_eq_true', List.isEmpty_eq_false_iff]
    rw [hname, ht, hot, h.keyIdentifier, h.typeCovered, h.expiration, h.inception, h.labels]
    refine ⟨⟨⟨⟨⟨⟨⟨⟨⟨⟨⟨⟨⟨⟨⟨⟨⟨hid, rfl⟩, hexp⟩, hinc⟩, by decide⟩, by decide⟩, hd1⟩, hd2⟩, hd3⟩, htag.1⟩, ?_⟩,
      httl.1⟩, httl.1⟩, by decide⟩, by decide⟩, ?_⟩, hp⟩, hp⟩
    · have := htag.2; omega
    · have : σ.algorithm < 256 := halg
      omega
  · intro k hk
    obtain ⟨hmem, _, hall⟩ := mapM_ok_mem _ _ _ hrd
    obtain ⟨r, hr⟩ := hall k hk
    exact ⟨r, hr, hlen r ((hmem r).mpr ⟨k, hk, hr⟩)⟩

/-! ### one bundle -/

/-- what is asked of one request bundle -/
structure BundleGood (b : Bundle) : Prop where
  id : attrTextOk b.id = true
  inc : instantOk b.inception = true
  exp : instantOk b.expiration = true
  keysNe : b.keys ≠ []
  keys : ∀ k ∈ b.keys, KeyGood k ∧ algMember k.algorithm = true

theorem mem_of_lookup {α β} [BEq α] [LawfulBEq α] {l : List (α × β)} {a : α} {b : β}
    (h : l.lookup a = some b) : (a, b) ∈ l := by
  induction l with
  | nil => simp at h
  | cons p r ih =>
    obtain ⟨x, y⟩ := p
    rw [List.lookup_cons] at h
    by_cases hx : (a == x) = true
    · simp only [hx] at h
      cases h
      have : a = x := by simpa using hx
      subst this
      exact List.mem_cons_self
    · simp only [hx] at h
      exact List.mem_cons_of_mem _ (ih h)

theorem fetched_good {ext : Externals} {mods : List P11Module} {cfg : SignerConfig} {bundle : Bundle}
    {isPublic : Bool} {names : List String} {t : Token} {s s' : TokState} {cks : List CompositeKey}
    (hc : ∀ p ∈ cfg.kskKeys, KskGood p.2)
    (h : fetchKeys ext mods cfg bundle isPublic names t s = (.ok cks, s')) :
    ∀ ck ∈ cks, KeyGood ck.dns ∧ ck.dns.flags = 257 := by
  intro ck hck
  obtain ⟨name, _, ksk, hl, hload⟩ := fetchKeys_loaded h ck hck
  exact keyGood_of_loaded (hc (name, ksk) (mem_of_lookup hl)) hload

/-- **One emitted bundle is in the writer's domain and constructible**, and the algorithm policy of each
    of its keys is one the writer can print. -/
theorem signBundle_in_domain {ext : Externals} {mods : List P11Module} {cfg : SignerConfig} {slot : Nat}
    {b rb : Bundle} {tok : Token} {s s' : TokState}
    (hv : RejectsEmpty ext.verify) (hc : ∀ p ∈ cfg.kskKeys, KskGood p.2) (hb : BundleGood b)
    (h : signBundle ext mods cfg slot b tok s = (.ok rb, s'))
    (hpol : ∀ k ∈ rb.keys, ∃ a, algorithmPolicyOfKey k = .ok a) :
    bundleOk rb = true ∧ bundleConstructible rb = true ∧
      ∀ k ∈ rb.keys, ∀ a, algorithmPolicyOfKey k = .ok a → algOk a = true := by
  obtain ⟨act, pub, rev, revoked, signing, s1, s2, s3, hact, hpub, hrev, hrevoked, hsign, hkeys, hsigs, hfin⟩ :=
    signBundle_ok h
  obtain ⟨hsame, hrb, _⟩ := finishBundle_ok hfin
  have hsame' := (sameSet_iff _ _).mp hsame
  have hspec := C02.slotFold_spec cfg.kskPolicy.ttl (pub.map (·.dns)) revoked (signing.map (·.dns)) b.keys
  rw [← hkeys] at hspec
  have gpub := fetched_good hc hpub
  have grev := fetched_good hc hrev
  have gsign := fetched_good hc hsign
  -- where every key comes from
  have hgood : ∀ x ∈ rb.keys, KeyGood x := by
    intro x hx
    rcases hspec.sound x hx with ⟨r, hr, rfl⟩ | ⟨k, hk, rfl, _⟩ | ⟨z, hz, rfl, _⟩
    · obtain ⟨hm, _, _⟩ := mapM_ok_mem _ _ _ hrevoked
      obtain ⟨ck, hck, hrk⟩ := (hm r).mp hr
      obtain ⟨g, f⟩ := grev ck hck
      exact (keyGood_revoked g f hrk).withTtl _
    · rcases List.mem_append.mp hk with hk | hk
      · obtain ⟨ck, hck, rfl⟩ := List.mem_map.mp hk
        exact (gpub ck hck).1.withTtl _
      · obtain ⟨ck, hck, rfl⟩ := List.mem_map.mp hk
        exact (gsign ck hck).1.withTtl _
    · exact (hb.keys z hz).1.withTtl _
  -- the signatures
  have hsigsNe : rb.signatures ≠ [] := by
    obtain ⟨k, hk⟩ := List.exists_mem_of_ne_nil _ hb.keysNe
    have : k.algorithm ∈ rb.signatures.map (·.algorithm) :=
      (hsame' k.algorithm).mp (List.mem_map.mpr ⟨k, hk, rfl⟩)
    intro e
    rw [e] at this
    simp at this
  have hinc : rb.inception = b.inception := by rw [hrb]
  have hexp : rb.expiration = b.expiration := by rw [hrb]
  have hsig : ∀ σ ∈ rb.signatures, sigOk σ = true ∧ (0 ≤ cfg.kskPolicy.ttl ∧ cfg.kskPolicy.ttl.toNat < 2 ^ 32) ∧
      ∀ k ∈ rb.keys, ∃ r, keyToRdata k = .ok r ∧ r.length < 65536 := by
    intro σ hσ
    obtain ⟨act', name, sk, dnsKey, raw, sigBytes, pk, _, _, hrec, hss, _⟩ :=
      C01.C01_main ext mods cfg slot b rb tok s s' h σ hσ
    obtain ⟨ksk, hl, hid, _⟩ := hrec.configured
    refine sig_in_domain hv hss ?_ (by rw [hinc]; exact hb.inc) (by rw [hexp]; exact hb.exp)
    rw [hid]
    exact (hc (name, ksk) (mem_of_lookup hl)).label
  obtain ⟨σ0, hσ0⟩ := List.exists_mem_of_ne_nil _ hsigsNe
  obtain ⟨_, httl, hrd⟩ := hsig σ0 hσ0
  have hkey : ∀ k ∈ rb.keys, keyOk k = true ∧ keyConstructible k = true ∧
      ∀ a, algorithmPolicyOfKey k = .ok a → algOk a = true := by
    intro k hk
    obtain ⟨r, hr, hlen⟩ := hrd k hk
    have hkt : k.ttl = cfg.kskPolicy.ttl := hspec.ttl k hk
    exact key_in_domain (hgood k hk) (hpol k hk) hr hlen (by rw [hkt]; exact httl.1) (by rw [hkt]; exact httl.2)
  have hkeysNe : rb.keys ≠ [] := by
    obtain ⟨k, hk⟩ := List.exists_mem_of_ne_nil _ hb.keysNe
    obtain ⟨x, hx, _⟩ := hspec.complete k (by simp [hk])
    intro e
    rw [e] at hx
    simp at hx
  refine ⟨?_, ?_, fun k hk => (hkey k hk).2.2⟩
  · simp only [bundleOk, Bool.and_eq_true, List.all_eq_true, Bool.not_eq_true', List.isEmpty_eq_false_iff,
      Option.isNone_iff_eq_none]
    refine ⟨⟨⟨⟨⟨⟨⟨?_, ?_⟩, ?_⟩, ?_⟩, hkeysNe⟩, fun k hk => (hkey k hk).1⟩, hsigsNe⟩, fun σ hσ => (hsig σ hσ).1⟩
    · rw [hrb]; exact hb.id
    · rw [hrb]
    · rw [hinc]; exact hb.inc
    · rw [hexp]; exact hb.exp
  · simp only [bundleConstructible, Bool.and_eq_true, List.all_eq_true]
    refine ⟨fun k hk => (hkey k hk).2.1, ?_⟩
    intro σ hσ
    have : σ.algorithm ∈ b.keys.map (·.algorithm) :=
      (hsame' σ.algorithm).mpr (List.mem_map.mpr ⟨σ, hσ, rfl⟩)
    obtain ⟨k, hk, e⟩ := List.mem_map.mp this
    rw [← e]
    exact (hb.keys k hk).2


/-! ### the whole response -/

theorem loaderKeyLe_stamp {a a' b b' : Bundle} (ha : a.stamp = a'.stamp) (hb : b.stamp = b'.stamp) :
    loaderKeyLe a b = loaderKeyLe a' b' := by
  simp only [Bundle.stamp, Prod.mk.injEq] at ha hb
  simp only [loaderKeyLe, ha.1, ha.2.1, ha.2.2, hb.1, hb.2.1, hb.2.2]

/-- the loader's order looks at (id, inception, expiration) only -/
theorem bundlesSorted_of_stamps : ∀ {l₁ l₂ : List Bundle}, l₁.map Bundle.stamp = l₂.map Bundle.stamp →
    bundlesSorted l₁ = bundlesSorted l₂
  | [], [], _ => rfl
  | [], _ :: _, h => by simp at h
  | _ :: _, [], h => by simp at h
  | [_], [_], _ => rfl
  | [_], _ :: _ :: _, h => by simp at h
  | _ :: _ :: _, [_], h => by simp at h
  | a :: b :: t, a' :: b' :: t', h => by
    simp only [List.map_cons, List.cons.injEq] at h
    have ih := bundlesSorted_of_stamps (l₁ := b :: t) (l₂ := b' :: t')
      (by simp only [List.map_cons, List.cons.injEq]; exact h.2)
    simp only [bundlesSorted, adjacent, List.all_cons] at ih ⊢
    rw [loaderKeyLe_stamp h.1 h.2.1, ih]

/-- what is asked of the request -/
structure RequestGood (req : Request) : Prop where
  id : attrTextOk req.id = true
  domain : attrTextOk req.domain = true
  serial0 : 0 ≤ req.serial
  pserial : printable req.serial = true
  zsk : policyOk req.zskPolicy = true
  bundlesNe : req.bundles ≠ []
  bundles : ∀ b ∈ req.bundles, BundleGood b
  sorted : bundlesSorted req.bundles = true

/-- what is asked of the configuration -/
structure ConfigGood (cfg : SignerConfig) : Prop where
  keys : ∀ p ∈ cfg.kskKeys, KskGood p.2
  d1 : durationOk cfg.kskPolicy.signaturePolicy.publishSafety = true
  d2 : durationOk cfg.kskPolicy.signaturePolicy.retireSafety = true
  d3 : durationOk cfg.kskPolicy.signaturePolicy.maxSignatureValidity = true
  d4 : durationOk cfg.kskPolicy.signaturePolicy.minSignatureValidity = true
  d5 : durationOk cfg.kskPolicy.signaturePolicy.maxValidityOverlap = true
  d6 : durationOk cfg.kskPolicy.signaturePolicy.minValidityOverlap = true

/-- **What `create_skr` returns is in the writer's domain and constructible** — every token, every hash
    function, every verifier that rejects the empty signature. -/
theorem createSkr_in_domain {ext : Externals} {mods : List P11Module} {cfg : SignerConfig} {req : Request}
    {skr : Response} {tok : Token} {s s' : TokState}
    (hv : RejectsEmpty ext.verify) (hr : RequestGood req) (hc : ConfigGood cfg)
    (h : createSkr ext mods cfg req tok s = (.ok skr, s')) :
    WriterDomain skr ∧ constructible skr = true ∧ skr.bundles.length = req.bundles.length := by
  obtain ⟨_, _, _, _, _, hstamps⟩ := createSkr_echo ext mods cfg req skr tok s s' h
  unfold createSkr at h
  obtain ⟨bundles, s1, hb, h⟩ := TokM.bind_ok _ _ _ _ _ _ h
  obtain ⟨kp, hkp, h⟩ := (TokM.lift_bind_ok_iff _ _ _ _ _ _).mp h
  simp only [TokM.pure_run, Prod.mk.injEq, Except.ok.injEq] at h
  obtain ⟨rfl, rfl⟩ := h
  simp only at hstamps ⊢
  unfold signBundles at hb
  obtain ⟨hlen, hpos⟩ := signBundlesFrom_ok hb
  obtain ⟨k1, k2, k3, k4, k5, k6, k7, _, k9⟩ := kskSignaturePolicy_ok hkp
  have hall : ∀ rb ∈ bundles, bundleOk rb = true ∧ bundleConstructible rb = true ∧
      ∀ k ∈ rb.keys, ∀ a, algorithmPolicyOfKey k = .ok a → algOk a = true := by
    intro rb hrb
    obtain ⟨i, hi, rfl⟩ := List.mem_iff_getElem.mp hrb
    have hi' : i < req.bundles.length := by omega
    obtain ⟨rb', sa, sb, hget, hsign⟩ := hpos i req.bundles[i] (List.getElem?_eq_getElem hi')
    rw [List.getElem?_eq_getElem hi] at hget
    simp only [Option.some.injEq] at hget
    subst hget
    exact signBundle_in_domain hv hc.keys (hr.bundles _ (List.getElem_mem hi')) hsign (k9 _ hrb)
  have hne : bundles ≠ [] := by
    intro e
    rw [e] at hlen
    exact hr.bundlesNe (List.eq_nil_of_length_eq_zero hlen.symm)
  have hksk : policyOk kp = true := by
    simp only [policyOk, Bool.and_eq_true, List.all_eq_true, Bool.not_eq_true', List.isEmpty_eq_false_iff]
    rw [k1, k2, k3, k4, k5, k6]
    refine ⟨⟨⟨⟨⟨⟨⟨hc.d1, hc.d2⟩, hc.d3⟩, hc.d4⟩, hc.d5⟩, hc.d6⟩, ?_⟩, ?_⟩
    · obtain ⟨rb, hrb⟩ := List.exists_mem_of_ne_nil _ hne
      have hkne := (bundleOk_parts rb (hall rb hrb).1).keysNe
      obtain ⟨k, hk⟩ := List.exists_mem_of_ne_nil _ hkne
      obtain ⟨a, ha⟩ := k9 rb hrb k hk
      have : a ∈ kp.algorithms := (k7 a).mpr ⟨rb, hrb, k, hk, ha⟩
      intro e
      rw [e] at this
      simp at this
    · intro a ha
      obtain ⟨rb, hrb, k, hk, hak⟩ := (k7 a).mp ha
      exact (hall rb hrb).2.2 k hk a hak
  refine ⟨?_, ?_, hlen⟩
  · simp only [WriterDomain, writerDomain, Bool.and_eq_true, List.all_eq_true, Bool.not_eq_true',
      List.isEmpty_eq_false_iff, decide_eq_true_eq, Option.isNone_none]
    refine ⟨⟨⟨⟨⟨⟨⟨⟨⟨trivial, hr.id⟩, hr.domain⟩, hr.serial0⟩, hr.pserial⟩, hksk⟩, hr.zsk⟩, hne⟩,
      fun rb hrb => (hall rb hrb).1⟩, ?_⟩
    rw [bundlesSorted_of_stamps hstamps]
    exact hr.sorted
  · simp only [constructible, List.all_eq_true]
    exact fun rb hrb => (hall rb hrb).2.1

end Kskm.Emitted
