/-
  The timestamp reader (CPython 3.12 `fromisoformat`, C level) on the writer's fixed 25-character layout,
  and `datetime_roundtrip` on characters.
-/
import KskmProofs.Lemmas.C11Time

namespace Kskm

/-! ### the timestamp reader on the writer's layout -/

theorem digit_not_tz (c : Char) (h : c.isDigit = true) : isTzStart c = false := by
  rw [Char.isDigit] at h
  simp only [isTzStart, Bool.or_eq_false_iff, decide_eq_false_iff_not]
  simp only [Bool.and_eq_true, decide_eq_true_eq] at h
  refine ⟨⟨?_, ?_⟩, ?_⟩ <;> intro e <;> subst e <;> revert h <;> decide

theorem digit_ascii (c : Char) (h : c.isDigit = true) : c.toNat < 128 := by
  rw [Char.isDigit] at h
  simp only [Bool.and_eq_true, decide_eq_true_eq] at h
  have := h.2
  show c.val.toNat < 128
  have : c.val.toNat ≤ 57 := by
    have := UInt32.le_iff_toNat_le.mp h.2
    simpa using this
  omega

theorem digit_ne_W (c : Char) (h : c.isDigit = true) : c ≠ 'W' := by
  intro e; subst e; revert h; decide

theorem hmsLoop_colon (k : Nat) (r r2 : List Char) (rem : Int) (hasSep : Bool) (vals : List Nat) (v : Nat)
    (hd : parseDigitsN 2 r 0 = some (v, ':' :: r2)) (hrem : ¬ (rem - 3 ≤ 0))
    (hs : vals.isEmpty = true ∨ hasSep = true) :
    hmsLoop (k + 1) r rem hasSep vals = hmsLoop k r2 (rem - 3) true (vals ++ [v]) := by
  have hsep : (if vals.isEmpty = true then true else hasSep) = true := by
    rcases hs with h | h
    · simp [h]
    · cases hv : vals.isEmpty <;> simp [h]
  simp only [hmsLoop, hd, hrem, ↓reduceIte, peek, List.headD_cons, beq_self_eq_true,
    List.drop_succ_cons, List.drop_zero, hsep, Bool.and_self]

theorem hmsLoop_end (k : Nat) (r r1 : List Char) (rem : Int) (hasSep : Bool) (vals : List Nat) (v : Nat)
    (hd : parseDigitsN 2 r 0 = some (v, r1)) (hrem : rem - 3 ≤ 0) :
    hmsLoop (k + 1) r rem hasSep vals = some { vals := vals ++ [v], us := 0, more := peek r1 ≠ '\x00' } := by
  simp only [hmsLoop, hd, hrem, ↓reduceIte]

/-- `HH:MM:SS+00:00` -/
theorem parseIsoTime_layout (a1 a0 b1 b0 c1 c0 : Char)
    (ha1 : a1.isDigit = true) (ha0 : a0.isDigit = true) (hb1 : b1.isDigit = true) (hb0 : b0.isDigit = true)
    (hc1 : c1.isDigit = true) (hc0 : c0.isDigit = true) :
    parseIsoTime (a1 :: a0 :: ':' :: b1 :: b0 :: ':' :: c1 :: c0 :: "+00:00".toList)
      = some { hour := (0 * 10 + (a1.toNat - 48)) * 10 + (a0.toNat - 48),
               minute := (0 * 10 + (b1.toNat - 48)) * 10 + (b0.toNat - 48),
               second := (0 * 10 + (c1.toNat - 48)) * 10 + (c0.toNat - 48), us := 0, tzUtc := some true } := by
  have t1 := digit_not_tz a1 ha1; have t2 := digit_not_tz a0 ha0
  have t3 := digit_not_tz b1 hb1; have t4 := digit_not_tz b0 hb0
  have t5 := digit_not_tz c1 hc1; have t6 := digit_not_tz c0 hc0
  have tc : isTzStart ':' = false := by decide
  have tp : isTzStart '+' = true := by decide
  have lit : "+00:00".toList = ['+', '0', '0', ':', '0', '0'] := by decide
  have hz : parseHms ['0', '0', ':', '0', '0'] 5 = some { vals := [0, 0], us := 0, more := false } := by decide
  have d1 : parseDigitsN 2 (a1 :: a0 :: ':' :: b1 :: b0 :: ':' :: c1 :: c0 :: ['+', '0', '0', ':', '0', '0']) 0
      = some ((0 * 10 + (a1.toNat - 48)) * 10 + (a0.toNat - 48), ':' :: b1 :: b0 :: ':' :: c1 :: c0 :: ['+', '0', '0', ':', '0', '0']) := by
    simp [parseDigitsN, ha1, ha0]
  have d2 : parseDigitsN 2 (b1 :: b0 :: ':' :: c1 :: c0 :: ['+', '0', '0', ':', '0', '0']) 0
      = some ((0 * 10 + (b1.toNat - 48)) * 10 + (b0.toNat - 48), ':' :: c1 :: c0 :: ['+', '0', '0', ':', '0', '0']) := by
    simp [parseDigitsN, hb1, hb0]
  have d3 : parseDigitsN 2 (c1 :: c0 :: ['+', '0', '0', ':', '0', '0']) 0
      = some ((0 * 10 + (c1.toNat - 48)) * 10 + (c0.toNat - 48), ['+', '0', '0', ':', '0', '0']) := by
    simp [parseDigitsN, hc1, hc0]
  have hp : parseHms (a1 :: a0 :: ':' :: b1 :: b0 :: ':' :: c1 :: c0 :: ['+', '0', '0', ':', '0', '0']) 8
      = some { vals := [(0 * 10 + (a1.toNat - 48)) * 10 + (a0.toNat - 48), (0 * 10 + (b1.toNat - 48)) * 10 + (b0.toNat - 48),
                (0 * 10 + (c1.toNat - 48)) * 10 + (c0.toNat - 48)], us := 0, more := true } := by
    unfold parseHms
    rw [hmsLoop_colon 2 _ _ _ _ _ _ d1 (by decide) (Or.inl rfl)]
    rw [hmsLoop_colon 1 _ _ _ _ _ _ d2 (by decide) (Or.inr rfl)]
    rw [hmsLoop_end 0 _ _ _ _ _ _ d3 (by decide)]
    rfl
  rw [lit]
  simp only [parseIsoTime, List.isEmpty_cons, Bool.false_eq_true, ↓reduceIte, List.takeWhile, t1, t2, t3,
    t4, t5, t6, tc, tp, Bool.not_false, Bool.not_true, List.length_cons, List.length_nil, hp]
  have hne : ('+' : Char) ≠ 'Z' := by decide
  simp only [List.drop_succ_cons, List.drop_zero, Nat.zero_add, hne, ↓reduceIte, List.length_cons, List.length_nil, hz,
    Bool.false_eq_true, List.getD_cons_zero, List.getD_cons_succ, List.getD_nil]
  rfl
end Kskm

namespace Kskm

theorem any_nonascii_false (cs : List Char) (n k : Nat) (h : ∀ c ∈ cs, c.toNat < 128) :
    ((cs.zipIdx k).any fun (c, i) => decide (128 ≤ c.toNat) && i != n) = false := by
  induction cs generalizing k with
  | nil => rfl
  | cons a t ih =>
    have ha : ¬ (128 ≤ a.toNat) := by have := h a (by simp); omega
    simp only [List.zipIdx_cons, List.any_cons, ha, decide_false, Bool.false_and, Bool.false_or]
    exact ih _ (fun c hc => h c (by simp [hc]))

/-- the reader on the writer's 25-character layout, digits abstract -/
theorem fromIso_layout_chars (y3 y2 y1 y0 m1 m0 d1 d0 h1 h0 n1 n0 s1 s0 : Char)
    (hy3 : y3.isDigit = true) (hy2 : y2.isDigit = true) (hy1 : y1.isDigit = true) (hy0 : y0.isDigit = true)
    (hm1 : m1.isDigit = true) (hm0 : m0.isDigit = true) (hd1 : d1.isDigit = true) (hd0 : d0.isDigit = true)
    (hh1 : h1.isDigit = true) (hh0 : h0.isDigit = true) (hn1 : n1.isDigit = true) (hn0 : n0.isDigit = true)
    (hs1 : s1.isDigit = true) (hs0 : s0.isDigit = true) :
    fromIsoChars [y3, y2, y1, y0, '-', m1, m0, '-', d1, d0, 'T', h1, h0, ':', n1, n0, ':', s1, s0, '+', '0', '0', ':', '0', '0']
      = (let year := (((0 * 10 + (y3.toNat - 48)) * 10 + (y2.toNat - 48)) * 10 + (y1.toNat - 48)) * 10 + (y0.toNat - 48)
         let month := (0 * 10 + (m1.toNat - 48)) * 10 + (m0.toNat - 48)
         let day := (0 * 10 + (d1.toNat - 48)) * 10 + (d0.toNat - 48)
         let hour := (0 * 10 + (h1.toNat - 48)) * 10 + (h0.toNat - 48)
         let minute := (0 * 10 + (n1.toNat - 48)) * 10 + (n0.toNat - 48)
         let second := (0 * 10 + (s1.toNat - 48)) * 10 + (s0.toNat - 48)
         let c : Civil := { year := year, month := month, day := day }
         if !(decide (1 ≤ year) && c.valid && decide (hour ≤ 23) && decide (minute ≤ 59) && decide (second ≤ 59))
         then err .value
         else pure (daysOfCivil c * usPerDay + ((hour * 3600 + minute * 60 + second : Nat) : Int) * usPerSecond + ((0 : Nat) : Int))) := by
  have hascii : ∀ c ∈ [y3, y2, y1, y0, '-', m1, m0, '-', d1, d0, 'T', h1, h0, ':', n1, n0, ':', s1, s0, '+', '0', '0', ':', '0', '0'],
      c.toNat < 128 := by
    intro c hc
    simp only [List.mem_cons, List.not_mem_nil, or_false] at hc
    rcases hc with rfl | rfl | rfl | rfl | rfl | rfl | rfl | rfl | rfl | rfl | rfl | rfl | rfl | rfl | rfl | rfl | rfl
      | rfl | rfl | rfl | rfl | rfl | rfl | rfl | rfl
    all_goals first | (apply digit_ascii; assumption) | decide
  have htime := parseIsoTime_layout h1 h0 n1 n0 s1 s0 hh1 hh0 hn1 hn0 hs1 hs0
  have lit : "+00:00".toList = ['+', '0', '0', ':', '0', '0'] := by decide
  rw [lit] at htime
  have hW : m1 ≠ 'W' := digit_ne_W m1 hm1
  unfold fromIsoChars
  simp only [List.length_cons, List.length_nil, List.getD_cons_succ, List.getD_cons_zero, ↓reduceIte,
    any_nonascii_false _ _ _ hascii, Bool.false_eq_true, parseDigitsN, hy3, hy2, hy1, hy0, hm1, hm0, hd1, hd0, peek,
    List.headD_cons, hW, Bool.true_and, ne_eq, not_true_eq_false, decide_false, List.drop_succ_cons, List.drop_zero, htime]
  rw [if_neg (by decide)]
  have hst : ¬ (some true = some false) := by decide
  simp only [hst, ↓reduceIte]

theorem stripTrailingZ_snoc (l : List Char) (c : Char) (hc : c ≠ 'Z') : stripTrailingZ (l ++ [c]) = l ++ [c] := by
  simp [stripTrailingZ, List.reverse_append, List.dropWhile, hc]

theorem sub48 (k : Nat) (h : k < 10) : (Nat.digitChar k).toNat - 48 = k := Nat.toNat_digitChar_sub_48_of_lt_ten h

/-- `datetime_roundtrip` on characters -/
theorem datetime_roundtrip_chars (t : Int) (hs : t % 1000000 = 0)
    (hy1 : 1000 ≤ (civilOfDays (epochSeconds t / 86400)).year)
    (hy2 : (civilOfDays (epochSeconds t / 86400)).year ≤ 9999) :
    parseDatetimeChars (formatDatetimeChars t) = .ok t := by
  have hvalid := civilOfDays_valid (epochSeconds t / 86400)
  have hback := daysOfCivil_civilOfDays (epochSeconds t / 86400)
  unfold formatDatetimeChars
  simp only
  generalize hc : civilOfDays (epochSeconds t / 86400) = c at *
  obtain ⟨year, month, day⟩ := c
  simp only at hy1 hy2
  obtain ⟨Y, hY⟩ := Int.eq_ofNat_of_zero_le (by omega : 0 ≤ year)
  subst hY
  have hY1 : 1000 ≤ Y := by omega
  have hY2 : Y ≤ 9999 := by omega
  have hsod0 : 0 ≤ epochSeconds t % 86400 := Int.emod_nonneg _ (by decide)
  obtain ⟨sod, hsod⟩ := Int.eq_ofNat_of_zero_le hsod0
  have hsodlt : sod < 86400 := by omega
  have hval := hvalid
  simp only [Civil.valid, Bool.and_eq_true, decide_eq_true_eq] at hval
  obtain ⟨⟨⟨hmo1, hmo12⟩, hda1⟩, hdim⟩ := hval
  have hda31 : day ≤ 31 := by
    have : daysInMonth (Y : Int) month ≤ 31 := by
      unfold daysInMonth
      repeat' split
      all_goals omega
    omega
  have hys : yearStr (Y : Int) = Nat.toDigits 10 Y := by
    unfold yearStr; rw [if_neg (by omega)]; simp
  have lit : "+00:00".toList = ['+', '0', '0', ':', '0', '0'] := by decide
  simp only [hsod, Int.toNat_natCast, hys, toDigits_four Y hY1 hY2, pad2, lit, List.cons_append, List.nil_append,
    List.append_assoc]
  unfold parseDatetimeChars
  have hsplit : ∀ (l : List Char), l ++ ['0'] = l ++ ['0'] := fun _ => rfl
  rw [show [Nat.digitChar (Y / 1000), Nat.digitChar (Y / 100 % 10), Nat.digitChar (Y / 10 % 10), Nat.digitChar (Y % 10), '-',
      Nat.digitChar (month / 10 % 10), Nat.digitChar (month % 10), '-', Nat.digitChar (day / 10 % 10),
      Nat.digitChar (day % 10), 'T', Nat.digitChar (sod / 3600 / 10 % 10), Nat.digitChar (sod / 3600 % 10), ':',
      Nat.digitChar (sod / 60 % 60 / 10 % 10), Nat.digitChar (sod / 60 % 60 % 10), ':', Nat.digitChar (sod % 60 / 10 % 10),
      Nat.digitChar (sod % 60 % 10), '+', '0', '0', ':', '0', '0']
    = [Nat.digitChar (Y / 1000), Nat.digitChar (Y / 100 % 10), Nat.digitChar (Y / 10 % 10), Nat.digitChar (Y % 10), '-',
      Nat.digitChar (month / 10 % 10), Nat.digitChar (month % 10), '-', Nat.digitChar (day / 10 % 10),
      Nat.digitChar (day % 10), 'T', Nat.digitChar (sod / 3600 / 10 % 10), Nat.digitChar (sod / 3600 % 10), ':',
      Nat.digitChar (sod / 60 % 60 / 10 % 10), Nat.digitChar (sod / 60 % 60 % 10), ':', Nat.digitChar (sod % 60 / 10 % 10),
      Nat.digitChar (sod % 60 % 10), '+', '0', '0', ':', '0'] ++ ['0'] from rfl]
  rw [stripTrailingZ_snoc _ _ (by decide)]
  simp only [List.cons_append, List.nil_append]
  have b1 : Y / 1000 < 10 := by omega
  have b2 : Y / 100 % 10 < 10 := Nat.mod_lt _ (by decide)
  have b3 : Y / 10 % 10 < 10 := Nat.mod_lt _ (by decide)
  have b4 : Y % 10 < 10 := Nat.mod_lt _ (by decide)
  have b5 : month / 10 % 10 < 10 := Nat.mod_lt _ (by decide)
  have b6 : month % 10 < 10 := Nat.mod_lt _ (by decide)
  have b7 : day / 10 % 10 < 10 := Nat.mod_lt _ (by decide)
  have b8 : day % 10 < 10 := Nat.mod_lt _ (by decide)
  have b9 : sod / 3600 / 10 % 10 < 10 := Nat.mod_lt _ (by decide)
  have b10 : sod / 3600 % 10 < 10 := Nat.mod_lt _ (by decide)
  have b11 : sod / 60 % 60 / 10 % 10 < 10 := Nat.mod_lt _ (by decide)
  have b12 : sod / 60 % 60 % 10 < 10 := Nat.mod_lt _ (by decide)
  have b13 : sod % 60 / 10 % 10 < 10 := Nat.mod_lt _ (by decide)
  have b14 : sod % 60 % 10 < 10 := Nat.mod_lt _ (by decide)
  rw [fromIso_layout_chars _ _ _ _ _ _ _ _ _ _ _ _ _ _ (isDigit_digitChar_lt b1) (isDigit_digitChar_lt b2)
    (isDigit_digitChar_lt b3) (isDigit_digitChar_lt b4) (isDigit_digitChar_lt b5) (isDigit_digitChar_lt b6)
    (isDigit_digitChar_lt b7) (isDigit_digitChar_lt b8) (isDigit_digitChar_lt b9) (isDigit_digitChar_lt b10)
    (isDigit_digitChar_lt b11) (isDigit_digitChar_lt b12) (isDigit_digitChar_lt b13) (isDigit_digitChar_lt b14)]
  simp only [sub48 _ b1, sub48 _ b2, sub48 _ b3, sub48 _ b4, sub48 _ b5, sub48 _ b6, sub48 _ b7, sub48 _ b8, sub48 _ b9,
    sub48 _ b10, sub48 _ b11, sub48 _ b12, sub48 _ b13, sub48 _ b14]
  have e1 : (((0 * 10 + Y / 1000) * 10 + Y / 100 % 10) * 10 + Y / 10 % 10) * 10 + Y % 10 = Y := by omega
  have e2 : (0 * 10 + month / 10 % 10) * 10 + month % 10 = month := by omega
  have e3 : (0 * 10 + day / 10 % 10) * 10 + day % 10 = day := by omega
  have e4 : (0 * 10 + sod / 3600 / 10 % 10) * 10 + sod / 3600 % 10 = sod / 3600 := by omega
  have e5 : (0 * 10 + sod / 60 % 60 / 10 % 10) * 10 + sod / 60 % 60 % 10 = sod / 60 % 60 := by omega
  have e6 : (0 * 10 + sod % 60 / 10 % 10) * 10 + sod % 60 % 10 = sod % 60 := by omega
  simp only [e1, e2, e3, e4, e5, e6, hvalid]
  have c1 : (1 ≤ Y) := by omega
  have c2 : sod / 3600 ≤ 23 := by omega
  have c3 : sod / 60 % 60 ≤ 59 := by omega
  have c4 : sod % 60 ≤ 59 := by omega
  simp only [c1, c2, c3, c4, decide_true, Bool.and_self, Bool.not_true, Bool.false_eq_true, ↓reduceIte, hback, pure,
    Except.pure]
  congr 1
  simp only [epochSeconds, usPerSecond, usPerDay] at *
  omega
end Kskm
