/-
  The glue cannot tell `DictEq` values apart (C12, attribute order).

  Every dynamic operation the glue of Kskm/XmlGlue.lean performs on the parsed tree — `v[k]`, `v.get(k)`,
  `k in v`, `not v`, `isinstance(v, list)`, `int(v)`, … — gives the same answer (or `DictEq` sub-values) on
  `DictEq` inputs; the one operation that does look at dict order, `for x in v` over a dict (only reached on
  the pinned tree, findings F11 / F12), fails the same way whatever the order.  Hence
  `requestFromDict_congr` / `responseFromDict_congr`: `DictEq` dicts give EQUAL results, error class included.
-/
import KskmProofs.Lemmas.XmlDictEq
namespace Kskm.Xml

/-! ### relations on outcomes -/

def ResRel (x y : Res XVal) : Prop :=
  match x, y with
  | .ok u, .ok v => DictEq u v
  | .error e, .error e' => e = e'
  | _, _ => False

inductive OptRel : Option XVal → Option XVal → Prop
  | none : OptRel none none
  | some {u v : XVal} : DictEq u v → OptRel (some u) (some v)

def ResOptRel (x y : Res (Option XVal)) : Prop :=
  match x, y with
  | .ok u, .ok v => OptRel u v
  | .error e, .error e' => e = e'
  | _, _ => False

theorem bind_rel {α} {x y : Res XVal} {f g : XVal → Res α} (h : ResRel x y)
    (hfg : ∀ u v, DictEq u v → f u = g v) : (x >>= f) = (y >>= g) := by
  cases x with
  | error e =>
    cases y with
    | error e' => simp only [ResRel] at h; subst h; rfl
    | ok v => simp [ResRel] at h
  | ok u =>
    cases y with
    | error e' => simp [ResRel] at h
    | ok v => exact hfg u v h

theorem bind_relOpt {α} {x y : Res (Option XVal)} {f g : Option XVal → Res α} (h : ResOptRel x y)
    (hfg : ∀ u v, OptRel u v → f u = g v) : (x >>= f) = (y >>= g) := by
  cases x with
  | error e =>
    cases y with
    | error e' => simp only [ResOptRel] at h; subst h; rfl
    | ok v => simp [ResOptRel] at h
  | ok u =>
    cases y with
    | error e' => simp [ResOptRel] at h
    | ok v => exact hfg u v h

theorem bind_eq {α β} {x y : Res β} {f g : β → Res α} (h : x = y) (hfg : ∀ a, f a = g a) :
    (x >>= f) = (y >>= g) := by
  subst h
  cases x with
  | error e => rfl
  | ok a => exact hfg a

/-! ### the dynamic operations -/

theorem lookup_rel {d d' : Dict} (h : DictRel d d') (k : List Char) : OptRel (d.lookup k) (d'.lookup k) := by
  rcases h.lookups k with ⟨h1, h2⟩ | ⟨v, v', h1, h2, hr⟩
  · rw [h1, h2]; exact .none
  · rw [h1, h2]; exact .some hr

theorem getItem_congr {a b : XVal} (h : DictEq a b) (k : String) : ResRel (a.getItem k) (b.getItem k) := by
  cases h with
  | str s => simp [XVal.getItem, ResRel, err]
  | list _ => simp [XVal.getItem, ResRel, err]
  | @dict d d' h1 h2 =>
    have := lookup_rel ⟨h1, h2⟩ k.toList
    simp only [XVal.getItem]
    generalize List.lookup k.toList d = x, List.lookup k.toList d' = y at this
    cases this with
    | none => simp [ResRel, err]
    | some hr => simpa [ResRel, pure, Except.pure] using hr

theorem get?_congr {a b : XVal} (h : DictEq a b) (k : String) : ResOptRel (a.get? k) (b.get? k) := by
  cases h with
  | str s => simp [XVal.get?, ResOptRel, err]
  | list _ => simp [XVal.get?, ResOptRel, err]
  | dict h1 h2 =>
    have := lookup_rel ⟨h1, h2⟩ k.toList
    simpa [XVal.get?, ResOptRel, pure, Except.pure] using this

theorem any_key_eq_isSome (d : Dict) (k : List Char) :
    d.any (fun p => decide (p.1 = k)) = (d.lookup k).isSome := by
  induction d with
  | nil => rfl
  | cons p r ih =>
    obtain ⟨pk, pv⟩ := p
    simp only [List.any_cons, List.lookup_cons]
    by_cases hk : pk = k
    · subst hk; simp
    · have : (k == pk) = false := by simpa using fun h : k = pk => hk h.symm
      simp [hk, this, ih]

theorem DictEq.eq_str_iff {a b : XVal} (h : DictEq a b) (s : List Char) : a = .str s ↔ b = .str s := by
  cases h <;> simp

theorem any_eq_str_congr : ∀ {l l' : List XVal}, ListEq l l' → ∀ (s : List Char),
    l.any (fun x => decide (x = .str s)) = l'.any (fun x => decide (x = .str s))
  | _, _, .nil, _ => rfl
  | _, _, .cons h t, s => by
    simp only [List.any_cons]
    rw [any_eq_str_congr t s]
    congr 1
    exact decide_eq_decide.mpr (h.eq_str_iff s)

theorem contains_congr {a b : XVal} (h : DictEq a b) (k : String) : a.contains k = b.contains k := by
  cases h with
  | str s => rfl
  | list hl => exact any_eq_str_congr hl _
  | dict h1 h2 =>
    simp only [XVal.contains]
    rw [any_key_eq_isSome, any_key_eq_isSome]
    have := h1 k.toList
    cases hx : List.lookup k.toList _ <;> cases hy : List.lookup k.toList _ <;> simp_all

theorem dictRel_isEmpty {d d' : Dict} (h : DictRel d d') : d.isEmpty = d'.isEmpty := by
  cases d with
  | nil =>
    cases d' with
    | nil => rfl
    | cons p r =>
      obtain ⟨pk, pv⟩ := p
      have := (h.1 pk).mp rfl
      simp [List.lookup] at this
  | cons p r =>
    cases d' with
    | nil =>
      obtain ⟨pk, pv⟩ := p
      have := (h.1 pk).mpr rfl
      simp [List.lookup] at this
    | cons _ _ => rfl

theorem truthy_congr {a b : XVal} (h : DictEq a b) : a.truthy = b.truthy := by
  cases h with
  | str s => rfl
  | list hl => cases hl <;> rfl
  | dict h1 h2 => simp only [XVal.truthy]; rw [dictRel_isEmpty ⟨h1, h2⟩]

theorem asList_congr {a b : XVal} (h : DictEq a b) : ListEq a.asList b.asList := by
  cases h with
  | str s => exact .cons (.str s) .nil
  | list hl => exact hl
  | dict h1 h2 => exact .cons (.dict h1 h2) .nil

theorem intOf_congr {a b : XVal} (h : DictEq a b) : intOf a = intOf b := by cases h <;> rfl
theorem strictStr_congr {a b : XVal} (h : DictEq a b) : strictStr a = strictStr b := by cases h <;> rfl
theorem bytesOf_congr {a b : XVal} (h : DictEq a b) : bytesOf a = bytesOf b := by cases h <;> rfl
theorem datetimeOf_congr {a b : XVal} (h : DictEq a b) : datetimeOf a = datetimeOf b := by cases h <;> rfl
theorem typeCoveredOf_congr {a b : XVal} (h : DictEq a b) : typeCoveredOf a = typeCoveredOf b := by cases h <;> rfl

theorem durationOf_congr {a b : XVal} (h : DictEq a b) : durationOf a = durationOf b := by
  unfold durationOf
  rw [truthy_congr h]
  cases h <;> rfl

theorem algorithmOf_congr {a b : XVal} (h : DictEq a b) : algorithmOf a = algorithmOf b := by
  unfold algorithmOf
  rw [intOf_congr h]

theorem mapM_congr {α} {f : XVal → Res α} (hf : ∀ u v, DictEq u v → f u = f v) :
    ∀ {l l' : List XVal}, ListEq l l' → l.mapM f = l'.mapM f
  | _, _, .nil => rfl
  | _, _, .cons h t => by
    rw [List.mapM_cons, List.mapM_cons, hf _ _ h, mapM_congr hf t]

/-- iterating over a DICT yields its keys — strings; a function that fails on every string fails on the
    first key, whichever it is -/
theorem mapM_iter_dict {α} {f : XVal → Res α} {e : Fail} (hf : ∀ s, f (.str s) = .error e) (d : Dict) :
    (XVal.iter (.dict d)).mapM f = if d.isEmpty then .ok [] else .error e := by
  cases d with
  | nil => rfl
  | cons p r =>
    simp only [XVal.iter, List.map_cons, List.mapM_cons, hf]
    rfl

theorem iter_mapM_congr {α} {f : XVal → Res α} {e : Fail} (hf : ∀ u v, DictEq u v → f u = f v)
    (hs : ∀ s, f (.str s) = .error e) {a b : XVal} (h : DictEq a b) : a.iter.mapM f = b.iter.mapM f := by
  cases h with
  | str s => rfl
  | list hl => exact mapM_congr hf hl
  | dict h1 h2 => rw [mapM_iter_dict hs, mapM_iter_dict hs, dictRel_isEmpty ⟨h1, h2⟩]

/-! ### the glue, function by function -/

/-- the answer of an atomic conversion on `DictEq` arguments -/
macro "gleaf" : tactic => `(tactic| first
  | rfl
  | exact intOf_congr (by assumption)
  | exact strictStr_congr (by assumption)
  | exact bytesOf_congr (by assumption)
  | exact datetimeOf_congr (by assumption)
  | exact durationOf_congr (by assumption)
  | exact algorithmOf_congr (by assumption)
  | exact typeCoveredOf_congr (by assumption))

/-- one `←` of a `do` block -/
macro "gstep" : tactic => `(tactic| first
  | (refine bind_rel (getItem_congr (by assumption) _) ?_; intro _ _ _)
  | (refine bind_relOpt (get?_congr (by assumption) _) ?_; intro _ _ _)
  | (refine bind_eq (by gleaf) ?_; intro _))

theorem algPolicyOf_congr {a b : XVal} (h : DictEq a b) : algPolicyOf a = algPolicyOf b := by
  unfold algPolicyOf
  repeat gstep
  split
  · repeat gstep
    rfl
  · split
    · repeat gstep
      rfl
    · split
      · repeat gstep
        rfl
      · rfl

theorem signatureAlgorithmsOf_congr {a b : XVal} (h : DictEq a b) :
    signatureAlgorithmsOf a = signatureAlgorithmsOf b := by
  unfold signatureAlgorithmsOf
  rw [mapM_congr (fun _ _ => algPolicyOf_congr) (asList_congr h)]

theorem signaturePolicyOf_congr {a b : XVal} (h : DictEq a b) : signaturePolicyOf a = signaturePolicyOf b := by
  unfold signaturePolicyOf
  repeat gstep
  refine bind_eq (signatureAlgorithmsOf_congr (by assumption)) ?_
  intro _
  rfl

theorem keyOf_congr {a b : XVal} (h : DictEq a b) : keyOf a = keyOf b := by
  unfold keyOf
  repeat gstep
  rfl

theorem keysOf_congr {a b : XVal} (h : DictEq a b) : keysOf a = keysOf b := by
  unfold keysOf
  rw [mapM_congr (fun _ _ => keyOf_congr) (asList_congr h)]

theorem signatureOf_congr {a b : XVal} (h : DictEq a b) : signatureOf a = signatureOf b := by
  unfold signatureOf
  repeat gstep
  cases ‹OptRel _ _› with
  | none => rfl
  | some hxy =>
    dsimp only
    repeat gstep
    rfl

theorem signaturesOf_congr {a b : XVal} (h : DictEq a b) : signaturesOf a = signaturesOf b := by
  unfold signaturesOf
  rw [mapM_congr (fun _ _ => signatureOf_congr) (asList_congr h)]

/-- the body of the loop of `signers_from_list` -/
def signerStep (this : XVal) : Res (Option String) := do
  let s ← strictStr (← (← this.getItem "attrs").getItem "keyIdentifier")
  pure (some s)

theorem signerStep_congr {a b : XVal} (h : DictEq a b) : signerStep a = signerStep b := by
  unfold signerStep
  repeat gstep
  rfl

theorem signersOf_congr (gs : GlueSwitches) {a b : XVal} (h : DictEq a b) : signersOf gs a = signersOf gs b := by
  unfold signersOf
  rw [truthy_congr h]
  split
  · rfl
  · refine bind_eq ?_ (fun _ => rfl)
    cases gs.wrapsSingleSigner with
    | true => exact mapM_congr (fun _ _ => signerStep_congr) (asList_congr h)
    | false => exact iter_mapM_congr (e := .error .type) (fun _ _ => signerStep_congr) (fun _ => rfl) h

theorem getD_rel {o o' : Option XVal} (h : OptRel o o') {d d' : XVal} (hd : DictEq d d') :
    DictEq (o.getD d) (o'.getD d') := by
  cases h with
  | none => exact hd
  | some hr => exact hr

macro "gleaf2" : tactic => `(tactic| first
  | gleaf
  | exact keysOf_congr (by assumption)
  | exact signaturesOf_congr (by assumption)
  | exact signaturePolicyOf_congr (by assumption)
  | exact signersOf_congr _ (getD_rel (by assumption) (DictEq.refl _)))

macro "gstep2" : tactic => `(tactic| first
  | gstep
  | (refine bind_eq (by gleaf2) ?_; intro _))

theorem requestBundleOf_congr (gs : GlueSwitches) {a b : XVal} (h : DictEq a b) :
    requestBundleOf gs a = requestBundleOf gs b := by
  unfold requestBundleOf
  repeat gstep
  cases ‹OptRel _ _› with
  | none => rfl
  | some hxy =>
    dsimp only
    rw [truthy_congr hxy]
    split
    · rfl
    · refine bind_eq ?_ ?_
      · congr 1
        funext name
        gstep
        rw [contains_congr (by assumption)]
      · intro _
        repeat gstep2
        rfl

theorem requestBundlesOf_congr (gs : GlueSwitches) {l l' : List XVal} (h : ListEq l l') :
    requestBundlesOf gs l = requestBundlesOf gs l' := by
  unfold requestBundlesOf
  rw [mapM_congr (fun _ _ => requestBundleOf_congr gs) h]

theorem timestampOf_congr {a b : XVal} (h : DictEq a b) : timestampOf a = timestampOf b := by
  unfold timestampOf
  rw [contains_congr h]
  split
  · repeat gstep
    rfl
  · rfl

macro "gstep3" : tactic => `(tactic| first
  | gstep2
  | (refine bind_eq (timestampOf_congr (by assumption)) ?_; intro _))

/-- **`request_from_xml` after the reader: `DictEq` dicts give the same `Request` (or the same error).** -/
theorem requestFromDict_congr (gs : GlueSwitches) {a b : XVal} (h : DictEq a b) :
    requestFromDict gs a = requestFromDict gs b := by
  unfold requestFromDict
  repeat gstep
  dsimp only
  refine bind_eq (requestBundlesOf_congr gs (asList_congr (getD_rel (by assumption) (DictEq.refl _)))) ?_
  intro _
  repeat gstep3
  rfl

theorem responseBundleOf_congr {a b : XVal} (h : DictEq a b) : responseBundleOf a = responseBundleOf b := by
  unfold responseBundleOf
  repeat gstep2
  rfl

theorem responseBundlesOf_congr (gs : GlueSwitches) {a b : XVal} (h : DictEq a b) :
    responseBundlesOf gs a = responseBundlesOf gs b := by
  unfold responseBundlesOf
  refine bind_eq ?_ (fun _ => rfl)
  cases gs.wrapsSingleResponseBundle with
  | true => exact mapM_congr (fun _ _ => responseBundleOf_congr) (asList_congr h)
  | false => exact iter_mapM_congr (e := .error .type) (fun _ _ => responseBundleOf_congr) (fun _ => rfl) h

/-- **`response_from_xml` after the reader: `DictEq` dicts give the same `Response` (or the same error).** -/
theorem responseFromDict_congr (gs : GlueSwitches) {a b : XVal} (h : DictEq a b) :
    responseFromDict gs a = responseFromDict gs b := by
  unfold responseFromDict
  repeat gstep
  refine bind_eq (responseBundlesOf_congr gs (by assumption)) ?_
  intro _
  repeat gstep3
  rfl

end Kskm.Xml
