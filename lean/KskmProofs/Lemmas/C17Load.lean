/- Helper lemmas for C17: what the loader models return, case by case. -/
import Kskm.FileEffects
namespace Kskm.C17

variable {α : Type}

/-- the effect log of a loader run that passed the size gate -/
def loadEffects (what : String) (hash : Bytes → Bytes) (maxSize : Nat) (path : String)
    (content : Nat → Bytes) (t0 : Nat) : List FileEffect :=
  [.openRead path t0, .fstat path (t0 + 1) (content (t0 + 1)).length,
   .read path (t0 + 2) ((content (t0 + 2)).take maxSize), .close path,
   .logDigest what path (hash ((content (t0 + 2)).take maxSize))]

/-- the effect log of a loader run stopped by the size gate -/
def gateEffects (path : String) (content : Nat → Bytes) (t0 : Nat) : List FileEffect :=
  [.openRead path t0, .fstat path (t0 + 1) (content (t0 + 1)).length, .close path]

theorem loadKsr_gate (maxSize : Nat) (hash : Bytes → Bytes) (parse : Bytes → Res α)
    (validate : α → Res Unit) (ro : Bool) (path : String) (content : Nat → Bytes) (t0 : Nat)
    (hs : (content (t0 + 1)).length > maxSize) :
    loadKsr maxSize hash parse validate ro path content t0 = (err .runtime, gateEffects path content t0) := by
  simp [loadKsr, hs, gateEffects]

theorem loadKsr_effects (maxSize : Nat) (hash : Bytes → Bytes) (parse : Bytes → Res α)
    (validate : α → Res Unit) (ro : Bool) (path : String) (content : Nat → Bytes) (t0 : Nat)
    (hs : ¬ (content (t0 + 1)).length > maxSize) :
    (loadKsr maxSize hash parse validate ro path content t0).2 =
      loadEffects "Loaded KSR from file" hash maxSize path content t0 := by
  simp only [loadKsr, hs, ↓reduceIte, loadEffects]
  split
  · rfl
  · split <;> rfl

theorem loadKsr_ok (maxSize : Nat) (hash : Bytes → Bytes) (parse : Bytes → Res α)
    (validate : α → Res Unit) (ro : Bool) (path : String) (content : Nat → Bytes) (t0 : Nat)
    (hs : ¬ (content (t0 + 1)).length > maxSize) (request : LoadedRequest α)
    (h : (loadKsr maxSize hash parse validate ro path content t0).1 = .ok request) :
    parse ((content (t0 + 2)).take maxSize) = .ok request.body ∧
    request.xmlHash = some (hash ((content (t0 + 2)).take maxSize)) ∧
    request.xmlFilename = path ∧ validate request.body = .ok () := by
  simp only [loadKsr, hs, ↓reduceIte, requestFromXmlFile] at h
  cases hp : parse ((content (t0 + 2)).take maxSize) with
  | error e => simp [hp, bind, Except.bind] at h
  | ok body =>
    simp only [hp, bind, Except.bind, pure, Except.pure] at h
    cases hv : validate body with
    | ok u =>
      cases u
      simp only [hv, Except.ok.injEq] at h
      subst h
      exact ⟨rfl, rfl, rfl, hv⟩
    | error f =>
      cases f with
      | violation r => cases ro <;> simp [hv, violation, err] at h
      | error k => simp [hv] at h
      | unsupported => simp [hv] at h

theorem loadSkr_gate (maxSize : Nat) (hash : Bytes → Bytes) (parse : Bytes → Res α)
    (validate : α → Res Unit) (path : String) (content : Nat → Bytes) (t0 : Nat)
    (hs : (content (t0 + 1)).length > maxSize) :
    loadSkr maxSize hash parse validate path content t0 = (err .runtime, gateEffects path content t0) := by
  simp [loadSkr, hs, gateEffects]

theorem loadSkr_effects (maxSize : Nat) (hash : Bytes → Bytes) (parse : Bytes → Res α)
    (validate : α → Res Unit) (path : String) (content : Nat → Bytes) (t0 : Nat)
    (hs : ¬ (content (t0 + 1)).length > maxSize) :
    (loadSkr maxSize hash parse validate path content t0).2 =
      loadEffects "Loaded SKR from file" hash maxSize path content t0 := by
  simp only [loadSkr, hs, ↓reduceIte, loadEffects]
  split
  · rfl
  · split <;> rfl

theorem loadSkr_ok (maxSize : Nat) (hash : Bytes → Bytes) (parse : Bytes → Res α)
    (validate : α → Res Unit) (path : String) (content : Nat → Bytes) (t0 : Nat)
    (hs : ¬ (content (t0 + 1)).length > maxSize) (response : α)
    (h : (loadSkr maxSize hash parse validate path content t0).1 = .ok response) :
    parse ((content (t0 + 2)).take maxSize) = .ok response ∧ validate response = .ok () := by
  simp only [loadSkr, hs, ↓reduceIte] at h
  cases hp : parse ((content (t0 + 2)).take maxSize) with
  | error e => simp [hp] at h
  | ok body =>
    simp only [hp] at h
    cases hv : validate body with
    | ok u =>
      cases u
      simp only [hv, Except.ok.injEq] at h
      subst h
      exact ⟨rfl, hv⟩
    | error f =>
      cases f with
      | violation r => simp [hv, err] at h
      | error k => simp [hv] at h
      | unsupported => simp [hv] at h

/-- `load_skr` never lets a policy violation out as such -/
theorem loadSkr_no_violation (maxSize : Nat) (hash : Bytes → Bytes) (parse : Bytes → Res α)
    (validate : α → Res Unit) (path : String) (content : Nat → Bytes) (t0 : Nat)
    (hparse : ∀ b r, parse b ≠ .error (.violation r)) (r : Rule) :
    (loadSkr maxSize hash parse validate path content t0).1 ≠ .error (.violation r) := by
  unfold loadSkr
  by_cases hs : (content (t0 + 1)).length > maxSize
  · simp [hs, err]
  · simp only [hs, ↓reduceIte]
    cases hp : parse ((content (t0 + 2)).take maxSize) with
    | error e =>
      simp only
      intro h
      exact hparse _ r (by rw [hp]; exact h)
    | ok body =>
      simp only
      cases hv : validate body with
      | ok u => simp
      | error f => cases f <;> simp [err]

end Kskm.C17
