/- Helper lemmas about octet strings: order, big-endian numerals. -/
import Kskm.Dnssec
namespace Kskm

theorem bytesLe_refl : ∀ a : Bytes, bytesLe a a = true
  | [] => rfl
  | x :: xs => by simp [bytesLe, bytesLe_refl xs]

theorem bytesLe_total : ∀ a b : Bytes, (bytesLe a b || bytesLe b a) = true
  | [], _ => by simp [bytesLe]
  | _ :: _, [] => by simp [bytesLe]
  | x :: xs, y :: ys => by
    simp only [bytesLe]
    by_cases h1 : x < y
    · simp [h1]
    · by_cases h2 : y < x
      · simp [h1, h2]
      · simp [h1, h2, bytesLe_total xs ys]

theorem bytesLe_antisymm : ∀ a b : Bytes, bytesLe a b = true → bytesLe b a = true → a = b
  | [], [], _, _ => rfl
  | [], _ :: _, _, h => by simp [bytesLe] at h
  | _ :: _, [], h, _ => by simp [bytesLe] at h
  | x :: xs, y :: ys, h1, h2 => by
    simp only [bytesLe] at h1 h2
    by_cases a : x < y
    · have : ¬ y < x := by
        intro h; exact absurd (UInt8.lt_trans a h) (UInt8.lt_irrefl x)
      simp [a, this] at h2
    · by_cases b : y < x
      · simp [a, b] at h1
      · simp [a, b] at h1 h2
        have hxy : x = y := by
          have h1' : x.toNat ≤ y.toNat := by
            have := UInt8.not_lt.mp b; exact UInt8.le_iff_toNat_le.mp this
          have h2' : y.toNat ≤ x.toNat := by
            have := UInt8.not_lt.mp a; exact UInt8.le_iff_toNat_le.mp this
          exact UInt8.toNat_inj.mp (by omega)
        rw [hxy, bytesLe_antisymm xs ys h1 h2]

theorem bytesLe_trans : ∀ a b c : Bytes, bytesLe a b = true → bytesLe b c = true → bytesLe a c = true
  | [], _, _, _, _ => by simp [bytesLe]
  | _ :: _, [], _, h, _ => by simp [bytesLe] at h
  | _ :: _, _ :: _, [], _, h => by simp [bytesLe] at h
  | x :: xs, y :: ys, z :: zs, h1, h2 => by
    simp only [bytesLe] at h1 h2 ⊢
    by_cases xy : x < y
    · by_cases yz : y < z
      · simp [UInt8.lt_trans xy yz]
      · by_cases zy : z < y
        · simp [yz, zy] at h2
        · have : y = z := by
            have a := UInt8.le_iff_toNat_le.mp (UInt8.not_lt.mp yz)
            have b := UInt8.le_iff_toNat_le.mp (UInt8.not_lt.mp zy)
            exact UInt8.toNat_inj.mp (by omega)
          subst this; simp [xy]
    · by_cases yx : y < x
      · simp [xy, yx] at h1
      · have hxy : x = y := by
          have a := UInt8.le_iff_toNat_le.mp (UInt8.not_lt.mp xy)
          have b := UInt8.le_iff_toNat_le.mp (UInt8.not_lt.mp yx)
          exact UInt8.toNat_inj.mp (by omega)
        subst hxy
        simp [xy] at h1
        by_cases xz : x < z
        · simp [xz]
        · by_cases zx : z < x
          · simp [xz, zx] at h2
          · simp [xz, zx] at h2 ⊢
            exact bytesLe_trans xs ys zs h1 h2

end Kskm
