/- `create_skr` echoes the request's header and, per position, each bundle's id and times. -/
import Kskm.Signer
import KskmProofs.Lemmas.TokM
namespace Kskm

theorem signBundle_echo (ext : Externals) (mods : List P11Module) (cfg : SignerConfig) (slot : Nat)
    (b rb : Bundle) (t : Token) (s s' : TokState)
    (h : signBundle ext mods cfg slot b t s = (.ok rb, s')) :
    rb.id = b.id ∧ rb.inception = b.inception ∧ rb.expiration = b.expiration := by
  unfold signBundle at h
  have hc : cfg.actions.lookup slot = none ∨ ∃ act, cfg.actions.lookup slot = some act := by
    cases cfg.actions.lookup slot <;> simp
  rcases hc with hn | ⟨act, ha⟩
  · simp [hn] at h
  · simp only [ha] at h
    obtain ⟨pub, s1, _, h1⟩ := TokM.bind_ok _ _ _ _ _ _ h
    obtain ⟨rev, s2, _, h2⟩ := TokM.bind_ok _ _ _ _ _ _ h1
    obtain ⟨revoked, s3, _, h3⟩ := TokM.bind_ok _ _ _ _ _ _ h2
    obtain ⟨signing, s4, _, h4⟩ := TokM.bind_ok _ _ _ _ _ _ h3
    obtain ⟨sigs, s5, _, h5⟩ := TokM.bind_ok _ _ _ _ _ _ h4
    split at h5
    · obtain ⟨u, s6, h6, _⟩ := TokM.bind_ok _ _ _ _ _ _ h5
      simp at h6
    · obtain ⟨u2, s7, _, h7⟩ := TokM.bind_ok _ _ _ _ _ _ h5
      simp only [TokM.pure_run, Prod.mk.injEq, Except.ok.injEq] at h7
      obtain ⟨rfl, _⟩ := h7
      exact ⟨rfl, rfl, rfl⟩

/-- the (id, inception, expiration) triple of a bundle -/
def Bundle.stamp (b : Bundle) : String × Int × Int := (b.id, b.inception, b.expiration)

theorem signBundlesFrom_echo (ext : Externals) (mods : List P11Module) (cfg : SignerConfig) :
    ∀ (bs : List Bundle) (n : Nat) (rbs : List Bundle) (t : Token) (s s' : TokState),
      signBundlesFrom ext mods cfg n bs t s = (.ok rbs, s') →
      rbs.map Bundle.stamp = bs.map Bundle.stamp := by
  intro bs
  induction bs with
  | nil =>
    intro n rbs t s s' h
    simp only [signBundlesFrom, TokM.pure_run, Prod.mk.injEq, Except.ok.injEq] at h
    rw [← h.1]
  | cons b rest ih =>
    intro n rbs t s s' h
    unfold signBundlesFrom at h
    obtain ⟨rb, s1, h1, h2⟩ := TokM.bind_ok _ _ _ _ _ _ h
    obtain ⟨more, s2, h3, h4⟩ := TokM.bind_ok _ _ _ _ _ _ h2
    simp only [TokM.pure_run, Prod.mk.injEq, Except.ok.injEq] at h4
    rw [← h4.1]
    have e := signBundle_echo ext mods cfg n b rb t s s1 h1
    simp only [List.map_cons, ih (n + 1) more t s1 s2 h3, Bundle.stamp, e.1, e.2.1, e.2.2]

/-- **Echo.** A created SKR carries the request's id, serial, domain and ZSK policy, no timestamp,
    and position by position each request bundle's id, inception and expiration. -/
theorem createSkr_echo (ext : Externals) (mods : List P11Module) (cfg : SignerConfig) (req : Request)
    (resp : Response) (t : Token) (s s' : TokState)
    (h : createSkr ext mods cfg req t s = (.ok resp, s')) :
    resp.id = req.id ∧ resp.serial = req.serial ∧ resp.domain = req.domain ∧
    resp.zskPolicy = req.zskPolicy ∧ resp.timestamp = none ∧
    resp.bundles.map Bundle.stamp = req.bundles.map Bundle.stamp := by
  unfold createSkr at h
  obtain ⟨bundles, s1, h1, h2⟩ := TokM.bind_ok _ _ _ _ _ _ h
  obtain ⟨kp, s2, _, h3⟩ := TokM.bind_ok _ _ _ _ _ _ h2
  simp only [TokM.pure_run, Prod.mk.injEq, Except.ok.injEq] at h3
  rw [← h3.1]
  exact ⟨rfl, rfl, rfl, rfl, rfl, signBundlesFrom_echo ext mods cfg req.bundles 1 bundles t s s1 h1⟩

end Kskm
