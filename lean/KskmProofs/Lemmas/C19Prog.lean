/-
  Programs over token operations (`Kskm.Km.Prog`): how the two interpretations step, and the theorem
  that ties them — `refines`: against EVERY token oracle whose logged answers are those a store gives,
  `runTok` returns what `runSt` returns and the store ends where `runSt` leaves it.
-/
import Kskm.Keymaster
import KskmProofs.Lemmas.TokM
namespace Kskm.Km

/-! ### `runSt` is a monad morphism -/

@[simp] theorem runSt_ret {α} (a : α) (st : Store) : (Prog.ret a).runSt st = (.ok a, st) := rfl
@[simp] theorem runSt_pure {α} (a : α) (st : Store) : (pure a : Prog α).runSt st = (.ok a, st) := rfl
@[simp] theorem runSt_fail {α} (f : Fail) (st : Store) : (Prog.fail f : Prog α).runSt st = (.error f, st) := rfl
@[simp] theorem runSt_errP {α} (k : ErrKind) (st : Store) : (errP k : Prog α).runSt st = (.error (.error k), st) := rfl
@[simp] theorem runSt_ask {α} (op : TokOp) (k : TokAns → Prog α) (st : Store) :
    (Prog.ask op k).runSt st = (k (storeStep st op).1).runSt (storeStep st op).2 := rfl
@[simp] theorem runSt_askP (op : TokOp) (st : Store) : (askP op).runSt st = (.ok (storeStep st op).1, (storeStep st op).2) := rfl

theorem runSt_liftP {α} (r : Res α) (st : Store) : (liftP r).runSt st = (r, st) := by
  cases r <;> rfl

theorem bind_def {α β} (p : Prog α) (f : α → Prog β) : p >>= f = p.bind f := rfl

theorem runSt_bind {α β} (p : Prog α) (f : α → Prog β) (st : Store) :
    (p >>= f).runSt st = match p.runSt st with
      | (.ok a, st') => (f a).runSt st'
      | (.error e, st') => (.error e, st') := by
  rw [bind_def]
  induction p generalizing st with
  | ret a => rfl
  | fail e => rfl
  | ask op k ih =>
    simp only [Prog.bind, runSt_ask]
    exact ih _ _

theorem runSt_bind_ok {α β} {p : Prog α} {f : α → Prog β} {st st' : Store} {b : β}
    (h : (p >>= f).runSt st = (.ok b, st')) :
    ∃ a st1, p.runSt st = (.ok a, st1) ∧ (f a).runSt st1 = (.ok b, st') := by
  rw [runSt_bind] at h
  cases hp : p.runSt st with
  | mk r st1 =>
    rw [hp] at h
    cases r with
    | error e => simp at h
    | ok a => exact ⟨a, st1, rfl, h⟩

theorem runSt_bind_of_ok {α β} {p : Prog α} {f : α → Prog β} {st st1 : Store} {a : α}
    (hp : p.runSt st = (.ok a, st1)) : (p >>= f).runSt st = (f a).runSt st1 := by
  rw [runSt_bind, hp]

theorem runSt_bind_of_error {α β} {p : Prog α} {f : α → Prog β} {st st1 : Store} {e : Fail}
    (hp : p.runSt st = (.error e, st1)) : (p >>= f).runSt st = (.error e, st1) := by
  rw [runSt_bind, hp]

theorem runSt_askOkP (op : TokOp) (st : Store) :
    (askOkP op).runSt st =
      if (storeStep st op).1 = .error then (.error (.error .p11), (storeStep st op).2)
      else (.ok (storeStep st op).1, (storeStep st op).2) := by
  unfold askOkP
  rw [runSt_bind, runSt_askP]
  cases h : (storeStep st op).1 <;> simp [errP]

/-! ### `runTok` is a monad morphism -/

@[simp] theorem runTok_ret {α} (a : α) : (Prog.ret a).runTok = (pure a : TokM α) := rfl
@[simp] theorem runTok_fail {α} (f : Fail) : (Prog.fail f : Prog α).runTok = TokM.fail f := rfl
theorem runTok_ask {α} (op : TokOp) (k : TokAns → Prog α) :
    (Prog.ask op k).runTok = (Kskm.ask op >>= fun a => (k a).runTok) := rfl

theorem runTok_ask_run {α} (op : TokOp) (k : TokAns → Prog α) (t : Token) (s : TokState) :
    (Prog.ask op k).runTok t s =
      (k (t s.count op)).runTok t { count := s.count + 1, log := (op, t s.count op) :: s.log } := by
  rw [runTok_ask, TokM.bind_eq, ask_run]

/-! ### Which operations a program can issue -/

/-- every operation the program can issue, whatever it is answered, satisfies `P` -/
inductive AllOps (P : TokOp → Prop) : {α : Type} → Prog α → Prop
  | ret {α} (a : α) : AllOps P (Prog.ret a)
  | fail {α} (f : Fail) : AllOps P (Prog.fail f : Prog α)
  | ask {α} (op : TokOp) (k : TokAns → Prog α) : P op → (∀ a, AllOps P (k a)) → AllOps P (Prog.ask op k)

namespace AllOps
variable {P : TokOp → Prop} {α β : Type}

theorem pure (a : α) : AllOps P (Pure.pure a : Prog α) := .ret a
theorem errP (k : ErrKind) : AllOps P (Km.errP k : Prog α) := .fail _
theorem liftP (r : Res α) : AllOps P (Km.liftP r) := by cases r <;> constructor
theorem askP (op : TokOp) (h : P op) : AllOps P (Km.askP op) := .ask op _ h (fun a => .ret a)

theorem bind {p : Prog α} {f : α → Prog β} (hp : AllOps P p) (hf : ∀ a, AllOps P (f a)) : AllOps P (p >>= f) := by
  rw [bind_def]
  induction hp with
  | ret a => exact hf a
  | fail e => exact .fail e
  | ask op k hop _ ih => exact .ask op _ hop (fun a => ih a)

theorem askOkP (op : TokOp) (h : P op) : AllOps P (Km.askOkP op) := by
  unfold Km.askOkP
  refine bind (askP op h) (fun a => ?_)
  split
  · exact errP _
  · exact pure _

theorem mono {Q : TokOp → Prop} {p : Prog α} (h : AllOps P p) (hpq : ∀ op, P op → Q op) : AllOps Q p := by
  induction h with
  | ret a => exact .ret a
  | fail e => exact .fail e
  | ask op k hop _ ih => exact .ask op k (hpq _ hop) ih

end AllOps

/-- an operation that cannot change a store -/
def isReadOp : TokOp → Prop
  | .generateKeyPair .. => False
  | .destroyObject .. => False
  | _ => True

theorem storeStep_read (st : Store) (op : TokOp) (h : isReadOp op) : (storeStep st op).2 = st := by
  cases op <;> simp only [isReadOp] at h <;> simp only [storeStep] <;> (repeat' split) <;> rfl

/-- a program that only reads leaves the store as it found it, whatever its outcome -/
theorem AllOps.readOnly {α} {p : Prog α} (h : AllOps isReadOp p) (st : Store) : (p.runSt st).2 = st := by
  induction h generalizing st with
  | ret a => rfl
  | fail e => rfl
  | ask op k hop _ ih =>
    rw [runSt_ask, ih, storeStep_read st op hop]

/-! ### Refinement: oracles that answer as a store does -/

/-- the operations `ops` (oldest first) were answered, one after the other from `st`, as the store
    semantics answers them -/
def Consistent : Store → List (TokOp × TokAns) → Prop
  | _, [] => True
  | st, (op, a) :: rest => a = (storeStep st op).1 ∧ Consistent (storeStep st op).2 rest

/-- the store after the operations `ops` (oldest first) -/
def replayStore : Store → List (TokOp × TokAns) → Store
  | st, [] => st
  | st, (op, _) :: rest => replayStore (storeStep st op).2 rest

/-- **Refinement.**  Run a program against ANY token oracle.  If the answers it logged during this run
    (the segment `l`, newest first, that the run added to the log) are the answers the store semantics
    gives from `st`, then the oracle run returns exactly what the store-backed run returns, and the
    store the logged operations lead to is the store the store-backed run ends in. -/
theorem refines {α} (p : Prog α) : ∀ (t : Token) (s : TokState) (st : Store),
    ∃ l : List (TokOp × TokAns), (p.runTok t s).2.log = l ++ s.log ∧
      (Consistent st l.reverse →
        (p.runTok t s).1 = (p.runSt st).1 ∧ replayStore st l.reverse = (p.runSt st).2) := by
  induction p with
  | ret a => intro t s st; exact ⟨[], rfl, fun _ => ⟨rfl, rfl⟩⟩
  | fail e => intro t s st; exact ⟨[], rfl, fun _ => ⟨rfl, rfl⟩⟩
  | ask op k ih =>
    intro t s st
    rw [runTok_ask_run]
    generalize t s.count op = a
    obtain ⟨l, hl, hc⟩ := ih a t { count := s.count + 1, log := (op, a) :: s.log } (storeStep st op).2
    refine ⟨l ++ [(op, a)], by rw [hl]; simp, ?_⟩
    intro hcons
    simp only [List.reverse_append, List.reverse_cons, List.reverse_nil, List.nil_append, List.cons_append,
      Consistent] at hcons
    obtain ⟨ha, hrest⟩ := hcons
    subst ha
    obtain ⟨h1, h2⟩ := hc hrest
    simp only [List.reverse_append, List.reverse_cons, List.reverse_nil, List.nil_append, List.cons_append,
      replayStore, runSt_ask]
    exact ⟨h1, h2⟩

end Kskm.Km
