/-
  The specification reader `XmlSpec.stdRead` (lean/Kskm/XmlSpec.lean) reads the textbook serialisation of
  every GOOD tree back to that tree:  `stdRead (declaration ++ "\n" ++ renderS t) = t`  (`stdRead_render`).

  Good (`GoodT`): names are XML names (ASCII), attribute names pairwise different, attribute values free of
  `"` `<` `&` and of tab / line feed / carriage return (which a reader normalises to a space), text free of
  `<` `&` `>` and carriage return, all characters XML `Char`s, no empty text node and no two adjacent text
  nodes (a reader cannot tell those apart from one text node).
-/
import Kskm.XmlSpec
namespace Kskm.XmlSpec

/-! ### conditions -/

def nameOk : List Char → Bool
  | [] => false
  | c :: r => isNameStart c && r.all isNameChar

def attrCharOk (c : Char) : Bool :=
  c != '"' && c != '<' && c != '&' && c != '\t' && c != '\n' && c != '\r' && isXmlChar c

def textCharOk (c : Char) : Bool := c != '<' && c != '&' && c != '>' && c != '\r' && isXmlChar c

def attrsOk (a : Attrs) : Prop :=
  (∀ p ∈ a, nameOk p.1 = true ∧ ∀ c ∈ p.2, attrCharOk c = true) ∧ (a.map Prod.fst).Nodup

def isChars : Token → Bool
  | .chars _ => true
  | _ => false

def tokOk : Token → Prop
  | .stag n a => nameOk n = true ∧ attrsOk a
  | .etag n => nameOk n = true
  | .empty _ _ => False
  | .chars s => s ≠ [] ∧ ∀ c ∈ s, textCharOk c = true

/-- every token is fine and no two runs of character data are adjacent (`prev`: the token before was one) -/
def chain : Bool → List Token → Prop
  | _, [] => True
  | prev, t :: ts => tokOk t ∧ (prev = true → isChars t = false) ∧ chain (isChars t) ts

def isText : XmlTree → Bool
  | .text _ => true
  | _ => false

mutual
def GoodT : XmlTree → Prop
  | .text s => s ≠ [] ∧ ∀ c ∈ s, textCharOk c = true
  | .elem n a cs => nameOk n = true ∧ attrsOk a ∧ GoodL false cs
def GoodL : Bool → List XmlTree → Prop
  | _, [] => True
  | prev, c :: cs => GoodT c ∧ (prev = true → isText c = false) ∧ GoodL (isText c) cs
end

/-! ### characters -/

theorem ns_ne {c : Char} (h : isNameStart c = true) (d : Char) (hd : isNameStart d = false) : c ≠ d := by
  intro e; subst e; rw [h] at hd; cases hd

theorem ns_nameChar {c : Char} (h : isNameStart c = true) : isNameChar c = true := by simp [isNameChar, h]

theorem ns_notS {c : Char} (h : isNameStart c = true) : isS c = false := by
  simp only [isS, Bool.or_eq_false_iff, beq_eq_false_iff_ne]
  exact ⟨⟨⟨ns_ne h _ (by decide), ns_ne h _ (by decide)⟩, ns_ne h _ (by decide)⟩, ns_ne h _ (by decide)⟩

theorem ns_ascii {c : Char} (h : isNameStart c = true) : nonAscii c = false := by
  have hc : c ≠ ':' := ns_ne h _ (by decide)
  simp only [isNameStart, Bool.or_eq_true, Bool.and_eq_true, decide_eq_true_eq, beq_iff_eq] at h
  simp only [nonAscii, Bool.or_eq_false_iff, decide_eq_false_iff_not, Nat.not_le, beq_eq_false_iff_ne]
  refine ⟨?_, hc⟩
  rcases h with (h | h) | h
  · have : 'z'.toNat = 122 := by decide
    omega
  · have : 'Z'.toNat = 90 := by decide
    omega
  · subst h; decide

theorem skipS_cons_notS {c : Char} (r : List Char) (h : isS c = false) : skipS (c :: r) = c :: r := by
  simp [skipS, h]

theorem skipS_length_le (r : List Char) : (skipS r).length ≤ r.length := by
  induction r with
  | nil => simp [skipS]
  | cons c r ih =>
    simp only [skipS]
    split
    · simp only [List.length_cons]; omega
    · exact Nat.le_refl _

/-! ### names -/

/-- what follows a name: a character that cannot continue it (and is ASCII) -/
def Stop (rest : List Char) : Prop := ∃ d t, rest = d :: t ∧ isNameChar d = false ∧ nonAscii d = false

theorem nameRest_append (n rest : List Char) (hn : n.all isNameChar = true) (hr : Stop rest) :
    nameRest (n ++ rest) = (n, rest) := by
  induction n with
  | nil =>
    obtain ⟨d, t, rfl, hd, _⟩ := hr
    simp [nameRest, hd]
  | cons c n ih =>
    simp only [List.all_cons, Bool.and_eq_true] at hn
    simp [nameRest, hn.1, ih hn.2]

theorem readName_append (n rest : List Char) (hn : nameOk n = true) (hr : Stop rest) :
    readName (n ++ rest) = .ok (n, rest) := by
  cases n with
  | nil => simp [nameOk] at hn
  | cons c n =>
    simp only [nameOk, Bool.and_eq_true] at hn
    have h := nameRest_append n rest hn.2 hr
    obtain ⟨d, t, rfl, hd, ha⟩ := hr
    simp [readName, hn.1, h, ha, pure, Except.pure]

/-! ### attribute values and character data -/

theorem attrCharOk_spec {c : Char} (h : attrCharOk c = true) :
    c ≠ '"' ∧ c ≠ '<' ∧ c ≠ '&' ∧ c ≠ '\r' ∧ isXmlChar c = true ∧ (if isS c = true then ' ' else c) = c := by
  simp only [attrCharOk, Bool.and_eq_true, bne_iff_ne, ne_eq] at h
  obtain ⟨⟨⟨⟨⟨⟨h1, h2⟩, h3⟩, h4⟩, h5⟩, h6⟩, h7⟩ := h
  refine ⟨h1, h2, h3, h6, h7, ?_⟩
  split
  · rename_i hs
    simp only [isS, Bool.or_eq_true, beq_iff_eq] at hs
    rcases hs with ((hs | hs) | hs) | hs
    · exact hs.symm
    · exact absurd hs h4
    · exact absurd hs h6
    · exact absurd hs h5
  · rfl

theorem attValue_append (v rest : List Char) (hv : ∀ c ∈ v, attrCharOk c = true) :
    attValue (v ++ '"' :: rest) = .ok (v, rest) := by
  induction v with
  | nil => simp [attValue, pure, Except.pure]
  | cons c v ih =>
    obtain ⟨h1, h2, h3, h4, h5, h6⟩ := attrCharOk_spec (hv c (by simp))
    have := ih (fun c hc => hv c (by simp [hc]))
    simp [attValue, h1, h2, h3, h4, h5, h6, this, bind, Except.bind, pure, Except.pure]

theorem textCharOk_spec {c : Char} (h : textCharOk c = true) :
    c ≠ '<' ∧ c ≠ '&' ∧ c ≠ '>' ∧ c ≠ '\r' ∧ isXmlChar c = true := by
  simp only [textCharOk, Bool.and_eq_true, bne_iff_ne, ne_eq] at h
  obtain ⟨⟨⟨⟨h1, h2⟩, h3⟩, h4⟩, h5⟩ := h
  exact ⟨h1, h2, h3, h4, h5⟩

/-- the text after a run of character data: the end, or a tag -/
def TagOrEnd (rest : List Char) : Prop := rest = [] ∨ ∃ t, rest = '<' :: t

theorem charData_append (s rest : List Char) (hs : ∀ c ∈ s, textCharOk c = true) (hr : TagOrEnd rest) :
    charData (s ++ rest) = .ok (s, rest) := by
  induction s with
  | nil =>
    rcases hr with rfl | ⟨t, rfl⟩ <;> simp [charData, pure, Except.pure]
  | cons c s ih =>
    obtain ⟨h1, h2, _, h4, h5⟩ := textCharOk_spec (hs c (by simp))
    have := ih (fun c hc => hs c (by simp [hc]))
    simp [charData, h1, h2, h4, h5, this, bind, Except.bind, pure, Except.pure]

theorem hasCdEnd_gt (s : List Char) (h : hasCdEnd s = true) : '>' ∈ s := by
  induction s with
  | nil => simp [hasCdEnd] at h
  | cons c s ih =>
    simp only [hasCdEnd, Bool.or_eq_true, Bool.and_eq_true, beq_iff_eq] at h
    rcases h with ⟨_, h⟩ | h
    · have : '>' ∈ s.take 2 := by rw [h]; simp
      exact List.mem_cons_of_mem _ (List.mem_of_mem_take this)
    · exact List.mem_cons_of_mem _ (ih h)

theorem hasCdEnd_false (s : List Char) (hs : ∀ c ∈ s, textCharOk c = true) : hasCdEnd s = false := by
  cases h : hasCdEnd s with
  | false => rfl
  | true => exact absurd rfl (textCharOk_spec (hs _ (hasCdEnd_gt s h))).2.2.1

/-! ### start tags -/

theorem attrsLoop_ok : ∀ (a acc : Attrs) (rest : List Char) (fuel : Nat),
    (∀ p ∈ a, nameOk p.1 = true ∧ ∀ c ∈ p.2, attrCharOk c = true) → ((acc ++ a).map Prod.fst).Nodup →
    (attrsText a).length + 1 ≤ fuel →
    attrsLoop fuel (attrsText a ++ '>' :: rest) acc = .ok (acc ++ a, false, rest) := by
  intro a
  induction a with
  | nil =>
    intro acc rest fuel _ _ hf
    cases fuel with
    | zero => omega
    | succ f => simp [attrsLoop, attrsText, skipS_cons_notS, isS, pure, Except.pure]
  | cons p a ih =>
    intro acc rest fuel hp hnd hf
    obtain ⟨n, v⟩ := p
    cases fuel with
    | zero => omega
    | succ f =>
      obtain ⟨hn, hv⟩ := hp (n, v) (by simp)
      cases n with
      | nil => simp [nameOk] at hn
      | cons n0 nr =>
        have hns : isNameStart n0 = true := by
          simp only [nameOk, Bool.and_eq_true] at hn; exact hn.1
        have e : attrsText ((n0 :: nr, v) :: a) ++ '>' :: rest =
            ' ' :: ((n0 :: nr) ++ ('=' :: '"' :: (v ++ '"' :: (attrsText a ++ '>' :: rest)))) := by
          simp [attrsText, List.append_assoc]
        have hsk : skipS (' ' :: ((n0 :: nr) ++ ('=' :: '"' :: (v ++ '"' :: (attrsText a ++ '>' :: rest))))) =
            (n0 :: nr) ++ ('=' :: '"' :: (v ++ '"' :: (attrsText a ++ '>' :: rest))) := by
          rw [skipS]
          simp only [show isS ' ' = true by decide, if_true, List.cons_append]
          exact skipS_cons_notS _ (ns_notS hns)
        have hrn := readName_append (n0 :: nr) ('=' :: '"' :: (v ++ '"' :: (attrsText a ++ '>' :: rest))) hn
          ⟨'=', _, rfl, by decide, by decide⟩
        have hav := attValue_append v (attrsText a ++ '>' :: rest) hv
        have hany : acc.any (fun p => p.1 == n0 :: nr) = false := by
          rw [List.any_eq_false]
          intro q hq hqe
          simp only [beq_iff_eq] at hqe
          simp only [List.map_append, List.map_cons] at hnd
          have := (List.nodup_append.mp hnd).2.2 q.1 (List.mem_map_of_mem hq) (n0 :: nr) (by simp)
          exact this hqe
        have hrec := ih (acc ++ [(n0 :: nr, v)]) rest f (fun p hp' => hp p (by simp [hp']))
          (by simpa [List.append_assoc] using hnd)
          (by simp only [attrsText, List.length_cons, List.length_append] at hf; omega)
        rw [e, attrsLoop, hsk]
        simp only [List.cons_append] at hrn ⊢
        simp only [ns_ne hns '>' (by decide), ns_ne hns '/' (by decide), if_false, List.length_cons]
        rw [if_neg (by omega), hrn]
        simp only [bind, Except.bind, skipS_cons_notS _ (show isS '=' = false by decide),
          skipS_cons_notS _ (show isS '"' = false by decide), ne_eq, not_true_eq_false, if_false,
          show ('"' = '\'') = False by decide, hav, hany, Bool.false_eq_true]
        rw [hrec]
        simp [List.append_assoc]

/-! ### tokens -/

theorem attrsText_stop (a : Attrs) (rest : List Char) : Stop (attrsText a ++ '>' :: rest) := by
  cases a with
  | nil => exact ⟨'>', rest, rfl, by decide, by decide⟩
  | cons p a =>
    exact ⟨' ', p.1 ++ '=' :: '"' :: (p.2 ++ '"' :: (attrsText a ++ '>' :: rest)), by simp [attrsText, List.append_assoc],
      by decide, by decide⟩

theorem nextToken_ok (t : Token) (rest : List Char) (ht : tokOk t)
    (hr : isChars t = true → TagOrEnd rest) : nextToken (tokText t ++ rest) = .ok (t, rest) := by
  cases t with
  | empty n a => exact absurd ht id
  | chars s =>
    obtain ⟨hne, hs⟩ := ht
    cases s with
    | nil => exact absurd rfl hne
    | cons c s =>
      have h1 := (textCharOk_spec (hs c (by simp))).1
      have hcd := charData_append (c :: s) rest hs (hr rfl)
      simp only [tokText, List.cons_append] at hcd ⊢
      simp [nextToken, h1, hcd, hasCdEnd_false (c :: s) hs, bind, Except.bind, pure, Except.pure]
  | etag n =>
    have hrn := readName_append n ('>' :: rest) ht ⟨'>', rest, rfl, by decide, by decide⟩
    simp [tokText, nextToken, hrn, skipS_cons_notS, isS, bind, Except.bind, pure, Except.pure]
  | stag n a =>
    obtain ⟨hn, ha, hnd⟩ := ht
    cases n with
    | nil => simp [nameOk] at hn
    | cons n0 nr =>
      have hns : isNameStart n0 = true := by
        simp only [nameOk, Bool.and_eq_true] at hn; exact hn.1
      have hrn := readName_append (n0 :: nr) (attrsText a ++ '>' :: rest) hn (attrsText_stop a rest)
      have hal := attrsLoop_ok a [] rest ((attrsText a ++ '>' :: rest).length + 1) ha (by simpa using hnd)
        (by simp only [List.length_append, List.length_cons]; omega)
      have e : tokText (.stag (n0 :: nr) a) ++ rest = '<' :: n0 :: (nr ++ (attrsText a ++ '>' :: rest)) := by
        simp [tokText, List.append_assoc]
      simp only [List.cons_append] at hrn
      rw [e, nextToken]
      simp only [if_true, ns_ne hns '/' (by decide), ns_ne hns '!' (by decide), ns_ne hns '?' (by decide),
        if_false, or_self, hrn, bind, Except.bind, hal]
      simp [pure, Except.pure]

theorem tokText_ne_nil (t : Token) (ht : tokOk t) : tokText t ≠ [] := by
  cases t with
  | chars s => exact ht.1
  | _ => simp [tokText]

theorem tokOk_tag_text (t : Token) (ht : tokOk t) (hc : isChars t = false) : ∃ r, tokText t = '<' :: r := by
  cases t with
  | chars s => simp [isChars] at hc
  | empty n a => exact absurd ht id
  | stag n a => exact ⟨_, rfl⟩
  | etag n => exact ⟨_, rfl⟩

theorem flatText_tagOrEnd (ts : List Token) (h : chain true ts) : TagOrEnd (flatText ts) := by
  cases ts with
  | nil => exact Or.inl rfl
  | cons t ts =>
    obtain ⟨ht, hc, _⟩ := h
    obtain ⟨r, hr⟩ := tokOk_tag_text t ht (hc rfl)
    exact Or.inr ⟨r ++ flatText ts, by simp [flatText, hr]⟩

theorem tokens_ok : ∀ (toks : List Token) (b : Bool) (fuel : Nat), chain b toks → (flatText toks).length < fuel →
    tokens fuel (flatText toks) = .ok toks := by
  intro toks
  induction toks with
  | nil =>
    intro b fuel _ hf
    cases fuel with
    | zero => omega
    | succ f => simp [flatText, tokens, pure, Except.pure]
  | cons t ts ih =>
    intro b fuel hc hf
    obtain ⟨ht, _, hrest⟩ := hc
    cases fuel with
    | zero => omega
    | succ f =>
      have hnt := nextToken_ok t (flatText ts) ht (fun hch => by rw [hch] at hrest; exact flatText_tagOrEnd ts hrest)
      have hne := tokText_ne_nil t ht
      have hlen : (flatText ts).length < f := by
        simp only [flatText, List.length_append] at hf
        have : 0 < (tokText t).length := List.length_pos_iff.mpr hne
        omega
      have hrec := ih (isChars t) f hrest hlen
      simp only [flatText]
      cases hx : tokText t ++ flatText ts with
      | nil => simp [hne] at hx
      | cons c r =>
        rw [tokens, ← hx, hnt]
        simp [bind, Except.bind, hrec, pure, Except.pure]

/-! ### the serialisation is the text of the tokens -/

theorem flatText_append (a b : List Token) : flatText (a ++ b) = flatText a ++ flatText b := by
  induction a with
  | nil => rfl
  | cons t a ih => simp [flatText, ih, List.append_assoc]

mutual
theorem renderS_eq_flat : ∀ t : XmlTree, renderS t = flatText (toksT t)
  | .text s => by simp [renderS, toksT, flatText, tokText]
  | .elem n a cs => by
    have := renderL_eq_flat cs
    simp [renderS, toksT, flatText, flatText_append, tokText, this, List.append_assoc]
theorem renderL_eq_flat : ∀ cs : List XmlTree, renderL cs = flatText (toksL cs)
  | [] => by simp [renderL, toksL, flatText]
  | c :: cs => by
    have h1 := renderS_eq_flat c
    have h2 := renderL_eq_flat cs
    simp [renderL, toksL, flatText_append, h1, h2]
end

/-! ### the element structure is rebuilt -/

mutual
theorem build_toksT : ∀ (t : XmlTree) (rest : List Token) (f : Frame) (fs : List Frame) (root : Option XmlTree),
    build (toksT t ++ rest) (f :: fs) root = build rest ({ f with kids := t :: f.kids } :: fs) root
  | .text s, rest, f, fs, root => by simp [toksT, build]
  | .elem n a cs, rest, f, fs, root => by
    have h := build_toksL cs (.etag n :: rest) { name := n, attrs := a, kids := [] } (f :: fs) root
    simp only [toksT, List.cons_append, List.append_assoc, List.nil_append] at h ⊢
    rw [build]
    simp only [List.isEmpty_cons, Bool.false_eq_true, false_and, if_false]
    rw [h, build]
    simp [addChild, bind, Except.bind, pure, Except.pure]
theorem build_toksL : ∀ (cs : List XmlTree) (rest : List Token) (f : Frame) (fs : List Frame) (root : Option XmlTree),
    build (toksL cs ++ rest) (f :: fs) root = build rest ({ f with kids := cs.reverse ++ f.kids } :: fs) root
  | [], rest, f, fs, root => by simp [toksL]
  | c :: cs, rest, f, fs, root => by
    have h1 := build_toksT c (toksL cs ++ rest) f fs root
    have h2 := build_toksL cs rest { f with kids := c :: f.kids } fs root
    simp only [toksL, List.append_assoc]
    rw [h1, h2]
    simp [List.append_assoc]
end

theorem build_root (n : List Char) (a : Attrs) (cs : List XmlTree) :
    build (toksT (.elem n a cs)) [] none = .ok (.elem n a cs) := by
  have h := build_toksL cs [.etag n] { name := n, attrs := a, kids := [] } [] none
  simp only [toksT]
  rw [build]
  simp only [Option.isSome_none, Bool.false_eq_true, and_false, if_false]
  rw [h, build]
  simp [addChild, bind, Except.bind, pure, Except.pure, build]

/-! ### good trees give good token lists -/

theorem chain_any_of_false {ts : List Token} (h : chain false ts) : ∀ b, (b = true → ∀ t r, ts = t :: r → isChars t = false) → chain b ts := by
  intro b hb
  cases ts with
  | nil => trivial
  | cons t r => exact ⟨h.1, fun hbt => hb hbt t r rfl, h.2.2⟩

mutual
theorem chain_toksT : ∀ (t : XmlTree) (b : Bool) (rest : List Token), GoodT t → (b = true → isText t = false) →
    chain (isText t) rest → chain b (toksT t ++ rest)
  | .text s, b, rest, hg, hb, hr => by
    simp only [toksT, List.cons_append, List.nil_append, chain, isChars]
    exact ⟨hg, fun h => by simpa [isText] using hb h, by simpa [isText] using hr⟩
  | .elem n a cs, b, rest, hg, _, hr => by
    rw [GoodT] at hg
    obtain ⟨hn, ha, hcs⟩ := hg
    have h := chain_toksL cs false (.etag n :: rest) hcs (fun b' => ⟨hn, fun _ => rfl, by simpa [isText, isChars] using hr⟩)
    simp only [toksT, List.cons_append, List.append_assoc, List.nil_append, chain, isChars]
    exact ⟨⟨hn, ha⟩, fun _ => trivial, h⟩
theorem chain_toksL : ∀ (cs : List XmlTree) (b : Bool) (rest : List Token), GoodL b cs → (∀ b', chain b' rest) →
    chain b (toksL cs ++ rest)
  | [], b, rest, _, hr => by simpa [toksL] using hr b
  | c :: cs, b, rest, hg, hr => by
    rw [GoodL] at hg
    obtain ⟨hc, hb, hcs⟩ := hg
    have h2 := chain_toksL cs (isText c) rest hcs hr
    have h1 := chain_toksT c b (toksL cs ++ rest) hc hb h2
    simpa [toksL, List.append_assoc] using h1
end

/-! ### the declaration -/

def declChars : List Char :=
  ['<', '?', 'x', 'm', 'l', ' ', 'v', 'e', 'r', 's', 'i', 'o', 'n', '=', '"', '1', '.', '0', '"', ' ',
   'e', 'n', 'c', 'o', 'd', 'i', 'n', 'g', '=', '"', 'U', 'T', 'F', '-', '8', '"', '?', '>']

theorem xmlDecl_decl (rest : List Char) : xmlDecl (declChars ++ rest) = .ok rest := by
  simp [declChars, xmlDecl, expect, skipS, isS, lower, pure, Except.pure]

/-- **The specification reader reads the serialisation of a good element back**: declaration, a line
    break, the element. -/
theorem stdRead_render (n : List Char) (a : Attrs) (cs : List XmlTree) (hg : GoodT (.elem n a cs)) :
    stdRead (declChars ++ '\n' :: renderS (.elem n a cs)) = .ok (.elem n a cs) := by
  have hch : chain false (toksT (.elem n a cs)) := by
    have := chain_toksT (.elem n a cs) false [] hg (fun h => by cases h) trivial
    simpa using this
  have hflat := renderS_eq_flat (.elem n a cs)
  have hsk : skipS ('\n' :: renderS (.elem n a cs)) = renderS (.elem n a cs) := by
    rw [skipS]
    simp only [show isS '\n' = true by decide, if_true, renderS, List.cons_append]
    exact skipS_cons_notS _ (by decide)
  have htok := tokens_ok (toksT (.elem n a cs)) false ((renderS (.elem n a cs)).length + 1) hch
    (by rw [hflat]; omega)
  rw [← hflat] at htok
  simp only [stdRead, xmlDecl_decl, bind, Except.bind, hsk, htok, build_root]

theorem build_root_rest (n : List Char) (a : Attrs) (cs : List XmlTree) (rest : List Token) :
    build (toksT (.elem n a cs) ++ rest) [] none = build rest [] (some (.elem n a cs)) := by
  have h := build_toksL cs (.etag n :: rest) { name := n, attrs := a, kids := [] } [] none
  simp only [toksT, List.cons_append, List.append_assoc, List.nil_append] at h ⊢
  rw [build]
  simp only [Option.isSome_none, Bool.false_eq_true, and_false, if_false]
  rw [h, build]
  simp [addChild, bind, Except.bind, pure, Except.pure]

theorem ws_textCharOk {c : Char} (h : isS c = true) (hr : c ≠ '\r') : textCharOk c = true := by
  simp only [isS, Bool.or_eq_true, beq_iff_eq] at h
  rcases h with ((h | h) | h) | h
  · subst h; decide
  · subst h; decide
  · exact absurd h hr
  · subst h; decide

/-- … also when white space follows the root element ([1] document ::= prolog element Misc*): what `print`
    appends -/
theorem stdRead_render_ws (n : List Char) (a : Attrs) (cs : List XmlTree) (ws : List Char)
    (hg : GoodT (.elem n a cs)) (hws : ∀ c ∈ ws, isS c = true ∧ c ≠ '\r') :
    stdRead (declChars ++ '\n' :: (renderS (.elem n a cs) ++ ws)) = .ok (.elem n a cs) := by
  cases ws with
  | nil => simpa using stdRead_render n a cs hg
  | cons w ws =>
    have hok : tokOk (.chars (w :: ws)) := ⟨by simp, fun c hc => ws_textCharOk (hws c hc).1 (hws c hc).2⟩
    have hch : chain false (toksT (.elem n a cs) ++ [.chars (w :: ws)]) :=
      chain_toksT (.elem n a cs) false [.chars (w :: ws)] hg (fun h => (Bool.false_ne_true h).elim)
        ⟨hok, fun h => (Bool.false_ne_true h).elim, trivial⟩
    have hflat : flatText (toksT (.elem n a cs) ++ [.chars (w :: ws)]) = renderS (.elem n a cs) ++ (w :: ws) := by
      rw [flatText_append, ← renderS_eq_flat]
      simp [flatText, tokText]
    have hsk : skipS ('\n' :: (renderS (.elem n a cs) ++ (w :: ws))) = renderS (.elem n a cs) ++ (w :: ws) := by
      rw [skipS]
      simp only [show isS '\n' = true by decide, if_true, renderS, List.cons_append]
      exact skipS_cons_notS _ (by decide)
    have htok := tokens_ok _ false ((renderS (.elem n a cs) ++ (w :: ws)).length + 1) hch (by rw [hflat]; omega)
    rw [hflat] at htok
    have hall : (w :: ws).all isS = true := List.all_eq_true.mpr (fun c hc => (hws c hc).1)
    simp only [stdRead, xmlDecl_decl, bind, Except.bind, hsk, htok, build_root_rest]
    rw [build]
    simp only [hall, if_true]
    rw [build]
    rfl

end Kskm.XmlSpec
