/-
  Sibling order below the bundle level (C12): the standard reading of a document whose CHILD ELEMENTS were
  permuted, anywhere in the tree.

  `_store_element` (Kskm/Xml.lean) keeps the children of an element in an insertion-ordered dict: a name that
  occurs once maps to the value itself, a name that occurs several times to the LIST of the values in document
  order.  So permuting the children of an element changes

    * the order of the dict's keys (first occurrences) — which Python's `==` on dicts ignores, and
    * the order of the entries of the list stored under a repeated name — which is visible (`==` on lists
      compares in order).

  `DictPerm` is exactly that relation on `XVal`: `str` by content, `dict` key by key (same keys, related
  values — as `DictEq`), `list` up to a PERMUTATION of related entries (`ListPerm`).  It is an equivalence
  relation and contains `DictEq`.

  `ChildPermT t t'`: `t'` is `t` with the children of every element permuted (and any insignificant white
  space changed).  `valT_childPerm` / `dictOf_childPerm`: the standard readings are `DictPerm`.  Written
  about the specification side only; KskmProofs/Lemmas/XmlGlueSame.lean shows what the glue makes of
  `DictPerm` values, KskmProofs/C12.lean composes with the reader theorem.
-/
import KskmProofs.Lemmas.XmlDictEq
namespace Kskm.Xml

/-! ### the relation on parsed values -/

mutual
/-- Python values that differ at most in the order of the entries of lists (and of dict keys) -/
inductive DictPerm : XVal → XVal → Prop
  | str (s : List Char) : DictPerm (.str s) (.str s)
  | list {l l' : List XVal} : ListPerm l l' → DictPerm (.list l) (.list l')
  | dict {d d' : Dict} : (∀ k, d.lookup k = none ↔ d'.lookup k = none) →
      (∀ k v v', d.lookup k = some v → d'.lookup k = some v' → DictPerm v v') → DictPerm (.dict d) (.dict d')
/-- lists that are permutations of each other up to `DictPerm` of the entries -/
inductive ListPerm : List XVal → List XVal → Prop
  | nil : ListPerm [] []
  | cons {v v' : XVal} {l l' : List XVal} : DictPerm v v' → ListPerm l l' → ListPerm (v :: l) (v' :: l')
  | swap (v w : XVal) (l : List XVal) : ListPerm (v :: w :: l) (w :: v :: l)
  | trans {a b c : List XVal} : ListPerm a b → ListPerm b c → ListPerm a c
end

/-- two dicts with the same keys and `DictPerm` values under each key (the body of `DictPerm.dict`) -/
def DictRelP (d d' : Dict) : Prop :=
  (∀ k, d.lookup k = none ↔ d'.lookup k = none) ∧
  (∀ k v v', d.lookup k = some v → d'.lookup k = some v' → DictPerm v v')

theorem DictPerm.of_rel {d d' : Dict} (h : DictRelP d d') : DictPerm (.dict d) (.dict d') := .dict h.1 h.2

theorem DictPerm.rel {d d' : Dict} (h : DictPerm (.dict d) (.dict d')) : DictRelP d d' := by
  cases h with
  | dict h1 h2 => exact ⟨h1, h2⟩

/-! ### an equivalence relation that contains `DictEq` -/

mutual
theorem DictPerm.refl : ∀ (v : XVal), DictPerm v v
  | .str s => .str s
  | .list l => .list (ListPerm.refl l)
  | .dict d => .dict (fun _ => Iff.rfl) (fun k v v' hv hv' => by
      rw [hv] at hv'
      cases hv'
      exact entries_reflP d k v hv)
theorem ListPerm.refl : ∀ (l : List XVal), ListPerm l l
  | [] => .nil
  | v :: l => .cons (DictPerm.refl v) (ListPerm.refl l)
theorem entries_reflP : ∀ (d : List (List Char × XVal)) (k : List Char) (v : XVal), d.lookup k = some v → DictPerm v v
  | [], _, _, h => by simp [List.lookup] at h
  | (k0, v0) :: r, k, v, h => by
    rw [List.lookup_cons] at h
    cases hb : (k == k0) with
    | true =>
      rw [hb] at h
      simp only [Option.some.injEq] at h
      rw [← h]
      exact DictPerm.refl v0
    | false =>
      rw [hb] at h
      exact entries_reflP r k v h
end

mutual
theorem DictPerm.symm : ∀ {a b : XVal}, DictPerm a b → DictPerm b a
  | _, _, .str s => .str s
  | _, _, .list h => .list (ListPerm.symm h)
  | _, _, .dict h1 h2 => .dict (fun k => (h1 k).symm) (fun k v v' hv hv' => DictPerm.symm (h2 k v' v hv' hv))
theorem ListPerm.symm : ∀ {a b : List XVal}, ListPerm a b → ListPerm b a
  | _, _, .nil => .nil
  | _, _, .cons h t => .cons (DictPerm.symm h) (ListPerm.symm t)
  | _, _, .swap v w l => .swap w v l
  | _, _, .trans h h' => .trans (ListPerm.symm h') (ListPerm.symm h)
end

theorem DictPerm.trans : ∀ {a b c : XVal}, DictPerm a b → DictPerm b c → DictPerm a c
  | _, _, _, .str _, h => h
  | _, _, _, .list h, .list h' => .list (.trans h h')
  | _, _, _, .dict (d' := d') h1 h2, .dict h1' h2' =>
    .dict (fun k => (h1 k).trans (h1' k)) (fun k v v'' hv hv'' => by
      cases hm : d'.lookup k with
      | none => rw [(h1 k).mpr hm] at hv; cases hv
      | some v' => exact DictPerm.trans (h2 k v v' hv hm) (h2' k v' v'' hm hv''))

mutual
/-- Python's `==` is the special case "no list entry moved" -/
theorem DictPerm.of_eq : ∀ {a b : XVal}, DictEq a b → DictPerm a b
  | _, _, .str s => .str s
  | _, _, .list h => .list (ListPerm.of_eq h)
  | _, _, .dict h1 h2 => .dict h1 (fun k v v' hv hv' => DictPerm.of_eq (h2 k v v' hv hv'))
theorem ListPerm.of_eq : ∀ {a b : List XVal}, ListEq a b → ListPerm a b
  | _, _, .nil => .nil
  | _, _, .cons h t => .cons (DictPerm.of_eq h) (ListPerm.of_eq t)
end

theorem DictRelP.refl (d : Dict) : DictRelP d d := (DictPerm.refl (.dict d)).rel

theorem DictRelP.trans {a b c : Dict} (h : DictRelP a b) (h' : DictRelP b c) : DictRelP a c :=
  (DictPerm.trans (DictPerm.of_rel h) (DictPerm.of_rel h')).rel

theorem ListPerm.append_left : ∀ (l : List XVal) {b b' : List XVal}, ListPerm b b' → ListPerm (l ++ b) (l ++ b')
  | [], _, _, h => h
  | v :: l, _, _, h => .cons (DictPerm.refl v) (ListPerm.append_left l h)

theorem ListPerm.append_right : ∀ {a a' : List XVal} (b : List XVal), ListPerm a a' → ListPerm (a ++ b) (a' ++ b)
  | _, _, b, .nil => ListPerm.refl b
  | _, _, b, .cons h t => .cons h (ListPerm.append_right b t)
  | _, _, b, .swap v w l => .swap v w (l ++ b)
  | _, _, b, .trans h h' => .trans (ListPerm.append_right b h) (ListPerm.append_right b h')

theorem ListPerm.append {a a' b b' : List XVal} (h : ListPerm a a') (h' : ListPerm b b') :
    ListPerm (a ++ b) (a' ++ b') :=
  .trans (ListPerm.append_right b h) (ListPerm.append_left a' h')

/-- `DictPerm` values are of the same Python type -/
theorem DictPerm.isList {a b : XVal} (h : DictPerm a b) : a.isList = b.isList := by
  cases h <;> rfl

/-- a related list splits into a permutation (of the very same entries) followed by an entry-by-entry
    relation -/
inductive All₂ {α β : Type} (R : α → β → Prop) : List α → List β → Prop
  | nil : All₂ R [] []
  | cons {a : α} {b : β} {l : List α} {l' : List β} : R a b → All₂ R l l' → All₂ R (a :: l) (b :: l')

theorem All₂.refl {α} {R : α → α → Prop} (h : ∀ a, R a a) : ∀ (l : List α), All₂ R l l
  | [] => .nil
  | a :: l => .cons (h a) (All₂.refl h l)

theorem All₂.length_eq {α β} {R : α → β → Prop} : ∀ {l : List α} {l' : List β}, All₂ R l l' → l.length = l'.length
  | _, _, .nil => rfl
  | _, _, .cons _ t => by simp [All₂.length_eq t]

theorem All₂.trans {α} {R : α → α → Prop} (ht : ∀ a b c, R a b → R b c → R a c) :
    ∀ {a b c : List α}, All₂ R a b → All₂ R b c → All₂ R a c
  | _, _, _, .nil, .nil => .nil
  | _, _, _, .cons h t, .cons h' t' => .cons (ht _ _ _ h h') (All₂.trans ht t t')

theorem All₂.imp {α β} {R S : α → β → Prop} (h : ∀ a b, R a b → S a b) :
    ∀ {l : List α} {l' : List β}, All₂ R l l' → All₂ S l l'
  | _, _, .nil => .nil
  | _, _, .cons h1 t => .cons (h _ _ h1) (All₂.imp h t)

/-- an entry-by-entry relation followed by a permutation is a permutation followed by the relation -/
theorem All₂.perm_comm {α β} {R : α → β → Prop} {b c : List β} (hp : b.Perm c) :
    ∀ {m : List α}, All₂ R m b → ∃ m', m.Perm m' ∧ All₂ R m' c := by
  induction hp with
  | nil => intro m h; exact ⟨m, List.Perm.refl _, h⟩
  | cons x _ ih =>
    intro m h
    cases h with
    | cons h1 t =>
      obtain ⟨m', hp', ha'⟩ := ih t
      exact ⟨_ :: m', hp'.cons _, .cons h1 ha'⟩
  | swap x y l =>
    intro m h
    cases h with
    | cons h1 t =>
      cases t with
      | cons h2 t' => exact ⟨_, List.Perm.swap _ _ _, .cons h2 (.cons h1 t')⟩
  | trans _ _ ih1 ih2 =>
    intro m h
    obtain ⟨m1, hp1, ha1⟩ := ih1 h
    obtain ⟨m2, hp2, ha2⟩ := ih2 ha1
    exact ⟨m2, hp1.trans hp2, ha2⟩

/-- `l` and `l'` agree up to a permutation and `R` on the entries -/
def PermRel {α : Type} (R : α → α → Prop) (l l' : List α) : Prop := ∃ m, l.Perm m ∧ All₂ R m l'

theorem PermRel.trans {α} {R : α → α → Prop} (ht : ∀ a b c, R a b → R b c → R a c) {a b c : List α}
    (h : PermRel R a b) (h' : PermRel R b c) : PermRel R a c := by
  obtain ⟨m, hp, ha⟩ := h
  obtain ⟨m', hp', ha'⟩ := h'
  obtain ⟨m'', hp'', ha''⟩ := All₂.perm_comm hp' ha
  exact ⟨m'', hp.trans hp'', All₂.trans ht ha'' ha'⟩

/-- **`ListPerm` is: a permutation, then `DictPerm` entry by entry** -/
theorem ListPerm.split : ∀ {l l' : List XVal}, ListPerm l l' → PermRel DictPerm l l'
  | _, _, .nil => ⟨[], List.Perm.refl _, .nil⟩
  | _, _, .cons h t => by
    obtain ⟨m, hp, ha⟩ := ListPerm.split t
    exact ⟨_ :: m, hp.cons _, .cons h ha⟩
  | _, _, .swap v w l => ⟨w :: v :: l, List.Perm.swap _ _ _, All₂.refl DictPerm.refl _⟩
  | _, _, .trans h h' => PermRel.trans (R := DictPerm) (fun _ _ _ h1 h2 => DictPerm.trans h1 h2) (ListPerm.split h) (ListPerm.split h')

theorem ListPerm.of_perm {l l' : List XVal} (h : l.Perm l') : ListPerm l l' := by
  induction h with
  | nil => exact .nil
  | cons x _ ih => exact .cons (DictPerm.refl x) ih
  | swap x y l => exact .swap y x l
  | trans _ _ ih1 ih2 => exact .trans ih1 ih2

theorem ListPerm.of_all₂ : ∀ {l l' : List XVal}, All₂ DictPerm l l' → ListPerm l l'
  | _, _, .nil => .nil
  | _, _, .cons h t => .cons h (ListPerm.of_all₂ t)

theorem ListPerm.isEmpty {l l' : List XVal} (h : ListPerm l l') : l.isEmpty = l'.isEmpty := by
  obtain ⟨m, hp, ha⟩ := h.split
  have h1 := hp.length_eq
  have h2 := ha.length_eq
  cases l <;> cases l' <;> simp_all

/-! ### lookups -/

theorem DictRelP.lookup_some {d d' : Dict} (h : DictRelP d d') {k : List Char} {v : XVal} (hv : d.lookup k = some v) :
    ∃ v', d'.lookup k = some v' ∧ DictPerm v v' := by
  cases hv' : d'.lookup k with
  | none => rw [(h.1 k).mpr hv'] at hv; cases hv
  | some v' => exact ⟨v', rfl, h.2 k v v' hv hv'⟩

/-- the values under one key of two related dicts -/
inductive OptRelP : Option XVal → Option XVal → Prop
  | none : OptRelP none none
  | some {u v : XVal} : DictPerm u v → OptRelP (some u) (some v)

theorem DictRelP.lookups {d d' : Dict} (h : DictRelP d d') (k : List Char) : OptRelP (d.lookup k) (d'.lookup k) := by
  cases hv : d.lookup k with
  | none => rw [(h.1 k).mp hv]; exact .none
  | some v =>
    obtain ⟨v', hv', hr⟩ := h.lookup_some hv
    rw [hv']
    exact .some hr

/-- a dict described by its lookups: related when the lookups are -/
theorem dictRelP_of_lookups {d d' : Dict} (h : ∀ k, OptRelP (d.lookup k) (d'.lookup k)) : DictRelP d d' := by
  constructor
  · intro k
    have := h k
    generalize d.lookup k = x, d'.lookup k = y at this
    cases this <;> simp
  · intro k v v' hv hv'
    have := h k
    rw [hv, hv'] at this
    cases this with
    | some hr => exact hr

/-! ### `_store_element` under a name: what is found there afterwards -/

/-- the value `_store_element` leaves under `name`, from what was there before -/
def storedVal (old : Option XVal) (v : XVal) : XVal :=
  match old with
  | some (.list l) => .list (l ++ [v])
  | some o => .list [o, v]
  | none => v

theorem storeElement_self (res : Dict) (name : List Char) (v : XVal) :
    (storeElement res name v).lookup name = some (storedVal (res.lookup name) v) := by
  unfold storeElement storedVal
  cases h : res.lookup name with
  | none => exact lookup_append_fresh _ _ _ h
  | some o => cases o <;> exact lookup_dictSet_self _ _ _

theorem storedVal_rel {o o' : Option XVal} (ho : OptRelP o o') {v v' : XVal} (hv : DictPerm v v') :
    DictPerm (storedVal o v) (storedVal o' v') := by
  cases ho with
  | none => exact hv
  | some hr =>
    cases hr with
    | str s => exact .list (.cons (.str s) (.cons hv .nil))
    | list hl => exact .list (hl.append (.cons hv .nil))
    | dict g1 g2 => exact .list (.cons (.dict g1 g2) (.cons hv .nil))

/-- **`_store_element` respects `DictPerm`** -/
theorem storeElement_relP {d d' : Dict} (h : DictRelP d d') (n : List Char) {v v' : XVal} (hv : DictPerm v v') :
    DictRelP (storeElement d n v) (storeElement d' n v') := by
  apply dictRelP_of_lookups
  intro k
  by_cases hk : k = n
  · subst hk
    rw [storeElement_self, storeElement_self]
    exact .some (storedVal_rel (h.lookups k) hv)
  · rw [storeElement_other _ _ _ _ hk, storeElement_other _ _ _ _ hk]
    exact h.lookups k

/-- storing a second value under the same name: the two orders give lists that are permutations -/
theorem storedVal_swap {o o' : Option XVal} (ho : OptRelP o o') (v w : XVal) (hv : v.isList = false)
    (hw : w.isList = false) :
    DictPerm (storedVal (some (storedVal o v)) w) (storedVal (some (storedVal o' w)) v) := by
  cases ho with
  | none =>
    cases v <;> cases w <;> first | exact .list (.swap _ _ _) | (simp [XVal.isList] at hv hw)
  | some hr =>
    cases hr with
    | str s => exact .list (.cons (.str s) (.swap _ _ _))
    | dict g1 g2 => exact .list (.cons (.dict g1 g2) (.swap _ _ _))
    | @list l l' hl =>
      simp only [storedVal, List.append_assoc, List.cons_append, List.nil_append]
      exact .list (hl.append (.swap _ _ _))

/-- **two `_store_element`s commute up to `DictPerm`** (for values that are not themselves lists — element
    values never are) -/
theorem storeElement_swap {d d' : Dict} (h : DictRelP d d') (n m : List Char) (v w : XVal)
    (hv : v.isList = false) (hw : w.isList = false) :
    DictRelP (storeElement (storeElement d n v) m w) (storeElement (storeElement d' m w) n v) := by
  apply dictRelP_of_lookups
  intro k
  by_cases hnm : n = m
  · subst hnm
    by_cases hk : k = n
    · subst hk
      simp only [storeElement_self]
      exact .some (storedVal_swap (h.lookups k) v w hv hw)
    · simp only [storeElement_other _ _ _ _ hk]
      exact h.lookups k
  · by_cases hk : k = n
    · subst hk
      have hkm : k ≠ m := hnm
      rw [storeElement_other _ _ _ _ hkm, storeElement_self, storeElement_self, storeElement_other _ _ _ _ hkm]
      exact .some (storedVal_rel (h.lookups k) (DictPerm.refl v))
    · by_cases hk2 : k = m
      · subst hk2
        rw [storeElement_self, storeElement_other _ _ _ _ hk, storeElement_other _ _ _ _ hk, storeElement_self]
        exact .some (storedVal_rel (h.lookups k) (DictPerm.refl w))
      · simp only [storeElement_other _ _ _ _ hk, storeElement_other _ _ _ _ hk2]
        exact h.lookups k

/-- `{"attrs": …, "value": …}` respects `DictPerm` of the value -/
theorem elementValue_relP (a : Option Attrs) {v v' : XVal} (hv : DictPerm v v') :
    DictPerm (elementValue a v) (elementValue a v') := by
  cases a with
  | none => exact hv
  | some a =>
    simp only [elementValue]
    apply DictPerm.of_rel
    apply dictRelP_of_lookups
    intro k
    by_cases h1 : k = kAttrs
    · subst h1
      simp only [List.lookup, beq_self_eq_true]
      exact .some (DictPerm.refl _)
    · by_cases h2 : k = kValue
      · subst h2
        have hne : (kValue == kAttrs) = false := by decide
        simp only [List.lookup, hne, beq_self_eq_true]
        exact .some hv
      · have e1 : (k == kAttrs) = false := by simpa using h1
        have e2 : (k == kValue) = false := by simpa using h2
        simp only [List.lookup, e1, e2]
        exact .none

theorem elementValue_not_list (a : Option Attrs) (v : XVal) (hv : v.isList = false) :
    (elementValue a v).isList = false := by
  cases a with
  | none => exact hv
  | some a => rfl

/-! ### the same document with permuted child elements -/

/-- the trees of a forest, in document order (the white space between them forgotten) -/
def forestList : PForest → List PTree
  | .nil => []
  | .cons _ t f => t :: forestList f

mutual
/-- `t'` is `t` with the child elements of every element permuted, at every level (white space that the
    standard reading ignores may differ too) -/
inductive ChildPermT : PTree → PTree → Prop
  | leaf (n : List Char) (a : Attrs) (g g' text : List Char) : ChildPermT (.leaf n a g text) (.leaf n a g' text)
  | empty (n : List Char) (a : Attrs) (g g' : List Char) : ChildPermT (.empty n a g) (.empty n a g')
  | node (n : List Char) (a : Attrs) (g g' pre pre' post post' : List Char) {first first' : PTree}
      {rest rest' : PForest} : ChildPermL (first :: forestList rest) (first' :: forestList rest') →
      ChildPermT (.node n a g pre first rest post) (.node n a g' pre' first' rest' post')
/-- a list of sibling elements, permuted, each sibling again up to `ChildPermT` -/
inductive ChildPermL : List PTree → List PTree → Prop
  | nil : ChildPermL [] []
  | cons {t t' : PTree} {l l' : List PTree} : ChildPermT t t' → ChildPermL l l' → ChildPermL (t :: l) (t' :: l')
  | swap (t u : PTree) (l : List PTree) : ChildPermL (t :: u :: l) (u :: t :: l)
  | trans {a b c : List PTree} : ChildPermL a b → ChildPermL b c → ChildPermL a c
end

theorem ChildPermT.name : ∀ {t t' : PTree}, ChildPermT t t' → t.name = t'.name
  | _, _, .leaf .. => rfl
  | _, _, .empty .. => rfl
  | _, _, .node .. => rfl

mutual
theorem ChildPermT.refl : ∀ (t : PTree), ChildPermT t t
  | .leaf n a g text => .leaf n a g g text
  | .empty n a g => .empty n a g g
  | .node n a g pre first rest post => .node n a g g pre pre post post (.cons (ChildPermT.refl first) (ChildPermF.refl rest))
theorem ChildPermF.refl : ∀ (f : PForest), ChildPermL (forestList f) (forestList f)
  | .nil => .nil
  | .cons _ t f => .cons (ChildPermT.refl t) (ChildPermF.refl f)
end

mutual
theorem ChildPermT.symm : ∀ {t t' : PTree}, ChildPermT t t' → ChildPermT t' t
  | _, _, .leaf n a g g' text => .leaf n a g' g text
  | _, _, .empty n a g g' => .empty n a g' g
  | _, _, .node n a g g' pre pre' post post' h => .node n a g' g pre' pre post' post (ChildPermL.symm h)
theorem ChildPermL.symm : ∀ {l l' : List PTree}, ChildPermL l l' → ChildPermL l' l
  | _, _, .nil => .nil
  | _, _, .cons h t => .cons (ChildPermT.symm h) (ChildPermL.symm t)
  | _, _, .swap t u l => .swap u t l
  | _, _, .trans h h' => .trans (ChildPermL.symm h') (ChildPermL.symm h)
end

theorem ChildPermL.refl : ∀ (l : List PTree), ChildPermL l l
  | [] => .nil
  | t :: l => .cons (ChildPermT.refl t) (ChildPermL.refl l)

/-- every permutation of the siblings is admitted -/
theorem ChildPermL.of_perm {l l' : List PTree} (h : l.Perm l') : ChildPermL l l' := by
  induction h with
  | nil => exact .nil
  | cons x _ ih => exact .cons (ChildPermT.refl x) ih
  | swap x y l => exact .swap y x l
  | trans _ _ ih1 ih2 => exact .trans ih1 ih2

/-! ### the standard reading -/

/-- the siblings of a list stored one after the other, in document order -/
def storeL (d : Dict) (l : List PTree) : Dict := l.foldl (fun acc t => storeElement acc t.name (valT t)) d

theorem storeF_eq_storeL : ∀ (f : PForest) (d : Dict), storeF d f = storeL d (forestList f)
  | .nil, d => rfl
  | .cons _ t f, d => by
    simp only [storeF, forestList, storeL, List.foldl_cons]
    exact storeF_eq_storeL f _

theorem valT_node (n : List Char) (a : Attrs) (g pre : List Char) (first : PTree) (rest : PForest) (post : List Char) :
    valT (.node n a g pre first rest post) = elementValue (attrsOpt a) (.dict (storeL [] (first :: forestList rest))) := by
  simp only [valT, storeF_eq_storeL, storeL, List.foldl_cons]

theorem valT_not_list : ∀ (t : PTree), (valT t).isList = false
  | .leaf .. => elementValue_not_list _ _ rfl
  | .empty .. => elementValue_not_list _ _ rfl
  | .node .. => elementValue_not_list _ _ rfl

theorem storeL_same (l : List PTree) : ∀ {d d' : Dict}, DictRelP d d' → DictRelP (storeL d l) (storeL d' l) := by
  induction l with
  | nil => intro d d' h; exact h
  | cons t l ih =>
    intro d d' h
    simp only [storeL, List.foldl_cons]
    exact ih (storeElement_relP h _ (DictPerm.refl _))

mutual
/-- **The standard reading of a document with permuted child elements** is the same up to the order of the
    entries of the lists that collect same-named siblings (and up to dict key order). -/
theorem valT_childPerm : ∀ {t t' : PTree}, ChildPermT t t' → DictPerm (valT t) (valT t')
  | _, _, .leaf n a g g' text => DictPerm.refl _
  | _, _, .empty n a g g' => DictPerm.refl _
  | _, _, .node n a g g' pre pre' post post' h => by
    rw [valT_node, valT_node]
    exact elementValue_relP _ (DictPerm.of_rel (storeL_childPerm h (DictRelP.refl [])))
theorem storeL_childPerm : ∀ {l l' : List PTree}, ChildPermL l l' → ∀ {d d' : Dict}, DictRelP d d' →
    DictRelP (storeL d l) (storeL d' l')
  | _, _, .nil, _, _, hd => hd
  | _, _, .cons (t := t) (t' := t') ht hl, _, _, hd => by
    simp only [storeL, List.foldl_cons]
    rw [← ht.name]
    exact storeL_childPerm hl (storeElement_relP hd _ (valT_childPerm ht))
  | _, _, .swap t u l, _, _, hd => by
    simp only [storeL, List.foldl_cons]
    exact storeL_same l (storeElement_swap hd _ _ _ _ (valT_not_list t) (valT_not_list u))
  | _, _, .trans h h', _, _, hd =>
    (storeL_childPerm h hd).trans (storeL_childPerm h' (DictRelP.refl _))
end

/-- the dicts of two documents that differ in the order of child elements (and layout) -/
theorem dictOf_childPerm (t t' : PTree) (h : ChildPermT t t') : DictPerm (.dict (dictOf t)) (.dict (dictOf t')) := by
  unfold dictOf
  rw [← h.name]
  apply DictPerm.of_rel
  apply dictRelP_of_lookups
  intro k
  simp only [List.lookup]
  cases (k == t.name) with
  | true => exact .some (valT_childPerm h)
  | false => exact .none

/-! ### the special case: only differently named siblings change places

When the permutation keeps same-named siblings in their relative order — `Inception` after `Expiration`,
`RequestPolicy` after the `RequestBundle`s, a `Signer` between two `Key`s — no list entry moves: the two
readings are `DictEq`, Python's `==`, and the glue (a congruence for `DictEq`, XmlGlueEq.lean) returns the SAME
object or raises the SAME error. -/

mutual
/-- `t'` is `t` with child elements reordered at every level, same-named siblings keeping their relative order -/
inductive ChildMoveT : PTree → PTree → Prop
  | leaf (n : List Char) (a : Attrs) (g g' text : List Char) : ChildMoveT (.leaf n a g text) (.leaf n a g' text)
  | empty (n : List Char) (a : Attrs) (g g' : List Char) : ChildMoveT (.empty n a g) (.empty n a g')
  | node (n : List Char) (a : Attrs) (g g' pre pre' post post' : List Char) {first first' : PTree}
      {rest rest' : PForest} : ChildMoveL (first :: forestList rest) (first' :: forestList rest') →
      ChildMoveT (.node n a g pre first rest post) (.node n a g' pre' first' rest' post')
inductive ChildMoveL : List PTree → List PTree → Prop
  | nil : ChildMoveL [] []
  | cons {t t' : PTree} {l l' : List PTree} : ChildMoveT t t' → ChildMoveL l l' → ChildMoveL (t :: l) (t' :: l')
  | swap (t u : PTree) (l : List PTree) : t.name ≠ u.name → ChildMoveL (t :: u :: l) (u :: t :: l)
  | trans {a b c : List PTree} : ChildMoveL a b → ChildMoveL b c → ChildMoveL a c
end

theorem ChildMoveT.name : ∀ {t t' : PTree}, ChildMoveT t t' → t.name = t'.name
  | _, _, .leaf .. => rfl
  | _, _, .empty .. => rfl
  | _, _, .node .. => rfl

mutual
/-- a special case of `ChildPermT` -/
theorem ChildMoveT.perm : ∀ {t t' : PTree}, ChildMoveT t t' → ChildPermT t t'
  | _, _, .leaf n a g g' text => .leaf n a g g' text
  | _, _, .empty n a g g' => .empty n a g g'
  | _, _, .node n a g g' pre pre' post post' h => .node n a g g' pre pre' post post' (ChildMoveL.perm h)
theorem ChildMoveL.perm : ∀ {l l' : List PTree}, ChildMoveL l l' → ChildPermL l l'
  | _, _, .nil => .nil
  | _, _, .cons h t => .cons (ChildMoveT.perm h) (ChildMoveL.perm t)
  | _, _, .swap t u l _ => .swap t u l
  | _, _, .trans h h' => .trans (ChildMoveL.perm h) (ChildMoveL.perm h')
end

theorem DictRel.trans {a b c : Dict} (h : DictRel a b) (h' : DictRel b c) : DictRel a c :=
  (DictEq.trans (DictEq.of_rel h) (DictEq.of_rel h')).rel

/-- two `_store_element`s under DIFFERENT names commute up to `DictEq` -/
theorem storeElement_swap_ne {d d' : Dict} (h : DictRel d d') {n m : List Char} (hnm : n ≠ m) (v w : XVal) :
    DictRel (storeElement (storeElement d n v) m w) (storeElement (storeElement d' m w) n v) := by
  have h1 : DictRel (storeElement (storeElement d n v) m w) (storeElement (storeElement d' n v) m w) :=
    storeElement_rel (storeElement_rel h n (DictEq.refl v)) m (DictEq.refl w)
  refine h1.trans ?_
  apply dictRel_of_lookups
  intro k
  have hrefl : ∀ (x : Dict) (k : List Char), (x.lookup k = none ∧ x.lookup k = none) ∨
      ∃ v v', x.lookup k = some v ∧ x.lookup k = some v' ∧ DictEq v v' := fun x k => (DictRel.refl x).lookups k
  by_cases hk : k = n
  · subst hk
    rw [storeElement_other _ _ _ _ hnm, storeElement_self, storeElement_self, storeElement_other _ _ _ _ hnm]
    exact Or.inr ⟨_, _, rfl, rfl, DictEq.refl _⟩
  · by_cases hk2 : k = m
    · subst hk2
      rw [storeElement_self, storeElement_other _ _ _ _ hk, storeElement_other _ _ _ _ hk, storeElement_self]
      exact Or.inr ⟨_, _, rfl, rfl, DictEq.refl _⟩
    · simp only [storeElement_other _ _ _ _ hk, storeElement_other _ _ _ _ hk2]
      exact hrefl d' k

theorem storeL_sameE (l : List PTree) : ∀ {d d' : Dict}, DictRel d d' → DictRel (storeL d l) (storeL d' l) := by
  induction l with
  | nil => intro d d' h; exact h
  | cons t l ih =>
    intro d d' h
    simp only [storeL, List.foldl_cons]
    exact ih (storeElement_rel h _ (DictEq.refl _))

theorem elementValue_relE (a : Option Attrs) {v v' : XVal} (hv : DictEq v v') :
    DictEq (elementValue a v) (elementValue a v') := by
  cases a with
  | none => exact hv
  | some a =>
    simp only [elementValue]
    apply DictEq.of_rel
    apply dictRel_of_lookups
    intro k
    by_cases h1 : k = kAttrs
    · subst h1
      exact Or.inr ⟨.dict (a.map fun p => (p.1, .str p.2)), .dict (a.map fun p => (p.1, .str p.2)),
        by simp [List.lookup], by simp [List.lookup], DictEq.refl _⟩
    · by_cases h2 : k = kValue
      · subst h2
        have hne : (kValue == kAttrs) = false := by decide
        exact Or.inr ⟨v, v', by simp [List.lookup, hne], by simp [List.lookup, hne], hv⟩
      · have e1 : (k == kAttrs) = false := by simpa using h1
        have e2 : (k == kValue) = false := by simpa using h2
        exact Or.inl ⟨by simp [List.lookup, e1, e2], by simp [List.lookup, e1, e2]⟩

mutual
/-- **Reordering differently named siblings leaves the standard reading `==`.** -/
theorem valT_childMove : ∀ {t t' : PTree}, ChildMoveT t t' → DictEq (valT t) (valT t')
  | _, _, .leaf n a g g' text => DictEq.refl _
  | _, _, .empty n a g g' => DictEq.refl _
  | _, _, .node n a g g' pre pre' post post' h => by
    rw [valT_node, valT_node]
    exact elementValue_relE _ (DictEq.of_rel (storeL_childMove h (DictRel.refl [])))
theorem storeL_childMove : ∀ {l l' : List PTree}, ChildMoveL l l' → ∀ {d d' : Dict}, DictRel d d' →
    DictRel (storeL d l) (storeL d' l')
  | _, _, .nil, _, _, hd => hd
  | _, _, .cons (t := t) (t' := t') ht hl, _, _, hd => by
    simp only [storeL, List.foldl_cons]
    rw [← ht.name]
    exact storeL_childMove hl (storeElement_rel hd _ (valT_childMove ht))
  | _, _, .swap t u l hne, _, _, hd => by
    simp only [storeL, List.foldl_cons]
    exact storeL_sameE l (storeElement_swap_ne hd hne _ _)
  | _, _, .trans h h', _, _, hd =>
    (storeL_childMove h hd).trans (storeL_childMove h' (DictRel.refl _))
end

theorem dictOf_childMove (t t' : PTree) (h : ChildMoveT t t') : DictEq (.dict (dictOf t)) (.dict (dictOf t')) := by
  have := storeElement_rel (DictRel.refl []) t.name (valT_childMove h)
  have e : ∀ (n : List Char) (v : XVal), storeElement [] n v = [(n, v)] := by
    intro n v; simp [storeElement, List.lookup]
  rw [e, e] at this
  unfold dictOf
  rw [← h.name]
  exact DictEq.of_rel this

end Kskm.Xml
