/-
  schema/ksr.rnc, Response side, as a predicate over element trees — a hand transliteration, pattern by
  pattern (the harness interprets the .rnc file itself on every emitted document and compares the
  ElementTree reading of the text with `treeOf`).

  * element names, order and cardinalities (`+`) are as in the grammar;
  * attributes are an unordered set: exactly the required names (plus the optional `timestamp`), each
    once, each value in its datatype;
  * `xsd:nonNegativeInteger` (with `minInclusive` / `maxInclusive`) is interpreted: an optional '+' is not
    needed by the writer, the predicate accepts the canonical decimal forms (digits only) — a subset
    of the XSD lexical space; `xsd:string` accepts everything;
  * `xsd:dateTime`, `xsd:duration`, `xsd:base64Binary` are PARAMETERS (`Datatypes`): conformance is proved
    for every interpretation that accepts what the two writer codecs print and the base64 texts of the
    domain; that the printed forms are in the XSD lexical spaces is checked on every run by
    harness/corr_C11.py (`xsd_valid`) on ≥ 5 000 printed values.
-/
import KskmProofs.Lemmas.C11EndTag
namespace Kskm.Rnc

structure Datatypes where
  dateTime : String → Prop
  duration : String → Prop
  base64 : String → Prop

/-- `xsd:nonNegativeInteger { minInclusive = lo  maxInclusive = hi }`, canonical decimal forms -/
def nonNeg (lo : Nat) (hi : Option Nat) (s : String) : Prop :=
  s.toList ≠ [] ∧ (∀ c ∈ s.toList, c.isDigit = true) ∧ lo ≤ Nat.ofDigitChars 10 s.toList 0 ∧
    ∀ h, hi = some h → Nat.ofDigitChars 10 s.toList 0 ≤ h

def xsdString (_ : String) : Prop := True

-- named datatypes of the grammar
def keytag := nonNeg 0 (some 65535)
def algorithm := nonNeg 0 (some 255)
def ttl := nonNeg 0 none
def protocol := nonNeg 3 (some 3)
def flags := nonNeg 0 (some 65535)
def labels := nonNeg 0 (some 255)

/-- `attribute n₁ { T₁ }, …` (all required) with optional ones: an unordered set -/
def attrsAre (a : List (String × String)) (req : List (String × (String → Prop)))
    (opt : List (String × (String → Prop))) : Prop :=
  (a.map (·.1)).Nodup ∧
  (∀ p ∈ req, ∃ v, (p.1, v) ∈ a ∧ p.2 v) ∧
  (∀ q ∈ a, (∃ p ∈ req, p.1 = q.1) ∨ (∃ p ∈ opt, p.1 = q.1 ∧ p.2 q.2))

/-- `element name { T }` with no attributes -/
def textElem (name : String) (T : String → Prop) : XTree → Prop
  | .leaf n a t => n = name ∧ a = [] ∧ T t
  | _ => False

/-- `RSA = element RSA { attribute size {…}, attribute exponent {…}, empty }` -/
def rsa : XTree → Prop
  | .empty n a => n = "RSA" ∧ attrsAre a [("size", nonNeg 0 none), ("exponent", nonNeg 0 none)] []
  | _ => False

/-- `ECDSA = element ECDSA { attribute size {…}, empty }` -/
def ecdsa : XTree → Prop
  | .empty n a => n = "ECDSA" ∧ attrsAre a [("size", nonNeg 0 none)] []
  | _ => False

/-- `algorithmPolicy = element SignatureAlgorithm { attribute algorithm { algorithm }, (RSA | ECDSA) }` -/
def algorithmPolicy : XTree → Prop
  | .node n a [c] => n = "SignatureAlgorithm" ∧ attrsAre a [("algorithm", algorithm)] [] ∧ (rsa c ∨ ecdsa c)
  | _ => False

/-- `anykeyPolicy` as the content of `element name { … }` -/
def keyPolicyElem (dt : Datatypes) (name : String) : XTree → Prop
  | .node n a (c1 :: c2 :: c3 :: c4 :: c5 :: c6 :: algs) =>
    n = name ∧ a = [] ∧
    textElem "PublishSafety" dt.duration c1 ∧ textElem "RetireSafety" dt.duration c2 ∧
    textElem "MaxSignatureValidity" dt.duration c3 ∧ textElem "MinSignatureValidity" dt.duration c4 ∧
    textElem "MaxValidityOverlap" dt.duration c5 ∧ textElem "MinValidityOverlap" dt.duration c6 ∧
    algs ≠ [] ∧ ∀ x ∈ algs, algorithmPolicy x            -- algorithmPolicy+
  | _ => False

/-- `key = element Key { … }` -/
def key (dt : Datatypes) : XTree → Prop
  | .node n a [c1, c2, c3, c4, c5] =>
    n = "Key" ∧ attrsAre a [("keyIdentifier", xsdString), ("keyTag", keytag)] [] ∧
    textElem "TTL" ttl c1 ∧ textElem "Flags" flags c2 ∧ textElem "Protocol" protocol c3 ∧
    textElem "Algorithm" algorithm c4 ∧ textElem "PublicKey" dt.base64 c5
  | _ => False

/-- `signature = element Signature { … }` -/
def signature (dt : Datatypes) : XTree → Prop
  | .node n a [c1, c2, c3, c4, c5, c6, c7, c8, c9, c10] =>
    n = "Signature" ∧ attrsAre a [("keyIdentifier", xsdString)] [] ∧
    textElem "TTL" ttl c1 ∧ textElem "TypeCovered" xsdString c2 ∧ textElem "Algorithm" algorithm c3 ∧
    textElem "Labels" labels c4 ∧ textElem "OriginalTTL" ttl c5 ∧ textElem "SignatureExpiration" dt.dateTime c6 ∧
    textElem "SignatureInception" dt.dateTime c7 ∧ textElem "KeyTag" keytag c8 ∧
    textElem "SignersName" xsdString c9 ∧ textElem "SignatureData" dt.base64 c10
  | _ => False

/-- `element ResponseBundle { attribute id, Inception, Expiration, key+, signature+ }` -/
def responseBundle (dt : Datatypes) : XTree → Prop
  | .node n a (c1 :: c2 :: rest) =>
    n = "ResponseBundle" ∧ attrsAre a [("id", xsdString)] [] ∧
    textElem "Inception" dt.dateTime c1 ∧ textElem "Expiration" dt.dateTime c2 ∧
    ∃ ks ss, rest = ks ++ ss ∧ ks ≠ [] ∧ ss ≠ [] ∧ (∀ k ∈ ks, key dt k) ∧ (∀ s ∈ ss, signature dt s)
  | _ => False

/-- `element ResponsePolicy { element KSK { anykeyPolicy }, element ZSK { anykeyPolicy } }` -/
def responsePolicy (dt : Datatypes) : XTree → Prop
  | .node n a [k, z] => n = "ResponsePolicy" ∧ a = [] ∧ keyPolicyElem dt "KSK" k ∧ keyPolicyElem dt "ZSK" z
  | _ => False

/-- `response = element Response { attribute timestamp?, ResponsePolicy, ResponseBundle+ }` -/
def response (dt : Datatypes) : XTree → Prop
  | .node n a (p :: bundles) =>
    n = "Response" ∧ attrsAre a [] [("timestamp", dt.dateTime)] ∧ responsePolicy dt p ∧
    bundles ≠ [] ∧ ∀ b ∈ bundles, responseBundle dt b
  | _ => False

/-- `start = element KSR { attribute id, attribute serial, attribute domain, (request | response) }`,
    the `response` alternative -/
def start (dt : Datatypes) : XTree → Prop
  | .node n a [c] =>
    n = "KSR" ∧ attrsAre a [("id", xsdString), ("serial", nonNeg 0 none), ("domain", xsdString)] [] ∧ response dt c
  | _ => False

end Kskm.Rnc

/-! ### the writer's tree conforms -/
namespace Kskm.Rnc
open Kskm

theorem nonNeg_nat (n lo : Nat) (hi : Option Nat) (hlo : lo ≤ n) (hhi : ∀ h, hi = some h → n ≤ h) :
    nonNeg lo hi (str (natStr n)) := by
  simp only [nonNeg, str, natStr, String.toList_ofList, Nat.ofDigitChars_ten_toDigits]
  exact ⟨Nat.toDigits_ne_nil, all_digits_toDigits n, hlo, hhi⟩

theorem nonNeg_int (i : Int) (lo : Nat) (hi : Option Nat) (hlo : (lo : Int) ≤ i)
    (hhi : ∀ h, hi = some h → i ≤ (h : Int)) : nonNeg lo hi (str (pyIntStr i)) := by
  have h0 : 0 ≤ i := by omega
  obtain ⟨n, rfl⟩ := Int.eq_ofNat_of_zero_le h0
  have : pyIntStr (n : Int) = natStr n := by
    unfold pyIntStr natStr
    rw [if_neg (by omega)]; simp
  rw [this]
  exact nonNeg_nat n lo hi (by omega) (fun h hh => by have := hhi h hh; omega)

/-- an explicit attribute list with distinct names meets "exactly these required attributes" -/
theorem attrsAre_one (n v : String) (T : String → Prop) (h : T v) : attrsAre [(n, v)] [(n, T)] [] := by
  refine ⟨by simp, ?_, ?_⟩
  · intro p hp
    simp only [List.mem_singleton] at hp
    subst hp
    exact ⟨v, by simp, h⟩
  · intro q hq
    simp only [List.mem_singleton] at hq
    subst hq
    exact Or.inl ⟨(n, T), by simp, rfl⟩

theorem attrsAre_two (n1 v1 n2 v2 : String) (T1 T2 : String → Prop) (hne : n1 ≠ n2) (h1 : T1 v1) (h2 : T2 v2) :
    attrsAre [(n1, v1), (n2, v2)] [(n1, T1), (n2, T2)] [] := by
  refine ⟨by simp [hne], ?_, ?_⟩
  · intro p hp
    simp only [List.mem_cons, List.not_mem_nil, or_false] at hp
    rcases hp with rfl | rfl
    · exact ⟨v1, by simp, h1⟩
    · exact ⟨v2, by simp, h2⟩
  · intro q hq
    simp only [List.mem_cons, List.not_mem_nil, or_false] at hq
    rcases hq with rfl | rfl
    · exact Or.inl ⟨(n1, T1), by simp, rfl⟩
    · exact Or.inl ⟨(n2, T2), by simp, rfl⟩

theorem algTree_conforms (a : AlgPolicy) (h : algOk a = true) : algorithmPolicy (algTree a) := by
  have ap := algOk_parts a h
  unfold algTree
  simp only [algorithmPolicy, rsa, true_and]
  refine ⟨attrsAre_one _ _ _ (nonNeg_nat _ 0 _ (Nat.zero_le _) (fun h hh => ?_)), Or.inl ?_⟩
  · cases hh; rcases ap.alg with e | e | e <;> omega
  · exact attrsAre_two _ _ _ _ _ _ (by decide) (nonNeg_int _ 0 none (by simpa using ap.bits0) (fun _ h => by cases h))
      (nonNeg_int _ 0 none (by simpa using ap.exp0) (fun _ h => by cases h))

/-- what the datatype interpretation must accept: the printed forms of the two codecs and canonical base64 -/
structure Accepts (dt : Datatypes) : Prop where
  duration : ∀ d, durationOk d = true → dt.duration (formatDuration d)
  dateTime : ∀ t, instantOk t = true → dt.dateTime (formatDatetime t)
  base64 : ∀ s : String, (Base64.decode s).isSome = true → dt.base64 s

theorem policyTree_conforms (dt : Datatypes) (acc : Accepts dt) (name : String) (p : SigPolicy)
    (h : policyOk p = true) : keyPolicyElem dt name (policyTree name p) := by
  have hp := policyOk_parts p h
  unfold policyTree
  simp only [List.cons_append, List.nil_append, keyPolicyElem, textElem, true_and]
  refine ⟨acc.duration _ hp.d1, acc.duration _ hp.d2, acc.duration _ hp.d3, acc.duration _ hp.d4,
    acc.duration _ hp.d5, acc.duration _ hp.d6, ?_, ?_⟩
  · simpa using hp.algsNe
  · intro x hx
    obtain ⟨a, ha, rfl⟩ := List.mem_map.mp hx
    exact algTree_conforms a (hp.algs a ha)

theorem keyTree_conforms (dt : Datatypes) (acc : Accepts dt) (k : Key) (h : keyOk k = true) :
    key dt (keyTree k) := by
  have hp := keyOk_parts k h
  unfold keyTree
  simp only [key, textElem, true_and]
  refine ⟨attrsAre_two _ _ _ _ _ _ (by decide) trivial
      (nonNeg_int _ 0 _ (by simpa using hp.tag0) (fun h hh => by cases hh; exact hp.tag1)),
    nonNeg_int _ 0 _ (by simpa using hp.ttl) (fun _ hh => by cases hh),
    nonNeg_int _ 0 _ (by simpa using hp.flags0) (fun h hh => by cases hh; exact hp.flags1),
    nonNeg_int _ 3 _ (by rw [hp.protocol]; decide) (fun h hh => by cases hh; rw [hp.protocol]; decide),
    nonNeg_nat _ 0 _ (Nat.zero_le _) (fun h hh => by cases hh; exact hp.alg),
    acc.base64 _ hp.b64⟩

theorem sigTree_conforms (dt : Datatypes) (acc : Accepts dt) (s : Signature) (h : sigOk s = true) :
    signature dt (sigTree s) := by
  have hp := sigOk_parts s h
  unfold sigTree
  simp only [signature, textElem, true_and]
  refine ⟨attrsAre_one _ _ _ trivial,
    nonNeg_int _ 0 _ (by simpa using hp.ttl) (fun _ hh => by cases hh), trivial,
    nonNeg_nat _ 0 _ (Nat.zero_le _) (fun h hh => by cases hh; exact hp.alg),
    nonNeg_int _ 0 _ (by simpa using hp.labels0) (fun h hh => by cases hh; exact hp.labels1),
    nonNeg_int _ 0 _ (by simpa using hp.ottl) (fun _ hh => by cases hh),
    acc.dateTime _ hp.exp, acc.dateTime _ hp.inc,
    nonNeg_int _ 0 _ (by simpa using hp.tag0) (fun h hh => by cases hh; exact hp.tag1),
    trivial, acc.base64 _ hp.b64⟩

theorem bundleTree_conforms (dt : Datatypes) (acc : Accepts dt) (b : Bundle) (h : bundleOk b = true) :
    responseBundle dt (bundleTree b) := by
  have hp := bundleOk_parts b h
  unfold bundleTree
  simp only [List.cons_append, List.nil_append, responseBundle, textElem, true_and]
  refine ⟨attrsAre_one _ _ _ trivial, acc.dateTime _ hp.inc, acc.dateTime _ hp.exp,
    (sortKeys b.keys).map keyTree, b.signatures.map sigTree, rfl, ?_, ?_, ?_, ?_⟩
  · have hperm := List.mergeSort_perm b.keys (fun a b => decide (a.keyTag ≤ b.keyTag))
    intro e
    have hl := hperm.length_eq
    have : (sortKeys b.keys).length = 0 := by simpa using congrArg List.length e
    unfold sortKeys at this
    rw [this] at hl
    exact hp.keysNe (List.eq_nil_of_length_eq_zero hl.symm)
  · simpa using hp.sigsNe
  · intro x hx
    obtain ⟨k, hk, rfl⟩ := List.mem_map.mp hx
    have : k ∈ b.keys := (List.mergeSort_perm _ _).mem_iff.mp hk
    exact keyTree_conforms dt acc k (hp.keys k this)
  · intro x hx
    obtain ⟨s, hs, rfl⟩ := List.mem_map.mp hx
    exact sigTree_conforms dt acc s (hp.sigs s hs)

/-- the tree the writer renders conforms to the grammar -/
theorem treeOf_conforms (dt : Datatypes) (acc : Accepts dt) (r : Response) (h : WriterDomain r) :
    start dt (treeOf r) := by
  have hp := domain_parts r h
  unfold treeOf
  simp only [start, response, responsePolicy, true_and]
  refine ⟨?_, ?_, ⟨policyTree_conforms dt acc _ _ hp.ksk, policyTree_conforms dt acc _ _ hp.zsk⟩, ?_, ?_⟩
  · refine ⟨by simp, ?_, ?_⟩
    · intro p hp'
      simp only [List.mem_cons, List.not_mem_nil, or_false] at hp'
      rcases hp' with rfl | rfl | rfl
      · exact ⟨r.id, by simp, trivial⟩
      · exact ⟨str (pyIntStr r.serial), by simp, nonNeg_int _ 0 none (by simpa using hp.serial) (fun _ hh => by cases hh)⟩
      · exact ⟨r.domain, by simp, trivial⟩
    · intro q hq
      simp only [List.mem_cons, List.not_mem_nil, or_false] at hq
      rcases hq with rfl | rfl | rfl
      · exact Or.inl ⟨("id", xsdString), by simp, rfl⟩
      · exact Or.inl ⟨("domain", xsdString), by simp, rfl⟩
      · exact Or.inl ⟨("serial", nonNeg 0 none), by simp, rfl⟩
  · exact ⟨by simp, by simp, by simp⟩
  · simpa using hp.bundlesNe
  · intro x hx
    obtain ⟨b, hb, rfl⟩ := List.mem_map.mp hx
    exact bundleTree_conforms dt acc b (hp.bundles b hb)

end Kskm.Rnc
