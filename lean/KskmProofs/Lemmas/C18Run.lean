/-
  Helper lemmas for C18 (`Kskm.TrustAnchor`): how the exporter's loop steps, what one configured KSK
  contributes, which token operations the exporter can issue.

  Definitions here (`usablePk`, `digestFor`, `collect`, `Lookups`) are VIEWS of code that is inline in
  the model; each is tied to the model by an equation / implication proved below, never assumed.
-/
import Kskm.TrustAnchor
import KskmProofs.Lemmas.Hsm
namespace Kskm.C18

/-! ### one step of the loop -/

/-- the public key text a lookup result contributes: absent key, absent or empty public key ↦ nothing -/
def usablePk (r : Option P11Key) : Option String :=
  match r with
  | some k =>
    match k.publicKey with
    | some pk => if pk.isEmpty then none else some pk
    | none => none
  | none => none

/-- the `KeyDigest` the exporter builds for a configured KSK from the public key text of the token -/
def digestFor (ext : Externals) (ttl : Int) (ksk : KskKey) (pk : String) : Res KeyDigest := do
  let key ← publicKeyToDnssecKey pk ksk.label ksk.algorithm ttl 257
  createTrustanchorKeydigest ext.hash ksk key

/-- the pure part of the loop, given the lookup outcomes -/
def collect (ext : Externals) (ttl : Int) : List (KskKey × Option String) → List KeyDigest → Res (List KeyDigest)
  | [], acc => pure acc
  | (_, none) :: r, acc => collect ext ttl r acc
  | (ksk, some pk) :: r, acc => do
    let d ← digestFor ext ttl ksk pk
    collect ext ttl r (digestSetAdd acc d)

theorem taLoop_cons (ext : Externals) (mods : List P11Module) (ttl : Int) (ksk : KskKey) (rest : List KskKey)
    (acc : List KeyDigest) (tok : Token) (s : TokState) :
    taLoop ext mods ttl (ksk :: rest) acc tok s =
      match getP11Key ksk.label true none mods tok s with
      | (.ok r, s1) =>
        (match usablePk r with
         | none => taLoop ext mods ttl rest acc tok s1
         | some pk =>
           match digestFor ext ttl ksk pk with
           | .ok d => taLoop ext mods ttl rest (digestSetAdd acc d) tok s1
           | .error e => (.error e, s1))
      | (.error e, s1) => (.error e, s1) := by
  rw [taLoop, bind_run]
  cases hg : getP11Key ksk.label true none mods tok s with
  | mk r s1 =>
    cases r with
    | error e => rfl
    | ok r =>
      cases r with
      | none => simp [usablePk]
      | some k =>
        cases hk : k.publicKey with
        | none => simp [usablePk, hk]
        | some pk =>
          by_cases he : pk.isEmpty = true
          · simp [usablePk, hk, he]
          · simp only [usablePk, hk, he, Bool.false_eq_true, if_false, digestFor]
            cases h1 : publicKeyToDnssecKey pk ksk.label ksk.algorithm ttl 257 with
            | error e => simp [TokM.lift, bind, Except.bind]
            | ok key =>
              cases h2 : createTrustanchorKeydigest ext.hash ksk key with
              | error e => simp [TokM.lift, bind, Except.bind, h2]
              | ok d => simp [TokM.lift, bind, Except.bind, h2]

/-- **The lookups of one run**, in configuration order: for each configured KSK what
    `get_p11_key(label, public=True)` returned against this token at that point of the run. -/
inductive Lookups (mods : List P11Module) (tok : Token) :
    List KskKey → TokState → List (Option P11Key) → TokState → Prop
  | nil (s : TokState) : Lookups mods tok [] s [] s
  | cons {ksk : KskKey} {rest : List KskKey} {s s1 s' : TokState} {r : Option P11Key}
      {rs : List (Option P11Key)} :
      getP11Key ksk.label true none mods tok s = (.ok r, s1) → Lookups mods tok rest s1 rs s' →
      Lookups mods tok (ksk :: rest) s (r :: rs) s'

theorem Lookups.length {mods tok ksks s rs s'} (h : Lookups mods tok ksks s rs s') : rs.length = ksks.length := by
  induction h with
  | nil => rfl
  | cons _ _ ih => simp [ih]

/-- a successful loop: there were lookups, one per configured KSK, and the digests are `collect` of them -/
theorem taLoop_ok (ext : Externals) (mods : List P11Module) (ttl : Int) (tok : Token) :
    ∀ (ksks : List KskKey) (acc : List KeyDigest) (s s' : TokState) (ds : List KeyDigest),
      taLoop ext mods ttl ksks acc tok s = (.ok ds, s') →
      ∃ rs, Lookups mods tok ksks s rs s' ∧ collect ext ttl (ksks.zip (rs.map usablePk)) acc = .ok ds := by
  intro ksks
  induction ksks with
  | nil =>
    intro acc s s' ds h
    simp only [taLoop, TokM.pure_run, Prod.mk.injEq, Except.ok.injEq] at h
    obtain ⟨rfl, rfl⟩ := h
    exact ⟨[], .nil _, rfl⟩
  | cons ksk rest ih =>
    intro acc s s' ds h
    rw [taLoop_cons] at h
    cases hg : getP11Key ksk.label true none mods tok s with
    | mk r s1 =>
      rw [hg] at h
      cases r with
      | error e => simp at h
      | ok r =>
        simp only at h
        cases hu : usablePk r with
        | none =>
          rw [hu] at h
          obtain ⟨rs, hl, hc⟩ := ih acc s1 s' ds h
          exact ⟨r :: rs, .cons hg hl, by simp [collect, hu, hc]⟩
        | some pk =>
          rw [hu] at h
          simp only at h
          cases hd : digestFor ext ttl ksk pk with
          | error e => simp [hd] at h
          | ok d =>
            rw [hd] at h
            obtain ⟨rs, hl, hc⟩ := ih _ s1 s' ds h
            exact ⟨r :: rs, .cons hg hl, by simp [collect, hu, hd, hc, bind, Except.bind]⟩

/-! ### `collect`: membership, no duplicates -/

theorem mem_digestSetAdd (s : List KeyDigest) (d x : KeyDigest) : x ∈ digestSetAdd s d ↔ x ∈ s ∨ x = d := by
  unfold digestSetAdd
  split
  · rename_i h
    have : d ∈ s := by simpa using h
    constructor
    · exact Or.inl
    · rintro (h | rfl) <;> assumption
  · simp

theorem nodup_digestSetAdd (s : List KeyDigest) (d : KeyDigest) (h : s.Nodup) : (digestSetAdd s d).Nodup := by
  unfold digestSetAdd
  split
  · exact h
  · rename_i hc
    have : d ∉ s := by simpa using hc
    exact List.nodup_append.mpr ⟨h, by simp, by intro a ha b hb; simp at hb; subst hb; intro he; exact this (he ▸ ha)⟩

theorem collect_mem (ext : Externals) (ttl : Int) :
    ∀ (l : List (KskKey × Option String)) (acc ds : List KeyDigest), collect ext ttl l acc = .ok ds →
      ∀ d, d ∈ ds ↔ d ∈ acc ∨ ∃ ksk pk, (ksk, some pk) ∈ l ∧ digestFor ext ttl ksk pk = .ok d := by
  intro l
  induction l with
  | nil =>
    intro acc ds h d
    simp only [collect, pure, Except.pure, Except.ok.injEq] at h
    subst h; simp
  | cons p r ih =>
    intro acc ds h d
    obtain ⟨ksk, o⟩ := p
    cases o with
    | none =>
      simp only [collect] at h
      rw [ih acc ds h d]
      simp
    | some pk =>
      simp only [collect, bind, Except.bind] at h
      cases hd : digestFor ext ttl ksk pk with
      | error e => simp [hd] at h
      | ok d0 =>
        rw [hd] at h
        rw [ih _ ds h d, mem_digestSetAdd]
        constructor
        · rintro ((h1 | rfl) | ⟨k, p, hm, hk⟩)
          · exact Or.inl h1
          · exact Or.inr ⟨ksk, pk, List.mem_cons_self, hd⟩
          · exact Or.inr ⟨k, p, List.mem_cons_of_mem _ hm, hk⟩
        · rintro (h1 | ⟨k, p, hm, hk⟩)
          · exact Or.inl (Or.inl h1)
          · rcases List.mem_cons.mp hm with he | hm
            · simp only [Prod.mk.injEq, Option.some.injEq] at he
              obtain ⟨rfl, rfl⟩ := he
              rw [hd] at hk
              exact Or.inl (Or.inr (by simpa using hk.symm))
            · exact Or.inr ⟨k, p, hm, hk⟩

theorem collect_nodup (ext : Externals) (ttl : Int) :
    ∀ (l : List (KskKey × Option String)) (acc ds : List KeyDigest), collect ext ttl l acc = .ok ds →
      acc.Nodup → ds.Nodup := by
  intro l
  induction l with
  | nil =>
    intro acc ds h hn
    simp only [collect, pure, Except.pure, Except.ok.injEq] at h
    subst h; exact hn
  | cons p r ih =>
    intro acc ds h hn
    obtain ⟨ksk, o⟩ := p
    cases o with
    | none => exact ih acc ds (by simpa [collect] using h) hn
    | some pk =>
      simp only [collect, bind, Except.bind] at h
      cases hd : digestFor ext ttl ksk pk with
      | error e => simp [hd] at h
      | ok d0 =>
        rw [hd] at h
        exact ih _ ds h (nodup_digestSetAdd _ _ hn)

/-! ### what one digest is -/

theorem publicKeyToDnssecKey_ok' {pk id : String} {alg : Nat} {ttl flags : Int} {k : Key}
    (h : publicKeyToDnssecKey pk id alg ttl flags = .ok k) :
    k.keyIdentifier = id ∧ k.ttl = ttl ∧ k.flags = flags ∧ k.protocol = 3 ∧ k.algorithm = alg ∧
    k.publicKey = pk ∧ ∃ r, keyToRdata k = .ok r ∧ k.keyTag = (keyTagOfRdata r : Nat) := by
  unfold publicKeyToDnssecKey at h
  simp only [bind, Except.bind] at h
  split at h
  · simp at h
  · unfold calculateKeyTag at h
    cases hr : keyToRdata ⟨id, 0, ttl, flags, 3, alg, pk⟩ with
    | error e => simp [hr, bind, Except.bind] at h
    | ok r =>
      simp only [hr, bind, Except.bind, pure, Except.pure, Except.ok.injEq] at h
      subst h
      refine ⟨rfl, rfl, rfl, rfl, rfl, rfl, r, ?_, rfl⟩
      simpa [keyToRdata] using hr

/-- `key_to_rdata` of a flags-257, protocol-3 key: the algorithm fits its octet, the key text decodes,
    and the RDATA is `rdataOf 257 3 alg key` -/
theorem keyToRdata_257 {k : Key} {r : Bytes} (hf : k.flags = 257) (hp : k.protocol = 3)
    (h : keyToRdata k = .ok r) :
    k.algorithm < 256 ∧ ∃ pkb, Base64.decode k.publicKey = some pkb ∧ r = rdataOf 257 3 k.algorithm pkb := by
  unfold keyToRdata at h
  split at h
  · simp [err] at h
  · rename_i hc
    have ha : k.algorithm < 256 := by
      simp only [Bool.not_eq_true, Bool.not_eq_false', Bool.and_eq_true, decide_eq_true_eq] at hc
      exact hc.2
    cases hd : Base64.decode k.publicKey with
    | none => simp [hd, unsupported] at h
    | some pkb =>
      simp only [hd, pure, Except.pure, Except.ok.injEq] at h
      refine ⟨ha, pkb, rfl, ?_⟩
      rw [← h, hf, hp]; rfl

theorem digestFor_ok {ext : Externals} {ttl : Int} {ksk : KskKey} {pk : String} {d : KeyDigest}
    (h : digestFor ext ttl ksk pk = .ok d) :
    ksk.algorithm < 256 ∧ ∃ pkb, Base64.decode pk = some pkb ∧
      d.id = ksk.label ∧ d.algorithm = ksk.algorithm ∧ d.digestType = 2 ∧
      d.validFrom = ksk.validFrom ∧ d.validUntil = ksk.validUntil ∧
      d.keyTag = (keyTagOfRdata (rdataOf 257 3 ksk.algorithm pkb) : Nat) ∧
      ext.hash .sha256 (0 :: rdataOf 257 3 ksk.algorithm pkb) = some d.digest := by
  unfold digestFor at h
  simp only [bind, Except.bind] at h
  cases hk : publicKeyToDnssecKey pk ksk.label ksk.algorithm ttl 257 with
  | error e => simp [hk] at h
  | ok key =>
    rw [hk] at h
    obtain ⟨hid, _, hfl, hpr, hal, hpk, r, hr, htag⟩ := publicKeyToDnssecKey_ok' hk
    obtain ⟨ha, pkb, hdec, hrd⟩ := keyToRdata_257 hfl hpr hr
    unfold createTrustanchorKeydigest at h
    simp only [dn2wire, if_true, bind, Except.bind, pure, Except.pure, hr, List.cons_append, List.nil_append] at h
    unfold hashOrUnknown at h
    cases hh : ext.hash .sha256 (0 :: r) with
    | none => simp [hh, unsupported] at h
    | some dg =>
      simp only [hh, pure, Except.pure, Except.ok.injEq] at h
      subst h
      rw [hal] at ha hrd
      refine ⟨ha, pkb, by rw [← hpk]; exact hdec, hid, hal, rfl, rfl, rfl, ?_, ?_⟩
      · rw [htag, hrd]
      · rw [← hrd]; simpa using hh

/-! ### which operations the exporter can issue -/

/-- an operation the exporter may issue: session set-up, a lookup of the PUBLIC object of one of the
    given labels, attribute reads.  Never `C_Sign`, `C_GenerateKeyPair`, `C_DestroyObject`. -/
def IsTaOp (labels : List String) : TokOp → Prop
  | .findObjects _ _ t => ∃ l ∈ labels, t = [("LABEL", .str l), ("CLASS", .num ckoPublic)]
  | .getAttr .. => True
  | .load _ => True
  | .initialize _ => True
  | .getSlotList _ => True
  | .openSession .. => True
  | .login .. => True
  | .getTokenInfo .. => True
  | .sign .. => False
  | .generateKeyPair .. => False
  | .destroyObject .. => False
  | .closeAllSessions .. => False

theorem IsTaOp.mono {l₁ l₂ : List String} (h : ∀ x ∈ l₁, x ∈ l₂) {op : TokOp} (ho : IsTaOp l₁ op) : IsTaOp l₂ op := by
  cases op <;> simp_all [IsTaOp]
  obtain ⟨l, hl, ht⟩ := ho
  exact ⟨l, h l hl, ht⟩

theorem isGetAttrOf_isTaOp {labels path slot handle op} (h : IsGetAttrOf path slot handle op) : IsTaOp labels op := by
  cases op <;> simp_all [IsGetAttrOf, IsTaOp]

theorem findInSlots_emits_ta (m : P11Module) (label : String) (hh : Option Bool) (slots : List Nat) :
    Emits (IsTaOp [label]) (findInSlots m label ckoPublic hh slots) := by
  induction slots with
  | nil => exact Emits.pure _
  | cons sl rest ih =>
    rw [findInSlots_cons]
    refine Emits.bind (Emits.askOk _ ?_) (fun r => ?_)
    · exact ⟨label, by simp, rfl⟩
    · split
      · exact ih
      · exact (foundKey_emits m label _ hh sl _).mono (fun _ h => isGetAttrOf_isTaOp h)
      · exact Emits.err _
      · exact Emits.fail _

theorem getP11Key_emits_ta (label : String) (hh : Option Bool) (mods : List P11Module) :
    Emits (IsTaOp [label]) (getP11Key label true hh mods) := by
  induction mods with
  | nil => exact Emits.pure _
  | cons m rest ih =>
    rw [getP11Key_cons]
    refine Emits.bind (findInSlots_emits_ta m label hh _) (fun r => ?_)
    split
    · exact Emits.pure _
    · exact ih

theorem taLoop_emits (ext : Externals) (mods : List P11Module) (ttl : Int) :
    ∀ (ksks : List KskKey) (acc : List KeyDigest),
      Emits (IsTaOp (ksks.map (·.label))) (taLoop ext mods ttl ksks acc) := by
  intro ksks
  induction ksks with
  | nil => intro acc; exact Emits.pure _
  | cons ksk rest ih =>
    intro acc
    have ih' : ∀ acc, Emits (IsTaOp ((ksk :: rest).map (·.label))) (taLoop ext mods ttl rest acc) :=
      fun acc => (ih acc).mono (fun op h => h.mono (by intro x hx; simp at hx ⊢; exact Or.inr hx))
    rw [taLoop]
    refine Emits.bind ((getP11Key_emits_ta ksk.label none mods).mono
      (fun op h => h.mono (by intro x hx; simp at hx ⊢; exact Or.inl hx))) (fun r => ?_)
    split
    · exact ih' _
    · split
      · exact ih' _
      · split
        · exact ih' _
        · refine Emits.bind (Emits.lift _) (fun _ => Emits.bind (Emits.lift _) (fun _ => ih' _))

theorem openSessions_emits (labels : List String) (m : P11Module) :
    ∀ (slots : List Nat) (acc : P11Module), Emits (IsTaOp labels) (openSessions m slots acc) := by
  intro slots
  induction slots with
  | nil => intro acc; exact Emits.pure _
  | cons sl rest ih =>
    intro acc
    rw [openSessions]
    refine Emits.bind (Emits.ask _ trivial) (fun o => ?_)
    split
    · exact ih _
    · dsimp only
      split
      · exact ih _
      · refine Emits.bind (Emits.ask _ trivial) (fun l => ?_)
        split
        · exact ih _
        · exact ih _

/-- one structural step of an `Emits (IsTaOp _)` proof -/
macro "ta_step" : tactic => `(tactic| first
  | exact Emits.pure _ | exact Emits.fail _ | exact Emits.err _ | exact Emits.lift _
  | exact Emits.askOk _ trivial | exact Emits.ask _ trivial
  | exact openSessions_emits _ _ _ _
  | assumption
  | refine Emits.bind ?_ (fun _ => ?_)
  | split
  | dsimp only)

theorem init_emits (labels : List String) (label path : String) (pin soPin : Option String) (so rw : Bool)
    (typed : String) : Emits (IsTaOp labels) (P11Module.init label path pin soPin so rw typed) := by
  unfold P11Module.init P11Module.getSessions
  repeat' ta_step

theorem initPkcs11Modules_emits (labels : List String) (all : List HsmConfig) (name : Option String)
    (typed : String) : ∀ l, Emits (IsTaOp labels) (initPkcs11Modules all name typed l) := by
  intro l
  induction l with
  | nil =>
    rw [initPkcs11Modules]
    split
    · exact Emits.err _
    · exact Emits.pure _
  | cons h rest ih =>
    rw [initPkcs11Modules]
    split
    · exact ih
    · exact Emits.bind (init_emits labels _ _ _ _ _ _ _) (fun _ => Emits.bind ih (fun _ => Emits.pure _))

theorem trustanchor_emits (ext : Externals) (args : TaArgs) (cfg : TaConfig) :
    Emits (IsTaOp (cfg.kskKeys.map (·.2.label))) (trustanchor ext args cfg) := by
  unfold trustanchor
  refine Emits.bind (initPkcs11Modules_emits _ _ _ _ _) (fun mods => ?_)
  refine Emits.bind ?_ (fun ds => ?_)
  · have := taLoop_emits ext mods cfg.ttl (cfg.kskKeys.map (·.2)) []
    simpa [List.map_map, Function.comp_def] using this
  · dsimp only
    split
    · exact Emits.pure _
    · exact Emits.pure _

/-! ### order -/

theorem sortDigests_sorted (l : List KeyDigest) :
    (sortDigests l).Pairwise (fun a b => a.validFrom ≤ b.validFrom) ∧ (sortDigests l).Perm l := by
  refine ⟨?_, List.mergeSort_perm l _⟩
  have := List.pairwise_mergeSort (le := fun a b : KeyDigest => decide (a.validFrom ≤ b.validFrom))
    (by intro a b c h1 h2; simp only [decide_eq_true_eq] at *; omega)
    (by intro a b; simp only [Bool.or_eq_true, decide_eq_true_eq]; omega) l
  exact this.imp (by intro a b h; simpa using h)

theorem pairwise_ne_of_mem {l : List KeyDigest} (hl : l.Pairwise (fun a b => a.validFrom ≠ b.validFrom))
    {a b : KeyDigest} (ha : a ∈ l) (hb : b ∈ l) (hn : a ≠ b) : a.validFrom ≠ b.validFrom := by
  induction l with
  | nil => simp at ha
  | cons x r ih =>
    rw [List.pairwise_cons] at hl
    rcases List.mem_cons.mp ha with rfl | ha' <;> rcases List.mem_cons.mp hb with rfl | hb'
    · exact absurd rfl hn
    · exact hl.1 _ hb'
    · exact fun e => hl.1 _ ha' e.symm
    · exact ih hl.2 ha' hb'

end Kskm.C18
