/-
  The one fact about the repository's reader (package D's model, lean/Kskm/Xml.lean) that the truncation
  clause of C11 rests on: `_find_end_of_element` locates the end tag with `str.index`, so when the end
  tag does not occur in the text it raises `ValueError` (`none`) — whatever the nesting heuristics do.
-/
import Kskm.Xml
namespace Kskm.Xml

theorem findAux_some_infix (pat : List Char) (s : List Char) (i j : Nat) (h : findAux pat s i = some j) :
    pat <:+: s := by
  induction s generalizing i with
  | nil =>
    simp only [findAux] at h
    split at h
    · rename_i hp
      have : pat = [] := by simpa using hp
      subst this
      exact ⟨[], [], rfl⟩
    · cases h
  | cons c r ih =>
    simp only [findAux] at h
    split at h
    · rename_i hp
      obtain ⟨t, ht⟩ := List.isPrefixOf_iff_prefix.mp hp
      exact ⟨[], t, by simpa using ht⟩
    · obtain ⟨pre, post, e⟩ := ih _ h
      exact ⟨c :: pre, post, by simp [← e]⟩

theorem indexFrom_some_infix (pat hay : List Char) (start j : Nat) (h : indexFrom pat hay start = some j) :
    pat <:+: hay := by
  unfold indexFrom at h
  split at h
  · cases h
  · obtain ⟨pre, post, e⟩ := findAux_some_infix _ _ _ _ h
    exact ⟨hay.take start ++ pre, post, by
      rw [List.append_assoc, List.append_assoc, ← List.append_assoc pre, e, List.take_append_drop]⟩

/-- no end tag in the text ⇒ `_find_end_of_element` raises -/
theorem findEndOfElement_none (xml name : List Char) (start : Nat) (h : ¬ endTag name <:+: xml) :
    findEndOfElement xml start name = none := by
  unfold findEndOfElement
  simp only
  cases hi : indexFrom (endTag name) xml start with
  | none => rfl
  | some e0 => exact absurd (indexFrom_some_infix _ _ _ _ hi) h

end Kskm.Xml
