/-
  Helper lemmas for C06 (KSR key, algorithm and header rules).  Nothing here is a property statement;
  the property theorems are in `KskmProofs/C06.lean`.
-/
import Kskm.KsrPolicy
import KskmProofs.Lemmas.Res
namespace Kskm.C06L

/-! ### duplicate bundle ids -/

theorem hasDupBundleIds_eq_false_iff (l : List Bundle) :
    hasDupBundleIds l = false ↔ (l.map (·.id)).Nodup := by
  induction l with
  | nil => simp [hasDupBundleIds]
  | cons b r ih =>
    simp only [hasDupBundleIds, Bool.or_eq_false_iff, ih, List.map_cons, List.nodup_cons]
    apply and_congr_left'
    simp only [List.any_eq_false, decide_eq_true_eq, List.mem_map, not_exists, not_and]

/-! ### `eraseDups` has no duplicates (core has membership only) -/

theorem nodup_eraseDups_aux {α} [BEq α] [LawfulBEq α] : ∀ (n : Nat) (l : List α), l.length ≤ n →
    l.eraseDups.Nodup := by
  intro n
  induction n with
  | zero =>
    intro l h
    have : l = [] := List.eq_nil_of_length_eq_zero (by omega)
    subst this; simp
  | succ n ih =>
    intro l h
    cases l with
    | nil => simp
    | cons a as =>
      rw [List.eraseDups_cons, List.nodup_cons]
      refine ⟨?_, ih _ ?_⟩
      · rw [List.mem_eraseDups]
        simp
      · have := List.length_filter_le (fun b => !b == a) as
        simp only [List.length_cons] at h
        omega

theorem nodup_eraseDups {α} [BEq α] [LawfulBEq α] (l : List α) : l.eraseDups.Nodup :=
  nodup_eraseDups_aux l.length l (Nat.le_refl _)

/-! ### the distinct-identifier dictionary of `check_keys_in_bundles` -/

theorem distinctIds_mem (keys : List Key) : ∀ (acc : List String) (x : String),
    x ∈ distinctIds keys acc ↔ x ∈ acc ∨ x ∈ keys.map (·.keyIdentifier) := by
  induction keys with
  | nil => intro acc x; simp [distinctIds]
  | cons k r ih =>
    intro acc x
    simp only [distinctIds, ih, List.map_cons, List.mem_cons]
    by_cases hc : acc.contains k.keyIdentifier = true
    · simp only [hc, ↓reduceIte]
      have hm : k.keyIdentifier ∈ acc := List.contains_iff_mem.mp hc
      constructor
      · rintro (h | h)
        · exact Or.inl h
        · exact Or.inr (Or.inr h)
      · rintro (h | h | h)
        · exact Or.inl h
        · exact Or.inl (h ▸ hm)
        · exact Or.inr h
    · simp only [hc, Bool.false_eq_true, ↓reduceIte, List.mem_cons]
      constructor
      · rintro ((h | h) | h)
        · exact Or.inr (Or.inl h)
        · exact Or.inl h
        · exact Or.inr (Or.inr h)
      · rintro (h | h | h)
        · exact Or.inl (Or.inr h)
        · exact Or.inl (Or.inl h)
        · exact Or.inr h

theorem distinctIds_nodup (keys : List Key) : ∀ (acc : List String), acc.Nodup →
    (distinctIds keys acc).Nodup := by
  induction keys with
  | nil => intro acc h; simpa [distinctIds] using h
  | cons k r ih =>
    intro acc h
    simp only [distinctIds]
    by_cases hc : acc.contains k.keyIdentifier = true
    · simp only [hc, ↓reduceIte]; exact ih acc h
    · simp only [hc, Bool.false_eq_true, ↓reduceIte]
      apply ih
      rw [List.nodup_cons]
      refine ⟨?_, h⟩
      intro hm; exact hc (List.contains_iff_mem.mpr hm)

/-- `distinctIds` counts the distinct identifiers: its result has the length of the duplicate-free
    list of identifiers. -/
theorem distinctIds_length (keys : List Key) :
    (distinctIds keys []).length = (keys.map (·.keyIdentifier)).eraseDups.length := by
  apply List.Perm.length_eq
  rw [List.perm_ext_iff_of_nodup (distinctIds_nodup keys [] List.nodup_nil) (nodup_eraseDups _)]
  intro x
  rw [distinctIds_mem, List.mem_eraseDups]
  simp

/-! ### per-slot key counts -/

theorem slotCountsOk_iff : ∀ (bs : List Bundle) (ns : List Int), bs.length = ns.length →
    (slotCountsOk bs ns = true ↔
      ∀ (i : Nat) (b : Bundle) (n : Int), bs[i]? = some b → ns[i]? = some n → (b.keys.length : Int) = n)
  | [], [], _ => by simp [slotCountsOk]
  | [], _ :: _, h => by simp at h
  | _ :: _, [], h => by simp at h
  | b :: bs, n :: ns, h => by
    have h' : bs.length = ns.length := by simpa using h
    simp only [slotCountsOk, Bool.and_eq_true, beq_iff_eq, slotCountsOk_iff bs ns h']
    constructor
    · rintro ⟨h0, hr⟩ i b' n' hb hn
      cases i with
      | zero => simp at hb hn; subst hb hn; exact h0
      | succ j => exact hr j b' n' (by simpa using hb) (by simpa using hn)
    · intro hall
      refine ⟨hall 0 b n (by simp) (by simp), ?_⟩
      intro i b' n' hb hn
      exact hall (i + 1) b' n' (by simpa using hb) (by simpa using hn)

/-! ### the `seen` walk of `check_keys_match_zsk_policy` -/

/-- "an identifier denotes the same key everywhere" on a collection of keys -/
def IdConsistent (l : List Key) : Prop :=
  ∀ a ∈ l, ∀ b ∈ l, a.keyIdentifier = b.keyIdentifier → a = b

theorem IdConsistent_congr {l₁ l₂ : List Key} (h : ∀ k, k ∈ l₁ ↔ k ∈ l₂) :
    IdConsistent l₁ ↔ IdConsistent l₂ := by
  unfold IdConsistent
  constructor
  · intro hc a ha b hb; exact hc a ((h a).mpr ha) b ((h b).mpr hb)
  · intro hc a ha b hb; exact hc a ((h a).mp ha) b ((h b).mp hb)

/-- The fold with the `seen` dictionary: for every `seen` that is itself consistent, the walk accepts
    exactly when every key whose identifier is not yet in `seen` passes the new-key checks and the
    keys visited together with `seen` are identifier-consistent. -/
theorem keysWalk_ok_iff (req : Request) (pol : RequestPolicy) : ∀ (keys seen : List Key),
    IdConsistent seen →
    (keysWalk req pol keys seen = .ok () ↔
      (∀ k ∈ keys, (∀ s ∈ seen, s.keyIdentifier ≠ k.keyIdentifier) → checkNewKey req pol k = .ok ()) ∧
      IdConsistent (keys ++ seen)) := by
  intro keys
  induction keys with
  | nil => intro seen hs; simp [keysWalk, hs]
  | cons key rest ih =>
    intro seen hs
    unfold keysWalk
    cases hf : seen.find? (fun k => k.keyIdentifier = key.keyIdentifier) with
    | some k =>
      have hk : k ∈ seen := List.mem_of_find?_eq_some hf
      have hid : k.keyIdentifier = key.keyIdentifier := by simpa using List.find?_some hf
      simp only
      by_cases he : key = k
      · subst he
        simp only [↓reduceIte, ih seen hs]
        have hmem : ∀ x, x ∈ rest ++ seen ↔ x ∈ key :: rest ++ seen := by
          intro x; simp only [List.mem_append, List.cons_append, List.mem_cons]
          constructor
          · intro h; exact Or.inr h
          · rintro (h | h)
            · exact Or.inr (h ▸ hk)
            · exact h
        rw [IdConsistent_congr hmem]
        apply and_congr_left'
        constructor
        · intro h x hx hn
          rcases List.mem_cons.mp hx with rfl | hx
          · exact absurd rfl (hn x hk)
          · exact h x hx hn
        · intro h x hx hn; exact h x (List.mem_cons_of_mem _ hx) hn
      · simp only [he, ↓reduceIte]
        constructor
        · intro h; exact absurd h (violation_ne_ok _)
        · rintro ⟨_, hc⟩
          exact absurd (hc key (by simp) k (by simp [hk]) hid.symm) he
    | none =>
      have hnone : ∀ s ∈ seen, s.keyIdentifier ≠ key.keyIdentifier := by
        intro s hsm; simpa using (List.find?_eq_none.mp hf) s hsm
      have hs' : IdConsistent (key :: seen) := by
        intro a ha b hb hab
        rcases List.mem_cons.mp ha with ha' | ha'
        · rcases List.mem_cons.mp hb with hb' | hb'
          · rw [ha', hb']
          · exact absurd (ha' ▸ hab).symm (hnone b hb')
        · rcases List.mem_cons.mp hb with hb' | hb'
          · exact absurd (hb' ▸ hab) (hnone a ha')
          · exact hs a ha' b hb' hab
      simp only [seq_ok_iff, ih (key :: seen) hs']
      have hmem : ∀ x, x ∈ rest ++ key :: seen ↔ x ∈ key :: rest ++ seen := by
        intro x; simp only [List.mem_append, List.cons_append, List.mem_cons]
        constructor
        · rintro (h | h | h)
          · exact Or.inr (Or.inl h)
          · exact Or.inl h
          · exact Or.inr (Or.inr h)
        · rintro (h | h | h)
          · exact Or.inr (Or.inl h)
          · exact Or.inl h
          · exact Or.inr (Or.inr h)
      rw [IdConsistent_congr hmem]
      constructor
      · rintro ⟨hkey, hrest, hc⟩
        refine ⟨?_, hc⟩
        intro x hx hn
        rcases List.mem_cons.mp hx with rfl | hx
        · exact hkey
        · by_cases hxk : key.keyIdentifier = x.keyIdentifier
          · have : key = x := hc key (by simp) x (by simp [hx]) hxk
            exact this ▸ hkey
          · apply hrest x hx
            intro s hsm
            rcases List.mem_cons.mp hsm with rfl | hsm
            · exact hxk
            · exact hn s hsm
      · rintro ⟨hall, hc⟩
        refine ⟨hall key (by simp) hnone, ?_, hc⟩
        intro x hx hn
        apply hall x (List.mem_cons_of_mem _ hx)
        intro s hsm; exact hn s (List.mem_cons_of_mem _ hsm)

/-! ### matching a key against the declared algorithms -/

theorem matchRsaAlg_iff (algs : List AlgPolicy) (key : Key) (pub : RsaPub) (ign : Bool) :
    matchRsaAlg algs key pub ign = true ↔
      ∃ a ∈ algs, a.kind = .rsa ∧ a.algorithm = key.algorithm ∧ a.bits = (pub.bits : Int) ∧
        (a.exponent = some (pub.exponent : Int) ∨ ign = true) := by
  unfold matchRsaAlg
  simp only [List.any_eq_true, Bool.and_eq_true, beq_iff_eq, Bool.or_eq_true]
  constructor
  · rintro ⟨a, ha, hk, ⟨h1, h2⟩, h3⟩
    exact ⟨a, ha, hk, h1.symm, h2.symm, h3⟩
  · rintro ⟨a, ha, hk, h1, h2, h3⟩
    exact ⟨a, ha, hk, ⟨h1.symm, h2.symm⟩, h3⟩

theorem ecdsaWithoutPrefix_ok (pk : Bytes) (a : Nat) (hpk : pk ≠ []) (hal : isAlgorithmEcdsa a = true) :
    ∃ p, ecdsaWithoutPrefix pk a = .ok p := by
  obtain ⟨want, hw⟩ : ∃ w, expectedEcdsaKeySize a = .ok w := by
    unfold expectedEcdsaKeySize
    simp only [isAlgorithmEcdsa, Bool.or_eq_true] at hal
    by_cases h2 : (a == algECDSAP256) = true
    · exact ⟨256, by simp [h2, pure, Except.pure]⟩
    · rcases hal with h | h
      · exact absurd h h2
      · exact ⟨384, by simp [h2, h, pure, Except.pure]⟩
  unfold ecdsaWithoutPrefix
  simp only [hw, bind, Except.bind]
  cases pk with
  | nil => exact absurd rfl hpk
  | cons b t =>
    by_cases h1 : (getEcdsaPubkeySize (b :: t) != want) = true
    · simp only [h1, ↓reduceIte]
      by_cases h2 : b = 4 <;> simp [h2, pure, Except.pure]
    · simp [h1, pure, Except.pure]

/-- ECDSA: when every declared ECDSA entry carries an ECDSA algorithm number (so that stripping the
    SEC 1 prefix relative to the entry cannot raise on the algorithm), the search succeeds exactly when
    some entry matches, and it fails with an error only on an empty key. -/
theorem matchEcdsaAlg_true_iff (key : Key) (pk : Bytes) (hpk : pk ≠ []) : ∀ (algs : List AlgPolicy),
    (∀ a ∈ algs, a.kind = .ecdsa → isAlgorithmEcdsa a.algorithm = true) →
    (matchEcdsaAlg algs key pk = .ok true ↔
      ∃ a ∈ algs, a.kind = .ecdsa ∧ a.algorithm = key.algorithm ∧
        ∃ p, ecdsaWithoutPrefix pk a.algorithm = .ok p ∧ (getEcdsaPubkeySize p : Int) = a.bits)
  | [], _ => by simp [matchEcdsaAlg, pure, Except.pure]
  | a :: r, hwf => by
    have ih := matchEcdsaAlg_true_iff key pk hpk r (fun x hx => hwf x (List.mem_cons_of_mem _ hx))
    unfold matchEcdsaAlg
    by_cases hk : a.kind = .ecdsa
    · have hal := hwf a (by simp) hk
      have hstrip := ecdsaWithoutPrefix_ok pk a.algorithm hpk hal
      obtain ⟨p, hp⟩ := hstrip
      simp only [hk, bne_self_eq_false, Bool.false_eq_true, ↓reduceIte, hp, bind, Except.bind]
      by_cases hm : (key.algorithm == a.algorithm && ((getEcdsaPubkeySize p : Int) == a.bits)) = true
      · simp only [hm, ↓reduceIte, pure, Except.pure, true_iff]
        simp only [Bool.and_eq_true, beq_iff_eq] at hm
        exact ⟨a, by simp, hk, hm.1.symm, p, hp, hm.2⟩
      · simp only [hm, Bool.false_eq_true, ↓reduceIte, ih]
        constructor
        · rintro ⟨x, hx, h⟩; exact ⟨x, List.mem_cons_of_mem _ hx, h⟩
        · rintro ⟨x, hx, hxk, hxa, q, hq, hqb⟩
          rcases List.mem_cons.mp hx with rfl | hx
          · rw [hp] at hq
            simp only [Except.ok.injEq] at hq
            subst hq
            exact absurd (by simp [hxa, hqb]) hm
          · exact ⟨x, hx, hxk, hxa, q, hq, hqb⟩
    · have hk' : (a.kind != .ecdsa) = true := by simpa using hk
      simp only [hk', ↓reduceIte, ih]
      constructor
      · rintro ⟨x, hx, h⟩; exact ⟨x, List.mem_cons_of_mem _ hx, h⟩
      · rintro ⟨x, hx, hxk, h⟩
        rcases List.mem_cons.mp hx with rfl | hx
        · exact absurd hxk hk
        · exact ⟨x, hx, hxk, h⟩

theorem ecdsaWithoutPrefix_nil (a : Nat) : ∀ p, ecdsaWithoutPrefix [] a ≠ .ok p := by
  intro p
  unfold ecdsaWithoutPrefix expectedEcdsaKeySize getEcdsaPubkeySize
  by_cases h1 : (a == algECDSAP256) = true
  · simp [h1, bind, Except.bind, pure, Except.pure, err]
  · by_cases h2 : (a == algECDSAP384) = true
    · simp [h1, h2, bind, Except.bind, pure, Except.pure, err]
    · simp [h1, h2, bind, Except.bind, err]

theorem matchEcdsaAlg_nil_ne_true (key : Key) : ∀ (algs : List AlgPolicy),
    matchEcdsaAlg algs key [] ≠ .ok true
  | [] => by simp [matchEcdsaAlg, pure, Except.pure]
  | a :: r => by
    unfold matchEcdsaAlg
    by_cases hk : (a.kind != .ecdsa) = true
    · simp only [hk, ↓reduceIte]; exact matchEcdsaAlg_nil_ne_true key r
    · simp only [hk, Bool.false_eq_true, ↓reduceIte]
      cases hp : ecdsaWithoutPrefix [] a.algorithm with
      | ok p => exact absurd hp (ecdsaWithoutPrefix_nil _ p)
      | error e => simp [bind, Except.bind]

/-! #### EdDSA (same shape) -/

theorem eddsaWithoutPrefix_ok (pk : Bytes) (a : Nat) (hpk : pk ≠ []) (hal : isAlgorithmEddsa a = true) :
    ∃ p, eddsaWithoutPrefix pk a = .ok p := by
  obtain ⟨want, hw⟩ : ∃ w, expectedEddsaKeySize a = .ok w := by
    unfold expectedEddsaKeySize
    simp only [isAlgorithmEddsa, Bool.or_eq_true] at hal
    by_cases h2 : (a == algED25519) = true
    · exact ⟨256, by simp [h2, pure, Except.pure]⟩
    · rcases hal with h | h
      · exact absurd h h2
      · exact ⟨456, by simp [h2, h, pure, Except.pure]⟩
  unfold eddsaWithoutPrefix
  simp only [hw, bind, Except.bind]
  cases pk with
  | nil => exact absurd rfl hpk
  | cons b t =>
    simp only [pure, Except.pure]
    split
    · split <;> exact ⟨_, rfl⟩
    · exact ⟨_, rfl⟩

theorem eddsaWithoutPrefix_nil (a : Nat) : ∀ p, eddsaWithoutPrefix [] a ≠ .ok p := by
  intro p
  unfold eddsaWithoutPrefix expectedEddsaKeySize
  by_cases h1 : (a == algED25519) = true
  · simp [h1, bind, Except.bind, pure, Except.pure, err]
  · by_cases h2 : (a == algED448) = true
    · simp [h1, h2, bind, Except.bind, pure, Except.pure, err]
    · simp [h1, h2, bind, Except.bind, err]

theorem matchEddsaAlg_nil_ne_true (key : Key) : ∀ (algs : List AlgPolicy),
    matchEddsaAlg algs key [] ≠ .ok true
  | [] => by simp [matchEddsaAlg, pure, Except.pure]
  | a :: r => by
    unfold matchEddsaAlg
    by_cases hk : (a.kind != .eddsa) = true
    · simp only [hk, ↓reduceIte]; exact matchEddsaAlg_nil_ne_true key r
    · simp only [hk, Bool.false_eq_true, ↓reduceIte]
      cases hp : eddsaWithoutPrefix [] a.algorithm with
      | ok p => exact absurd hp (eddsaWithoutPrefix_nil _ p)
      | error e => simp [bind, Except.bind]

theorem matchEddsaAlg_true_iff (key : Key) (pk : Bytes) (hpk : pk ≠ []) : ∀ (algs : List AlgPolicy),
    (∀ a ∈ algs, a.kind = .eddsa → isAlgorithmEddsa a.algorithm = true) →
    (matchEddsaAlg algs key pk = .ok true ↔
      ∃ a ∈ algs, a.kind = .eddsa ∧ a.algorithm = key.algorithm ∧
        ∃ p, eddsaWithoutPrefix pk a.algorithm = .ok p ∧ ((p.length * 8 : Nat) : Int) = a.bits)
  | [], _ => by simp [matchEddsaAlg, pure, Except.pure]
  | a :: r, hwf => by
    have ih := matchEddsaAlg_true_iff key pk hpk r (fun x hx => hwf x (List.mem_cons_of_mem _ hx))
    unfold matchEddsaAlg
    by_cases hk : a.kind = .eddsa
    · have hal := hwf a (by simp) hk
      obtain ⟨p, hp⟩ := eddsaWithoutPrefix_ok pk a.algorithm hpk hal
      simp only [hk, bne_self_eq_false, Bool.false_eq_true, ↓reduceIte, hp, bind, Except.bind]
      by_cases hm : (key.algorithm == a.algorithm && (((p.length * 8 : Nat) : Int) == a.bits)) = true
      · simp only [hm, ↓reduceIte, pure, Except.pure, true_iff]
        simp only [Bool.and_eq_true, beq_iff_eq] at hm
        exact ⟨a, by simp, hk, hm.1.symm, p, hp, hm.2⟩
      · simp only [hm, Bool.false_eq_true, ↓reduceIte, ih]
        constructor
        · rintro ⟨x, hx, h⟩; exact ⟨x, List.mem_cons_of_mem _ hx, h⟩
        · rintro ⟨x, hx, hxk, hxa, q, hq, hqb⟩
          rcases List.mem_cons.mp hx with rfl | hx
          · rw [hp] at hq
            simp only [Except.ok.injEq] at hq
            subst hq
            exact absurd (by simp [hxa, hqb]) hm
          · exact ⟨x, hx, hxk, hxa, q, hq, hqb⟩
    · have hk' : (a.kind != .eddsa) = true := by simpa using hk
      simp only [hk', ↓reduceIte, ih]
      constructor
      · rintro ⟨x, hx, h⟩; exact ⟨x, List.mem_cons_of_mem _ hx, h⟩
      · rintro ⟨x, hx, hxk, h⟩
        rcases List.mem_cons.mp hx with rfl | hx
        · exact absurd hxk hk
        · exact ⟨x, hx, hxk, h⟩

/-! ### `checkNewKey` split into its two halves -/

/-- parameters of a new key against the declared algorithms (first half of `checkNewKey`) -/
def keyParamsCheck (req : Request) (pol : RequestPolicy) (key : Key) : Res Unit := do
  if isAlgorithmRsa key.algorithm then
    let pub ← rsaDecode key.publicKey key.algorithm
    let m := matchRsaAlg req.zskPolicy.algorithms key pub false
    let m := if !m && !pol.rsaExponentMatchZskPolicy
             then matchRsaAlg req.zskPolicy.algorithms key pub true else m
    if !m then violation .bundleKeys
  else if isAlgorithmEcdsa key.algorithm then
    match Base64.decode key.publicKey with
    | none => unsupported
    | some pk => if !(← matchEcdsaAlg req.zskPolicy.algorithms key pk) then violation .bundleKeys
  else if isAlgorithmEddsa key.algorithm then
    match Base64.decode key.publicKey with
    | none => unsupported
    | some pk => if !(← matchEddsaAlg req.zskPolicy.algorithms key pk) then violation .bundleKeys
  else err .value

/-- flags and key tag of a new key (second half of `checkNewKey`) -/
def keyFlagsTagCheck (key : Key) : Res Unit := do
  if key.flags != 256 then violation .bundleKeys
  let tag ← calculateKeyTag key
  if (tag : Int) != key.keyTag then violation .bundleKeys

theorem checkNewKey_eq (req : Request) (pol : RequestPolicy) (key : Key) :
    checkNewKey req pol key = (do keyParamsCheck req pol key; keyFlagsTagCheck key) := by
  unfold checkNewKey keyParamsCheck keyFlagsTagCheck
  simp only [bind, Except.bind, violation, unsupported, err, pure, Except.pure]
  split
  · cases rsaDecode key.publicKey key.algorithm with
    | error e => rfl
    | ok pub => simp only []; repeat' (first | rfl | split)
  · split
    · cases Base64.decode key.publicKey with
      | none => rfl
      | some pk =>
        simp only []
        cases matchEcdsaAlg req.zskPolicy.algorithms key pk with
        | error e => rfl
        | ok m => simp only []; repeat' (first | rfl | split)
    · split
      · cases Base64.decode key.publicKey with
        | none => rfl
        | some pk =>
          simp only []
          cases matchEddsaAlg req.zskPolicy.algorithms key pk with
          | error e => rfl
          | ok m => simp only []; repeat' (first | rfl | split)
      · rfl

end Kskm.C06L
