/-
  The specification side of C12, generalised layout: `WTree` is a `PTree` (KskmProofs/Lemmas/XmlRender.lean)
  whose start tags also carry the white space written IN FRONT OF EVERY ATTRIBUTE (between the element name
  and the first attribute, and between two attributes).  `renderW` writes it as given; the standard reading
  ignores it: `eraseT` forgets it, and the dict of `renderW w` is `dictOf (eraseT w)`.

  Written independently of the reader: nothing here mentions `parse*`, `match*` or `index`.

  `PTree` / `renderT` is the special case "exactly one space before each attribute":
  `ofP : PTree → WTree`,  `renderW (ofP t) = renderT t`,  `eraseT (ofP t) = t`,  `PlainT t → PlainW (ofP t)`.

  What white space is admitted in front of an attribute (`AttrWs`) is what BOTH a standard parser and the
  reader accept there, on one line: a non-empty run of characters that `\s` matches and `str.strip()`
  removes (for the classes of the running Python the two coincide), none of them a line feed.  The
  reader does NOT accept a line feed between two attributes or before `>` (the start-tag expression
  `(.+?)` does not cross a line), nor white space around `=` — see `attr_ws_boundaries` in
  KskmProofs/C12.lean; the property is about start tags on one line.
-/
import KskmProofs.Lemmas.XmlRender
namespace Kskm.Xml

/-- attributes with their layout: `(white space before, (name, value))` -/
abbrev WAttrs := List (List Char × (List Char × List Char))

/-- the attributes without their layout -/
def wplain (a : WAttrs) : Attrs := a.map (·.2)

mutual
/-- a `PTree` whose attributes carry the white space written before them -/
inductive WTree where
  | leaf (name : List Char) (attrs : WAttrs) (gap : List Char) (text : List Char)
  | empty (name : List Char) (attrs : WAttrs) (gap : List Char)
  | node (name : List Char) (attrs : WAttrs) (gap : List Char) (pre : List Char) (first : WTree)
      (rest : WForest) (post : List Char)
inductive WForest where
  | nil
  | cons (sep : List Char) (t : WTree) (f : WForest)
end

def WTree.name : WTree → List Char
  | .leaf n _ _ _ => n
  | .empty n _ _ => n
  | .node n _ _ _ _ _ _ => n

def WTree.attrs : WTree → WAttrs
  | .leaf _ a _ _ => a
  | .empty _ a _ => a
  | .node _ a _ _ _ _ _ => a

/-! ### rendering -/

/-- the attributes, each preceded by its own white space -/
def wattrsText : WAttrs → List Char
  | [] => []
  | q :: r => q.1 ++ (attrText q.2 ++ wattrsText r)

def wstartBody (n : List Char) (a : WAttrs) (gap : List Char) : List Char := n ++ wattrsText a ++ gap ++ ['>']
def wstartTag (n : List Char) (a : WAttrs) (gap : List Char) : List Char := '<' :: wstartBody n a gap
def wselfBody (n : List Char) (a : WAttrs) (gap : List Char) : List Char := n ++ wattrsText a ++ gap ++ ['/', '>']
def wselfTag (n : List Char) (a : WAttrs) (gap : List Char) : List Char := '<' :: wselfBody n a gap

mutual
def renderW : WTree → List Char
  | .leaf n a gap text => wstartTag n a gap ++ text ++ endTag n
  | .empty n a gap => wselfTag n a gap
  | .node n a gap pre first rest post =>
    wstartTag n a gap ++ pre ++ renderW first ++ renderWF rest ++ post ++ endTag n
def renderWF : WForest → List Char
  | .nil => []
  | .cons sep t f => sep ++ renderW t ++ renderWF f
end

/-! ### the standard reading: the white space inside tags is dropped -/

mutual
def eraseT : WTree → PTree
  | .leaf n a gap text => .leaf n (wplain a) gap text
  | .empty n a gap => .empty n (wplain a) gap
  | .node n a gap pre first rest post => .node n (wplain a) gap pre (eraseT first) (eraseF rest) post
def eraseF : WForest → PForest
  | .nil => .nil
  | .cons sep t f => .cons sep (eraseT t) (eraseF f)
end

theorem eraseT_name (w : WTree) : (eraseT w).name = w.name := by
  cases w <;> simp [eraseT, PTree.name, WTree.name]

theorem eraseT_attrs (w : WTree) : (eraseT w).attrs = wplain w.attrs := by
  cases w <;> simp [eraseT, PTree.attrs, WTree.attrs]

/-! ### plainness -/

/-- white space in front of an attribute: non-empty, on one line, every character matched by `\s` and
    removed by `str.strip()` -/
def AttrWs (cls : Classes) (w : List Char) : Prop :=
  w ≠ [] ∧ ∀ x ∈ w, cls.isSpace x = true ∧ cls.isStrip x = true ∧ x ≠ '\n'

def PlainWAttrs (cls : Classes) (a : WAttrs) : Prop := ∀ q ∈ a, AttrWs cls q.1 ∧ PlainAttr cls q.2

mutual
def occursW (n : List Char) : WTree → Prop
  | .leaf m _ _ _ => m = n
  | .empty m _ _ => m = n
  | .node m _ _ _ first rest _ => m = n ∨ occursW n first ∨ occursWF n rest
def occursWF (n : List Char) : WForest → Prop
  | .nil => False
  | .cons _ t f => occursW n t ∨ occursWF n f
end

mutual
/-- `PlainT` plus plain white space in front of every attribute -/
def PlainW (cls : Classes) : WTree → Prop
  | .leaf n a gap text => PlainName cls n ∧ PlainWAttrs cls a ∧ Gap cls (wplain a) gap ∧ PlainText cls text
  | .empty n a gap => PlainName cls n ∧ PlainWAttrs cls a ∧ Gap cls (wplain a) gap ∧ a ≠ []
  | .node n a gap pre first rest post =>
    PlainName cls n ∧ PlainWAttrs cls a ∧ Gap cls (wplain a) gap ∧ Ws cls pre ∧ Ws cls post ∧
      PlainW cls first ∧ PlainWF cls rest ∧ ¬ occursW n first ∧ ¬ occursWF n rest
def PlainWF (cls : Classes) : WForest → Prop
  | .nil => True
  | .cons sep t f => Ws cls sep ∧ PlainW cls t ∧ PlainWF cls f
end

mutual
def heightW : WTree → Nat
  | .leaf _ _ _ _ => 0
  | .empty _ _ _ => 0
  | .node _ _ _ _ first rest _ => 1 + max (heightW first) (heightWF rest)
def heightWF : WForest → Nat
  | .nil => 0
  | .cons _ t f => max (heightW t) (heightWF f)
end

def countWF : WForest → Nat
  | .nil => 0
  | .cons _ _ f => 1 + countWF f

/-! ### erasing the attribute white space keeps everything the standard reading looks at -/

theorem wplain_eq_nil {a : WAttrs} : wplain a = [] ↔ a = [] := by
  cases a <;> simp [wplain]

theorem plainAttrs_wplain {cls : Classes} {a : WAttrs} (h : PlainWAttrs cls a) : ∀ p ∈ wplain a, PlainAttr cls p := by
  intro p hp
  simp only [wplain, List.mem_map] at hp
  obtain ⟨q, hq, rfl⟩ := hp
  exact (h q hq).2

mutual
theorem occursT_erase (n : List Char) : ∀ (w : WTree), occursT n (eraseT w) ↔ occursW n w
  | .leaf m a gap text => by simp [eraseT, occursT, occursW]
  | .empty m a gap => by simp [eraseT, occursT, occursW]
  | .node m a gap pre first rest post => by
    simp only [eraseT, occursT, occursW]
    rw [occursT_erase n first, occursF_erase n rest]
theorem occursF_erase (n : List Char) : ∀ (f : WForest), occursF n (eraseF f) ↔ occursWF n f
  | .nil => by simp [eraseF, occursF, occursWF]
  | .cons sep t f => by
    simp only [eraseF, occursF, occursWF]
    rw [occursT_erase n t, occursF_erase n f]
end

mutual
/-- a plain `WTree` is a plain `PTree` once the attribute white space is forgotten -/
theorem plainT_erase {cls : Classes} : ∀ (w : WTree), PlainW cls w → PlainT cls (eraseT w)
  | .leaf n a gap text, h => by
    simp only [eraseT, PlainT]
    exact ⟨h.1, plainAttrs_wplain h.2.1, h.2.2.1, h.2.2.2⟩
  | .empty n a gap, h => by
    simp only [eraseT, PlainT]
    exact ⟨h.1, plainAttrs_wplain h.2.1, h.2.2.1, fun hc => h.2.2.2 (wplain_eq_nil.mp hc)⟩
  | .node n a gap pre first rest post, h => by
    obtain ⟨hn, ha, hg, hpre, hpost, hf, hr, hof, hor⟩ := h
    simp only [eraseT, PlainT]
    exact ⟨hn, plainAttrs_wplain ha, hg, hpre, hpost, plainT_erase first hf, plainF_erase rest hr,
      fun hc => hof ((occursT_erase n first).mp hc), fun hc => hor ((occursF_erase n rest).mp hc)⟩
theorem plainF_erase {cls : Classes} : ∀ (f : WForest), PlainWF cls f → PlainF cls (eraseF f)
  | .nil, _ => by simp only [eraseF, PlainF]
  | .cons sep t f, h => by
    simp only [eraseF, PlainF]
    exact ⟨h.1, plainT_erase t h.2.1, plainF_erase f h.2.2⟩
end

mutual
theorem heightT_erase : ∀ (w : WTree), heightT (eraseT w) = heightW w
  | .leaf _ _ _ _ => by simp [eraseT, heightT, heightW]
  | .empty _ _ _ => by simp [eraseT, heightT, heightW]
  | .node _ _ _ _ first rest _ => by
    simp only [eraseT, heightT, heightW]
    rw [heightT_erase first, heightF_erase rest]
theorem heightF_erase : ∀ (f : WForest), heightF (eraseF f) = heightWF f
  | .nil => by simp [eraseF, heightF, heightWF]
  | .cons _ t f => by
    simp only [eraseF, heightF, heightWF]
    rw [heightT_erase t, heightF_erase f]
end

/-! ### `PTree` is the special case "one space before each attribute" -/

def wone (a : Attrs) : WAttrs := a.map fun p => ([' '], p)

mutual
def ofP : PTree → WTree
  | .leaf n a gap text => .leaf n (wone a) gap text
  | .empty n a gap => .empty n (wone a) gap
  | .node n a gap pre first rest post => .node n (wone a) gap pre (ofP first) (ofPF rest) post
def ofPF : PForest → WForest
  | .nil => .nil
  | .cons sep t f => .cons sep (ofP t) (ofPF f)
end

theorem wplain_wone (a : Attrs) : wplain (wone a) = a := by
  simp [wplain, wone, Function.comp_def]

theorem wattrsText_wone : ∀ (a : Attrs), wattrsText (wone a) = attrsText a
  | [] => rfl
  | p :: r => by
    have ih := wattrsText_wone r
    simp only [wone, List.map_cons] at ih ⊢
    simp [wattrsText, attrsText, ih]

mutual
theorem renderW_ofP : ∀ (t : PTree), renderW (ofP t) = renderT t
  | .leaf n a gap text => by
    simp [ofP, renderW, renderT, wstartTag, wstartBody, startTag, startBody, wattrsText_wone]
  | .empty n a gap => by
    simp [ofP, renderW, renderT, wselfTag, wselfBody, selfTag, selfBody, wattrsText_wone]
  | .node n a gap pre first rest post => by
    simp only [ofP, renderW, renderT, wstartTag, wstartBody, startTag, startBody, wattrsText_wone]
    rw [renderW_ofP first, renderWF_ofPF rest]
theorem renderWF_ofPF : ∀ (f : PForest), renderWF (ofPF f) = renderF f
  | .nil => by simp [ofPF, renderWF, renderF]
  | .cons sep t f => by
    simp only [ofPF, renderWF, renderF]
    rw [renderW_ofP t, renderWF_ofPF f]
end

mutual
theorem eraseT_ofP : ∀ (t : PTree), eraseT (ofP t) = t
  | .leaf n a gap text => by simp [ofP, eraseT, wplain_wone]
  | .empty n a gap => by simp [ofP, eraseT, wplain_wone]
  | .node n a gap pre first rest post => by
    simp only [ofP, eraseT, wplain_wone]
    rw [eraseT_ofP first, eraseF_ofPF rest]
theorem eraseF_ofPF : ∀ (f : PForest), eraseF (ofPF f) = f
  | .nil => by simp [ofPF, eraseF]
  | .cons sep t f => by
    simp only [ofPF, eraseF]
    rw [eraseT_ofP t, eraseF_ofPF f]
end

theorem attrWs_one {cls : Classes} (hs : Sane cls) (hsp : cls.isStrip ' ' = true) : AttrWs cls [' '] :=
  ⟨by simp, by intro x hx; simp only [List.mem_singleton] at hx; subst hx; exact ⟨hs.space_sp, hsp, by decide⟩⟩

theorem plainWAttrs_wone {cls : Classes} (hs : Sane cls) (hsp : cls.isStrip ' ' = true) {a : Attrs} (h : ∀ p ∈ a, PlainAttr cls p) :
    PlainWAttrs cls (wone a) := by
  intro q hq
  simp only [wone, List.mem_map] at hq
  obtain ⟨p, hp, rfl⟩ := hq
  exact ⟨attrWs_one hs hsp, h p hp⟩

mutual
theorem occursW_ofP (n : List Char) : ∀ (t : PTree), occursW n (ofP t) ↔ occursT n t
  | .leaf m a gap text => by simp [ofP, occursT, occursW]
  | .empty m a gap => by simp [ofP, occursT, occursW]
  | .node m a gap pre first rest post => by
    simp only [ofP, occursT, occursW]
    rw [occursW_ofP n first, occursWF_ofPF n rest]
theorem occursWF_ofPF (n : List Char) : ∀ (f : PForest), occursWF n (ofPF f) ↔ occursF n f
  | .nil => by simp [ofPF, occursF, occursWF]
  | .cons sep t f => by
    simp only [ofPF, occursF, occursWF]
    rw [occursW_ofP n t, occursWF_ofPF n f]
end

mutual
theorem plainW_ofP {cls : Classes} (hs : Sane cls) (hsp : cls.isStrip ' ' = true) : ∀ (t : PTree), PlainT cls t → PlainW cls (ofP t)
  | .leaf n a gap text, h => by
    simp only [ofP, PlainW, wplain_wone]
    exact ⟨h.1, plainWAttrs_wone hs hsp h.2.1, h.2.2.1, h.2.2.2⟩
  | .empty n a gap, h => by
    simp only [ofP, PlainW, wplain_wone]
    refine ⟨h.1, plainWAttrs_wone hs hsp h.2.1, h.2.2.1, ?_⟩
    intro hc
    apply h.2.2.2
    cases a with
    | nil => rfl
    | cons _ _ => simp [wone] at hc
  | .node n a gap pre first rest post, h => by
    obtain ⟨hn, ha, hg, hpre, hpost, hf, hr, hof, hor⟩ := h
    simp only [ofP, PlainW, wplain_wone]
    exact ⟨hn, plainWAttrs_wone hs hsp ha, hg, hpre, hpost, plainW_ofP hs hsp first hf, plainWF_ofPF hs hsp rest hr,
      fun hc => hof ((occursW_ofP n first).mp hc), fun hc => hor ((occursWF_ofPF n rest).mp hc)⟩
theorem plainWF_ofPF {cls : Classes} (hs : Sane cls) (hsp : cls.isStrip ' ' = true) : ∀ (f : PForest), PlainF cls f → PlainWF cls (ofPF f)
  | .nil, _ => by simp only [ofPF, PlainWF]
  | .cons sep t f, h => by
    simp only [ofPF, PlainWF]
    exact ⟨h.1, plainW_ofP hs hsp t h.2.1, plainWF_ofPF hs hsp f h.2.2⟩
end

mutual
theorem heightW_ofP : ∀ (t : PTree), heightW (ofP t) = heightT t
  | .leaf _ _ _ _ => by simp [ofP, heightT, heightW]
  | .empty _ _ _ => by simp [ofP, heightT, heightW]
  | .node _ _ _ _ first rest _ => by
    simp only [ofP, heightT, heightW]
    rw [heightW_ofP first, heightWF_ofPF rest]
theorem heightWF_ofPF : ∀ (f : PForest), heightWF (ofPF f) = heightF f
  | .nil => by simp [ofPF, heightF, heightWF]
  | .cons _ t f => by
    simp only [ofPF, heightF, heightWF]
    rw [heightW_ofP t, heightWF_ofPF f]
end

end Kskm.Xml
