/-
  Pure list facts about the inventory (C19): the collection table of `key_inventory` (`KeyTable.add`)
  and the pairing loop of `_format_keys` (`pairLoop`, F14 repaired).
-/
import Kskm.Keymaster
namespace Kskm.Km

/-- does the list hold an entry with this label+id -/
def hasKey (l : List KeyInfo) (k : String × Option Bytes) : Bool := l.any (fun y => decide (y.key = k))

theorem hasKey_iff {l : List KeyInfo} {k : String × Option Bytes} : hasKey l k = true ↔ ∃ y ∈ l, y.key = k := by
  simp [hasKey]

/-! ### the collection table -/

theorem lookup_set_same (t : KeyTable) (c : Nat) (v : List KeyInfo) (h : (t.lookup c).isSome) :
    (t.set c v).lookup c = some v := by
  induction t with
  | nil => simp at h
  | cons p r ih =>
    obtain ⟨c', l⟩ := p
    simp only [KeyTable.set, List.map_cons]
    by_cases hc : c' = c
    · subst hc; simp [List.lookup]
    · have hne : (c == c') = false := by simpa using fun e => hc e.symm
      simp only [hc, if_false, List.lookup, hne]
      simp only [List.lookup, hne] at h
      exact ih h

theorem lookup_set_other (t : KeyTable) (c c' : Nat) (v : List KeyInfo) (h : c' ≠ c) :
    (t.set c v).lookup c' = t.lookup c' := by
  induction t with
  | nil => rfl
  | cons p r ih =>
    obtain ⟨d, l⟩ := p
    simp only [KeyTable.set, List.map_cons]
    by_cases hd : d = c
    · subst hd
      have : (c' == d) = false := by simpa using h
      simp only [if_true, List.lookup, this]
      exact ih
    · simp only [hd, if_false, List.lookup]
      cases c' == d
      · exact ih
      · rfl

theorem set_keys (t : KeyTable) (c : Nat) (v : List KeyInfo) : (t.set c v).map (·.1) = t.map (·.1) := by
  induction t with
  | nil => rfl
  | cons p r ih =>
    simp only [KeyTable.set, List.map_cons, List.cons.injEq] at ih ⊢
    refine ⟨?_, ih⟩
    split <;> simp_all

theorem mem_set {t : KeyTable} {c : Nat} {v : List KeyInfo} {d : Nat} {l : List KeyInfo}
    (h : (d, l) ∈ t.set c v) : (d = c ∧ l = v) ∨ (d ≠ c ∧ (d, l) ∈ t) := by
  simp only [KeyTable.set, List.mem_map] at h
  obtain ⟨p, hp, he⟩ := h
  split at he
  · rename_i hc
    simp only [Prod.mk.injEq] at he
    exact Or.inl ⟨he.1.symm, he.2.symm⟩
  · rename_i hc
    subst he
    exact Or.inr ⟨hc, hp⟩

theorem lookup_isSome_iff (t : KeyTable) (c : Nat) : (t.lookup c).isSome ↔ c ∈ t.map (·.1) := by
  induction t with
  | nil => simp
  | cons p r ih =>
    obtain ⟨d, l⟩ := p
    simp only [List.lookup, List.map_cons, List.mem_cons]
    by_cases h : c = d
    · subst h; simp
    · have : (c == d) = false := by simpa using h
      simp [this, ih, h]

theorem lookup_mem {t : KeyTable} {c : Nat} {l : List KeyInfo} (h : t.lookup c = some l) : (c, l) ∈ t := by
  induction t with
  | nil => simp at h
  | cons p r ih =>
    obtain ⟨d, l'⟩ := p
    simp only [List.lookup] at h
    by_cases hc : c = d
    · subst hc
      simp only [beq_self_eq_true, Option.some.injEq] at h
      subst h; exact List.mem_cons_self
    · have : (c == d) = false := by simpa using hc
      simp only [this] at h
      exact List.mem_cons_of_mem _ (ih h)

theorem lookup_of_mem {t : KeyTable} (hn : (t.map (·.1)).Nodup) {c : Nat} {l : List KeyInfo} (h : (c, l) ∈ t) :
    t.lookup c = some l := by
  induction t with
  | nil => simp at h
  | cons p r ih =>
    obtain ⟨d, l'⟩ := p
    simp only [List.map_cons, List.nodup_cons, List.mem_map, not_exists, not_and] at hn
    rcases List.mem_cons.mp h with he | hm
    · simp only [Prod.mk.injEq] at he
      obtain ⟨rfl, rfl⟩ := he
      simp [List.lookup]
    · have hne : c ≠ d := by
        intro e; subst e
        exact hn.1 (c, l) hm rfl
      have : (c == d) = false := by simpa using hne
      simp only [List.lookup, this]
      exact ih hn.2 hm

/-- what the collection loop maintains: classes listed once; within a class no label+id twice and every
    entry of that class -/
structure TableOk (t : KeyTable) : Prop where
  classes : (t.map (·.1)).Nodup
  keys : ∀ c l, (c, l) ∈ t → (l.map KeyInfo.key).Nodup
  cls : ∀ c l, (c, l) ∈ t → ∀ k ∈ l, k.keyClass = c

theorem tableOk_nil : TableOk [] := ⟨by simp, by simp, by simp⟩

theorem lookup_append_new (t : KeyTable) (c : Nat) (h : (t.lookup c).isSome = false) :
    (t ++ [(c, [])]).lookup c = some [] := by
  induction t with
  | nil => simp [List.lookup]
  | cons p r ih =>
    obtain ⟨d, l⟩ := p
    simp only [List.lookup, List.cons_append] at h ⊢
    by_cases hc : c = d
    · subst hc; simp at h
    · have : (c == d) = false := by simpa using hc
      simp only [this] at h ⊢
      exact ih h

/-- the table with the class of `this` present (first half of one round of the collection loop) -/
def addBase (t : KeyTable) (this : KeyInfo) : KeyTable :=
  if (t.get this.keyClass).isSome then t else t ++ [(this.keyClass, [])]

/-- one round of the collection loop, spelled out -/
theorem add_cases (t : KeyTable) (this : KeyInfo) :
    ∃ l, (addBase t this).lookup this.keyClass = some l ∧
      t.add this = if hasKey l this.key then addBase t this else (addBase t this).set this.keyClass (l ++ [this]) := by
  have hsome : ∃ l, (addBase t this).lookup this.keyClass = some l := by
    unfold addBase KeyTable.get
    cases h : (t.lookup this.keyClass) with
    | some l => exact ⟨l, by simp [h]⟩
    | none => exact ⟨[], by simpa using lookup_append_new t this.keyClass (by simp [h])⟩
  obtain ⟨l, hl⟩ := hsome
  refine ⟨l, hl, ?_⟩
  show (match (addBase t this).get this.keyClass with
        | some l => if l.any (fun y => decide (y.key = this.key)) then addBase t this
                    else (addBase t this).set this.keyClass (l ++ [this])
        | none => addBase t this) = _
  rw [show (addBase t this).get this.keyClass = some l from hl]
  rfl

theorem TableOk.add {t : KeyTable} (h : TableOk t) (this : KeyInfo) : TableOk (t.add this) := by
  obtain ⟨l, hl, he⟩ := add_cases t this
  -- the table with the class present
  have h0 : TableOk (addBase t this) := by
    unfold addBase
    split
    · exact h
    · rename_i hn
      have hnot : this.keyClass ∉ t.map (·.1) := by
        rw [← lookup_isSome_iff]; simpa [KeyTable.get] using hn
      refine ⟨?_, ?_, ?_⟩
      · simp only [List.map_append, List.map_cons, List.map_nil]
        exact List.nodup_append.mpr ⟨h.classes, by simp, by
          intro a ha b hb; simp at hb; subst hb; intro e; exact hnot (e ▸ ha)⟩
      · intro c l' hm
        rcases List.mem_append.mp hm with hm | hm
        · exact h.keys c l' hm
        · simp at hm; obtain ⟨_, rfl⟩ := hm; simp
      · intro c l' hm
        rcases List.mem_append.mp hm with hm | hm
        · exact h.cls c l' hm
        · simp at hm; obtain ⟨_, rfl⟩ := hm; simp
  rw [he]
  split
  · exact h0
  · rename_i hk
    have hmem := lookup_mem hl
    refine ⟨by rw [set_keys]; exact h0.classes, ?_, ?_⟩
    · intro c l' hm
      rcases mem_set hm with ⟨rfl, rfl⟩ | ⟨_, hm'⟩
      · simp only [List.map_append, List.map_cons, List.map_nil]
        refine List.nodup_append.mpr ⟨h0.keys _ _ hmem, by simp, ?_⟩
        intro a ha b hb
        simp only [List.mem_cons, List.not_mem_nil, or_false] at hb
        subst hb
        intro e
        apply hk
        obtain ⟨y, hy, hye⟩ := List.mem_map.mp ha
        exact hasKey_iff.mpr ⟨y, hy, hye.trans e⟩
      · exact h0.keys c l' hm'
    · intro c l' hm k hkm
      rcases mem_set hm with ⟨rfl, rfl⟩ | ⟨_, hm'⟩
      · rcases List.mem_append.mp hkm with hkm | hkm
        · exact h0.cls _ _ hmem k hkm
        · simp at hkm; subst hkm; rfl
      · exact h0.cls c l' hm' k hkm

theorem tableOk_foldl (infos : List KeyInfo) : ∀ t, TableOk t → TableOk (infos.foldl KeyTable.add t) := by
  induction infos with
  | nil => intro t h; exact h
  | cons i r ih => intro t h; exact ih _ (h.add i)

/-- every collected entry is an object that was seen … -/
theorem add_sound {t : KeyTable} (this : KeyInfo) {c : Nat} {l : List KeyInfo} (hm : (c, l) ∈ t.add this) :
    ∀ k ∈ l, k = this ∨ ∃ l', (c, l') ∈ t ∧ k ∈ l' := by
  obtain ⟨l0, hl, he⟩ := add_cases t this
  rw [he] at hm
  have base : ∀ c l, (c, l) ∈ addBase t this →
      ∀ k ∈ l, ∃ l', (c, l') ∈ t ∧ k ∈ l' := by
    intro c l hm k hk
    unfold addBase at hm
    split at hm
    · exact ⟨l, hm, hk⟩
    · rcases List.mem_append.mp hm with hm | hm
      · exact ⟨l, hm, hk⟩
      · simp at hm; obtain ⟨_, rfl⟩ := hm; simp at hk
  intro k hk
  split at hm
  · exact Or.inr (base c l hm k hk)
  · rcases mem_set hm with ⟨rfl, rfl⟩ | ⟨_, hm'⟩
    · rcases List.mem_append.mp hk with hk | hk
      · exact Or.inr (base _ _ (lookup_mem hl) k hk)
      · simp at hk; exact Or.inl hk
    · exact Or.inr (base c l hm' k hk)

/-- … and every object seen is represented: its class is listed and holds an entry with its label+id -/
theorem add_complete (t : KeyTable) (this : KeyInfo) :
    (∃ l, (t.add this).lookup this.keyClass = some l ∧ hasKey l this.key = true) ∧
    ∀ c l, t.lookup c = some l → ∃ l', (t.add this).lookup c = some l' ∧ ∀ k ∈ l, k ∈ l' := by
  obtain ⟨l0, hl, he⟩ := add_cases t this
  have base : ∀ c l, t.lookup c = some l → (addBase t this).lookup c = some l := by
    intro c l h
    unfold addBase
    split
    · exact h
    · rename_i hn
      have hne : c ≠ this.keyClass := by
        intro e; subst e; simp [KeyTable.get, h] at hn
      clear hl he
      induction t with
      | nil => simp at h
      | cons p r ih =>
        obtain ⟨d, l'⟩ := p
        simp only [List.lookup, List.cons_append] at h ⊢
        cases hcd : c == d
        · simp only [hcd] at h
          apply ih h
          simp only [KeyTable.get, List.lookup] at hn
          by_cases hk : this.keyClass = d
          · subst hk; simp at hn
          · have : (this.keyClass == d) = false := by simpa using hk
            simpa [KeyTable.get, this] using hn
        · simpa [hcd] using h
  rw [he]
  constructor
  · split
    · rename_i hk; exact ⟨l0, hl, hk⟩
    · refine ⟨l0 ++ [this], lookup_set_same _ _ _ (by simp [hl]), ?_⟩
      exact hasKey_iff.mpr ⟨this, by simp, rfl⟩
  · intro c l h
    have hb := base c l h
    split
    · exact ⟨l, hb, fun k hk => hk⟩
    · by_cases hc : c = this.keyClass
      · subst hc
        rw [hl] at hb
        obtain rfl := Option.some.inj hb
        exact ⟨l0 ++ [this], lookup_set_same _ _ _ (by simp [hl]), fun k hk => List.mem_append_left _ hk⟩
      · exact ⟨l, by rw [lookup_set_other _ _ _ _ hc]; exact hb, fun k hk => hk⟩

/-! ### the pairing loop (F14 repaired) -/

theorem hasKey_cons (x : KeyInfo) (l : List KeyInfo) (k : String × Option Bytes) :
    hasKey (x :: l) k = (decide (x.key = k) || hasKey l k) := by simp [hasKey]

theorem bool_step (a b : String × Option Bytes) (x : Bool) :
    (!x && decide (a ≠ b)) = !(decide (b = a) || x) := by
  by_cases h : a = b
  · subst h; cases x <;> simp
  · have h' : ¬ b = a := fun e => h e.symm
    cases x <;> simp [h, h']

theorem filter_any_ne (privs : List KeyInfo) (a b : String × Option Bytes) (h : b ≠ a) :
    hasKey (privs.filter (fun y => decide (y.key ≠ a))) b = hasKey privs b := by
  rw [Bool.eq_iff_iff, hasKey_iff, hasKey_iff]
  constructor
  · rintro ⟨y, hy, rfl⟩; exact ⟨y, (List.mem_filter.mp hy).1, rfl⟩
  · rintro ⟨y, hy, rfl⟩; exact ⟨y, List.mem_filter.mpr ⟨hy, by simpa using h⟩, rfl⟩

/-- **The pairing loop, in closed form.**  Over an initial list of public entries with pairwise different
    label+id: the pairs are the entries whose label+id also names a private entry, in order; those and
    their partners leave the two tables; nothing else does. -/
theorem pairLoop_spec (ext : Externals) (cfg : KmConfig) :
    ∀ (init : List KeyInfo) (st res : PairState), (init.map KeyInfo.key).Nodup →
      pairLoop ext cfg init st = .ok res →
      res.pairs.map (·.pub) = st.pairs.map (·.pub) ++ init.filter (fun x => hasKey st.privs x.key) ∧
      res.pubs = st.pubs.filter (fun y => !(hasKey (init.filter (fun x => hasKey st.privs x.key)) y.key)) ∧
      res.privs = st.privs.filter (fun y => !(hasKey init y.key)) := by
  intro init
  induction init with
  | nil =>
    intro st res _ h
    simp only [pairLoop, pure, Except.pure, Except.ok.injEq] at h
    subst h
    refine ⟨by simp, ?_, ?_⟩ <;>
      (symm; apply List.filter_eq_self.mpr; intro a _; simp [hasKey])
  | cons this rest ih =>
    intro st res hn h
    simp only [List.map_cons, List.nodup_cons] at hn
    obtain ⟨hthis, hrest⟩ := hn
    have hne : ∀ x ∈ rest, x.key ≠ this.key := by
      intro x hx e; exact hthis (List.mem_map.mpr ⟨x, hx, e⟩)
    rw [pairLoop] at h
    cases hpk : this.pubkey with
    | none => simp [hpk, err] at h
    | some pk =>
      simp only [hpk, bind, Except.bind] at h
      cases hk : kskInfoLoop ext this.label pk cfg.ksks (.notFound, none) with
      | error e => simp [hk] at h
      | ok r =>
        obtain ⟨info, dns⟩ := r
        simp only [hk] at h
        have hany : (st.privs.any fun x => decide (x.key = this.key)) = hasKey st.privs this.key := rfl
        rw [hany] at h
        cases hp : hasKey st.privs this.key with
        | false =>
          simp only [hp, Bool.false_eq_true, if_false] at h
          obtain ⟨h1, h2, h3⟩ := ih st res hrest h
          refine ⟨?_, ?_, ?_⟩
          · rw [h1]; simp [List.filter_cons, hp]
          · rw [h2]; simp [List.filter_cons, hp]
          · rw [h3]
            apply List.filter_congr
            intro y hy
            have : (decide (this.key = y.key)) = false := by
              rw [decide_eq_false_iff_not]
              intro e
              have : hasKey st.privs this.key = true := hasKey_iff.mpr ⟨y, hy, e.symm⟩
              rw [hp] at this; cases this
            simp [hasKey, List.any_cons, this]
        | true =>
          simp only [hp, if_true] at h
          obtain ⟨h1, h2, h3⟩ := ih _ res hrest h
          simp only at h1 h2 h3
          have hcongr : rest.filter (fun x => hasKey (st.privs.filter fun y => decide (y.key ≠ this.key)) x.key)
              = rest.filter (fun x => hasKey st.privs x.key) := by
            apply List.filter_congr
            intro x hx
            exact filter_any_ne _ _ _ (hne x hx)
          rw [hcongr] at h1 h2
          refine ⟨?_, ?_, ?_⟩
          · rw [h1]; simp [List.filter_cons, hp]
          · rw [h2, List.filter_filter]
            apply List.filter_congr
            intro y _
            rw [List.filter_cons, hp, if_pos rfl, hasKey_cons]
            exact bool_step _ _ _
          · rw [h3, List.filter_filter]
            apply List.filter_congr
            intro y _
            rw [hasKey_cons]
            exact bool_step _ _ _

/-- the pairs' entries are the listed public entries themselves -/
theorem hasKey_filter_self {pubs : List KeyInfo} {P : (String × Option Bytes) → Bool} {y : KeyInfo} (hy : y ∈ pubs) :
    hasKey (pubs.filter (fun x => P x.key)) y.key = P y.key := by
  rw [Bool.eq_iff_iff, hasKey_iff]
  constructor
  · rintro ⟨x, hx, e⟩
    have := (List.mem_filter.mp hx).2
    rw [e] at this; exact this
  · intro h; exact ⟨y, List.mem_filter.mpr ⟨hy, h⟩, rfl⟩

/-! ### the table built from what `get_key_inventory` returned -/

/-- the table `key_inventory` builds for one slot -/
def tableOf (infos : List KeyInfo) : KeyTable := infos.foldl KeyTable.add []

/-- the class is listed and holds an entry with this label+id -/
def Rep (t : KeyTable) (c : Nat) (k : String × Option Bytes) : Prop := ∃ l, t.lookup c = some l ∧ hasKey l k = true

theorem Rep.add {t : KeyTable} {c : Nat} {k : String × Option Bytes} (h : Rep t c k) (x : KeyInfo) : Rep (t.add x) c k := by
  obtain ⟨l, hl, hk⟩ := h
  obtain ⟨l', hl', hsub⟩ := (add_complete t x).2 c l hl
  obtain ⟨y, hy, hye⟩ := hasKey_iff.mp hk
  exact ⟨l', hl', hasKey_iff.mpr ⟨y, hsub y hy, hye⟩⟩

theorem rep_foldl (infos : List KeyInfo) : ∀ t,
    (∀ c k, Rep t c k → Rep (infos.foldl KeyTable.add t) c k) ∧
    (∀ i ∈ infos, Rep (infos.foldl KeyTable.add t) i.keyClass i.key) := by
  induction infos with
  | nil => intro t; exact ⟨fun _ _ h => h, by simp⟩
  | cons x r ih =>
    intro t
    obtain ⟨ih1, ih2⟩ := ih (t.add x)
    refine ⟨fun c k h => ih1 c k (h.add x), ?_⟩
    intro i hi
    rcases List.mem_cons.mp hi with rfl | hi
    · exact ih1 _ _ (add_complete t i).1
    · exact ih2 i hi

theorem sound_foldl (infos : List KeyInfo) : ∀ t c l, (c, l) ∈ infos.foldl KeyTable.add t →
    ∀ k ∈ l, k ∈ infos ∨ ∃ l', (c, l') ∈ t ∧ k ∈ l' := by
  induction infos with
  | nil => intro t c l hm k hk; exact Or.inr ⟨l, hm, hk⟩
  | cons x r ih =>
    intro t c l hm k hk
    rcases ih (t.add x) c l hm k hk with h | ⟨l', hl', hk'⟩
    · exact Or.inl (List.mem_cons_of_mem _ h)
    · rcases add_sound x hl' k hk' with rfl | h
      · exact Or.inl List.mem_cons_self
      · exact Or.inr h

/-- **The table represents the objects seen**: well-formed; every entry is an object that was seen, filed
    under its class; every object seen has its class listed with an entry of its label+id. -/
theorem tableOf_spec (infos : List KeyInfo) :
    TableOk (tableOf infos) ∧
    (∀ c l, (tableOf infos).lookup c = some l → ∀ k ∈ l, k ∈ infos ∧ k.keyClass = c) ∧
    (∀ i ∈ infos, Rep (tableOf infos) i.keyClass i.key) := by
  have hok := tableOk_foldl infos [] tableOk_nil
  refine ⟨hok, ?_, (rep_foldl infos []).2⟩
  intro c l hl k hk
  have hm := lookup_mem hl
  refine ⟨?_, hok.cls c l hm k hk⟩
  rcases sound_foldl infos [] c l hm k hk with h | ⟨_, h, _⟩
  · exact h
  · simp at h

/-- label+ids listed under a class = label+ids of the objects of that class that were seen -/
theorem tableOf_hasKey (infos : List KeyInfo) (c : Nat) (k : String × Option Bytes) :
    Rep (tableOf infos) c k ↔ ∃ i ∈ infos, i.keyClass = c ∧ i.key = k := by
  obtain ⟨_, hs, hc⟩ := tableOf_spec infos
  constructor
  · rintro ⟨l, hl, hk⟩
    obtain ⟨y, hy, hye⟩ := hasKey_iff.mp hk
    obtain ⟨h1, h2⟩ := hs c l hl y hy
    exact ⟨y, h1, h2, hye⟩
  · rintro ⟨i, hi, rfl, rfl⟩
    exact hc i hi

/-! ### counting appearances -/

/-- how many entries of the list carry this label+id -/
def countKey (l : List KeyInfo) (k : String × Option Bytes) : Nat := (l.filter (fun y => decide (y.key = k))).length

theorem countKey_eq (l : List KeyInfo) (hn : (l.map KeyInfo.key).Nodup) (k : String × Option Bytes) :
    countKey l k = if hasKey l k then 1 else 0 := by
  induction l with
  | nil => simp [countKey, hasKey]
  | cons x r ih =>
    simp only [List.map_cons, List.nodup_cons] at hn
    have ihr := ih hn.2
    unfold countKey at ihr ⊢
    rw [hasKey_cons, List.filter_cons]
    by_cases hx : x.key = k
    · have hnot : hasKey r k = false := by
        rw [Bool.eq_false_iff]; intro h
        obtain ⟨y, hy, hye⟩ := hasKey_iff.mp h
        exact hn.1 (List.mem_map.mpr ⟨y, hy, hye.trans hx.symm⟩)
      simp only [hx, decide_true, if_true, List.length_cons, ihr, hnot, Bool.true_or, Bool.false_eq_true, if_false]
    · simp only [hx, decide_false, Bool.false_eq_true, if_false, ihr, Bool.false_or]

theorem nodup_keys_filter {l : List KeyInfo} (hn : (l.map KeyInfo.key).Nodup) (P : KeyInfo → Bool) :
    ((l.filter P).map KeyInfo.key).Nodup := (List.filter_sublist.map _).nodup hn

/-! ### what the pairs carry -/

theorem pairLoop_entries (ext : Externals) (cfg : KmConfig) :
    ∀ (init : List KeyInfo) (st res : PairState), pairLoop ext cfg init st = .ok res →
      ∀ p ∈ res.pairs, p ∈ st.pairs ∨
        ∃ pk, p.pub.pubkey = some pk ∧ kskInfoLoop ext p.pub.label pk cfg.ksks (.notFound, none) = .ok (p.info, p.dns) := by
  intro init
  induction init with
  | nil =>
    intro st res h p hp
    simp only [pairLoop, pure, Except.pure, Except.ok.injEq] at h
    subst h; exact Or.inl hp
  | cons this rest ih =>
    intro st res h p hp
    rw [pairLoop] at h
    cases hpk : this.pubkey with
    | none => simp [hpk, err] at h
    | some pk =>
      simp only [hpk, bind, Except.bind] at h
      cases hk : kskInfoLoop ext this.label pk cfg.ksks (.notFound, none) with
      | error e => simp [hk] at h
      | ok r =>
        obtain ⟨info, dns⟩ := r
        simp only [hk] at h
        split at h
        · rcases ih _ res h p hp with hm | hx
          · simp only [List.mem_append, List.mem_cons, List.not_mem_nil, or_false] at hm
            rcases hm with hm | rfl
            · exact Or.inl hm
            · exact Or.inr ⟨pk, hpk, hk⟩
          · exact Or.inr hx
        · exact ih _ res h p hp

end Kskm.Km
