/-
  The public key a lookup returns is the one `_p11_object_to_public_key` derives from the found object
  (C19: the tags `keygen` reports are those of the key it generated).
-/
import KskmProofs.Lemmas.C19Listing
namespace Kskm.Km

/-- `_p11_object_to_public_key` on an RSA object of a well-formed slot: the RFC 3110 text of its
    exponent and modulus -/
theorem p11ObjectToPublicKeyP_rsa {st : Store} {p : String} {n : Nat} {s : SlotSt} (hs : st.slots p n = some s)
    (hn : (s.objects.map (·.handle)).Nodup) {o : Obj} (ho : o ∈ s.objects)
    (hkt : o.keyType = some ckkRsa) {m e : Bytes} (hm : o.attrs.lookup "MODULUS" = some m)
    (he : o.attrs.lookup "PUBLIC_EXPONENT" = some e) :
    (p11ObjectToPublicKeyP p n o.handle).runSt st =
      (match rsaEncode (beNat e) m with
       | .ok txt => (.ok (some txt), st)
       | .error f => (.error f, st)) := by
  have a1 : ["KEY_TYPE"].map o.attr = [.num ckkRsa] := by simp [Obj.attr, hkt]
  have a2 : ["MODULUS"].map o.attr = [.bytes m] := by simp [Obj.attr, hm]
  have a3 : ["PUBLIC_EXPONENT"].map o.attr = [.bytes e] := by simp [Obj.attr, he]
  unfold p11ObjectToPublicKeyP
  rw [runSt_bind, runSt_askOkP, storeStep_getAttr hs hn ho, a1]
  simp only [reduceCtorEq, if_false]
  rw [runSt_bind]
  simp only [attr1P, runSt_pure, if_true]
  rw [runSt_bind, runSt_askOkP, storeStep_getAttr hs hn ho, a2]
  simp only [reduceCtorEq, if_false]
  rw [runSt_bind]
  simp only [runSt_pure]
  rw [runSt_bind, runSt_askOkP, storeStep_getAttr hs hn ho, a3]
  simp only [reduceCtorEq, if_false]
  rw [runSt_bind]
  simp only [runSt_pure]
  rw [runSt_bind]
  simp only [attrBytesP, runSt_pure]
  rw [runSt_bind]
  simp only [runSt_pure]
  rw [runSt_bind, runSt_liftP]
  cases rsaEncode (beNat e) m <;> rfl

theorem foundKeyTailP_pk {m : P11Module} {label : String} {cls : Nat} {hh : Option Bool} {slot h : Nat}
    {pk : Option String} {st st' : Store} {k : P11Key}
    (hr : (foundKeyTailP m label cls hh slot h pk).runSt st = (.ok (some k), st')) : k.publicKey = pk := by
  unfold foundKeyTailP at hr
  obtain ⟨a, st2, _, hr⟩ := runSt_bind_ok hr
  obtain ⟨kt, st3, _, hr⟩ := runSt_bind_ok hr
  cases kt with
  | num n =>
    simp only at hr
    cases hk : keyTypeOf n with
    | none => simp [hk] at hr
    | some t =>
      simp only [hk, runSt_pure, Prod.mk.injEq, Except.ok.injEq, Option.some.injEq] at hr
      rw [← hr.1]
  | none => simp at hr
  | bytes b => simp at hr
  | str x => simp at hr

/-- the public key of a found PUBLIC object is what `_p11_object_to_public_key` derived from it -/
theorem findInSlotsP_pk {m : P11Module} {label : String} {hh : Option Bool} {k : P11Key} :
    ∀ {slots : List Nat} {st st' : Store}, (findInSlotsP m label ckoPublic hh slots).runSt st = (.ok (some k), st') →
      ∃ h, k.pubHandle = some h ∧ ((p11ObjectToPublicKeyP k.module k.slot h).runSt st).1 = .ok k.publicKey := by
  intro slots
  induction slots with
  | nil => intro st st' hr; simp [findInSlotsP] at hr
  | cons sl rest ih =>
    intro st st' hr
    rw [findInSlotsP_cons_run] at hr
    cases hsl : st.slots m.path sl with
    | none => simp [hsl] at hr
    | some s =>
      simp only [hsl] at hr
      cases hl : (s.objects.filter (fun o => decide (o.named label ckoPublic))).map (·.handle) with
      | nil => simp only [hl] at hr; exact ih hr
      | cons a r =>
        cases r with
        | nil =>
          simp only [hl] at hr
          obtain ⟨k', hk', hfound⟩ := foundKeyP_ok hr
          obtain rfl := Option.some.inj hk'
          unfold foundKeyP at hr
          have hne : ckoPublic ≠ ckoSecret := by decide
          simp only [hne, ne_eq, not_false_eq_true, if_true] at hr
          obtain ⟨pk, st1, h1, h2⟩ := runSt_bind_ok hr
          have hpk := foundKeyTailP_pk h2
          refine ⟨a, ?_, ?_⟩
          · have := hfound.2.2.2.2.2
            simpa [ckoPublic, ckoSecret] using this
          · rw [hfound.1, hfound.2.1, h1, hpk]
        | cons b r' => simp [hl] at hr

theorem getP11KeyP_pk {label : String} {hh : Option Bool} {k : P11Key} :
    ∀ {mods : List P11Module} {st st' : Store}, (getP11KeyP label true hh mods).runSt st = (.ok (some k), st') →
      ∃ h, k.pubHandle = some h ∧ ((p11ObjectToPublicKeyP k.module k.slot h).runSt st).1 = .ok k.publicKey := by
  intro mods
  induction mods with
  | nil => intro st st' hr; simp [getP11KeyP] at hr
  | cons m rest ih =>
    intro st st' hr
    rw [getP11KeyP_cons_run] at hr
    have hro := (findInSlotsP_ro m label (classOfB true) hh m.sessions).readOnly st
    cases hf : (findInSlotsP m label (classOfB true) hh m.sessions).runSt st with
    | mk r st1 =>
      rw [hf] at hr hro
      simp only at hro
      subst hro
      cases r with
      | error e => simp at hr
      | ok o' =>
        cases o' with
        | some k' =>
          simp only [Prod.mk.injEq, Except.ok.injEq, Option.some.injEq] at hr
          obtain ⟨rfl, _⟩ := hr
          exact findInSlotsP_pk (by simpa [classOfB] using hf)
        | none => exact ih hr

end Kskm.Km
