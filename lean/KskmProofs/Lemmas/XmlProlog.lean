/-
  What may precede the KSR element (C12: "anything preceding the KSR element is ignored").

  `parse_ksr` starts reading at the FIRST occurrence of the four characters `<KSR` in the file
  (`xml.index("<KSR")`).  `C12_reader_ksr` (KskmProofs/C12.lean) therefore assumes that this first occurrence
  is the root element.  Here that semantic condition is derived from a GRAMMAR of prologs:

      prolog  ::=  item*
      item    ::=  white space (any `<`-free text: blanks, line breaks, a byte-order mark)
                |  `<?` body `?>`          XML declaration, processing instructions
                |  `<!--` body `-->`       comments
                |  `<!DOCTYPE` body `>`    document type declaration
      body    ::=  any text in which the four characters `<KSR` do not occur

  `skip_prolog`: scanning for `<KSR` passes over every such prolog, whatever follows;
  `index_after_prolog`: so the first `<KSR` of `prolog ++ root ++ trail` is the root when the root's text
  starts with `<KSR`.  The restriction on `body` is necessary: `ksr_in_comment_counterexample` in
  KskmProofs/C12.lean is a comment that does contain `<KSR`, on which the reader starts inside the comment.
-/
import KskmProofs.Lemmas.XmlReaderW
namespace Kskm.Xml

theorem kKSRopen_eq : kKSRopen = ['<', 'K', 'S', 'R'] := by decide

/-- the four characters `<KSR` do not occur in `s` -/
def NoKsr (s : List Char) : Prop := ¬ kKSRopen <:+: s

/-- one item of a prolog -/
inductive PrologItem where
  /-- `<`-free text between the items: white space, a byte-order mark -/
  | space (s : List Char)
  /-- `<?body?>`: the XML declaration, processing instructions -/
  | pi (body : List Char)
  /-- `<!--body-->` -/
  | comment (body : List Char)
  /-- `<!DOCTYPEbody>` -/
  | doctype (body : List Char)

def PrologItem.render : PrologItem → List Char
  | .space s => s
  | .pi b => ['<', '?'] ++ b ++ ['?', '>']
  | .comment b => ['<', '!', '-', '-'] ++ b ++ ['-', '-', '>']
  | .doctype b => ['<', '!', 'D', 'O', 'C', 'T', 'Y', 'P', 'E'] ++ b ++ ['>']

/-- the grammar's side conditions -/
def PrologItem.Ok : PrologItem → Prop
  | .space s => '<' ∉ s
  | .pi b => NoKsr b
  | .comment b => NoKsr b
  | .doctype b => NoKsr b

def renderProlog : List PrologItem → List Char
  | [] => []
  | it :: r => it.render ++ renderProlog r

/-- an occurrence of `<KSR` at the start of `u ++ c :: v` lies within `u`, or `c` is one of its characters -/
theorem ksr_prefix_split (u v : List Char) (c : Char) (h : kKSRopen <+: u ++ c :: v) :
    kKSRopen <+: u ∨ c = '<' ∨ c = 'K' ∨ c = 'S' ∨ c = 'R' := by
  rw [kKSRopen_eq] at h ⊢
  match u, h with
  | [], h =>
    simp only [List.nil_append, List.cons_prefix_cons] at h
    exact Or.inr (Or.inl h.1.symm)
  | [_], h =>
    simp only [List.cons_append, List.nil_append, List.cons_prefix_cons] at h
    exact Or.inr (Or.inr (Or.inl h.2.1.symm))
  | [_, _], h =>
    simp only [List.cons_append, List.nil_append, List.cons_prefix_cons] at h
    exact Or.inr (Or.inr (Or.inr (Or.inl h.2.2.1.symm)))
  | [_, _, _], h =>
    simp only [List.cons_append, List.nil_append, List.cons_prefix_cons] at h
    exact Or.inr (Or.inr (Or.inr (Or.inr h.2.2.2.1.symm)))
  | a :: b :: d :: e :: r, h =>
    simp only [List.cons_append, List.cons_prefix_cons] at h
    left
    obtain ⟨h1, h2, h3, h4, _⟩ := h
    subst h1 h2 h3 h4
    simp [List.cons_prefix_cons]

theorem NoKsr.tail {x : Char} {r : List Char} (h : NoKsr (x :: r)) : NoKsr r :=
  fun hc => h (hc.trans (List.suffix_cons x r).isInfix)

/-- a `<KSR`-free body followed by a closing delimiter that starts with none of `<`, `K`, `S`, `R` and
    contains no `<` is passed over -/
theorem skip_body (close : List Char) (c : Char) (cl : List Char) (hclose : close = c :: cl) (hlt : '<' ∉ close)
    (hc : c ≠ '<' ∧ c ≠ 'K' ∧ c ≠ 'S' ∧ c ≠ 'R') : ∀ (body : List Char), NoKsr body → Skip kKSRopen (body ++ close) := by
  intro body
  induction body with
  | nil =>
    intro _
    rw [kKSRopen_eq]
    simpa using skip_of_no_lt ['K', 'S', 'R'] close hlt
  | cons x r ih =>
    intro hno tail i
    have hpre : kKSRopen.isPrefixOf (x :: (r ++ close ++ tail)) = false := by
      cases hb : kKSRopen.isPrefixOf (x :: (r ++ close ++ tail)) with
      | false => rfl
      | true =>
        exfalso
        have hp : kKSRopen <+: (x :: r) ++ c :: (cl ++ tail) := by
          have := List.isPrefixOf_iff_prefix.mp hb
          simpa [hclose, List.append_assoc] using this
        rcases ksr_prefix_split _ _ _ hp with h | h | h | h | h
        · exact hno h.isInfix
        · exact hc.1 h
        · exact hc.2.1 h
        · exact hc.2.2.1 h
        · exact hc.2.2.2 h
    have hne : kKSRopen = '<' :: ['K', 'S', 'R'] := kKSRopen_eq
    have := ih hno.tail tail (i + 1)
    simp only [List.cons_append, List.append_assoc] at hpre this ⊢
    rw [hne] at hpre this ⊢
    simp only [findAux, hpre, Bool.false_eq_true, ↓reduceIte, this, List.length_cons, List.length_append]
    congr 1
    omega

/-- an opening delimiter `<x…` whose second character is not `K` is passed over -/
theorem skip_open (x : Char) (rest : List Char) (hx : x ≠ 'K') (hlt : '<' ∉ x :: rest) :
    Skip kKSRopen ('<' :: x :: rest) := by
  rw [kKSRopen_eq]
  apply skip_tag _ _ hlt
  intro tail h
  simp only [List.cons_append, List.cons_prefix_cons] at h
  exact hx h.2.1.symm

theorem skip_item : ∀ (it : PrologItem), it.Ok → Skip kKSRopen it.render
  | .space s, h => by
    rw [kKSRopen_eq]
    exact skip_of_no_lt _ s h
  | .pi b, h => by
    have h1 := skip_open '?' [] (by decide) (by decide)
    have h2 := skip_body ['?', '>'] '?' ['>'] rfl (by decide) (by decide) b h
    have := h1.append h2
    simpa [PrologItem.render, List.append_assoc] using this
  | .comment b, h => by
    have h1 := skip_open '!' ['-', '-'] (by decide) (by decide)
    have h2 := skip_body ['-', '-', '>'] '-' ['-', '>'] rfl (by decide) (by decide) b h
    have := h1.append h2
    simpa [PrologItem.render, List.append_assoc] using this
  | .doctype b, h => by
    have h1 := skip_open '!' ['D', 'O', 'C', 'T', 'Y', 'P', 'E'] (by decide) (by decide)
    have h2 := skip_body ['>'] '>' [] rfl (by decide) (by decide) b h
    have := h1.append h2
    simpa [PrologItem.render, List.append_assoc] using this

/-- **scanning for `<KSR` passes over every prolog of the grammar**, whatever follows it -/
theorem skip_prolog : ∀ (items : List PrologItem), (∀ it ∈ items, it.Ok) → Skip kKSRopen (renderProlog items)
  | [], _ => Skip.nil _
  | it :: r, h => by
    rw [renderProlog]
    exact (skip_item it (h it (by simp))).append (skip_prolog r (fun x hx => h x (List.mem_cons_of_mem _ hx)))

/-- … so the first `<KSR` of the file is the beginning of what follows the prolog, when that begins
    with `<KSR` -/
theorem index_after_skip (p x trail : List Char) (hp : Skip kKSRopen p) (hx : kKSRopen <+: x) :
    indexFrom kKSRopen (p ++ x ++ trail) 0 = some p.length := by
  obtain ⟨y, rfl⟩ := hx
  rw [indexFrom_zero, List.append_assoc, hp, List.append_assoc]
  simpa using findAux_hit kKSRopen (y ++ trail) (0 + p.length) (by rw [kKSRopen_eq]; simp)

/-- the text of an element named `KSR` starts with `<KSR` -/
theorem ksr_prefix_renderW (w : WTree) (hn : w.name = ['K', 'S', 'R']) : kKSRopen <+: renderW w := by
  rw [kKSRopen_eq]
  cases w with
  | leaf n a gap text =>
    simp only [WTree.name] at hn
    subst hn
    exact ⟨wattrsText a ++ gap ++ ['>'] ++ text ++ endTag ['K', 'S', 'R'], by simp [renderW, wstartTag, wstartBody, List.append_assoc]⟩
  | empty n a gap =>
    simp only [WTree.name] at hn
    subst hn
    exact ⟨wattrsText a ++ gap ++ ['/', '>'], by simp [renderW, wselfTag, wselfBody, List.append_assoc]⟩
  | node n a gap pre first rest post =>
    simp only [WTree.name] at hn
    subst hn
    exact ⟨wattrsText a ++ gap ++ ['>'] ++ pre ++ renderW first ++ renderWF rest ++ post ++ endTag ['K', 'S', 'R'],
      by simp [renderW, wstartTag, wstartBody, List.append_assoc]⟩

end Kskm.Xml
