/-
  The composition of C11 with C12: the repository's reader on the repository writer's text.

    1. `renderDoc (treeOf r)` = XML declaration ++ "\n" ++ `renderT (toP [] (treeOf r))` ++ "\n"   (SkrLayout)
    2. `toP [] (treeOf r)` is PlainXml, five levels deep                                            (SkrPlain, SkrTree)
    3. hence, by `C12_reader_ksr`, `parseKsr` returns the dict of its standard reading               (here)
    4. on which the glue yields `readBackWith gs r`                                                 (SkrGlue, SkrGlueDoc)

  and what `readBackWith` changes (`readBack_same`, `readBack_eq_self`).
-/
import KskmProofs.Lemmas.SkrGlueDoc
namespace Kskm.ReadBack
open Kskm Kskm.Xml Kskm.C12

/-! ### `parse_ksr` finds the root element behind the XML declaration -/

theorem skip_prolog : Skip kKSRopen (xmlDecl ++ ['\n']) := by
  have h1 : Skip kKSRopen xmlDecl := by
    have hb : '<' ∉ "?xml version=\"1.0\" encoding=\"UTF-8\"?>".toList := by decide
    have := skip_tag "KSR".toList "?xml version=\"1.0\" encoding=\"UTF-8\"?>".toList hb (by
      intro tail h
      obtain ⟨t, ht⟩ := h
      simp at ht)
    have e1 : kKSRopen = '<' :: "KSR".toList := by decide
    have e2 : xmlDecl = '<' :: "?xml version=\"1.0\" encoding=\"UTF-8\"?>".toList := by decide
    rw [e1, e2]
    exact this
  have h2 : Skip kKSRopen ['\n'] := by
    have e1 : kKSRopen = '<' :: "KSR".toList := by decide
    rw [e1]
    exact skip_of_no_lt _ _ (by decide)
  exact Skip.append h1 h2

theorem renderT_root (pre : List Char) (a : List (String × String)) (c : XTree) (cs : List XTree) :
    ∃ rest, renderT (toP pre (.node "KSR" a (c :: cs))) = kKSRopen ++ rest := by
  refine ⟨attrsText (attrsP a) ++ [] ++ ['>'] ++ ('\n' :: (pre ++ sp4)) ++ renderT (toP (pre ++ sp4) c)
    ++ renderF (toPF (pre ++ sp4) cs) ++ ('\n' :: pre) ++ endTag "KSR".toList, ?_⟩
  have e1 : kKSRopen = '<' :: "KSR".toList := by decide
  rw [e1]
  simp [toP, renderT, startTag, startBody, List.append_assoc]

/-- the first `<KSR` of the writer's text is the root element -/
theorem first_ksr (r : Response) (trail : List Char) :
    indexFrom kKSRopen ((xmlDecl ++ ['\n']) ++ renderT (toP [] (treeOf r)) ++ trail) 0
      = some (xmlDecl ++ ['\n']).length := by
  obtain ⟨rest, hr⟩ := renderT_root [] [("id", r.id), ("domain", r.domain), ("serial", str (pyIntStr r.serial))]
    (.node "Response" [] (.node "ResponsePolicy" [] [policyTree "KSK" r.kskPolicy, policyTree "ZSK" r.zskPolicy]
        :: r.bundles.map bundleTree)) []
  have ht : treeOf r = .node "KSR" [("id", r.id), ("domain", r.domain), ("serial", str (pyIntStr r.serial))]
      [.node "Response" [] (.node "ResponsePolicy" [] [policyTree "KSK" r.kskPolicy, policyTree "ZSK" r.zskPolicy]
        :: r.bundles.map bundleTree)] := rfl
  rw [indexFrom_zero, ht, hr, List.append_assoc, skip_prolog, List.append_assoc, findAux_hit _ _ _ (by decide)]
  simp

/-- **Step 3: the reader on the writer's text.**  For every response whose strings are `TextSafe`, and
    either behaviour of the attribute loop, `parse_ksr` applied to the text `skr_to_xml` writes returns
    the dict of the standard reading of that text (C12's reader theorem at the writer's layout). -/
theorem parseKsr_renderDoc (sw : Switches) (r : Response) (h : TextSafe r) :
    parseKsr pyClasses sw (renderDoc (treeOf r)) = .ok [("KSR".toList, rootVal r)] := by
  rw [renderDoc_eq_renderT, ← dictOf_treeOf]
  exact C12_reader_ksr pyClasses pyClasses_sane sw (toP [] (treeOf r))
    (plainT_toP _ _ Blank.nil (treeOf_plain r h))
    (Nat.le_trans (heightT_toP _ _) (heightX_treeOf r)) (xmlDecl ++ ['\n']) ['\n']
    (by intro c hc; simp only [List.mem_singleton] at hc; subst hc; exact strip_blank.2)
    (first_ksr r ['\n'])

/-- **Step 4: through the glue.** -/
theorem responseFromXmlL_renderDoc (sw : Switches) (gs : GlueSwitches) (r : Response) (h : WriterDomain r)
    (hc : constructible r = true) (hsw : gs.wrapsSingleResponseBundle = true ∨ 2 ≤ r.bundles.length) :
    responseFromXmlL pyClasses sw gs (renderDoc (treeOf r)) = .done (.ok (readBackWith gs r)) := by
  unfold responseFromXmlL fromXmlWith
  rw [parseKsr_renderDoc sw r (textSafe_of_domain r h)]
  simp only
  rw [responseFromDict_root gs r h hc hsw]

/-- F12 on the writer's text: with the pinned glue a one-bundle SKR does not load -/
theorem responseFromXmlL_renderDoc_pinned (sw : Switches) (gs : GlueSwitches)
    (hgs : gs.wrapsSingleResponseBundle = false) (r : Response) (h : TextSafe r) (b : Bundle) (hb : r.bundles = [b]) :
    responseFromXmlL pyClasses sw gs (renderDoc (treeOf r)) = .done (err .type) := by
  unfold responseFromXmlL fromXmlWith
  rw [parseKsr_renderDoc sw r h]
  simp only
  rw [responseFromDict_root_pinned gs hgs r b hb]

/-! ### what the reader changes -/

theorem mem_dedup {α} [DecidableEq α] (x : α) : ∀ (l : List α), x ∈ dedup l ↔ x ∈ l
  | [] => by simp [dedup]
  | a :: t => by
    by_cases hx : x = a
    · subst hx; simp [dedup]
    · simp [dedup, mem_dedup x t, hx]

theorem dedup_eq_self {α} [DecidableEq α] : ∀ (l : List α), l.Nodup → dedup l = l
  | [], _ => rfl
  | a :: t, h => by
    rw [List.nodup_cons] at h
    rw [dedup, dedup_eq_self t h.2, List.filter_eq_self.mpr]
    intro x hx
    simp only [ne_eq, decide_not, Bool.not_eq_eq_eq_not, Bool.not_true, decide_eq_false_iff_not]
    intro e; subst e; exact h.1 hx

theorem nodup_dedup {α} [DecidableEq α] : ∀ (l : List α), (dedup l).Nodup
  | [] => by simp [dedup]
  | a :: t => by
    rw [dedup, List.nodup_cons]
    refine ⟨by simp, (nodup_dedup t).sublist (List.filter_sublist)⟩

theorem pairwise_of_adjacent {α} (R : α → α → Prop) (htr : ∀ a b c, R a b → R b c → R a c) :
    ∀ (l : List α), (∀ p ∈ adjacent l, R p.1 p.2) → l.Pairwise R
  | [], _ => List.Pairwise.nil
  | [a], _ => by simp
  | a :: b :: r, h => by
    have hab : R a b := h (a, b) (by simp [adjacent])
    have ih := pairwise_of_adjacent R htr (b :: r) (fun p hp => h p (by simp [adjacent, hp]))
    refine List.pairwise_cons.mpr ⟨?_, ih⟩
    intro x hx
    rcases List.mem_cons.mp hx with rfl | hx'
    · exact hab
    · exact htr _ _ _ hab ((List.pairwise_cons.mp ih).1 x hx')

theorem loaderKeyLe_eq (a b : Bundle) : loaderKeyLe a b = bundleKeyLe a b := by
  unfold loaderKeyLe bundleKeyLe
  congr 3
  rw [Bool.eq_iff_iff]
  simp [String.not_lt]

/-- bundles that already stand in the loader's order stay where they are — whichever way the switch is -/
theorem readBack_bundles (gs : GlueSwitches) (r : Response) (hs : bundlesSorted r.bundles = true) :
    (readBackWith gs r).bundles = r.bundles.map readBackBundle := by
  simp only [readBackWith]
  split
  · unfold sortByKey
    apply List.mergeSort_of_pairwise
    rw [List.pairwise_map]
    have : r.bundles.Pairwise (fun a b => bundleKeyLe a b = true) := by
      apply pairwise_of_adjacent _ bundleKeyLe_trans
      intro p hp
      simp only [bundlesSorted, List.all_eq_true] at hs
      rw [← loaderKeyLe_eq]
      exact hs p hp
    exact this.imp (fun {a b} hab => hab)
  · rfl

/-- two responses that are the same Python object up to the representation of `set` fields as lists
    (order and multiplicity of keys, signatures, algorithms) -/
structure SameResponse (a b : Response) : Prop where
  id : a.id = b.id
  serial : a.serial = b.serial
  domain : a.domain = b.domain
  timestamp : a.timestamp = b.timestamp
  zsk : { a.zskPolicy with algorithms := [] } = { b.zskPolicy with algorithms := [] } ∧
    ∀ x, x ∈ a.zskPolicy.algorithms ↔ x ∈ b.zskPolicy.algorithms
  ksk : { a.kskPolicy with algorithms := [] } = { b.kskPolicy with algorithms := [] } ∧
    ∀ x, x ∈ a.kskPolicy.algorithms ↔ x ∈ b.kskPolicy.algorithms
  length : a.bundles.length = b.bundles.length
  bundles : ∀ (i : Nat) (x y : Bundle), a.bundles[i]? = some x → b.bundles[i]? = some y →
    x.id = y.id ∧ x.inception = y.inception ∧ x.expiration = y.expiration ∧ x.signers = y.signers ∧
      (∀ k, k ∈ x.keys ↔ k ∈ y.keys) ∧ (∀ s, s ∈ x.signatures ↔ s ∈ y.signatures)

/-- on the writer's domain the reader's response is the written one, as Python objects -/
theorem readBack_same (gs : GlueSwitches) (r : Response) (h : WriterDomain r) :
    SameResponse (readBackWith gs r) r := by
  have hp := domain_parts r h
  have hb := readBack_bundles gs r hp.sorted
  refine ⟨rfl, rfl, rfl, hp.ts.symm, ⟨rfl, fun x => mem_dedup x _⟩, ⟨rfl, fun x => mem_dedup x _⟩, ?_, ?_⟩
  · rw [hb]; simp
  · intro i x y hx hy
    rw [hb, List.getElem?_map, hy] at hx
    simp only [Option.map_some, Option.some.injEq] at hx
    subst hx
    have hsn := (bundleOk_parts y (hp.bundles y (List.mem_of_getElem? hy))).signers
    refine ⟨rfl, rfl, rfl, hsn.symm, fun k => ?_, fun s => mem_dedup s _⟩
    simp only [readBackBundle]
    rw [mem_dedup, mem_sortKeys]

/-- the list representation the reader produces: duplicate-free, keys ascending by key tag -/
def Canonical (r : Response) : Prop :=
  r.kskPolicy.algorithms.Nodup ∧ r.zskPolicy.algorithms.Nodup ∧
    ∀ b ∈ r.bundles, b.keys.Nodup ∧ b.signatures.Nodup ∧ b.keys.Pairwise (fun x y => x.keyTag ≤ y.keyTag)

theorem sortKeys_eq_self (l : List Key) (h : l.Pairwise (fun x y => x.keyTag ≤ y.keyTag)) : sortKeys l = l := by
  unfold sortKeys
  apply List.mergeSort_of_pairwise
  exact h.imp (fun {a b} hab => by simpa using hab)

/-- … and when the written response is already in that representation, it comes back IDENTICAL -/
theorem readBack_eq_self (gs : GlueSwitches) (r : Response) (h : WriterDomain r) (hc : Canonical r) :
    readBackWith gs r = r := by
  have hp := domain_parts r h
  have hb := readBack_bundles gs r hp.sorted
  have hb' : r.bundles.map readBackBundle = r.bundles := by
    have : r.bundles.map readBackBundle = r.bundles.map id := by
      apply List.map_congr_left
      intro b hb
      obtain ⟨h1, h2, h3⟩ := hc.2.2 b hb
      have hsn := (bundleOk_parts b (hp.bundles b hb)).signers
      simp only [readBackBundle, sortKeys_eq_self _ h3, dedup_eq_self _ h1, dedup_eq_self _ h2, id]
      cases b
      simp_all
    rw [this, List.map_id]
  have hbs := hb.trans hb'
  have hts := hp.ts
  have hk : readBackPolicy r.kskPolicy = r.kskPolicy := by simp [readBackPolicy, dedup_eq_self _ hc.1]
  have hz : readBackPolicy r.zskPolicy = r.zskPolicy := by simp [readBackPolicy, dedup_eq_self _ hc.2.1]
  cases r
  simp only [readBackWith] at hbs ⊢
  simp_all

/-- the reader's result is in canonical representation (so reading is idempotent on it) -/
theorem readBack_canonical_sets (gs : GlueSwitches) (r : Response) :
    (readBackWith gs r).kskPolicy.algorithms.Nodup ∧ (readBackWith gs r).zskPolicy.algorithms.Nodup :=
  ⟨nodup_dedup _, nodup_dedup _⟩

end Kskm.ReadBack
