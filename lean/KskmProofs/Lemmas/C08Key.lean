/-
  Helper lemmas for C08: when deriving a DNSKEY from the token's public key text can fail
  (`public_key_to_dnssec_key`), and one iteration of the loop of `check_last_skr_key_present`.
-/
import Kskm.Chain
import KskmProofs.Lemmas.Res
namespace Kskm

/-- `public_key_to_dnssec_key` copies the key text and the identifier it is given -/
theorem publicKeyToDnssecKey_fields {pk id : String} {alg : Nat} {ttl flags : Int} {k : Key}
    (h : publicKeyToDnssecKey pk id alg ttl flags = .ok k) :
    k.publicKey = pk ∧ k.keyIdentifier = id ∧ k.algorithm = alg ∧ k.ttl = ttl ∧ k.flags = flags := by
  unfold publicKeyToDnssecKey at h
  simp only [bind, Except.bind] at h
  split at h
  · simp at h
  · split at h
    · simp at h
    · simp only [pure, Except.pure, Except.ok.injEq] at h
      subst h
      simp

theorem isAlgorithmEcdsa_iff (a : Nat) : isAlgorithmEcdsa a = true ↔ (a = 13 ∨ a = 14) := by
  simp [isAlgorithmEcdsa, algECDSAP256, algECDSAP384]

/-- the ECDSA point-size validator of `Key`, on the decoded octets -/
def ecValidate (b : Bytes) (alg : Nat) : Res Unit := do
  let p ← ecdsaWithoutPrefix b alg
  let want ← expectedEcdsaKeySize alg
  if getEcdsaPubkeySize p != want then err .validation

/-- An EC point the validator accepts: x‖y of the curve's size (half the octets = 256 resp. 384
    bits), bare or behind one SEC 1 `0x04` octet. -/
def EcPointOk (alg : Nat) (b : Bytes) : Prop :=
  ∃ want : Nat, ((alg = 13 ∧ want = 256) ∨ (alg = 14 ∧ want = 384)) ∧
    (b.length * 8 / 2 = want ∨ ∃ r, b = 4 :: r ∧ r.length * 8 / 2 = want)

theorem ecValidate_iff (b : Bytes) (alg : Nat) (he : alg = 13 ∨ alg = 14) :
    ecValidate b alg = .ok () ↔ EcPointOk alg b := by
  unfold ecValidate EcPointOk ecdsaWithoutPrefix expectedEcdsaKeySize getEcdsaPubkeySize
  rcases he with rfl | rfl
  · simp only [algECDSAP256, algECDSAP384, bind, Except.bind, pure, Except.pure]
    cases b with
    | nil => simp [err]
    | cons x r =>
      by_cases h1 : (r.length + 1) * 8 / 2 = 256
      · simp [h1]
      · by_cases hx : x = 4
        · subst hx
          by_cases h2 : r.length * 8 / 2 = 256
          · simp [h1, h2]
          · simp [h1, h2, err]
        · simp [h1, hx, err]
  · simp only [algECDSAP256, algECDSAP384, bind, Except.bind, pure, Except.pure]
    cases b with
    | nil => simp [err]
    | cons x r =>
      by_cases h1 : (r.length + 1) * 8 / 2 = 384
      · simp [h1]
      · by_cases hx : x = 4
        · subst hx
          by_cases h2 : r.length * 8 / 2 = 384
          · simp [h1, h2]
          · simp [h1, h2, err]
        · simp [h1, hx, err]

/-- **Exactly when a DNSKEY can be derived from a token key text** (flags 257, protocol 3): the
    algorithm number fits its octet, the text is base64 the model decodes, and for the two ECDSA
    algorithms the point has the curve's size. -/
def Derivable (pk : String) (alg : Nat) : Prop :=
  alg < 256 ∧ ∃ b, Base64.decode pk = some b ∧ ((alg = 13 ∨ alg = 14) → EcPointOk alg b)

theorem publicKeyToDnssecKey_ok_iff (pk id : String) (alg : Nat) (ttl : Int) :
    (∃ k, publicKeyToDnssecKey pk id alg ttl 257 = .ok k) ↔ Derivable pk alg := by
  unfold publicKeyToDnssecKey Key.validate calculateKeyTag keyToRdata Derivable
  simp only [bind, Except.bind, pure, Except.pure]
  cases hd : Base64.decode pk with
  | none =>
    by_cases he : isAlgorithmEcdsa alg = true
    · simp [he, unsupported]
    · by_cases ha : alg < 256
      · simp [he, ha, unsupported, inRange]
      · simp [he, ha, inRange, err]
  | some b =>
    by_cases ha : alg < 256
    · by_cases he : isAlgorithmEcdsa alg = true
      · have he' := (isAlgorithmEcdsa_iff alg).mp he
        have := ecValidate_iff b alg he'
        unfold ecValidate at this
        simp only [bind, Except.bind, pure, Except.pure] at this
        cases h1 : ecdsaWithoutPrefix b alg with
        | error e => simp [h1] at this; simp [h1, he, this, he']
        | ok p =>
          cases h2 : expectedEcdsaKeySize alg with
          | error e => simp [h1, h2] at this; simp [h1, he, this, he']
          | ok w =>
            by_cases h3 : (getEcdsaPubkeySize p != w) = true
            · simp [h1, h2, h3, err] at this; simp [h1, h3, he, this, he', err]
            · simp [h1, h2, h3] at this; simp [h1, h3, he, this, he', ha, inRange]
      · have he' : ¬ (alg = 13 ∨ alg = 14) := fun h => he ((isAlgorithmEcdsa_iff alg).mpr h)
        simp [he, ha, inRange, he']
    · by_cases he : isAlgorithmEcdsa alg = true
      · have he' := (isAlgorithmEcdsa_iff alg).mp he
        omega
      · simp [he, ha, inRange, err]

/-! ### one iteration of `check_last_skr_key_present` -/

/-- the body of the `for sig in last_bundle.signatures` loop -/
def keyPresentStep (lookup : TokenLookup) (lb : Bundle) (sig : Signature) : Res Unit := do
  match ← lookup sig.keyIdentifier with
  | none => violation .chainKeys
  | some none => violation .chainKeys
  | some (some pk) =>
    if pk.isEmpty then violation .chainKeys else do
    let hsmkey ← publicKeyToDnssecKey pk sig.keyIdentifier sig.algorithm sig.ttl 257
    match lb.keys.find? (fun k => k.keyIdentifier = sig.keyIdentifier) with
    | none => err .index
    | some key => if key.publicKey != hsmkey.publicKey then violation .chainKeys else pure ()

/-- what one iteration establishes when it passes: a public object under the signature's label with
    a non-empty key text from which a DNSKEY derives, and the (first-listed) published key with that
    identifier carries the same text -/
def StepPasses (lookup : TokenLookup) (lb : Bundle) (sig : Signature) : Prop :=
  ∃ pk, lookup sig.keyIdentifier = .ok (some (some pk)) ∧ pk ≠ "" ∧
    (∃ hk, publicKeyToDnssecKey pk sig.keyIdentifier sig.algorithm sig.ttl 257 = .ok hk) ∧
    ∃ key, lb.keys.find? (fun k => k.keyIdentifier = sig.keyIdentifier) = some key ∧ key.publicKey = pk

theorem keyPresentStep_ok_iff (lookup : TokenLookup) (lb : Bundle) (sig : Signature) :
    keyPresentStep lookup lb sig = .ok () ↔ StepPasses lookup lb sig := by
  unfold keyPresentStep StepPasses
  simp only [bind, Except.bind]
  cases hlk : lookup sig.keyIdentifier with
  | error e => simp
  | ok r =>
    match r, hlk with
    | none, hlk => simp
    | some none, hlk => simp
    | some (some pk), hlk =>
      simp only [Except.ok.injEq, Option.some.injEq, exists_eq_left']
      by_cases hem : pk.isEmpty = true
      · have : pk = "" := String.isEmpty_iff.mp hem
        simp [this]
      · have hne : pk ≠ "" := fun h0 => hem (by simp [h0])
        simp only [hem, Bool.false_eq_true, ↓reduceIte, ne_eq, hne, not_false_eq_true, true_and]
        cases hd : publicKeyToDnssecKey pk sig.keyIdentifier sig.algorithm sig.ttl 257 with
        | error e => simp
        | ok hk =>
          have hpk := (publicKeyToDnssecKey_fields hd).1
          cases hfind : lb.keys.find? (fun k => k.keyIdentifier = sig.keyIdentifier) with
          | none => simp
          | some key =>
            by_cases hne' : key.publicKey = pk
            · simp [hne', hpk]
            · simp [hne', hpk]

end Kskm
