/-
  Attribute order (C12): Python's `==` on what the reader returns, and the standard reading up to it.

  The reader returns `dict`s; a Python dict remembers insertion order but compares WITHOUT it.  `dictOf`
  (KskmProofs/Lemmas/XmlRender.lean) lists the attributes of an element in document order, so two documents
  that differ only in the order of attributes have different `dictOf` LISTS that are equal as Python
  values.  `DictEq` is that equality on `XVal`:

      str   by content,      list   element by element, in order,
      dict  key by key: the same keys are present, and under each key the values are `DictEq`
            (`List.lookup` is `d[k]`; the reader's dicts have unique keys, so nothing is shadowed).

  It is an equivalence relation (`DictEq.refl / symm / trans`).

  `AttrPermT t t'`: `t'` is `t` with the attributes of every element permuted (and any insignificant white
  space changed).  `valT_attrPerm` / `dictOf_attrPerm`: when attribute names are distinct within each
  element (XML: "Unique Att Spec"), the standard readings are `DictEq`.  Written about the specification
  side only; KskmProofs/C12.lean composes it with the reader theorem, KskmProofs/Lemmas/XmlGlueEq.lean
  shows that the glue cannot tell `DictEq` values apart.
-/
import KskmProofs.Lemmas.XmlStore
import KskmProofs.Lemmas.XmlRender
namespace Kskm.Xml

mutual
/-- Python's `==` on the reader's values -/
inductive DictEq : XVal → XVal → Prop
  | str (s : List Char) : DictEq (.str s) (.str s)
  | list {l l' : List XVal} : ListEq l l' → DictEq (.list l) (.list l')
  | dict {d d' : Dict} : (∀ k, d.lookup k = none ↔ d'.lookup k = none) →
      (∀ k v v', d.lookup k = some v → d'.lookup k = some v' → DictEq v v') → DictEq (.dict d) (.dict d')
inductive ListEq : List XVal → List XVal → Prop
  | nil : ListEq [] []
  | cons {v v' : XVal} {l l' : List XVal} : DictEq v v' → ListEq l l' → ListEq (v :: l) (v' :: l')
end

/-- two dicts with the same keys and `DictEq` values under each key (the body of `DictEq.dict`) -/
def DictRel (d d' : Dict) : Prop :=
  (∀ k, d.lookup k = none ↔ d'.lookup k = none) ∧
  (∀ k v v', d.lookup k = some v → d'.lookup k = some v' → DictEq v v')

theorem DictEq.of_rel {d d' : Dict} (h : DictRel d d') : DictEq (.dict d) (.dict d') := .dict h.1 h.2

theorem DictEq.rel {d d' : Dict} (h : DictEq (.dict d) (.dict d')) : DictRel d d' := by
  cases h with
  | dict h1 h2 => exact ⟨h1, h2⟩

/-! ### an equivalence relation -/

mutual
theorem DictEq.refl : ∀ (v : XVal), DictEq v v
  | .str s => .str s
  | .list l => .list (ListEq.refl l)
  | .dict d => .dict (fun _ => Iff.rfl) (fun k v v' hv hv' => by
      rw [hv] at hv'
      cases hv'
      exact entries_refl d k v hv)
theorem ListEq.refl : ∀ (l : List XVal), ListEq l l
  | [] => .nil
  | v :: l => .cons (DictEq.refl v) (ListEq.refl l)
theorem entries_refl : ∀ (d : List (List Char × XVal)) (k : List Char) (v : XVal), d.lookup k = some v → DictEq v v
  | [], _, _, h => by simp [List.lookup] at h
  | (k0, v0) :: r, k, v, h => by
    rw [List.lookup_cons] at h
    cases hb : (k == k0) with
    | true =>
      rw [hb] at h
      simp only [Option.some.injEq] at h
      rw [← h]
      exact DictEq.refl v0
    | false =>
      rw [hb] at h
      exact entries_refl r k v h
end

mutual
theorem DictEq.symm : ∀ {a b : XVal}, DictEq a b → DictEq b a
  | _, _, .str s => .str s
  | _, _, .list h => .list (ListEq.symm h)
  | _, _, .dict h1 h2 => .dict (fun k => (h1 k).symm) (fun k v v' hv hv' => DictEq.symm (h2 k v' v hv' hv))
theorem ListEq.symm : ∀ {a b : List XVal}, ListEq a b → ListEq b a
  | _, _, .nil => .nil
  | _, _, .cons h t => .cons (DictEq.symm h) (ListEq.symm t)
end

mutual
theorem DictEq.trans : ∀ {a b c : XVal}, DictEq a b → DictEq b c → DictEq a c
  | _, _, _, .str _, h => h
  | _, _, _, .list h, .list h' => .list (ListEq.trans h h')
  | _, _, _, .dict (d' := d') h1 h2, .dict h1' h2' =>
    .dict (fun k => (h1 k).trans (h1' k)) (fun k v v'' hv hv'' => by
      cases hm : d'.lookup k with
      | none => rw [(h1 k).mpr hm] at hv; cases hv
      | some v' => exact DictEq.trans (h2 k v v' hv hm) (h2' k v' v'' hm hv''))
theorem ListEq.trans : ∀ {a b c : List XVal}, ListEq a b → ListEq b c → ListEq a c
  | _, _, _, .nil, h => h
  | _, _, _, .cons h t, .cons h' t' => .cons (DictEq.trans h h') (ListEq.trans t t')
end

theorem DictRel.refl (d : Dict) : DictRel d d := (DictEq.refl (.dict d)).rel

theorem ListEq.append : ∀ {a a' b b' : List XVal}, ListEq a a' → ListEq b b' → ListEq (a ++ b) (a' ++ b')
  | _, _, _, _, .nil, h => h
  | _, _, _, _, .cons h t, h' => .cons h (ListEq.append t h')

/-- `DictEq` values are of the same Python type -/
theorem DictEq.isList {a b : XVal} (h : DictEq a b) : a.isList = b.isList := by
  cases h <;> rfl

/-! ### lookups in permuted association lists with distinct keys -/

theorem lookup_perm {β} {a a' : List (List Char × β)} (hp : a.Perm a') (hn : (a.map (·.1)).Nodup) (k : List Char) :
    a.lookup k = a'.lookup k := by
  induction hp with
  | nil => rfl
  | cons x _ ih =>
    obtain ⟨xk, xv⟩ := x
    simp only [List.map_cons, List.nodup_cons] at hn
    simp only [List.lookup_cons]
    cases (k == xk) with
    | true => rfl
    | false => exact ih hn.2
  | swap x y l =>
    obtain ⟨xk, xv⟩ := x
    obtain ⟨yk, yv⟩ := y
    simp only [List.map_cons, List.nodup_cons, List.mem_cons, not_or] at hn
    simp only [List.lookup_cons]
    cases hx : (k == xk) with
    | false => rfl
    | true =>
      cases hy : (k == yk) with
      | false => rfl
      | true =>
        exfalso
        have h1 : k = xk := by simpa using hx
        have h2 : k = yk := by simpa using hy
        exact hn.1.1 (h2.symm.trans h1)
  | trans h1 _ ih1 ih2 =>
    rw [ih1 hn]
    exact ih2 ((h1.map (·.1)).nodup_iff.mp hn)

/-- attributes with distinct names: the dict the attribute loop builds is the attribute list itself -/
theorem foldl_dictSet_nodup : ∀ (a acc : Attrs), (∀ p ∈ a, ∀ q ∈ acc, q.1 ≠ p.1) → (a.map (·.1)).Nodup →
    a.foldl (fun acc p => dictSet acc p.1 p.2) acc = acc ++ a := by
  intro a
  induction a with
  | nil => intro acc _ _; simp
  | cons p r ih =>
    intro acc hd hn
    simp only [List.map_cons, List.nodup_cons] at hn
    have hset : dictSet acc p.1 p.2 = acc ++ [(p.1, p.2)] := by
      unfold dictSet
      have : acc.any (fun q => decide (q.1 = p.1)) = false := by
        rw [List.any_eq_false]
        intro q hq
        simpa using hd p (by simp) q hq
      simp [this]
    rw [List.foldl_cons, hset, ih]
    · simp
    · intro p' hp' q hq
      rcases List.mem_append.mp hq with hq | hq
      · exact hd p' (List.mem_cons_of_mem _ hp') q hq
      · simp only [List.mem_singleton] at hq
        subst hq
        intro he
        exact hn.1 (by rw [List.mem_map]; exact ⟨p', hp', he.symm⟩)
    · exact hn.2

theorem attrsDict_nodup (a : Attrs) (hn : (a.map (·.1)).Nodup) : attrsDict a = a := by
  unfold attrsDict
  rw [foldl_dictSet_nodup a [] (by intro _ _ q hq; simp at hq) hn]
  simp

theorem lookup_map_str (a : Attrs) (k : List Char) :
    (a.map fun p => (p.1, XVal.str p.2)).lookup k = (a.lookup k).map XVal.str := by
  induction a with
  | nil => rfl
  | cons p r ih =>
    obtain ⟨pk, pv⟩ := p
    simp only [List.map_cons, List.lookup_cons]
    cases (k == pk) with
    | true => rfl
    | false => exact ih

/-- the `attrs` dicts of two permutations of distinct-named attributes are `DictEq` -/
theorem attrs_rel {a a' : Attrs} (hp : a.Perm a') (hn : (a.map (·.1)).Nodup) :
    DictEq (.dict ((attrsDict a).map fun p => (p.1, .str p.2))) (.dict ((attrsDict a').map fun p => (p.1, .str p.2))) := by
  have hn' : (a'.map (·.1)).Nodup := (hp.map (·.1)).nodup_iff.mp hn
  rw [attrsDict_nodup a hn, attrsDict_nodup a' hn']
  have hl : ∀ k, (a.map fun p => (p.1, XVal.str p.2)).lookup k = (a'.map fun p => (p.1, XVal.str p.2)).lookup k := by
    intro k
    rw [lookup_map_str, lookup_map_str, lookup_perm hp hn k]
  refine .dict (fun k => by rw [hl k]) (fun k v v' hv hv' => ?_)
  rw [hl k, hv'] at hv
  cases hv
  exact DictEq.refl _

/-! ### `_store_element` and `{attrs, value}` respect `DictEq` -/

theorem DictRel.lookup_some {d d' : Dict} (h : DictRel d d') {k : List Char} {v : XVal} (hv : d.lookup k = some v) :
    ∃ v', d'.lookup k = some v' ∧ DictEq v v' := by
  cases hv' : d'.lookup k with
  | none => rw [(h.1 k).mpr hv'] at hv; cases hv
  | some v' => exact ⟨v', rfl, h.2 k v v' hv hv'⟩

/-- a dict described by its lookups: related when the lookups are -/
theorem dictRel_of_lookups {d d' : Dict}
    (h : ∀ k, (d.lookup k = none ∧ d'.lookup k = none) ∨ ∃ v v', d.lookup k = some v ∧ d'.lookup k = some v' ∧ DictEq v v') :
    DictRel d d' := by
  constructor
  · intro k
    rcases h k with ⟨h1, h2⟩ | ⟨v, v', h1, h2, _⟩
    · simp [h1, h2]
    · simp [h1, h2]
  · intro k v v' hv hv'
    rcases h k with ⟨h1, _⟩ | ⟨u, u', h1, h2, hr⟩
    · rw [h1] at hv; cases hv
    · rw [h1] at hv; rw [h2] at hv'
      cases hv; cases hv'
      exact hr

theorem DictRel.lookups {d d' : Dict} (h : DictRel d d') (k : List Char) :
    (d.lookup k = none ∧ d'.lookup k = none) ∨ ∃ v v', d.lookup k = some v ∧ d'.lookup k = some v' ∧ DictEq v v' := by
  cases hv : d.lookup k with
  | none => exact Or.inl ⟨rfl, (h.1 k).mp hv⟩
  | some v =>
    obtain ⟨v', hv', hr⟩ := h.lookup_some hv
    exact Or.inr ⟨v, v', rfl, hv', hr⟩

theorem dictSet_rel {d d' : Dict} (h : DictRel d d') (n : List Char) {v v' : XVal} (hv : DictEq v v') :
    DictRel (dictSet d n v) (dictSet d' n v') := by
  apply dictRel_of_lookups
  intro k
  by_cases hk : k = n
  · subst hk
    exact Or.inr ⟨v, v', lookup_dictSet_self _ _ _, lookup_dictSet_self _ _ _, hv⟩
  · rw [lookup_dictSet_other _ _ _ _ hk, lookup_dictSet_other _ _ _ _ hk]
    exact h.lookups k

theorem append_fresh_rel {d d' : Dict} (h : DictRel d d') (n : List Char) {v v' : XVal} (hv : DictEq v v')
    (hf : d.lookup n = none) (hf' : d'.lookup n = none) : DictRel (d ++ [(n, v)]) (d' ++ [(n, v')]) := by
  apply dictRel_of_lookups
  intro k
  by_cases hk : k = n
  · subst hk
    exact Or.inr ⟨v, v', lookup_append_fresh _ _ _ hf, lookup_append_fresh _ _ _ hf', hv⟩
  · rw [lookup_append_other _ _ _ _ hk, lookup_append_other _ _ _ _ hk]
    exact h.lookups k

/-- **`_store_element` respects `DictEq`** -/
theorem storeElement_rel {d d' : Dict} (h : DictRel d d') (n : List Char) {v v' : XVal} (hv : DictEq v v') :
    DictRel (storeElement d n v) (storeElement d' n v') := by
  rcases h.lookups n with ⟨h1, h2⟩ | ⟨old, old', h1, h2, hr⟩
  · unfold storeElement
    rw [h1, h2]
    exact append_fresh_rel h n hv h1 h2
  · unfold storeElement
    rw [h1, h2]
    cases hr with
    | str s => exact dictSet_rel h n (.list (.cons (.str s) (.cons hv .nil)))
    | list hl => exact dictSet_rel h n (.list (hl.append (.cons hv .nil)))
    | dict g1 g2 => exact dictSet_rel h n (.list (.cons (.dict g1 g2) (.cons hv .nil)))

/-- **`{"attrs": …, "value": …}` respects `DictEq`** and attribute order -/
theorem elementValue_rel {a a' : Attrs} (hp : a.Perm a') (hn : (a.map (·.1)).Nodup) {v v' : XVal} (hv : DictEq v v') :
    DictEq (elementValue (attrsOpt a) v) (elementValue (attrsOpt a') v') := by
  have hempty : a'.isEmpty = a.isEmpty := by
    cases a with
    | nil => rw [hp.nil_eq]
    | cons p r =>
      cases a' with
      | nil => exact absurd hp.symm.nil_eq (by simp)
      | cons _ _ => rfl
  unfold attrsOpt
  rw [hempty]
  cases a.isEmpty with
  | true => simpa [elementValue] using hv
  | false =>
    simp only [Bool.false_eq_true, ↓reduceIte, elementValue]
    apply DictEq.of_rel
    apply dictRel_of_lookups
    intro k
    by_cases h1 : k = kAttrs
    · subst h1
      exact Or.inr ⟨_, _, by simp [List.lookup], by simp [List.lookup], attrs_rel hp hn⟩
    · by_cases h2 : k = kValue
      · subst h2
        have hne : (kValue == kAttrs) = false := by decide
        exact Or.inr ⟨v, v', by simp [List.lookup, hne], by simp [List.lookup, hne], hv⟩
      · have e1 : (k == kAttrs) = false := by simpa using h1
        have e2 : (k == kValue) = false := by simpa using h2
        exact Or.inl ⟨by simp [List.lookup, e1, e2], by simp [List.lookup, e1, e2]⟩

/-! ### the same document with permuted attributes -/

mutual
/-- `t'` is `t` with the attributes of every element permuted (white space that the standard reading
    ignores may differ too) -/
def AttrPermT : PTree → PTree → Prop
  | .leaf n a _ text, .leaf n' a' _ text' => n = n' ∧ a.Perm a' ∧ text = text'
  | .empty n a _, .empty n' a' _ => n = n' ∧ a.Perm a'
  | .node n a _ _ first rest _, .node n' a' _ _ first' rest' _ =>
    n = n' ∧ a.Perm a' ∧ AttrPermT first first' ∧ AttrPermF rest rest'
  | _, _ => False
def AttrPermF : PForest → PForest → Prop
  | .nil, .nil => True
  | .cons _ t f, .cons _ t' f' => AttrPermT t t' ∧ AttrPermF f f'
  | _, _ => False
end

mutual
/-- XML's "Unique Att Spec": no attribute name twice in one start tag -/
def UniqueAttrsT : PTree → Prop
  | .leaf _ a _ _ => (a.map (·.1)).Nodup
  | .empty _ a _ => (a.map (·.1)).Nodup
  | .node _ a _ _ first rest _ => (a.map (·.1)).Nodup ∧ UniqueAttrsT first ∧ UniqueAttrsF rest
def UniqueAttrsF : PForest → Prop
  | .nil => True
  | .cons _ t f => UniqueAttrsT t ∧ UniqueAttrsF f
end

theorem AttrPermT.name : ∀ {t t' : PTree}, AttrPermT t t' → t.name = t'.name
  | .leaf .., .leaf .., h => by simp only [AttrPermT] at h; exact h.1
  | .empty .., .empty .., h => by simp only [AttrPermT] at h; exact h.1
  | .node .., .node .., h => by simp only [AttrPermT] at h; exact h.1
  | .leaf .., .empty .., h => by simp [AttrPermT] at h
  | .leaf .., .node .., h => by simp [AttrPermT] at h
  | .empty .., .leaf .., h => by simp [AttrPermT] at h
  | .empty .., .node .., h => by simp [AttrPermT] at h
  | .node .., .leaf .., h => by simp [AttrPermT] at h
  | .node .., .empty .., h => by simp [AttrPermT] at h

mutual
/-- **The standard reading does not depend on attribute order, up to `==`.** -/
theorem valT_attrPerm : ∀ (t t' : PTree), AttrPermT t t' → UniqueAttrsT t → DictEq (valT t) (valT t')
  | .leaf n a g text, .leaf n' a' g' text', h, hu => by
    simp only [AttrPermT] at h
    simp only [UniqueAttrsT] at hu
    obtain ⟨_, hp, rfl⟩ := h
    simp only [valT]
    exact elementValue_rel hp hu (.str _)
  | .empty n a g, .empty n' a' g', h, hu => by
    simp only [AttrPermT] at h
    simp only [UniqueAttrsT] at hu
    simp only [valT]
    exact elementValue_rel h.2 hu (.str _)
  | .node n a g pre first rest post, .node n' a' g' pre' first' rest' post', h, hu => by
    simp only [AttrPermT] at h
    simp only [UniqueAttrsT] at hu
    obtain ⟨_, hp, hf, hr⟩ := h
    simp only [valT]
    apply elementValue_rel hp hu.1
    apply DictEq.of_rel
    apply storeF_attrPerm rest rest' hr hu.2.2
    rw [hf.name]
    exact storeElement_rel (DictRel.refl []) _ (valT_attrPerm first first' hf hu.2.1)
  | .leaf .., .empty .., h, _ => by simp [AttrPermT] at h
  | .leaf .., .node .., h, _ => by simp [AttrPermT] at h
  | .empty .., .leaf .., h, _ => by simp [AttrPermT] at h
  | .empty .., .node .., h, _ => by simp [AttrPermT] at h
  | .node .., .leaf .., h, _ => by simp [AttrPermT] at h
  | .node .., .empty .., h, _ => by simp [AttrPermT] at h
theorem storeF_attrPerm : ∀ (f f' : PForest), AttrPermF f f' → UniqueAttrsF f → ∀ {d d' : Dict}, DictRel d d' →
    DictRel (storeF d f) (storeF d' f')
  | .nil, .nil, _, _, _, _, hd => by simpa [storeF] using hd
  | .cons _ t f, .cons _ t' f', h, hu, _, _, hd => by
    simp only [AttrPermF] at h
    simp only [UniqueAttrsF] at hu
    simp only [storeF]
    apply storeF_attrPerm f f' h.2 hu.2
    rw [h.1.name]
    exact storeElement_rel hd _ (valT_attrPerm t t' h.1 hu.1)
  | .nil, .cons .., h, _, _, _, _ => by simp [AttrPermF] at h
  | .cons .., .nil, h, _, _, _, _ => by simp [AttrPermF] at h
end

/-- the dicts of two documents that differ in attribute order (and layout) are equal as Python values -/
theorem dictOf_attrPerm (t t' : PTree) (h : AttrPermT t t') (hu : UniqueAttrsT t) :
    DictEq (.dict (dictOf t)) (.dict (dictOf t')) := by
  have := storeElement_rel (DictRel.refl []) t.name (valT_attrPerm t t' h hu)
  rw [h.name] at this
  have e : ∀ (n : List Char) (v : XVal), storeElement [] n v = [(n, v)] := by
    intro n v; simp [storeElement, List.lookup]
  rw [e, e] at this
  unfold dictOf
  rw [h.name]
  exact DictEq.of_rel this

end Kskm.Xml
