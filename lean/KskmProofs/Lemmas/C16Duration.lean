/-
  Helper lemmas for C16 `duration_value`: both duration parsers give the exact value of a text made of
  week / day (date section) and hour / minute / second (time section) components.
  The repository parser side rests on work package E's lemmas (KskmProofs/Lemmas/C11Duration.lean).
-/
import Kskm.Config
import KskmProofs.Lemmas.C11Duration
namespace Kskm.C16
open Kskm Kskm.Config

/-! ### the repository parser (`duration_to_timedelta`, Kskm/Duration.lean) -/

/-- date-section components: weeks and days only (an `M` there is a month and is refused) -/
def DateComps (cs : List (Nat × Char)) : Prop := ∀ p ∈ cs, (p.2 = 'W' ∨ p.2 = 'D') ∧ p.1 < 10 ^ 4300

theorem dateComps_good (cs : List (Nat × Char)) (h : DateComps cs) : GoodComps cs := by
  intro p hp
  obtain ⟨hw, hn⟩ := h p hp
  refine ⟨?_, hn⟩
  rcases hw with hw | hw <;> rw [hw] <;> decide

theorem renderComps_append_cons (n : Nat) (w : Char) (r : List (Nat × Char)) (rest : List Char) :
    renderComps ((n, w) :: r) ++ rest = Nat.toDigits 10 n ++ w :: (renderComps r ++ rest) := by
  simp [renderComps, List.append_assoc]

/-- what may follow the date section: nothing, or the `T` that opens the time section -/
def TailOk (rest : List Char) : Prop := '\n' ∉ rest ∧ pyInt rest = .ok none

theorem pyInt_comps_append (r : List (Nat × Char)) (rest : List Char) (hg : GoodComps r) (ht : TailOk rest) :
    pyInt (renderComps r ++ rest) = .ok none := by
  cases r with
  | nil => simpa [renderComps] using ht.2
  | cons a r' =>
    obtain ⟨n, w⟩ := a
    have hw := (hg (n, w) (by simp)).1
    exact pyInt_of_mem_designator _ w hw (by simp [renderComps])

theorem nl_not_mem_comps_append (r : List (Nat × Char)) (rest : List Char) (hg : GoodComps r) (ht : TailOk rest) :
    '\n' ∉ renderComps r ++ rest := by
  simp only [List.mem_append, not_or]
  exact ⟨nl_not_mem_renderComps r hg, ht.1⟩

/-- the loop over date-section components (before any `T`) adds them up and goes on with what follows -/
theorem loop_date_comps (cs : List (Nat × Char)) (rest : List Char) (fuel : Nat) (acc : Int)
    (hd : DateComps cs) (ht : TailOk rest) (h0 : 0 ≤ acc) (hmax : (acc + sumComps cs) / usPerDay ≤ 999999999) :
    parseDurationLoop (fuel + cs.length) (renderComps cs ++ rest) false acc
      = parseDurationLoop fuel rest false (acc + sumComps cs) := by
  induction cs generalizing acc with
  | nil => simp [renderComps, sumComps]
  | cons a r ih =>
    obtain ⟨n, w⟩ := a
    have hdr : DateComps r := fun p hp => hd p (by simp [hp])
    have hgr := dateComps_good r hdr
    obtain ⟨hw, hn⟩ := hd (n, w) (by simp)
    have hwd : isDesignator w = true := (dateComps_good _ hd (n, w) (by simp)).1
    have hw' : w = 'W' ∨ w = 'D' := hw
    have hM : w = 'M' → false = true := by
      intro e; rcases hw' with h1 | h1 <;> rw [h1] at e <;> exact absurd e (by decide)
    have hu := unitUs_pos w
    have hnu : 0 ≤ (n : Int) * unitUs w := Int.mul_nonneg (Int.natCast_nonneg n) (Int.le_of_lt hu)
    have hsr := sumComps_nonneg r
    simp only [sumComps] at hmax
    have b1 : ((n : Int) * unitUs w) / usPerDay ≤ 999999999 := by
      simp only [usPerDay] at *; omega
    have b2 : (acc + (n : Int) * unitUs w) / usPerDay ≤ 999999999 := by
      simp only [usPerDay] at *; omega
    rw [renderComps_append_cons, List.length_cons, ← Nat.add_assoc]
    rw [loop_component (fuel + r.length) n w (renderComps r ++ rest) false acc hwd hn
      (nl_not_mem_comps_append r rest hgr ht) (pyInt_comps_append r rest hgr ht) hM
      (tdInRange_of_bounds _ hnu b1) (tdInRange_of_bounds _ (by omega) b2)]
    rw [ih _ hdr (by omega) (by rw [Int.add_assoc]; exact hmax)]
    simp only [sumComps, Int.add_assoc]

theorem length_le_renderComps (cs : List (Nat × Char)) : cs.length ≤ (renderComps cs).length := by
  induction cs with
  | nil => simp
  | cons a r ih =>
    obtain ⟨n, w⟩ := a
    simp only [renderComps, List.length_cons, List.length_append]
    omega

theorem tailOk_nil : TailOk [] := ⟨by simp, pyInt_nil⟩

theorem tailOk_T (l : List Char) (h : '\n' ∉ l) : TailOk ('T' :: l) := by
  refine ⟨?_, pyInt_of_mem_bad _ 'T' T_facts.1 T_facts.2 (by simp)⟩
  simp only [List.mem_cons, not_or]
  exact ⟨by decide, h⟩

/-- the text of a duration with date components `dc` and time components `tc` -/
def durationText (dc tc : List (Nat × Char)) : List Char :=
  'P' :: (renderComps dc ++ (if tc.isEmpty then [] else 'T' :: renderComps tc))

/-- **the repository parser is exact on every W/D … T … H/M/S text** (any number of components, in
    any order within their section, any magnitude a `timedelta` can hold) -/
theorem repo_duration_chars (dc tc : List (Nat × Char)) (hd : DateComps dc) (htc : GoodComps tc)
    (hmax : (sumComps dc + sumComps tc) / usPerDay ≤ 999999999) :
    parseDurationChars (durationText dc tc) = .ok (sumComps dc + sumComps tc) := by
  unfold durationText parseDurationChars
  simp only
  have hsd := sumComps_nonneg dc
  have hst := sumComps_nonneg tc
  cases htc0 : tc.isEmpty with
  | true =>
    have : tc = [] := List.isEmpty_iff.mp htc0
    subst this
    simp only [if_true, List.append_nil, sumComps, Int.add_zero] at hmax ⊢
    have hlen := length_le_renderComps dc
    obtain ⟨k, hk⟩ := Nat.exists_eq_add_of_le hlen
    have := loop_date_comps dc [] k 0 hd tailOk_nil (Int.le_refl 0) (by simpa using hmax)
    simp only [List.append_nil, Int.zero_add] at this
    rw [hk, Nat.add_comm dc.length k, this, loop_nil]
  | false =>
    have hne : tc ≠ [] := by intro e; subst e; simp at htc0
    simp only [Bool.false_eq_true, if_false]
    have hlen : dc.length + tc.length ≤ (renderComps dc ++ 'T' :: renderComps tc).length := by
      have h1 := length_le_renderComps dc
      have h2 := length_le_renderComps tc
      simp only [List.length_append, List.length_cons]
      omega
    obtain ⟨k, hk⟩ := Nat.exists_eq_add_of_le hlen
    have hk' : (renderComps dc ++ 'T' :: renderComps tc).length = (tc.length + k) + dc.length := by omega
    have hb : (0 + sumComps dc) / usPerDay ≤ 999999999 := by
      simp only [usPerDay] at *; omega
    rw [hk', loop_date_comps dc ('T' :: renderComps tc) (tc.length + k) 0 hd
      (tailOk_T _ (nl_not_mem_renderComps tc htc)) (Int.le_refl 0) hb]
    rw [Int.zero_add]
    exact loop_comps_T tc (tc.length + k) false (sumComps dc) hne (by omega) htc hsd hmax

/-! ### pydantic's parser (`pydDuration`, Kskm/Config.lean) -/

/-- components as digit strings: the value of a digit string is `digitsVal` (decimal, leading zeros allowed) -/
def renderDL : List (List Char × Char) → List Char
  | [] => []
  | (ds, u) :: r => ds ++ u :: renderDL r

def dateUnitDays (u : Char) : Nat := if u = 'W' then 7 else 1
def timeUnitSecs (u : Char) : Nat := if u = 'H' then 3600 else if u = 'M' then 60 else 1

def sumDateDL : List (List Char × Char) → Nat
  | [] => 0
  | (ds, u) :: r => digitsVal ds * dateUnitDays u + sumDateDL r

def sumTimeDL : List (List Char × Char) → Nat
  | [] => 0
  | (ds, u) :: r => digitsVal ds * timeUnitSecs u + sumTimeDL r

def DigitsOk (ds : List Char) : Prop := ds ≠ [] ∧ ∀ c ∈ ds, isAsciiDigit c = true
def DateDL (cs : List (List Char × Char)) : Prop := ∀ p ∈ cs, DigitsOk p.1 ∧ (p.2 = 'W' ∨ p.2 = 'D')
def TimeDL (cs : List (List Char × Char)) : Prop := ∀ p ∈ cs, DigitsOk p.1 ∧ (p.2 = 'H' ∨ p.2 = 'M' ∨ p.2 = 'S')

theorem pyd_digits_some (ds : List Char) (hd : ∀ c ∈ ds, isAsciiDigit c = true) (st : PydState) (a : Nat)
    (hc : st.cur = some a) :
    ds.foldl pydStep (some st) = some { st with cur := some (ds.foldl (fun acc c => acc * 10 + digitVal c) a) } := by
  induction ds generalizing st a with
  | nil => cases st; simp_all
  | cons c r ih =>
    have hcd := hd c (by simp)
    simp only [List.foldl_cons]
    have : pydStep (some st) c = some { st with cur := some (a * 10 + digitVal c) } := by
      simp [pydStep, hcd, hc, bind, Option.bind, pure]
    rw [this, ih (fun x hx => hd x (by simp [hx])) _ (a * 10 + digitVal c) rfl]

theorem pyd_digits (ds : List Char) (hd : DigitsOk ds) (st : PydState) (hc : st.cur = none) :
    ds.foldl pydStep (some st) = some { st with cur := some (digitsVal ds) } := by
  obtain ⟨hne, hall⟩ := hd
  cases ds with
  | nil => exact absurd rfl hne
  | cons c r =>
    have hcd := hall c (by simp)
    simp only [List.foldl_cons]
    have : pydStep (some st) c = some { st with cur := some (digitVal c) } := by
      simp [pydStep, hcd, hc, bind, Option.bind, pure]
    rw [this, pyd_digits_some r (fun x hx => hall x (by simp [hx])) _ (digitVal c) rfl]
    simp [digitsVal]

theorem pyd_date_comps (cs : List (List Char × Char)) (rest : List Char) (hd : DateDL cs) (st : PydState)
    (hc : st.cur = none) (ht : st.inTime = false) :
    (renderDL cs ++ rest).foldl pydStep (some st) =
      rest.foldl pydStep (some { st with days := st.days + sumDateDL cs, comps := st.comps + cs.length }) := by
  induction cs generalizing st with
  | nil => simp [renderDL, sumDateDL]
  | cons a r ih =>
    obtain ⟨ds, u⟩ := a
    obtain ⟨hds, hu⟩ := hd (ds, u) (by simp)
    simp only [renderDL, List.append_assoc, List.cons_append, List.foldl_append, List.foldl_cons]
    rw [pyd_digits ds hds st hc]
    have hstep : pydStep (some { st with cur := some (digitsVal ds) }) u =
        some { st with days := st.days + digitsVal ds * dateUnitDays u, comps := st.comps + 1 } := by
      have hu' : u = 'W' ∨ u = 'D' := hu
      rcases hu' with rfl | rfl <;>
        simp [pydStep, isAsciiDigit, ht, hc, dateUnitDays, bind, Option.bind, pure]
    rw [hstep, ← List.foldl_append]
    have := ih (fun p hp => hd p (by simp [hp]))
      { st with days := st.days + digitsVal ds * dateUnitDays u, comps := st.comps + 1 } hc ht
    rw [this]
    simp only [sumDateDL, List.length_cons, Nat.add_assoc, Nat.add_comm 1 r.length]

theorem pyd_time_comps (cs : List (List Char × Char)) (hd : TimeDL cs) (st : PydState)
    (hc : st.cur = none) (ht : st.inTime = true) (hb : st.secs + sumTimeDL cs < 4294967296) :
    (renderDL cs).foldl pydStep (some st) =
      some { st with secs := st.secs + sumTimeDL cs, comps := st.comps + cs.length } := by
  induction cs generalizing st with
  | nil => simp [renderDL, sumTimeDL]
  | cons a r ih =>
    obtain ⟨ds, u⟩ := a
    obtain ⟨hds, hu⟩ := hd (ds, u) (by simp)
    simp only [sumTimeDL] at hb
    simp only [renderDL, List.foldl_append, List.foldl_cons]
    rw [pyd_digits ds hds st hc]
    have hlt : ¬ (st.secs + digitsVal ds * timeUnitSecs u ≥ 4294967296) := by omega
    have hstep : pydStep (some { st with cur := some (digitsVal ds) }) u =
        some { st with secs := st.secs + digitsVal ds * timeUnitSecs u, comps := st.comps + 1 } := by
      have hu' : u = 'H' ∨ u = 'M' ∨ u = 'S' := hu
      rcases hu' with rfl | rfl | rfl <;>
        simp [pydStep, isAsciiDigit, ht, hc, timeUnitSecs, bind, Option.bind, pure] at hlt ⊢ <;> omega
    rw [hstep]
    have := ih (fun p hp => hd p (by simp [hp]))
      { st with secs := st.secs + digitsVal ds * timeUnitSecs u, comps := st.comps + 1 } hc ht
      (by simp only; omega)
    rw [this]
    simp only [sumTimeDL, List.length_cons, Nat.add_assoc, Nat.add_comm 1 r.length]

def pydText (dc tc : List (List Char × Char)) : List Char :=
  'P' :: (renderDL dc ++ (if tc.isEmpty then [] else 'T' :: renderDL tc))

theorem maxTd_bound : (maxTdDays + 1) * 86400 = (86400000000000 : Int) := by decide

theorem pyd_magnitude_value (dc tc : List (List Char × Char)) (hd : DateDL dc) (ht : TimeDL tc)
    (hne : dc ≠ [] ∨ tc ≠ []) (hsecs : sumTimeDL tc < 4294967296)
    (hmax : sumDateDL dc * 86400 + sumTimeDL tc < 1000000000 * 86400) :
    pydMagnitude (pydText dc tc) = some (((sumDateDL dc * 86400 + sumTimeDL tc : Nat) : Int) * 1000000) := by
  unfold pydMagnitude pydText
  simp only
  rw [pyd_date_comps dc _ hd {} rfl rfl]
  cases htc : tc.isEmpty with
  | true =>
    have : tc = [] := List.isEmpty_iff.mp htc
    subst this
    have hdc : dc ≠ [] := by rcases hne with h | h; exact h; exact absurd rfl h
    have hlen : dc.length ≠ 0 := by intro e; exact hdc (List.length_eq_zero_iff.mp e)
    simp only [if_true, List.foldl_nil, sumTimeDL, Nat.add_zero] at hmax ⊢
    simp only [Option.isSome_none, Bool.false_or, Nat.zero_add, beq_iff_eq, hlen, Bool.false_eq_true, if_false]
    rw [maxTd_bound]
    have : ¬ ((((sumDateDL dc : Nat) : Int) * 86400 + ((0 : Nat) : Int)) ≥ 86400000000000) := by omega
    rw [if_neg this]
    have e : (((sumDateDL dc : Nat) : Int) * 86400 + ((0 : Nat) : Int)) * usPerSec
        = ((sumDateDL dc * 86400 : Nat) : Int) * 1000000 := by unfold usPerSec; omega
    rw [e]
  | false =>
    have htne : tc ≠ [] := by intro e; subst e; simp at htc
    simp only [Bool.false_eq_true, if_false, List.foldl_cons]
    have hT : pydStep (some { days := 0 + sumDateDL dc, comps := 0 + dc.length : PydState }) 'T' =
        some { inTime := true, days := 0 + sumDateDL dc, comps := 0 + dc.length } := by
      simp [pydStep, isAsciiDigit, bind, Option.bind, pure]
    rw [hT, pyd_time_comps tc ht _ rfl rfl (by simpa using hsecs)]
    have hlen : ¬ (0 + dc.length + tc.length = 0) := by
      have : tc.length ≠ 0 := by intro e; exact htne (List.length_eq_zero_iff.mp e)
      omega
    simp only [Option.isSome_none, Bool.false_or, beq_iff_eq, hlen, Bool.false_eq_true, if_false, Nat.zero_add]
    rw [maxTd_bound]
    have : ¬ ((((sumDateDL dc : Nat) : Int) * 86400 + ((sumTimeDL tc : Nat) : Int)) ≥ 86400000000000) := by omega
    rw [if_neg this]
    have e : (((sumDateDL dc : Nat) : Int) * 86400 + ((sumTimeDL tc : Nat) : Int)) * usPerSec
        = ((sumDateDL dc * 86400 + sumTimeDL tc : Nat) : Int) * 1000000 := by unfold usPerSec; omega
    rw [e]
    have hlen' : ¬ (dc.length + tc.length = 0) := by omega
    rw [if_neg hlen']

end Kskm.C16
