/-
  The glue on the standard reading of the writer's tree (composition of C11 with C12, step 3).

  `valT (toP pre t)` is what C12's reader theorem says the repository's reader returns for the element
  `t` of the writer's text.  Here the dict → data-class glue of kskm/skr/load.py and
  kskm/common/parse_utils.py (lean/Kskm/XmlGlue.lean) is run on that value, element by element:

      keyOf       (value of keyTree k)      = k          signatureOf   (value of sigTree s)      = s
      algPolicyOf (value of algTree a)      = a          signaturePolicyOf (value of policyTree p) = p  (algorithms de-duplicated)
      responseBundleOf (value of bundleTree b) = b with keys in key-tag order, keys / signatures de-duplicated

  The repeated elements go through C12's `storeElement_repetition` / `C12_glue_*` theorems (one
  occurrence is stored as the value itself, several as a list; the glue copes with both).
  Hypotheses beyond `WriterDomain`: the invariants pydantic enforces on every `Key` / `Signature` object
  (`Constructible`): the algorithm number is a member of the `AlgorithmDNSSEC` enum and `Key.validate`
  (flags ∈ {256, 257, 385}, ECDSA key length) accepts — the reader constructs the objects anew and so
  re-runs those validators.
-/
import KskmProofs.Lemmas.SkrTree
import KskmProofs.C12
namespace Kskm.ReadBack
open Kskm Kskm.Xml Kskm.C12

/-! ### values -/

/-- a text value -/
def sv (s : String) : XVal := .str s.toList

theorem name_toP (pre : List Char) (t : XTree) : (toP pre t).name = t.name.toList := by
  cases t with
  | leaf n a t => simp [toP, PTree.name, XTree.name]
  | empty n a => simp [toP, PTree.name, XTree.name]
  | node n a cs => cases cs <;> simp [toP, PTree.name, XTree.name]

/-- the children `ts`, written at indentation `pre`, stored one after the other into `res` -/
def storeXL (pre : List Char) (res : Dict) (ts : List XTree) : Dict := storeF res (toPF pre ts)

theorem storeXL_nil (pre : List Char) (res : Dict) : storeXL pre res [] = res := by
  simp [storeXL, toPF, storeF]

theorem storeXL_cons (pre : List Char) (res : Dict) (t : XTree) (ts : List XTree) :
    storeXL pre res (t :: ts) = storeXL pre (storeElement res t.name.toList (valT (toP pre t))) ts := by
  simp [storeXL, toPF, storeF, name_toP]

theorem storeXL_append (pre : List Char) (ts₁ ts₂ : List XTree) (res : Dict) :
    storeXL pre res (ts₁ ++ ts₂) = storeXL pre (storeXL pre res ts₁) ts₂ := by
  induction ts₁ generalizing res with
  | nil => simp [storeXL_nil]
  | cons t ts ih => simp [storeXL_cons, ih]

/-- same-named elements in a row: `_store_element` once per occurrence -/
theorem storeXL_map {α} (pre : List Char) (f : α → XTree) (g : α → XVal) (n : String) (l : List α)
    (h : ∀ x ∈ l, (f x).name = n ∧ valT (toP pre (f x)) = g x) (res : Dict) :
    storeXL pre res (l.map f) = storeAll res n.toList (l.map g) := by
  induction l generalizing res with
  | nil => simp [storeXL_nil, storeAll]
  | cons x t ih =>
    obtain ⟨h1, h2⟩ := h x (by simp)
    rw [List.map_cons, storeXL_cons, ih (fun y hy => h y (by simp [hy])), h1, h2]
    simp [storeAll]

theorem val_node (pre : List Char) (n : String) (a : List (String × String)) (c : XTree) (cs : List XTree) :
    valT (toP pre (.node n a (c :: cs))) =
      elementValue (attrsOpt (attrsP a)) (.dict (storeXL (pre ++ sp4) [] (c :: cs))) := by
  simp [toP, valT, storeXL, toPF, storeF, name_toP]

theorem val_leaf (pre : List Char) (n : String) (t : String) : valT (toP pre (.leaf n [] t)) = sv t := by
  simp [toP, valT, attrsP, attrsOpt, elementValue, sv]

theorem getItem_of_lookup {d : Dict} {k : String} {v : XVal} (h : d.lookup k.toList = some v) :
    XVal.getItem (.dict d) k = .ok v := by
  simp [XVal.getItem, h, pure, Except.pure]

theorem mapM_map_val {α} (f : α → XVal) (g : XVal → Res α) (l : List α) (hl : ∀ x ∈ l, g (f x) = .ok x) :
    (l.map f).mapM g = .ok l := by
  induction l with
  | nil => rfl
  | cons a t ih =>
    rw [List.map_cons, List.mapM_cons, hl a (by simp), ih (fun x hx => hl x (by simp [hx]))]
    rfl

/-! ### field codecs on the printed forms -/

/-- the number is a member of the `AlgorithmDNSSEC` enum (regenerated table) -/
def algMember (n : Nat) : Bool := KskmGen.algorithmDNSSEC.any (fun p => p.2 = n)

theorem intOf_int (i : Int) (h0 : 0 ≤ i) (hp : printable i = true) : intOf (.str (pyIntStr i)) = .ok i := by
  simp [intOf, pyInt_pyIntStr i h0 hp, bind, Except.bind, pure, Except.pure]

theorem intOf_nat (n : Nat) (hp : printable (n : Int) = true) : intOf (.str (natStr n)) = .ok (n : Int) := by
  have : pyInt (natStr n) = .ok (some (n : Int)) := pyInt_toDigits n (by simpa [printable] using hp)
  simp [intOf, this, bind, Except.bind, pure, Except.pure]

theorem algorithmOf_nat (n : Nat) (hp : printable (n : Int) = true) (hm : algMember n = true) :
    algorithmOf (.str (natStr n)) = .ok n := by
  unfold algMember at hm
  simp [algorithmOf, intOf_nat n hp, bind, Except.bind, pure, Except.pure, hm]

theorem strictStr_sv (s : String) : strictStr (sv s) = .ok s := by
  simp [strictStr, sv, pure, Except.pure]

theorem bytesOf_sv (s : String) : bytesOf (sv s) = .ok s := by
  simp [bytesOf, sv, pure, Except.pure]

theorem datetimeOf_format (t : Int) (h : instantOk t = true) : datetimeOf (sv (formatDatetime t)) = .ok t := by
  have := datetimeOfStr_format t h
  simpa [datetimeOf, sv, datetimeOfStr] using this

theorem durationOf_format (d : Int) (h : durationOk d = true) : durationOf (sv (formatDuration d)) = .ok d := by
  have h1 := durationOfStr_format d h
  have h2 := formatDurationChars_ne_nil d
  simp only [durationOfStr] at h1
  simp [durationOf, sv, XVal.truthy, formatDuration, h2] at h1 ⊢
  exact h1

theorem typeCoveredOf_dnskey : typeCoveredOf (sv "DNSKEY") = .ok 48 := by decide

/-! ### SignatureAlgorithm -/

def algVal (a : AlgPolicy) : XVal :=
  .dict [(kAttrs, .dict [("algorithm".toList, .str (natStr a.algorithm))]),
    (kValue, .dict [("RSA".toList, .dict [(kAttrs, .dict [("size".toList, .str (pyIntStr a.bits)),
      ("exponent".toList, .str (pyIntStr (a.exponent.getD 0)))]), (kValue, .str [])])])]

theorem val_algTree (pre : List Char) (a : AlgPolicy) : valT (toP pre (algTree a)) = algVal a := by
  simp [algTree, algVal, toP, toPF, valT, storeF, storeElement, elementValue, attrsOpt, attrsDict, attrsP, dictSet,
    PTree.name, List.lookup, str]

theorem algMember_rsa (n : Nat) (h : n = 5 ∨ n = 8 ∨ n = 10) : algMember n = true ∧ isAlgorithmRsa n = true := by
  rcases h with rfl | rfl | rfl <;> decide

theorem algPolicyOf_algVal (a : AlgPolicy) (h : algOk a = true) : algPolicyOf (algVal a) = .ok a := by
  have ap := algOk_parts a h
  obtain ⟨e, he⟩ := Option.isSome_iff_exists.mp ap.exp
  have halg : printable (a.algorithm : Int) = true :=
    printable_nat _ (by rcases ap.alg with e | e | e <;> omega)
  have he0 : 0 ≤ e := by have := ap.exp0; simpa [he] using this
  have hpe : printable e = true := by have := ap.pexp; simpa [he] using this
  obtain ⟨hm, hr⟩ := algMember_rsa a.algorithm ap.alg
  have hk := ap.kind
  simp [algPolicyOf, algVal, XVal.getItem, List.lookup, kAttrs, kValue, bind, Except.bind, pure, Except.pure,
    algorithmOf_nat _ halg hm, hr, intOf_int _ ap.bits0 ap.pbits, he, intOf_int _ he0 hpe]
  cases a
  simp_all

/-! ### Key -/

def keyVal (k : Key) : XVal :=
  .dict [(kAttrs, .dict [("keyIdentifier".toList, sv k.keyIdentifier), ("keyTag".toList, .str (pyIntStr k.keyTag))]),
    (kValue, .dict [("TTL".toList, .str (pyIntStr k.ttl)), ("Flags".toList, .str (pyIntStr k.flags)),
      ("Protocol".toList, .str (pyIntStr k.protocol)), ("Algorithm".toList, .str (natStr k.algorithm)),
      ("PublicKey".toList, sv k.publicKey)])]

theorem val_keyTree (pre : List Char) (k : Key) : valT (toP pre (keyTree k)) = keyVal k := by
  simp [keyTree, keyVal, toP, toPF, valT, storeF, storeElement, elementValue, attrsOpt, attrsDict, attrsP, dictSet,
    PTree.name, List.lookup, str, sv]

/-- what pydantic guarantees of every `Key` object, and re-checks when the reader builds it anew -/
def keyConstructible (k : Key) : Bool := decide (k.validate = .ok ()) && algMember k.algorithm

theorem keyOf_keyVal (k : Key) (h : keyOk k = true) (hc : keyConstructible k = true) : keyOf (keyVal k) = .ok k := by
  simp only [keyConstructible, Bool.and_eq_true, decide_eq_true_eq] at hc
  obtain ⟨hv, hm⟩ := hc
  have kp := keyOk_parts k h
  have p1 := printable_of_bounds _ kp.tag0 kp.tag1
  have p2 := printable_of_bounds _ kp.flags0 kp.flags1
  have p3 : printable k.protocol = true := printable_of_bounds _ (by rw [kp.protocol]; decide) (by rw [kp.protocol]; decide)
  have p4 : printable (k.algorithm : Int) = true := printable_nat k.algorithm (by have := kp.alg; omega)
  have h3 : 0 ≤ k.protocol := by rw [kp.protocol]; decide
  simp [keyOf, keyVal, XVal.getItem, List.lookup, kAttrs, kValue, bind, Except.bind, pure, Except.pure,
    intOf_int _ kp.tag0 p1, intOf_int _ kp.ttl kp.pttl, intOf_int _ kp.flags0 p2, intOf_int _ h3 p3,
    algorithmOf_nat _ p4 hm, strictStr_sv, bytesOf_sv, hv]

/-! ### Signature -/

def sigVal (s : Signature) : XVal :=
  .dict [(kAttrs, .dict [("keyIdentifier".toList, sv s.keyIdentifier)]),
    (kValue, .dict [("TTL".toList, .str (pyIntStr s.ttl)), ("TypeCovered".toList, sv "DNSKEY"),
      ("Algorithm".toList, .str (natStr s.algorithm)), ("Labels".toList, .str (pyIntStr s.labels)),
      ("OriginalTTL".toList, .str (pyIntStr s.originalTtl)),
      ("SignatureExpiration".toList, sv (formatDatetime s.expiration)),
      ("SignatureInception".toList, sv (formatDatetime s.inception)), ("KeyTag".toList, .str (pyIntStr s.keyTag)),
      ("SignersName".toList, sv s.signersName), ("SignatureData".toList, sv s.signatureData)])]

theorem val_sigTree (pre : List Char) (s : Signature) : valT (toP pre (sigTree s)) = sigVal s := by
  simp [sigTree, sigVal, toP, toPF, valT, storeF, storeElement, elementValue, attrsOpt, attrsDict, attrsP, dictSet,
    PTree.name, List.lookup, str, sv]

theorem signatureOf_sigVal (s : Signature) (h : sigOk s = true) (hm : algMember s.algorithm = true) :
    signatureOf (sigVal s) = .ok s := by
  have sp := sigOk_parts s h
  have p1 := printable_of_bounds _ sp.tag0 sp.tag1
  have p2 := printable_of_bounds _ sp.labels0 (by have := sp.labels1; omega)
  have p4 : printable (s.algorithm : Int) = true := printable_nat s.algorithm (by have := sp.alg; omega)
  simp [signatureOf, sigVal, XVal.getItem, XVal.get?, List.lookup, kAttrs, kValue, bind, Except.bind, pure, Except.pure,
    intOf_int _ sp.tag0 p1, intOf_int _ sp.ttl sp.pttl, intOf_int _ sp.labels0 p2, intOf_int _ sp.ottl sp.pottl,
    algorithmOf_nat _ p4 hm, strictStr_sv, bytesOf_sv, datetimeOf_format _ sp.exp, datetimeOf_format _ sp.inc,
    typeCoveredOf_dnskey]
  have := sp.tc
  cases s
  simp_all

end Kskm.ReadBack
