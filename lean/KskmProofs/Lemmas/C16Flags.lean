/-
  Helper definitions and lemmas for the flag-independence theorems of C16: the individual checks of
  `validate_request`, `check_skr_and_ksr` and `check_last_skr_and_new_skr` under one name each, the
  fourteen whole-check flags of `RequestPolicy`, and the fact that each check function reads its own
  flag only.
-/
import Kskm.Chain
import KskmProofs.Lemmas.Res
namespace Kskm.C16
open Kskm

/-- everything the three composite validations look at besides the policy -/
structure Ctx where
  verify : Verifier
  now : Int
  req : Request
  last : Response
  new : Response
  tok : Option TokenLookup

/-- the UNGUARDED part of `check_zsk_policy_algorithm`: deprecated / unsupported algorithms and the
    ECDSA / EdDSA enabling switches — not switchable by `signature_algorithms_match_zsk_policy` -/
def zskAlgBasic (req : Request) (pol : RequestPolicy) : Res Unit :=
  forEach req.zskPolicy.algorithms (checkAlgBasic pol)

/-- the part guarded by `signature_algorithms_match_zsk_policy` -/
def zskAlgApproved (req : Request) (pol : RequestPolicy) : Res Unit :=
  if !pol.signatureAlgorithmsMatchZskPolicy then pure () else do
  if pol.approvedAlgorithms.any (·.isNone) then err .key
  forEach req.zskPolicy.algorithms fun a =>
    if pol.approvedAlgorithms.contains (some a.algorithm) then pure () else violation .policyAlg
  forEach req.zskPolicy.algorithms (checkAlgRsaParams pol)

theorem checkZskPolicyAlgorithm_split (req : Request) (pol : RequestPolicy) :
    checkZskPolicyAlgorithm req pol = (do zskAlgBasic req pol; zskAlgApproved req pol) := rfl

inductive Check where
  -- validate_request
  | domain | uniqueIds | keysMatchZsk | proofOfPossession | bundleCount | cycle | keysInBundles
  | zskAlgBasic | zskAlgApproved | overlaps | validity | horizon | intervals
  -- check_skr_and_ksr
  | uniqueRequest | uniqueBundleIds | chainKeys | chainOverlap | lastSkrKeyPresent
  -- check_last_skr_and_new_skr
  | publishSafety | retireSafety
  deriving DecidableEq, Repr

def runCheck (c : Ctx) (pol : RequestPolicy) : Check → Res Unit
  | .domain => checkDomain c.req pol
  | .uniqueIds => checkUniqueIds c.req
  | .keysMatchZsk => checkKeysMatchZskPolicy c.req pol
  | .proofOfPossession => checkProofOfPossession c.verify c.req pol
  | .bundleCount => checkBundleCount c.req pol
  | .cycle => checkCycleDurations c.req pol
  | .keysInBundles => checkKeysInBundles c.req pol
  | .zskAlgBasic => zskAlgBasic c.req pol
  | .zskAlgApproved => zskAlgApproved c.req pol
  | .overlaps => checkBundleOverlaps c.req pol
  | .validity => checkSignatureValidity c.req pol
  | .horizon => checkSignatureHorizon c.now c.req pol
  | .intervals => checkBundleIntervals c.req pol
  | .uniqueRequest => checkUniqueRequest c.req c.last
  | .uniqueBundleIds => checkUniqueBundleIds c.req c.last
  | .chainKeys => checkChainKeys c.req c.last pol
  | .chainOverlap => checkChainOverlap c.req c.last pol
  | .lastSkrKeyPresent => checkLastSkrKeyPresent c.last pol c.tok
  | .publishSafety => checkPublishSafety c.last c.new pol
  | .retireSafety => checkRetireSafety c.last c.new pol

def requestChecks : List Check :=
  [.domain, .uniqueIds, .keysMatchZsk, .proofOfPossession, .bundleCount, .cycle, .keysInBundles,
   .zskAlgBasic, .zskAlgApproved, .overlaps, .validity, .horizon, .intervals]
def chainChecks : List Check :=
  [.uniqueRequest, .uniqueBundleIds, .chainKeys, .chainOverlap, .lastSkrKeyPresent]
def safetyChecks : List Check := [.publishSafety, .retireSafety]

/-- the boolean options of `RequestPolicy` that switch a whole check -/
inductive Flag where
  | validateSignatures | keysMatchZskPolicy | checkCycleLength | checkBundleOverlap
  | signatureAlgorithmsMatchZskPolicy | signatureValidityMatchZskPolicy
  | checkKeysMatchKskOperatorPolicy | signatureCheckExpireHorizon | checkBundleIntervals
  | checkChainKeys | checkChainKeysInHsm | checkChainOverlap | checkKeysPublishSafety
  | checkKeysRetireSafety
  deriving DecidableEq, Repr

/-- the check each flag guards (config/ksrsigner.yaml) -/
def Flag.guards : Flag → Check
  | .validateSignatures => .proofOfPossession
  | .keysMatchZskPolicy => .keysMatchZsk
  | .checkCycleLength => .cycle
  | .checkBundleOverlap => .overlaps
  | .signatureAlgorithmsMatchZskPolicy => .zskAlgApproved
  | .signatureValidityMatchZskPolicy => .validity
  | .checkKeysMatchKskOperatorPolicy => .keysInBundles
  | .signatureCheckExpireHorizon => .horizon
  | .checkBundleIntervals => .intervals
  | .checkChainKeys => .chainKeys
  | .checkChainKeysInHsm => .lastSkrKeyPresent
  | .checkChainOverlap => .chainOverlap
  | .checkKeysPublishSafety => .publishSafety
  | .checkKeysRetireSafety => .retireSafety

def Flag.get (pol : RequestPolicy) : Flag → Bool
  | .validateSignatures => pol.validateSignatures
  | .keysMatchZskPolicy => pol.keysMatchZskPolicy
  | .checkCycleLength => pol.checkCycleLength
  | .checkBundleOverlap => pol.checkBundleOverlap
  | .signatureAlgorithmsMatchZskPolicy => pol.signatureAlgorithmsMatchZskPolicy
  | .signatureValidityMatchZskPolicy => pol.signatureValidityMatchZskPolicy
  | .checkKeysMatchKskOperatorPolicy => pol.checkKeysMatchKskOperatorPolicy
  | .signatureCheckExpireHorizon => pol.signatureCheckExpireHorizon
  | .checkBundleIntervals => pol.checkBundleIntervals
  | .checkChainKeys => pol.checkChainKeys
  | .checkChainKeysInHsm => pol.checkChainKeysInHsm
  | .checkChainOverlap => pol.checkChainOverlap
  | .checkKeysPublishSafety => pol.checkKeysPublishSafety
  | .checkKeysRetireSafety => pol.checkKeysRetireSafety

/-- the policy with exactly this option set to `false` -/
def Flag.setOff (pol : RequestPolicy) : Flag → RequestPolicy
  | .validateSignatures => { pol with validateSignatures := false }
  | .keysMatchZskPolicy => { pol with keysMatchZskPolicy := false }
  | .checkCycleLength => { pol with checkCycleLength := false }
  | .checkBundleOverlap => { pol with checkBundleOverlap := false }
  | .signatureAlgorithmsMatchZskPolicy => { pol with signatureAlgorithmsMatchZskPolicy := false }
  | .signatureValidityMatchZskPolicy => { pol with signatureValidityMatchZskPolicy := false }
  | .checkKeysMatchKskOperatorPolicy => { pol with checkKeysMatchKskOperatorPolicy := false }
  | .signatureCheckExpireHorizon => { pol with signatureCheckExpireHorizon := false }
  | .checkBundleIntervals => { pol with checkBundleIntervals := false }
  | .checkChainKeys => { pol with checkChainKeys := false }
  | .checkChainKeysInHsm => { pol with checkChainKeysInHsm := false }
  | .checkChainOverlap => { pol with checkChainOverlap := false }
  | .checkKeysPublishSafety => { pol with checkKeysPublishSafety := false }
  | .checkKeysRetireSafety => { pol with checkKeysRetireSafety := false }

theorem keysWalk_congr (req : Request) (p1 p2 : RequestPolicy)
    (h : ∀ key, checkNewKey req p1 key = checkNewKey req p2 key) :
    ∀ l seen, keysWalk req p1 l seen = keysWalk req p2 l seen := by
  intro l
  induction l with
  | nil => intro seen; rfl
  | cons k r ih =>
    intro seen
    unfold keysWalk
    split
    · split
      · exact ih seen
      · rfl
    · rw [h k]
      cases checkNewKey req p2 k with
      | error e => rfl
      | ok u => simp only [bind, Except.bind]; exact ih _

theorem checkNewKey_setOff (req : Request) (pol : RequestPolicy) (f : Flag) (key : Key) :
    checkNewKey req (f.setOff pol) key = checkNewKey req pol key := by
  cases f <;> rfl

theorem keysMatch_setOff (req : Request) (pol : RequestPolicy) (f : Flag)
    (h : f ≠ .keysMatchZskPolicy) :
    checkKeysMatchZskPolicy req (f.setOff pol) = checkKeysMatchZskPolicy req pol := by
  unfold checkKeysMatchZskPolicy
  rw [keysWalk_congr req (f.setOff pol) pol (checkNewKey_setOff req pol f)]
  cases f <;> first | rfl | exact absurd rfl h

/-- a switched-off flag makes its own check accept -/
theorem runCheck_setOff_own (c : Ctx) (pol : RequestPolicy) (f : Flag) :
    runCheck c (f.setOff pol) f.guards = .ok () := by
  cases f <;>
    simp [runCheck, Flag.guards, Flag.setOff, checkProofOfPossession, checkKeysMatchZskPolicy,
      checkCycleDurations, checkBundleOverlaps, zskAlgApproved, checkSignatureValidity,
      checkKeysInBundles, checkSignatureHorizon, checkBundleIntervals, checkChainKeys,
      checkChainOverlap, checkPublishSafety, checkRetireSafety, pure, Except.pure]
  -- check_last_skr_key_present: also `ok` when no modules are passed
  cases c.tok <;> simp [checkLastSkrKeyPresent, pure, Except.pure]

/-- … and leaves every other check exactly as it was -/
theorem runCheck_setOff_other (c : Ctx) (pol : RequestPolicy) (f : Flag) (k : Check)
    (h : k ≠ f.guards) : runCheck c (f.setOff pol) k = runCheck c pol k := by
  cases k
  case keysMatchZsk =>
    exact keysMatch_setOff c.req pol f (by intro hf; subst hf; exact h rfl)
  all_goals (cases f <;> first | rfl | exact absurd rfl h)

end Kskm.C16
