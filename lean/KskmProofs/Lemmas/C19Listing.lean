/-
  `get_key_inventory` against a store (C19): the records it returns are the key objects of the slot, in
  token order, each with its class, label and id — so that the listing theorems, which speak of those
  records, speak of the objects.
-/
import KskmProofs.Lemmas.C19Effects
namespace Kskm.Km

/-- what the inventory records of an object: class, label, id (an empty CKA_ID is "no id"); objects that
    are neither public, private nor secret keys are not recorded -/
def keyInfoView (o : Obj) : Option (Nat × String × Option Bytes) :=
  if o.cls = ckoSecret ∨ o.cls = ckoPublic ∨ o.cls = ckoPrivate then
    some (o.cls, o.label, if o.id = [] then none else some o.id)
  else none

/-- class, label, id of an inventory record -/
def KeyInfo.view (k : KeyInfo) : Nat × String × Option Bytes := (k.keyClass, k.label, k.keyId)

theorem find_handle {l : List Obj} (hn : (l.map (·.handle)).Nodup) {o : Obj} (ho : o ∈ l) :
    l.find? (fun x => x.handle == o.handle) = some o := by
  induction l with
  | nil => simp at ho
  | cons x r ih =>
    rw [List.find?_cons]
    by_cases hx : x.handle = o.handle
    · have : x = o := eq_of_handle hn List.mem_cons_self ho hx
      simp [this]
    · have hne : (x.handle == o.handle) = false := by simpa using hx
      rw [hne]
      simp only [List.map_cons, List.nodup_cons] at hn
      rcases List.mem_cons.mp ho with rfl | ho'
      · exact absurd rfl hx
      · exact ih hn.2 ho'

theorem storeStep_getAttr {st : Store} {p : String} {n : Nat} {s : SlotSt} (hs : st.slots p n = some s)
    (hn : (s.objects.map (·.handle)).Nodup) {o : Obj} (ho : o ∈ s.objects) (names : List String) :
    storeStep st (.getAttr p n o.handle names) = (.attrs (names.map o.attr), st) := by
  simp [storeStep, hs, find_handle hn ho]

theorem attr_class_label_id (o : Obj) :
    ["CLASS", "LABEL", "ID"].map o.attr = [.num o.cls, .str o.label, .bytes o.id] := by
  simp [Obj.attr]

theorem keyIdOfP_bytes (b : Bytes) (st : Store) :
    (keyIdOfP (.bytes b)).runSt st = (.ok (if b = [] then none else some b), st) := by
  cases b with
  | nil => rfl
  | cons x r => rfl

/-- one object of `get_key_inventory` against a store: the record (if the read succeeds) is the
    object's class, label and id -/
theorem inventoryOneP_ok {st st' : Store} {p : String} {n : Nat} {s : SlotSt} (hs : st.slots p n = some s)
    (hn : (s.objects.map (·.handle)).Nodup) {o : Obj} (ho : o ∈ s.objects) {r : Option KeyInfo}
    (h : (inventoryOneP p n o.handle).runSt st = (.ok r, st')) : r.map KeyInfo.view = keyInfoView o := by
  unfold inventoryOneP at h
  rw [runSt_bind, runSt_askOkP, storeStep_getAttr hs hn ho, attr_class_label_id] at h
  simp only [reduceCtorEq, if_false] at h
  rw [runSt_bind, keyIdOfP_bytes] at h
  simp only at h
  unfold keyInfoOfP at h
  simp only at h
  unfold keyInfoView
  have e24 : ¬ (ckoPublic = ckoSecret) := by decide
  have e34 : ¬ (ckoPrivate = ckoSecret) := by decide
  have e32 : ¬ (ckoPrivate = ckoPublic) := by decide
  by_cases h4 : o.cls = ckoSecret
  · simp only [h4, if_true, true_or] at h ⊢
    simp only [labelOfP, runSt_bind, runSt_pure, Prod.mk.injEq, Except.ok.injEq] at h
    rw [← h.1]; rfl
  · by_cases h2 : o.cls = ckoPublic
    · simp only [h2, e24, if_false, if_true, or_true, true_or] at h ⊢
      rw [runSt_bind] at h
      cases hp : (p11ObjectToPublicKeyP p n o.handle).runSt st with
      | mk pr st1 =>
        rw [hp] at h
        cases pr with
        | error e => simp at h
        | ok pub =>
          simp only [labelOfP, runSt_bind, runSt_pure, Prod.mk.injEq, Except.ok.injEq] at h
          rw [← h.1]
          simp [KeyInfo.view, h2]
    · by_cases h3 : o.cls = ckoPrivate
      · simp only [h3, e34, e32, if_false, if_true, or_true] at h ⊢
        simp only [labelOfP, runSt_bind, runSt_pure, Prod.mk.injEq, Except.ok.injEq] at h
        rw [← h.1]; rfl
      · simp only [h4, h2, h3, if_false, or_self] at h ⊢
        simp only [runSt_pure, Prod.mk.injEq, Except.ok.injEq] at h
        rw [← h.1]; rfl

theorem inventoryLoopP_ok {st : Store} {p : String} {n : Nat} {s : SlotSt} (hs : st.slots p n = some s)
    (hn : (s.objects.map (·.handle)).Nodup) :
    ∀ (os : List Obj), (∀ o ∈ os, o ∈ s.objects) → ∀ (infos : List KeyInfo) (st' : Store),
      (inventoryLoopP p n (os.map (·.handle))).runSt st = (.ok infos, st') →
      infos.map KeyInfo.view = os.filterMap keyInfoView := by
  intro os
  induction os with
  | nil =>
    intro _ infos st' h
    simp only [List.map_nil, inventoryLoopP, runSt_pure, Prod.mk.injEq, Except.ok.injEq] at h
    rw [← h.1]; rfl
  | cons o rest ih =>
    intro hmem infos st' h
    simp only [List.map_cons] at h
    rw [inventoryLoopP] at h
    obtain ⟨r, st1, h1, h2⟩ := runSt_bind_ok h
    have hst : st1 = st := by
      have := (inventoryOneP_ro p n o.handle).readOnly st
      rw [h1] at this; exact this
    subst hst
    obtain ⟨more, st2, h3, h4⟩ := runSt_bind_ok h2
    have hview := inventoryOneP_ok hs hn (hmem o List.mem_cons_self) h1
    have hrest := ih (fun x hx => hmem x (List.mem_cons_of_mem _ hx)) more st2 h3
    simp only [runSt_pure, Prod.mk.injEq, Except.ok.injEq] at h4
    rw [← h4.1, List.filterMap_cons]
    cases r with
    | none =>
      simp only [Option.map_none] at hview
      rw [← hview]; exact hrest
    | some k =>
      simp only [Option.map_some] at hview
      rw [← hview]; simp [hrest]

/-- **`get_key_inventory` returns the key objects of the slot**, in token order, with their class, label
    and id (well-formed store). -/
theorem getKeyInventoryP_ok {st st' : Store} {p : String} {n : Nat} {s : SlotSt} (hs : st.slots p n = some s)
    (hn : (s.objects.map (·.handle)).Nodup) {infos : List KeyInfo}
    (h : (getKeyInventoryP p n).runSt st = (.ok infos, st')) :
    infos.map KeyInfo.view = s.objects.filterMap keyInfoView := by
  unfold getKeyInventoryP at h
  rw [runSt_bind, runSt_askOkP, storeStep_find_some _ hs] at h
  simp only [reduceCtorEq, if_false] at h
  have hall : s.objects.filter (fun o => o.matchesTmpl []) = s.objects := by
    apply List.filter_eq_self.mpr
    intro a _; simp [Obj.matchesTmpl]
  rw [hall] at h
  exact inventoryLoopP_ok hs hn s.objects (fun o ho => ho) infos st' h

end Kskm.Km
