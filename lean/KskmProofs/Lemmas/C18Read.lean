/-
  C18, "the exported document is well-formed XML and means the tree": the tie between the model's
  document (`TrustAnchorDoc.toXmlDoc`, a `String`), the element tree `docTree ta` (Lemmas/C18Render.lean) and
  the grammar-level specification reader `XmlSpec.stdRead` (lean/Kskm/XmlSpec.lean).

    * `Xml.toSpec`: the tree in the specification's vocabulary (strings as character lists);
    * `render_toList`: the plain serialisation of C18Render is the textbook serialisation `renderS`;
    * GENERATED values (key tag, algorithm, digest type, hex digest, validFrom / validUntil) consist of
      characters that need no escaping anywhere — unconditionally, from their generators (`gen_*`);
    * `good_docTree`: with clean free text the tree is `GoodT`, so `stdRead_render` applies.
-/
import KskmProofs.Lemmas.C18Render
import KskmProofs.Lemmas.C18Run
import KskmProofs.Lemmas.C18XmlSpec
import KskmProofs.Lemmas.C11Digits
namespace Kskm.C18
open Kskm.XmlSpec

mutual
def Xml.toSpec : Xml → XmlTree
  | .text s => .text s.toList
  | .node n as cs => .elem n.toList (as.map (fun p => (p.1.toList, p.2.toList))) (Xml.toSpecL cs)
def Xml.toSpecL : List Xml → List XmlTree
  | [] => []
  | c :: cs => c.toSpec :: Xml.toSpecL cs
end

theorem toSpecL_append (a b : List Xml) : Xml.toSpecL (a ++ b) = Xml.toSpecL a ++ Xml.toSpecL b := by
  induction a with
  | nil => simp [Xml.toSpecL]
  | cons x r ih => simp [Xml.toSpecL, ih]

theorem renderAttrs_toList (as : List (String × String)) :
    (renderAttrs as).toList = attrsText (as.map (fun p => (p.1.toList, p.2.toList))) := by
  induction as with
  | nil => simp [renderAttrs, attrsText]
  | cons p r ih =>
    obtain ⟨k, v⟩ := p
    simp [renderAttrs, attrsText, String.toList_append, ih]

mutual
theorem render_toList : ∀ x : Xml, x.render.toList = renderS x.toSpec
  | .text s => by simp [Xml.render, Xml.toSpec, renderS]
  | .node n as cs => by
    have := renderList_toList cs
    simp [Xml.render, Xml.toSpec, renderS, String.toList_append, renderAttrs_toList, this, List.append_assoc]
theorem renderList_toList : ∀ cs : List Xml, (Xml.renderList cs).toList = renderL (Xml.toSpecL cs)
  | [] => by simp [Xml.renderList, Xml.toSpecL, renderL]
  | c :: cs => by
    have h1 := render_toList c
    have h2 := renderList_toList cs
    simp [Xml.renderList, Xml.toSpecL, renderL, String.toList_append, h1, h2]
end

theorem xmlDeclLine_toList : xmlDeclLine.toList = declChars ++ ['\n'] := by decide +kernel

/-! ### free text and generated text -/

/-- free text written into an attribute: usable as it is -/
def AttrClean (v : String) : Prop := ∀ c ∈ v.toList, attrCharOk c = true
/-- free text written as element content: usable as it is, and not empty -/
def TextClean (s : String) : Prop := s.toList ≠ [] ∧ ∀ c ∈ s.toList, textCharOk c = true

/-- the characters generators produce: `*`…`f` without `<` and `>` (digits, `+ - : T`, hex letters) -/
def genChar (c : Char) : Bool :=
  decide (42 ≤ c.toNat) && decide (c.toNat ≤ 102) && decide (c.toNat ≠ 60) && decide (c.toNat ≠ 62)

def Gen (l : List Char) : Prop := ∀ c ∈ l, genChar c = true

theorem genChar_ok {c : Char} (h : genChar c = true) : attrCharOk c = true ∧ textCharOk c = true := by
  simp only [genChar, Bool.and_eq_true, decide_eq_true_eq] at h
  obtain ⟨⟨⟨h1, h2⟩, h3⟩, h4⟩ := h
  have ne : ∀ d : Char, (d.toNat < 42 ∨ d.toNat = 60 ∨ d.toNat = 62) → c ≠ d := by
    intro d hd e; subst e; omega
  have hx : isXmlChar c = true := by
    simp only [isXmlChar, Bool.or_eq_true, Bool.and_eq_true, decide_eq_true_eq]
    exact Or.inl (Or.inl (Or.inr ⟨by omega, by omega⟩))
  simp only [attrCharOk, textCharOk, Bool.and_eq_true, bne_iff_ne, ne_eq, hx, and_true]
  refine ⟨?_, ?_⟩ <;> (repeat' apply And.intro) <;> (apply ne; decide)

theorem Gen.attr {l : List Char} (h : Gen l) : ∀ c ∈ l, attrCharOk c = true := fun c hc => (genChar_ok (h c hc)).1
theorem Gen.text {l : List Char} (h : Gen l) : ∀ c ∈ l, textCharOk c = true := fun c hc => (genChar_ok (h c hc)).2

theorem Gen.append {a b : List Char} (ha : Gen a) (hb : Gen b) : Gen (a ++ b) := by
  intro c hc
  rcases List.mem_append.mp hc with h | h
  · exact ha c h
  · exact hb c h

theorem Gen.cons {c : Char} {l : List Char} (hc : genChar c = true) (hl : Gen l) : Gen (c :: l) := by
  intro x hx
  rcases List.mem_cons.mp hx with rfl | h
  · exact hc
  · exact hl x h

theorem Gen.nil : Gen [] := fun _ h => by simp at h

theorem gen_digitChar (n : Nat) : genChar (Nat.digitChar n) = true := by
  by_cases h16 : n < 16
  · have : ∀ k : Fin 16, genChar (Nat.digitChar k.val) = true := by decide
    exact this ⟨n, h16⟩
  · have : Nat.digitChar n = '*' := by
      unfold Nat.digitChar
      have e : ∀ k, k < 16 → n ≠ k := fun k hk => by omega
      simp [e]
    rw [this]; decide

theorem gen_toDigits (n : Nat) : Gen (Nat.toDigits 10 n) := by
  intro c hc
  have hd := Kskm.all_digits_toDigits n c hc
  rw [Char.isDigit] at hd
  simp only [Bool.and_eq_true, decide_eq_true_eq] at hd
  have h1 : 48 ≤ c.toNat := UInt32.le_iff_toNat_le.mp hd.1
  have h2 : c.toNat ≤ 57 := UInt32.le_iff_toNat_le.mp hd.2
  simp only [genChar, Bool.and_eq_true, decide_eq_true_eq]
  omega

theorem gen_natRepr (n : Nat) : Gen (toString n).toList := by
  show Gen (String.ofList (Nat.toDigits 10 n)).toList
  rw [String.toList_ofList]; exact gen_toDigits n

theorem gen_intRepr (i : Int) : Gen (toString i).toList := by
  cases i with
  | ofNat m =>
    show Gen (String.ofList (Nat.toDigits 10 m)).toList
    rw [String.toList_ofList]; exact gen_toDigits m
  | negSucc m =>
    show Gen ("-" ++ String.ofList (Nat.toDigits 10 (m + 1))).toList
    rw [String.toList_append]
    exact Gen.append (by unfold Gen; decide) (by rw [String.toList_ofList]; exact gen_toDigits _)

theorem natRepr_ne_nil (n : Nat) : (toString n).toList ≠ [] := by
  show (String.ofList (Nat.toDigits 10 n)).toList ≠ []
  rw [String.toList_ofList]; exact Nat.toDigits_ne_nil

theorem intRepr_ne_nil (i : Int) : (toString i).toList ≠ [] := by
  cases i with
  | ofNat m =>
    show (String.ofList (Nat.toDigits 10 m)).toList ≠ []
    rw [String.toList_ofList]; exact Nat.toDigits_ne_nil
  | negSucc m =>
    show ("-" ++ String.ofList (Nat.toDigits 10 (m + 1))).toList ≠ []
    rw [String.toList_append]
    intro h
    have := congrArg List.length h
    simp at this

theorem gen_upperHex (b : Bytes) : Gen (upperHex b).toList := by
  have hd : ∀ k : Fin 16, genChar (if k.val < 10 then Char.ofNat (48 + k.val) else Char.ofNat (55 + k.val)) = true := by
    decide
  simp only [upperHex, String.toList_ofList]
  intro c hc
  simp only [List.mem_flatMap, List.mem_cons, List.not_mem_nil, or_false] at hc
  obtain ⟨x, _, hc | hc⟩ := hc
  · rw [hc]; exact hd ⟨x.toNat / 16, by have := x.toNat_lt; omega⟩
  · rw [hc]; exact hd ⟨x.toNat % 16, by omega⟩

theorem upperHex_ne_nil (b : Bytes) (h : b ≠ []) : (upperHex b).toList ≠ [] := by
  cases b with
  | nil => exact absurd rfl h
  | cons x r => simp [upperHex]

theorem gen_pad2 (n : Nat) : Gen (pad2 n) := by
  unfold pad2
  exact Gen.cons (gen_digitChar _) (Gen.cons (gen_digitChar _) Gen.nil)

/-- **validFrom / validUntil are always safe**: whatever the instant -/
theorem gen_formatDatetime (t : Int) : Gen (formatDatetime t).toList := by
  simp only [formatDatetime, String.toList_ofList]
  unfold formatDatetimeChars
  simp only
  have hy : ∀ y : Int, Gen (yearStr y) := fun y => by
    unfold yearStr
    split
    · exact Gen.cons (by decide) (gen_toDigits _)
    · exact gen_toDigits _
  have hl : ∀ c : Char, genChar c = true → Gen [c] := fun c h => Gen.cons h Gen.nil
  have lit : Gen "+00:00".toList := by unfold Gen; decide
  repeat' apply Gen.append
  all_goals first
    | exact hy _
    | exact gen_pad2 _
    | exact lit
    | (apply hl; decide)

/-! ### the tree is good -/

theorem goodT_text {s : List Char} (hne : s ≠ []) (hs : ∀ c ∈ s, textCharOk c = true) : GoodT (.text s) := by
  rw [GoodT]; exact ⟨hne, hs⟩

theorem goodL_nil (b : Bool) : GoodL b [] := by rw [GoodL]; trivial

theorem goodL_cons_text (s : List Char) (rest : List XmlTree) (hs : GoodT (.text s)) (hr : GoodL true rest) :
    GoodL false (.text s :: rest) := by
  rw [GoodL]; exact ⟨hs, fun h => (Bool.false_ne_true h).elim, hr⟩

theorem goodL_cons_elem (b : Bool) (n : List Char) (a : Attrs) (cs rest : List XmlTree) (he : GoodT (.elem n a cs))
    (hr : GoodL false rest) : GoodL b (.elem n a cs :: rest) := by
  rw [GoodL]; exact ⟨he, fun _ => rfl, hr⟩

theorem attrsOk_nil : attrsOk [] := ⟨fun _ h => by simp at h, by simp⟩

theorem good_leaf (n s : List Char) (hn : nameOk n = true) (hne : s ≠ [])
    (hs : ∀ c ∈ s, textCharOk c = true) : GoodT (.elem n [] [.text s]) := by
  rw [GoodT]
  exact ⟨hn, attrsOk_nil, goodL_cons_text _ _ (goodT_text hne hs) (goodL_nil _)⟩

theorem nl_text : GoodT (.text ['\n']) := goodT_text (by decide) (by decide)

/-- the conditions on one entry: the label (free text) is clean, the digest is not empty -/
def EntryClean (d : KeyDigest) : Prop := AttrClean d.id ∧ d.digest ≠ []

theorem nl_toList : "\n".toList = ['\n'] := by decide

theorem all2 {α : Type} {P : α → Prop} {a b : α} (ha : P a) (hb : P b) : ∀ p ∈ [a, b], P p := by
  intro p hp
  simp only [List.mem_cons, List.not_mem_nil, or_false] at hp
  rcases hp with rfl | rfl <;> assumption

theorem all3 {α : Type} {P : α → Prop} {a b c : α} (ha : P a) (hb : P b) (hc : P c) : ∀ p ∈ [a, b, c], P p := by
  intro p hp
  simp only [List.mem_cons, List.not_mem_nil, or_false] at hp
  rcases hp with rfl | rfl | rfl <;> assumption

/-- an attribute is fine: its name is a name, its value needs no escaping -/
def AttrFine (p : List Char × List Char) : Prop := nameOk p.1 = true ∧ ∀ c ∈ p.2, attrCharOk c = true

theorem attrFine {k v : List Char} (hk : nameOk k = true) (hv : ∀ c ∈ v, attrCharOk c = true) : AttrFine (k, v) := ⟨hk, hv⟩

theorem nm_id : nameOk "id".toList = true := by decide
theorem nm_source : nameOk "source".toList = true := by decide
theorem nm_vf : nameOk "validFrom".toList = true := by decide
theorem nm_vu : nameOk "validUntil".toList = true := by decide

theorem good_digestTree (d : KeyDigest) (h : EntryClean d) : GoodT (digestTree d).toSpec := by
  obtain ⟨hid, hdg⟩ := h
  have h1 := good_leaf "KeyTag".toList (toString d.keyTag).toList (by decide) (intRepr_ne_nil _) (gen_intRepr _).text
  have h2 := good_leaf "Algorithm".toList (toString d.algorithm).toList (by decide) (natRepr_ne_nil _) (gen_natRepr _).text
  have h3 := good_leaf "DigestType".toList (toString d.digestType).toList (by decide) (natRepr_ne_nil _) (gen_natRepr _).text
  have h4 := good_leaf "Digest".toList (upperHex d.digest).toList (by decide) (upperHex_ne_nil _ hdg) (gen_upperHex _).text
  have hvf := (gen_formatDatetime d.validFrom).attr
  unfold digestTree
  simp only [Xml.toSpec, leafLine, List.cons_append, List.nil_append, Xml.toSpecL, List.map_nil, nl_toList]
  rw [GoodT]
  refine ⟨by decide, ?_, ?_⟩
  · cases hu : d.validUntil with
    | none =>
      simp only [List.map_cons, List.map_nil]
      exact ⟨all2 (P := AttrFine) (attrFine nm_id hid) (attrFine nm_vf hvf),
        by simp only [List.map_cons, List.map_nil]; decide⟩
    | some u =>
      simp only [List.map_cons, List.map_nil]
      exact ⟨all3 (P := AttrFine) (attrFine nm_id hid) (attrFine nm_vf hvf) (attrFine nm_vu (gen_formatDatetime u).attr),
        by simp only [List.map_cons, List.map_nil]; decide⟩
  · apply goodL_cons_text _ _ nl_text
    apply goodL_cons_elem _ _ _ _ _ h1
    apply goodL_cons_text _ _ nl_text
    apply goodL_cons_elem _ _ _ _ _ h2
    apply goodL_cons_text _ _ nl_text
    apply goodL_cons_elem _ _ _ _ _ h3
    apply goodL_cons_text _ _ nl_text
    apply goodL_cons_elem _ _ _ _ _ h4
    apply goodL_cons_text _ _ nl_text
    exact goodL_nil _

theorem good_entryNodes (l : List KeyDigest) (h : ∀ d ∈ l, EntryClean d) : GoodL true (Xml.toSpecL (entryNodes l)) := by
  induction l with
  | nil => simp only [entryNodes, Xml.toSpecL]; exact goodL_nil _
  | cons d r ih =>
    have hd := good_digestTree d (h d (by simp))
    have hr := ih (fun x hx => h x (by simp [hx]))
    simp only [entryNodes, Xml.toSpecL]
    unfold digestTree at hd ⊢
    simp only [Xml.toSpec, nl_toList] at hd ⊢
    exact goodL_cons_elem _ _ _ _ _ hd (goodL_cons_text _ _ nl_text hr)

theorem docTree_toSpec (ta : TrustAnchorDoc) :
    (docTree ta).toSpec = .elem "TrustAnchor".toList [("id".toList, ta.id.toList), ("source".toList, ta.source.toList)]
      (Xml.toSpecL ([.text "\n"] ++ leafLine "Zone" ta.zone ++ entryNodes (sortDigests ta.keyDigests))) := by
  simp [docTree, Xml.toSpec]

/-- with clean free text (identifier, source, zone, labels) and non-empty digests, the document tree is good -/
theorem good_docTree (ta : TrustAnchorDoc) (hid : AttrClean ta.id) (hsrc : AttrClean ta.source)
    (hzone : TextClean ta.zone) (hent : ∀ d ∈ ta.keyDigests, EntryClean d) : GoodT (docTree ta).toSpec := by
  have hz := good_leaf "Zone".toList ta.zone.toList (by decide) hzone.1 hzone.2
  have he := good_entryNodes (sortDigests ta.keyDigests)
    (fun d hd => hent d ((sortDigests_sorted ta.keyDigests).2.mem_iff.mp hd))
  rw [docTree_toSpec, GoodT]
  refine ⟨by decide, ⟨?_, ?_⟩, ?_⟩
  · exact all2 (P := AttrFine) (attrFine nm_id hid) (attrFine nm_source hsrc)
  · simp only [List.map_cons, List.map_nil]; decide
  · simp only [leafLine, List.cons_append, List.nil_append, Xml.toSpecL, Xml.toSpec, List.map_nil, nl_toList]
    exact goodL_cons_text _ _ nl_text (goodL_cons_elem _ _ _ _ _ hz (goodL_cons_text _ _ nl_text he))

end Kskm.C18
