/-
  Helper lemmas for C16: the specification predicate `HasUnknownOption`, the behaviour of the
  error-collecting combinators of the validator, and what `_transform_config` leaves untouched.
-/
import Kskm.Config
namespace Kskm.C16
open Kskm Kskm.Config

/-- Somewhere the schema expects an options object, the tree has a key that object does not
    declare.  Written from the property text ("unknown sections or options, anywhere but the
    free-form HSM environment map"): there is deliberately no rule that descends into `anyMap`. -/
inductive HasUnknownOption (tbl : List ObjSchema) : STy → CVal → Prop
  /-- the object itself has an undeclared (or non-string) key -/
  | here {name : String} {s : ObjSchema} {kvs : List (CVal × CVal)} {k x : CVal} :
      findSchema tbl name = some s → (k, x) ∈ kvs → (∀ f ∈ s.fields, k ≠ .str f.name) →
      HasUnknownOption tbl (.model name) (.map kvs)
  /-- … or the value of one of its declared options has one -/
  | field {name : String} {s : ObjSchema} {kvs : List (CVal × CVal)} {f : Field} {x : CVal} :
      findSchema tbl name = some s → f ∈ s.fields → CVal.lookupStr kvs f.name = some x →
      HasUnknownOption tbl f.ty (applyStrToList f x) →
      HasUnknownOption tbl (.model name) (.map kvs)
  | item {item : STy} {xs : List CVal} {x : CVal} :
      x ∈ xs → HasUnknownOption tbl item x → HasUnknownOption tbl (.list item) (.list xs)
  | entry {ik : Bool} {val : STy} {kvs : List (CVal × CVal)} {kv : CVal × CVal} :
      kv ∈ kvs → HasUnknownOption tbl val kv.2 → HasUnknownOption tbl (.mapOf ik val) (.map kvs)

theorem sequenceV_ok {α : Type} (l : List (Res (Option α))) (r : List α)
    (h : sequenceV l = .ok (some r)) : ∀ x ∈ l, ∃ a, x = .ok (some a) := by
  induction l generalizing r with
  | nil => intro x hx; cases hx
  | cons y ys ih =>
    intro x hx
    unfold sequenceV at h
    cases hy : y with
    | error e => simp [hy, bind, Except.bind] at h
    | ok a =>
      cases hs : sequenceV ys with
      | error e => simp [hy, hs, bind, Except.bind] at h
      | ok rs =>
        simp only [hy, hs, bind, Except.bind, pure, Except.pure] at h
        cases a with
        | none => simp at h
        | some a' =>
          cases rs with
          | none => simp at h
          | some rs' =>
            rcases List.mem_cons.mp hx with rfl | hx'
            · exact ⟨a', hy⟩
            · exact ih rs' hs x hx'

theorem findSchema_mem {tbl : List ObjSchema} {name : String} {s : ObjSchema}
    (h : findSchema tbl name = some s) : s ∈ tbl := by
  unfold findSchema at h
  exact List.mem_of_find?_eq_some h

theorem isExtraKey_of_undeclared (s : ObjSchema) (k : CVal)
    (h : ∀ f ∈ s.fields, k ≠ .str f.name) : isExtraKey s k = true := by
  cases k with
  | str name =>
    simp only [isExtraKey, ObjSchema.fieldNames, Bool.not_eq_true', List.contains_eq_mem,
      decide_eq_false_iff_not, List.mem_map, not_exists, not_and]
    intro f hf heq
    exact h f hf (by rw [heq])
  | _ => rfl

theorem valEntry_ok (ik : Bool) (rec : CVal → Res (Option CVal)) (kv a : CVal × CVal)
    (h : valEntry ik rec kv = .ok (some a)) :
    valKey ik kv.1 = .ok (some a.1) ∧ rec kv.2 = .ok (some a.2) := by
  unfold valEntry at h
  cases hk : valKey ik kv.1 with
  | error e => simp [hk, bind, Except.bind] at h
  | ok ko =>
    cases hr : rec kv.2 with
    | error e => simp [hk, hr, bind, Except.bind] at h
    | ok xo =>
      cases ko with
      | none => simp [hk, hr, bind, Except.bind, pure, Except.pure] at h
      | some k' =>
        cases xo with
        | none => simp [hk, hr, bind, Except.bind, pure, Except.pure] at h
        | some x' =>
          simp [hk, hr, bind, Except.bind, pure, Except.pure] at h
          subst h
          exact ⟨rfl, rfl⟩

/-- a present option: its value went through the before-validator, the field type in the model's mode,
    and then the after-validator -/
theorem valField_present (rec : Bool → STy → CVal → Res (Option CVal)) (s : ObjSchema)
    (kvs : List (CVal × CVal)) (f : Field) (x : CVal) (a : CVal × CVal)
    (hl : CVal.lookupStr kvs f.name = some x) (h : valField rec s kvs f = .ok (some a)) :
    ∃ y, rec s.strict f.ty (applyStrToList f x) = .ok (some y) ∧ a = (CVal.str f.name, applyNaiveIsUtc f y) := by
  unfold valField valFieldValue at h
  simp only [hl] at h
  cases hr : rec s.strict f.ty (applyStrToList f x) with
  | error e => simp [hr, bind, Except.bind] at h
  | ok o =>
    cases o with
    | none => simp [hr, bind, Except.bind, pure, Except.pure] at h
    | some y =>
      simp [hr, bind, Except.bind, pure, Except.pure] at h
      exact ⟨y, rfl, h.symm⟩

theorem valField_absent (rec : Bool → STy → CVal → Res (Option CVal)) (s : ObjSchema)
    (kvs : List (CVal × CVal)) (f : Field) (a : CVal × CVal)
    (hl : CVal.lookupStr kvs f.name = none) (h : valField rec s kvs f = .ok (some a)) :
    ∃ d, f.default = some d ∧ a = (CVal.str f.name, d) := by
  unfold valField at h
  simp only [hl, pure, Except.pure, Except.ok.injEq] at h
  split at h
  · simp at h
  · cases hd : f.default with
    | none => simp [hd] at h
    | some d => simp [hd] at h; exact ⟨d, rfl, h.symm⟩

/-- **No configuration comes out of a tree with an unknown option** — for every fuel, mode and
    schema table all of whose objects are closed. -/
theorem unknown_not_validated (env : Env) {ty : STy} {v : CVal}
    (hclosed : ∀ s ∈ env.tbl, s.additionalProperties = false)
    (hu : HasUnknownOption env.tbl ty v) :
    ∀ fuel strict r, validate env fuel strict ty v ≠ .ok (some r) := by
  induction hu with
  | @here name s kvs k x hs hk hund =>
    intro fuel strict r h
    cases fuel with
    | zero => simp [validate, unsupported] at h
    | succ n =>
      unfold validate at h
      simp only [hs] at h
      have hap := hclosed s (findSchema_mem hs)
      have hex : hasExtras s kvs = true := by
        unfold hasExtras
        rw [List.any_eq_true]
        exact ⟨(k, x), hk, by simp [hap, isExtraKey_of_undeclared s k hund]⟩
      rw [hex] at h
      revert h
      generalize sequenceV _ = q
      cases q with
      | error e => simp [bind, Except.bind]
      | ok o => simp [bind, Except.bind, pure, Except.pure]
  | @field name s kvs f x hs hf hl _ ih =>
    intro fuel strict r h
    cases fuel with
    | zero => simp [validate, unsupported] at h
    | succ n =>
      unfold validate at h
      simp only [hs] at h
      revert h
      generalize hq : sequenceV _ = q
      cases q with
      | error e => simp [bind, Except.bind]
      | ok o =>
        cases o with
        | none => simp [bind, Except.bind, pure, Except.pure]
        | some l =>
          intro _
          obtain ⟨a, ha⟩ := sequenceV_ok _ l hq _ (List.mem_map.mpr ⟨f, hf, rfl⟩)
          obtain ⟨y, hy, _⟩ := valField_present _ s kvs f x a hl ha
          exact ih n s.strict y hy
  | @item item xs x hx _ ih =>
    intro fuel strict r h
    cases fuel with
    | zero => simp [validate, unsupported] at h
    | succ n =>
      unfold validate at h
      simp only at h
      revert h
      generalize hq : sequenceV _ = q
      cases q with
      | error e => simp [bind, Except.bind]
      | ok o =>
        cases o with
        | none => simp [bind, Except.bind, pure, Except.pure]
        | some l =>
          intro _
          obtain ⟨a, ha⟩ := sequenceV_ok _ l hq _ (List.mem_map.mpr ⟨x, hx, rfl⟩)
          exact ih n strict a ha
  | @entry ik val kvs kv hkv _ ih =>
    intro fuel strict r h
    cases fuel with
    | zero => simp [validate, unsupported] at h
    | succ n =>
      unfold validate at h
      simp only at h
      revert h
      generalize hq : sequenceV _ = q
      cases q with
      | error e => simp [bind, Except.bind]
      | ok o =>
        cases o with
        | none => simp [bind, Except.bind, pure, Except.pure]
        | some l =>
          intro _
          obtain ⟨a, ha⟩ := sequenceV_ok _ l hq _ (List.mem_map.mpr ⟨kv, hkv, rfl⟩)
          exact ih n strict a.2 (valEntry_ok _ _ _ _ ha).2

/-- from the (decidable) list of declared option names of a model to "this key is undeclared" -/
theorem undeclared_of_fieldNames (tbl : List ObjSchema) (name : String) (names : List String) (k : String)
    (h : (findSchema tbl name).map (·.fieldNames) = some names) (hk : k ∉ names) :
    ∃ s, findSchema tbl name = some s ∧ ∀ f ∈ s.fields, CVal.str k ≠ .str f.name := by
  cases hs : findSchema tbl name with
  | none => simp [hs] at h
  | some s =>
    refine ⟨s, rfl, ?_⟩
    intro f hf heq
    simp only [hs, Option.map_some, Option.some.injEq] at h
    injection heq with heq
    apply hk
    rw [← h, heq]
    exact List.mem_map.mpr ⟨f, hf, rfl⟩

/-! ### `_transform_config` keeps every key it does not name -/

theorem mem_setKey_ne (l : List (CVal × CVal)) (k n : String) (x v : CVal)
    (h : (CVal.str k, x) ∈ l) (hne : k ≠ n) : (CVal.str k, x) ∈ setKey l n v := by
  induction l with
  | nil => cases h
  | cons p r ih =>
    obtain ⟨pk, px⟩ := p
    unfold setKey
    rcases List.mem_cons.mp h with heq | hr
    · injection heq with h1 h2
      subst h1 h2
      simp [hne]
    · cases pk with
      | str s =>
        simp only
        split
        · exact List.mem_cons_of_mem _ hr
        · exact List.mem_cons_of_mem _ (ih hr)
      | _ => exact List.mem_cons_of_mem _ (ih hr)

theorem mem_delKey_ne (l : List (CVal × CVal)) (k n : String) (x : CVal)
    (h : (CVal.str k, x) ∈ l) (hne : k ≠ n) : (CVal.str k, x) ∈ delKey l n := by
  unfold delKey
  rw [List.mem_filter]
  refine ⟨h, ?_⟩
  simp [isStrKey, hne]

theorem transform_keeps_other_keys (fb : Option CVal) (kvs kvs' : List (CVal × CVal)) (k : String) (x : CVal)
    (ht : transformConfig fb (.map kvs) = .ok kvs') (hk : (CVal.str k, x) ∈ kvs)
    (hne : k ≠ "ksk_policy" ∧ k ≠ "keys" ∧ k ≠ "request_policy" ∧ k ≠ "ksk_keys") :
    (CVal.str k, x) ∈ kvs' := by
  obtain ⟨h1, h2, h3, h4⟩ := hne
  unfold transformConfig at ht
  simp only [topLevelDict, bind, Except.bind, pure, Except.pure] at ht
  cases hp : transformKskPolicy kvs with
  | error e => simp [hp] at ht
  | ok k1 =>
    simp only [hp] at ht
    have m1 : (CVal.str k, x) ∈ k1 := by
      unfold transformKskPolicy at hp
      split at hp
      · injection hp with hp; subst hp; exact hk
      · split at hp
        · split at hp
          · injection hp with hp; subst hp; exact hk
          · simp only [bind, Except.bind, pure, Except.pure] at hp
            split at hp
            · simp at hp
            · injection hp with hp; subst hp
              exact mem_setKey_ne _ _ _ _ _ hk h1
        · split at hp
          · injection hp with hp; subst hp; exact hk
          · simp [err] at hp
        · split at hp
          · injection hp with hp; subst hp; exact hk
          · simp [err] at hp
        · simp [err] at hp
    have m2 : (CVal.str k, x) ∈ transformKeys k1 := by
      unfold transformKeys
      split
      · exact m1
      · exact mem_setKey_ne _ _ _ _ _ (mem_delKey_ne _ _ _ _ m1 h2) h4
    generalize transformKeys k1 = k2 at ht m2
    unfold transformDnsTtl at ht
    split at ht
    · split at ht
      · split at ht
        · injection ht with ht; subst ht; exact m2
        · simp only [bind, Except.bind, pure, Except.pure] at ht
          split at ht
          · simp at ht
          · split at ht
            · injection ht with ht; subst ht; exact m2
            · split at ht
              · split at ht
                · simp [err] at ht
                · injection ht with ht; subst ht
                  exact mem_setKey_ne _ _ _ _ _ m2 h3
              · simp [err] at ht
      · split at ht
        · simp [err] at ht
        · injection ht with ht; subst ht; exact m2
      · split at ht
        · simp [err] at ht
        · injection ht with ht; subst ht; exact m2
      · simp [err] at ht
    · injection ht with ht; subst ht; exact m2

end Kskm.C16
