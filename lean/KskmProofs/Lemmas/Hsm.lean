/-
  Helper lemmas for the token-facing model (`Kskm.Hsm`, `Kskm.Signer`), used by C15 and C04.

  * `Emits P m`: every operation `m` issues, on any token and whatever the outcome, satisfies `P`
    (so "no private-key operation", "only this module is touched" are one-line corollaries);
  * run lemmas: how `findInSlots`, `getP11Key`, `loadPkcs11Key`, `fetchKeys` step, given the answer
    of the oracle to the next operation;
  * the pure tail of `load_pkcs11_key` (`acceptKey`) and the proof that the model's monadic tail
    equals it.

  Definitions here (`foundKey`, `acceptKey`, `refetchPublic`) are *views* of code that is inline in
  the model; each is tied to the model by an equation proved below, never assumed.
-/
import Kskm.Signer
import KskmProofs.Lemmas.TokM
namespace Kskm

/-! ### Running `TokM` computations -/

/-- the state after one more logged operation -/
def TokState.push (s : TokState) (op : TokOp) (a : TokAns) : TokState :=
  { count := s.count + 1, log := (op, a) :: s.log }

@[simp] theorem TokState.push_log (s : TokState) (op : TokOp) (a : TokAns) :
    (s.push op a).log = (op, a) :: s.log := rfl
@[simp] theorem TokState.push_count (s : TokState) (op : TokOp) (a : TokAns) :
    (s.push op a).count = s.count + 1 := rfl

theorem bind_run {α β} (m : TokM α) (f : α → TokM β) (t : Token) (s : TokState) :
    (m >>= f) t s = match m t s with
      | (.ok a, s1) => f a t s1
      | (.error e, s1) => (.error e, s1) := TokM.bind_eq m f t s

theorem bind_run_ok {α β} (m : TokM α) (f : α → TokM β) (t : Token) (s s1 : TokState) (a : α)
    (h : m t s = (.ok a, s1)) : (m >>= f) t s = f a t s1 := by
  rw [bind_run, h]

theorem bind_run_error {α β} (m : TokM α) (f : α → TokM β) (t : Token) (s s1 : TokState) (e : Fail)
    (h : m t s = (.error e, s1)) : (m >>= f) t s = (.error e, s1) := by
  rw [bind_run, h]

theorem ite_run {α} (c : Prop) [Decidable c] (a b : TokM α) (t : Token) (s : TokState) :
    (if c then a else b) t s = if c then a t s else b t s := by
  split <;> rfl

theorem lift_bind_run {α β} (x : Res α) (f : α → TokM β) (t : Token) (s : TokState) :
    (TokM.lift x >>= f) t s = match x with
      | .ok a => f a t s
      | .error e => (.error e, s) := by
  rw [bind_run]; cases x <;> rfl

theorem err_bind_run {α β} (k : ErrKind) (f : α → TokM β) (t : Token) (s : TokState) :
    ((TokM.err k : TokM α) >>= f) t s = (.error (.error k), s) := by
  rw [bind_run]; rfl

theorem ask_run' (op : TokOp) (t : Token) (s : TokState) :
    ask op t s = (.ok (t s.count op), s.push op (t s.count op)) := rfl

theorem askOk_run (op : TokOp) (t : Token) (s : TokState) :
    askOk op t s = if t s.count op = .error then (.error (.error .p11), s.push op .error)
                   else (.ok (t s.count op), s.push op (t s.count op)) := by
  unfold askOk
  rw [bind_run, ask_run']
  cases h : t s.count op <;> simp [TokM.err, TokM.fail, pure]

theorem askOk_run_of_ne (op : TokOp) (t : Token) (s : TokState) (h : t s.count op ≠ .error) :
    askOk op t s = (.ok (t s.count op), s.push op (t s.count op)) := by
  rw [askOk_run, if_neg h]

/-! ### Which operations a computation can issue -/

/-- every operation `m` issues (on any token, from any state, whatever the outcome) satisfies `P`;
    the operation counter advances by exactly the number of logged operations -/
def Emits {α} (P : TokOp → Prop) (m : TokM α) : Prop :=
  ∀ tok s, ∃ l : List (TokOp × TokAns), (m tok s).2.log = l ++ s.log ∧
    (m tok s).2.count = s.count + l.length ∧ ∀ e ∈ l, P e.1

namespace Emits
variable {α β : Type} {P : TokOp → Prop}

theorem pure (a : α) : Emits P (Pure.pure a : TokM α) := fun _ _ => ⟨[], rfl, rfl, by simp⟩
theorem fail (f : Fail) : Emits P (TokM.fail f : TokM α) := fun _ _ => ⟨[], rfl, rfl, by simp⟩
theorem err (k : ErrKind) : Emits P (TokM.err k : TokM α) := fun _ _ => ⟨[], rfl, rfl, by simp⟩
theorem lift (r : Res α) : Emits P (TokM.lift r : TokM α) := fun _ _ => ⟨[], rfl, rfl, by simp⟩

theorem ask (op : TokOp) (h : P op) : Emits P (Kskm.ask op) := fun tok s =>
  ⟨[(op, tok s.count op)], rfl, rfl, by simpa using h⟩

theorem bind {m : TokM α} {f : α → TokM β} (hm : Emits P m) (hf : ∀ a, Emits P (f a)) :
    Emits P (m >>= f) := by
  intro tok s
  obtain ⟨l1, e1, c1, p1⟩ := hm tok s
  rw [TokM.bind_eq]
  cases hr : m tok s with
  | mk r s1 =>
    rw [hr] at e1 c1
    cases r with
    | error e => exact ⟨l1, e1, c1, p1⟩
    | ok a =>
      obtain ⟨l2, e2, c2, p2⟩ := hf a tok s1
      refine ⟨l2 ++ l1, ?_, ?_, ?_⟩
      · simp only at e1 ⊢; rw [e2, e1, List.append_assoc]
      · simp only at c1 ⊢; rw [c2, c1, List.length_append]; omega
      · intro e he
        rcases List.mem_append.mp he with h | h
        · exact p2 e h
        · exact p1 e h

theorem askOk (op : TokOp) (h : P op) : Emits P (Kskm.askOk op) := by
  unfold Kskm.askOk
  refine bind (ask op h) (fun a => ?_)
  split
  · exact err _
  · exact pure _

theorem mono {Q : TokOp → Prop} {m : TokM α} (h : Emits P m) (hpq : ∀ op, P op → Q op) :
    Emits Q m := by
  intro tok s
  obtain ⟨l, e, c, p⟩ := h tok s
  exact ⟨l, e, c, fun x hx => hpq _ (p x hx)⟩

/-- the form in which `Emits` is used: outcome and final state given -/
theorem run {m : TokM α} (h : Emits P m) {tok : Token} {s s' : TokState} {r : Res α}
    (hr : m tok s = (r, s')) :
    ∃ l : List (TokOp × TokAns), s'.log = l ++ s.log ∧ s'.count = s.count + l.length ∧
      ∀ e ∈ l, P e.1 := by
  have := h tok s
  rw [hr] at this
  exact this

end Emits

theorem attr1_emits {P} (a : TokAns) : Emits P (attr1 a) := by
  unfold attr1; split
  · exact Emits.pure _
  · exact Emits.fail _

theorem attrBytes_emits {P} (a : AttrAns) : Emits P (attrBytes a) := by
  unfold attrBytes; split
  · exact Emits.pure _
  · exact Emits.err _
  · exact Emits.fail _

/-- one structural step of an `Emits` proof -/
macro "emits_step" : tactic => `(tactic| first
  | exact Emits.pure _ | exact Emits.fail _ | exact Emits.err _ | exact Emits.lift _
  | exact Emits.askOk _ rfl | exact Emits.ask _ rfl
  | exact Emits.askOk _ ⟨rfl, rfl⟩ | exact Emits.askOk _ ⟨rfl, rfl, rfl⟩
  | exact attr1_emits _ | exact attrBytes_emits _
  | assumption
  | refine Emits.bind ?_ (fun _ => ?_)
  | split
  | dsimp only)

/-- a read-only operation (find objects / get attributes) on module `path` -/
def IsReadOn (path : String) : TokOp → Prop
  | .findObjects m _ _ => m = path
  | .getAttr m _ _ _ => m = path
  | _ => False

/-- a `getAttr` on exactly this object -/
def IsGetAttrOf (path : String) (slot handle : Nat) : TokOp → Prop
  | .getAttr m s h _ => m = path ∧ s = slot ∧ h = handle
  | _ => False

theorem IsGetAttrOf.isReadOn {path : String} {slot handle : Nat} {op : TokOp}
    (h : IsGetAttrOf path slot handle op) : IsReadOn path op := by
  cases op <;> simp_all [IsGetAttrOf, IsReadOn]

theorem IsReadOn.not_sign {path : String} {op : TokOp} (h : IsReadOn path op) : isSignOp op = false := by
  cases op <;> simp_all [IsReadOn, isSignOp]

theorem p11ObjectToPublicKey_emits (path : String) (slot handle : Nat) :
    Emits (IsGetAttrOf path slot handle) (p11ObjectToPublicKey path slot handle) := by
  unfold p11ObjectToPublicKey
  repeat' emits_step

/-! ### `find_key_by_label`, step by step -/

/-- the lookup operation of `find_key_by_label` for one slot -/
def findOp (m : P11Module) (label : String) (cls : Nat) (slot : Nat) : TokOp :=
  .findObjects m.path slot [("LABEL", .str label), ("CLASS", .num cls)]

/-- the end of `find_key_by_label`: read the key type, build the key record -/
def foundKeyTail (m : P11Module) (label : String) (keyClass : Nat) (hashUsingHsm : Option Bool)
    (slot h : Nat) (pk : Option String) : TokM (Option P11Key) := do
  let kt ← attr1 (← askOk (.getAttr m.path slot h ["KEY_TYPE"]))
  match kt with
  | .num n =>
    match keyTypeOf n with
    | none => TokM.err .value
    | some t =>
      pure (some { label, keyType := t, keyClass, hashUsingHsm, publicKey := pk,
                   module := m.path, slot,
                   privHandle := if keyClass ≠ ckoPublic then some h else none,
                   pubHandle := if keyClass ≠ ckoSecret then some h else none })
  | .none => TokM.err .value
  | _ => TokM.fail .unsupported

/-- what `find_key_by_label` does once exactly one handle `h` was returned for `slot`
    (inline in `findInSlots`; see `findInSlots_cons`) -/
def foundKey (m : P11Module) (label : String) (keyClass : Nat) (hashUsingHsm : Option Bool)
    (slot h : Nat) : TokM (Option P11Key) :=
  if keyClass ≠ ckoSecret then
    p11ObjectToPublicKey m.path slot h >>= foundKeyTail m label keyClass hashUsingHsm slot h
  else foundKeyTail m label keyClass hashUsingHsm slot h none

theorem findInSlots_cons (m : P11Module) (label : String) (cls : Nat) (hh : Option Bool)
    (sl : Nat) (rest : List Nat) :
    findInSlots m label cls hh (sl :: rest) = (do
      let r ← askOk (findOp m label cls sl)
      match r with
      | .handles [] => findInSlots m label cls hh rest
      | .handles [h] => foundKey m label cls hh sl h
      | .handles _ => TokM.err .runtime
      | _ => TokM.fail .unsupported) := by
  rw [findInSlots]
  rfl

section findRun
variable (m : P11Module) (label : String) (cls : Nat) (hh : Option Bool) (sl : Nat) (rest : List Nat)
  (tok : Token) (s : TokState)

theorem findInSlots_cons_error (hans : tok s.count (findOp m label cls sl) = .error) :
    findInSlots m label cls hh (sl :: rest) tok s =
      (.error (.error .p11), s.push (findOp m label cls sl) .error) := by
  rw [findInSlots_cons, bind_run, askOk_run, hans]; rfl

theorem findInSlots_cons_empty (hans : tok s.count (findOp m label cls sl) = .handles []) :
    findInSlots m label cls hh (sl :: rest) tok s =
      findInSlots m label cls hh rest tok (s.push (findOp m label cls sl) (.handles [])) := by
  rw [findInSlots_cons, bind_run, askOk_run, hans]; rfl

theorem findInSlots_cons_one (h : Nat) (hans : tok s.count (findOp m label cls sl) = .handles [h]) :
    findInSlots m label cls hh (sl :: rest) tok s =
      foundKey m label cls hh sl h tok (s.push (findOp m label cls sl) (.handles [h])) := by
  rw [findInSlots_cons, bind_run, askOk_run, hans]; rfl

theorem findInSlots_cons_many (a b : Nat) (r : List Nat)
    (hans : tok s.count (findOp m label cls sl) = .handles (a :: b :: r)) :
    findInSlots m label cls hh (sl :: rest) tok s =
      (.error (.error .runtime), s.push (findOp m label cls sl) (.handles (a :: b :: r))) := by
  rw [findInSlots_cons, bind_run, askOk_run, hans]; rfl

end findRun

theorem foundKeyTail_emits (m : P11Module) (label : String) (cls : Nat) (hh : Option Bool) (sl h : Nat)
    (pk : Option String) : Emits (IsGetAttrOf m.path sl h) (foundKeyTail m label cls hh sl h pk) := by
  unfold foundKeyTail
  repeat' emits_step

theorem foundKey_emits (m : P11Module) (label : String) (cls : Nat) (hh : Option Bool) (sl h : Nat) :
    Emits (IsGetAttrOf m.path sl h) (foundKey m label cls hh sl h) := by
  unfold foundKey
  split
  · exact Emits.bind (p11ObjectToPublicKey_emits m.path sl h) (fun pk => foundKeyTail_emits m label cls hh sl h pk)
  · exact foundKeyTail_emits m label cls hh sl h none

theorem findInSlots_emits (m : P11Module) (label : String) (cls : Nat) (hh : Option Bool)
    (slots : List Nat) : Emits (IsReadOn m.path) (findInSlots m label cls hh slots) := by
  induction slots with
  | nil => exact Emits.pure _
  | cons sl rest ih =>
    rw [findInSlots_cons]
    refine Emits.bind (Emits.askOk _ rfl) (fun r => ?_)
    split
    · exact ih
    · exact (foundKey_emits m label cls hh sl _).mono (fun _ h => h.isReadOn)
    · exact Emits.err _
    · exact Emits.fail _

theorem foundKeyTail_ok (m : P11Module) (label : String) (cls : Nat) (hh : Option Bool) (sl h : Nat)
    (pk : Option String) (tok : Token) (s s' : TokState) (o : Option P11Key)
    (hr : foundKeyTail m label cls hh sl h pk tok s = (.ok o, s')) :
    ∃ t, o = some { label, keyType := t, keyClass := cls, hashUsingHsm := hh, publicKey := pk,
                    module := m.path, slot := sl,
                    privHandle := if cls ≠ ckoPublic then some h else none,
                    pubHandle := if cls ≠ ckoSecret then some h else none } := by
  unfold foundKeyTail at hr
  obtain ⟨a, s2, _, hr⟩ := TokM.bind_ok _ _ _ _ _ _ hr
  obtain ⟨kt, s3, _, hr⟩ := TokM.bind_ok _ _ _ _ _ _ hr
  cases kt with
  | num n =>
    simp only at hr
    cases hk : keyTypeOf n with
    | none => simp [hk] at hr
    | some t =>
      simp only [hk, TokM.pure_run, Prod.mk.injEq, Except.ok.injEq] at hr
      exact ⟨t, hr.1.symm⟩
  | none => simp at hr
  | bytes b => simp at hr
  | str x => simp at hr

/-- `foundKey` never answers "not found": it returns a key (in this slot, with this handle) or fails -/
theorem foundKey_ok (m : P11Module) (label : String) (cls : Nat) (hh : Option Bool) (sl h : Nat)
    (tok : Token) (s s' : TokState) (o : Option P11Key)
    (hr : foundKey m label cls hh sl h tok s = (.ok o, s')) :
    ∃ t pk, o = some { label, keyType := t, keyClass := cls, hashUsingHsm := hh, publicKey := pk,
                       module := m.path, slot := sl,
                       privHandle := if cls ≠ ckoPublic then some h else none,
                       pubHandle := if cls ≠ ckoSecret then some h else none } := by
  unfold foundKey at hr
  split at hr
  · obtain ⟨pk, s1, _, hr⟩ := TokM.bind_ok _ _ _ _ _ _ hr
    obtain ⟨t, ht⟩ := foundKeyTail_ok _ _ _ _ _ _ _ _ _ _ _ hr
    exact ⟨t, pk, ht⟩
  · obtain ⟨t, ht⟩ := foundKeyTail_ok _ _ _ _ _ _ _ _ _ _ _ hr
    exact ⟨t, none, ht⟩

/-! ### `get_p11_key` -/

def classOf (isPublic : Bool) : Nat := if isPublic then ckoPublic else ckoPrivate

theorem getP11Key_cons (label : String) (isPublic : Bool) (hh : Option Bool) (m : P11Module)
    (rest : List P11Module) :
    getP11Key label isPublic hh (m :: rest) = (do
      match ← findInSlots m label (classOf isPublic) hh m.sessions with
      | some k => pure (some k)
      | none => getP11Key label isPublic hh rest) := by
  rw [getP11Key]
  rfl

section getRun
variable (label : String) (isPublic : Bool) (hh : Option Bool) (m : P11Module) (rest : List P11Module)
  (tok : Token) (s s1 : TokState)

theorem getP11Key_cons_hit (k : P11Key)
    (h : findInSlots m label (classOf isPublic) hh m.sessions tok s = (.ok (some k), s1)) :
    getP11Key label isPublic hh (m :: rest) tok s = (.ok (some k), s1) := by
  rw [getP11Key_cons, bind_run, h]; rfl

theorem getP11Key_cons_miss
    (h : findInSlots m label (classOf isPublic) hh m.sessions tok s = (.ok none, s1)) :
    getP11Key label isPublic hh (m :: rest) tok s = getP11Key label isPublic hh rest tok s1 := by
  rw [getP11Key_cons, bind_run, h]

theorem getP11Key_cons_error (e : Fail)
    (h : findInSlots m label (classOf isPublic) hh m.sessions tok s = (.error e, s1)) :
    getP11Key label isPublic hh (m :: rest) tok s = (.error e, s1) := by
  rw [getP11Key_cons, bind_run, h]

end getRun

/-- a read-only operation on one of the listed modules -/
def IsReadAmong (mods : List P11Module) (op : TokOp) : Prop := ∃ m ∈ mods, IsReadOn m.path op

theorem IsReadAmong.not_sign {mods : List P11Module} {op : TokOp} (h : IsReadAmong mods op) :
    isSignOp op = false := by
  obtain ⟨_, _, h⟩ := h; exact h.not_sign

theorem getP11Key_emits (label : String) (isPublic : Bool) (hh : Option Bool) (mods : List P11Module) :
    Emits (IsReadAmong mods) (getP11Key label isPublic hh mods) := by
  induction mods with
  | nil => exact Emits.pure _
  | cons m rest ih =>
    rw [getP11Key_cons]
    refine Emits.bind ((findInSlots_emits m label _ hh _).mono
      (fun op h => ⟨m, List.mem_cons_self, h⟩)) (fun r => ?_)
    split
    · exact Emits.pure _
    · exact ih.mono (fun op ⟨m', hm', h⟩ => ⟨m', List.mem_cons_of_mem _ hm', h⟩)

/-! ### `load_pkcs11_key`: window, lookup, second lookup, pure acceptance test -/

/-- the pure tail of `load_pkcs11_key`: is the key that was found the configured one? -/
def acceptKey (ksk : KskKey) (pol : KskPolicy) (found : P11Key) : Res (Option CompositeKey) :=
  match found.publicKey with
  | none => pure none
  | some pk =>
    if pk.isEmpty then pure none else do
    match found.keyType with
    | .rsa =>
      if !isAlgorithmRsa ksk.algorithm then err .value
      else do
        let pub ← rsaDecode pk ksk.algorithm
        if some (pub.bits : Int) != ksk.rsaSize then err .value
        else if some (pub.exponent : Int) != ksk.rsaExponent then err .value
        else pure ()
    | .ec =>
      if !isAlgorithmEcdsa ksk.algorithm && !isAlgorithmEddsa ksk.algorithm then err .value
      else pure ()
    | _ => pure ()
    match found.keyType with
    | .aes => pure none
    | .des3 => pure none
    | _ => do
      let key ← publicKeyToDnssecKey pk ksk.label ksk.algorithm pol.ttl 257
      pure (some { p11 := found, dns := key })

/-- the same tail, in `TokM`, spelled as in the model -/
def acceptKeyM (ksk : KskKey) (pol : KskPolicy) (found : P11Key) : TokM (Option CompositeKey) := do
    match found.publicKey with
    | none => pure none
    | some pk =>
      if pk.isEmpty then pure none else do
      match found.keyType with
      | .rsa =>
        if !isAlgorithmRsa ksk.algorithm then TokM.err .value
        else do
          let pub ← TokM.lift (rsaDecode pk ksk.algorithm)
          if some (pub.bits : Int) != ksk.rsaSize then TokM.err .value
          else if some (pub.exponent : Int) != ksk.rsaExponent then TokM.err .value
          else pure ()
      | .ec =>
        if !isAlgorithmEcdsa ksk.algorithm && !isAlgorithmEddsa ksk.algorithm then TokM.err .value
        else pure ()
      | _ => pure ()
      match found.keyType with
      | .aes => pure none
      | .des3 => pure none
      | _ => do
        let key ← TokM.lift (publicKeyToDnssecKey pk ksk.label ksk.algorithm pol.ttl 257)
        pure (some { p11 := found, dns := key })

theorem acceptKeyM_eq (ksk : KskKey) (pol : KskPolicy) (found : P11Key) :
    acceptKeyM ksk pol found = TokM.lift (acceptKey ksk pol found) := by
  funext tok s
  unfold acceptKeyM acceptKey
  cases found.publicKey with
  | none => rfl
  | some pk =>
    simp only
    split
    · rfl
    · cases found.keyType <;>
        simp only [ite_run, TokM.lift_run, TokM.pure_run, bind_run]
      · split
        · rfl
        · cases rsaDecode pk ksk.algorithm with
          | error e => rfl
          | ok pub =>
            simp only [bind, Except.bind]
            split
            · rfl
            · split
              · rfl
              · cases publicKeyToDnssecKey pk ksk.label ksk.algorithm pol.ttl 257 <;> rfl
      · split
        · rfl
        · cases publicKeyToDnssecKey pk ksk.label ksk.algorithm pol.ttl 257 <;> rfl
      · rfl
      · rfl

/-- "Query again for the public key" -/
def refetchPublic (mods : List P11Module) (ksk : KskKey) (isPublic : Bool) (found : P11Key) :
    TokM P11Key :=
  if found.publicKey.isNone && !isPublic then do
    match ← getP11Key ksk.label true ksk.hashUsingHsm mods with
    | some fp => pure { found with publicKey := fp.publicKey }
    | none => pure found
  else pure found

/-- the bundle lies outside the key's validity window -/
def WindowViolated (ksk : KskKey) (b : Bundle) : Prop :=
  ksk.validFrom > b.inception ∨ ∃ u, ksk.validUntil = some u ∧ u < b.expiration

/-- `load_pkcs11_key` after the window test, as a function of the oracle's answers -/
def loadAfterWindow (mods : List P11Module) (ksk : KskKey) (pol : KskPolicy) (isPublic : Bool)
    (tok : Token) (s : TokState) : Res (Option CompositeKey) × TokState :=
  match getP11Key ksk.label isPublic ksk.hashUsingHsm mods tok s with
  | (.error e, s1) => (.error e, s1)
  | (.ok none, s1) => (.ok none, s1)
  | (.ok (some f0), s1) =>
    match refetchPublic mods ksk isPublic f0 tok s1 with
    | (.error e, s2) => (.error e, s2)
    | (.ok f, s2) => (acceptKey ksk pol f, s2)

/-- the same, as a `TokM` computation -/
def loadAfterWindowM (mods : List P11Module) (ksk : KskKey) (pol : KskPolicy) (isPublic : Bool) :
    TokM (Option CompositeKey) := do
  match ← getP11Key ksk.label isPublic ksk.hashUsingHsm mods with
  | none => pure none
  | some found0 => do
    let found ← refetchPublic mods ksk isPublic found0
    acceptKeyM ksk pol found

theorem loadAfterWindowM_run (mods : List P11Module) (ksk : KskKey) (pol : KskPolicy)
    (isPublic : Bool) (tok : Token) (s : TokState) :
    loadAfterWindowM mods ksk pol isPublic tok s = loadAfterWindow mods ksk pol isPublic tok s := by
  unfold loadAfterWindow loadAfterWindowM
  rw [bind_run]
  cases getP11Key ksk.label isPublic ksk.hashUsingHsm mods tok s with
  | mk r s1 =>
    cases r with
    | error e => rfl
    | ok o =>
      cases o with
      | none => rfl
      | some f0 =>
        simp only [bind_run]
        cases refetchPublic mods ksk isPublic f0 tok s1 with
        | mk r2 s2 =>
          cases r2 with
          | error e => rfl
          | ok f => simp only [acceptKeyM_eq, TokM.lift_run]

theorem loadPkcs11Key_inside (mods : List P11Module) (ksk : KskKey) (pol : KskPolicy) (b : Bundle)
    (isPublic : Bool) (tok : Token) (s : TokState) (h : ¬ WindowViolated ksk b) :
    loadPkcs11Key mods ksk pol b isPublic tok s = loadAfterWindow mods ksk pol isPublic tok s := by
  have h1 : ¬ ksk.validFrom > b.inception := fun x => h (Or.inl x)
  have key := loadAfterWindowM_run mods ksk pol isPublic tok s
  unfold loadAfterWindowM at key
  rw [← key]
  unfold loadPkcs11Key
  simp only [h1, ↓reduceIte]
  have key2 : ∀ f0 : P11Key, ∀ tok s, 
    (if (f0.publicKey.isNone && !isPublic) = true then do
            let __do_lift ← getP11Key ksk.label true ksk.hashUsingHsm mods
            match __do_lift with
              | some fp => do
                let found ← pure { f0 with publicKey := fp.publicKey }
                acceptKeyM ksk pol found
              | none => do
                let found ← pure f0
                acceptKeyM ksk pol found
          else do
            let found ← pure f0
            acceptKeyM ksk pol found) tok s = (refetchPublic mods ksk isPublic f0 >>= acceptKeyM ksk pol) tok s := by
    intro f0 tok s
    unfold refetchPublic
    split
    · simp only [bind_run]
      cases getP11Key ksk.label true ksk.hashUsingHsm mods tok s with
      | mk r s1 =>
        cases r with
        | error e => rfl
        | ok o => cases o <;> rfl
    · rfl
  have key3 : ∀ tok s, (do
      let __do_lift ← getP11Key ksk.label isPublic ksk.hashUsingHsm mods
      match __do_lift with
        | none => pure none
        | some f0 =>
          if (f0.publicKey.isNone && !isPublic) = true then do
            let __do_lift ← getP11Key ksk.label true ksk.hashUsingHsm mods
            match __do_lift with
              | some fp => do
                let found ← pure { f0 with publicKey := fp.publicKey }
                acceptKeyM ksk pol found
              | none => do
                let found ← pure f0
                acceptKeyM ksk pol found
          else do
            let found ← pure f0
            acceptKeyM ksk pol found) tok s = (do
      match ← getP11Key ksk.label isPublic ksk.hashUsingHsm mods with
      | none => pure none
      | some found0 => do
        let found ← refetchPublic mods ksk isPublic found0
        acceptKeyM ksk pol found) tok s := by
    intro tok s
    simp only [bind_run]
    cases getP11Key ksk.label isPublic ksk.hashUsingHsm mods tok s with
    | mk r s1 =>
      cases r with
      | error e => rfl
      | ok o =>
        cases o with
        | none => rfl
        | some f0 => simpa only [bind_run] using key2 f0 tok s1
  cases hu : ksk.validUntil with
  | none => exact key3 tok s
  | some u =>
    have h2 : ¬ u < b.expiration := fun x => h (Or.inr ⟨u, hu, x⟩)
    simp only [h2, ↓reduceIte]
    exact key3 tok s


theorem loadPkcs11Key_violated (mods : List P11Module) (ksk : KskKey) (pol : KskPolicy) (b : Bundle)
    (isPublic : Bool) (tok : Token) (s : TokState) (h : WindowViolated ksk b) :
    loadPkcs11Key mods ksk pol b isPublic tok s = (.error (.violation .keyUsage), s) := by
  by_cases h0 : ksk.validFrom > b.inception
  · simp [loadPkcs11Key, h0, bind, TokM.fail]
  · rcases h with h | ⟨u, hu, h⟩
    · exact absurd h h0
    · simp [loadPkcs11Key, h0, hu, h, bind, TokM.fail]

theorem refetchPublic_emits (mods : List P11Module) (ksk : KskKey) (isPublic : Bool) (found : P11Key) :
    Emits (IsReadAmong mods) (refetchPublic mods ksk isPublic found) := by
  have := getP11Key_emits ksk.label true ksk.hashUsingHsm mods
  unfold refetchPublic
  repeat' emits_step

theorem acceptKeyM_emits {P} (ksk : KskKey) (pol : KskPolicy) (found : P11Key) :
    Emits P (acceptKeyM ksk pol found) := by
  rw [acceptKeyM_eq]; exact Emits.lift _

theorem loadAfterWindowM_emits (mods : List P11Module) (ksk : KskKey) (pol : KskPolicy)
    (isPublic : Bool) : Emits (IsReadAmong mods) (loadAfterWindowM mods ksk pol isPublic) := by
  unfold loadAfterWindowM
  refine Emits.bind (getP11Key_emits ksk.label isPublic ksk.hashUsingHsm mods) (fun o => ?_)
  split
  · exact Emits.pure _
  · exact Emits.bind (refetchPublic_emits mods ksk isPublic _) (fun f => acceptKeyM_emits ksk pol f)

theorem loadPkcs11Key_emits (mods : List P11Module) (ksk : KskKey) (pol : KskPolicy) (b : Bundle)
    (isPublic : Bool) : Emits (IsReadAmong mods) (loadPkcs11Key mods ksk pol b isPublic) := by
  intro tok s
  by_cases h : WindowViolated ksk b
  · rw [loadPkcs11Key_violated _ _ _ _ _ _ _ h]; exact ⟨[], rfl, rfl, by simp⟩
  · rw [loadPkcs11Key_inside _ _ _ _ _ _ _ h, ← loadAfterWindowM_run]
    exact loadAfterWindowM_emits mods ksk pol isPublic tok s

/-! ### `_fetch_keys` -/

theorem fetchKeys_cons_run (ext : Externals) (mods : List P11Module) (cfg : SignerConfig) (b : Bundle)
    (isPublic : Bool) (name : String) (rest : List String) (tok : Token) (s : TokState) :
    fetchKeys ext mods cfg b isPublic (name :: rest) tok s =
      match cfg.kskKeys.lookup name with
      | none => (.error (.error .key), s)
      | some ksk =>
        match loadPkcs11Key mods ksk cfg.kskPolicy b isPublic tok s with
        | (.error e, s1) => (.error e, s1)
        | (.ok none, s1) => (.error (.error .configuration), s1)
        | (.ok (some ck), s1) =>
          match validateDnskeyMatchesKsk ext ksk ck.dns with
          | .error e => (.error e, s1)
          | .ok _ =>
            match fetchKeys ext mods cfg b isPublic rest tok s1 with
            | (.error e, s2) => (.error e, s2)
            | (.ok more, s2) => (.ok (ck :: more), s2) := by
  rw [fetchKeys]
  cases cfg.kskKeys.lookup name with
  | none => rfl
  | some ksk =>
    simp only [bind_run]
    cases loadPkcs11Key mods ksk cfg.kskPolicy b isPublic tok s with
    | mk r s1 =>
      cases r with
      | error e => rfl
      | ok o =>
        cases o with
        | none => rfl
        | some ck =>
          simp only [lift_bind_run]
          cases validateDnskeyMatchesKsk ext ksk ck.dns with
          | error e => rfl
          | ok u =>
            simp only [bind_run]
            cases fetchKeys ext mods cfg b isPublic rest tok s1 with
            | mk r2 s2 => cases r2 <;> rfl

theorem fetchKeys_emits (ext : Externals) (mods : List P11Module) (cfg : SignerConfig) (b : Bundle)
    (isPublic : Bool) (names : List String) :
    Emits (IsReadAmong mods) (fetchKeys ext mods cfg b isPublic names) := by
  induction names with
  | nil => exact Emits.pure _
  | cons name rest ih =>
    have := fun ksk => loadPkcs11Key_emits mods ksk cfg.kskPolicy b isPublic
    rw [fetchKeys]
    split
    · exact Emits.err _
    · refine Emits.bind (this _) (fun o => ?_)
      repeat' emits_step

/-! ### The `sessions` property -/

def openOpOf (m : P11Module) (slot : Nat) : TokOp :=
  .openSession m.path slot (if m.rwSession then ckfRwSession else 0)

def loginOpOf (m : P11Module) (slot : Nat) (p : String) : TokOp :=
  .login m.path slot p (if m.soLogin then ckuSo else ckuUser)

/-- open + (when a PIN is configured) login on one slot: was the slot kept, and the state after -/
def openOne (m : P11Module) (slot : Nat) (tok : Token) (s : TokState) : Bool × TokState :=
  let o := tok s.count (openOpOf m slot)
  let s1 := s.push (openOpOf m slot) o
  if o = .error then (false, s1) else
  match (if m.soLogin then m.soPin else m.pin) with
  | none => (true, s1)
  | some p =>
    let l := tok s1.count (loginOpOf m slot p)
    (decide (l ≠ .error), s1.push (loginOpOf m slot p) l)

def keepSlot (acc : P11Module) (slot : Nat) : P11Module := { acc with sessions := acc.sessions ++ [slot] }
def dropSlot (acc : P11Module) (slot : Nat) : P11Module :=
  { acc with slots := acc.slots.filter (· != slot) }

theorem openSessions_cons_run (m : P11Module) (slot : Nat) (rest : List Nat) (acc : P11Module)
    (tok : Token) (s : TokState) :
    openSessions m (slot :: rest) acc tok s =
      openSessions m rest (if (openOne m slot tok s).1 then keepSlot acc slot else dropSlot acc slot)
        tok (openOne m slot tok s).2 := by
  rw [openSessions]
  simp only [bind_run, ask_run']
  unfold openOne openOpOf
  simp only
  cases ho : tok s.count (TokOp.openSession m.path slot (if m.rwSession = true then ckfRwSession else 0))
  case error => simp [dropSlot]
  all_goals
    simp only [reduceCtorEq, ↓reduceIte]
    cases hp : (if m.soLogin = true then m.soPin else m.pin) with
    | none => simp [keepSlot]
    | some p =>
      simp only [bind_run, ask_run', loginOpOf]
      cases hl : tok (s.count + 1) (TokOp.login m.path slot p (if m.soLogin = true then ckuSo else ckuUser)) <;>
        simp [keepSlot, dropSlot, TokState.push, hl]


/-- the slot a logged answer refuses (an `.error` answer to open-session or login on `path`) -/
def refusalOf (path : String) (e : TokOp × TokAns) : Option Nat :=
  match e with
  | (.openSession p s _, .error) => if p = path then some s else none
  | (.login p s _ _, .error) => if p = path then some s else none
  | _ => none

/-- according to the logged answers `l`, slot `sl` of module `path` refused to open or to log in -/
def refusedIn (path : String) (l : List (TokOp × TokAns)) (sl : Nat) : Bool :=
  l.any fun e => refusalOf path e == some sl

theorem refusedIn_append (path : String) (a b : List (TokOp × TokAns)) (x : Nat) :
    refusedIn path (a ++ b) x = (refusedIn path a x || refusedIn path b x) := by
  simp [refusedIn, List.any_append]

theorem refusalOf_open (m : P11Module) (slot : Nat) (a : TokAns) :
    refusalOf m.path (openOpOf m slot, a) = if a = .error then some slot else none := by
  cases a <;> simp [refusalOf, openOpOf]

theorem refusalOf_login (m : P11Module) (slot : Nat) (p : String) (a : TokAns) :
    refusalOf m.path (loginOpOf m slot p, a) = if a = .error then some slot else none := by
  cases a <;> simp [refusalOf, loginOpOf]

theorem openOne_log (m : P11Module) (slot : Nat) (tok : Token) (s : TokState) :
    ∃ l₁, (openOne m slot tok s).2.log = l₁ ++ s.log ∧
      refusedIn m.path l₁ slot = !(openOne m slot tok s).1 ∧
      ∀ x, x ≠ slot → refusedIn m.path l₁ x = false := by
  unfold openOne
  simp only
  by_cases ho : tok s.count (openOpOf m slot) = .error
  · simp only [ho, ↓reduceIte]
    refine ⟨[(openOpOf m slot, .error)], by simp, by simp [refusedIn, refusalOf_open], ?_⟩
    intro x hx; simp [refusedIn, refusalOf_open]; exact fun h => hx h.symm
  · simp only [ho, ↓reduceIte]
    cases hp : (if m.soLogin = true then m.soPin else m.pin) with
    | none =>
      exact ⟨[(openOpOf m slot, tok s.count (openOpOf m slot))], by simp,
        by simp [refusedIn, refusalOf_open, ho], by simp [refusedIn, refusalOf_open, ho]⟩
    | some p =>
      simp only [TokState.push_count]
      by_cases hl : tok (s.count + 1) (loginOpOf m slot p) = .error
      · refine ⟨[(loginOpOf m slot p, .error), (openOpOf m slot, tok s.count (openOpOf m slot))],
          by simp [hl], by simp [refusedIn, refusalOf_open, refusalOf_login, ho, hl], ?_⟩
        intro x hx; simp [refusedIn, refusalOf_open, refusalOf_login, ho]; exact fun h => hx h.symm
      · exact ⟨[(loginOpOf m slot p, tok (s.count + 1) (loginOpOf m slot p)),
            (openOpOf m slot, tok s.count (openOpOf m slot))],
          by simp, by simp [refusedIn, refusalOf_open, refusalOf_login, ho, hl],
          by simp [refusedIn, refusalOf_open, refusalOf_login, ho, hl]⟩


/-! ### Evaluating the attribute → public key conversion on a token with stable answers -/

/-- ask for one attribute and take it out of the one-element answer -/
theorem askAttr_run {β} (tok : Token) (op : TokOp) (x : AttrAns) (s : TokState) (f : AttrAns → TokM β)
    (h : tok s.count op = .attrs [x]) :
    (askOk op >>= fun a => attr1 a >>= f) tok s = f x tok (s.push op (.attrs [x])) := by
  rw [bind_run, askOk_run_of_ne _ _ _ (by rw [h]; simp), h]
  rfl

/-- the RSA branch of `_p11_object_to_public_key`, on a token whose answers about this object do
    not depend on the operation index -/
theorem p11ObjectToPublicKey_rsa_run (tok : Token) (path : String) (slot h : Nat) (n e : Bytes)
    (hkt : ∀ i, tok i (.getAttr path slot h ["KEY_TYPE"]) = .attrs [.num ckkRsa])
    (hn : ∀ i, tok i (.getAttr path slot h ["MODULUS"]) = .attrs [.bytes n])
    (he : ∀ i, tok i (.getAttr path slot h ["PUBLIC_EXPONENT"]) = .attrs [.bytes e]) (s : TokState) :
    p11ObjectToPublicKey path slot h tok s =
      ((rsaEncode (beNat e) n).map some,
        ((s.push (.getAttr path slot h ["KEY_TYPE"]) (.attrs [.num ckkRsa])).push
          (.getAttr path slot h ["MODULUS"]) (.attrs [.bytes n])).push
          (.getAttr path slot h ["PUBLIC_EXPONENT"]) (.attrs [.bytes e])) := by
  unfold p11ObjectToPublicKey
  rw [askAttr_run _ _ _ _ _ (hkt _)]
  simp only [↓reduceIte]
  rw [askAttr_run _ _ _ _ _ (hn _), askAttr_run _ _ _ _ _ (he _)]
  simp only [attrBytes, bind_run, TokM.pure_run, TokM.lift_run]
  cases rsaEncode (beNat e) n <;> rfl

/- `ecUnwrap` (SoftHSM2 wraps the point in a DER OCTET STRING `04 <len> 04 …`: the octets after the header,
   by the rule of the tree in /repo now) and `ecUnwrapWith` (the rule for either value of the tabulated
   behaviour switch) are part of the model: Kskm/Hsm.lean. -/

/-- the EC branch of `_p11_object_to_public_key` once point and parameters have been read -/
def ecDerive (point params : Bytes) : Res (Option String) :=
  if params = ecOidP256 then
    (if ((ecUnwrap point).length - 1) * 8 / 2 ≠ 256 then err .runtime
     else pure (some (Base64.encode (ecUnwrap point))))
  else if params = ecOidP384 then
    (if ((ecUnwrap point).length - 1) * 8 / 2 ≠ 384 then err .runtime
     else pure (some (Base64.encode (ecUnwrap point))))
  else err .runtime

/-- the EC branch under either unwrap rule (`checksLength` = the tabulated behaviour switch
    `KskmGen.ecUnwrapChecksLength`): same text as `ecDerive` with `ecUnwrapWith checksLength` -/
def ecDeriveWith (checksLength : Bool) (point params : Bytes) : Res (Option String) :=
  if params = ecOidP256 then
    (if ((ecUnwrapWith checksLength point).length - 1) * 8 / 2 ≠ 256 then err .runtime
     else pure (some (Base64.encode (ecUnwrapWith checksLength point))))
  else if params = ecOidP384 then
    (if ((ecUnwrapWith checksLength point).length - 1) * 8 / 2 ≠ 384 then err .runtime
     else pure (some (Base64.encode (ecUnwrapWith checksLength point))))
  else err .runtime

/-- `ecDerive` is `ecDeriveWith` at the switch value tabulated from the tree in /repo now -/
theorem ecDerive_eq_with (point params : Bytes) :
    ecDerive point params = ecDeriveWith KskmGen.ecUnwrapChecksLength point params := rfl

/-- a string that does not start with the three octets of a wrapper of itself is left alone by either rule -/
theorem ecUnwrapWith_of_not_prefix (b : Bool) (point : Bytes)
    (h : point.take 3 ≠ [4, UInt8.ofNat (point.length - 2), 4]) : ecUnwrapWith b point = point := by
  unfold ecUnwrapWith
  rw [if_neg (fun hc => h hc.1)]

/-- a wrapped point `04 k 04 x y` whose inner part has k = 65 / 97 octets is unwrapped by either rule -/
theorem ecUnwrapWith_wrapped (b : Bool) (xy : Bytes) (k : Nat) (hk : k = 65 ∨ k = 97)
    (hxy : xy.length + 1 = k) : ecUnwrapWith b (4 :: UInt8.ofNat k :: 4 :: xy) = 4 :: xy := by
  unfold ecUnwrapWith
  have hl : (4 :: UInt8.ofNat k :: 4 :: xy).length - 2 = k := by simp; omega
  rw [hl]
  have hc : List.take 3 (4 :: UInt8.ofNat k :: 4 :: xy) = [4, UInt8.ofNat k, 4] ∧
      (b = false ∨ k = 65 ∨ k = 97) := ⟨by simp, Or.inr hk⟩
  rw [if_pos hc]
  rfl

/-- the repaired rule leaves EVERY string of 65 / 97 octets alone, whatever its octets -/
theorem ecUnwrapWith_true_of_point_length (point : Bytes) (h : point.length = 65 ∨ point.length = 97) :
    ecUnwrapWith true point = point := by
  unfold ecUnwrapWith
  have hc : ¬ (point.take 3 = [4, UInt8.ofNat (point.length - 2), 4] ∧
      (true = false ∨ point.length - 2 = 65 ∨ point.length - 2 = 97)) := by
    rintro ⟨_, h1 | h2 | h3⟩
    · cases h1
    · omega
    · omega
  rw [if_neg hc]

/-- the pinned rule cuts two octets off every string that starts with the three octets of a wrapper of itself -/
theorem ecUnwrapWith_false_of_prefix (point : Bytes)
    (h : point.take 3 = [4, UInt8.ofNat (point.length - 2), 4]) : ecUnwrapWith false point = point.drop 2 := by
  unfold ecUnwrapWith
  rw [if_pos ⟨h, Or.inl rfl⟩]

theorem p11ObjectToPublicKey_ec_absent (tok : Token) (path : String) (slot h : Nat) (pt : AttrAns)
    (hkt : ∀ i, tok i (.getAttr path slot h ["KEY_TYPE"]) = .attrs [.num ckkEc])
    (hpt : ∀ i, tok i (.getAttr path slot h ["EC_POINT"]) = .attrs [pt])
    (habs : pt = .none ∨ pt = .bytes []) (s : TokState) :
    p11ObjectToPublicKey path slot h tok s =
      (.ok none, (s.push (.getAttr path slot h ["KEY_TYPE"]) (.attrs [.num ckkEc])).push
          (.getAttr path slot h ["EC_POINT"]) (.attrs [pt])) := by
  unfold p11ObjectToPublicKey
  rw [askAttr_run _ _ _ _ _ (hkt _)]
  simp only [ckkEc, ckkRsa, Nat.reduceEqDiff, ↓reduceIte]
  rw [askAttr_run _ _ _ _ _ (hpt _)]
  rcases habs with rfl | rfl <;> rfl

theorem p11ObjectToPublicKey_ec_run (tok : Token) (path : String) (slot h : Nat) (a : UInt8)
    (r params : Bytes)
    (hkt : ∀ i, tok i (.getAttr path slot h ["KEY_TYPE"]) = .attrs [.num ckkEc])
    (hpt : ∀ i, tok i (.getAttr path slot h ["EC_POINT"]) = .attrs [.bytes (a :: r)])
    (hpar : ∀ i, tok i (.getAttr path slot h ["EC_PARAMS"]) = .attrs [.bytes params])
    (hlen : 2 ≤ (a :: r).length ∧ (a :: r).length < 258) (s : TokState) :
    p11ObjectToPublicKey path slot h tok s =
      (ecDerive (a :: r) params,
        ((s.push (.getAttr path slot h ["KEY_TYPE"]) (.attrs [.num ckkEc])).push
          (.getAttr path slot h ["EC_POINT"]) (.attrs [.bytes (a :: r)])).push
          (.getAttr path slot h ["EC_PARAMS"]) (.attrs [.bytes params])) := by
  unfold p11ObjectToPublicKey
  rw [askAttr_run _ _ _ _ _ (hkt _)]
  simp only [ckkEc, ckkRsa, Nat.reduceEqDiff, ↓reduceIte]
  rw [askAttr_run _ _ _ _ _ (hpt _)]
  have hg : ¬ ((a :: r).length < 2 ∨ 258 ≤ (a :: r).length) := by omega
  simp only [hg, ↓reduceIte]
  rw [askAttr_run _ _ _ _ _ (hpar _)]
  simp only [attrBytes, bind_run, TokM.pure_run]
  have pure_bind : ∀ {α β : Type} (x : α) (f : α → TokM β) (t : Token) (s : TokState),
      (pure x >>= f) t s = f x t s := fun _ _ _ _ => rfl
  unfold ecDerive
  by_cases h1 : params = ecOidP256
  · simp only [h1, ↓reduceIte, pure_bind, ite_run, TokM.err_run, TokM.pure_run]
    split <;> rfl
  · by_cases h2 : params = ecOidP384
    · subst h2
      simp only [h1, ↓reduceIte, pure_bind, ite_run, TokM.err_run, TokM.pure_run]
      split <;> rfl
    · simp only [h1, h2, ↓reduceIte, err_bind_run]
      rfl


theorem foundKeyTail_run (m : P11Module) (label : String) (cls : Nat) (hh : Option Bool) (sl h : Nat)
    (pk : Option String) (tok : Token) (s : TokState) (n : Nat) (t : KeyType)
    (hkt : tok s.count (.getAttr m.path sl h ["KEY_TYPE"]) = .attrs [.num n])
    (ht : keyTypeOf n = some t) :
    foundKeyTail m label cls hh sl h pk tok s =
      (.ok (some { label, keyType := t, keyClass := cls, hashUsingHsm := hh, publicKey := pk,
                   module := m.path, slot := sl,
                   privHandle := if cls ≠ ckoPublic then some h else none,
                   pubHandle := if cls ≠ ckoSecret then some h else none }),
        s.push (.getAttr m.path sl h ["KEY_TYPE"]) (.attrs [.num n])) := by
  unfold foundKeyTail
  rw [askAttr_run _ _ _ _ _ hkt]
  simp only [ht, TokM.pure_run]

end Kskm
