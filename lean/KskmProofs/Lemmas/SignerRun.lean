/-
  Forward (success) lemmas for the signer model, used by `C01_completes_partial`: under explicit
  readiness conditions `_sign_keys`, the signing loop and `validate_signatures` go through.
-/
import KskmProofs.Lemmas.SignerInv
import KskmProofs.Lemmas.Base64
namespace Kskm

/-- everything `_sign_keys` needs of one signing key `sk` and the key set `keys`, for a token that
    from operation `from_` on answers the `C_Sign` request with a signature the verifier accepts -/
def SignerReady (ext : Externals) (bundle : Bundle) (pol : KskPolicy) (keys : List Key)
    (sk : CompositeKey) (tok : Token) (from_ : Nat) : Prop :=
  ∃ dnsKey pk raw d hdl,
    dnsKey ∈ keys ∧ dnsKey.keyIdentifier = sk.dns.keyIdentifier ∧ dnsKey.publicKey = pk ∧
    dnsKey.algorithm = sk.dns.algorithm ∧
    sk.p11.publicKey = some pk ∧
    publicKeyFromKey { sk.dns with publicKey := pk } = .ok () ∧
    makeRawRrsig (sigTemplate bundle sk pol 0 dnsKey.keyTag) keys = .ok raw ∧
    sk.p11.keyType ≠ .aes ∧ sk.p11.keyType ≠ .des3 ∧
    formatDataForSigning ext.hash sk.p11 raw sk.dns.algorithm = .ok d ∧
    sk.p11.privHandle = some hdl ∧
    ∀ n, from_ ≤ n → ∃ b, tok n (.sign sk.p11.module sk.p11.slot hdl d.mechanism d.data) = .sig b ∧
      ext.verify sk.dns.algorithm pk raw b = .valid

/-- what `validate_signatures` checks of one signature against the key set -/
def ReValid (verify : Verifier) (keys : List Key) (σ : Signature) : Prop :=
  ∃ key sigBytes raw, lookupKey keys σ.keyIdentifier = some key ∧ publicKeyFromKey key = .ok () ∧
    Base64.decode σ.signatureData = some sigBytes ∧ makeRawRrsig σ keys = .ok raw ∧
    verify key.algorithm key.publicKey raw sigBytes = .valid

theorem hasDupIds_cons (a : Key) (r : List Key) :
    hasDupIds (a :: r) = false ↔ (∀ x ∈ r, x.keyIdentifier ≠ a.keyIdentifier) ∧ hasDupIds r = false := by
  simp [hasDupIds]

theorem filter_id_of_noDup {keys : List Key} (hnd : hasDupIds keys = false) {k : Key} (hk : k ∈ keys) :
    keys.filter (fun x => x.keyIdentifier = k.keyIdentifier) = [k] := by
  induction keys with
  | nil => cases hk
  | cons a r ih =>
    obtain ⟨h1, h2⟩ := (hasDupIds_cons a r).mp hnd
    rcases List.mem_cons.mp hk with rfl | hk
    · rw [List.filter_cons]
      simp only [decide_true, ↓reduceIte, List.cons.injEq, true_and, List.filter_eq_nil_iff,
        decide_eq_true_eq]
      exact h1
    · have : a.keyIdentifier ≠ k.keyIdentifier := fun e => h1 k hk e.symm
      rw [List.filter_cons]
      simp only [this, decide_false, Bool.false_eq_true, ↓reduceIte]
      exact ih h2 hk

theorem ktsGet_of_noDup {keys : List Key} (hnd : hasDupIds keys = false) {k : Key} (hk : k ∈ keys) :
    ktsGet keys k.keyIdentifier = .ok (some k) := by
  unfold ktsGet
  rw [filter_id_of_noDup hnd hk]
  rfl

theorem lookupKey_of_noDup {keys : List Key} (hnd : hasDupIds keys = false) {k : Key} (hk : k ∈ keys) :
    lookupKey keys k.keyIdentifier = some k := by
  unfold lookupKey
  induction keys with
  | nil => cases hk
  | cons a r ih =>
    obtain ⟨h1, h2⟩ := (hasDupIds_cons a r).mp hnd
    rcases List.mem_cons.mp hk with rfl | hk
    · simp
    · have : a.keyIdentifier ≠ k.keyIdentifier := fun e => h1 k hk e.symm
      rw [List.find?_cons]
      simp only [this, decide_false]
      exact ih h2 hk

theorem publicKeyFromKey_congr (a b : Key) (h1 : a.algorithm = b.algorithm) (h2 : a.publicKey = b.publicKey) :
    publicKeyFromKey a = publicKeyFromKey b := by
  unfold publicKeyFromKey
  rw [h1, h2]

/-- forward: a ready signing key signs -/
theorem signKeys_run {ext : Externals} {bundle : Bundle} {pol : KskPolicy} {keys : List Key}
    {sk : CompositeKey} {tok : Token} {from_ : Nat} (s : TokState)
    (hroot : pol.signersName = ".") (httl : ∀ x ∈ keys, x.ttl = pol.ttl)
    (hnd : hasDupIds keys = false) (hr : SignerReady ext bundle pol keys sk tok from_)
    (hs : from_ ≤ s.count) :
    ∃ σ s', signKeys ext bundle keys sk pol tok s = (.ok σ, s') ∧ s'.count = s.count + 1 := by
  obtain ⟨dnsKey, pk, raw, d, hdl, h1, h2, h3, h4, h5, h6, h7, h8, h9, h10, h11, h12⟩ := hr
  obtain ⟨b, hb, hv⟩ := h12 s.count hs
  have hany : (keys.any fun k => k.ttl != pol.ttl) = false := by
    rw [Bool.eq_false_iff]
    intro h
    simp only [List.any_eq_true, bne_iff_ne, ne_eq] at h
    obtain ⟨k, hk, hne⟩ := h
    exact hne (httl k hk)
  have hget : ktsGet keys sk.dns.keyIdentifier = .ok (some dnsKey) := by
    rw [← h2]; exact ktsGet_of_noDup hnd h1
  have hdepth : dndepth pol.signersName = .ok 0 := by simp [dndepth, hroot, pure, Except.pure]
  have hsign : signUsingP11 ext.hash sk.p11 raw sk.dns.algorithm tok s =
      (.ok b, ⟨s.count + 1, (.sign sk.p11.module sk.p11.slot hdl d.mechanism d.data, .sig b) :: s.log⟩) := by
    have hask : askOk (.sign sk.p11.module sk.p11.slot hdl d.mechanism d.data) tok s =
        (.ok (.sig b), ⟨s.count + 1, (.sign sk.p11.module sk.p11.slot hdl d.mechanism d.data, .sig b) :: s.log⟩) := by
      unfold askOk
      rw [TokM.bind_eq, ask_run, hb]
      rfl
    unfold signUsingP11
    cases hk : sk.p11.keyType
    · simp only [TokM.bind_eq, TokM.lift_run, h10, h11, hask, TokM.pure_run]
    · simp only [TokM.bind_eq, TokM.lift_run, h10, h11, hask, TokM.pure_run]
    · exact absurd hk h8
    · exact absurd hk h9
  have hrun : signKeys ext bundle keys sk pol tok s =
      (.ok { sigTemplate bundle sk pol 0 dnsKey.keyTag with signatureData := Base64.encode b },
       ⟨s.count + 1, (.sign sk.p11.module sk.p11.slot hdl d.mechanism d.data, .sig b) :: s.log⟩) := by
    unfold signKeys
    simp only [hany, Bool.false_eq_true, ↓reduceIte, TokM.bind_eq, TokM.lift_run, hget, hdepth]
    unfold sigTemplate at h7
    simp only [h7, hsign, h5, h6, hv]
    rfl
  exact ⟨_, _, hrun, rfl⟩

/-- forward: the signing loop goes through when every listed key is ready -/
theorem signAll_run {ext : Externals} {bundle : Bundle} {pol : KskPolicy} {keys : List Key}
    {tok : Token} {from_ : Nat}
    (hroot : pol.signersName = ".") (httl : ∀ x ∈ keys, x.ttl = pol.ttl)
    (hnd : hasDupIds keys = false) (sks : List CompositeKey) (acc : List Signature) (s : TokState)
    (hs : from_ ≤ s.count) (hr : ∀ sk ∈ sks, SignerReady ext bundle pol keys sk tok from_) :
    ∃ sigs s4, signAll ext bundle keys pol sks acc tok s = (.ok sigs, s4) := by
  induction sks generalizing acc s with
  | nil => exact ⟨acc, s, by simp [signAll_nil]⟩
  | cons sk rest ih =>
    rw [signAll_cons]
    by_cases hany : acc.any (fun s => s.keyIdentifier = sk.dns.keyIdentifier) = true
    · simp only [hany, ↓reduceIte]
      exact ih acc s hs (fun k hk => hr k (List.mem_cons_of_mem _ hk))
    · simp only [hany, Bool.false_eq_true, ↓reduceIte]
      obtain ⟨σ, s', hrun, hc⟩ := signKeys_run s hroot httl hnd (hr sk (by simp)) hs
      rw [TokM.bind_eq, hrun]
      exact ih (acc ++ [σ]) s' (by omega) (fun k hk => hr k (List.mem_cons_of_mem _ hk))

/-- a signature made by a ready key passes the reader-side check against the same key set -/
theorem reValid_of_signKeys {ext : Externals} {bundle : Bundle} {pol : KskPolicy} {keys : List Key}
    {sk : CompositeKey} {tok : Token} {from_ : Nat} {s s' : TokState} {σ : Signature}
    (hnd : hasDupIds keys = false) (hr : SignerReady ext bundle pol keys sk tok from_)
    (hrun : signKeys ext bundle keys sk pol tok s = (.ok σ, s')) : ReValid ext.verify keys σ := by
  obtain ⟨dnsKey, pk, raw, d, hdl, h1, h2, h3, h4, h5, h6, _⟩ := hr
  obtain ⟨_, dnsKey', labels, raw', sigBytes, pk', hget, _, hraw, _, hpk, _, hv, rfl⟩ := signKeys_ok hrun
  have e1 : dnsKey = dnsKey' := (ktsGet_some_mem hget).2.2 dnsKey h1 h2
  subst e1
  have e2 : pk' = pk := by rw [h5] at hpk; exact (Option.some.inj hpk).symm
  subst e2
  refine ⟨dnsKey, sigBytes, raw', ?_, ?_, Base64.decode_encode sigBytes, hraw, ?_⟩
  · show lookupKey keys sk.dns.keyIdentifier = some dnsKey
    rw [← h2]; exact lookupKey_of_noDup hnd h1
  · rw [← h6]; exact publicKeyFromKey_congr _ _ h4 h3
  · rw [h4, h3]; exact hv

/-- the loop completes, every signature passes the reader-side check, the algorithm set of the
    signatures is that of the signing keys, and there is a signature if there is a signing key -/
theorem signAll_completes (ext : Externals) (bundle : Bundle) (pol : KskPolicy) (keys : List Key)
    (signing : List CompositeKey) (tok : Token) (s : TokState)
    (hroot : pol.signersName = ".") (httl : ∀ x ∈ keys, x.ttl = pol.ttl)
    (hnd : hasDupIds keys = false)
    (hr : ∀ sk ∈ signing, SignerReady ext bundle pol keys sk tok s.count) :
    ∃ sigs s4, signAll ext bundle keys pol signing [] tok s = (.ok sigs, s4) ∧
      (∀ σ ∈ sigs, ReValid ext.verify keys σ) ∧
      ((∀ a ∈ signing, ∀ b ∈ signing, a.dns.keyIdentifier = b.dns.keyIdentifier →
          a.dns.algorithm = b.dns.algorithm) →
        ∀ a, a ∈ sigs.map (·.algorithm) ↔ a ∈ signing.map (·.dns.algorithm)) ∧
      (signing ≠ [] → sigs ≠ []) := by
  obtain ⟨sigs, s4, hrun⟩ := signAll_run hroot httl hnd signing [] s (Nat.le_refl _) hr
  obtain ⟨new, e, h1, h2, _, _⟩ := signAll_ok hrun
  simp only [List.nil_append] at e
  subst e
  refine ⟨sigs, s4, hrun, ?_, ?_, ?_⟩
  · intro σ hσ
    obtain ⟨sk, hsk, sa, sb, hk⟩ := h1 σ hσ
    exact reValid_of_signKeys hnd (hr sk hsk) hk
  · intro hid a
    simp only [List.mem_map]
    constructor
    · rintro ⟨σ, hσ, rfl⟩
      obtain ⟨sk, hsk, sa, sb, hk⟩ := h1 σ hσ
      exact ⟨sk, hsk, (signKeys_ok_id hk).2.1.symm⟩
    · rintro ⟨sk, hsk, rfl⟩
      obtain ⟨σ, hσ, hid'⟩ := h2 sk hsk
      obtain ⟨sk', hsk', sa, sb, hk⟩ := h1 σ hσ
      obtain ⟨i1, i2, _⟩ := signKeys_ok_id hk
      exact ⟨σ, hσ, by rw [i2]; exact hid sk' hsk' sk hsk (i1.symm.trans hid')⟩
  · intro hne he
    cases hs : signing with
    | nil => exact hne hs
    | cons sk r =>
      obtain ⟨σ, hσ, _⟩ := h2 sk (by simp [hs])
      rw [he] at hσ
      cases hσ

/-- `validate_signatures` accepts a bundle with keys, signatures, no repeated identifier, and every
    signature passing the per-signature check -/
theorem validateSignatures_of_each (verify : Verifier) (rb : Bundle) (hk : rb.keys ≠ [])
    (hs : rb.signatures ≠ []) (hnd : hasDupIds rb.keys = false)
    (hval : ∀ σ ∈ rb.signatures, ReValid verify rb.keys σ) : validateSignatures verify rb = .ok () := by
  unfold validateSignatures
  have h1 : rb.keys.isEmpty = false := by cases h : rb.keys <;> simp_all
  have h2 : rb.signatures.isEmpty = false := by cases h : rb.signatures <;> simp_all
  simp only [h1, h2, hnd, Bool.false_eq_true, ↓reduceIte, bind, Except.bind, pure, Except.pure]
  rw [forEach_ok_iff]
  intro σ hσ
  obtain ⟨key, sigBytes, raw, hl, hp, hd, hr, hv⟩ := hval σ hσ
  simp only [hl, hp, hd, hr, hv]

/-- forward: in-range fields, root signer name, decodable and short RDATAs ⇒ `make_raw_rrsig` succeeds -/
theorem makeRawRrsig_of {sig : Signature} {keys : List Key} {rdatas : List Bytes}
    (h1 : sig.typeCovered < 65536) (h2 : sig.algorithm < 256) (h3 : inRange 8 sig.labels = true)
    (h4 : inRange 32 sig.originalTtl = true) (h5 : inRange 32 (tsSeconds sig.expiration) = true)
    (h6 : inRange 32 (tsSeconds sig.inception) = true) (h7 : inRange 16 sig.keyTag = true)
    (hroot : sig.signersName = ".") (hrd : keys.mapM keyToRdata = .ok rdatas)
    (hlen : ∀ r ∈ rdatas, r.length < 65536) :
    makeRawRrsig sig keys = .ok (rawRrsigOf sig.typeCovered sig.algorithm sig.labels.toNat
      sig.originalTtl.toNat (tsSeconds sig.expiration).toNat (tsSeconds sig.inception).toNat
      sig.keyTag.toNat rdatas) := by
  have hany : (rdatas.any fun r => decide (65536 ≤ r.length)) = false := by
    rw [Bool.eq_false_iff]
    intro h
    simp only [List.any_eq_true, decide_eq_true_eq] at h
    obtain ⟨r, hr, hl⟩ := h
    have := hlen r hr
    omega
  unfold makeRawRrsig
  simp [h1, h2, h3, h4, h5, h6, h7, dn2wire, hroot, hrd, hany, bind, Except.bind, pure, Except.pure]

end Kskm
