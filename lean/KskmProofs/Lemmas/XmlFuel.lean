/-
  Helper lemmas for C13: progress of the two fuelled loops, bounds on every index the reader computes,
  absence of fuel exhaustion for the repaired attribute loop, and stability of the result under more fuel.
-/
import KskmProofs.Lemmas.XmlTag
namespace Kskm.Xml

theorem parseAttrs_nil (cls : Classes) (sw : Switches) (fuel : Nat) (acc : Attrs) :
    parseAttrs cls sw fuel [] acc = .ok acc := by
  cases fuel <;> simp [parseAttrs]

/-- the repaired loop never runs out of `len + 1` units of fuel -/
theorem parseAttrs_ne_outOfFuel (cls : Classes) (sw : Switches) (hsw : sw.attrsLoopFailsOnNoMatch = true) :
    ∀ (fuel : Nat) (a : List Char) (acc : Attrs), a.length < fuel →
      parseAttrs cls sw fuel a acc ≠ .outOfFuel := by
  intro fuel
  induction fuel with
  | zero => intro a acc h; omega
  | succ f ih =>
    intro a acc h
    unfold parseAttrs
    split
    · simp
    · simp only
      split
      · rename_i n v rest hm
        apply ih
        have := matchAttr_consumes cls _ n v rest hm
        have := strip_length_le cls.isStrip a
        omega
      · split
        · rename_i hs
          split
          · simp
          · have : strip cls.isStrip a = [] := by simpa using hs
            rw [this, parseAttrs_nil]; simp
        · simp

/-- once the loop has an answer, more fuel does not change it -/
theorem parseAttrs_fuel_stable (cls : Classes) (sw : Switches) :
    ∀ (fuel : Nat) (a : List Char) (acc : Attrs), parseAttrs cls sw fuel a acc ≠ .outOfFuel →
      ∀ fuel', fuel ≤ fuel' → parseAttrs cls sw fuel' a acc = parseAttrs cls sw fuel a acc := by
  intro fuel
  induction fuel with
  | zero =>
    intro a acc h fuel' _
    unfold parseAttrs at h
    split at h
    · rename_i he
      have : a = [] := by simpa using he
      subst this
      rw [parseAttrs_nil, parseAttrs_nil]
    · exact absurd rfl h
  | succ f ih =>
    intro a acc h fuel' hle
    cases fuel' with
    | zero => omega
    | succ f' =>
      unfold parseAttrs at h ⊢
      split
      · rfl
      · rename_i he
        simp only [he] at h
        simp only at h ⊢
        split
        · rename_i n v rest hm
          simp only [hm] at h
          exact ih _ _ h f' (by omega)
        · rename_i hm
          simp only [hm] at h
          split
          · rename_i hs
            simp only [hs, ↓reduceIte] at h
            split
            · rfl
            · rename_i hb
              simp only [hb] at h
              exact ih _ _ h f' (by omega)
          · rename_i hs
            simp only [hs] at h
            split
            · rfl
            · rename_i hl
              simp only [hl] at h
              exact ih _ _ h f' (by omega)

/-! ### indices and slices -/

theorem parseTag_bounds (cls : Classes) (sw : Switches) (xml name : List Char) (attrs : Option Attrs) (e : Nat)
    (h : parseTag cls sw xml = .ok (name, attrs, e)) :
    3 ≤ e ∧ e ≤ xml.length ∧ name <:+: xml ∧ name ≠ [] := by
  unfold parseTag at h
  split at h
  · rename_i n ws a s hm
    obtain ⟨rest, hx, hn, hws, ha, _, _⟩ := matchTag1_decomp cls xml n ws a s hm
    split at h
    · simp only [Out.ok.injEq, Prod.mk.injEq] at h
      obtain ⟨h1, _, h3⟩ := h
      subst h1
      have hl := congrArg List.length hx
      simp only [List.length_cons, List.length_append] at hl
      have : 0 < n.length := List.length_pos_iff.mpr hn
      have : 0 < ws.length := List.length_pos_iff.mpr hws
      have : 0 < a.length := List.length_pos_iff.mpr ha
      refine ⟨by omega, by omega, ?_, hn⟩
      rw [hx]
      exact ⟨['<'], ws ++ a ++ s ++ '>' :: rest, by simp [List.append_assoc]⟩
    · simp at h
    · simp at h
  · split at h
    · rename_i n hm
      obtain ⟨rest, hx, hn, _⟩ := matchTag2_decomp cls xml n hm
      simp only [Out.ok.injEq, Prod.mk.injEq] at h
      obtain ⟨h1, _, h3⟩ := h
      subst h1
      have hl := congrArg List.length hx
      simp only [List.length_cons, List.length_append] at hl
      have : 0 < n.length := List.length_pos_iff.mpr hn
      refine ⟨by omega, by omega, ?_, hn⟩
      rw [hx]
      exact ⟨['<'], '>' :: rest, by simp⟩
    · simp at h

theorem nestedStep_bound (xml et nested : List Char) (e : Nat) (h : e + et.length ≤ xml.length) :
    nestedStep xml et nested e + et.length ≤ xml.length := by
  unfold nestedStep
  split
  · split
    · split
      · rename_i e' he
        exact (indexFrom_spec _ _ _ _ he).2.2
      · exact h
    · exact h
  · exact h

theorem findEndOfElement_bounds (xml name : List Char) (start ve ee : Nat)
    (h : findEndOfElement xml start name = some (ve, ee)) :
    ee = ve + (endTag name).length ∧ ee ≤ xml.length := by
  unfold findEndOfElement at h
  simp only at h
  split at h
  · simp at h
  · rename_i e0 he0
    simp only [Option.some.injEq, Prod.mk.injEq] at h
    obtain ⟨h1, h2⟩ := h
    have hb0 := (indexFrom_spec _ _ _ _ he0).2.2
    have hb1 := nestedStep_bound xml (endTag name) ('<' :: (name ++ ['>'])) e0 hb0
    have hb2 := nestedStep_bound xml (endTag name) ('<' :: (name ++ [' '])) _ hb1
    subst h1
    exact ⟨h2.symm, by rw [← h2]; exact hb2⟩

/-- **Every index is inside the input, every slice is a slice of the input, every element consumes
    at least three characters.** -/
theorem parseFirstElement_bounds (cls : Classes) (sw : Switches) (xml : List Char) (el : Element) (e : Nat)
    (h : parseFirstElement cls sw xml = .ok (el, e)) :
    3 ≤ e ∧ e ≤ xml.length ∧ el.value <:+: xml ∧ el.name <:+: xml := by
  unfold parseFirstElement at h
  split at h
  · simp at h
  · simp at h
  · rename_i name attrs tagEnd ht
    obtain ⟨h3, hle, hname, _⟩ := parseTag_bounds cls sw xml name attrs tagEnd ht
    split at h
    · simp only [Out.ok.injEq, Prod.mk.injEq] at h
      obtain ⟨h1, h2⟩ := h
      subst h1 h2
      exact ⟨h3, hle, List.nil_infix, hname⟩
    · split at h
      · simp at h
      · rename_i ve ee hf
        simp only [Out.ok.injEq, Prod.mk.injEq] at h
        obtain ⟨h1, h2⟩ := h
        subst h1 h2
        obtain ⟨hee, hlen⟩ := findEndOfElement_bounds xml name tagEnd ve ee hf
        refine ⟨?_, hlen, (strip_infix _ _).trans (slice_infix _ _ _), hname⟩
        simp only [endTag, List.length_cons, List.length_append] at hee
        omega

/-! ### no fuel exhaustion -/

theorem parseTag_ne_outOfFuel (cls : Classes) (sw : Switches) (hsw : sw.attrsLoopFailsOnNoMatch = true)
    (xml : List Char) : parseTag cls sw xml ≠ .outOfFuel := by
  unfold parseTag
  split
  · rename_i n ws a s _
    have := parseAttrs_ne_outOfFuel cls sw hsw (a.length + 1) a [] (by omega)
    split
    · simp
    · simp
    · rename_i hh; exact absurd hh this
  · split <;> simp

theorem parseFirstElement_ne_outOfFuel (cls : Classes) (sw : Switches)
    (hsw : sw.attrsLoopFailsOnNoMatch = true) (xml : List Char) :
    parseFirstElement cls sw xml ≠ .outOfFuel := by
  unfold parseFirstElement
  have := parseTag_ne_outOfFuel cls sw hsw xml
  split
  · simp
  · rename_i hh; exact absurd hh this
  · split
    · simp
    · split <;> simp

theorem parseLoop_nil (cls : Classes) (sw : Switches) (inner : List Char → Out Dict) (fuel : Nat) (res : Dict) :
    parseLoop cls sw inner fuel [] res = .ok res := by
  cases fuel <;> simp [parseLoop]

theorem elementContent_ne_outOfFuel (inner : List Char → Out Dict) (hinner : ∀ v, inner v ≠ .outOfFuel)
    (value : List Char) : elementContent inner value ≠ .outOfFuel := by
  unfold elementContent
  split
  · split
    · simp
    · simp
    · rename_i hi; exact absurd hi (hinner _)
  · simp

/-- **Progress of the element loop.** An iteration that goes round again hands over a strictly
    shorter string (at least three characters shorter). -/
theorem parseStep_progress (cls : Classes) (sw : Switches) (inner : List Char → Out Dict)
    (xml xml' : List Char) (res res' : Dict) (h : parseStep cls sw inner xml res = .next xml' res') :
    xml'.length + 3 ≤ xml.length ∧ xml' <:+: xml := by
  unfold parseStep at h
  split at h
  · simp at h
  · rename_i c t hs
    split at h
    · simp at h
    · split at h
      · simp at h
      · simp at h
      · rename_i el endIdx hp
        obtain ⟨h3, hle, _, _⟩ := parseFirstElement_bounds cls sw _ el endIdx hp
        split at h
        · simp at h
        · simp at h
        · simp only [Step.next.injEq] at h
          obtain ⟨hx, _⟩ := h
          subst hx
          have h1 := strip_length_le cls.isStrip xml
          rw [hs] at h1
          refine ⟨?_, ?_⟩
          · simp only [List.length_drop]; omega
          · exact (List.drop_suffix _ _).isInfix.trans (hs ▸ strip_infix cls.isStrip xml)

theorem parseStep_ne_outOfFuel (cls : Classes) (sw : Switches) (hsw : sw.attrsLoopFailsOnNoMatch = true)
    (inner : List Char → Out Dict) (hinner : ∀ v, inner v ≠ .outOfFuel) (xml : List Char) (res : Dict) :
    parseStep cls sw inner xml res ≠ .done .outOfFuel := by
  unfold parseStep
  split
  · simp
  · rename_i c t _
    split
    · simp
    · have hne := parseFirstElement_ne_outOfFuel cls sw hsw (c :: t)
      split
      · simp
      · rename_i hh; exact absurd hh hne
      · rename_i el endIdx _
        have := elementContent_ne_outOfFuel inner hinner el.value
        split
        · simp
        · rename_i hh; exact absurd hh this
        · simp

/-- With a terminating attribute loop and a terminating recursive call, `len + 1` units of fuel are
    never used up by the element loop. -/
theorem parseLoop_ne_outOfFuel (cls : Classes) (sw : Switches) (hsw : sw.attrsLoopFailsOnNoMatch = true)
    (inner : List Char → Out Dict) (hinner : ∀ v, inner v ≠ .outOfFuel) :
    ∀ (fuel : Nat) (xml : List Char) (res : Dict), xml.length < fuel →
      parseLoop cls sw inner fuel xml res ≠ .outOfFuel := by
  intro fuel
  induction fuel with
  | zero => intro xml res h; omega
  | succ f ih =>
    intro xml res h
    unfold parseLoop
    split
    · simp
    · split
      · rename_i r hst
        intro hr
        subst hr
        exact parseStep_ne_outOfFuel cls sw hsw inner hinner xml res hst
      · rename_i xml' res' hst
        have := (parseStep_progress cls sw inner xml xml' res res' hst).1
        exact ih _ _ (by omega)

/-- once the element loop has an answer, more fuel does not change it -/
theorem parseLoop_fuel_stable (cls : Classes) (sw : Switches) (inner : List Char → Out Dict) :
    ∀ (fuel : Nat) (xml : List Char) (res : Dict), parseLoop cls sw inner fuel xml res ≠ .outOfFuel →
      ∀ fuel', fuel ≤ fuel' → parseLoop cls sw inner fuel' xml res = parseLoop cls sw inner fuel xml res := by
  intro fuel
  induction fuel with
  | zero =>
    intro xml res h fuel' _
    unfold parseLoop at h
    split at h
    · rename_i he
      have : xml = [] := by simpa using he
      subst this
      rw [parseLoop_nil, parseLoop_nil]
    · exact absurd rfl h
  | succ f ih =>
    intro xml res h fuel' hle
    cases fuel' with
    | zero => omega
    | succ f' =>
      unfold parseLoop at h ⊢
      split
      · rfl
      · rename_i he
        simp only [he] at h
        split
        · rfl
        · rename_i xml' res' hst
          simp only [hst] at h
          exact ih _ _ h f' (by omega)

theorem parseRec_ne_outOfFuel (cls : Classes) (sw : Switches) (hsw : sw.attrsLoopFailsOnNoMatch = true) :
    ∀ (d : Nat) (xml : List Char), parseRec cls sw d xml ≠ .outOfFuel := by
  intro d
  induction d with
  | zero =>
    intro xml
    unfold parseRec
    exact parseLoop_ne_outOfFuel cls sw hsw _ (by intro v; simp) _ _ _ (by omega)
  | succ d ih =>
    intro xml
    unfold parseRec
    exact parseLoop_ne_outOfFuel cls sw hsw _ ih _ _ _ (by omega)

end Kskm.Xml
