/-
  Token alignment for C12: a pattern that starts with "<" can only occur where a tag starts, so
  `str.index` passes over texts and over tags of other names.  (`Skip pat s`: scanning for `pat`
  through `s` never stops inside `s`, whatever follows.)
-/
import KskmProofs.Lemmas.XmlRender
import KskmProofs.Lemmas.XmlTag
namespace Kskm.Xml

/-- scanning for `pat` passes over `s`, whatever follows it -/
def Skip (pat s : List Char) : Prop :=
  ∀ (tail : List Char) (i : Nat), findAux pat (s ++ tail) i = findAux pat tail (i + s.length)

theorem Skip.nil (pat : List Char) : Skip pat [] := by
  intro tail i; simp

theorem Skip.append {pat a b : List Char} (ha : Skip pat a) (hb : Skip pat b) : Skip pat (a ++ b) := by
  intro tail i
  rw [List.append_assoc, ha, hb, List.length_append, Nat.add_assoc]

theorem Skip.cons_append {pat b : List Char} {c : Char} (ha : Skip pat [c]) (hb : Skip pat b) :
    Skip pat (c :: b) := by
  have := Skip.append ha hb
  simpa using this

/-- a stretch without "<" -/
theorem skip_of_no_lt (p : List Char) : ∀ (s : List Char), '<' ∉ s → Skip ('<' :: p) s := by
  intro s
  induction s with
  | nil => intro _; exact Skip.nil _
  | cons c r ih =>
    intro hs tail i
    have hc : c ≠ '<' := fun h => hs (by simp [h])
    have hr : '<' ∉ r := fun h => hs (List.mem_cons_of_mem _ h)
    have hpre : ('<' :: p).isPrefixOf (c :: (r ++ tail)) = false := by
      simp [List.isPrefixOf, Ne.symm hc]
    simp only [List.cons_append, findAux, hpre, Bool.false_eq_true, ↓reduceIte]
    rw [ih hr tail (i + 1)]
    simp [Nat.add_assoc, Nat.add_comm 1]

/-- a tag in which the pattern does not begin -/
theorem skip_tag (p body : List Char) (hb : '<' ∉ body)
    (hnp : ∀ tail, ¬ ('<' :: p) <+: ('<' :: (body ++ tail))) : Skip ('<' :: p) ('<' :: body) := by
  intro tail i
  have hpre : ('<' :: p).isPrefixOf ('<' :: (body ++ tail)) = false := by
    cases h : ('<' :: p).isPrefixOf ('<' :: (body ++ tail)) with
    | false => rfl
    | true => exact absurd (List.isPrefixOf_iff_prefix.mp h) (hnp tail)
  simp only [List.cons_append, findAux, hpre, Bool.false_eq_true, ↓reduceIte]
  rw [skip_of_no_lt p body hb tail (i + 1)]
  simp [Nat.add_assoc, Nat.add_comm 1]

/-- the pattern itself is found where it stands -/
theorem findAux_hit (pat tail : List Char) (i : Nat) (hne : pat ≠ []) :
    findAux pat (pat ++ tail) i = some i := by
  cases pat with
  | nil => exact absurd rfl hne
  | cons c p =>
    have : (c :: p).isPrefixOf (c :: (p ++ tail)) = true :=
      List.isPrefixOf_iff_prefix.mpr ⟨tail, by simp⟩
    simp [findAux, this]

/-- two runs of word characters, each followed by a non-word character: if one (with its terminator)
    is a prefix of the other (with its terminator and more), they are the same run and terminator -/
theorem word_run_prefix (isWord : Char → Bool) : ∀ (n m : List Char) (t1 t2 : Char) (x : List Char),
    (∀ c ∈ n, isWord c = true) → (∀ c ∈ m, isWord c = true) → isWord t1 = false → isWord t2 = false →
    (n ++ [t1]) <+: (m ++ t2 :: x) → n = m ∧ t1 = t2 := by
  intro n
  induction n with
  | nil =>
    intro m t1 t2 x _ hm h1 _ h
    cases m with
    | nil =>
      simp only [List.nil_append] at h
      exact ⟨rfl, (List.cons_prefix_cons.mp h).1⟩
    | cons c m' =>
      simp only [List.nil_append, List.cons_append] at h
      have := (List.cons_prefix_cons.mp h).1
      have hc := hm c (by simp)
      rw [← this, h1] at hc
      cases hc
  | cons a n' ih =>
    intro m t1 t2 x hn hm h1 h2 h
    cases m with
    | nil =>
      simp only [List.nil_append, List.cons_append] at h
      have := (List.cons_prefix_cons.mp h).1
      have ha := hn a (by simp)
      rw [this, h2] at ha
      cases ha
    | cons c m' =>
      simp only [List.cons_append] at h
      obtain ⟨hac, hrest⟩ := List.cons_prefix_cons.mp h
      obtain ⟨h3, h4⟩ := ih m' t1 t2 x (fun c hc => hn c (List.mem_cons_of_mem _ hc))
        (fun c hc => hm c (List.mem_cons_of_mem _ hc)) h1 h2 hrest
      exact ⟨by rw [hac, h3], h4⟩

/-! ### the tags of the canonical rendering -/

theorem name_no_lt {cls : Classes} (hs : Sane cls) {n : List Char} (hn : PlainName cls n) : '<' ∉ n := by
  intro h
  have := hn.2 '<' h
  rw [hs.word_lt] at this
  cases this

theorem attrsText_no_lt {cls : Classes} (hs : Sane cls) : ∀ (a : Attrs), (∀ p ∈ a, PlainAttr cls p) →
    '<' ∉ attrsText a := by
  intro a
  induction a with
  | nil => intro _; simp [attrsText]
  | cons p r ih =>
    intro hp
    have h1 := hp p (by simp)
    have hk := name_no_lt hs h1.1
    have hv : '<' ∉ p.2 := fun h => (h1.2.2 '<' h).2.2.1 rfl
    have hr := ih (fun q hq => hp q (List.mem_cons_of_mem _ hq))
    simp only [attrsText, attrText, List.mem_cons, List.mem_append, not_or]
    refine ⟨by decide, ⟨hk, by decide, by decide, hv, ?_⟩, hr⟩
    simp

theorem startTag_eq (n : List Char) (a : Attrs) (gap : List Char) : startTag n a gap = '<' :: startBody n a gap := rfl
theorem selfTag_eq (n : List Char) (a : Attrs) (gap : List Char) : selfTag n a gap = '<' :: selfBody n a gap := rfl

theorem gap_no_lt {cls : Classes} (hs : Sane cls) {a : Attrs} {gap : List Char} (hg : Gap cls a gap) : '<' ∉ gap := by
  intro hc
  have := (hg.1 '<' hc).1
  rw [hs.strip_lt] at this; cases this

theorem startBody_no_lt {cls : Classes} (hs : Sane cls) {n : List Char} {a : Attrs} {gap : List Char}
    (hn : PlainName cls n) (ha : ∀ p ∈ a, PlainAttr cls p) (hg : Gap cls a gap) : '<' ∉ startBody n a gap := by
  simp only [startBody, List.mem_append, not_or]
  exact ⟨⟨⟨name_no_lt hs hn, attrsText_no_lt hs a ha⟩, gap_no_lt hs hg⟩, by simp⟩

theorem selfBody_no_lt {cls : Classes} (hs : Sane cls) {n : List Char} {a : Attrs} {gap : List Char}
    (hn : PlainName cls n) (ha : ∀ p ∈ a, PlainAttr cls p) (hg : Gap cls a gap) : '<' ∉ selfBody n a gap := by
  simp only [selfBody, List.mem_append, not_or]
  exact ⟨⟨⟨name_no_lt hs hn, attrsText_no_lt hs a ha⟩, gap_no_lt hs hg⟩, by simp⟩

/-- what follows the name in a start tag: a space (attributes) or `>` -/
theorem startBody_shape {cls : Classes} (n : List Char) (a : Attrs) (gap : List Char) (hg : Gap cls a gap) :
    ∃ t x, (t = ' ' ∨ t = '>') ∧ startBody n a gap = n ++ t :: x := by
  cases a with
  | nil =>
    have : gap = [] := hg.2 rfl
    exact ⟨'>', [], Or.inr rfl, by simp [startBody, attrsText, this]⟩
  | cons p r =>
    exact ⟨' ', attrText p ++ attrsText r ++ gap ++ ['>'], Or.inl rfl, by simp [startBody, attrsText]⟩

/-- a self-closing tag has attributes: a space follows the name -/
theorem selfBody_shape (n : List Char) (a : Attrs) (gap : List Char) (ha : a ≠ []) :
    ∃ x, selfBody n a gap = n ++ ' ' :: x := by
  cases a with
  | nil => exact absurd rfl ha
  | cons p r => exact ⟨attrText p ++ attrsText r ++ gap ++ ['/', '>'], by simp [selfBody, attrsText]⟩

theorem endTag_eq (n : List Char) : endTag n = '<' :: ('/' :: (n ++ ['>'])) := rfl

theorem endBody_no_lt {cls : Classes} (hs : Sane cls) {n : List Char} (hn : PlainName cls n) :
    '<' ∉ '/' :: (n ++ ['>']) := by
  simp only [List.mem_cons, List.mem_append, not_or]
  exact ⟨by decide, name_no_lt hs hn, by simp⟩

/-- the three patterns `_find_end_of_element` looks for, for an element named `n` -/
inductive IsPat (n : List Char) : List Char → Prop
  | close : IsPat n (endTag n)
  | openGt : IsPat n ('<' :: (n ++ ['>']))
  | openSp : IsPat n ('<' :: (n ++ [' ']))

theorem head_word {cls : Classes} {n : List Char} (hn : PlainName cls n) :
    ∃ c r, n = c :: r ∧ cls.isWord c = true := by
  cases n with
  | nil => exact absurd rfl hn.1
  | cons c r => exact ⟨c, r, rfl, hn.2 c (by simp)⟩

/-- scanning for a pattern of `n` passes over the end tag of another name -/
theorem skip_endTag {cls : Classes} (hs : Sane cls) {n m pat : List Char} (hn : PlainName cls n)
    (hm : PlainName cls m) (hne : m ≠ n) (hp : IsPat n pat) : Skip pat (endTag m) := by
  cases hp with
  | close =>
    rw [endTag_eq, endTag_eq]
    apply skip_tag _ _ (endBody_no_lt hs hm)
    intro tail h
    have h1 := (List.cons_prefix_cons.mp h).2
    simp only [List.cons_append] at h1
    have h2 := (List.cons_prefix_cons.mp h1).2
    rw [List.append_assoc] at h2
    have := word_run_prefix cls.isWord n m '>' '>' tail hn.2 hm.2 hs.word_gt hs.word_gt (by simpa using h2)
    exact hne this.1.symm
  | openGt =>
    rw [endTag_eq]
    apply skip_tag _ _ (endBody_no_lt hs hm)
    intro tail h
    obtain ⟨c, r, hc, hw⟩ := head_word hn
    have h1 := (List.cons_prefix_cons.mp h).2
    rw [hc] at h1
    simp only [List.cons_append] at h1
    have := (List.cons_prefix_cons.mp h1).1
    rw [this, hs.word_slash] at hw
    cases hw
  | openSp =>
    rw [endTag_eq]
    apply skip_tag _ _ (endBody_no_lt hs hm)
    intro tail h
    obtain ⟨c, r, hc, hw⟩ := head_word hn
    have h1 := (List.cons_prefix_cons.mp h).2
    rw [hc] at h1
    simp only [List.cons_append] at h1
    have := (List.cons_prefix_cons.mp h1).1
    rw [this, hs.word_slash] at hw
    cases hw

/-- the end tag of `n` itself is passed over when looking for a START tag of `n` -/
theorem skip_own_endTag {cls : Classes} (hs : Sane cls) {n : List Char} (hn : PlainName cls n) (t : Char) :
    Skip ('<' :: (n ++ [t])) (endTag n) := by
  rw [endTag_eq]
  apply skip_tag _ _ (endBody_no_lt hs hn)
  intro tail h
  obtain ⟨c, r, hc, hw⟩ := head_word hn
  have h1 := (List.cons_prefix_cons.mp h).2
  rw [hc] at h1
  simp only [List.cons_append] at h1
  have := (List.cons_prefix_cons.mp h1).1
  rw [this, hs.word_slash] at hw
  cases hw

/-- scanning for a pattern of `n` passes over a tag `<m…` of another name whose name is followed by
    a non-word character and whose text is `<`-free -/
theorem skip_openTag {cls : Classes} (hs : Sane cls) {n m pat body x : List Char} {t : Char}
    (hn : PlainName cls n) (hm : PlainName cls m) (hne : m ≠ n) (hp : IsPat n pat)
    (hshape : body = m ++ t :: x) (htw : cls.isWord t = false) (hb : '<' ∉ body) : Skip pat ('<' :: body) := by
  cases hp with
  | close =>
    rw [endTag_eq]
    apply skip_tag _ _ hb
    intro tail h
    obtain ⟨c, r, hc, hw⟩ := head_word hm
    have h1 := (List.cons_prefix_cons.mp h).2
    rw [hshape, hc] at h1
    simp only [List.cons_append] at h1
    have := (List.cons_prefix_cons.mp h1).1
    rw [← this, hs.word_slash] at hw
    cases hw
  | openGt =>
    apply skip_tag _ _ hb
    intro tail h
    have h1 := (List.cons_prefix_cons.mp h).2
    rw [hshape] at h1
    have := word_run_prefix cls.isWord n m '>' t (x ++ tail) hn.2 hm.2 hs.word_gt htw
      (by simpa [List.append_assoc] using h1)
    exact hne this.1.symm
  | openSp =>
    apply skip_tag _ _ hb
    intro tail h
    have h1 := (List.cons_prefix_cons.mp h).2
    rw [hshape] at h1
    have := word_run_prefix cls.isWord n m ' ' t (x ++ tail) hn.2 hm.2 hs.word_sp htw
      (by simpa [List.append_assoc] using h1)
    exact hne this.1.symm

theorem skip_startTag {cls : Classes} (hs : Sane cls) {n m pat : List Char} {a : Attrs} {gap : List Char}
    (hn : PlainName cls n) (hm : PlainName cls m) (ha : ∀ p ∈ a, PlainAttr cls p) (hg : Gap cls a gap)
    (hne : m ≠ n) (hp : IsPat n pat) : Skip pat (startTag m a gap) := by
  obtain ⟨t, x, ht, hshape⟩ := startBody_shape m a gap hg
  have htw : cls.isWord t = false := by
    rcases ht with rfl | rfl
    · exact hs.word_sp
    · exact hs.word_gt
  rw [startTag_eq]
  exact skip_openTag hs hn hm hne hp hshape htw (startBody_no_lt hs hm ha hg)

theorem skip_selfTag {cls : Classes} (hs : Sane cls) {n m pat : List Char} {a : Attrs} {gap : List Char}
    (hn : PlainName cls n) (hm : PlainName cls m) (ha : ∀ p ∈ a, PlainAttr cls p) (hg : Gap cls a gap)
    (hane : a ≠ []) (hne : m ≠ n) (hp : IsPat n pat) : Skip pat (selfTag m a gap) := by
  obtain ⟨x, hshape⟩ := selfBody_shape m a gap hane
  rw [selfTag_eq]
  exact skip_openTag hs hn hm hne hp hshape hs.word_sp (selfBody_no_lt hs hm ha hg)

theorem isPat_cons {n pat : List Char} (hp : IsPat n pat) : ∃ p, pat = '<' :: p := by
  cases hp with
  | close => exact ⟨_, endTag_eq n⟩
  | openGt => exact ⟨_, rfl⟩
  | openSp => exact ⟨_, rfl⟩

theorem skip_text {n pat s : List Char} (hp : IsPat n pat) (hs : '<' ∉ s) : Skip pat s := by
  obtain ⟨p, rfl⟩ := isPat_cons hp
  exact skip_of_no_lt p s hs

/-! ### whole subtrees -/

mutual
/-- scanning for a pattern of `n` passes over every plain subtree in which `n` does not occur -/
theorem skipT {cls : Classes} (hs : Sane cls) {n pat : List Char} (hn : PlainName cls n) (hp : IsPat n pat) :
    ∀ (t : PTree), PlainT cls t → ¬ occursT n t → Skip pat (renderT t)
  | .leaf m a gap text, hpl, ho => by
    obtain ⟨hm, ha, hg, htext⟩ := hpl
    have hne : m ≠ n := fun h => ho h
    rw [renderT]
    exact (Skip.append (skip_startTag hs hn hm ha hg hne hp) (skip_text hp htext.1)).append
      (skip_endTag hs hn hm hne hp)
  | .empty m a gap, hpl, ho => by
    obtain ⟨hm, ha, hg, hane⟩ := hpl
    have hne : m ≠ n := fun h => ho h
    rw [renderT]
    exact skip_selfTag hs hn hm ha hg hane hne hp
  | .node m a gap pre first rest post, hpl, ho => by
    obtain ⟨hm, ha, hg, hpre, hpost, hf, hr, _, _⟩ := hpl
    have hne : m ≠ n := fun h => ho (Or.inl h)
    have hof : ¬ occursT n first := fun h => ho (Or.inr (Or.inl h))
    have hor : ¬ occursF n rest := fun h => ho (Or.inr (Or.inr h))
    rw [renderT]
    exact ((((Skip.append (skip_startTag hs hn hm ha hg hne hp) (skip_text hp (hpre.no_lt hs))).append
      (skipT hs hn hp first hf hof)).append (skipF hs hn hp rest hr hor)).append
      (skip_text hp (hpost.no_lt hs))).append (skip_endTag hs hn hm hne hp)
theorem skipF {cls : Classes} (hs : Sane cls) {n pat : List Char} (hn : PlainName cls n) (hp : IsPat n pat) :
    ∀ (f : PForest), PlainF cls f → ¬ occursF n f → Skip pat (renderF f)
  | .nil, _, _ => by rw [renderF]; exact Skip.nil _
  | .cons sep t f, hpl, ho => by
    rw [renderF]
    exact ((skip_text hp (hpl.1.no_lt hs)).append (skipT hs hn hp t hpl.2.1 (fun h => ho (Or.inl h)))).append
      (skipF hs hn hp f hpl.2.2 (fun h => ho (Or.inr h)))
end

end Kskm.Xml
