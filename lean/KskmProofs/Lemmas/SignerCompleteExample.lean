/-
  A concrete healthy world for the non-vacuity examples of C01 §6 (`HealthyWorld`, `C01_completes`):
  two modules (the first holds nothing), the second with three session slots; slot 0 holds a foreign
  key, slot 1 the RSA key pairs "KA" and "KB", slot 2 another object labelled "KA" that is never
  reached.  Two configured KSKs, a schema with two slots (publish a b / sign a / revoke b; publish a /
  sign a a), a request with two bundles.
-/
import KskmProofs.Lemmas.SignerComplete
namespace Kskm.HealthyExample

def obj (h cls : Nat) (label : String) (n : Bytes) : StoreObj :=
  { handle := h, cls := cls, label := label, keyType := some ckkRsa, modulus := some n,
    publicExponent := some [1, 0, 1] }

def store : Store := fun p sl =>
  if p = "mod" ∧ sl = 0 then [obj 3 ckoPublic "other" [0x80, 5]]
  else if p = "mod" ∧ sl = 1 then
    [obj 7 ckoPublic "KA" [0x80, 1], obj 8 ckoPrivate "KA" [0x80, 1],
     obj 9 ckoPublic "KB" [0x80, 3], obj 10 ckoPrivate "KB" [0x80, 3]]
  else if p = "mod" ∧ sl = 2 then [obj 11 ckoPublic "KA" [0x80, 7]]
  else []

def mod0 : P11Module := { label := "empty", path := "mod0", slots := [0], sessions := [0] }
def mod1 : P11Module := { label := "hsm", path := "mod", slots := [0, 1, 2], sessions := [0, 1, 2] }
def mods : List P11Module := [mod0, mod1]

def locA : KeyLoc :=
  { m := mod1, slot := 1, pubO := obj 7 ckoPublic "KA" [0x80, 1], privO := obj 8 ckoPrivate "KA" [0x80, 1],
    n := [0x80, 1], e := [1, 0, 1], raw := [3, 1, 0, 1, 0x80, 1] }
def locB : KeyLoc :=
  { m := mod1, slot := 1, pubO := obj 9 ckoPublic "KB" [0x80, 3], privO := obj 10 ckoPrivate "KB" [0x80, 3],
    n := [0x80, 3], e := [1, 0, 1], raw := [3, 1, 0, 1, 0x80, 3] }
def loc (label : String) : KeyLoc := if label = "KA" then locA else locB

/-- "KA": window, size, exponent and key tag configured, hashing on the token -/
def kA : KskKey :=
  { label := "KA", algorithm := 8, validFrom := 1000000, validUntil := some 9000000000000000,
    rsaSize := some 16, rsaExponent := some 65537, keyTag := some 34572, hashUsingHsm := some true }
/-- "KB": hashing on the host -/
def kB : KskKey :=
  { label := "KB", algorithm := 8, validFrom := 0, rsaSize := some 16, rsaExponent := some 65537 }

def act1 : SchemaAction := { publish := ["a", "b"], sign := ["a"], revoke := ["b"] }
def act2 : SchemaAction := { publish := ["a"], sign := ["a", "a"] }
def cfg : SignerConfig := { kskKeys := [("a", kA), ("b", kB)], actions := [(1, act1), (2, act2)] }

/-- a hash oracle that answers, a verifier that accepts exactly `[1, 2, 3]`, a token that signs with it -/
def ext : Externals :=
  { hash := fun _ d => some d, verify := fun _ _ _ sg => if sg = [1, 2, 3] then .valid else .invalid }
def sg : String → Nat → Nat → Nat → Bytes → Bytes := fun _ _ _ _ _ => [1, 2, 3]

def z1 : Key := ⟨"zsk1", 2, 3600, 256, 3, 8, "AwEAAg=="⟩
def z2 : Key := ⟨"zsk2", 3, 3600, 256, 3, 8, "AwEAAw=="⟩
def b1 : Bundle := ⟨"b1", 1700000000000000, 1701000000000000, [z1, z2], [], none⟩
def b2 : Bundle := ⟨"b2", 1701000000000000, 1702000000000000, [z2], [], none⟩
def req : Request := { id := "r", serial := 1, domain := ".", zskPolicy := {}, bundles := [b1, b2] }

theorem onTokenA : OnToken store mods "KA" locA where
  modules := ⟨[mod0], [], rfl, by
    intro m' hm' sl hsl isPublic
    simp only [List.mem_singleton] at hm'
    subst hm'
    simp only [mod0, List.mem_singleton] at hsl
    subst hsl
    cases isPublic <;> decide⟩
  sessions := ⟨[0], [2], rfl, by
    intro sl hsl isPublic
    simp only [List.mem_singleton] at hsl
    subst hsl
    cases isPublic <;> decide⟩
  one := by intro isPublic; cases isPublic <;> decide
  rsa := by intro isPublic; cases isPublic <;> exact ⟨by decide, by decide, by decide, by decide⟩
  encoded := by decide +kernel
  positive := by decide
  small := by decide

theorem onTokenB : OnToken store mods "KB" locB where
  modules := ⟨[mod0], [], rfl, by
    intro m' hm' sl hsl isPublic
    simp only [List.mem_singleton] at hm'
    subst hm'
    simp only [mod0, List.mem_singleton] at hsl
    subst hsl
    cases isPublic <;> decide⟩
  sessions := ⟨[0], [2], rfl, by
    intro sl hsl isPublic
    simp only [List.mem_singleton] at hsl
    subst hsl
    cases isPublic <;> decide⟩
  one := by intro isPublic; cases isPublic <;> decide
  rsa := by intro isPublic; cases isPublic <;> exact ⟨by decide, by decide, by decide, by decide⟩
  encoded := by decide +kernel
  positive := by decide
  small := by decide

theorem lookup_a : cfg.kskKeys.lookup "a" = some kA := by decide
theorem lookup_b : cfg.kskKeys.lookup "b" = some kB := by decide

theorem healthyA (b : Bundle) (h1 : 1000000 ≤ b.inception) (h2 : b.expiration ≤ 9000000000000000) :
    HealthyName ext store mods cfg loc b "a" kA where
  configured := lookup_a
  window := ⟨h1, by intro u hu; cases hu; exact h2⟩
  onToken := onTokenA
  rsa := ⟨by decide, by decide, by decide⟩
  identity := by decide +kernel

theorem healthyB (b : Bundle) (h1 : 0 ≤ b.inception) : HealthyName ext store mods cfg loc b "b" kB where
  configured := lookup_b
  window := ⟨h1, by intro u hu; cases hu⟩
  onToken := onTokenB
  rsa := ⟨by decide, by decide, by decide⟩
  identity := by decide +kernel

/-- every configured name is "a" ↦ kA or "b" ↦ kB -/
theorem lookup_cases {n : String} {k : KskKey} (hn : n = "a" ∨ n = "b") (h : cfg.kskKeys.lookup n = some k) :
    (n = "a" ∧ k = kA) ∨ (n = "b" ∧ k = kB) := by
  rcases hn with rfl | rfl
  · rw [lookup_a] at h; exact Or.inl ⟨rfl, (Option.some.inj h).symm⟩
  · rw [lookup_b] at h; exact Or.inr ⟨rfl, (Option.some.inj h).symm⟩

theorem signs_ok (_name : String) (k : KskKey) (raw : Bytes) (d : DataToSign) :
    ext.verify k.algorithm (Base64.encode (loc k.label).raw) raw
      (sg (loc k.label).m.path (loc k.label).slot (loc k.label).privO.handle d.mechanism d.data) = .valid := rfl

theorem names1 {n : String} (h : n ∈ act1.names) : n = "a" ∨ n = "b" := by
  simp only [SchemaAction.names, act1, List.cons_append, List.nil_append, List.mem_cons,
    List.not_mem_nil, or_false] at h
  rcases h with h | h | h | h <;> simp [h]

theorem names2 {n : String} (h : n ∈ act2.names) : n = "a" ∨ n = "b" := by
  simp only [SchemaAction.names, act2, List.cons_append, List.nil_append, List.append_nil, List.mem_cons,
    List.not_mem_nil, or_false] at h
  rcases h with h | h | h <;> simp [h]

/-- the parts of `HealthyAction` that only depend on the names being "a" / "b" -/
theorem labelAlg_ok {n₁ n₂ : String} {k₁ k₂ : KskKey} (h1 : n₁ = "a" ∨ n₁ = "b") (h2 : n₂ = "a" ∨ n₂ = "b")
    (l1 : cfg.kskKeys.lookup n₁ = some k₁) (l2 : cfg.kskKeys.lookup n₂ = some k₂) :
    (k₁.label = k₂.label → k₁.algorithm = k₂.algorithm) ∧
    ((loc k₁.label).raw = (loc k₂.label).raw → k₁.label = k₂.label) := by
  rcases lookup_cases h1 l1 with ⟨_, rfl⟩ | ⟨_, rfl⟩ <;> rcases lookup_cases h2 l2 with ⟨_, rfl⟩ | ⟨_, rfl⟩ <;>
    decide

theorem zskNotKsk_ok {z : Key} {n : String} {k : KskKey} (hz : z = z1 ∨ z = z2) (h1 : n = "a" ∨ n = "b")
    (l1 : cfg.kskKeys.lookup n = some k) : z.keyIdentifier ≠ k.label := by
  rcases lookup_cases h1 l1 with ⟨_, rfl⟩ | ⟨_, rfl⟩ <;> rcases hz with rfl | rfl <;> decide

theorem zskRdata_ok {z : Key} (hz : z = z1 ∨ z = z2) : ∃ r, keyToRdata z = .ok r ∧ r.length < 65536 := by
  rcases hz with rfl | rfl
  · exact ⟨_, eq_okOr [] (by decide +kernel), by decide +kernel⟩
  · exact ⟨_, eq_okOr [] (by decide +kernel), by decide +kernel⟩

theorem healthyAction1 : HealthyAction ext store sg mods cfg loc b1 act1 where
  names := by
    intro n hn
    rcases names1 hn with rfl | rfl
    · exact ⟨kA, healthyA b1 (by decide) (by decide)⟩
    · exact ⟨kB, healthyB b1 (by decide)⟩
  labelAlg := fun n₁ h1 n₂ h2 k₁ k₂ l1 l2 => (labelAlg_ok (names1 h1) (names1 h2) l1 l2).1
  distinctKeys := fun n₁ h1 n₂ h2 k₁ k₂ l1 l2 => (labelAlg_ok (names1 h1) (names1 h2) l1 l2).2
  zsks := by decide
  zskIds := by decide
  zskNotKsk := fun z hz n hn k l => zskNotKsk_ok (by simpa [b1] using hz) (names1 hn) l
  zskRdata := fun z hz => zskRdata_ok (by simpa [b1] using hz)
  algs := by
    intro a
    constructor
    · intro h
      have : a = 8 := by simpa [b1, z1, z2] using h
      exact ⟨"a", by simp [act1], kA, lookup_a, this.symm⟩
    · rintro ⟨n, hn, k, l, rfl⟩
      have : n = "a" := by simpa [act1] using hn
      subst this
      rw [lookup_a] at l
      cases l
      decide
  expiration := by decide
  inception := by decide
  signs := fun name _ k _ raw d _ => signs_ok name k raw d

theorem healthyAction2 : HealthyAction ext store sg mods cfg loc b2 act2 where
  names := by
    intro n hn
    have : n = "a" := by
      simp only [SchemaAction.names, act2, List.cons_append, List.nil_append, List.append_nil,
        List.mem_cons, List.not_mem_nil, or_false] at hn
      rcases hn with h | h | h <;> exact h
    subst this
    exact ⟨kA, healthyA b2 (by decide) (by decide)⟩
  labelAlg := fun n₁ h1 n₂ h2 k₁ k₂ l1 l2 => (labelAlg_ok (names2 h1) (names2 h2) l1 l2).1
  distinctKeys := fun n₁ h1 n₂ h2 k₁ k₂ l1 l2 => (labelAlg_ok (names2 h1) (names2 h2) l1 l2).2
  zsks := by decide
  zskIds := by decide
  zskNotKsk := fun z hz n hn k l => zskNotKsk_ok (by right; simpa [b2] using hz) (names2 hn) l
  zskRdata := fun z hz => zskRdata_ok (by right; simpa [b2] using hz)
  algs := by
    intro a
    constructor
    · intro h
      have : a = 8 := by simpa [b2, z2] using h
      exact ⟨"a", by simp [act2], kA, lookup_a, this.symm⟩
    · rintro ⟨n, hn, k, l, rfl⟩
      have : n = "a" := by simpa [act2] using hn
      subst this
      rw [lookup_a] at l
      cases l
      decide
  expiration := by decide
  inception := by decide
  signs := fun name _ k _ raw d _ => signs_ok name k raw d

theorem base : HealthyBase ext cfg := ⟨rfl, by decide, fun _ d => ⟨d, rfl⟩⟩

end Kskm.HealthyExample
