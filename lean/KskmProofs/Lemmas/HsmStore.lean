/-
  A healthy token as an oracle: a store of objects per module and slot, answers independent of the
  operation index.  Used as the hypothesis "the token is healthy" in C15 / C04 theorems and in
  their non-vacuity examples; theorems about *every* token do not mention it.
-/
import KskmProofs.Lemmas.Hsm
namespace Kskm

/-- an object held by a token; absent attributes are `none` -/
structure StoreObj where
  handle : Nat
  cls : Nat
  label : String
  keyType : Option Nat := none
  modulus : Option Bytes := none
  publicExponent : Option Bytes := none
  ecPoint : Option Bytes := none
  ecParams : Option Bytes := none
  deriving DecidableEq, Repr, Inhabited

/-- module path ↦ slot ↦ objects in stored order -/
abbrev Store := String → Nat → List StoreObj

def StoreObj.matches (label : String) (cls : Nat) (o : StoreObj) : Bool :=
  o.label == label && o.cls == cls

def optBytes : Option Bytes → AttrAns
  | some b => .bytes b
  | none => .none

def StoreObj.attr (o : StoreObj) (name : String) : AttrAns :=
  if name = "KEY_TYPE" then (match o.keyType with | some n => .num n | none => .none)
  else if name = "MODULUS" then optBytes o.modulus
  else if name = "PUBLIC_EXPONENT" then optBytes o.publicExponent
  else if name = "EC_POINT" then optBytes o.ecPoint
  else if name = "EC_PARAMS" then optBytes o.ecParams
  else .none

/-- A healthy token over a store: `findObjects` filters on LABEL and CLASS (handles in stored
    order), `getAttr` looks the object up by handle (absent attribute ↦ `.none`), open/login succeed
    exactly on the slots `loginOk` admits.  Answers do not depend on the operation index. -/
def storeToken (st : Store) (loginOk : String → Nat → Bool) : Token := fun _ op =>
  match op with
  | .openSession m s _ => if loginOk m s then .ok else .error
  | .login m s _ _ => if loginOk m s then .ok else .error
  | .findObjects m s [("LABEL", .str l), ("CLASS", .num c)] =>
    .handles (((st m s).filter (·.matches l c)).map (·.handle))
  | .getAttr m s h names =>
    match (st m s).find? (·.handle == h) with
    | some o => .attrs (names.map o.attr)
    | none => .error
  | _ => .other

/-- the objects of slot `sl` of module `m` that carry `label` and have class `cls` -/
def matching (st : Store) (m : P11Module) (label : String) (cls : Nat) (sl : Nat) : List StoreObj :=
  (st m.path sl).filter (·.matches label cls)

theorem storeToken_find (st : Store) (ok : String → Nat → Bool) (i : Nat) (m : P11Module)
    (label : String) (cls sl : Nat) :
    storeToken st ok i (findOp m label cls sl) =
      .handles ((matching st m label cls sl).map (·.handle)) := by
  simp [storeToken, findOp, matching]

theorem storeToken_getAttr (st : Store) (ok : String → Nat → Bool) (i : Nat) (path : String)
    (sl h : Nat) (names : List String) (o : StoreObj)
    (ho : (st path sl).find? (·.handle == h) = some o) :
    storeToken st ok i (.getAttr path sl h names) = .attrs (names.map o.attr) := by
  simp [storeToken, ho]

theorem storeToken_open (st : Store) (ok : String → Nat → Bool) (i : Nat) (m : P11Module) (sl : Nat) :
    storeToken st ok i (openOpOf m sl) = if ok m.path sl then .ok else .error := by
  simp [storeToken, openOpOf]

theorem storeToken_login (st : Store) (ok : String → Nat → Bool) (i : Nat) (m : P11Module) (sl : Nat)
    (p : String) :
    storeToken st ok i (loginOpOf m sl p) = if ok m.path sl then .ok else .error := by
  simp [storeToken, loginOpOf]

theorem StoreObj.attr_keyType (o : StoreObj) (n : Nat) (h : o.keyType = some n) :
    o.attr "KEY_TYPE" = .num n := by simp [StoreObj.attr, h]
theorem StoreObj.attr_modulus (o : StoreObj) : o.attr "MODULUS" = optBytes o.modulus := by
  simp [StoreObj.attr]
theorem StoreObj.attr_publicExponent (o : StoreObj) :
    o.attr "PUBLIC_EXPONENT" = optBytes o.publicExponent := by simp [StoreObj.attr]
theorem StoreObj.attr_ecPoint (o : StoreObj) : o.attr "EC_POINT" = optBytes o.ecPoint := by
  simp [StoreObj.attr]
theorem StoreObj.attr_ecParams (o : StoreObj) : o.attr "EC_PARAMS" = optBytes o.ecParams := by
  simp [StoreObj.attr]

/-- on a healthy token, reading one attribute of a stored object -/
theorem storeToken_getAttr1 (st : Store) (ok : String → Nat → Bool) (i : Nat) (path : String)
    (sl : Nat) (name : String) (o : StoreObj)
    (ho : (st path sl).find? (·.handle == o.handle) = some o) :
    storeToken st ok i (.getAttr path sl o.handle [name]) = .attrs [o.attr name] := by
  rw [storeToken_getAttr st ok i path sl o.handle [name] o ho]; rfl


end Kskm
