/-
  Helper lemmas for C16 that speak about the REGENERATED schema table (`KskmGen.configSchema`):
  from "the loader returned `loaded`" to "this option of `loaded` is its default or an instance of
  its schema type".  Kept apart from KskmProofs/C16.lean so that the property statements there stay
  readable and are never quietly weakened.
-/
import Kskm.Config
import KskmGen.Tables
import KskmProofs.Lemmas.C16Validate
import KskmProofs.Lemmas.C16Conforms
namespace Kskm.C16
open Kskm Kskm.Config

/-- the environment of the real loader: regenerated schema and algorithm tables; only the file
    system stays a parameter -/
def realEnv (fileExists : String → Bool) : Env :=
  { tbl := KskmGen.configSchema, algNames := KskmGen.algorithmDNSSEC, fileExists := fileExists,
    kskTtlFallback := KskmGen.dnsTtlFallback.map CVal.int }

theorem fromDict_validated (env : Env) (c loaded : CVal) (h : fromDict env c = .ok loaded) :
    ∃ kvs, transformConfig env.kskTtlFallback c = .ok kvs ∧
      validate env validateFuel false (.model "KSKMConfig") (.map kvs) = .ok (some loaded) ∧
      positivityChecks loaded = .ok () := by
  unfold fromDict at h
  cases ht : transformConfig env.kskTtlFallback c with
  | error e => simp [ht, bind, Except.bind] at h
  | ok kvs =>
    refine ⟨kvs, rfl, ?_⟩
    simp only [ht, bind, Except.bind] at h
    cases hv : validate env validateFuel false (.model "KSKMConfig") (.map kvs) with
    | error e => simp [hv] at h
    | ok o =>
      cases o with
      | none => simp [hv, err] at h
      | some l =>
        simp only [hv] at h
        cases hp : positivityChecks l with
        | error e => simp [hp] at h
        | ok u =>
          simp only [hp, pure, Except.pure, Except.ok.injEq] at h
          subst h
          exact ⟨rfl, hp⟩

theorem names_nodup : ∀ s ∈ KskmGen.configSchema, s.fieldNames.Nodup := by decide

theorem loaded_conforms (fe : String → Bool) (c loaded : CVal) (h : fromDict (realEnv fe) c = .ok loaded) :
    Conforms (realEnv fe) validateFuel (.model "KSKMConfig") loaded := by
  obtain ⟨kvs, _, hv, _⟩ := fromDict_validated _ c loaded h
  exact validate_sound _ _ _ _ _ _ hv

theorem fieldTy_of (tbl : List ObjSchema) (name fname : String) (s : ObjSchema) (f : Field)
    (hs : findSchema tbl name = some s) (hf : s.field? fname = some f) :
    schemaFieldTy tbl name fname = some f.ty ∧ schemaDefault tbl name fname = f.default := by
  simp [schemaFieldTy, schemaDefault, hs, hf]

/-- Where the value of `section.option` of a loaded configuration comes from: the default of the
    whole section, the default of the option, or a validated instance of the option's schema type. -/
theorem section_option (fe : String → Bool) (c loaded sv v : CVal) (sect model fname : String)
    (h : fromDict (realEnv fe) c = .ok loaded)
    (hsty : schemaFieldTy KskmGen.configSchema "KSKMConfig" sect = some (.model model))
    (hg1 : loaded.get? sect = some sv) (hg2 : sv.get? fname = some v) :
    (schemaDefault KskmGen.configSchema "KSKMConfig" sect = some sv) ∨
    (schemaDefault KskmGen.configSchema model fname = some v) ∨
    (∃ ty, schemaFieldTy KskmGen.configSchema model fname = some ty ∧ Conforms (realEnv fe) 6 ty v) := by
  have hc := loaded_conforms fe c loaded h
  obtain ⟨s, f, hs, hf, hor⟩ := loaded_option (realEnv fe) names_nodup 7 "KSKMConfig" sect loaded sv hc hg1
  obtain ⟨e1, e2⟩ := fieldTy_of _ _ _ _ _ hs hf
  rcases hor with hd | hcs
  · left; exact e2.trans hd
  · right
    have hty : f.ty = .model model := by
      have : some f.ty = some (STy.model model) := by rw [← e1]; exact hsty
      injection this
    rw [hty] at hcs
    obtain ⟨s2, f2, hs2, hf2, hor2⟩ := loaded_option (realEnv fe) names_nodup 6 model fname sv v hcs hg2
    obtain ⟨e3, e4⟩ := fieldTy_of _ _ _ _ _ hs2 hf2
    rcases hor2 with hd | hcs2
    · left; exact e4.trans hd
    · right; exact ⟨f2.ty, e3, hcs2⟩

/-- an integer option of a section lies within its regenerated bounds, whichever way it was loaded -/
theorem section_int_option (fe : String → Bool) (c loaded sv v : CVal) (sect model fname : String)
    (ge le gt : Option Int) (d0 d1 : Int)
    (h : fromDict (realEnv fe) c = .ok loaded)
    (hsty : schemaFieldTy KskmGen.configSchema "KSKMConfig" sect = some (.model model))
    (hfty : schemaFieldTy KskmGen.configSchema model fname = some (.scalar [.int ge le gt]))
    (hsdef : ((schemaDefault KskmGen.configSchema "KSKMConfig" sect).bind (·.get? fname)).bind CVal.getInt? = some d0)
    (hfdef : (schemaDefault KskmGen.configSchema model fname).bind CVal.getInt? = some d1)
    (hb0 : inBounds ge le gt d0 = true) (hb1 : inBounds ge le gt d1 = true)
    (hg1 : loaded.get? sect = some sv) (hg2 : sv.get? fname = some v) :
    ∃ i, v = .int i ∧ inBounds ge le gt i = true := by
  rcases section_option fe c loaded sv v sect model fname h hsty hg1 hg2 with hd | hd | ⟨ty, hty, hcs⟩
  · rw [hd] at hsdef
    simp only [Option.bind_some, hg2] at hsdef
    exact ⟨d0, getInt?_some v d0 hsdef, hb0⟩
  · rw [hd] at hfdef
    simp only [Option.bind_some] at hfdef
    exact ⟨d1, getInt?_some v d1 hfdef, hb1⟩
  · rw [hfty] at hty
    injection hty with hty
    subst hty
    obtain ⟨a, ha, hok⟩ := conforms_scalar _ 5 _ v hcs
    simp only [List.mem_cons, List.not_mem_nil, or_false] at ha
    subst ha
    exact hok

/-- Where the value of an option of a key definition (`keys.<name>.<option>`) comes from. -/
theorem key_option (fe : String → Bool) (c loaded ks kname key v : CVal) (keys : List (CVal × CVal))
    (fname : String) (h : fromDict (realEnv fe) c = .ok loaded)
    (hg : loaded.get? "ksk_keys" = some ks) (hks : ks = .map keys) (hk : (kname, key) ∈ keys)
    (hg2 : key.get? fname = some v) :
    (schemaDefault KskmGen.configSchema "KSKKey" fname = some v) ∨
    (∃ ty, schemaFieldTy KskmGen.configSchema "KSKKey" fname = some ty ∧ Conforms (realEnv fe) 5 ty v) := by
  have hc := loaded_conforms fe c loaded h
  obtain ⟨s, f, hs, hf, hor⟩ := loaded_option (realEnv fe) names_nodup 7 "KSKMConfig" "ksk_keys" loaded ks hc hg
  obtain ⟨e1, e2⟩ := fieldTy_of _ _ _ _ _ hs hf
  have hd0 : ((schemaDefault KskmGen.configSchema "KSKMConfig" "ksk_keys").bind CVal.getMap?).map List.isEmpty
      = some true := by decide
  have ht0 : schemaFieldTy KskmGen.configSchema "KSKMConfig" "ksk_keys" = some (.mapOf false (.model "KSKKey")) := by decide
  rcases hor with hd | hcs
  · -- the whole `keys` section defaulted: it is empty
    have : schemaDefault KskmGen.configSchema "KSKMConfig" "ksk_keys" = some ks := e2.trans hd
    rw [this, hks] at hd0
    simp only [Option.bind_some, CVal.getMap?, Option.map_some, Option.some.injEq, List.isEmpty_iff] at hd0
    subst hd0
    cases hk
  · have hty : f.ty = .mapOf false (.model "KSKKey") := by
      have : some f.ty = some (STy.mapOf false (.model "KSKKey")) := by rw [← ht0]; exact e1.symm
      injection this
    rw [hty] at hcs
    obtain ⟨out, hout, hall⟩ := conforms_mapOf _ 6 _ _ ks hcs
    rw [hks] at hout
    injection hout with hout
    subst hout
    have hkey := hall _ hk
    obtain ⟨s2, f2, hs2, hf2, hor2⟩ := loaded_option (realEnv fe) names_nodup 5 "KSKKey" fname key v hkey hg2
    obtain ⟨e3, e4⟩ := fieldTy_of _ _ _ _ _ hs2 hf2
    rcases hor2 with hd | hcs2
    · left; exact e4.trans hd
    · right; exact ⟨f2.ty, e3, hcs2⟩

/-- an optional bounded integer of a key definition is absent (`null`) or within its bounds -/
theorem key_nullable_int (fe : String → Bool) (c loaded ks kname key v : CVal) (keys : List (CVal × CVal))
    (fname : String) (ge le gt : Option Int) (h : fromDict (realEnv fe) c = .ok loaded)
    (hfty : schemaFieldTy KskmGen.configSchema "KSKKey" fname = some (.scalar [.int ge le gt, .null]))
    (hfdef : (schemaDefault KskmGen.configSchema "KSKKey" fname).map CVal.isNull = some true)
    (hg : loaded.get? "ksk_keys" = some ks) (hks : ks = .map keys) (hk : (kname, key) ∈ keys)
    (hg2 : key.get? fname = some v) :
    v = .null ∨ ∃ i, v = .int i ∧ inBounds ge le gt i = true := by
  rcases key_option fe c loaded ks kname key v keys fname h hg hks hk hg2 with hd | ⟨ty, hty, hcs⟩
  · rw [hd] at hfdef
    left
    cases v <;> simp [CVal.isNull] at hfdef ⊢
  · rw [hfty] at hty
    injection hty with hty
    subst hty
    obtain ⟨a, ha, hok⟩ := conforms_scalar _ 4 _ v hcs
    simp only [List.mem_cons, List.not_mem_nil, or_false] at ha
    rcases ha with rfl | rfl
    · right; exact hok
    · left; exact hok

/-- the characters `^[\w_]+$`, `^[\w\.]+$`, `^[0-9a-fA-F]+$` admit (ASCII; a non-ASCII character
    makes the model decline, so an accepted string here is pure ASCII) -/
def IsKeyName (s : String) : Prop := s.toList ≠ [] ∧ ∀ ch ∈ s.toList, isAsciiWord ch = true
def IsDomainName (s : String) : Prop := s.toList ≠ [] ∧ ∀ ch ∈ s.toList, (isAsciiWord ch || ch == '.') = true
def IsHexDigest (s : String) : Prop := s.toList ≠ [] ∧ ∀ ch ∈ s.toList, isHexDigit ch = true

theorem matchPattern_keyName (s : String) (h : matchPattern patKeyName s = .ok true) : IsKeyName s := by
  have h' : matchClassPlus isAsciiWord true s.toList = .ok true := by
    simpa [matchPattern, patKeyName, patDomain, patHex] using h
  obtain ⟨h1, h2⟩ := matchClassPlus_true _ _ _ h'
  exact ⟨h1, fun ch hch => (h2 ch hch).2⟩

theorem matchPattern_domain (s : String) (h : matchPattern patDomain s = .ok true) : IsDomainName s := by
  have h' : matchClassPlus (fun c => isAsciiWord c || c == '.') true s.toList = .ok true := by
    simpa [matchPattern, patKeyName, patDomain, patHex] using h
  obtain ⟨h1, h2⟩ := matchClassPlus_true _ _ _ h'
  exact ⟨h1, fun ch hch => (h2 ch hch).2⟩

theorem matchPattern_hex (s : String) (h : matchPattern patHex s = .ok true) : IsHexDigest s := by
  have h' : matchClassPlus isHexDigit false s.toList = .ok true := by
    simpa [matchPattern, patKeyName, patDomain, patHex] using h
  obtain ⟨h1, h2⟩ := matchClassPlus_true _ _ _ h'
  exact ⟨h1, fun ch hch => (h2 ch hch).2⟩

/-- a list-of-bounded-integers option of `request_policy`: every element within the bounds -/
theorem request_intlist_option (fe : String → Bool) (c loaded sv v : CVal) (fname : String)
    (ge le gt : Option Int) (d0 d1 : List Int)
    (h : fromDict (realEnv fe) c = .ok loaded)
    (hfty : schemaFieldTy KskmGen.configSchema "RequestPolicy" fname = some (.list (.scalar [.int ge le gt])))
    (hsdef : ((schemaDefault KskmGen.configSchema "KSKMConfig" "request_policy").bind (·.get? fname)).bind
        CVal.getIntList? = some d0)
    (hfdef : (schemaDefault KskmGen.configSchema "RequestPolicy" fname).bind CVal.getIntList? = some d1)
    (hb0 : d0.all (inBounds ge le gt) = true) (hb1 : d1.all (inBounds ge le gt) = true)
    (hg1 : loaded.get? "request_policy" = some sv) (hg2 : sv.get? fname = some v) :
    ∃ xs, v = .list xs ∧ ∀ x ∈ xs, ∃ i, x = .int i ∧ inBounds ge le gt i = true := by
  have fromInts : ∀ (d : List Int), d.all (inBounds ge le gt) = true → v.getIntList? = some d →
      ∃ xs, v = .list xs ∧ ∀ x ∈ xs, ∃ i, x = .int i ∧ inBounds ge le gt i = true := by
    intro d hb hv
    refine ⟨d.map CVal.int, getIntList?_some v d hv, ?_⟩
    intro x hx
    obtain ⟨i, hi, rfl⟩ := List.mem_map.mp hx
    exact ⟨i, rfl, List.all_eq_true.mp hb i hi⟩
  rcases section_option fe c loaded sv v "request_policy" "RequestPolicy" fname h (by decide) hg1 hg2
    with hd | hd | ⟨ty, hty, hcs⟩
  · rw [hd] at hsdef
    simp only [Option.bind_some, hg2] at hsdef
    exact fromInts d0 hb0 hsdef
  · rw [hd] at hfdef
    simp only [Option.bind_some] at hfdef
    exact fromInts d1 hb1 hfdef
  · rw [hfty] at hty
    injection hty with hty
    subst hty
    obtain ⟨xs, hxs, hall⟩ := conforms_list _ 5 _ v hcs
    refine ⟨xs, hxs, ?_⟩
    intro x hx
    obtain ⟨a, ha, hok⟩ := conforms_scalar _ 4 _ x (hall x hx)
    simp only [List.mem_cons, List.not_mem_nil, or_false] at ha
    subst ha
    exact hok

theorem isDomainName_dot : IsDomainName "." := by
  unfold IsDomainName; decide

theorem mapDurations_ok (l out : List (CVal × CVal)) (h : mapDurations l = .ok out) :
    ∀ kv ∈ l, ∃ d, durationToTimedelta kv.2 = .ok d := by
  induction l generalizing out with
  | nil => intro kv hkv; cases hkv
  | cons p r ih =>
    obtain ⟨k, v⟩ := p
    unfold mapDurations at h
    cases hd : durationToTimedelta v with
    | error e => simp [hd, bind, Except.bind] at h
    | ok d =>
      cases hr : mapDurations r with
      | error e => simp [hd, hr, bind, Except.bind] at h
      | ok r' =>
        intro kv hkv
        rcases List.mem_cons.mp hkv with rfl | hkv'
        · exact ⟨d, hd⟩
        · exact ih r' hr kv hkv'

def envWith (fe : String → Bool) (fb : Option CVal) : Env :=
  { tbl := KskmGen.configSchema, algNames := KskmGen.algorithmDNSSEC, fileExists := fe, kskTtlFallback := fb }

theorem fieldValidators_of (tbl : List ObjSchema) (name fname : String) (s : ObjSchema) (f : Field)
    (hs : findSchema tbl name = some s) (hf : s.field? fname = some f) :
    schemaFieldValidators tbl name fname = some (f.strToList, f.naiveIsUtc) := by
  simp [schemaFieldValidators, hs, hf]

/-- Where the value of an option of a loaded key definition comes from, traced back to the configured
    tree (after `_transform_config`): the key definition of the same name, and for each option either
    its default (the option is absent) or the validated form of what was configured. -/
theorem key_option_traced (fe : String → Bool) (c loaded ks kname key : CVal) (keys : List (CVal × CVal))
    (h : fromDict (realEnv fe) c = .ok loaded)
    (hg : loaded.get? "ksk_keys" = some ks) (hks : ks = .map keys) (hk : (kname, key) ∈ keys) :
    ∃ kvs ksIn keyIn, transformConfig (realEnv fe).kskTtlFallback c = .ok kvs ∧
      CVal.lookupStr kvs "ksk_keys" = some (.map ksIn) ∧ (kname, .map keyIn) ∈ ksIn ∧
      ∀ fname v, key.get? fname = some v →
        ∃ s f, findSchema KskmGen.configSchema "KSKKey" = some s ∧ s.field? fname = some f ∧
          ((CVal.lookupStr keyIn fname = none ∧ f.default = some v) ∨
           (∃ x y, CVal.lookupStr keyIn fname = some x ∧
              validate (realEnv fe) 5 s.strict f.ty (applyStrToList f x) = .ok (some y) ∧
              v = applyNaiveIsUtc f y)) := by
  obtain ⟨kvs, ht, hv, _⟩ := fromDict_validated _ c loaded h
  obtain ⟨s, f, kvs0, hs, hf, hkv, hor⟩ :=
    validate_model_get (realEnv fe) names_nodup 7 false "KSKMConfig" "ksk_keys" (.map kvs) loaded ks hv hg
  injection hkv with hkv
  subst hkv
  obtain ⟨e1, e2⟩ := fieldTy_of _ _ _ _ _ hs hf
  have e3 := fieldValidators_of _ _ _ _ _ hs hf
  have hd0 : ((schemaDefault KskmGen.configSchema "KSKMConfig" "ksk_keys").bind CVal.getMap?).map List.isEmpty
      = some true := by decide
  have ht0 : schemaFieldTy KskmGen.configSchema "KSKMConfig" "ksk_keys" = some (.mapOf false (.model "KSKKey")) := by decide
  have hv0 : schemaFieldValidators KskmGen.configSchema "KSKMConfig" "ksk_keys" = some (false, false) := by decide
  rcases hor with ⟨_, hd⟩ | ⟨x, y, hl, hy, hky⟩
  · -- the whole `keys` section defaulted: it is empty
    have : schemaDefault KskmGen.configSchema "KSKMConfig" "ksk_keys" = some ks := e2.trans hd
    rw [this, hks] at hd0
    simp only [Option.bind_some, CVal.getMap?, Option.map_some, Option.some.injEq, List.isEmpty_iff] at hd0
    subst hd0
    cases hk
  · have hty : f.ty = .mapOf false (.model "KSKKey") := by
      have : some f.ty = some (STy.mapOf false (.model "KSKKey")) := by rw [← ht0]; exact e1.symm
      injection this
    have hfl : f.strToList = false ∧ f.naiveIsUtc = false := by
      have : some (f.strToList, f.naiveIsUtc) = some (false, false) := by rw [← hv0]; exact e3.symm
      injection this with this
      injection this with h1 h2
      exact ⟨h1, h2⟩
    simp only [applyStrToList, applyNaiveIsUtc, hfl.1, hfl.2, Bool.false_eq_true, if_false] at hy hky
    rw [hty, ← hky, hks] at hy
    obtain ⟨ksIn, kv, hx, hkv, hkey, hval⟩ := validate_mapOf_mem _ 6 _ _ _ x keys (kname, key) hy hk
    subst hx
    have hkn : kname = kv.1 := valKey_str _ _ hkey
    obtain ⟨keyIn, hin⟩ := validate_model_input _ 5 _ _ _ _ hval
    refine ⟨kvs, ksIn, keyIn, ht, hl, ?_, ?_⟩
    · rw [hkn, ← hin]; exact hkv
    · intro fname v hgv
      obtain ⟨s2, f2, kvs2, hs2, hf2, hkv2, hor2⟩ :=
        validate_model_get (realEnv fe) names_nodup 5 s.strict "KSKKey" fname kv.2 key v hval hgv
      rw [hin] at hkv2
      injection hkv2 with hkv2
      subst hkv2
      exact ⟨s2, f2, hs2, hf2, hor2⟩

/-! ### KSK validity: a timestamp without time zone is UTC -/

/-- The documented reading of a configured validity ("ISO8601 timestamp"; a timestamp without a zone
    designator is UTC, as for KSR / SKR timestamps), written from the property text.  `x` is what the
    file holds (YAML gives a timestamp, a bare date, or — quoted — a string), `v` what is loaded:
    * a timestamp WITH a zone designator (`Z`, `+00:00`, `+02:00` …): that instant, zone kept — unchanged;
    * a timestamp WITHOUT one: the same wall-clock time in UTC (`us` reads a naive value as UTC);
    * a bare date: midnight UTC of that day;
    * an ISO 8601 text (as far as the model parses it): the same, with or without designator;
    * an empty `valid_until`: stays empty.
    Other spellings (numbers = Unix time, …) are not spoken about here. -/
def LoadedAs (x v : CVal) : Prop :=
  match x with
  | .ts us (some off) => v = .ts us (some off)
  | .ts us none => v = .ts us (some 0)
  | .date d => v = .ts (d * usPerDay) (some 0)
  | .str s => ∀ us off, parseCleanInt s.toList = none → pydDatetime s = .ok (some (us, off)) →
      v = .ts us (some (off.getD 0))
  | .null => v = .null
  | _ => True

/-- one validity option, traced: shared by the two halves of `validity_loaded_aware` -/
theorem validity_option (fe : String → Bool) (s : ObjSchema) (f : Field) (fname : String) (alts : List Scalar)
    (x y v : CVal)
    (hs : findSchema KskmGen.configSchema "KSKKey" = some s) (hf : s.field? fname = some f)
    (hty : schemaFieldTy KskmGen.configSchema "KSKKey" fname = some (.scalar (.datetime :: alts)))
    (halts : alts = [] ∨ alts = [.null])
    (hvl : schemaFieldValidators KskmGen.configSchema "KSKKey" fname = some (false, true))
    (hy : validate (realEnv fe) 5 s.strict f.ty (applyStrToList f x) = .ok (some y))
    (hv : v = applyNaiveIsUtc f y) :
    (v = .null ∨ ∃ us off, v = .ts us (some off)) ∧ LoadedAs x v := by
  obtain ⟨e1, _⟩ := fieldTy_of _ _ _ _ _ hs hf
  have e3 := fieldValidators_of _ _ _ _ _ hs hf
  have hstrict : s.strict = false := by
    have h0 : (findSchema KskmGen.configSchema "KSKKey").map (·.strict) = some false := by decide
    rw [hs] at h0
    simpa using h0
  have hfty : f.ty = .scalar (.datetime :: alts) := by
    have : some f.ty = some (STy.scalar (.datetime :: alts)) := by rw [← hty]; exact e1.symm
    injection this
  have hfl : f.strToList = false ∧ f.naiveIsUtc = true := by
    have : some (f.strToList, f.naiveIsUtc) = some (false, true) := by rw [← hvl]; exact e3.symm
    injection this with this
    injection this with h1 h2
    exact ⟨h1, h2⟩
  simp only [applyStrToList, hfl.1, Bool.false_eq_true, if_false, hfty, hstrict] at hy
  simp only [applyNaiveIsUtc, hfl.2, if_true] at hv
  constructor
  · -- never naive: the validated value is of the field's type, and the validator made it aware
    have hc := validate_sound _ _ _ _ _ _ hy
    obtain ⟨a, ha, hok⟩ := conforms_scalar _ 4 _ y hc
    have hcase : (∃ u o, y = .ts u o) ∨ y = .null := by
      rcases List.mem_cons.mp ha with rfl | ha
      · exact Or.inl hok
      · rcases halts with rfl | rfl
        · cases ha
        · simp only [List.mem_cons, List.not_mem_nil, or_false] at ha
          subst ha
          exact Or.inr hok
    rcases hcase with ⟨u, o, rfl⟩ | rfl
    · right
      cases o with
      | none => exact ⟨u, 0, hv⟩
      | some o => exact ⟨u, o, hv⟩
    · left; exact hv
  · -- and it is the configured one
    cases x with
    | ts us off =>
      rw [validate_datetime_ts] at hy
      injection hy with hy; injection hy with hy; subst hy
      cases off <;> exact hv
    | date d =>
      have hd := validate_datetime_date (realEnv fe) 4 d
      rcases halts with rfl | rfl
      · rw [hd.1] at hy
        injection hy with hy; injection hy with hy; subst hy
        exact hv
      · rw [hd.2] at hy
        injection hy with hy; injection hy with hy; subst hy
        exact hv
    | null =>
      rcases halts with rfl | rfl
      · simp [validate, valUnion, firstSome, valScalar, pure, Except.pure, bind, Except.bind] at hy
      · rw [validate_datetime_null] at hy
        injection hy with hy; injection hy with hy; subst hy
        exact hv
    | str t =>
      intro us off hci hpd
      have hyv : y = .ts us off := by
        rcases halts with rfl | rfl <;>
          simp [validate, valUnion, firstSome, valScalar, pure, Except.pure, bind, Except.bind, hci, hpd] at hy <;>
          exact hy.symm
      subst hyv
      cases off <;> exact hv
    | _ => trivial

end Kskm.C16
