/-
  Helper lemmas for C16 that speak about the REGENERATED schema table (`KskmGen.configSchema`):
  from "the loader returned `loaded`" to "this option of `loaded` is its default or an instance of
  its schema type".  Kept apart from KskmProofs/C16.lean so that the property statements there stay
  readable and are never quietly weakened.
-/
import Kskm.Config
import KskmGen.Tables
import KskmProofs.Lemmas.C16Validate
import KskmProofs.Lemmas.C16Conforms
namespace Kskm.C16
open Kskm Kskm.Config

/-- the environment of the real loader: regenerated schema and algorithm tables; only the file
    system stays a parameter -/
def realEnv (fileExists : String → Bool) : Env :=
  { tbl := KskmGen.configSchema, algNames := KskmGen.algorithmDNSSEC, fileExists := fileExists,
    kskTtlFallback := KskmGen.dnsTtlFallback.map CVal.int }

theorem fromDict_validated (env : Env) (c loaded : CVal) (h : fromDict env c = .ok loaded) :
    ∃ kvs, transformConfig env.kskTtlFallback c = .ok kvs ∧
      validate env validateFuel false (.model "KSKMConfig") (.map kvs) = .ok (some loaded) ∧
      positivityChecks loaded = .ok () := by
  unfold fromDict at h
  cases ht : transformConfig env.kskTtlFallback c with
  | error e => simp [ht, bind, Except.bind] at h
  | ok kvs =>
    refine ⟨kvs, rfl, ?_⟩
    simp only [ht, bind, Except.bind] at h
    cases hv : validate env validateFuel false (.model "KSKMConfig") (.map kvs) with
    | error e => simp [hv] at h
    | ok o =>
      cases o with
      | none => simp [hv, err] at h
      | some l =>
        simp only [hv] at h
        cases hp : positivityChecks l with
        | error e => simp [hp] at h
        | ok u =>
          simp only [hp, pure, Except.pure, Except.ok.injEq] at h
          subst h
          exact ⟨rfl, hp⟩

theorem names_nodup : ∀ s ∈ KskmGen.configSchema, s.fieldNames.Nodup := by decide

theorem loaded_conforms (fe : String → Bool) (c loaded : CVal) (h : fromDict (realEnv fe) c = .ok loaded) :
    Conforms (realEnv fe) validateFuel (.model "KSKMConfig") loaded := by
  obtain ⟨kvs, _, hv, _⟩ := fromDict_validated _ c loaded h
  exact validate_sound _ _ _ _ _ _ hv

theorem fieldTy_of (tbl : List ObjSchema) (name fname : String) (s : ObjSchema) (f : Field)
    (hs : findSchema tbl name = some s) (hf : s.field? fname = some f) :
    schemaFieldTy tbl name fname = some f.ty ∧ schemaDefault tbl name fname = f.default := by
  simp [schemaFieldTy, schemaDefault, hs, hf]

/-- Where the value of `section.option` of a loaded configuration comes from: the default of the
    whole section, the default of the option, or a validated instance of the option's schema type. -/
theorem section_option (fe : String → Bool) (c loaded sv v : CVal) (sect model fname : String)
    (h : fromDict (realEnv fe) c = .ok loaded)
    (hsty : schemaFieldTy KskmGen.configSchema "KSKMConfig" sect = some (.model model))
    (hg1 : loaded.get? sect = some sv) (hg2 : sv.get? fname = some v) :
    (schemaDefault KskmGen.configSchema "KSKMConfig" sect = some sv) ∨
    (schemaDefault KskmGen.configSchema model fname = some v) ∨
    (∃ ty, schemaFieldTy KskmGen.configSchema model fname = some ty ∧ Conforms (realEnv fe) 6 ty v) := by
  have hc := loaded_conforms fe c loaded h
  obtain ⟨s, f, hs, hf, hor⟩ := loaded_option (realEnv fe) names_nodup 7 "KSKMConfig" sect loaded sv hc hg1
  obtain ⟨e1, e2⟩ := fieldTy_of _ _ _ _ _ hs hf
  rcases hor with hd | hcs
  · left; exact e2.trans hd
  · right
    have hty : f.ty = .model model := by
      have : some f.ty = some (STy.model model) := by rw [← e1]; exact hsty
      injection this
    rw [hty] at hcs
    obtain ⟨s2, f2, hs2, hf2, hor2⟩ := loaded_option (realEnv fe) names_nodup 6 model fname sv v hcs hg2
    obtain ⟨e3, e4⟩ := fieldTy_of _ _ _ _ _ hs2 hf2
    rcases hor2 with hd | hcs2
    · left; exact e4.trans hd
    · right; exact ⟨f2.ty, e3, hcs2⟩

/-- an integer option of a section lies within its regenerated bounds, whichever way it was loaded -/
theorem section_int_option (fe : String → Bool) (c loaded sv v : CVal) (sect model fname : String)
    (ge le gt : Option Int) (d0 d1 : Int)
    (h : fromDict (realEnv fe) c = .ok loaded)
    (hsty : schemaFieldTy KskmGen.configSchema "KSKMConfig" sect = some (.model model))
    (hfty : schemaFieldTy KskmGen.configSchema model fname = some (.scalar [.int ge le gt]))
    (hsdef : ((schemaDefault KskmGen.configSchema "KSKMConfig" sect).bind (·.get? fname)).bind CVal.getInt? = some d0)
    (hfdef : (schemaDefault KskmGen.configSchema model fname).bind CVal.getInt? = some d1)
    (hb0 : inBounds ge le gt d0 = true) (hb1 : inBounds ge le gt d1 = true)
    (hg1 : loaded.get? sect = some sv) (hg2 : sv.get? fname = some v) :
    ∃ i, v = .int i ∧ inBounds ge le gt i = true := by
  rcases section_option fe c loaded sv v sect model fname h hsty hg1 hg2 with hd | hd | ⟨ty, hty, hcs⟩
  · rw [hd] at hsdef
    simp only [Option.bind_some, hg2] at hsdef
    exact ⟨d0, getInt?_some v d0 hsdef, hb0⟩
  · rw [hd] at hfdef
    simp only [Option.bind_some] at hfdef
    exact ⟨d1, getInt?_some v d1 hfdef, hb1⟩
  · rw [hfty] at hty
    injection hty with hty
    subst hty
    obtain ⟨a, ha, hok⟩ := conforms_scalar _ 5 _ v hcs
    simp only [List.mem_cons, List.not_mem_nil, or_false] at ha
    subst ha
    exact hok

/-- Where the value of an option of a key definition (`keys.<name>.<option>`) comes from. -/
theorem key_option (fe : String → Bool) (c loaded ks kname key v : CVal) (keys : List (CVal × CVal))
    (fname : String) (h : fromDict (realEnv fe) c = .ok loaded)
    (hg : loaded.get? "ksk_keys" = some ks) (hks : ks = .map keys) (hk : (kname, key) ∈ keys)
    (hg2 : key.get? fname = some v) :
    (schemaDefault KskmGen.configSchema "KSKKey" fname = some v) ∨
    (∃ ty, schemaFieldTy KskmGen.configSchema "KSKKey" fname = some ty ∧ Conforms (realEnv fe) 5 ty v) := by
  have hc := loaded_conforms fe c loaded h
  obtain ⟨s, f, hs, hf, hor⟩ := loaded_option (realEnv fe) names_nodup 7 "KSKMConfig" "ksk_keys" loaded ks hc hg
  obtain ⟨e1, e2⟩ := fieldTy_of _ _ _ _ _ hs hf
  have hd0 : ((schemaDefault KskmGen.configSchema "KSKMConfig" "ksk_keys").bind CVal.getMap?).map List.isEmpty
      = some true := by decide
  have ht0 : schemaFieldTy KskmGen.configSchema "KSKMConfig" "ksk_keys" = some (.mapOf false (.model "KSKKey")) := by decide
  rcases hor with hd | hcs
  · -- the whole `keys` section defaulted: it is empty
    have : schemaDefault KskmGen.configSchema "KSKMConfig" "ksk_keys" = some ks := e2.trans hd
    rw [this, hks] at hd0
    simp only [Option.bind_some, CVal.getMap?, Option.map_some, Option.some.injEq, List.isEmpty_iff] at hd0
    subst hd0
    cases hk
  · have hty : f.ty = .mapOf false (.model "KSKKey") := by
      have : some f.ty = some (STy.mapOf false (.model "KSKKey")) := by rw [← ht0]; exact e1.symm
      injection this
    rw [hty] at hcs
    obtain ⟨out, hout, hall⟩ := conforms_mapOf _ 6 _ _ ks hcs
    rw [hks] at hout
    injection hout with hout
    subst hout
    have hkey := hall _ hk
    obtain ⟨s2, f2, hs2, hf2, hor2⟩ := loaded_option (realEnv fe) names_nodup 5 "KSKKey" fname key v hkey hg2
    obtain ⟨e3, e4⟩ := fieldTy_of _ _ _ _ _ hs2 hf2
    rcases hor2 with hd | hcs2
    · left; exact e4.trans hd
    · right; exact ⟨f2.ty, e3, hcs2⟩

/-- an optional bounded integer of a key definition is absent (`null`) or within its bounds -/
theorem key_nullable_int (fe : String → Bool) (c loaded ks kname key v : CVal) (keys : List (CVal × CVal))
    (fname : String) (ge le gt : Option Int) (h : fromDict (realEnv fe) c = .ok loaded)
    (hfty : schemaFieldTy KskmGen.configSchema "KSKKey" fname = some (.scalar [.int ge le gt, .null]))
    (hfdef : (schemaDefault KskmGen.configSchema "KSKKey" fname).map CVal.isNull = some true)
    (hg : loaded.get? "ksk_keys" = some ks) (hks : ks = .map keys) (hk : (kname, key) ∈ keys)
    (hg2 : key.get? fname = some v) :
    v = .null ∨ ∃ i, v = .int i ∧ inBounds ge le gt i = true := by
  rcases key_option fe c loaded ks kname key v keys fname h hg hks hk hg2 with hd | ⟨ty, hty, hcs⟩
  · rw [hd] at hfdef
    left
    cases v <;> simp [CVal.isNull] at hfdef ⊢
  · rw [hfty] at hty
    injection hty with hty
    subst hty
    obtain ⟨a, ha, hok⟩ := conforms_scalar _ 4 _ v hcs
    simp only [List.mem_cons, List.not_mem_nil, or_false] at ha
    rcases ha with rfl | rfl
    · right; exact hok
    · left; exact hok

/-- the characters `^[\w_]+$`, `^[\w\.]+$`, `^[0-9a-fA-F]+$` admit (ASCII; a non-ASCII character
    makes the model decline, so an accepted string here is pure ASCII) -/
def IsKeyName (s : String) : Prop := s.toList ≠ [] ∧ ∀ ch ∈ s.toList, isAsciiWord ch = true
def IsDomainName (s : String) : Prop := s.toList ≠ [] ∧ ∀ ch ∈ s.toList, (isAsciiWord ch || ch == '.') = true
def IsHexDigest (s : String) : Prop := s.toList ≠ [] ∧ ∀ ch ∈ s.toList, isHexDigit ch = true

theorem matchPattern_keyName (s : String) (h : matchPattern patKeyName s = .ok true) : IsKeyName s := by
  have h' : matchClassPlus isAsciiWord true s.toList = .ok true := by
    simpa [matchPattern, patKeyName, patDomain, patHex] using h
  obtain ⟨h1, h2⟩ := matchClassPlus_true _ _ _ h'
  exact ⟨h1, fun ch hch => (h2 ch hch).2⟩

theorem matchPattern_domain (s : String) (h : matchPattern patDomain s = .ok true) : IsDomainName s := by
  have h' : matchClassPlus (fun c => isAsciiWord c || c == '.') true s.toList = .ok true := by
    simpa [matchPattern, patKeyName, patDomain, patHex] using h
  obtain ⟨h1, h2⟩ := matchClassPlus_true _ _ _ h'
  exact ⟨h1, fun ch hch => (h2 ch hch).2⟩

theorem matchPattern_hex (s : String) (h : matchPattern patHex s = .ok true) : IsHexDigest s := by
  have h' : matchClassPlus isHexDigit false s.toList = .ok true := by
    simpa [matchPattern, patKeyName, patDomain, patHex] using h
  obtain ⟨h1, h2⟩ := matchClassPlus_true _ _ _ h'
  exact ⟨h1, fun ch hch => (h2 ch hch).2⟩

/-- a list-of-bounded-integers option of `request_policy`: every element within the bounds -/
theorem request_intlist_option (fe : String → Bool) (c loaded sv v : CVal) (fname : String)
    (ge le gt : Option Int) (d0 d1 : List Int)
    (h : fromDict (realEnv fe) c = .ok loaded)
    (hfty : schemaFieldTy KskmGen.configSchema "RequestPolicy" fname = some (.list (.scalar [.int ge le gt])))
    (hsdef : ((schemaDefault KskmGen.configSchema "KSKMConfig" "request_policy").bind (·.get? fname)).bind
        CVal.getIntList? = some d0)
    (hfdef : (schemaDefault KskmGen.configSchema "RequestPolicy" fname).bind CVal.getIntList? = some d1)
    (hb0 : d0.all (inBounds ge le gt) = true) (hb1 : d1.all (inBounds ge le gt) = true)
    (hg1 : loaded.get? "request_policy" = some sv) (hg2 : sv.get? fname = some v) :
    ∃ xs, v = .list xs ∧ ∀ x ∈ xs, ∃ i, x = .int i ∧ inBounds ge le gt i = true := by
  have fromInts : ∀ (d : List Int), d.all (inBounds ge le gt) = true → v.getIntList? = some d →
      ∃ xs, v = .list xs ∧ ∀ x ∈ xs, ∃ i, x = .int i ∧ inBounds ge le gt i = true := by
    intro d hb hv
    refine ⟨d.map CVal.int, getIntList?_some v d hv, ?_⟩
    intro x hx
    obtain ⟨i, hi, rfl⟩ := List.mem_map.mp hx
    exact ⟨i, rfl, List.all_eq_true.mp hb i hi⟩
  rcases section_option fe c loaded sv v "request_policy" "RequestPolicy" fname h (by decide) hg1 hg2
    with hd | hd | ⟨ty, hty, hcs⟩
  · rw [hd] at hsdef
    simp only [Option.bind_some, hg2] at hsdef
    exact fromInts d0 hb0 hsdef
  · rw [hd] at hfdef
    simp only [Option.bind_some] at hfdef
    exact fromInts d1 hb1 hfdef
  · rw [hfty] at hty
    injection hty with hty
    subst hty
    obtain ⟨xs, hxs, hall⟩ := conforms_list _ 5 _ v hcs
    refine ⟨xs, hxs, ?_⟩
    intro x hx
    obtain ⟨a, ha, hok⟩ := conforms_scalar _ 4 _ x (hall x hx)
    simp only [List.mem_cons, List.not_mem_nil, or_false] at ha
    subst ha
    exact hok

theorem isDomainName_dot : IsDomainName "." := by
  unfold IsDomainName; decide

theorem mapDurations_ok (l out : List (CVal × CVal)) (h : mapDurations l = .ok out) :
    ∀ kv ∈ l, ∃ d, durationToTimedelta kv.2 = .ok d := by
  induction l generalizing out with
  | nil => intro kv hkv; cases hkv
  | cons p r ih =>
    obtain ⟨k, v⟩ := p
    unfold mapDurations at h
    cases hd : durationToTimedelta v with
    | error e => simp [hd, bind, Except.bind] at h
    | ok d =>
      cases hr : mapDurations r with
      | error e => simp [hd, hr, bind, Except.bind] at h
      | ok r' =>
        intro kv hkv
        rcases List.mem_cons.mp hkv with rfl | hkv'
        · exact ⟨d, hd⟩
        · exact ih r' hr kv hkv'

def envWith (fe : String → Bool) (fb : Option CVal) : Env :=
  { tbl := KskmGen.configSchema, algNames := KskmGen.algorithmDNSSEC, fileExists := fe, kskTtlFallback := fb }

end Kskm.C16
