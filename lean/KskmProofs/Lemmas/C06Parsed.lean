/-
  C06 helper lemmas: every declared algorithm entry that the KSR parser (`_parse_signature_algorithms`
  as modelled in `Kskm.XmlGlue`) can produce has the element kind of its number's family — the parser
  chooses the element by the algorithm NUMBER.  Hence `DeclaredWellFormed` holds of every parsed request.
-/
import Kskm.XmlGlue
import KskmProofs.Lemmas.C06
set_option linter.unusedSimpArgs false
set_option linter.unusedVariables false
namespace Kskm.C06L
open Kskm.Xml

theorem bind_ok {α β} {x : Res α} {f : α → Res β} {b : β} (h : (x >>= f) = .ok b) :
    ∃ a, x = .ok a ∧ f a = .ok b := by
  cases x with
  | error e => simp [bind, Except.bind] at h
  | ok a => exact ⟨a, rfl, by simpa [bind, Except.bind] using h⟩

theorem mapM_ok_forall {α β} (f : α → Res β) (P : β → Prop) (hf : ∀ a b, f a = .ok b → P b) :
    ∀ (l : List α) (rs : List β), l.mapM f = .ok rs → ∀ b ∈ rs, P b
  | [], rs, h => by
    simp [List.mapM_nil, pure, Except.pure] at h; subst h; simp
  | a :: l, rs, h => by
    rw [List.mapM_cons] at h
    obtain ⟨b, hfa, h⟩ := bind_ok h
    obtain ⟨bs, hl, h⟩ := bind_ok h
    simp only [pure, Except.pure, Except.ok.injEq] at h
    subst h
    intro x hx
    rcases List.mem_cons.mp hx with rfl | hx
    · exact hf a _ hfa
    · exact mapM_ok_forall f P hf l bs hl x hx

def EntryWellFormed (a : AlgPolicy) : Prop :=
  (a.kind = .ecdsa → isAlgorithmEcdsa a.algorithm = true) ∧
  (a.kind = .eddsa → isAlgorithmEddsa a.algorithm = true)

theorem algPolicyOf_wf (this : XVal) (a : AlgPolicy) (h : algPolicyOf this = .ok a) :
    EntryWellFormed a := by
  unfold algPolicyOf at h
  obtain ⟨_, _, h⟩ := bind_ok h
  obtain ⟨_, _, h⟩ := bind_ok h
  obtain ⟨alg, _, h⟩ := bind_ok h
  split at h
  · repeat (obtain ⟨_, _, h⟩ := bind_ok h)
    simp only [pure, Except.pure, Except.ok.injEq] at h
    subst h
    exact ⟨fun hk => (by simp at hk), fun hk => (by simp at hk)⟩
  · split at h
    · rename_i hec
      repeat (obtain ⟨_, _, h⟩ := bind_ok h)
      simp only [pure, Except.pure, Except.ok.injEq] at h
      subst h
      exact ⟨fun _ => hec, fun hk => (by simp at hk)⟩
    · split at h
      · rename_i hed
        repeat (obtain ⟨_, _, h⟩ := bind_ok h)
        simp only [pure, Except.pure, Except.ok.injEq] at h
        subst h
        exact ⟨fun hk => (by simp at hk), fun _ => hed⟩
      · cases h

theorem mem_dedup {α} [DecidableEq α] : ∀ (l : List α) (x : α), x ∈ dedup l → x ∈ l
  | [], x, h => by simp [dedup] at h
  | a :: r, x, h => by
    simp only [dedup, List.mem_cons, List.mem_filter] at h
    rcases h with rfl | ⟨h, _⟩
    · simp
    · exact List.mem_cons_of_mem _ (mem_dedup r x h)

theorem signatureAlgorithmsOf_wf (v : XVal) (l : List AlgPolicy) (h : signatureAlgorithmsOf v = .ok l) :
    ∀ a ∈ l, EntryWellFormed a := by
  unfold signatureAlgorithmsOf at h
  obtain ⟨l', hl', h⟩ := bind_ok h
  simp only [pure, Except.pure, Except.ok.injEq] at h
  subst h
  intro a ha
  exact mapM_ok_forall algPolicyOf EntryWellFormed algPolicyOf_wf _ _ hl' a (mem_dedup _ _ ha)

theorem signaturePolicyOf_wf (p : XVal) (sp : SigPolicy) (h : signaturePolicyOf p = .ok sp) :
    ∀ a ∈ sp.algorithms, EntryWellFormed a := by
  unfold signaturePolicyOf at h
  repeat (obtain ⟨_, _, h⟩ := bind_ok h)
  simp only [pure, Except.pure, Except.ok.injEq] at h
  subst h
  exact signatureAlgorithmsOf_wf _ _ (by assumption)

theorem requestFromDict_wf (gs : GlueSwitches) (data : XVal) (req : Request)
    (h : requestFromDict gs data = .ok req) : ∀ a ∈ req.zskPolicy.algorithms, EntryWellFormed a := by
  unfold requestFromDict at h
  iterate 10 (obtain ⟨_, _, h⟩ := bind_ok h)
  obtain ⟨zp, hzp, h⟩ := bind_ok h
  have hwf := signaturePolicyOf_wf _ zp hzp
  clear hzp
  repeat (obtain ⟨_, _, h⟩ := bind_ok h)
  simp only [pure, Except.pure, Except.ok.injEq] at h
  subst h
  exact hwf

end Kskm.C06L
