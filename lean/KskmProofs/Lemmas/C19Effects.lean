/-
  What each keymaster operation does to a store (C19): well-formedness, the two kinds of change
  (`Shrinks`: objects named by the label leave; `Generated`: exactly one pair arrives), and the proofs
  that `keygenP` / `keyDeleteP` / `inventoryP` produce no other change.
-/
import KskmProofs.Lemmas.C19Store
import KskmProofs.C14
namespace Kskm.Km

/-! ### stores -/

/-- handles are unique within a slot and below the slot's counter (as the emulator keeps them) -/
def Store.WF (st : Store) : Prop :=
  ∀ p n s, st.slots p n = some s → (s.objects.map (·.handle)).Nodup ∧ ∀ o ∈ s.objects, o.handle < s.next

theorem slots_setSlot (st : Store) (p : String) (n : Nat) (s : SlotSt) (p' : String) (n' : Nat) :
    (st.setSlot p n s).slots p' n' = if p' = p ∧ n' = n then some s else st.slots p' n' := rfl

theorem objs_of_slots {st : Store} {p : String} {n : Nat} {s : SlotSt} (h : st.slots p n = some s) :
    st.objs p n = s.objects := by simp [Store.objs, h]

theorem mem_objs {st : Store} {p : String} {n : Nat} {o : Obj} (h : o ∈ st.objs p n) :
    ∃ s, st.slots p n = some s ∧ o ∈ s.objects := by
  unfold Store.objs at h
  cases hs : st.slots p n with
  | none => simp [hs] at h
  | some s => exact ⟨s, rfl, by simpa [hs] using h⟩

/-- in a well-formed slot an object is determined by its handle -/
theorem eq_of_handle {l : List Obj} (hn : (l.map (·.handle)).Nodup) {a b : Obj} (ha : a ∈ l) (hb : b ∈ l)
    (h : a.handle = b.handle) : a = b := by
  induction l with
  | nil => simp at ha
  | cons x r ih =>
    simp only [List.map_cons, List.nodup_cons, List.mem_map, not_exists, not_and] at hn
    rcases List.mem_cons.mp ha with rfl | ha' <;> rcases List.mem_cons.mp hb with rfl | hb'
    · rfl
    · exact absurd h.symm (hn.1 b hb')
    · exact absurd h (hn.1 a ha')
    · exact ih hn.2 ha' hb'

theorem slot_filter_true (s : SlotSt) : ({ s with objects := s.objects.filter (fun _ => true) } : SlotSt) = s := by
  cases s; simp

/-! ### `Shrinks`: only objects named by the label leave -/

def isKeyClass (c : Nat) : Prop := c = ckoPublic ∨ c = ckoPrivate

/-- `st'` is `st` minus some public / private objects labelled `label` in searched slots; counters, pool
    and every other object are as they were -/
def Shrinks (label : String) (mods : List P11Module) (st st' : Store) : Prop :=
  st'.pool = st.pool ∧ ∀ p n, ∃ q : Obj → Bool,
    st'.slots p n = (st.slots p n).map (fun s => { s with objects := s.objects.filter q }) ∧
    ∀ o ∈ st.objs p n, q o = false → o.label = label ∧ isKeyClass o.cls ∧ (p, n) ∈ searched mods

theorem Shrinks.refl (label : String) (mods : List P11Module) (st : Store) : Shrinks label mods st st := by
  refine ⟨rfl, fun p n => ⟨fun _ => true, ?_, by intro o _ h; cases h⟩⟩
  cases st.slots p n <;> simp [slot_filter_true]

theorem Shrinks.trans {label : String} {mods : List P11Module} {a b c : Store}
    (h1 : Shrinks label mods a b) (h2 : Shrinks label mods b c) : Shrinks label mods a c := by
  refine ⟨h2.1.trans h1.1, fun p n => ?_⟩
  obtain ⟨q1, e1, f1⟩ := h1.2 p n
  obtain ⟨q2, e2, f2⟩ := h2.2 p n
  refine ⟨fun o => q1 o && q2 o, ?_, ?_⟩
  · rw [e2, e1]
    cases a.slots p n with
    | none => rfl
    | some s => simp [List.filter_filter, Bool.and_comm]
  · intro o ho hq
    cases hq1 : q1 o with
    | false => exact f1 o ho hq1
    | true =>
      have hq2 : q2 o = false := by simpa [hq1] using hq
      apply f2 o _ hq2
      obtain ⟨s, hs, hos⟩ := mem_objs ho
      rw [Store.objs, e1, hs]
      simp [hos, hq1]

/-- objects only leave -/
theorem Shrinks.objs_subset {label : String} {mods : List P11Module} {st st' : Store}
    (h : Shrinks label mods st st') (p : String) (n : Nat) : ∀ o ∈ st'.objs p n, o ∈ st.objs p n := by
  obtain ⟨q, e, _⟩ := h.2 p n
  intro o ho
  rw [Store.objs, e] at ho
  unfold Store.objs
  cases hs : st.slots p n with
  | none => simp [hs] at ho
  | some s => simp only [hs, Option.map_some, List.mem_filter] at ho ⊢; exact ho.1

/-- an object that left was named by the label -/
theorem Shrinks.gone {label : String} {mods : List P11Module} {st st' : Store}
    (h : Shrinks label mods st st') {p : String} {n : Nat} {o : Obj} (ho : o ∈ st.objs p n)
    (hn : o ∉ st'.objs p n) : o.label = label ∧ isKeyClass o.cls ∧ (p, n) ∈ searched mods := by
  obtain ⟨q, e, f⟩ := h.2 p n
  apply f o ho
  obtain ⟨s, hs, hos⟩ := mem_objs ho
  rw [Store.objs, e, hs] at hn
  simp only [Option.map_some, List.mem_filter, not_and, Bool.not_eq_true] at hn
  exact hn hos

theorem Shrinks.wf {label : String} {mods : List P11Module} {st st' : Store}
    (h : Shrinks label mods st st') (hw : st.WF) : st'.WF := by
  intro p n s' hs'
  obtain ⟨q, e, _⟩ := h.2 p n
  rw [e] at hs'
  cases hs : st.slots p n with
  | none => simp [hs] at hs'
  | some s =>
    simp only [hs, Option.map_some, Option.some.injEq] at hs'
    subst hs'
    obtain ⟨h1, h2⟩ := hw p n s hs
    refine ⟨?_, fun o ho => h2 o (List.mem_filter.mp ho).1⟩
    exact (List.filter_sublist.map _).nodup h1

/-- destroying an object named by the label, in a searched slot of a well-formed store -/
theorem destroy_shrinks {label : String} {mods : List P11Module} {st : Store} (hw : st.WF)
    {p : String} {n : Nat} {s : SlotSt} (hs : st.slots p n = some s) {o : Obj} (ho : o ∈ s.objects)
    (hlab : o.label = label) (hcls : isKeyClass o.cls) (hsearched : (p, n) ∈ searched mods) :
    storeStep st (.destroyObject p n o.handle) = (.ok, st.setSlot p n (s.remove o.handle)) ∧
    Shrinks label mods st (st.setSlot p n (s.remove o.handle)) := by
  constructor
  · have : s.objects.any (·.handle == o.handle) = true := List.any_eq_true.mpr ⟨o, ho, by simp⟩
    simp [storeStep, hs, this]
  · refine ⟨rfl, fun p' n' => ?_⟩
    by_cases hpn : p' = p ∧ n' = n
    · obtain ⟨rfl, rfl⟩ := hpn
      refine ⟨fun x => x.handle != o.handle, ?_, ?_⟩
      · simp [slots_setSlot, hs, SlotSt.remove]
      · intro x hx hq
        rw [objs_of_slots hs] at hx
        have hh : x.handle = o.handle := by simpa using hq
        have : x = o := eq_of_handle (hw _ _ s hs).1 hx ho hh
        subst this
        exact ⟨hlab, hcls, hsearched⟩
    · refine ⟨fun _ => true, ?_, by intro _ _ h; cases h⟩
      rw [slots_setSlot, if_neg hpn]
      cases st.slots p' n' <;> simp [slot_filter_true]

/-! ### `Generated`: exactly one pair arrives -/

/-- `st'` is `st` with the pair of pool key `k` under `label` appended to slot (`path`, `slot`), that
    slot's counter advanced by two and `k` taken from the pool; nothing else differs -/
def Generated (label path : String) (slot : Nat) (k : PoolKey) (st st' : Store) : Prop :=
  ∃ s pool', st.slots path slot = some s ∧ k ∈ st.pool ∧ st'.pool = pool' ∧
    (∀ x ∈ pool', x ∈ st.pool) ∧
    st'.slots path slot = some (s.addPair label label k) ∧
    ∀ p n, ¬ (p = path ∧ n = slot) → st'.slots p n = st.slots p n

theorem pickPool_spec {bits : Option Nat} {exponent : Option Bytes} :
    ∀ {pool : List PoolKey} {k : PoolKey} {rest : List PoolKey}, pickPool bits exponent pool = some (k, rest) →
      k ∈ pool ∧ some k.bits = bits ∧ k.e = wantedE exponent ∧
      ∀ x ∈ rest, x ∈ pool := by
  intro pool
  induction pool with
  | nil => intro k rest h; simp [pickPool] at h
  | cons a r ih =>
    intro k rest h
    rw [pickPool] at h
    split at h
    · rename_i hc
      simp only [Option.some.injEq, Prod.mk.injEq] at h
      obtain ⟨rfl, rfl⟩ := h
      exact ⟨List.mem_cons_self, hc.1, hc.2, fun x hx => List.mem_cons_of_mem _ hx⟩
    · cases hp : pickPool bits exponent r with
      | none => simp [hp] at h
      | some x =>
        obtain ⟨k', r'⟩ := x
        simp only [hp, Option.some.injEq, Prod.mk.injEq] at h
        obtain ⟨rfl, rfl⟩ := h
        obtain ⟨h1, h2, h3, h4⟩ := ih hp
        refine ⟨List.mem_cons_of_mem _ h1, h2, h3, ?_⟩
        intro x hx
        rcases List.mem_cons.mp hx with rfl | hx'
        · exact List.mem_cons_self
        · exact List.mem_cons_of_mem _ (h4 x hx')

/-- `C_GenerateKeyPair` against a store: an error and no change, or exactly `Generated` -/
theorem generate_step (st : Store) (path : String) (slot : Nat) (label : String) (bits : Option Nat)
    (exponent : Option Bytes) :
    ((storeStep st (.generateKeyPair path slot label bits exponent label)).1 = .error ∧
      (storeStep st (.generateKeyPair path slot label bits exponent label)).2 = st) ∨
    (∃ k, (storeStep st (.generateKeyPair path slot label bits exponent label)).1 ≠ .error ∧
      some k.bits = bits ∧ k.e = wantedE exponent ∧
      Generated label path slot k st (storeStep st (.generateKeyPair path slot label bits exponent label)).2) := by
  simp only [storeStep]
  cases hs : st.slots path slot with
  | none => left; simp
  | some s =>
    cases hp : pickPool bits exponent st.pool with
    | none => left; simp
    | some x =>
      obtain ⟨k, pool'⟩ := x
      obtain ⟨h1, h2, h3, h4⟩ := pickPool_spec hp
      right
      refine ⟨k, by simp, h2, h3, s, pool', hs, h1, rfl, h4, ?_, ?_⟩
      · simp [slots_setSlot]
      · intro p n hpn
        simp [slots_setSlot, hpn]

theorem Generated.objs_target {label path : String} {slot : Nat} {k : PoolKey} {st st' : Store}
    (h : Generated label path slot k st st') :
    ∃ s, st.slots path slot = some s ∧
      st'.objs path slot = st.objs path slot ++
        [rsaObj s.next ckoPublic label k, rsaObj (s.next + 1) ckoPrivate label k] := by
  obtain ⟨s, _, hs, _, _, _, hs', _⟩ := h
  exact ⟨s, hs, by rw [objs_of_slots hs, objs_of_slots hs']; rfl⟩

theorem Generated.objs_other {label path : String} {slot : Nat} {k : PoolKey} {st st' : Store}
    (h : Generated label path slot k st st') {p : String} {n : Nat} (hpn : ¬ (p = path ∧ n = slot)) :
    st'.objs p n = st.objs p n := by
  obtain ⟨_, _, _, _, _, _, _, ho⟩ := h
  simp [Store.objs, ho p n hpn]

theorem Generated.wf {label path : String} {slot : Nat} {k : PoolKey} {st st' : Store}
    (h : Generated label path slot k st st') (hw : st.WF) : st'.WF := by
  obtain ⟨s, pool', hs, _, _, _, hs', ho⟩ := h
  intro p n x hx
  by_cases hpn : p = path ∧ n = slot
  · obtain ⟨rfl, rfl⟩ := hpn
    rw [hs'] at hx
    obtain rfl := Option.some.inj hx
    obtain ⟨h1, h2⟩ := hw _ _ s hs
    simp only [SlotSt.addPair, rsaObj, List.map_append, List.map_cons, List.map_nil]
    refine ⟨?_, ?_⟩
    · rw [List.nodup_append]
      refine ⟨h1, by simp, ?_⟩
      intro a ha b hb
      obtain ⟨o, ho', rfl⟩ := List.mem_map.mp ha
      have := h2 o ho'
      simp only [List.mem_cons, List.not_mem_nil, or_false] at hb
      rcases hb with rfl | rfl <;> omega
    · intro o ho'
      simp only [List.mem_append, List.mem_cons, List.not_mem_nil, or_false] at ho'
      rcases ho' with ho' | rfl | rfl
      · have := h2 o ho'; omega
      · simp
      · simp
  · rw [ho p n hpn] at hx
    exact hw p n x hx

/-! ### read-only programs of the keymaster -/

theorem existingKeyP_ro (mods : List P11Module) (label : String) : AllOps isReadOp (existingKeyP mods label) := by
  unfold existingKeyP
  refine AllOps.bind (getP11KeyP_ro _ _ _ _) (fun r => ?_)
  split
  · exact AllOps.pure _
  · exact getP11KeyP_ro _ _ _ _

/-- the existing-label check answers "none" only when no public and no private object in any searched
    slot carries the label -/
theorem existingKeyP_none {mods : List P11Module} {label : String} {st st' : Store}
    (h : (existingKeyP mods label).runSt st = (.ok none, st')) :
    ∀ p n, (p, n) ∈ searched mods → ∀ o ∈ st.objs p n, o.label = label → ¬ isKeyClass o.cls := by
  unfold existingKeyP at h
  obtain ⟨r, st1, h1, h2⟩ := runSt_bind_ok h
  have hst : st1 = st := by have := getP11KeyP_store label true none mods st; rw [h1] at this; exact this
  subst hst
  cases r with
  | some k => simp at h2
  | none =>
    simp only at h2
    intro p n hpn o ho hl hc
    rcases hc with hc | hc
    · exact getP11KeyP_none h1 p n hpn o ho ⟨hl, by simpa [classOfB] using hc⟩
    · exact getP11KeyP_none h2 p n hpn o ho ⟨hl, by simpa [classOfB] using hc⟩

/-! ### key generation -/

/-- `generate_key_from_templates` against a store, in three cases -/
theorem generateKeyFromTemplatesP_cases (mods : List P11Module) (label : String) (bits : Option Nat)
    (exponent : Option Bytes) (st : Store) :
    let run := (generateKeyFromTemplatesP mods label bits exponent).runSt st
    -- refused, or failed before generating: nothing changed
    (run.2 = st ∧ (run.1 = .ok none ∨ ∃ e, run.1 = .error e)) ∨
    -- generated (whatever happened afterwards)
    (∃ path slot k, (existingKeyP mods label).runSt st = (.ok none, st) ∧ getSession mods = .ok (path, slot) ∧
      some k.bits = bits ∧ k.e = wantedE exponent ∧
      Generated label path slot k st run.2 ∧
      run = (getP11KeyP label true none mods).runSt run.2) := by
  intro run
  have hro := (existingKeyP_ro mods label).readOnly st
  show _ ∨ _
  simp only [run]
  unfold generateKeyFromTemplatesP
  rw [runSt_bind]
  cases he : (existingKeyP mods label).runSt st with
  | mk r st1 =>
    rw [he] at hro
    simp only at hro
    subst hro
    cases r with
    | error e => left; exact ⟨rfl, Or.inr ⟨e, rfl⟩⟩
    | ok o =>
      cases o with
      | some k => left; exact ⟨rfl, Or.inl rfl⟩
      | none =>
        simp only
        rw [runSt_bind, runSt_liftP]
        cases hg : getSession mods with
        | error e => left; exact ⟨rfl, Or.inr ⟨e, rfl⟩⟩
        | ok ps =>
          obtain ⟨path, slot⟩ := ps
          simp only
          rw [runSt_bind, runSt_askOkP]
          rcases generate_step st1 path slot label bits exponent with ⟨h1, h2⟩ | ⟨k, h1, hb, hx, hgen⟩
          · left
            simp only [h1, if_true, h2]
            exact ⟨trivial, Or.inr ⟨_, rfl⟩⟩
          · right
            simp only [if_neg h1]
            have hstore := getP11KeyP_store label true none mods
              (storeStep st1 (.generateKeyPair path slot label bits exponent label)).2
            refine ⟨path, slot, k, by first | trivial | rfl, by first | trivial | rfl, hb, hx, ?_, ?_⟩
            · rw [hstore]; exact hgen
            · rw [hstore]

/-! ### deletion -/

theorem destroyPublicP_shrinks {label : String} {mods : List P11Module} {st : Store} (hw : st.WF)
    {pub : P11Key} {s : SlotSt} {o : Obj} (hs : st.slots pub.module pub.slot = some s) (ho : o ∈ s.objects)
    (hlab : o.label = label) (hcls : isKeyClass o.cls) (hsearched : (pub.module, pub.slot) ∈ searched mods)
    (hh : pub.pubHandle = some o.handle) :
    Shrinks label mods st ((destroyPublicP pub).runSt st).2 := by
  unfold destroyPublicP
  cases hpk : pub.publicKey with
  | none => exact Shrinks.refl _ _ _
  | some pk =>
    simp only [hh]
    by_cases he : pk.isEmpty = true
    · simp only [he, if_true]; exact Shrinks.refl _ _ _
    · simp only [he, Bool.false_eq_true, if_false]
      obtain ⟨h1, h2⟩ := destroy_shrinks (mods := mods) hw hs ho hlab hcls hsearched
      rw [runSt_bind, runSt_askOkP, h1]
      simpa using h2

theorem destroyPrivateP_shrinks {label : String} {mods : List P11Module} {st : Store} (hw : st.WF) :
    Shrinks label mods st ((destroyPrivateP mods label).runSt st).2 := by
  unfold destroyPrivateP
  rw [runSt_bind]
  have hst := getP11KeyP_store label false none mods st
  cases hl : (getP11KeyP label false none mods).runSt st with
  | mk r st1 =>
    rw [hl] at hst
    simp only at hst
    subst hst
    cases r with
    | error e => exact Shrinks.refl _ _ _
    | ok o =>
      cases o with
      | none => exact Shrinks.refl _ _ _
      | some priv =>
        simp only
        obtain ⟨hsearched, s, o, hs, hf, hfound⟩ := getP11KeyP_some hl
        have ho : o ∈ s.objects ∧ o.named label ckoPrivate := by
          have : o ∈ s.objects.filter (fun o => decide (o.named label (classOfB false))) := by rw [hf]; simp
          simpa [classOfB] using this
        have hph : priv.privHandle = some o.handle := by
          have := hfound.2.2.2.2.1
          simpa [classOfB, ckoPublic, ckoPrivate] using this
        simp only [hph]
        obtain ⟨h1, h2⟩ := destroy_shrinks (mods := mods) hw hs ho.1 ho.2.1 (Or.inr ho.2.2) hsearched
        rw [runSt_bind, runSt_askOkP, h1]
        simpa using h2

/-- **Deletion only shrinks**: whatever `key_delete` does to a well-formed store, every object that
    leaves is a public / private object carrying the label, in a searched slot; nothing arrives, nothing
    else changes. -/
theorem keyDeleteP_shrinks {label : String} {mods : List P11Module} {st : Store} (hw : st.WF)
    (force : Bool) (answer : String) :
    Shrinks label mods st ((keyDeleteP mods label force answer).runSt st).2 := by
  unfold keyDeleteP
  rw [runSt_bind]
  have hst := getP11KeyP_store label true none mods st
  cases hl : (getP11KeyP label true none mods).runSt st with
  | mk r st1 =>
    rw [hl] at hst
    simp only at hst
    subst hst
    cases r with
    | error e => exact Shrinks.refl _ _ _
    | ok o =>
      cases o with
      | none => exact Shrinks.refl _ _ _
      | some pub =>
        simp only
        split
        · exact Shrinks.refl _ _ _
        · obtain ⟨hsearched, s, o, hs, hf, hfound⟩ := getP11KeyP_some hl
          have ho : o ∈ s.objects ∧ o.named label ckoPublic := by
            have : o ∈ s.objects.filter (fun o => decide (o.named label (classOfB true))) := by rw [hf]; simp
            simpa [classOfB] using this
          have hph : pub.pubHandle = some o.handle := by
            have := hfound.2.2.2.2.2
            simpa [classOfB, ckoPublic, ckoSecret] using this
          have h1 := destroyPublicP_shrinks (mods := mods) hw hs ho.1 ho.2.1 (Or.inl ho.2.2) hsearched hph
          rw [runSt_bind]
          cases hd : (destroyPublicP pub).runSt st1 with
          | mk r1 st2 =>
            rw [hd] at h1
            cases r1 with
            | error e => exact h1
            | ok u => exact h1.trans (destroyPrivateP_shrinks (h1.wf hw))

/-- without `--force` and without exactly "Yes" the program only reads -/
theorem keyDeleteP_unconfirmed_ro (mods : List P11Module) (label : String) (answer : String)
    (h : confirmed answer = false) : AllOps isReadOp (keyDeleteP mods label false answer) := by
  unfold keyDeleteP
  refine AllOps.bind (getP11KeyP_ro _ _ _ _) (fun r => ?_)
  split
  · exact AllOps.pure _
  · simp only [h, Bool.not_false, Bool.and_self, if_true]
    exact AllOps.pure _

/-! ### `keygen` as a whole -/

theorem generateRsaKeyP_eq (mods : List P11Module) (bits : Nat) (label : String) :
    generateRsaKeyP mods bits (some label) =
      generateKeyFromTemplatesP mods label (some bits) (some (exponentOctets 65537)) := rfl

/-- the generation step of `keygen`: nothing changed (refused / failed), or a pair was generated and the
    result is the re-lookup on the new store -/
theorem keygenGenerateP_cases (mods : List P11Module) (alg : Nat) (size : Option Nat) (label : String)
    (st : Store) :
    (((keygenGenerateP mods alg size (some label)).runSt st).2 = st ∧
      (((keygenGenerateP mods alg size (some label)).runSt st).1 = .ok none ∨
        ∃ e, ((keygenGenerateP mods alg size (some label)).runSt st).1 = .error e)) ∨
    (∃ bits path slot k, size = some bits ∧ isAlgorithmRsa alg = true ∧
      (existingKeyP mods label).runSt st = (.ok none, st) ∧ getSession mods = .ok (path, slot) ∧
      k.bits = bits ∧ k.e = 65537 ∧
      Generated label path slot k st ((keygenGenerateP mods alg size (some label)).runSt st).2 ∧
      (keygenGenerateP mods alg size (some label)).runSt st =
        (getP11KeyP label true none mods).runSt ((keygenGenerateP mods alg size (some label)).runSt st).2) := by
  unfold keygenGenerateP
  by_cases hrsa : isAlgorithmRsa alg = true
  · simp only [hrsa, if_true]
    cases size with
    | none => left; exact ⟨rfl, Or.inr ⟨_, rfl⟩⟩
    | some bits =>
      simp only [generateRsaKeyP_eq]
      rcases generateKeyFromTemplatesP_cases mods label (some bits) (some (exponentOctets 65537)) st with
        h | ⟨path, slot, k, hex, hsess, hb, he, hgen, hrun⟩
      · left; exact h
      · right
        have he' : k.e = 65537 := by
          rw [he]; simp only [wantedE, exponentOctets]; exact C14.beNat_natToBytes 65537
        have hb' : k.bits = bits := by simpa using hb
        exact ⟨bits, path, slot, k, by first | trivial | rfl, by first | trivial | rfl, hex, hsess, hb', he', hgen, hrun⟩
  · simp only [hrsa, Bool.false_eq_true, if_false]
    left
    split <;> exact ⟨rfl, Or.inr ⟨_, rfl⟩⟩

theorem keygenP_run (ext : Externals) (cfg : KmConfig) (mods : List P11Module) (alg : Nat)
    (size : Option Nat) (label : Option String) (st : Store) :
    (keygenP ext cfg mods alg size label).runSt st =
      match (keygenGenerateP mods alg size label).runSt st with
      | (.ok a, st') => (keygenTail ext cfg alg a, st')
      | (.error e, st') => (.error e, st') := by
  unfold keygenP
  rw [runSt_bind]
  cases (keygenGenerateP mods alg size label).runSt st with
  | mk r s => cases r <;> simp [runSt_liftP]

/-- `keygen` against a store: nothing changed and it failed, or a pair was generated (and then the
    outcome is that of the tag / DS computation on the re-looked-up key) -/
theorem keygenP_cases (ext : Externals) (cfg : KmConfig) (mods : List P11Module) (alg : Nat)
    (size : Option Nat) (label : String) (st : Store) :
    (((keygenP ext cfg mods alg size (some label)).runSt st).2 = st ∧
      ∃ e, ((keygenP ext cfg mods alg size (some label)).runSt st).1 = .error e) ∨
    (∃ bits path slot k r, size = some bits ∧ isAlgorithmRsa alg = true ∧
      (existingKeyP mods label).runSt st = (.ok none, st) ∧ getSession mods = .ok (path, slot) ∧
      k.bits = bits ∧ k.e = 65537 ∧
      Generated label path slot k st ((keygenP ext cfg mods alg size (some label)).runSt st).2 ∧
      (getP11KeyP label true none mods).runSt ((keygenP ext cfg mods alg size (some label)).runSt st).2 =
        (r, ((keygenP ext cfg mods alg size (some label)).runSt st).2) ∧
      ((keygenP ext cfg mods alg size (some label)).runSt st).1 = r.bind (keygenTail ext cfg alg)) := by
  rw [keygenP_run]
  rcases keygenGenerateP_cases mods alg size label st with ⟨h1, h2⟩ | ⟨bits, path, slot, k, hs, hrsa, hex, hsess, hb, he, hgen, hrun⟩
  · left
    cases hg : (keygenGenerateP mods alg size (some label)).runSt st with
    | mk r st1 =>
      rw [hg] at h1 h2
      simp only at h1 h2
      subst h1
      rcases h2 with rfl | ⟨e, rfl⟩
      · exact ⟨rfl, _, rfl⟩
      · exact ⟨rfl, e, rfl⟩
  · right
    cases hg : (keygenGenerateP mods alg size (some label)).runSt st with
    | mk r st1 =>
      rw [hg] at hgen hrun
      simp only at hgen hrun
      refine ⟨bits, path, slot, k, r, hs, hrsa, hex, hsess, hb, he, ?_, ?_, ?_⟩
      · cases r <;> exact hgen
      · cases r <;> exact hrun.symm
      · cases r <;> rfl

theorem minSlot_spec : ∀ (l : List Nat) (m : Nat), minSlot l = some m → m ∈ l ∧ ∀ x ∈ l, m ≤ x := by
  intro l
  induction l with
  | nil => intro m h; simp [minSlot] at h
  | cons a r ih =>
    intro m h
    simp only [minSlot] at h
    cases hr : minSlot r with
    | none =>
      simp only [hr, Option.some.injEq] at h
      subst h
      cases r with
      | nil => simp
      | cons b r' =>
        simp only [minSlot] at hr
        cases h2 : minSlot r' <;> simp [h2] at hr
    | some b =>
      simp only [hr, Option.some.injEq] at h
      obtain ⟨hb1, hb2⟩ := ih b hr
      by_cases hab : a ≤ b
      · simp only [hab, if_true] at h; subst h
        exact ⟨List.mem_cons_self, fun x hx => by
          rcases List.mem_cons.mp hx with rfl | hx
          · exact Nat.le_refl _
          · exact Nat.le_trans hab (hb2 x hx)⟩
      · simp only [hab, if_false] at h; subst h
        exact ⟨List.mem_cons_of_mem _ hb1, fun x hx => by
          rcases List.mem_cons.mp hx with rfl | hx
          · omega
          · exact hb2 x hx⟩

/-- `get_session`: the first module, the smallest of its slots, which has a session -/
theorem getSession_spec {mods : List P11Module} {path : String} {slot : Nat}
    (h : getSession mods = .ok (path, slot)) :
    ∃ first rest, mods = first :: rest ∧ path = first.path ∧ slot ∈ first.slots ∧ slot ∈ first.sessions ∧
      ∀ x ∈ first.slots, slot ≤ x := by
  unfold getSession at h
  cases mods with
  | nil => simp [err] at h
  | cons first rest =>
    simp only at h
    split at h
    · simp [err] at h
    · cases hm : minSlot first.slots with
      | none => simp [hm, err] at h
      | some s =>
        simp only [hm] at h
        split at h
        · rename_i hc
          simp only [pure, Except.pure, Except.ok.injEq, Prod.mk.injEq] at h
          obtain ⟨rfl, rfl⟩ := h
          obtain ⟨h1, h2⟩ := minSlot_spec _ _ hm
          exact ⟨first, rest, rfl, rfl, h1, by simpa using hc, h2⟩
        · simp [err] at h

/-! ### the inventory only reads -/

theorem keyIdOfP_ro (i : AttrAns) : AllOps isReadOp (keyIdOfP i) := by unfold keyIdOfP; repeat' ro_step
theorem labelOfP_ro (l : AttrAns) : AllOps isReadOp (labelOfP l) := by unfold labelOfP; repeat' ro_step

theorem keyInfoOfP_ro (path : String) (slot h : Nat) (c l : AttrAns) (keyId : Option Bytes) :
    AllOps isReadOp (keyInfoOfP path slot h c l keyId) := by
  unfold keyInfoOfP
  repeat' first
    | exact labelOfP_ro _ | exact p11ObjectToPublicKeyP_ro _ _ _ | ro_step

theorem inventoryOneP_ro (path : String) (slot h : Nat) : AllOps isReadOp (inventoryOneP path slot h) := by
  unfold inventoryOneP
  repeat' first
    | exact keyIdOfP_ro _ | exact keyInfoOfP_ro _ _ _ _ _ _ | ro_step

theorem inventoryLoopP_ro (path : String) (slot : Nat) : ∀ hs, AllOps isReadOp (inventoryLoopP path slot hs) := by
  intro hs
  induction hs with
  | nil => exact AllOps.pure _
  | cons h rest ih =>
    rw [inventoryLoopP]
    exact AllOps.bind (inventoryOneP_ro _ _ _) (fun _ => AllOps.bind ih (fun _ => AllOps.pure _))

theorem getKeyInventoryP_ro (path : String) (slot : Nat) : AllOps isReadOp (getKeyInventoryP path slot) := by
  unfold getKeyInventoryP
  refine AllOps.bind (AllOps.askOkP _ trivial) (fun a => ?_)
  split
  · exact inventoryLoopP_ro _ _ _
  · exact AllOps.fail _

theorem inventorySlotsP_ro (ext : Externals) (cfg : KmConfig) (dns : Bool) (path : String) :
    ∀ slots, AllOps isReadOp (inventorySlotsP ext cfg dns path slots) := by
  intro slots
  induction slots with
  | nil => exact AllOps.pure _
  | cons sl rest ih =>
    rw [inventorySlotsP]
    refine AllOps.bind ?_ (fun _ => AllOps.bind ih (fun _ => AllOps.pure _))
    unfold slotListingP
    exact AllOps.bind (getKeyInventoryP_ro _ _) (fun _ => AllOps.liftP _)

theorem inventoryP_ro (ext : Externals) (cfg : KmConfig) (mods : List P11Module) (dns : Bool) :
    AllOps isReadOp (inventoryP ext cfg mods dns) := by
  unfold inventoryP
  induction mods with
  | nil => exact AllOps.pure _
  | cons m rest ih =>
    rw [keyInventoryP]
    exact AllOps.bind (inventorySlotsP_ro _ _ _ _ _) (fun _ => AllOps.bind ih (fun _ => AllOps.pure _))

end Kskm.Km
