/-
  Helper lemmas for C08: `validate_signatures` / `validate_response` — the per-signature step, the
  acceptance characterisation, and "the first failing element decides" for `forEach`.
-/
import Kskm.SkrValidate
import KskmProofs.Lemmas.Res
namespace Kskm

/-- the first failing element of a `for` loop decides its outcome -/
theorem forEach_first_fail {α} (pre post : List α) (x : α) (f : α → Res Unit) (e : Fail)
    (hpre : ∀ a ∈ pre, f a = .ok ()) (hx : f x = .error e) :
    forEach (pre ++ x :: post) f = .error e := by
  induction pre with
  | nil => simp [forEach, hx, bind, Except.bind]
  | cons a as ih =>
    have ha := hpre a (by simp)
    simp only [List.cons_append, forEach, ha, bind, Except.bind]
    exact ih (fun a' h' => hpre a' (by simp [h']))

/-- the body of the `for sig in bundle.signatures` loop of `validate_signatures` -/
def sigStep (verify : Verifier) (b : Bundle) (sig : Signature) : Res Unit := do
  match lookupKey b.keys sig.keyIdentifier with
  | none => err .value
  | some key =>
    publicKeyFromKey key
    match Base64.decode sig.signatureData with
    | none => unsupported
    | some sigBytes =>
      let raw ← makeRawRrsig sig b.keys
      match verify key.algorithm key.publicKey raw sigBytes with
      | .valid => pure ()
      | .invalid => err .invalidSignature
      | .error k => err k
      | .unknown => unsupported

theorem validateSignatures_eq (verify : Verifier) (b : Bundle) :
    validateSignatures verify b =
      (if b.keys.isEmpty then err .value
       else if b.signatures.isEmpty then err .value
       else if hasDupIds b.keys then err .value
       else forEach b.signatures (sigStep verify b)) := by
  unfold validateSignatures
  by_cases h1 : b.keys.isEmpty = true
  · simp [h1, bind, Except.bind, err]
  · by_cases h2 : b.signatures.isEmpty = true
    · simp [h1, h2, bind, Except.bind, err]
    · by_cases h3 : hasDupIds b.keys = true
      · simp [h1, h2, h3, bind, Except.bind, err]
      · simp only [h1, h2, h3, bind, Except.bind, pure, Except.pure, Bool.false_eq_true, ↓reduceIte]
        rfl

/-- what the verifier was asked about signature `sig` of bundle `b`, and that it answered `r`:
    the key is the one published under the signature's identifier, the message is the RRSIG
    to-be-signed octets over the bundle's whole key set -/
def VerifierSays (verify : Verifier) (b : Bundle) (sig : Signature) (r : VerifyResult) : Prop :=
  ∃ key sb raw, lookupKey b.keys sig.keyIdentifier = some key ∧ publicKeyFromKey key = .ok () ∧
    Base64.decode sig.signatureData = some sb ∧ makeRawRrsig sig b.keys = .ok raw ∧
    verify key.algorithm key.publicKey raw sb = r

theorem sigStep_ok_iff (verify : Verifier) (b : Bundle) (sig : Signature) :
    sigStep verify b sig = .ok () ↔ VerifierSays verify b sig .valid := by
  unfold sigStep VerifierSays
  cases hk : lookupKey b.keys sig.keyIdentifier with
  | none => simp [err]
  | some key =>
    cases hp : publicKeyFromKey key with
    | error e => simp [hp, bind, Except.bind]
    | ok u =>
      cases hd : Base64.decode sig.signatureData with
      | none => simp [hp, bind, Except.bind, unsupported]
      | some sb =>
        cases hr : makeRawRrsig sig b.keys with
        | error e => simp [hp, bind, Except.bind]
        | ok raw =>
          simp only [hp, bind, Except.bind, Option.some.injEq, exists_and_left, exists_eq_left',
            Except.ok.injEq, true_and]
          cases hv : verify key.algorithm key.publicKey raw sb <;> simp [err, unsupported, pure, Except.pure]

theorem sigStep_invalid (verify : Verifier) (b : Bundle) (sig : Signature)
    (h : VerifierSays verify b sig .invalid) : sigStep verify b sig = err .invalidSignature := by
  obtain ⟨key, sb, raw, hk, hp, hd, hr, hv⟩ := h
  unfold sigStep
  simp [hk, hp, hd, hr, hv, bind, Except.bind]

/-- `validate_signatures` accepts iff the bundle has keys and signatures, no identifier is repeated
    among the keys, and the verifier says `valid` for every signature -/
theorem validateSignatures_ok_iff (verify : Verifier) (b : Bundle) :
    validateSignatures verify b = .ok () ↔
      b.keys ≠ [] ∧ b.signatures ≠ [] ∧ hasDupIds b.keys = false ∧
      ∀ sig ∈ b.signatures, VerifierSays verify b sig .valid := by
  rw [validateSignatures_eq]
  by_cases h1 : b.keys = []
  · simp [h1]
  · by_cases h2 : b.signatures = []
    · simp [h1, h2]
    · cases h3 : hasDupIds b.keys
      · simp [h1, h2, forEach_ok_iff, sigStep_ok_iff]
      · simp [h1, h2]

end Kskm
