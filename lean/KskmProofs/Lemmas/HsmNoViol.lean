/-
  `load_pkcs11_key` reports a policy violation only from its window test: every other failure of
  the lookup / conversion / acceptance path is a non-policy error or `unsupported` (C04).
-/
import KskmProofs.Lemmas.HsmLoad
namespace Kskm

/-! ### Policy violations come from nowhere but the window test -/

/-- a result that is not a policy violation -/
def NoViol {α} (r : Res α) : Prop := ∀ rule, r ≠ .error (.violation rule)

namespace NoViol
variable {α β : Type}
theorem ok (a : α) : NoViol (.ok a : Res α) := fun _ h => by cases h
theorem pure (a : α) : NoViol (Pure.pure a : Res α) := fun _ h => by cases h
theorem err (k : ErrKind) : NoViol (Kskm.err k : Res α) := fun _ h => by cases h
theorem error_err (k : ErrKind) : NoViol (.error (.error k) : Res α) := fun _ h => by cases h
theorem unsupported : NoViol (Kskm.unsupported : Res α) := fun _ h => by cases h
theorem bind {x : Res α} {f : α → Res β} (hx : NoViol x) (hf : ∀ a, NoViol (f a)) :
    NoViol (x >>= f) := by
  cases x with
  | error e => intro rule h; exact hx rule (by simpa [Bind.bind, Except.bind] using h)
  | ok a => exact hf a
end NoViol

/-- one structural step of a `NoViol` proof -/
macro "noviol_step" : tactic => `(tactic| first
  | exact NoViol.ok _ | exact NoViol.pure _ | exact NoViol.err _ | exact NoViol.error_err _
  | exact NoViol.unsupported
  | assumption
  | refine NoViol.bind ?_ (fun _ => ?_)
  | split
  | dsimp only)

theorem rsaDecodeBytes_noViol (b : Bytes) : NoViol (rsaDecodeBytes b) := by
  unfold rsaDecodeBytes; repeat' noviol_step
theorem rsaDecode_noViol (pk : String) (a : Nat) : NoViol (rsaDecode pk a) := by
  unfold rsaDecode
  split
  · exact NoViol.unsupported
  · refine NoViol.bind (rsaDecodeBytes_noViol _) (fun _ => ?_)
    repeat' noviol_step
theorem rsaEncode_noViol (e : Nat) (n : Bytes) : NoViol (rsaEncode e n) := by
  unfold rsaEncode rsaEncodeBytes; repeat' noviol_step
theorem keyToRdata_noViol (k : Key) : NoViol (keyToRdata k) := by
  unfold keyToRdata; repeat' noviol_step
theorem calculateKeyTag_noViol (k : Key) : NoViol (calculateKeyTag k) := by
  have := keyToRdata_noViol k
  unfold calculateKeyTag; repeat' noviol_step
theorem expectedEcdsaKeySize_noViol (a : Nat) : NoViol (expectedEcdsaKeySize a) := by
  unfold expectedEcdsaKeySize; repeat' noviol_step
theorem ecdsaWithoutPrefix_noViol (pk : Bytes) (a : Nat) : NoViol (ecdsaWithoutPrefix pk a) := by
  have := expectedEcdsaKeySize_noViol a
  unfold ecdsaWithoutPrefix; repeat' noviol_step
theorem Key.validate_noViol (k : Key) : NoViol k.validate := by
  have h1 := expectedEcdsaKeySize_noViol k.algorithm
  have h2 := fun b => ecdsaWithoutPrefix_noViol b k.algorithm
  unfold Key.validate; repeat' noviol_step
theorem publicKeyToDnssecKey_noViol (pk id : String) (alg : Nat) (ttl flags : Int) :
    NoViol (publicKeyToDnssecKey pk id alg ttl flags) := by
  unfold publicKeyToDnssecKey
  refine NoViol.bind (Key.validate_noViol _) (fun _ => ?_)
  refine NoViol.bind (calculateKeyTag_noViol _) (fun _ => ?_)
  exact NoViol.pure _
theorem familyCheck_noViol (ksk : KskKey) (kt : KeyType) (pk : String) : NoViol (familyCheck ksk kt pk) := by
  have := rsaDecode_noViol pk ksk.algorithm
  unfold familyCheck; repeat' noviol_step
theorem acceptKey_noViol (ksk : KskKey) (pol : KskPolicy) (found : P11Key) :
    NoViol (acceptKey ksk pol found) := by
  have h1 := fun pk => familyCheck_noViol ksk found.keyType pk
  have h2 := fun pk => publicKeyToDnssecKey_noViol pk ksk.label ksk.algorithm pol.ttl 257
  rw [acceptKey_eq]
  split
  · exact NoViol.pure _
  · split
    · exact NoViol.pure _
    · refine NoViol.bind (h1 _) (fun _ => ?_)
      split
      · exact NoViol.pure _
      · exact NoViol.pure _
      · exact NoViol.bind (h2 _) (fun _ => NoViol.pure _)

/-- a token computation that never fails with a policy violation -/
def NeverViol {α} (m : TokM α) : Prop := ∀ tok s, NoViol (m tok s).1

namespace NeverViol
variable {α β : Type}
theorem pure (a : α) : NeverViol (Pure.pure a : TokM α) := fun _ _ => NoViol.ok a
theorem err (k : ErrKind) : NeverViol (TokM.err k : TokM α) := fun _ _ => NoViol.error_err k
theorem unsupported : NeverViol (TokM.fail .unsupported : TokM α) := fun _ _ _ h => by cases h
theorem lift {r : Res α} (h : NoViol r) : NeverViol (TokM.lift r) := fun _ _ => h
theorem ask (op : TokOp) : NeverViol (Kskm.ask op) := fun _ _ => NoViol.ok _
theorem bind {m : TokM α} {f : α → TokM β} (hm : NeverViol m) (hf : ∀ a, NeverViol (f a)) :
    NeverViol (m >>= f) := by
  intro tok s
  rw [bind_run]
  have := hm tok s
  cases hr : m tok s with
  | mk r s1 =>
    rw [hr] at this
    cases r with
    | error e =>
      show NoViol (Except.error e : Res β)
      exact fun rule h => this rule (by cases h; rfl)
    | ok a => exact hf a tok s1
theorem askOk (op : TokOp) : NeverViol (Kskm.askOk op) := by
  unfold Kskm.askOk
  refine bind (ask op) (fun a => ?_)
  split
  · exact err _
  · exact pure _
end NeverViol

theorem attr1_neverViol (a : TokAns) : NeverViol (attr1 a) := by
  unfold attr1; split
  · exact NeverViol.pure _
  · exact NeverViol.unsupported
theorem attrBytes_neverViol (a : AttrAns) : NeverViol (attrBytes a) := by
  unfold attrBytes; split
  · exact NeverViol.pure _
  · exact NeverViol.err _
  · exact NeverViol.unsupported

macro "neverviol_step" : tactic => `(tactic| first
  | exact NeverViol.pure _ | exact NeverViol.err _ | exact NeverViol.unsupported
  | exact NeverViol.askOk _ | exact NeverViol.ask _
  | exact attr1_neverViol _ | exact attrBytes_neverViol _
  | exact NeverViol.lift (rsaEncode_noViol _ _)
  | assumption
  | refine NeverViol.bind ?_ (fun _ => ?_)
  | split
  | dsimp only)

theorem p11ObjectToPublicKey_neverViol (path : String) (slot h : Nat) :
    NeverViol (p11ObjectToPublicKey path slot h) := by
  unfold p11ObjectToPublicKey; repeat' neverviol_step

theorem foundKeyTail_neverViol (m : P11Module) (label : String) (cls : Nat) (hh : Option Bool)
    (sl h : Nat) (pk : Option String) : NeverViol (foundKeyTail m label cls hh sl h pk) := by
  unfold foundKeyTail; repeat' neverviol_step

theorem foundKey_neverViol (m : P11Module) (label : String) (cls : Nat) (hh : Option Bool) (sl h : Nat) :
    NeverViol (foundKey m label cls hh sl h) := by
  unfold foundKey
  split
  · exact NeverViol.bind (p11ObjectToPublicKey_neverViol m.path sl h) (fun pk => foundKeyTail_neverViol m label cls hh sl h pk)
  · exact foundKeyTail_neverViol m label cls hh sl h none

theorem findInSlots_neverViol (m : P11Module) (label : String) (cls : Nat) (hh : Option Bool)
    (slots : List Nat) : NeverViol (findInSlots m label cls hh slots) := by
  induction slots with
  | nil => exact NeverViol.pure _
  | cons sl rest ih =>
    rw [findInSlots_cons]
    refine NeverViol.bind (NeverViol.askOk _) (fun r => ?_)
    split
    · exact ih
    · exact foundKey_neverViol m label cls hh sl _
    · exact NeverViol.err _
    · exact NeverViol.unsupported

theorem getP11Key_neverViol (label : String) (isPublic : Bool) (hh : Option Bool) (mods : List P11Module) :
    NeverViol (getP11Key label isPublic hh mods) := by
  induction mods with
  | nil => exact NeverViol.pure _
  | cons m rest ih =>
    rw [getP11Key_cons]
    refine NeverViol.bind (findInSlots_neverViol m label _ hh _) (fun r => ?_)
    split
    · exact NeverViol.pure _
    · exact ih

theorem refetchPublic_neverViol (mods : List P11Module) (ksk : KskKey) (isPublic : Bool) (found : P11Key) :
    NeverViol (refetchPublic mods ksk isPublic found) := by
  have := getP11Key_neverViol ksk.label true ksk.hashUsingHsm mods
  unfold refetchPublic; repeat' neverviol_step

/-- inside the window, `load_pkcs11_key` never reports a policy violation -/
theorem loadAfterWindow_noViol (mods : List P11Module) (ksk : KskKey) (pol : KskPolicy)
    (isPublic : Bool) (tok : Token) (s : TokState) :
    NoViol (loadAfterWindow mods ksk pol isPublic tok s).1 := by
  rw [← loadAfterWindowM_run]
  have h : NeverViol (loadAfterWindowM mods ksk pol isPublic) := by
    unfold loadAfterWindowM
    refine NeverViol.bind (getP11Key_neverViol _ _ _ _) (fun o => ?_)
    split
    · exact NeverViol.pure _
    · refine NeverViol.bind (refetchPublic_neverViol _ _ _ _) (fun f => ?_)
      rw [acceptKeyM_eq]
      exact NeverViol.lift (acceptKey_noViol ksk pol f)
  exact h tok s

end Kskm
