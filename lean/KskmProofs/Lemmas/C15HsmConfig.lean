/-
  Helper lemmas for the hsmconfig part of C15 (Kskm/HsmConfig.lean): the "$"-count measure of the interpolation loop,
  the exit condition of the loop, the line loop as a fold (prefix decomposition, line budget), the result dict.
-/
import Kskm.HsmConfig
import Kskm.Ceremony
import KskmProofs.Lemmas.TokM
import KskmProofs.Lemmas.Hsm
namespace Kskm.HsmConfig
open Kskm.Xml (Classes Out strip)

/-! ### the measure -/

theorem dollars_nil : dollars [] = 0 := rfl

theorem dollars_cons (c : Char) (s : Str) : dollars (c :: s) = dollars s + (if c = '$' then 1 else 0) := by
  unfold dollars
  rw [List.count_cons]
  by_cases h : c = '$' <;> simp [h]

theorem dollars_append (a b : Str) : dollars (a ++ b) = dollars a + dollars b := by
  unfold dollars; exact List.count_append ..

theorem dollars_zero_of_not_contains {v : Str} (h : ¬ (v.contains '$' = true)) : dollars v = 0 := by
  unfold dollars
  apply List.count_eq_zero.mpr
  intro hm
  exact h (by simpa using hm)

/-- replacing by a "$"-free value never adds a "$" -/
theorem dollars_replaceAux_le (pat val : Str) (hv : dollars val = 0) :
    ∀ (s : Str) (skip : Nat), dollars (replaceAux pat val skip s) ≤ dollars s := by
  intro s
  induction s with
  | nil => intro skip; cases skip <;> simp [replaceAux]
  | cons c s ih =>
    intro skip
    cases skip with
    | succ k =>
      simp only [replaceAux]
      have := ih k
      rw [dollars_cons]; omega
    | zero =>
      simp only [replaceAux]
      split
      · have := ih (pat.length - 1)
        rw [dollars_append, hv, dollars_cons]; omega
      · have := ih 0
        rw [dollars_cons, dollars_cons]; omega

theorem takeWhile_isPrefixOf (p : Char → Bool) (s : Str) : (s.takeWhile p).isPrefixOf s = true := by
  induction s with
  | nil => simp
  | cons c s ih =>
    rw [List.takeWhile_cons]
    split
    · simp [List.isPrefixOf, ih]
    · simp [List.isPrefixOf]

/-- the loop's measure: one round with a "$"-free value strictly lowers the number of "$" -/
theorem dollars_replaceAll_lt (isWord : Char → Bool) (val : Str) (hv : dollars val = 0) :
    ∀ (s key : Str), searchVar isWord s = some key →
      dollars (replaceAll ('$' :: key) val s) < dollars s := by
  intro s
  induction s with
  | nil => intro key h; simp [searchVar] at h
  | cons c s ih =>
    intro key h
    unfold replaceAll
    simp only [replaceAux]
    split
    · -- a match at the head: the head is "$"
      rename_i hp
      have hc : c = '$' := by
        simp only [List.isPrefixOf, Bool.and_eq_true, beq_iff_eq] at hp
        exact hp.1.symm
      have := dollars_replaceAux_le ('$' :: key) val hv s (('$' :: key).length - 1)
      rw [dollars_append, hv, dollars_cons, if_pos hc]; omega
    · rename_i hp
      have hs : searchVar isWord s = some key := by
        simp only [searchVar] at h
        split at h
        · rename_i hc
          split at h
          · exact h
          · rename_i k ks hk
            exfalso
            apply hp
            have hpre := takeWhile_isPrefixOf isWord s
            rw [hk] at hpre
            cases h
            simp [List.isPrefixOf, hc, hpre]
        · exact h
      have := ih key hs
      unfold replaceAll at this
      rw [dollars_cons, dollars_cons]; omega

/-! ### the interpolation loop -/

theorem round_again_lt (isWord : Char → Bool) (lookup : Str → Option Str) (rhs rhs' : Str)
    (h : interpRound isWord lookup rhs = .again rhs') : dollars rhs' < dollars rhs := by
  unfold interpRound at h
  cases hs : searchVar isWord rhs with
  | none => rw [hs] at h; cases h
  | some key =>
    rw [hs] at h; simp only at h
    cases hl : lookup key with
    | none => rw [hl] at h; cases h
    | some val =>
      rw [hl] at h
      cases val with
      | nil => cases h
      | cons v vs =>
        simp only at h
        split at h
        · cases h
        · rename_i hc
          cases h
          exact dollars_replaceAll_lt isWord (v :: vs) (dollars_zero_of_not_contains hc) rhs key hs

theorem round_done_ok (isWord : Char → Bool) (lookup : Str → Option Str) (rhs r : Str)
    (h : interpRound isWord lookup rhs = .done (.ok r)) : r = rhs ∧ searchVar isWord rhs = none := by
  unfold interpRound at h
  cases hs : searchVar isWord rhs with
  | none => rw [hs] at h; cases h; exact ⟨rfl, rfl⟩
  | some key =>
    rw [hs] at h; simp only at h
    cases hl : lookup key with
    | none => rw [hl] at h; cases h
    | some val =>
      rw [hl] at h
      cases val with
      | nil => cases h
      | cons v vs => simp only at h; split at h <;> cases h

theorem round_undefined (isWord : Char → Bool) (lookup : Str → Option Str) (rhs key : Str)
    (hs : searchVar isWord rhs = some key) (hl : lookup key = none ∨ lookup key = some []) :
    interpRound isWord lookup rhs = .done (.err .runtime) := by
  unfold interpRound
  rw [hs]
  rcases hl with hl | hl <;> simp [hl]

theorem interpolate_terminates (isWord : Char → Bool) (lookup : Str → Option Str) :
    ∀ (fuel : Nat) (rhs : Str), dollars rhs ≤ fuel → interpolate isWord lookup fuel rhs ≠ .outOfFuel := by
  intro fuel
  induction fuel with
  | zero =>
    intro rhs h
    rw [interpolate]
    cases hr : interpRound isWord lookup rhs with
    | done r =>
      simp only
      intro hh; subst hh
      unfold interpRound at hr
      revert hr
      repeat' split
      all_goals simp
    | again rhs' => have := round_again_lt _ _ _ _ hr; omega
  | succ n ih =>
    intro rhs h
    rw [interpolate]
    cases hr : interpRound isWord lookup rhs with
    | done r =>
      simp only
      intro hh; subst hh
      unfold interpRound at hr
      revert hr
      repeat' split
      all_goals simp
    | again rhs' => have := round_again_lt _ _ _ _ hr; exact ih _ (by omega)

/-- the loop is left only through `if not match: break` -/
theorem interpolate_ok_exit (isWord : Char → Bool) (lookup : Str → Option Str) :
    ∀ (fuel : Nat) (rhs r : Str), interpolate isWord lookup fuel rhs = .ok r → searchVar isWord r = none := by
  intro fuel
  induction fuel with
  | zero =>
    intro rhs r h
    rw [interpolate] at h
    cases hr : interpRound isWord lookup rhs with
    | done x => rw [hr] at h; simp only at h; subst h; obtain ⟨h1, h2⟩ := round_done_ok _ _ _ _ hr; rw [h1]; exact h2
    | again rhs' => rw [hr] at h; cases h
  | succ n ih =>
    intro rhs r h
    rw [interpolate] at h
    cases hr : interpRound isWord lookup rhs with
    | done x => rw [hr] at h; simp only at h; subst h; obtain ⟨h1, h2⟩ := round_done_ok _ _ _ _ hr; rw [h1]; exact h2
    | again rhs' => rw [hr] at h; exact ih _ _ h

theorem interpolate_undefined (isWord : Char → Bool) (lookup : Str → Option Str) (fuel : Nat) (rhs key : Str)
    (hs : searchVar isWord rhs = some key) (hl : lookup key = none ∨ lookup key = some []) :
    interpolate isWord lookup fuel rhs = .err .runtime := by
  cases fuel <;> rw [interpolate, round_undefined _ _ _ _ hs hl]

/-- what "no variable reference left" means, without the scanner: no "$" is followed by a word character -/
theorem searchVar_none (isWord : Char → Bool) :
    ∀ (s : Str), searchVar isWord s = none →
      ∀ (pre : Str) (c : Char) (post : Str), s = pre ++ '$' :: c :: post → isWord c = false := by
  intro s
  induction s with
  | nil => intro _ pre c post h; cases pre <;> simp at h
  | cons x s ih =>
    intro hn pre c post h
    have hs : searchVar isWord s = none ∧ (x = '$' → s.takeWhile isWord = []) := by
      simp only [searchVar] at hn
      split at hn
      · split at hn
        · rename_i hk; exact ⟨hn, fun _ => hk⟩
        · cases hn
      · rename_i hx; exact ⟨hn, fun h => absurd h hx⟩
    cases pre with
    | nil =>
      simp only [List.nil_append, List.cons.injEq] at h
      obtain ⟨hx, hs'⟩ := h
      have := hs.2 hx
      rw [hs', List.takeWhile_cons] at this
      by_cases hw : isWord c = true
      · simp [hw] at this
      · simpa using hw
    | cons y pre' =>
      simp only [List.cons_append, List.cons.injEq] at h
      exact ih hs.1 pre' c post h.2

/-! ### the result dict -/

theorem Dict.mem_set {d : Dict} {k v : Str} {p : Str × Str} (h : p ∈ Dict.set d k v) : p ∈ d ∨ p.2 = v := by
  induction d with
  | nil => simp [Dict.set] at h; right; rw [h]
  | cons q rest ih =>
    simp only [Dict.set] at h
    split at h
    · rcases List.mem_cons.mp h with h | h
      · right; rw [h]
      · left; exact List.mem_cons_of_mem _ h
    · rcases List.mem_cons.mp h with h | h
      · left; rw [h]; exact List.mem_cons_self ..
      · rcases ih h with h | h
        · left; exact List.mem_cons_of_mem _ h
        · right; exact h

/-! ### the line loop -/

theorem step_ok_inv (cls : Classes) (defaults : Defaults) (st st' : St) (line : Str)
    (h : step cls defaults st line = .ok st') :
    st'.maxLines = st.maxLines - 1 ∧ st.maxLines - 1 ≠ 0 ∧
      (∀ p ∈ st'.res, p ∈ st.res ∨ searchVar cls.isWord p.2 = none) := by
  unfold step at h
  simp only at h
  split at h
  · cases h
  · rename_i hne
    split at h
    · cases h; exact ⟨rfl, hne, fun p hp => Or.inl hp⟩
    · split at h
      · cases h
      · rename_i lhs rhs _
        split at h
        · rename_i r hi
          cases h
          refine ⟨rfl, hne, ?_⟩
          intro p hp
          rcases Dict.mem_set hp with hp | hp
          · exact Or.inl hp
          · right; rw [hp]; exact interpolate_ok_exit _ _ _ _ _ hi
        · cases h
        · cases h

theorem step_ne_outOfFuel (cls : Classes) (defaults : Defaults) (st : St) (line : Str) :
    step cls defaults st line ≠ .outOfFuel := by
  unfold step
  simp only
  split
  · simp
  · split
    · simp
    · split
      · simp
      · rename_i lhs rhs _
        split
        · simp
        · simp
        · rename_i hi
          exact absurd hi (interpolate_terminates _ _ _ _ (Nat.le_refl _))

theorem loop_ne_outOfFuel (cls : Classes) (defaults : Defaults) :
    ∀ (lines : List Str) (st : St), loop cls defaults st lines ≠ .outOfFuel := by
  intro lines
  induction lines with
  | nil => intro st; simp [loop]
  | cons l ls ih =>
    intro st
    simp only [loop]
    split
    · exact ih _
    · simp
    · rename_i h; exact absurd h (step_ne_outOfFuel _ _ _ _)

theorem loop_ok_inv (cls : Classes) (defaults : Defaults) :
    ∀ (lines : List Str) (st st' : St), loop cls defaults st lines = .ok st' →
      (st.maxLines ≤ 0 ∨ (lines.length : Int) < st.maxLines) ∧
      (∀ p ∈ st'.res, p ∈ st.res ∨ searchVar cls.isWord p.2 = none) := by
  intro lines
  induction lines with
  | nil => intro st st' h; simp only [loop] at h; cases h; exact ⟨by simp; omega, fun p hp => Or.inl hp⟩
  | cons l ls ih =>
    intro st st' h
    simp only [loop] at h
    split at h
    · rename_i st1 hs
      obtain ⟨h1, h2, h3⟩ := step_ok_inv _ _ _ _ _ hs
      obtain ⟨h4, h5⟩ := ih _ _ h
      refine ⟨?_, ?_⟩
      · simp only [List.length_cons, Int.natCast_add, Int.natCast_one]; omega
      · intro p hp
        rcases h5 p hp with hp | hp
        · exact h3 p hp
        · exact Or.inr hp
    · cases h
    · cases h

theorem loop_append (cls : Classes) (defaults : Defaults) :
    ∀ (pre : List Str) (st st' : St) (post : List Str), loop cls defaults st pre = .ok st' →
      loop cls defaults st (pre ++ post) = loop cls defaults st' post := by
  intro pre
  induction pre with
  | nil => intro st st' post h; simp only [loop] at h; cases h; rfl
  | cons l ls ih =>
    intro st st' post h
    simp only [loop, List.cons_append] at h ⊢
    cases hs : step cls defaults st l with
    | ok st1 => rw [hs] at h; simp only at h ⊢; exact ih _ _ _ h
    | err k => rw [hs] at h; cases h
    | outOfFuel => rw [hs] at h; cases h

/-! ### dict semantics, and the line budget does not matter while it is not hit -/

theorem Dict.get_set_same (d : Dict) (k v : Str) : (Dict.set d k v).get k = some v := by
  induction d with
  | nil => simp [Dict.set, Dict.get]
  | cons p rest ih =>
    simp only [Dict.set]
    split
    · rename_i h; simp [Dict.get, List.find?, h]
    · rename_i h
      have : (p.1 == k) = false := by simpa using h
      simp only [Dict.get, List.find?, this] at ih ⊢
      exact ih

theorem Dict.get_set_other (d : Dict) (k k' v : Str) (hk : k' ≠ k) : (Dict.set d k v).get k' = d.get k' := by
  induction d with
  | nil =>
    have : (k == k') = false := by simpa using fun h => hk h.symm
    simp [Dict.set, Dict.get, List.find?, this]
  | cons p rest ih =>
    simp only [Dict.set]
    split
    · rename_i h
      have h1 : p.1 = k := by simpa using h
      have : (p.1 == k') = false := by rw [h1]; simpa using fun h => hk h.symm
      simp [Dict.get, List.find?, this]
    · cases hp : p.1 == k'
      · simp only [Dict.get, List.find?, hp] at ih ⊢; exact ih
      · simp [Dict.get, List.find?, hp]

theorem Dict.keys_set (d : Dict) (k v : Str) :
    (Dict.set d k v).map (·.1) = if k ∈ d.map (·.1) then d.map (·.1) else d.map (·.1) ++ [k] := by
  induction d with
  | nil => simp [Dict.set]
  | cons p rest ih =>
    simp only [Dict.set]
    split
    · rename_i h
      have h1 : p.1 = k := by simpa using h
      simp [h1]
    · rename_i h
      have h1 : ¬ p.1 = k := by simpa using h
      have h2 : ¬ k = p.1 := fun e => h1 e.symm
      simp only [List.map_cons, ih, List.mem_cons, h2, false_or]
      split <;> simp


/-- the part of `step` after the line budget: what the line does to `res` -/
def stepBody (cls : Classes) (defaults : Defaults) (res : Dict) (line : Str) : Out Dict :=
  let line := strip (· == '\n') (strip cls.isStrip line)
  if line.isEmpty || line.head? == some '#' then .ok res else
  match splitEq line with
  | none => .err .value
  | some (lhs, rhs) =>
    match interpolate cls.isWord (lookupVar res defaults) (dollars rhs) rhs with
    | .ok rhs' => .ok (res.set lhs rhs')
    | .err k => .err k
    | .outOfFuel => .outOfFuel

def withBudget (n : Int) : Out Dict → Out St
  | .ok r => .ok { maxLines := n, res := r }
  | .err k => .err k
  | .outOfFuel => .outOfFuel

theorem step_eq_body (cls : Classes) (defaults : Defaults) (st : St) (line : Str) (h : st.maxLines - 1 ≠ 0) :
    step cls defaults st line = withBudget (st.maxLines - 1) (stepBody cls defaults st.res line) := by
  unfold step stepBody
  simp only [if_neg h]
  split
  · rfl
  · cases hs : splitEq (strip (fun x => x == '\n') (strip cls.isStrip line)) with
    | none => rfl
    | some p =>
      obtain ⟨lhs, rhs⟩ := p
      simp only
      cases interpolate cls.isWord (lookupVar st.res defaults) (dollars rhs) rhs <;> rfl

def resOf : Out St → Out Dict
  | .ok st => .ok st.res
  | .err k => .err k
  | .outOfFuel => .outOfFuel

theorem loop_budget_irrelevant (cls : Classes) (defaults : Defaults) :
    ∀ (lines : List Str) (a b : Int) (res : Dict), (a ≤ 0 ∨ (lines.length : Int) < a) → (b ≤ 0 ∨ (lines.length : Int) < b) →
      resOf (loop cls defaults { maxLines := a, res } lines) = resOf (loop cls defaults { maxLines := b, res } lines) := by
  intro lines
  induction lines with
  | nil => intro a b res _ _; rfl
  | cons l ls ih =>
    intro a b res ha hb
    simp only [loop]
    simp only [List.length_cons, Int.natCast_add, Int.natCast_one] at ha hb
    rw [step_eq_body _ _ _ _ (by simp only; omega), step_eq_body _ _ _ _ (by simp only; omega)]
    cases stepBody cls defaults res l with
    | ok r => simp only [withBudget]; exact ih _ _ _ (by omega) (by omega)
    | err k => rfl
    | outOfFuel => rfl

theorem parse_eq_resOf (cls : Classes) (defaults : Defaults) (n : Int) (lines : List Str) :
    parseHsmconfig cls defaults n lines = resOf (loop cls defaults { maxLines := n, res := [] } lines) := by
  unfold parseHsmconfig resOf
  split <;> simp_all


/-! ### `find_key_by_id` -/
open Kskm

/-- what a key built from object `h` looks like -/
def KeyOfHandle (path : String) (slot h : Nat) (k : P11Key) : Prop :=
  k.module = path ∧ k.slot = slot ∧ k.hashUsingHsm = none ∧
  ((k.keyClass = ckoPublic ∧ k.pubHandle = some h ∧ k.privHandle = none) ∨
   (k.keyClass = ckoPrivate ∧ k.privHandle = some h ∧ k.pubHandle = none))

theorem keyOfObject_some (path : String) (slot h : Nat) (t : Token) (s s' : TokState) (k : P11Key)
    (hk : keyOfObject path slot h t s = (.ok (some k), s')) : KeyOfHandle path slot h k := by
  unfold keyOfObject at hk
  obtain ⟨a, s1, _, hk⟩ := TokM.bind_ok _ _ _ _ _ _ hk
  split at hk
  · rename_i cls lab
    split at hk
    · rename_i c
      split at hk
      · rename_i hc
        obtain ⟨a2, s2, _, hk⟩ := TokM.bind_ok _ _ _ _ _ _ hk
        obtain ⟨kt, s3, _, hk⟩ := TokM.bind_ok _ _ _ _ _ _ hk
        obtain ⟨ty, s4, _, hk⟩ := TokM.bind_ok _ _ _ _ _ _ hk
        obtain ⟨pk, s5, _, hk⟩ := TokM.bind_ok _ _ _ _ _ _ hk
        split at hk
        · simp only [TokM.pure_run, Prod.mk.injEq, Except.ok.injEq, Option.some.injEq] at hk
          obtain ⟨hk, _⟩ := hk
          subst hk
          refine ⟨rfl, rfl, rfl, ?_⟩
          rcases hc with hc | hc
          · right; subst hc; exact ⟨rfl, by simp, by simp [ckoPrivate, ckoPublic]⟩
          · left; subst hc; exact ⟨rfl, by simp, by simp [ckoPrivate, ckoPublic]⟩
        · simp at hk
        · simp at hk
      · simp at hk
    · simp at hk
    · simp at hk
  · simp at hk

theorem keysOfObjects_spec (path : String) (slot : Nat) (t : Token) :
    ∀ (hs : List Nat) (s s' : TokState) (ks : List P11Key),
      keysOfObjects path slot hs t s = (.ok ks, s') →
      ks.length ≤ hs.length ∧ ∀ k ∈ ks, ∃ h ∈ hs, KeyOfHandle path slot h k := by
  intro hs
  induction hs with
  | nil =>
    intro s s' ks h
    simp only [keysOfObjects, TokM.pure_run, Prod.mk.injEq, Except.ok.injEq] at h
    rw [← h.1]; simp
  | cons h0 rest ih =>
    intro s s' ks h
    simp only [keysOfObjects] at h
    obtain ⟨k0, s1, hk0, h⟩ := TokM.bind_ok _ _ _ _ _ _ h
    obtain ⟨more, s2, hmore, h⟩ := TokM.bind_ok _ _ _ _ _ _ h
    simp only [TokM.pure_run, Prod.mk.injEq, Except.ok.injEq] at h
    obtain ⟨h, _⟩ := h
    obtain ⟨hlen, hall⟩ := ih _ _ _ hmore
    cases k0 with
    | none =>
      simp only at h; subst h
      refine ⟨by simp; omega, ?_⟩
      intro k hk
      obtain ⟨x, hx, hp⟩ := hall k hk
      exact ⟨x, List.mem_cons_of_mem _ hx, hp⟩
    | some k1 =>
      simp only at h; subst h
      refine ⟨by simp; omega, ?_⟩
      intro k hk
      rcases List.mem_cons.mp hk with hk | hk
      · subst hk; exact ⟨h0, List.mem_cons_self .., keyOfObject_some _ _ _ _ _ _ _ hk0⟩
      · obtain ⟨x, hx, hp⟩ := hall k hk
        exact ⟨x, List.mem_cons_of_mem _ hx, hp⟩

end Kskm.HsmConfig

/-! ### `init_pkcs11_modules(config, name)` (model: Kskm/Ceremony.lean `initPkcs11Modules`) -/
namespace Kskm

theorem openSessions_label (m : P11Module) (t : Token) :
    ∀ (l : List Nat) (acc : P11Module) (s s' : TokState) (r : P11Module),
      openSessions m l acc t s = (.ok r, s') → r.label = acc.label := by
  intro l
  induction l with
  | nil => intro acc s s' r h; simp only [openSessions, TokM.pure_run, Prod.mk.injEq, Except.ok.injEq] at h; rw [← h.1]
  | cons slot rest ih =>
    intro acc s s' r h
    simp only [openSessions] at h
    obtain ⟨o, s1, _, h⟩ := TokM.bind_ok _ _ _ _ _ _ h
    split at h
    · have := ih _ _ _ _ h; exact this
    · generalize (if m.soLogin = true then m.soPin else m.pin) = pin at h
      cases pin with
      | none => have := ih _ _ _ _ h; exact this
      | some p =>
        simp only at h
        obtain ⟨lg, s2, _, h⟩ := TokM.bind_ok _ _ _ _ _ _ h
        split at h
        · have := ih _ _ _ _ h; exact this
        · have := ih _ _ _ _ h; exact this

theorem init_label_tail (label path : String) (pin soPin : Option String) (so rw : Bool) (slots : List Nat)
    (t : Token) (s s' : TokState) (m : P11Module)
    (h : (let m0 : P11Module := { label, path, soLogin := so, rwSession := rw, pin := pin, soPin := soPin, slots }
      if slots.isEmpty then (pure m0 : TokM P11Module) else do
        let m ← m0.getSessions
        match m.slots with
        | [] => TokM.err .index
        | s0 :: _ =>
          let _ ← askOk (.getTokenInfo path s0)
          pure m) t s = (.ok m, s')) : m.label = label := by
  simp only at h
  split at h
  · simp only [TokM.pure_run, Prod.mk.injEq, Except.ok.injEq] at h; rw [← h.1]
  · obtain ⟨m1, s5, hm1, h⟩ := TokM.bind_ok _ _ _ _ _ _ h
    have hl : m1.label = label := by
      unfold P11Module.getSessions at hm1
      split at hm1
      · exact openSessions_label _ _ _ _ _ _ _ hm1
      · simp only [TokM.pure_run, Prod.mk.injEq, Except.ok.injEq] at hm1; rw [← hm1.1]
    cases hsl : m1.slots with
    | nil => simp [hsl] at h
    | cons s0 tl =>
      simp only [hsl] at h
      obtain ⟨_, s6, _, h⟩ := TokM.bind_ok _ _ _ _ _ _ h
      simp only [TokM.pure_run, Prod.mk.injEq, Except.ok.injEq] at h; rw [← h.1]; exact hl

theorem init_label (label path : String) (pin soPin : Option String) (so rw : Bool) (typed : String)
    (t : Token) (s s' : TokState) (m : P11Module)
    (h : P11Module.init label path pin soPin so rw typed t s = (.ok m, s')) : m.label = label := by
  unfold P11Module.init at h
  obtain ⟨_, s1, _, h⟩ := TokM.bind_ok _ _ _ _ _ _ h
  obtain ⟨_, s2, _, h⟩ := TokM.bind_ok _ _ _ _ _ _ h
  obtain ⟨sl, s3, _, h⟩ := TokM.bind_ok _ _ _ _ _ _ h
  cases sl
  case slots l =>
    dsimp only at h
    obtain ⟨slots, s4, _, h⟩ := TokM.bind_ok _ _ _ _ _ _ h
    exact init_label_tail label path _ _ so rw slots t s4 s' m h
  all_goals (dsimp only at h; obtain ⟨_, _, hf, _⟩ := TokM.bind_ok _ _ _ _ _ _ h; simp at hf)

theorem initPkcs11Modules_named (all : List HsmConfig) (name typed : String) (hne : name ≠ "") (t : Token) :
    ∀ (l : List HsmConfig) (s s' : TokState) (mods : List P11Module),
      initPkcs11Modules all (some name) typed l t s = (.ok mods, s') →
      (∀ m ∈ mods, m.label = name) ∧ mods.length = (l.filter (fun h => h.label == name)).length ∧
      (∃ h ∈ all, h.label = name) := by
  have hcond : (((some name).isSome && (some name != some "")) = true) := by
    simp [hne]
  intro l
  induction l with
  | nil =>
    intro s s' mods h
    simp only [initPkcs11Modules, hcond, Bool.true_and] at h
    split at h
    · simp at h
    · rename_i hall
      simp only [TokM.pure_run, Prod.mk.injEq, Except.ok.injEq] at h
      rw [← h.1]
      refine ⟨by simp, by simp, ?_⟩
      rw [Bool.not_eq_true, List.all_eq_false] at hall
      obtain ⟨x, hx, hxl⟩ := hall
      exact ⟨x, hx, by simpa using hxl⟩
  | cons h0 rest ih =>
    intro s s' mods h
    simp only [initPkcs11Modules, hcond, Bool.true_and] at h
    split at h
    · rename_i hskip
      obtain ⟨a, b, c⟩ := ih _ _ _ h
      have : (h0.label == name) = false := by simpa using hskip
      exact ⟨a, by simp [List.filter, this, b], c⟩
    · rename_i hskip
      have hl0 : h0.label = name := by simpa using hskip
      obtain ⟨m, s1, hm, h⟩ := TokM.bind_ok _ _ _ _ _ _ h
      obtain ⟨more, s2, hmore, h⟩ := TokM.bind_ok _ _ _ _ _ _ h
      simp only [TokM.pure_run, Prod.mk.injEq, Except.ok.injEq] at h
      obtain ⟨a, b, c⟩ := ih _ _ _ hmore
      rw [← h.1]
      refine ⟨?_, by simp [List.filter, hl0, b], c⟩
      intro x hx
      rcases List.mem_cons.mp hx with hx | hx
      · rw [hx, init_label _ _ _ _ _ _ _ _ _ _ _ hm, hl0]
      · exact a x hx

theorem initPkcs11Modules_unknown (all : List HsmConfig) (name typed : String) (hne : name ≠ "") (t : Token)
    (hall : ∀ h ∈ all, h.label ≠ name) :
    ∀ (l : List HsmConfig) (s : TokState), (∀ h ∈ l, h.label ≠ name) →
      initPkcs11Modules all (some name) typed l t s = (.error (.error .runtime), s) := by
  have hcond : (((some name).isSome && (some name != some "")) = true) := by
    simp [hne]
  intro l
  induction l with
  | nil =>
    intro s _
    simp only [initPkcs11Modules, hcond, Bool.true_and]
    have : (all.all fun h => some h.label != some name) = true := by
      simp only [List.all_eq_true]
      intro x hx
      simpa using hall x hx
    simp [this]
  | cons h0 rest ih =>
    intro s hl
    simp only [initPkcs11Modules, hcond, Bool.true_and]
    have : (some h0.label != some name) = true := by simpa using hl h0 (List.mem_cons_self ..)
    simp only [this, if_true]
    exact ih s (fun h hh => hl h (List.mem_cons_of_mem _ hh))
end Kskm
