import Kskm.Signer
import KskmProofs.Lemmas.TokM
import KskmProofs.Lemmas.SignerKeys
/- Inversion lemmas for the signer model: what a successful run of each step implies. -/
namespace Kskm

theorem TokM.bind_ok_iff {α β} (m : TokM α) (f : α → TokM β) (t : Token) (s s' : TokState) (b : β) :
    (m >>= f) t s = (.ok b, s') ↔ ∃ a s1, m t s = (.ok a, s1) ∧ f a t s1 = (.ok b, s') := by
  constructor
  · exact TokM.bind_ok m f t s s' b
  · rintro ⟨a, s1, h1, h2⟩
    rw [TokM.bind_eq, h1]; exact h2

theorem TokM.lift_bind_ok_iff {α β} (r : Res α) (f : α → TokM β) (t : Token) (s s' : TokState) (b : β) :
    (TokM.lift r >>= f) t s = (.ok b, s') ↔ ∃ a, r = .ok a ∧ f a t s = (.ok b, s') := by
  rw [TokM.bind_ok_iff]
  constructor
  · rintro ⟨a, s1, h1, h2⟩
    simp only [TokM.lift_run, Prod.mk.injEq] at h1
    obtain ⟨h1, rfl⟩ := h1
    exact ⟨a, h1, h2⟩
  · rintro ⟨a, h1, h2⟩
    exact ⟨a, s, by simp [h1], h2⟩

@[simp] theorem TokM.err_bind_run {α β} (k : ErrKind) (f : α → TokM β) (t : Token) (s : TokState) :
    ((TokM.err k : TokM α) >>= f) t s = (.error (.error k), s) := rfl

@[simp] theorem TokM.fail_bind_run {α β} (e : Fail) (f : α → TokM β) (t : Token) (s : TokState) :
    ((TokM.fail e : TokM α) >>= f) t s = (.error e, s) := rfl

/-- what `askOk` returns when it succeeds: the oracle's answer (not a PyKCS11Error), one op logged -/
theorem askOk_ok {op : TokOp} {t : Token} {s s' : TokState} {a : TokAns}
    (h : askOk op t s = (.ok a, s')) :
    a = t s.count op ∧ a ≠ .error ∧ s' = { count := s.count + 1, log := (op, a) :: s.log } := by
  unfold askOk at h
  obtain ⟨a0, s1, h1, h2⟩ := TokM.bind_ok _ _ _ _ _ _ h
  rw [ask_run] at h1
  simp only [Prod.mk.injEq, Except.ok.injEq] at h1
  obtain ⟨rfl, rfl⟩ := h1
  cases hh : t s.count op <;> simp only [hh] at h2 <;>
    first
    | (simp at h2; done)
    | (simp only [TokM.pure_run, Prod.mk.injEq, Except.ok.injEq] at h2
       obtain ⟨rfl, rfl⟩ := h2
       simp)

/-- `sign_using_p11` succeeding: exactly one operation, a `C_Sign` with the formatted data. -/
theorem signUsingP11_ok {hash : Hasher} {key : P11Key} {data : Bytes} {alg : Nat} {t : Token}
    {s s' : TokState} {b : Bytes} (h : signUsingP11 hash key data alg t s = (.ok b, s')) :
    ∃ d hd, formatDataForSigning hash key data alg = .ok d ∧ key.privHandle = some hd ∧
      key.keyType ≠ .aes ∧ key.keyType ≠ .des3 ∧
      t s.count (.sign key.module key.slot hd d.mechanism d.data) = .sig b ∧
      s' = { count := s.count + 1,
             log := (.sign key.module key.slot hd d.mechanism d.data, .sig b) :: s.log } := by
  unfold signUsingP11 at h
  have key_ok : key.keyType ≠ .aes ∧ key.keyType ≠ .des3 ∧
      (TokM.lift (formatDataForSigning hash key data alg) >>= fun d =>
        match key.privHandle with
        | none => TokM.err ErrKind.runtime
        | some h => do
          let a ← askOk (TokOp.sign key.module key.slot h d.mechanism d.data)
          match a with
            | TokAns.sig b => pure b
            | _ => TokM.fail Fail.unsupported) t s = (.ok b, s') := by
    cases hk : key.keyType <;> simp only [hk] at h
    · exact ⟨by simp, by simp, h⟩
    · exact ⟨by simp, by simp, h⟩
    · simp at h
    · simp at h
  obtain ⟨hk1, hk2, h2⟩ := key_ok
  obtain ⟨d, hd, h3⟩ := (TokM.lift_bind_ok_iff _ _ _ _ _ _).mp h2
  cases hp : key.privHandle with
  | none => simp [hp] at h3
  | some hdl =>
    simp only [hp] at h3
    obtain ⟨a, s2, h4, h5⟩ := TokM.bind_ok _ _ _ _ _ _ h3
    obtain ⟨ha, _, rfl⟩ := askOk_ok h4
    refine ⟨d, hdl, hd, rfl, hk1, hk2, ?_⟩
    cases a <;> simp at h5
    obtain ⟨rfl, rfl⟩ := h5
    exact ⟨ha.symm, rfl⟩

/-- the signature record `_sign_keys` fills in before signing (signature data empty) -/
def sigTemplate (bundle : Bundle) (sk : CompositeKey) (pol : KskPolicy) (labels : Int) (tag : Int) :
    Signature :=
  { keyIdentifier := sk.dns.keyIdentifier, ttl := pol.ttl, typeCovered := 48,
    algorithm := sk.dns.algorithm, labels := labels, originalTtl := pol.ttl,
    expiration := bundle.expiration, inception := bundle.inception, keyTag := tag,
    signersName := pol.signersName, signatureData := "" }

theorem signKeys_ok {ext : Externals} {bundle : Bundle} {keys : List Key} {sk : CompositeKey}
    {pol : KskPolicy} {t : Token} {s s' : TokState} {σ : Signature}
    (h : signKeys ext bundle keys sk pol t s = (.ok σ, s')) :
    (∀ k ∈ keys, k.ttl = pol.ttl) ∧
    ∃ dnsKey labels raw sigBytes pk,
      ktsGet keys sk.dns.keyIdentifier = .ok (some dnsKey) ∧
      dndepth pol.signersName = .ok labels ∧
      makeRawRrsig (sigTemplate bundle sk pol labels dnsKey.keyTag) keys = .ok raw ∧
      signUsingP11 ext.hash sk.p11 raw sk.dns.algorithm t s = (.ok sigBytes, s') ∧
      sk.p11.publicKey = some pk ∧
      publicKeyFromKey { sk.dns with publicKey := pk } = .ok () ∧
      ext.verify sk.dns.algorithm pk raw sigBytes = .valid ∧
      σ = { sigTemplate bundle sk pol labels dnsKey.keyTag with signatureData := Base64.encode sigBytes } := by
  unfold signKeys at h
  by_cases hany : (keys.any fun k => k.ttl != pol.ttl) = true
  · simp only [hany, ↓reduceIte] at h
    simp at h
  · simp only [hany, Bool.false_eq_true, ↓reduceIte] at h
    refine ⟨?_, ?_⟩
    · intro k hk
      simp only [List.any_eq_true, not_exists, not_and] at hany
      simpa using hany k hk
    · obtain ⟨g, hg, h⟩ := (TokM.lift_bind_ok_iff _ _ _ _ _ _).mp h
      cases g with
      | none => simp at h
      | some dnsKey =>
        simp only at h
        obtain ⟨labels, hl, h⟩ := (TokM.lift_bind_ok_iff _ _ _ _ _ _).mp h
        obtain ⟨raw, hraw, h⟩ := (TokM.lift_bind_ok_iff _ _ _ _ _ _).mp h
        obtain ⟨sigBytes, s1, hsign, h⟩ := TokM.bind_ok _ _ _ _ _ _ h
        cases hpk : sk.p11.publicKey with
        | none => simp [hpk] at h
        | some pk =>
          simp only [hpk] at h
          obtain ⟨u, hu, h⟩ := (TokM.lift_bind_ok_iff _ _ _ _ _ _).mp h
          refine ⟨dnsKey, labels, raw, sigBytes, pk, hg, hl, hraw, ?_, rfl, hu, ?_⟩
          · cases hv : ext.verify sk.dns.algorithm pk raw sigBytes <;> simp [hv] at h
            rw [hsign, h.2]
          · cases hv : ext.verify sk.dns.algorithm pk raw sigBytes <;> simp [hv] at h
            exact ⟨rfl, h.1.symm⟩

/-! ### `load_pkcs11_key` / `_fetch_keys` -/

/-- every successful `some` result of `m` satisfies `Q` -/
structure GoodLoad (Q : CompositeKey → Prop) (m : TokM (Option CompositeKey)) : Prop where
  out : ∀ t s s' ck, m t s = (.ok (some ck), s') → Q ck

namespace GoodLoad
variable {Q : CompositeKey → Prop}
theorem pure_none : GoodLoad Q (pure none) := ⟨by
  intro t s s' ck h; simp at h⟩
theorem err_bind {α} (k : ErrKind) (f : α → TokM (Option CompositeKey)) : GoodLoad Q (TokM.err k >>= f) := ⟨by
  intro t s s' ck h; simp at h⟩
theorem fail_bind {α} (e : Fail) (f : α → TokM (Option CompositeKey)) : GoodLoad Q (TokM.fail e >>= f) := ⟨by
  intro t s s' ck h; simp at h⟩
theorem bind {α} (m : TokM α) (f : α → TokM (Option CompositeKey)) (h : ∀ a, GoodLoad Q (f a)) :
    GoodLoad Q (m >>= f) := ⟨by
  intro t s s' ck h'
  obtain ⟨a, s1, _, h2⟩ := TokM.bind_ok _ _ _ _ _ _ h'
  exact (h a).out t s1 s' ck h2⟩
theorem ite {c : Prop} [Decidable c] {a b : TokM (Option CompositeKey)} (ha : GoodLoad Q a) (hb : GoodLoad Q b) :
    GoodLoad Q (if c then a else b) := by
  split <;> assumption
end GoodLoad

theorem loadPkcs11Key_good (mods : List P11Module) (ksk : KskKey) (pol : KskPolicy) (bundle : Bundle)
    (isPublic : Bool) :
    GoodLoad (fun ck => ∃ pk, ck.p11.publicKey = some pk ∧
      publicKeyToDnssecKey pk ksk.label ksk.algorithm pol.ttl 257 = .ok ck.dns)
      (loadPkcs11Key mods ksk pol bundle isPublic) := by
  unfold loadPkcs11Key
  extract_lets jp jp0
  have hjp : ∀ f, GoodLoad (fun ck => ∃ pk, ck.p11.publicKey = some pk ∧
      publicKeyToDnssecKey pk ksk.label ksk.algorithm pol.ttl 257 = .ok ck.dns) (jp f) := by
    intro f
    simp only [jp]
    cases hpk : f.publicKey with
    | none => exact GoodLoad.pure_none
    | some pk =>
      simp only
      apply GoodLoad.ite GoodLoad.pure_none
      have fin : GoodLoad (fun ck => ∃ pk, ck.p11.publicKey = some pk ∧
        publicKeyToDnssecKey pk ksk.label ksk.algorithm pol.ttl 257 = .ok ck.dns)
          (do let key ← TokM.lift (publicKeyToDnssecKey pk ksk.label ksk.algorithm pol.ttl 257)
              pure (some { p11 := f, dns := key })) := ⟨by
        intro t s s' ck h
        obtain ⟨key, hkey, h⟩ := (TokM.lift_bind_ok_iff _ _ _ _ _ _).mp h
        simp at h
        obtain ⟨rfl, _⟩ := h
        exact ⟨pk, hpk, hkey⟩⟩
      cases f.keyType
      · simp only
        apply GoodLoad.ite (GoodLoad.err_bind _ _)
        apply GoodLoad.bind
        intro pub
        apply GoodLoad.ite (GoodLoad.err_bind _ _)
        exact GoodLoad.ite (GoodLoad.err_bind _ _) fin
      · simp only
        exact GoodLoad.ite (GoodLoad.err_bind _ _) fin
      · exact GoodLoad.pure_none
      · exact GoodLoad.pure_none
  have hjp0 : ∀ r, GoodLoad (fun ck => ∃ pk, ck.p11.publicKey = some pk ∧
      publicKeyToDnssecKey pk ksk.label ksk.algorithm pol.ttl 257 = .ok ck.dns) (jp0 r) := by
    intro r
    simp only [jp0]
    apply GoodLoad.bind
    intro g
    cases g with
    | none => exact GoodLoad.pure_none
    | some found =>
      simp only
      apply GoodLoad.ite
      · apply GoodLoad.bind
        intro g2
        cases g2 with
        | none => exact GoodLoad.bind _ _ hjp
        | some fp => exact GoodLoad.bind _ _ hjp
      · exact GoodLoad.bind _ _ hjp
  apply GoodLoad.ite (GoodLoad.fail_bind _ _)
  cases ksk.validUntil with
  | none => exact hjp0 ()
  | some u => exact GoodLoad.ite (GoodLoad.fail_bind _ _) (hjp0 ())
theorem publicKeyToDnssecKey_ok {pk id : String} {alg : Nat} {ttl flags : Int} {k : Key}
    (h : publicKeyToDnssecKey pk id alg ttl flags = .ok k) :
    k.keyIdentifier = id ∧ k.ttl = ttl ∧ k.flags = flags ∧ k.protocol = 3 ∧ k.algorithm = alg ∧
    k.publicKey = pk ∧ ∃ r, keyToRdata k = .ok r ∧ k.keyTag = (keyTagOfRdata r : Nat) := by
  unfold publicKeyToDnssecKey at h
  simp only [bind, Except.bind] at h
  split at h
  · simp at h
  · unfold calculateKeyTag at h
    cases hr : keyToRdata ⟨id, 0, ttl, flags, 3, alg, pk⟩ with
    | error e => simp [hr, bind, Except.bind] at h
    | ok r =>
      simp only [hr, bind, Except.bind, pure, Except.pure, Except.ok.injEq] at h
      subst h
      refine ⟨rfl, rfl, rfl, rfl, rfl, rfl, r, ?_, rfl⟩
      simpa [keyToRdata] using hr

/-- what `_fetch_keys` guarantees about one returned key, for the configured name it was fetched under -/
def FetchedAs (cfg : SignerConfig) (name : String) (ck : CompositeKey) : Prop :=
  ∃ ksk pk, cfg.kskKeys.lookup name = some ksk ∧ ck.p11.publicKey = some pk ∧
    publicKeyToDnssecKey pk ksk.label ksk.algorithm cfg.kskPolicy.ttl 257 = .ok ck.dns

theorem fetchKeys_nil (ext : Externals) (mods : List P11Module) (cfg : SignerConfig) (bundle : Bundle)
    (isPublic : Bool) : fetchKeys ext mods cfg bundle isPublic [] = pure [] := by
  simp [fetchKeys]

theorem fetchKeys_ok {ext : Externals} {mods : List P11Module} {cfg : SignerConfig} {bundle : Bundle}
    {isPublic : Bool} {names : List String} {t : Token} {s s' : TokState} {cks : List CompositeKey}
    (h : fetchKeys ext mods cfg bundle isPublic names t s = (.ok cks, s')) :
    (∀ ck ∈ cks, ∃ name ∈ names, FetchedAs cfg name ck) ∧
    (∀ name ∈ names, ∃ ck ∈ cks, FetchedAs cfg name ck) ∧ cks.length = names.length := by
  induction names generalizing s cks with
  | nil =>
    simp [fetchKeys] at h
    obtain ⟨rfl, _⟩ := h
    simp
  | cons name rest ih =>
    unfold fetchKeys at h
    cases hl : cfg.kskKeys.lookup name with
    | none => simp [hl] at h
    | some ksk =>
      simp only [hl] at h
      obtain ⟨g, s1, hg, h⟩ := TokM.bind_ok _ _ _ _ _ _ h
      cases g with
      | none => simp at h
      | some ck =>
        simp only at h
        obtain ⟨u, _, h⟩ := (TokM.lift_bind_ok_iff _ _ _ _ _ _).mp h
        obtain ⟨more, s2, hmore, h⟩ := TokM.bind_ok _ _ _ _ _ _ h
        simp only [TokM.pure_run, Prod.mk.injEq, Except.ok.injEq] at h
        obtain ⟨rfl, rfl⟩ := h
        obtain ⟨pk, hpk, hdns⟩ := (loadPkcs11Key_good mods ksk cfg.kskPolicy bundle isPublic).out _ _ _ _ hg
        have hck : FetchedAs cfg name ck := ⟨ksk, pk, hl, hpk, hdns⟩
        obtain ⟨ih1, ih2, ih3⟩ := ih hmore
        refine ⟨?_, ?_, by simp [ih3]⟩
        · intro c hc
          rcases List.mem_cons.mp hc with rfl | hc
          · exact ⟨name, by simp, hck⟩
          · obtain ⟨n, hn, hf⟩ := ih1 c hc
            exact ⟨n, List.mem_cons_of_mem _ hn, hf⟩
        · intro n hn
          rcases List.mem_cons.mp hn with rfl | hn
          · exact ⟨ck, by simp, hck⟩
          · obtain ⟨c, hc, hf⟩ := ih2 n hn
            exact ⟨c, List.mem_cons_of_mem _ hc, hf⟩

/-! ### the signing loop -/

theorem signAll_nil (ext : Externals) (bundle : Bundle) (keys : List Key) (pol : KskPolicy)
    (acc : List Signature) : signAll ext bundle keys pol [] acc = pure acc := by
  simp [signAll]

theorem signAll_cons (ext : Externals) (bundle : Bundle) (keys : List Key) (pol : KskPolicy)
    (sk : CompositeKey) (rest : List CompositeKey) (acc : List Signature) :
    signAll ext bundle keys pol (sk :: rest) acc =
      if acc.any (fun s => s.keyIdentifier = sk.dns.keyIdentifier) then signAll ext bundle keys pol rest acc
      else signKeys ext bundle keys sk pol >>= fun s => signAll ext bundle keys pol rest (acc ++ [s]) := by
  rw [signAll]

def DistinctIds (l : List Signature) : Prop := l.Pairwise (fun a b => a.keyIdentifier ≠ b.keyIdentifier)

theorem signKeys_ok_id {ext : Externals} {bundle : Bundle} {keys : List Key} {sk : CompositeKey}
    {pol : KskPolicy} {t : Token} {s s' : TokState} {σ : Signature}
    (h : signKeys ext bundle keys sk pol t s = (.ok σ, s')) :
    σ.keyIdentifier = sk.dns.keyIdentifier ∧ σ.algorithm = sk.dns.algorithm ∧ s'.count = s.count + 1 := by
  obtain ⟨_, dnsKey, labels, raw, sigBytes, pk, _, _, _, hs, _, _, _, rfl⟩ := signKeys_ok h
  obtain ⟨d, hd, _, _, _, _, _, rfl⟩ := signUsingP11_ok hs
  exact ⟨rfl, rfl, rfl⟩

/-- The loop, for every accumulator: nothing already collected is lost, every new signature comes
    from one successful `_sign_keys` call by one of the listed keys, every listed key is represented,
    identifiers stay pairwise distinct (the skip rule), one token operation per new signature. -/
theorem signAll_ok {ext : Externals} {bundle : Bundle} {keys : List Key} {pol : KskPolicy}
    {sks : List CompositeKey} {acc sigs : List Signature} {t : Token} {s s' : TokState}
    (h : signAll ext bundle keys pol sks acc t s = (.ok sigs, s')) :
    ∃ new, sigs = acc ++ new ∧
      (∀ σ ∈ new, ∃ sk ∈ sks, ∃ s1 s2, signKeys ext bundle keys sk pol t s1 = (.ok σ, s2)) ∧
      (∀ sk ∈ sks, ∃ σ ∈ sigs, σ.keyIdentifier = sk.dns.keyIdentifier) ∧
      (DistinctIds acc → DistinctIds sigs) ∧
      s'.count = s.count + new.length := by
  induction sks generalizing acc s with
  | nil =>
    simp [signAll_nil] at h
    obtain ⟨rfl, rfl⟩ := h
    exact ⟨[], by simp, by simp, by simp, id, by simp⟩
  | cons sk rest ih =>
    rw [signAll_cons] at h
    by_cases hany : acc.any (fun s => s.keyIdentifier = sk.dns.keyIdentifier) = true
    · simp only [hany, ↓reduceIte] at h
      obtain ⟨new, e, h1, h2, h3, h4⟩ := ih h
      refine ⟨new, e, ?_, ?_, h3, h4⟩
      · intro σ hσ
        obtain ⟨k, hk, r⟩ := h1 σ hσ
        exact ⟨k, List.mem_cons_of_mem _ hk, r⟩
      · intro k hk
        rcases List.mem_cons.mp hk with rfl | hk
        · simp only [List.any_eq_true, decide_eq_true_eq] at hany
          obtain ⟨σ, hσ, hid⟩ := hany
          exact ⟨σ, by rw [e]; exact List.mem_append_left _ hσ, hid⟩
        · exact h2 k hk
    · simp only [hany, Bool.false_eq_true, ↓reduceIte] at h
      obtain ⟨σ0, s1, hsk, h⟩ := TokM.bind_ok _ _ _ _ _ _ h
      obtain ⟨hid, _, hc⟩ := signKeys_ok_id hsk
      obtain ⟨new, e, h1, h2, h3, h4⟩ := ih h
      refine ⟨σ0 :: new, by rw [e]; simp, ?_, ?_, ?_, by rw [h4, hc]; simp; omega⟩
      · intro σ hσ
        rcases List.mem_cons.mp hσ with rfl | hσ
        · exact ⟨sk, by simp, s, s1, hsk⟩
        · obtain ⟨k, hk, r⟩ := h1 σ hσ
          exact ⟨k, List.mem_cons_of_mem _ hk, r⟩
      · intro k hk
        rcases List.mem_cons.mp hk with rfl | hk
        · exact ⟨σ0, by rw [e]; simp, hid⟩
        · exact h2 k hk
      · intro hd
        apply h3
        unfold DistinctIds at *
        rw [List.pairwise_append]
        refine ⟨hd, by simp, ?_⟩
        intro a ha b hb
        simp only [List.mem_singleton] at hb
        subst hb
        intro hab
        apply hany
        simp only [List.any_eq_true, decide_eq_true_eq]
        exact ⟨a, ha, hab.trans hid⟩

/-! ### one slot -/

theorem sameSet_iff (a b : List Nat) : sameSet a b = true ↔ ∀ x, x ∈ a ↔ x ∈ b := by
  simp only [sameSet, Bool.and_eq_true, List.all_eq_true, List.contains_iff_mem]
  constructor
  · rintro ⟨h1, h2⟩ x; exact ⟨h1 x, h2 x⟩
  · intro h; exact ⟨fun x hx => (h x).mp hx, fun x hx => (h x).mpr hx⟩

/-- the key set `sign_bundles` assembles for one slot, from the fetched keys -/
def slotFold (ttl : Int) (P R S Z : List Key) : List Key :=
  Z.foldl (fun acc k => ktsAdd ttl acc k)
    (S.foldl (fun acc k => ktsAdd ttl acc k)
      (R.foldl (fun acc k => ktsUpdate ttl acc k)
        (P.foldl (fun acc k => ktsAdd ttl acc k) [])))

/-- the tail of `signBundle` after the signatures are made -/
def finishBundle (ext : Externals) (cfg : SignerConfig) (bundle : Bundle) (keys : List Key)
    (sigs : List Signature) : Res Bundle :=
  if !sameSet (bundle.keys.map (·.algorithm)) (sigs.map (·.algorithm)) then err .createSignature
  else
    let rb : Bundle := { id := bundle.id, inception := bundle.inception, expiration := bundle.expiration,
                         keys := keys, signatures := sigs }
    match checkValidSignatures ext.verify rb cfg.responsePolicy with
    | .ok _ => .ok rb
    | .error e => .error e

/-- `signBundle` as a composition of its steps (pure restatement of the definition) -/
theorem signBundle_eq (ext : Externals) (mods : List P11Module) (cfg : SignerConfig) (slot : Nat)
    (bundle : Bundle) (act : SchemaAction) (hact : cfg.actions.lookup slot = some act) :
    signBundle ext mods cfg slot bundle =
      (fetchKeys ext mods cfg bundle true act.publish >>= fun pub =>
       fetchKeys ext mods cfg bundle true act.revoke >>= fun rev =>
       TokM.lift (rev.mapM (fun ck => ck.dns.asRevoked)) >>= fun revoked =>
       fetchKeys ext mods cfg bundle false act.sign >>= fun signing =>
       signAll ext bundle (slotFold cfg.kskPolicy.ttl (pub.map (·.dns)) revoked (signing.map (·.dns)) bundle.keys)
          cfg.kskPolicy signing [] >>= fun sigs =>
       TokM.lift (finishBundle ext cfg bundle
          (slotFold cfg.kskPolicy.ttl (pub.map (·.dns)) revoked (signing.map (·.dns)) bundle.keys) sigs)) := by
  unfold signBundle
  simp only [hact]
  congr 1; funext pub
  congr 1; funext rev
  congr 1; funext revoked
  congr 1; funext signing
  simp only [foldl_map_dns, slotFold]
  congr 1; funext sigs
  funext t s
  unfold finishBundle
  by_cases hs : sameSet (bundle.keys.map (·.algorithm)) (sigs.map (·.algorithm)) = true
  · simp only [hs, Bool.not_true, Bool.false_eq_true, ↓reduceIte, TokM.lift_run]
    rw [TokM.bind_eq]
    simp only [TokM.lift_run]
    split <;> rename_i h1 <;> split <;> rename_i h2 <;> simp_all
  · simp only [hs, Bool.not_false, ↓reduceIte, TokM.err_bind_run, TokM.lift_run, err]

theorem finishBundle_ok {ext : Externals} {cfg : SignerConfig} {bundle : Bundle} {keys : List Key}
    {sigs : List Signature} {rb : Bundle} (h : finishBundle ext cfg bundle keys sigs = .ok rb) :
    sameSet (bundle.keys.map (·.algorithm)) (sigs.map (·.algorithm)) = true ∧
    rb = { id := bundle.id, inception := bundle.inception, expiration := bundle.expiration,
           keys := keys, signatures := sigs } ∧
    checkValidSignatures ext.verify rb cfg.responsePolicy = .ok () := by
  unfold finishBundle at h
  by_cases hs : sameSet (bundle.keys.map (·.algorithm)) (sigs.map (·.algorithm)) = true
  · simp only [hs, Bool.not_true, Bool.false_eq_true, ↓reduceIte] at h
    split at h
    · rename_i u hu
      simp only [Except.ok.injEq] at h
      subst h
      exact ⟨hs, rfl, hu⟩
    · simp at h
  · simp [hs, err] at h

theorem signBundle_ok {ext : Externals} {mods : List P11Module} {cfg : SignerConfig} {slot : Nat}
    {bundle rb : Bundle} {t : Token} {s s' : TokState}
    (h : signBundle ext mods cfg slot bundle t s = (.ok rb, s')) :
    ∃ act pub rev revoked signing s1 s2 s3,
      cfg.actions.lookup slot = some act ∧
      fetchKeys ext mods cfg bundle true act.publish t s = (.ok pub, s1) ∧
      fetchKeys ext mods cfg bundle true act.revoke t s1 = (.ok rev, s2) ∧
      rev.mapM (fun ck => ck.dns.asRevoked) = .ok revoked ∧
      fetchKeys ext mods cfg bundle false act.sign t s2 = (.ok signing, s3) ∧
      rb.keys = slotFold cfg.kskPolicy.ttl (pub.map (·.dns)) revoked (signing.map (·.dns)) bundle.keys ∧
      signAll ext bundle rb.keys cfg.kskPolicy signing [] t s3 = (.ok rb.signatures, s') ∧
      finishBundle ext cfg bundle rb.keys rb.signatures = .ok rb := by
  cases hact : cfg.actions.lookup slot with
  | none => simp [signBundle, hact] at h
  | some act =>
    rw [signBundle_eq ext mods cfg slot bundle act hact] at h
    obtain ⟨pub, s1, hpub, h⟩ := TokM.bind_ok _ _ _ _ _ _ h
    obtain ⟨rev, s2, hrev, h⟩ := TokM.bind_ok _ _ _ _ _ _ h
    obtain ⟨revoked, hrevoked, h⟩ := (TokM.lift_bind_ok_iff _ _ _ _ _ _).mp h
    obtain ⟨signing, s3, hsign, h⟩ := TokM.bind_ok _ _ _ _ _ _ h
    obtain ⟨sigs, s4, hsigs, h⟩ := TokM.bind_ok _ _ _ _ _ _ h
    simp only [TokM.lift_run, Prod.mk.injEq] at h
    obtain ⟨hfin, rfl⟩ := h
    obtain ⟨_, hrb, _⟩ := finishBundle_ok hfin
    have hk : rb.keys = slotFold cfg.kskPolicy.ttl (pub.map (·.dns)) revoked (signing.map (·.dns)) bundle.keys := by
      rw [hrb]
    have hsg : rb.signatures = sigs := by rw [hrb]
    refine ⟨act, pub, rev, revoked, signing, s1, s2, s3, rfl, hpub, hrev, hrevoked, hsign, hk, ?_, ?_⟩
    · rw [hk, hsg]; exact hsigs
    · rw [hk, hsg]; exact hfin

/-- forward form: once the fetches and the signing loop have answered, the outcome is `finishBundle` -/
theorem signBundle_run {ext : Externals} {mods : List P11Module} {cfg : SignerConfig} {slot : Nat}
    {bundle : Bundle} {t : Token} {s s1 s2 s3 s4 : TokState} {act : SchemaAction}
    {pub rev signing : List CompositeKey} {revoked : List Key} {sigs : List Signature}
    (hact : cfg.actions.lookup slot = some act)
    (hpub : fetchKeys ext mods cfg bundle true act.publish t s = (.ok pub, s1))
    (hrev : fetchKeys ext mods cfg bundle true act.revoke t s1 = (.ok rev, s2))
    (hrevoked : rev.mapM (fun ck => ck.dns.asRevoked) = .ok revoked)
    (hsign : fetchKeys ext mods cfg bundle false act.sign t s2 = (.ok signing, s3))
    (hsigs : signAll ext bundle
      (slotFold cfg.kskPolicy.ttl (pub.map (·.dns)) revoked (signing.map (·.dns)) bundle.keys)
      cfg.kskPolicy signing [] t s3 = (.ok sigs, s4)) :
    signBundle ext mods cfg slot bundle t s =
      (finishBundle ext cfg bundle
        (slotFold cfg.kskPolicy.ttl (pub.map (·.dns)) revoked (signing.map (·.dns)) bundle.keys) sigs, s4) := by
  rw [signBundle_eq ext mods cfg slot bundle act hact]
  simp only [TokM.bind_eq, hpub, hrev, hrevoked, hsign, hsigs, TokM.lift_run]

/-! ### all slots -/

theorem signBundlesFrom_nil (ext : Externals) (mods : List P11Module) (cfg : SignerConfig) (n : Nat) :
    signBundlesFrom ext mods cfg n [] = pure [] := by
  simp [signBundlesFrom]

theorem signBundlesFrom_cons (ext : Externals) (mods : List P11Module) (cfg : SignerConfig) (n : Nat)
    (b : Bundle) (rest : List Bundle) :
    signBundlesFrom ext mods cfg n (b :: rest) =
      signBundle ext mods cfg n b >>= fun rb =>
      signBundlesFrom ext mods cfg (n + 1) rest >>= fun more => pure (rb :: more) := by
  rw [signBundlesFrom]

/-- positions: the `i`-th response bundle is the result of `signBundle` for slot `n + i` on the
    `i`-th request bundle, for every list length and every starting counter -/
theorem signBundlesFrom_ok {ext : Externals} {mods : List P11Module} {cfg : SignerConfig} {n : Nat}
    {bs rbs : List Bundle} {t : Token} {s s' : TokState}
    (h : signBundlesFrom ext mods cfg n bs t s = (.ok rbs, s')) :
    rbs.length = bs.length ∧
    ∀ i b, bs[i]? = some b → ∃ rb s1 s2, rbs[i]? = some rb ∧
      signBundle ext mods cfg (n + i) b t s1 = (.ok rb, s2) := by
  induction bs generalizing n rbs s with
  | nil =>
    simp [signBundlesFrom_nil] at h
    obtain ⟨rfl, _⟩ := h
    simp
  | cons b rest ih =>
    rw [signBundlesFrom_cons] at h
    obtain ⟨rb, s1, hrb, h⟩ := TokM.bind_ok _ _ _ _ _ _ h
    obtain ⟨more, s2, hmore, h⟩ := TokM.bind_ok _ _ _ _ _ _ h
    simp only [TokM.pure_run, Prod.mk.injEq, Except.ok.injEq] at h
    obtain ⟨rfl, rfl⟩ := h
    obtain ⟨ih1, ih2⟩ := ih hmore
    refine ⟨by simp [ih1], ?_⟩
    intro i b' hb'
    cases i with
    | zero =>
      simp only [List.getElem?_cons_zero, Option.some.injEq] at hb'
      subst hb'
      exact ⟨rb, s, s1, by simp, hrb⟩
    | succ j =>
      simp only [List.getElem?_cons_succ] at hb'
      obtain ⟨rb', sa, sb, h1, h2⟩ := ih2 j b' hb'
      refine ⟨rb', sa, sb, by simpa using h1, ?_⟩
      have : n + (j + 1) = n + 1 + j := by omega
      rw [this]; exact h2

/-! ### `create_skr` -/

theorem mapM_ok_mem {α β} (f : α → Res β) (l : List α) (r : List β) (h : l.mapM f = .ok r) :
    (∀ b, b ∈ r ↔ ∃ a ∈ l, f a = .ok b) ∧ r.length = l.length ∧ (∀ a ∈ l, ∃ b, f a = .ok b) := by
  induction l generalizing r with
  | nil =>
    simp [pure, Except.pure] at h
    subst h; simp
  | cons a l ih =>
    rw [List.mapM_cons] at h
    cases hfa : f a with
    | error e => simp [hfa, bind, Except.bind] at h
    | ok b0 =>
      cases hl : l.mapM f with
      | error e => simp [hfa, hl, bind, Except.bind] at h
      | ok r0 =>
        simp only [hfa, hl, bind, Except.bind, pure, Except.pure, Except.ok.injEq] at h
        subst h
        obtain ⟨ih1, ih2, ih3⟩ := ih r0 hl
        refine ⟨?_, by simp [ih2], ?_⟩
        rotate_left
        · intro a' ha'
          rcases List.mem_cons.mp ha' with rfl | ha'
          · exact ⟨b0, hfa⟩
          · exact ih3 a' ha'
        intro b
        simp only [List.mem_cons, ih1 b, exists_eq_or_imp, hfa, Except.ok.injEq]
        constructor
        · rintro (rfl | h)
          · exact Or.inl rfl
          · exact Or.inr h
        · rintro (rfl | h)
          · exact Or.inl rfl
          · exact Or.inr h

theorem dedupFold_mem {α} [BEq α] [LawfulBEq α] (l acc : List α) (x : α) :
    x ∈ l.foldl (fun acc a => if acc.contains a then acc else acc ++ [a]) acc ↔ x ∈ acc ∨ x ∈ l := by
  induction l generalizing acc with
  | nil => simp
  | cons a l ih =>
    rw [List.foldl_cons, ih]
    by_cases hc : acc.contains a = true
    · simp only [hc, ↓reduceIte, List.mem_cons]
      have : a ∈ acc := List.contains_iff_mem.mp hc
      constructor
      · rintro (h | h)
        · exact Or.inl h
        · exact Or.inr (Or.inr h)
      · rintro (h | rfl | h)
        · exact Or.inl h
        · exact Or.inl this
        · exact Or.inr h
    · simp only [hc, Bool.false_eq_true, ↓reduceIte, List.mem_append, List.mem_cons, List.not_mem_nil, or_false]
      constructor
      · rintro ((h | h) | h)
        · exact Or.inl h
        · exact Or.inr (Or.inl h)
        · exact Or.inr (Or.inr h)
      · rintro (h | h | h)
        · exact Or.inl (Or.inl h)
        · exact Or.inl (Or.inr h)
        · exact Or.inr h

theorem dedupFold_nodup {α} [BEq α] [LawfulBEq α] (l acc : List α) (h : acc.Nodup) :
    (l.foldl (fun acc a => if acc.contains a then acc else acc ++ [a]) acc).Nodup := by
  induction l generalizing acc with
  | nil => exact h
  | cons a l ih =>
    rw [List.foldl_cons]
    apply ih
    by_cases hc : acc.contains a = true
    · simp only [hc, ↓reduceIte]; exact h
    · simp only [hc, Bool.false_eq_true, ↓reduceIte]
      have : a ∉ acc := fun hm => hc (List.contains_iff_mem.mpr hm)
      rw [List.nodup_append]
      refine ⟨h, by simp, ?_⟩
      intro x hx y hy
      simp only [List.mem_singleton] at hy
      subst hy
      intro e; subst e; exact this hx

theorem kskSignaturePolicy_ok {pol : KskPolicy} {bundles : List Bundle} {sp : SigPolicy}
    (h : kskSignaturePolicy pol bundles = .ok sp) :
    sp.publishSafety = pol.signaturePolicy.publishSafety ∧
    sp.retireSafety = pol.signaturePolicy.retireSafety ∧
    sp.maxSignatureValidity = pol.signaturePolicy.maxSignatureValidity ∧
    sp.minSignatureValidity = pol.signaturePolicy.minSignatureValidity ∧
    sp.maxValidityOverlap = pol.signaturePolicy.maxValidityOverlap ∧
    sp.minValidityOverlap = pol.signaturePolicy.minValidityOverlap ∧
    (∀ a, a ∈ sp.algorithms ↔ ∃ b ∈ bundles, ∃ k ∈ b.keys, algorithmPolicyOfKey k = .ok a) ∧
    sp.algorithms.Nodup ∧
    (∀ b ∈ bundles, ∀ k ∈ b.keys, ∃ a, algorithmPolicyOfKey k = .ok a) := by
  unfold kskSignaturePolicy at h
  cases hm : ((bundles.map (·.keys)).flatten).mapM algorithmPolicyOfKey with
  | error e => simp [hm, bind, Except.bind] at h
  | ok algs =>
    simp only [hm, bind, Except.bind, pure, Except.pure, Except.ok.injEq] at h
    subst h
    obtain ⟨hmem, hlen, hall⟩ := mapM_ok_mem _ _ _ hm
    refine ⟨rfl, rfl, rfl, rfl, rfl, rfl, ?_, ?_, ?_⟩
    · intro a
      simp only [dedupFold_mem, List.not_mem_nil, false_or, hmem a, List.mem_flatten, List.mem_map]
      constructor
      · rintro ⟨k, ⟨ks, ⟨b, hb, rfl⟩, hk⟩, ha⟩
        exact ⟨b, hb, k, hk, ha⟩
      · rintro ⟨b, hb, k, hk, ha⟩
        exact ⟨k, ⟨b.keys, ⟨b, hb, rfl⟩, hk⟩, ha⟩
    · exact dedupFold_nodup _ _ (by simp)
    · intro b hb k hk
      apply hall k
      simp only [List.mem_flatten, List.mem_map]
      exact ⟨b.keys, ⟨b, hb, rfl⟩, hk⟩

/-! ### `make_raw_rrsig` -/

theorem dndepth_ok {dn : String} {n : Int} (h : dndepth dn = .ok n) : dn = "." ∧ n = 0 := by
  unfold dndepth at h
  split at h
  · simp only [pure, Except.pure, Except.ok.injEq] at h
    exact ⟨by assumption, h.symm⟩
  · simp [err] at h

/-- `make_raw_rrsig` succeeding: every field in wire range, every RDATA decodable and short enough,
    signer name the root, and the octets are `rawRrsigOf` of the fields over the RDATAs. -/
theorem makeRawRrsig_ok {sig : Signature} {keys : List Key} {raw : Bytes}
    (h : makeRawRrsig sig keys = .ok raw) :
    ∃ rdatas, keys.mapM keyToRdata = .ok rdatas ∧ sig.signersName = "." ∧
      sig.typeCovered < 65536 ∧ sig.algorithm < 256 ∧ inRange 8 sig.labels = true ∧
      inRange 32 sig.originalTtl = true ∧ inRange 32 (tsSeconds sig.expiration) = true ∧
      inRange 32 (tsSeconds sig.inception) = true ∧ inRange 16 sig.keyTag = true ∧
      (∀ r ∈ rdatas, r.length < 65536) ∧
      raw = rawRrsigOf sig.typeCovered sig.algorithm sig.labels.toNat sig.originalTtl.toNat
        (tsSeconds sig.expiration).toNat (tsSeconds sig.inception).toNat sig.keyTag.toNat rdatas := by
  unfold makeRawRrsig at h
  simp only [bind, Except.bind] at h
  split at h
  · simp [err] at h
  · rename_i hc
    simp only [Bool.not_eq_true', Bool.not_eq_false, Bool.and_eq_true, decide_eq_true_eq] at hc
    obtain ⟨⟨⟨⟨⟨⟨h1, h2⟩, h3⟩, h4⟩, h5⟩, h6⟩, h7⟩ := hc
    cases hdn : dn2wire sig.signersName with
    | error e => simp [hdn] at h
    | ok w =>
      have hroot : sig.signersName = "." := by
        unfold dn2wire at hdn
        split at hdn
        · assumption
        · simp [err] at hdn
      cases hrd : keys.mapM keyToRdata with
      | error e => simp [hdn, hrd] at h
      | ok rdatas =>
        simp only [hdn, hrd] at h
        split at h
        · simp [err] at h
        · rename_i hlen
          simp only [pure, Except.pure, Except.ok.injEq] at h
          refine ⟨rdatas, rfl, hroot, h1, h2, h3, h4, h5, h6, h7, ?_, h.symm⟩
          intro r hr
          simp only [List.any_eq_true, decide_eq_true_eq, not_exists, not_and, Nat.not_le] at hlen
          exact hlen r hr

theorem makeRawRrsig_sigData (sig : Signature) (d : String) (keys : List Key) :
    makeRawRrsig { sig with signatureData := d } keys = makeRawRrsig sig keys := rfl

end Kskm
