/-
  The writer's text as a PlainXml rendering (composition of C11 with C12, step 1).

  `Kskm.SkrXml.renderDoc t` lays an element tree out the way `skr_to_xml` does: XML declaration, one line
  per tag / leaf element, four blanks per nesting level, explicit end tags, `<n a="v"/>` for an empty
  element, one blank before each attribute, a final newline.  `toP pre t` is the SAME tree in the
  vocabulary of C12's specification (`PTree`, lean/KskmProofs/Lemmas/XmlRender.lean), carrying exactly
  that layout: no gap inside start tags, `"\n" ++ indentation` before every child and before the end tag
  of a node.  `renderDoc_eq_renderT`: the two texts are equal, character for character:

      renderDoc t = xmlDecl ++ "\n" ++ renderT (toP [] t) ++ "\n"
-/
import Kskm.SkrXml
import KskmProofs.Lemmas.XmlRender
namespace Kskm.ReadBack
open Kskm Kskm.Xml

/-- attributes in C12's vocabulary -/
def attrsP (a : List (String × String)) : Attrs := a.map (fun p => (p.1.toList, p.2.toList))

mutual
/-- the element `t`, written at indentation `pre`, as a `PTree` with the writer's layout.  (A node
    without children — `treeOf` never produces one — is written `<n>\n</n>` by `renderLines`; as a
    `PTree` that is a leaf whose text is the line break, and it is not plain.) -/
def toP (pre : List Char) : XTree → PTree
  | .leaf n a t => .leaf n.toList (attrsP a) [] t.toList
  | .empty n a => .empty n.toList (attrsP a) []
  | .node n a [] => .leaf n.toList (attrsP a) [] ('\n' :: pre)
  | .node n a (c :: cs) =>
    .node n.toList (attrsP a) [] ('\n' :: (pre ++ sp4)) (toP (pre ++ sp4) c) (toPF (pre ++ sp4) cs) ('\n' :: pre)
/-- further siblings at indentation `pre`: each on its own line -/
def toPF (pre : List Char) : List XTree → PForest
  | [] => .nil
  | t :: ts => .cons ('\n' :: pre) (toP pre t) (toPF pre ts)
end

/-- every line preceded by a line break -/
def nlCat : List (List Char) → List Char
  | [] => []
  | l :: ls => '\n' :: (l ++ nlCat ls)

theorem joinNl_cons' (l : List Char) (ls : List (List Char)) : joinNl (l :: ls) = l ++ nlCat ls := by
  induction ls generalizing l with
  | nil => simp [joinNl, nlCat]
  | cons l' t ih => simp [joinNl, nlCat, ih l']

theorem nlCat_append (a b : List (List Char)) : nlCat (a ++ b) = nlCat a ++ nlCat b := by
  induction a with
  | nil => rfl
  | cons l t ih => simp [nlCat, ih]

theorem attrsText_attrsP (a : List (String × String)) : attrsText (attrsP a) = renderAttrs a := by
  induction a with
  | nil => rfl
  | cons p t ih =>
    obtain ⟨n, v⟩ := p
    have ih' : attrsText (List.map (fun p => (p.1.toList, p.2.toList)) t) = renderAttrs t := ih
    simp [attrsP, attrsText, attrText, renderAttrs, ih']

theorem startTag_eq_openTag (n : String) (a : List (String × String)) :
    startTag n.toList (attrsP a) [] = openTag n a := by
  simp [startTag, startBody, openTag, attrsText_attrsP]

theorem selfTag_eq_emptyTag (n : String) (a : List (String × String)) :
    selfTag n.toList (attrsP a) [] = emptyTag n a := by
  simp [selfTag, selfBody, emptyTag, attrsText_attrsP]

theorem endTag_eq_closeTag (n : String) : endTag n.toList = closeTag n := by
  simp [endTag, closeTag]

theorem map_map_ind (pre : List Char) (ls : List (List Char)) :
    (ls.map ind).map (fun l => pre ++ l) = ls.map (fun l => (pre ++ sp4) ++ l) := by
  simp [ind, List.append_assoc]

mutual
/-- the lines of an element, each behind the indentation `pre` and a line break, are the layout text -/
theorem nlCat_renderLines : ∀ (t : XTree) (pre : List Char),
    nlCat ((renderLines t).map (fun l => pre ++ l)) = '\n' :: (pre ++ renderT (toP pre t))
  | .leaf n a t, pre => by
    simp [renderLines, nlCat, toP, renderT, startTag_eq_openTag, endTag_eq_closeTag]
  | .empty n a, pre => by
    simp [renderLines, nlCat, toP, renderT, selfTag_eq_emptyTag]
  | .node n a [], pre => by
    simp [renderLines, renderLinesList, nlCat, toP, renderT, startTag_eq_openTag, endTag_eq_closeTag]
  | .node n a (c :: cs), pre => by
    have h := nlCat_renderLinesList (c :: cs) (pre ++ sp4)
    rw [toPF, renderF] at h
    simp only [renderLines, List.map_cons, List.map_append, nlCat, nlCat_append, map_map_ind, List.map_nil]
    rw [h]
    simp [toP, renderT, startTag_eq_openTag, endTag_eq_closeTag]
theorem nlCat_renderLinesList : ∀ (ts : List XTree) (pre : List Char),
    nlCat ((renderLinesList ts).map (fun l => pre ++ l)) = renderF (toPF pre ts)
  | [], pre => by simp [renderLinesList, nlCat, toPF, renderF]
  | t :: ts, pre => by
    simp only [renderLinesList, List.map_append, nlCat_append, nlCat_renderLines t pre, nlCat_renderLinesList ts pre,
      toPF, renderF, List.cons_append, List.append_assoc]
end

/-- **The writer's text is a PlainXml rendering**: the XML declaration and a line break, the root element
    in the writer's layout, a final line break. -/
theorem renderDoc_eq_renderT (t : XTree) :
    renderDoc t = (xmlDecl ++ ['\n']) ++ renderT (toP [] t) ++ ['\n'] := by
  have h := nlCat_renderLines t []
  simp only [List.nil_append, List.map_id'] at h
  simp only [renderDoc, joinNl_cons', nlCat_append, h, nlCat, List.append_nil, List.append_assoc, List.cons_append,
    List.nil_append]

end Kskm.ReadBack
