/-
  Helper lemmas for C01 "completion", independent of the key family: `healthyAction_ready` of
  Lemmas/SignerComplete.lean (RSA) restated over an interface `KeyReady` that RSA keys (`OnToken` +
  `RsaConfigured`) and EC keys (`EcOnToken` + `EcConfigured`, Lemmas/C01Ec.lean) both meet, so that EC-only and
  mixed RSA + EC schemas are covered by one proof.

  §1  `KeyReady`: what the completion proof needs of one configured key; RSA and EC instances
  §2  `GName` / `GAction`: one schema action over keys of any family; `_fetch_keys` succeeds (`GFetched`)
  §3  `gAction_ready`: fetches, revoked forms, algorithm sets, unique identifiers, `SignerReady`
-/
import KskmProofs.Lemmas.C01Ec
namespace Kskm

/-! ## §1 The interface -/

/-- the composite key built from key octets `raw` and a token key record -/
def gck (ttl : Int) (rawOf : String → Bytes) (p11 : KskKey → Bool → P11Key) (ksk : KskKey)
    (isPublic : Bool) : CompositeKey :=
  { p11 := p11 ksk isPublic, dns := dnsOf ksk ttl (rawOf ksk.label) }

/-- **What completion needs of one configured key** with published key octets `raw` and token records
    `p11 isPublic`: `load_pkcs11_key` returns it (public and private lookup, any state, any login
    oracle), the algorithm number and the RDATA fit their fields, the private record carries the key
    text, is asymmetric and has a handle, the text is parsable for the algorithm, and
    `_format_data_for_signing` succeeds once the hash oracle answers. -/
structure KeyReady (ext : Externals) (st : Store) (mods : List P11Module) (cfg : SignerConfig) (b : Bundle)
    (ksk : KskKey) (raw : Bytes) (p11 : Bool → P11Key) : Prop where
  loads : ∀ (ok : String → Nat → Bool) (isPublic : Bool) (s : TokState),
    ∃ s', loadPkcs11Key mods ksk cfg.kskPolicy b isPublic (storeToken st ok) s =
      (.ok (some ⟨p11 isPublic, dnsOf ksk cfg.kskPolicy.ttl raw⟩), s')
  algLt : ksk.algorithm < 256
  small : raw.length + 4 < 65536
  text : (p11 false).publicKey = some (Base64.encode raw)
  notAes : (p11 false).keyType ≠ .aes
  notDes3 : (p11 false).keyType ≠ .des3
  handle : ∃ hdl, (p11 false).privHandle = some hdl
  fromKey : publicKeyFromKey (dnsOf ksk cfg.kskPolicy.ttl raw) = .ok ()
  formats : (∀ h d, ∃ x, ext.hash h d = some x) →
    ∀ data, ∃ d, formatDataForSigning ext.hash (p11 false) data ksk.algorithm = .ok d

/-- an RSA key on the token with the configured parameters is ready -/
theorem keyReady_rsa (ext : Externals) (st : Store) (mods : List P11Module) (cfg : SignerConfig) (b : Bundle)
    (ksk : KskKey) (L : KeyLoc) (hw : C04.InWindow ksk b) (h : OnToken st mods ksk.label L)
    (hc : RsaConfigured ksk L) :
    KeyReady ext st mods cfg b ksk L.raw (p11Of ksk.label ksk.hashUsingHsm L) where
  loads := fun ok isPublic s => loadPkcs11Key_onToken st ok mods ksk cfg.kskPolicy b L hw h hc isPublic s
  algLt := rsa_alg_lt hc.family
  small := h.small
  text := rfl
  notAes := by simp [p11Of]
  notDes3 := by simp [p11Of]
  handle := ⟨L.privO.handle, by simp [p11Of, classOf, ckoPublic, ckoPrivate, KeyLoc.obj]⟩
  fromKey := by
    simp only [publicKeyFromKey, dnsOf, hc.family, ↓reduceIte, rsaDecode_raw h ksk.algorithm hc.family, bind,
      Except.bind, pure, Except.pure]
  formats := fun htot data =>
    formatDataForSigning_rsa ext.hash _ data ksk.algorithm (Base64.encode L.raw) _ hc.family rfl
      (by simpa using encode_raw_ne_empty h) (rsaDecode_raw h ksk.algorithm hc.family) htot

/-- `_format_data_for_signing` succeeds for ECDSA, hash on host or on token, once the hash oracle answers -/
theorem formatDataForSigning_ecdsa (hash : Hasher) (key : P11Key) (raw : Bytes) (alg : Nat)
    (ha : alg = 13 ∨ alg = 14) (htot : ∀ h d, ∃ x, hash h d = some x) :
    ∃ d, formatDataForSigning hash key raw alg = .ok d := by
  unfold formatDataForSigning
  obtain ⟨x2, hx2⟩ := htot .sha256 raw
  obtain ⟨x3, hx3⟩ := htot .sha384 raw
  cases hon : (key.hashUsingHsm == some true) <;> rcases ha with rfl | rfl <;>
    simp [mechanismFor, ecdsaHashFor, algRSASHA1, algRSASHA256, algRSASHA512, algECDSAP256, algECDSAP384,
      ckmRsaX509, ckmSha1RsaPkcs, ckmSha256RsaPkcs, ckmSha512RsaPkcs, ckmEcdsaSha256, ckmEcdsaSha384,
      ckmEcdsa, hx2, hx3]

/-- an EC key on the token with the configured algorithm's curve is ready -/
theorem keyReady_ec (ext : Externals) (st : Store) (mods : List P11Module) (cfg : SignerConfig) (b : Bundle)
    (ksk : KskKey) (L : EcLoc) (hw : C04.InWindow ksk b) (h : EcOnToken st mods ksk.label L)
    (hc : EcConfigured ksk L) :
    KeyReady ext st mods cfg b ksk L.raw (ecP11 ksk.label ksk.hashUsingHsm L) where
  loads := fun ok isPublic s => loadPkcs11Key_ecOnToken st ok mods ksk cfg.kskPolicy b L hw h hc isPublic s
  algLt := hc.alg_lt
  small := by rcases h.raw_length with ⟨_, hl⟩ | ⟨_, hl⟩ <;> omega
  text := rfl
  notAes := by simp [ecP11, ecP11Of]
  notDes3 := by simp [ecP11, ecP11Of]
  handle := ⟨L.privO.handle, by simp [ecP11, ecP11Of, classOf, ckoPublic, ckoPrivate, EcLoc.obj]⟩
  fromKey := by
    simp only [publicKeyFromKey, dnsOf, hc.not_rsa, hc.ecdsa, Bool.false_eq_true, ↓reduceIte,
      Base64.decode_encode]
    rfl
  formats := fun htot data => formatDataForSigning_ecdsa ext.hash _ data ksk.algorithm
    (by rcases hc with ⟨h, _⟩ | ⟨h, _⟩ <;> simp [h]) htot

/-! ## §2 One action over keys of any family -/

/-- what must hold of one name the schema lists, for request bundle `b` -/
structure GName (ext : Externals) (st : Store) (mods : List P11Module) (cfg : SignerConfig)
    (rawOf : String → Bytes) (p11 : KskKey → Bool → P11Key) (b : Bundle) (name : String) (ksk : KskKey) :
    Prop where
  configured : cfg.kskKeys.lookup name = some ksk
  ready : KeyReady ext st mods cfg b ksk (rawOf ksk.label) (p11 ksk)
  identity : validateDnskeyMatchesKsk ext ksk (dnsOf ksk cfg.kskPolicy.ttl (rawOf ksk.label)) = .ok ()

/-- the keys `_fetch_keys` returns: one per name, in order -/
def GFetched (cfg : SignerConfig) (rawOf : String → Bytes) (p11 : KskKey → Bool → P11Key) (isPublic : Bool) :
    List String → List CompositeKey → Prop
  | [], cks => cks = []
  | name :: rest, cks => ∃ ksk more, cfg.kskKeys.lookup name = some ksk ∧
      cks = gck cfg.kskPolicy.ttl rawOf p11 ksk isPublic :: more ∧ GFetched cfg rawOf p11 isPublic rest more

theorem GFetched.mem {cfg : SignerConfig} {rawOf : String → Bytes} {p11 : KskKey → Bool → P11Key}
    {isPublic : Bool} :
    ∀ {names : List String} {cks : List CompositeKey}, GFetched cfg rawOf p11 isPublic names cks →
      (∀ ck ∈ cks, ∃ name ∈ names, ∃ ksk, cfg.kskKeys.lookup name = some ksk ∧
        ck = gck cfg.kskPolicy.ttl rawOf p11 ksk isPublic) ∧
      (∀ name ∈ names, ∃ ksk, cfg.kskKeys.lookup name = some ksk ∧
        gck cfg.kskPolicy.ttl rawOf p11 ksk isPublic ∈ cks)
  | [], cks, h => by
    simp only [GFetched] at h
    subst h
    simp
  | name :: rest, cks, h => by
    obtain ⟨ksk, more, hl, rfl, hrest⟩ := h
    obtain ⟨ih1, ih2⟩ := GFetched.mem hrest
    constructor
    · intro ck hck
      rcases List.mem_cons.mp hck with rfl | hck
      · exact ⟨name, List.mem_cons_self, ksk, hl, rfl⟩
      · obtain ⟨n, hn, r⟩ := ih1 ck hck
        exact ⟨n, List.mem_cons_of_mem _ hn, r⟩
    · intro n hn
      rcases List.mem_cons.mp hn with rfl | hn
      · exact ⟨ksk, hl, List.mem_cons_self⟩
      · obtain ⟨k, hk, hm⟩ := ih2 n hn
        exact ⟨k, hk, List.mem_cons_of_mem _ hm⟩

/-- **`_fetch_keys` succeeds on the store-backed signing token** when every name is ready, from any state -/
theorem gfetchKeys (ext : Externals) (st : Store) (ok : String → Nat → Bool)
    (sg : String → Nat → Nat → Nat → Bytes → Bytes)
    (mods : List P11Module) (cfg : SignerConfig) (rawOf : String → Bytes) (p11 : KskKey → Bool → P11Key)
    (b : Bundle) (isPublic : Bool) (names : List String)
    (hall : ∀ name ∈ names, ∃ ksk, GName ext st mods cfg rawOf p11 b name ksk) (s : TokState) :
    ∃ cks s', fetchKeys ext mods cfg b isPublic names (signingToken st ok sg) s = (.ok cks, s') ∧
      GFetched cfg rawOf p11 isPublic names cks := by
  have key : ∀ (names : List String), (∀ name ∈ names, ∃ ksk, GName ext st mods cfg rawOf p11 b name ksk) →
      ∀ s, ∃ cks s', fetchKeys ext mods cfg b isPublic names (storeToken st ok) s = (.ok cks, s') ∧
        GFetched cfg rawOf p11 isPublic names cks := by
    intro names
    induction names with
    | nil => intro _ s; exact ⟨[], s, by simp [fetchKeys], rfl⟩
    | cons name rest ih =>
      intro hall s
      obtain ⟨ksk, hn⟩ := hall name List.mem_cons_self
      obtain ⟨s1, hload⟩ := hn.ready.loads ok isPublic s
      obtain ⟨more, s2, hmore, hex⟩ := ih (fun n h => hall n (List.mem_cons_of_mem _ h)) s1
      refine ⟨_ :: more, s2, (C04.fetched_cons_iff ext mods cfg b isPublic name rest _ s s2 _).mpr
        ⟨ksk, _, more, s1, rfl, hn.configured, hload, (C04.identityOk_iff ext ksk _).mp hn.identity, hmore⟩,
        ksk, more, hn.configured, rfl, hex⟩
  obtain ⟨cks, s', h, hex⟩ := key names hall s
  obtain ⟨s1, h1⟩ := (fetchKeys_via ext mods cfg b isPublic names).transfer
    (signingToken_reads st ok sg mods) h s
  exact ⟨cks, s1, h1, hex⟩

theorem asRevoked_dnsOf' (ksk : KskKey) (ttl : Int) (raw : Bytes) (ha : ksk.algorithm < 256) :
    (dnsOf ksk ttl raw).asRevoked = .ok (revokedOf ksk ttl raw) := by
  have hrd := keyToRdata_dnsOf ksk ttl raw 385 (dnsOf ksk ttl raw).keyTag (by omega) ha
  unfold Key.asRevoked calculateKeyTag
  have hf : ¬ (dnsOf ksk ttl raw).flags < 0 := by simp [dnsOf]
  have h385 : ((setRevokeBit (dnsOf ksk ttl raw).flags.toNat : Nat) : Int) = ((385 : Nat) : Int) := by
    simp [dnsOf, setRevokeBit]
  simp only [hf, ↓reduceIte, bind, Except.bind, pure, Except.pure, h385]
  have : keyToRdata { dnsOf ksk ttl raw with flags := ((385 : Nat) : Int) } =
      .ok (rdataOf 385 3 ksk.algorithm raw) := hrd
  rw [this]
  rfl

/-- a record of the slot's key set that stems from a configured KSK -/
structure GRec (cfg : SignerConfig) (rawOf : String → Bytes) (ksk : KskKey) (x : Key) : Prop where
  id : x.keyIdentifier = ksk.label
  pk : x.publicKey = Base64.encode (rawOf ksk.label)
  alg : x.algorithm = ksk.algorithm
  ttl : x.ttl = cfg.kskPolicy.ttl
  rdata : ∃ flags, keyToRdata x = .ok (rdataOf flags 3 ksk.algorithm (rawOf ksk.label))
  tag : ∃ r, x.keyTag = ((keyTagOfRdata r : Nat) : Int)

theorem gRec_dnsOf (cfg : SignerConfig) (rawOf : String → Bytes) (ksk : KskKey) (ha : ksk.algorithm < 256) :
    GRec cfg rawOf ksk (dnsOf ksk cfg.kskPolicy.ttl (rawOf ksk.label)) :=
  ⟨rfl, rfl, rfl, rfl, ⟨257, keyToRdata_dnsOf ksk _ _ 257 _ (by omega) ha⟩, ⟨_, rfl⟩⟩

theorem gRec_revokedOf (cfg : SignerConfig) (rawOf : String → Bytes) (ksk : KskKey) (ha : ksk.algorithm < 256) :
    GRec cfg rawOf ksk (revokedOf ksk cfg.kskPolicy.ttl (rawOf ksk.label)) :=
  ⟨rfl, rfl, rfl, rfl, ⟨385, keyToRdata_dnsOf ksk _ _ 385 _ (by omega) ha⟩, ⟨_, rfl⟩⟩

/-- **What must hold of one schema action `act` and one request bundle `b`** (keys of any family) for
    the slot to reach the algorithm-agreement check on `signingToken st ok sg`: `HealthyAction` with
    `rawOf` / `p11` in place of the RSA-only `KeyLoc`, WITHOUT the agreement of the algorithm sets
    (`GAction.algs` below), so that the outcome can be stated for either case. -/
structure GActionCore (ext : Externals) (st : Store) (sg : String → Nat → Nat → Nat → Bytes → Bytes)
    (mods : List P11Module) (cfg : SignerConfig) (rawOf : String → Bytes) (p11 : KskKey → Bool → P11Key)
    (b : Bundle) (act : SchemaAction) : Prop where
  names : ∀ name ∈ act.names, ∃ ksk, GName ext st mods cfg rawOf p11 b name ksk
  labelAlg : ∀ n₁ ∈ act.names, ∀ n₂ ∈ act.names, ∀ k₁ k₂, cfg.kskKeys.lookup n₁ = some k₁ →
    cfg.kskKeys.lookup n₂ = some k₂ → k₁.label = k₂.label → k₁.algorithm = k₂.algorithm
  distinctKeys : ∀ n₁ ∈ act.names, ∀ n₂ ∈ act.names, ∀ k₁ k₂, cfg.kskKeys.lookup n₁ = some k₁ →
    cfg.kskKeys.lookup n₂ = some k₂ → rawOf k₁.label = rawOf k₂.label → k₁.label = k₂.label
  zsks : b.keys ≠ []
  zskIds : b.keys.Pairwise (fun x y => x.keyIdentifier ≠ y.keyIdentifier)
  zskNotKsk : ∀ z ∈ b.keys, ∀ name ∈ act.names, ∀ k, cfg.kskKeys.lookup name = some k →
    z.keyIdentifier ≠ k.label
  zskRdata : ∀ z ∈ b.keys, ∃ r, keyToRdata z = .ok r ∧ r.length < 65536
  expiration : inRange 32 (tsSeconds b.expiration) = true
  inception : inRange 32 (tsSeconds b.inception) = true
  signs : ∀ name ∈ act.sign, ∀ k, cfg.kskKeys.lookup name = some k → ∀ raw d hdl,
    (p11 k false).privHandle = some hdl →
    formatDataForSigning ext.hash (p11 k false) raw k.algorithm = .ok d →
    ext.verify k.algorithm (Base64.encode (rawOf k.label)) raw
      (sg (p11 k false).module (p11 k false).slot hdl d.mechanism d.data) = .valid

/-- the ZSK algorithm set is the algorithm set of the keys listed under `sign` -/
def AlgsAgree (cfg : SignerConfig) (b : Bundle) (act : SchemaAction) : Prop :=
  ∀ a, a ∈ b.keys.map (·.algorithm) ↔
    ∃ name ∈ act.sign, ∃ k, cfg.kskKeys.lookup name = some k ∧ k.algorithm = a

def GSlotRec (cfg : SignerConfig) (rawOf : String → Bytes) (act : SchemaAction) (b : Bundle)
    (ksks : List Key) (x : Key) : Prop :=
  (∃ name ∈ act.names, ∃ k, cfg.kskKeys.lookup name = some k ∧ GRec cfg rawOf k x) ∨
  (∃ z ∈ b.keys, x = { z with ttl := cfg.kskPolicy.ttl } ∧ ∀ k ∈ ksks, k.publicKey ≠ z.publicKey)

/-! ## §3 A healthy action runs up to the signing loop, and every signing key is ready -/

theorem gAction_ready (ext : Externals) (st : Store) (ok : String → Nat → Bool)
    (sg : String → Nat → Nat → Nat → Bytes → Bytes) (mods : List P11Module) (cfg : SignerConfig)
    (rawOf : String → Bytes) (p11 : KskKey → Bool → P11Key) (b : Bundle) (act : SchemaAction)
    (hb : HealthyBase ext cfg) (ha : GActionCore ext st sg mods cfg rawOf p11 b act) (s : TokState) :
    ∃ pub rev signing revoked s1 s2 s3,
      fetchKeys ext mods cfg b true act.publish (signingToken st ok sg) s = (.ok pub, s1) ∧
      fetchKeys ext mods cfg b true act.revoke (signingToken st ok sg) s1 = (.ok rev, s2) ∧
      rev.mapM (fun ck => ck.dns.asRevoked) = .ok revoked ∧
      fetchKeys ext mods cfg b false act.sign (signingToken st ok sg) s2 = (.ok signing, s3) ∧
      GFetched cfg rawOf p11 false act.sign signing ∧
      (∀ a, a ∈ signing.map (·.dns.algorithm) ↔
        ∃ name ∈ act.sign, ∃ k, cfg.kskKeys.lookup name = some k ∧ k.algorithm = a) ∧
      (∀ x ∈ signing, ∀ y ∈ signing, x.dns.keyIdentifier = y.dns.keyIdentifier →
        x.dns.algorithm = y.dns.algorithm) ∧
      hasDupIds (slotFold cfg.kskPolicy.ttl (pub.map (·.dns)) revoked (signing.map (·.dns)) b.keys) = false ∧
      ∀ sk ∈ signing, SignerReady ext b cfg.kskPolicy
        (slotFold cfg.kskPolicy.ttl (pub.map (·.dns)) revoked (signing.map (·.dns)) b.keys) sk
        (signingToken st ok sg) 0 := by
  have hpubN : ∀ n ∈ act.publish, n ∈ act.names := fun n h => by simp [SchemaAction.names, h]
  have hrevN : ∀ n ∈ act.revoke, n ∈ act.names := fun n h => by simp [SchemaAction.names, h]
  have hsignN : ∀ n ∈ act.sign, n ∈ act.names := fun n h => by simp [SchemaAction.names, h]
  have hn : ∀ name ∈ act.names, ∀ k, cfg.kskKeys.lookup name = some k →
      GName ext st mods cfg rawOf p11 b name k := by
    intro name hname k hk
    obtain ⟨k', h'⟩ := ha.names name hname
    have : k' = k := by have := h'.configured; rw [hk] at this; exact (Option.some.inj this).symm
    exact this ▸ h'
  obtain ⟨pub, s1, hpub, epub⟩ := gfetchKeys ext st ok sg mods cfg rawOf p11 b true act.publish
    (fun n h => ha.names n (hpubN n h)) s
  obtain ⟨rev, s2, hrev, erev⟩ := gfetchKeys ext st ok sg mods cfg rawOf p11 b true act.revoke
    (fun n h => ha.names n (hrevN n h)) s1
  obtain ⟨signing, s3, hsign, esign⟩ := gfetchKeys ext st ok sg mods cfg rawOf p11 b false act.sign
    (fun n h => ha.names n (hsignN n h)) s2
  obtain ⟨mpub, _⟩ := epub.mem
  obtain ⟨mrev, _⟩ := erev.mem
  obtain ⟨msign, msign'⟩ := esign.mem
  obtain ⟨revoked, hrevoked, qrev⟩ := mapM_ok_of_forall (fun ck : CompositeKey => ck.dns.asRevoked)
    (fun r => ∃ name ∈ act.revoke, ∃ k, cfg.kskKeys.lookup name = some k ∧
      r = revokedOf k cfg.kskPolicy.ttl (rawOf k.label)) rev (by
      intro ck hck
      obtain ⟨name, hname, k, hk, rfl⟩ := mrev ck hck
      exact ⟨_, asRevoked_dnsOf' k _ _ (hn name (hrevN name hname) k hk).ready.algLt, name, hname, k, hk, rfl⟩)
  refine ⟨pub, rev, signing, revoked, s1, s2, s3, hpub, hrev, hrevoked, hsign, esign, ?_, ?_, ?_, ?_⟩
  · intro a
    simp only [List.mem_map]
    constructor
    · rintro ⟨ck, hck, rfl⟩
      obtain ⟨name, hname, k, hk, rfl⟩ := msign ck hck
      exact ⟨name, hname, k, hk, rfl⟩
    · rintro ⟨name, hname, k, hk, rfl⟩
      obtain ⟨k', hk', hm⟩ := msign' name hname
      rw [hk] at hk'; cases hk'
      exact ⟨_, hm, rfl⟩
  · intro x hx y hy hid
    obtain ⟨n₁, hn₁, k₁, hk₁, rfl⟩ := msign x hx
    obtain ⟨n₂, hn₂, k₂, hk₂, rfl⟩ := msign y hy
    exact ha.labelAlg n₁ (hsignN n₁ hn₁) n₂ (hsignN n₂ hn₂) k₁ k₂ hk₁ hk₂ hid
  all_goals
    have hspec := C02.slotFold_spec cfg.kskPolicy.ttl (pub.map (·.dns)) revoked (signing.map (·.dns)) b.keys
    have hclass : ∀ x ∈ slotFold cfg.kskPolicy.ttl (pub.map (·.dns)) revoked (signing.map (·.dns)) b.keys,
        GSlotRec cfg rawOf act b (pub.map (·.dns) ++ revoked ++ signing.map (·.dns)) x := by
      intro x hx
      rcases hspec.sound x hx with ⟨r, hr, rfl⟩ | ⟨k0, hkm, rfl, _⟩ | ⟨z, hz, rfl, hzn⟩
      · obtain ⟨name, hname, k, hk, rfl⟩ := qrev r hr
        exact Or.inl ⟨name, hrevN name hname, k, hk,
          gRec_revokedOf cfg rawOf k (hn name (hrevN name hname) k hk).ready.algLt⟩
      · rcases List.mem_append.mp hkm with hkm | hkm
        · obtain ⟨ck, hck, rfl⟩ := List.mem_map.mp hkm
          obtain ⟨name, hname, k, hk, rfl⟩ := mpub ck hck
          exact Or.inl ⟨name, hpubN name hname, k, hk,
            gRec_dnsOf cfg rawOf k (hn name (hpubN name hname) k hk).ready.algLt⟩
        · obtain ⟨ck, hck, rfl⟩ := List.mem_map.mp hkm
          obtain ⟨name, hname, k, hk, rfl⟩ := msign ck hck
          exact Or.inl ⟨name, hsignN name hname, k, hk,
            gRec_dnsOf cfg rawOf k (hn name (hsignN name hname) k hk).ready.algLt⟩
      · exact Or.inr ⟨z, hz, rfl, hzn⟩
  · rw [noDupIds_iff]
    refine hspec.unique.imp_of_mem ?_
    intro x y hx hy hne hid
    apply hne
    rcases hclass x hx with ⟨n₁, hn₁, k₁, hk₁, r₁⟩ | ⟨z₁, hz₁, rfl, _⟩ <;>
      rcases hclass y hy with ⟨n₂, hn₂, k₂, hk₂, r₂⟩ | ⟨z₂, hz₂, rfl, _⟩
    · rw [r₁.pk, r₂.pk, show k₁.label = k₂.label by rw [← r₁.id, ← r₂.id]; exact hid]
    · exact absurd (r₁.id.symm.trans hid).symm (ha.zskNotKsk z₂ hz₂ n₁ hn₁ k₁ hk₁)
    · exact absurd (hid.trans r₂.id) (ha.zskNotKsk z₁ hz₁ n₂ hn₂ k₂ hk₂)
    · rw [pairwise_id_inj ha.zskIds z₁ hz₁ z₂ hz₂ hid]
  · intro sk hsk
    obtain ⟨name, hname, k, hk, rfl⟩ := msign sk hsk
    have H := hn name (hsignN name hname) k hk
    have hdnsS : (gck cfg.kskPolicy.ttl rawOf p11 k false).dns ∈ signing.map (·.dns) :=
      List.mem_map.mpr ⟨_, hsk, rfl⟩
    obtain ⟨x, hx, hxpk⟩ := hspec.complete (gck cfg.kskPolicy.ttl rawOf p11 k false).dns
      (List.mem_append_left _ (List.mem_append_right _ hdnsS))
    have hxpk' : x.publicKey = Base64.encode (rawOf k.label) := hxpk
    obtain ⟨n₂, hn₂, k₂, hk₂, r₂, hlab, halg⟩ : ∃ n₂ ∈ act.names, ∃ k₂, cfg.kskKeys.lookup n₂ = some k₂ ∧
        GRec cfg rawOf k₂ x ∧ k₂.label = k.label ∧ k₂.algorithm = k.algorithm := by
      rcases hclass x hx with ⟨n₂, hn₂, k₂, hk₂, r₂⟩ | ⟨z, hz, rfl, hzn⟩
      · have hraw : rawOf k₂.label = rawOf k.label :=
          base64_encode_inj (r₂.pk.symm.trans hxpk')
        have hlab := ha.distinctKeys n₂ hn₂ name (hsignN name hname) k₂ k hk₂ hk hraw
        exact ⟨n₂, hn₂, k₂, hk₂, r₂, hlab,
          ha.labelAlg n₂ hn₂ name (hsignN name hname) k₂ k hk₂ hk hlab⟩
      · exact absurd hxpk.symm (hzn _ (List.mem_append_right _ hdnsS))
    obtain ⟨rdatas, hrd, hshort⟩ := mapM_ok_of_forall keyToRdata (fun r => r.length < 65536)
      (slotFold cfg.kskPolicy.ttl (pub.map (·.dns)) revoked (signing.map (·.dns)) b.keys) (by
      intro y hy
      rcases hclass y hy with ⟨n₃, hn₃, k₃, hk₃, r₃⟩ | ⟨z, hz, rfl, _⟩
      · obtain ⟨fl, hfl⟩ := r₃.rdata
        refine ⟨_, hfl, ?_⟩
        rw [rdataOf_length]
        exact (hn n₃ hn₃ k₃ hk₃).ready.small
      · exact ha.zskRdata z hz)
    have htag : inRange 16 x.keyTag = true := by
      obtain ⟨r, hr⟩ := r₂.tag
      rw [hr]
      have := C14.keyTag_lt r
      simp only [inRange, Bool.and_eq_true, decide_eq_true_eq, Int.toNat_natCast]
      exact ⟨by omega, by omega⟩
    obtain ⟨raw, hraw⟩ : ∃ raw, makeRawRrsig
        (sigTemplate b (gck cfg.kskPolicy.ttl rawOf p11 k false) cfg.kskPolicy 0 x.keyTag)
        (slotFold cfg.kskPolicy.ttl (pub.map (·.dns)) revoked (signing.map (·.dns)) b.keys) = .ok raw :=
      ⟨_, makeRawRrsig_of
        (sig := sigTemplate b (gck cfg.kskPolicy.ttl rawOf p11 k false) cfg.kskPolicy 0 x.keyTag)
        (by simp [sigTemplate]) (by simp only [sigTemplate, gck, dnsOf]; exact H.ready.algLt)
        (by simp [sigTemplate, inRange]) (by simp only [sigTemplate]; exact hb.ttl)
        (by simp only [sigTemplate]; exact ha.expiration) (by simp only [sigTemplate]; exact ha.inception)
        (by simp only [sigTemplate]; exact htag) (by simp only [sigTemplate]; exact hb.root) hrd hshort⟩
    obtain ⟨d, hd⟩ := H.ready.formats hb.hashes raw
    obtain ⟨hdl, hh⟩ := H.ready.handle
    refine ⟨x, Base64.encode (rawOf k.label), raw, d, hdl, hx, ?_, hxpk', ?_, H.ready.text, H.ready.fromKey,
      hraw, H.ready.notAes, H.ready.notDes3, hd, hh, ?_⟩
    · rw [r₂.id, hlab]; rfl
    · rw [r₂.alg, halg]; rfl
    · intro n _
      exact ⟨_, signingToken_sign st ok sg n _ _ _ _ _, ha.signs name hname k hk _ d hdl hh hd⟩

/-! ## §4 One slot: the outcome, for either answer of the algorithm-agreement check -/

/-- **One slot up to `finishBundle`.** On the store-backed signing token, from any state, an action
    that meets `GActionCore` runs through the fetches and the signing loop; the outcome of `signBundle`
    is that of `finishBundle` (algorithm agreement, then response-side re-validation) on a key set and
    signatures whose algorithm set is that of the keys configured under `sign`, and which pass
    `check_valid_signatures` whenever something is listed under `sign`. -/
theorem gslot_run (ext : Externals) (st : Store) (ok : String → Nat → Bool)
    (sg : String → Nat → Nat → Nat → Bytes → Bytes) (mods : List P11Module) (cfg : SignerConfig)
    (rawOf : String → Bytes) (p11 : KskKey → Bool → P11Key) (slot : Nat) (b : Bundle) (act : SchemaAction)
    (hb : HealthyBase ext cfg) (hact : cfg.actions.lookup slot = some act)
    (ha : GActionCore ext st sg mods cfg rawOf p11 b act) (s : TokState) :
    ∃ keys sigs s4,
      signBundle ext mods cfg slot b (signingToken st ok sg) s = (finishBundle ext cfg b keys sigs, s4) ∧
      (∀ a, a ∈ sigs.map (·.algorithm) ↔
        ∃ name ∈ act.sign, ∃ k, cfg.kskKeys.lookup name = some k ∧ k.algorithm = a) ∧
      (act.sign ≠ [] → checkValidSignatures ext.verify
        ⟨b.id, b.inception, b.expiration, keys, sigs, none⟩ cfg.responsePolicy = .ok ()) := by
  obtain ⟨pub, rev, signing, revoked, s1, s2, s3, hpub, hrev, hrevoked, hsign, esign, halgs, hidalg, hnd, hready⟩ :=
    gAction_ready ext st ok sg mods cfg rawOf p11 b act hb ha s
  have httl := (C02.slotFold_spec cfg.kskPolicy.ttl (pub.map (·.dns)) revoked (signing.map (·.dns)) b.keys).ttl
  obtain ⟨sigs, s4, hsigs, hval, hsa, hne⟩ :=
    signAll_completes ext b cfg.kskPolicy _ signing (signingToken st ok sg) s3 hb.root httl hnd
      (fun sk hsk => by
        obtain ⟨dnsKey, pk, raw, d, hdl, h1, h2, h3, h4, h5, h6, h7, h8, h9, h10, h11, h12⟩ := hready sk hsk
        exact ⟨dnsKey, pk, raw, d, hdl, h1, h2, h3, h4, h5, h6, h7, h8, h9, h10, h11,
          fun n _ => h12 n (Nat.zero_le n)⟩)
  refine ⟨_, sigs, s4, signBundle_run hact hpub hrev hrevoked hsign hsigs, ?_, ?_⟩
  · intro a
    rw [hsa hidalg a, halgs a]
  · intro hsne
    have hsig_ne : signing ≠ [] := by
      intro he
      obtain ⟨_, m2⟩ := esign.mem
      cases hs : act.sign with
      | nil => exact hsne hs
      | cons n r =>
        obtain ⟨k, _, hm⟩ := m2 n (by simp [hs])
        simp [he] at hm
    have hkeys_ne : slotFold cfg.kskPolicy.ttl (pub.map (·.dns)) revoked (signing.map (·.dns)) b.keys ≠ [] := by
      cases hs : signing with
      | nil => exact absurd hs hsig_ne
      | cons sk r =>
        obtain ⟨dnsKey, _, _, _, _, h1, _⟩ := hready sk (by simp [hs])
        rw [← hs]
        exact List.ne_nil_of_mem h1
    have hvalid := validateSignatures_of_each ext.verify
      { id := b.id, inception := b.inception, expiration := b.expiration,
        keys := slotFold cfg.kskPolicy.ttl (pub.map (·.dns)) revoked (signing.map (·.dns)) b.keys,
        signatures := sigs } hkeys_ne (hne hsig_ne) hnd hval
    unfold checkValidSignatures
    rw [hvalid]
    split <;> rfl

/-- the keys a `_fetch_keys` call of the slot returned are exactly the `gck` of the names asked for
    (the call is a function of names and state; the forward lemma says what it returns) -/
theorem gfetched_of_run (ext : Externals) (st : Store) (ok : String → Nat → Bool)
    (sg : String → Nat → Nat → Nat → Bytes → Bytes) (mods : List P11Module) (cfg : SignerConfig)
    (rawOf : String → Bytes) (p11 : KskKey → Bool → P11Key) (b : Bundle) (act : SchemaAction)
    (ha : GActionCore ext st sg mods cfg rawOf p11 b act) (isPublic : Bool) (names : List String)
    (hsub : ∀ n ∈ names, n ∈ act.names) (s2 s3 : TokState) (cks : List CompositeKey)
    (h : fetchKeys ext mods cfg b isPublic names (signingToken st ok sg) s2 = (.ok cks, s3)) :
    GFetched cfg rawOf p11 isPublic names cks := by
  obtain ⟨cks', s', h', hex⟩ := gfetchKeys ext st ok sg mods cfg rawOf p11 b isPublic names
    (fun n hn => ha.names n (hsub n hn)) s2
  rw [h] at h'
  simp only [Prod.mk.injEq, Except.ok.injEq] at h'
  rw [h'.1]
  exact hex

/-- **Every record of the key set a healthy slot assembles** stems from a KSK configured under a listed
    name (key text = its token key octets, its algorithm) or is a request key with the TTL set. -/
theorem gslot_class (ext : Externals) (st : Store) (sg : String → Nat → Nat → Nat → Bytes → Bytes)
    (mods : List P11Module) (cfg : SignerConfig)
    (rawOf : String → Bytes) (p11 : KskKey → Bool → P11Key) (b : Bundle) (act : SchemaAction)
    (ha : GActionCore ext st sg mods cfg rawOf p11 b act)
    (pub rev signing : List CompositeKey) (revoked : List Key)
    (epub : GFetched cfg rawOf p11 true act.publish pub) (erev : GFetched cfg rawOf p11 true act.revoke rev)
    (esign : GFetched cfg rawOf p11 false act.sign signing)
    (hrevoked : rev.mapM (fun ck => ck.dns.asRevoked) = .ok revoked) :
    ∀ x ∈ slotFold cfg.kskPolicy.ttl (pub.map (·.dns)) revoked (signing.map (·.dns)) b.keys,
      GSlotRec cfg rawOf act b (pub.map (·.dns) ++ revoked ++ signing.map (·.dns)) x := by
  have hpubN : ∀ n ∈ act.publish, n ∈ act.names := fun n h => by simp [SchemaAction.names, h]
  have hrevN : ∀ n ∈ act.revoke, n ∈ act.names := fun n h => by simp [SchemaAction.names, h]
  have hsignN : ∀ n ∈ act.sign, n ∈ act.names := fun n h => by simp [SchemaAction.names, h]
  have hn : ∀ name ∈ act.names, ∀ k, cfg.kskKeys.lookup name = some k → k.algorithm < 256 := by
    intro name hname k hk
    obtain ⟨k', h'⟩ := ha.names name hname
    have : k' = k := by have := h'.configured; rw [hk] at this; exact (Option.some.inj this).symm
    exact this ▸ h'.ready.algLt
  obtain ⟨mpub, _⟩ := epub.mem
  obtain ⟨mrev, _⟩ := erev.mem
  obtain ⟨msign, _⟩ := esign.mem
  have hspec := C02.slotFold_spec cfg.kskPolicy.ttl (pub.map (·.dns)) revoked (signing.map (·.dns)) b.keys
  intro x hx
  rcases hspec.sound x hx with ⟨r, hr, rfl⟩ | ⟨k0, hkm, rfl, _⟩ | ⟨z, hz, rfl, hzn⟩
  · obtain ⟨ck, hck, hck'⟩ := ((mapM_ok_mem _ _ _ hrevoked).1 r).mp hr
    obtain ⟨name, hname, k, hk, rfl⟩ := mrev ck hck
    have hlt := hn name (hrevN name hname) k hk
    have : r = revokedOf k cfg.kskPolicy.ttl (rawOf k.label) := by
      have h2 : (dnsOf k cfg.kskPolicy.ttl (rawOf k.label)).asRevoked = .ok r := hck'
      rw [asRevoked_dnsOf' k _ _ hlt] at h2
      exact (Except.ok.inj h2).symm
    subst this
    exact Or.inl ⟨name, hrevN name hname, k, hk, gRec_revokedOf cfg rawOf k hlt⟩
  · rcases List.mem_append.mp hkm with hkm | hkm
    · obtain ⟨ck, hck, rfl⟩ := List.mem_map.mp hkm
      obtain ⟨name, hname, k, hk, rfl⟩ := mpub ck hck
      exact Or.inl ⟨name, hpubN name hname, k, hk, gRec_dnsOf cfg rawOf k (hn name (hpubN name hname) k hk)⟩
    · obtain ⟨ck, hck, rfl⟩ := List.mem_map.mp hkm
      obtain ⟨name, hname, k, hk, rfl⟩ := msign ck hck
      exact Or.inl ⟨name, hsignN name hname, k, hk, gRec_dnsOf cfg rawOf k (hn name (hsignN name hname) k hk)⟩
  · exact Or.inr ⟨z, hz, rfl, hzn⟩

/-! ## §5 Keys of either family at store level -/

/-- where a label lives: an RSA key pair or an EC key pair -/
inductive AnyLoc where
  | rsa (L : KeyLoc)
  | ec (L : EcLoc)
  deriving Inhabited

/-- the key octets published in the DNSKEY: RFC 3110 (exponent, modulus) for RSA; for EC the SEC 1 point
    `04 ‖ X ‖ Y` (finding F4) -/
def AnyLoc.raw : AnyLoc → Bytes
  | .rsa L => L.raw
  | .ec L => L.raw
def AnyLoc.path : AnyLoc → String
  | .rsa L => L.m.path
  | .ec L => L.m.path
def AnyLoc.slot : AnyLoc → Nat
  | .rsa L => L.slot
  | .ec L => L.slot
def AnyLoc.privHandle : AnyLoc → Nat
  | .rsa L => L.privO.handle
  | .ec L => L.privO.handle
def AnyLoc.p11 (label : String) (hh : Option Bool) : AnyLoc → Bool → P11Key
  | .rsa L => p11Of label hh L
  | .ec L => ecP11 label hh L

/-- the label is on the token once, as a key pair of the configured family and parameters -/
def AnyLoc.OnTokenAs (st : Store) (mods : List P11Module) (ksk : KskKey) : AnyLoc → Prop
  | .rsa L => OnToken st mods ksk.label L ∧ RsaConfigured ksk L
  | .ec L => EcOnToken st mods ksk.label L ∧ EcConfigured ksk L

theorem AnyLoc.p11_private (label : String) (hh : Option Bool) (A : AnyLoc) :
    (A.p11 label hh false).privHandle = some A.privHandle ∧ (A.p11 label hh false).module = A.path ∧
      (A.p11 label hh false).slot = A.slot := by
  cases A <;>
    simp [AnyLoc.p11, AnyLoc.privHandle, AnyLoc.path, AnyLoc.slot, p11Of, ecP11, ecP11Of, classOf, ckoPublic,
      ckoPrivate, KeyLoc.obj, EcLoc.obj]

/-- what must hold of one name the schema lists, for request bundle `b` (`HealthyName` for either family) -/
structure AnyHealthyName (ext : Externals) (st : Store) (mods : List P11Module) (cfg : SignerConfig)
    (loc : String → AnyLoc) (b : Bundle) (name : String) (ksk : KskKey) : Prop where
  configured : cfg.kskKeys.lookup name = some ksk
  window : C04.InWindow ksk b
  onToken : (loc ksk.label).OnTokenAs st mods ksk
  identity : validateDnskeyMatchesKsk ext ksk (dnsOf ksk cfg.kskPolicy.ttl (loc ksk.label).raw) = .ok ()

/-- **What must hold of one schema action and one request bundle** — `HealthyAction` for keys of either
    family, without the agreement of the algorithm sets (`AlgsAgree`, stated apart so that the refusal can
    be stated too). -/
structure AnyHealthyAction (ext : Externals) (st : Store) (sg : String → Nat → Nat → Nat → Bytes → Bytes)
    (mods : List P11Module) (cfg : SignerConfig) (loc : String → AnyLoc) (b : Bundle)
    (act : SchemaAction) : Prop where
  names : ∀ name ∈ act.names, ∃ ksk, AnyHealthyName ext st mods cfg loc b name ksk
  labelAlg : ∀ n₁ ∈ act.names, ∀ n₂ ∈ act.names, ∀ k₁ k₂, cfg.kskKeys.lookup n₁ = some k₁ →
    cfg.kskKeys.lookup n₂ = some k₂ → k₁.label = k₂.label → k₁.algorithm = k₂.algorithm
  distinctKeys : ∀ n₁ ∈ act.names, ∀ n₂ ∈ act.names, ∀ k₁ k₂, cfg.kskKeys.lookup n₁ = some k₁ →
    cfg.kskKeys.lookup n₂ = some k₂ → (loc k₁.label).raw = (loc k₂.label).raw → k₁.label = k₂.label
  zsks : b.keys ≠ []
  zskIds : b.keys.Pairwise (fun x y => x.keyIdentifier ≠ y.keyIdentifier)
  zskNotKsk : ∀ z ∈ b.keys, ∀ name ∈ act.names, ∀ k, cfg.kskKeys.lookup name = some k →
    z.keyIdentifier ≠ k.label
  zskRdata : ∀ z ∈ b.keys, ∃ r, keyToRdata z = .ok r ∧ r.length < 65536
  expiration : inRange 32 (tsSeconds b.expiration) = true
  inception : inRange 32 (tsSeconds b.inception) = true
  /-- **the signature scheme is healthy**: what the token answers to `C_Sign` on the private object of a
      signing key, for the data `_format_data_for_signing` hands over (digest + CKM_ECDSA, or the octets +
      CKM_ECDSA_SHA256/384, or the RSA forms), is accepted by the software verifier under the key text
      derived from the token, over the octets that were formatted -/
  signs : ∀ name ∈ act.sign, ∀ k, cfg.kskKeys.lookup name = some k → ∀ raw d,
    formatDataForSigning ext.hash ((loc k.label).p11 k.label k.hashUsingHsm false) raw k.algorithm = .ok d →
    ext.verify k.algorithm (Base64.encode (loc k.label).raw) raw
      (sg (loc k.label).path (loc k.label).slot (loc k.label).privHandle d.mechanism d.data) = .valid

/-- the token key records of a world described by `loc` -/
def anyP11 (loc : String → AnyLoc) (k : KskKey) : Bool → P11Key := (loc k.label).p11 k.label k.hashUsingHsm

theorem anyHealthyName_g {ext : Externals} {st : Store} {mods : List P11Module} {cfg : SignerConfig}
    {loc : String → AnyLoc} {b : Bundle} {name : String} {ksk : KskKey}
    (h : AnyHealthyName ext st mods cfg loc b name ksk) :
    GName ext st mods cfg (fun l => (loc l).raw) (anyP11 loc) b name ksk := by
  refine ⟨h.configured, ?_, h.identity⟩
  have ht := h.onToken
  unfold anyP11
  cases hl : loc ksk.label with
  | rsa L =>
    rw [hl] at ht
    exact keyReady_rsa ext st mods cfg b ksk L h.window ht.1 ht.2
  | ec L =>
    rw [hl] at ht
    exact keyReady_ec ext st mods cfg b ksk L h.window ht.1 ht.2

theorem anyHealthyAction_core {ext : Externals} {st : Store} {sg : String → Nat → Nat → Nat → Bytes → Bytes}
    {mods : List P11Module} {cfg : SignerConfig} {loc : String → AnyLoc} {b : Bundle} {act : SchemaAction}
    (h : AnyHealthyAction ext st sg mods cfg loc b act) :
    GActionCore ext st sg mods cfg (fun l => (loc l).raw) (anyP11 loc) b act where
  names := fun name hn => by
    obtain ⟨ksk, hk⟩ := h.names name hn
    exact ⟨ksk, anyHealthyName_g hk⟩
  labelAlg := h.labelAlg
  distinctKeys := h.distinctKeys
  zsks := h.zsks
  zskIds := h.zskIds
  zskNotKsk := h.zskNotKsk
  zskRdata := h.zskRdata
  expiration := h.expiration
  inception := h.inception
  signs := fun name hn k hk raw d hdl hh hd => by
    obtain ⟨h1, h2, h3⟩ := AnyLoc.p11_private k.label k.hashUsingHsm (loc k.label)
    have hh' : (anyP11 loc k false).privHandle = some hdl := hh
    unfold anyP11 at hh' ⊢
    rw [h1] at hh'
    cases hh'
    rw [h2, h3]
    exact h.signs name hn k hk raw d hd

end Kskm
