/-
  Helper lemmas for C01 "completion" with EC keys (P-256 / P-384): from a store-level description of
  a healthy token holding EC key pairs to a successful run of `get_p11_key` / `load_pkcs11_key`.

  §1  `EcLoc` / `EcForm` / `EcOnToken`: where an EC label lives, how the token presents CKA_EC_POINT
      (wrapped in a DER OCTET STRING or bare — both rules of the `ecUnwrapChecksLength` switch), a
      private object with or without a readable point (the second lookup of `load_pkcs11_key`)
  §2  the lookup finds it; the key text is the base64 of `04 ‖ X ‖ Y` (finding F4: prefix KEPT)
  §3  `public_key_to_dnssec_key` accepts that text for the matching algorithm; `load_pkcs11_key` succeeds
-/
import KskmProofs.Lemmas.SignerComplete
namespace Kskm

/-! ## §1 Where an EC label lives -/

/-- module, slot, the public and the private object, curve OID (CKA_EC_PARAMS), the CKA_EC_POINT
    octets as the token stores them, and the affine coordinates `X ‖ Y` of one EC key pair -/
structure EcLoc where
  m : P11Module
  slot : Nat
  pubO : StoreObj
  privO : StoreObj
  params : Bytes
  point : Bytes
  xy : Bytes
  deriving Repr, Inhabited

def EcLoc.obj (L : EcLoc) (isPublic : Bool) : StoreObj := if isPublic then L.pubO else L.privO

/-- the SEC 1 uncompressed point `04 ‖ X ‖ Y` — the octets the tool PUBLISHES (finding F4; RFC 6605
    wants `X ‖ Y`) -/
def EcLoc.raw (L : EcLoc) : Bytes := 4 :: L.xy

/-- **How the token presents the point** whose coordinates are `xy`, for a curve whose uncompressed
    point has `k` octets:
    * `wrapped`: a DER OCTET STRING `04 k 04 X Y` (SoftHSM2, PKCS#11 v2.40) — unwrapped by either rule;
    * `bare`: `04 X Y` itself — taken as it is when the tree has the repaired rule
      (`ecUnwrapChecksLength = true`), and under the pinned rule unless its first three octets look like a
      wrapper of itself (X starts `3f 04` / `5f 04`: finding F24, C15 `ec_bare_refused_pinned`). -/
inductive EcForm (k : Nat) (point xy : Bytes) : Prop
  | wrapped (h : point = 4 :: UInt8.ofNat k :: 4 :: xy)
  | bare (h : point = 4 :: xy)
      (hrule : KskmGen.ecUnwrapChecksLength = true ∨
        point.take 3 ≠ [4, UInt8.ofNat (point.length - 2), 4])

theorem ecPointOctets_cases {params : Bytes} {k : Nat} (hk : C15.ecPointOctets params = some k) :
    (params = ecOidP256 ∧ k = 65) ∨ (params = ecOidP384 ∧ k = 97) := by
  unfold C15.ecPointOctets at hk
  split at hk
  · left; exact ⟨‹_›, by simpa using hk.symm⟩
  · split at hk
    · right; exact ⟨‹_›, by simpa using hk.symm⟩
    · simp at hk

/-- whatever the form, the EC branch of `_p11_object_to_public_key` derives the base64 of `04 ‖ X ‖ Y` -/
theorem ecForm_derive {params point xy : Bytes} {k : Nat} (hk : C15.ecPointOctets params = some k)
    (hxy : xy.length + 1 = k) (hf : EcForm k point xy) :
    ecDerive point params = .ok (some (Base64.encode (4 :: xy))) ∧
      2 ≤ point.length ∧ point.length < 258 := by
  have hk' : k = 65 ∨ k = 97 := by rcases ecPointOctets_cases hk with h | h <;> omega
  cases hf with
  | wrapped h =>
    subst h
    refine ⟨?_, by simp, by simp; omega⟩
    rw [ecDerive_eq_with]
    exact (C15.ec_wrapped_either_rule _ xy params k hk hxy).1
  | bare h hrule =>
    subst h
    have hl : (4 :: xy).length = k := by simp; omega
    refine ⟨?_, by simp; omega, by simp; omega⟩
    rcases hrule with hr | hr
    · rw [ecDerive_eq_with, hr]
      exact C15.ec_bare_any_octets_repaired _ params k hk hl
    · have hun : ecUnwrap (4 :: xy) = 4 :: xy := ecUnwrapWith_of_not_prefix _ _ hr
      rw [C15.ecDerive_of_length _ params k hk (by rw [hun]; exact hl), hun]

/-- an EC public object with readable point and curve -/
structure EcPubObj (st : Store) (path : String) (slot : Nat) (o : StoreObj) (point params : Bytes) : Prop where
  find : (st path slot).find? (·.handle == o.handle) = some o
  keyType : o.keyType = some ckkEc
  point : o.ecPoint = some point
  params : o.ecParams = some params

/-- an EC private object: either it answers CKA_EC_POINT / CKA_EC_PARAMS like the public object, or
    it has no readable point (absent or empty: SoftHSM2 and most devices) — then `load_pkcs11_key`
    asks for the public object -/
structure EcPrivObj (st : Store) (path : String) (slot : Nat) (o : StoreObj) (point params : Bytes) : Prop where
  find : (st path slot).find? (·.handle == o.handle) = some o
  keyType : o.keyType = some ckkEc
  point : (o.ecPoint = some point ∧ o.ecParams = some params) ∨ o.ecPoint = none ∨ o.ecPoint = some []

/-- **The EC label is on the token, once** (cf. `OnToken`): the first slot (module order, session-slot
    order) holding any public or private object under `label` is slot `L.slot` of module `L.m`; it holds
    exactly one public and exactly one private object under that label, both EC; the public object
    answers the point in one of the two forms for the curve named by its CKA_EC_PARAMS. -/
structure EcOnToken (st : Store) (mods : List P11Module) (label : String) (L : EcLoc) : Prop where
  modules : ∃ pre post, mods = pre ++ L.m :: post ∧
    ∀ m' ∈ pre, ∀ sl ∈ m'.sessions, ∀ isPublic, matching st m' label (classOf isPublic) sl = []
  sessions : ∃ spre spost, L.m.sessions = spre ++ L.slot :: spost ∧
    ∀ sl ∈ spre, ∀ isPublic, matching st L.m label (classOf isPublic) sl = []
  one : ∀ isPublic, matching st L.m label (classOf isPublic) L.slot = [L.obj isPublic]
  pub : EcPubObj st L.m.path L.slot L.pubO L.point L.params
  priv : EcPrivObj st L.m.path L.slot L.privO L.point L.params
  /-- P-256 (65-octet point) or P-384 (97), coordinates of that size, presented wrapped or bare -/
  curve : ∃ k, C15.ecPointOctets L.params = some k ∧ L.xy.length + 1 = k ∧ EcForm k L.point L.xy

theorem EcOnToken.raw_length {st : Store} {mods : List P11Module} {label : String} {L : EcLoc}
    (h : EcOnToken st mods label L) :
    (L.params = ecOidP256 ∧ L.raw.length = 65) ∨ (L.params = ecOidP384 ∧ L.raw.length = 97) := by
  obtain ⟨k, hk, hxy, _⟩ := h.curve
  rcases ecPointOctets_cases hk with ⟨h1, h2⟩ | ⟨h1, h2⟩
  · left; exact ⟨h1, by simp [EcLoc.raw]; omega⟩
  · right; exact ⟨h1, by simp [EcLoc.raw]; omega⟩

/-! ## §2 The lookup -/

/-- the key record `find_key_by_label` builds for that object, with key text `pk` -/
def ecP11Of (label : String) (hh : Option Bool) (L : EcLoc) (isPublic : Bool) (pk : Option String) : P11Key :=
  { label, keyType := .ec, keyClass := classOf isPublic, hashUsingHsm := hh,
    publicKey := pk, module := L.m.path, slot := L.slot,
    privHandle := if classOf isPublic ≠ ckoPublic then some (L.obj isPublic).handle else none,
    pubHandle := if classOf isPublic ≠ ckoSecret then some (L.obj isPublic).handle else none }

/-- the first slot holding the label holds one EC object whose conversion yields `pk` ⇒ the lookup
    returns its record with that key text -/
theorem find_first_ec (st : Store) (ok : String → Nat → Bool) (m : P11Module) (label : String)
    (cls : Nat) (hh : Option Bool) (pre post : List Nat) (s₀ : Nat) (o : StoreObj) (pk : Option String)
    (hpre : ∀ sl ∈ pre, matching st m label cls sl = [])
    (hone : matching st m label cls s₀ = [o])
    (hfind : (st m.path s₀).find? (·.handle == o.handle) = some o) (hkt : o.keyType = some ckkEc)
    (hconv : ∀ s, ∃ s1, p11ObjectToPublicKey m.path s₀ o.handle (storeToken st ok) s = (.ok pk, s1))
    (hcls : cls ≠ ckoSecret) (s : TokState) :
    ∃ s', findInSlots m label cls hh (pre ++ s₀ :: post) (storeToken st ok) s =
        (.ok (some { label, keyType := .ec, keyClass := cls, hashUsingHsm := hh,
                     publicKey := pk, module := m.path, slot := s₀,
                     privHandle := if cls ≠ ckoPublic then some o.handle else none,
                     pubHandle := if cls ≠ ckoSecret then some o.handle else none }), s') := by
  have hkt' : ∀ i, storeToken st ok i (.getAttr m.path s₀ o.handle ["KEY_TYPE"]) = .attrs [.num ckkEc] := by
    intro i; rw [storeToken_getAttr1 st ok i m.path s₀ _ o hfind, o.attr_keyType _ hkt]
  obtain ⟨s1, hrun⟩ := hconv
    ((C15.afterEmpty m label cls pre s).push (findOp m label cls s₀) (.handles [o.handle]))
  refine ⟨s1.push (.getAttr m.path s₀ o.handle ["KEY_TYPE"]) (.attrs [.num ckkEc]), ?_⟩
  rw [C15.find_first st ok m label cls hh pre post s₀ o hpre hone]
  unfold foundKey
  rw [if_pos hcls, bind_run_ok _ _ _ _ _ _ hrun,
    foundKeyTail_run m label cls hh s₀ o.handle pk _ s1 ckkEc .ec (hkt' _) rfl]

/-- the conversion of an object that answers point and curve -/
theorem ec_conv_present (st : Store) (ok : String → Nat → Bool) (path : String) (slot : Nat) (o : StoreObj)
    (point params xy : Bytes) (k : Nat)
    (hfind : (st path slot).find? (·.handle == o.handle) = some o) (hkt : o.keyType = some ckkEc)
    (hp : o.ecPoint = some point) (hpar : o.ecParams = some params)
    (hk : C15.ecPointOctets params = some k) (hxy : xy.length + 1 = k) (hf : EcForm k point xy)
    (s : TokState) :
    ∃ s1, p11ObjectToPublicKey path slot o.handle (storeToken st ok) s =
      (.ok (some (Base64.encode (4 :: xy))), s1) := by
  have ha : C15.EcAnswers (storeToken st ok) path slot o.handle point params :=
    ⟨fun i => by rw [storeToken_getAttr1 st ok i path slot _ o hfind, o.attr_keyType _ hkt],
     fun i => by rw [storeToken_getAttr1 st ok i path slot _ o hfind, o.attr_ecPoint, hp]; rfl,
     fun i => by rw [storeToken_getAttr1 st ok i path slot _ o hfind, o.attr_ecParams, hpar]; rfl⟩
  obtain ⟨hd, hl1, hl2⟩ := ecForm_derive hk hxy hf
  exact ⟨_, by rw [C15.derived_key_ec _ path slot o.handle point params ha ⟨hl1, hl2⟩ s, hd]⟩

/-- the conversion of an object without a readable point: no key text -/
theorem ec_conv_absent (st : Store) (ok : String → Nat → Bool) (path : String) (slot : Nat) (o : StoreObj)
    (hfind : (st path slot).find? (·.handle == o.handle) = some o) (hkt : o.keyType = some ckkEc)
    (hp : o.ecPoint = none ∨ o.ecPoint = some []) (s : TokState) :
    ∃ s1, p11ObjectToPublicKey path slot o.handle (storeToken st ok) s = (.ok none, s1) := by
  refine ⟨_, C15.derived_key_ec_absent (storeToken st ok) path slot o.handle (optBytes o.ecPoint)
    (fun i => by rw [storeToken_getAttr1 st ok i path slot _ o hfind, o.attr_keyType _ hkt])
    (fun i => by rw [storeToken_getAttr1 st ok i path slot _ o hfind, o.attr_ecPoint]) ?_ s⟩
  rcases hp with h | h <;> rw [h]
  · left; rfl
  · right; rfl

/-- the key text the first lookup of the requested class yields: the point's text, or nothing for a
    private object without a readable point -/
def EcLoc.firstText (L : EcLoc) (isPublic : Bool) : Option String :=
  if isPublic then some (Base64.encode L.raw)
  else if L.privO.ecPoint = none ∨ L.privO.ecPoint = some [] then none else some (Base64.encode L.raw)

/-- `get_p11_key` finds the EC label where `EcOnToken` says it is -/
theorem getP11Key_ecOnToken (st : Store) (ok : String → Nat → Bool) (mods : List P11Module)
    (label : String) (hh : Option Bool) (L : EcLoc) (h : EcOnToken st mods label L) (isPublic : Bool)
    (s : TokState) :
    ∃ s', getP11Key label isPublic hh mods (storeToken st ok) s =
      (.ok (some (ecP11Of label hh L isPublic (L.firstText isPublic))), s') := by
  obtain ⟨pre, post, hm, hpre⟩ := h.modules
  obtain ⟨spre, spost, hs, hspre⟩ := h.sessions
  obtain ⟨k, hk, hxy, hf⟩ := h.curve
  obtain ⟨s₁, h1, _⟩ := C15.getP11Key_skip_modules st ok label isPublic hh pre (L.m :: post)
    (fun m' hm' sl hsl => hpre m' hm' sl hsl isPublic) s
  have hfind : (st L.m.path L.slot).find? (·.handle == (L.obj isPublic).handle) = some (L.obj isPublic) := by
    cases isPublic
    · exact h.priv.find
    · exact h.pub.find
  have hkt : (L.obj isPublic).keyType = some ckkEc := by
    cases isPublic
    · exact h.priv.keyType
    · exact h.pub.keyType
  have hconv : ∀ s, ∃ s1, p11ObjectToPublicKey L.m.path L.slot (L.obj isPublic).handle (storeToken st ok) s =
      (.ok (L.firstText isPublic), s1) := by
    intro s
    cases isPublic
    · by_cases habs : L.privO.ecPoint = none ∨ L.privO.ecPoint = some []
      · simp only [EcLoc.firstText, Bool.false_eq_true, ↓reduceIte, habs, EcLoc.obj]
        exact ec_conv_absent st ok _ _ _ h.priv.find h.priv.keyType habs s
      · simp only [EcLoc.firstText, Bool.false_eq_true, ↓reduceIte, habs, EcLoc.obj]
        rcases h.priv.point with ⟨hp, hpar⟩ | hp
        · exact ec_conv_present st ok _ _ _ _ _ _ k h.priv.find h.priv.keyType hp hpar hk hxy hf s
        · exact absurd hp habs
    · simp only [EcLoc.firstText, ↓reduceIte, EcLoc.obj]
      exact ec_conv_present st ok _ _ _ _ _ _ k h.pub.find h.pub.keyType h.pub.point h.pub.params hk hxy hf s
  obtain ⟨s', h2⟩ := find_first_ec st ok L.m label (classOf isPublic) hh spre spost L.slot
    (L.obj isPublic) (L.firstText isPublic) (fun sl hsl => hspre sl hsl isPublic) (h.one isPublic)
    hfind hkt hconv (classOf_ne_secret isPublic) s₁
  rw [← hs] at h2
  exact ⟨s', by rw [hm, h1, getP11Key_cons_hit _ _ _ _ _ _ _ _ _ h2]; rfl⟩

/-! ## §3 `public_key_to_dnssec_key` and `load_pkcs11_key` -/

/-- the configured algorithm is the ECDSA algorithm of the curve the token names:
    13 ↔ P-256, 14 ↔ P-384 (RFC 6605) -/
def EcConfigured (ksk : KskKey) (L : EcLoc) : Prop :=
  (ksk.algorithm = 13 ∧ L.params = ecOidP256) ∨ (ksk.algorithm = 14 ∧ L.params = ecOidP384)

theorem EcConfigured.ecdsa {ksk : KskKey} {L : EcLoc} (h : EcConfigured ksk L) :
    isAlgorithmEcdsa ksk.algorithm = true := by
  rcases h with ⟨h, _⟩ | ⟨h, _⟩ <;> rw [h] <;> decide

theorem EcConfigured.alg_lt {ksk : KskKey} {L : EcLoc} (h : EcConfigured ksk L) : ksk.algorithm < 256 := by
  rcases h with ⟨h, _⟩ | ⟨h, _⟩ <;> omega

theorem EcConfigured.not_rsa {ksk : KskKey} {L : EcLoc} (h : EcConfigured ksk L) :
    isAlgorithmRsa ksk.algorithm = false := by
  rcases h with ⟨h, _⟩ | ⟨h, _⟩ <;> rw [h] <;> decide

/-- algorithm and coordinate size fit: 13 with 64 octets, 14 with 96 -/
theorem EcConfigured.size {st : Store} {mods : List P11Module} {label : String} {ksk : KskKey} {L : EcLoc}
    (h : EcConfigured ksk L) (ht : EcOnToken st mods label L) :
    (ksk.algorithm = 13 ∧ L.xy.length = 64) ∨ (ksk.algorithm = 14 ∧ L.xy.length = 96) := by
  have hne : ecOidP256 ≠ ecOidP384 := by decide
  rcases h with ⟨ha, hp⟩ | ⟨ha, hp⟩ <;> rcases ht.raw_length with ⟨hq, hl⟩ | ⟨hq, hl⟩ <;>
    simp only [EcLoc.raw, List.length_cons] at hl
  · left; exact ⟨ha, by omega⟩
  · exact absurd (hp.symm.trans hq) hne
  · exact absurd (hq.symm.trans hp) hne
  · right; exact ⟨ha, by omega⟩

/-- the pydantic validators of `Key` accept the PREFIXED point for the matching algorithm
    (`ecdsa_public_key_without_prefix` strips the `04` for the size check only) -/
theorem key_validate_ec (label : String) (ttl : Int) (xy : Bytes) (alg : Nat) (flags : Int)
    (hfl : flags = 257 ∨ flags = 385 ∨ flags = 256)
    (h : (alg = 13 ∧ xy.length = 64) ∨ (alg = 14 ∧ xy.length = 96)) :
    Key.validate ⟨label, 0, ttl, flags, 3, alg, Base64.encode (4 :: xy)⟩ = .ok () := by
  rcases h with ⟨rfl, hl⟩ | ⟨rfl, hl⟩ <;>
    simp [Key.validate, isAlgorithmEcdsa, algECDSAP256, algECDSAP384, Base64.decode_encode,
      ecdsaWithoutPrefix, expectedEcdsaKeySize, getEcdsaPubkeySize, hl, bind, Except.bind, pure,
      Except.pure, hfl]

/-- `public_key_to_dnssec_key` succeeds on the text of the prefixed point: the published DNSKEY
    carries `04 ‖ X ‖ Y` -/
theorem publicKeyToDnssecKey_ec (ksk : KskKey) (ttl : Int) (xy : Bytes)
    (h : (ksk.algorithm = 13 ∧ xy.length = 64) ∨ (ksk.algorithm = 14 ∧ xy.length = 96)) :
    publicKeyToDnssecKey (Base64.encode (4 :: xy)) ksk.label ksk.algorithm ttl 257 =
      .ok (dnsOf ksk ttl (4 :: xy)) := by
  have ha : ksk.algorithm < 256 := by rcases h with ⟨h, _⟩ | ⟨h, _⟩ <;> omega
  have hrd : keyToRdata ⟨ksk.label, 0, ttl, 257, 3, ksk.algorithm, Base64.encode (4 :: xy)⟩ =
      .ok (rdataOf 257 3 ksk.algorithm (4 :: xy)) := keyToRdata_dnsOf ksk ttl (4 :: xy) 257 0 (by omega) ha
  have hv := key_validate_ec ksk.label ttl xy ksk.algorithm 257 (Or.inl rfl) h
  simp only [publicKeyToDnssecKey, hv, calculateKeyTag, hrd, bind, Except.bind, pure, Except.pure]
  rfl

theorem encode_cons_ne_empty (a : UInt8) (r : Bytes) : Base64.encode (a :: r) ≠ "" := by
  intro he
  have := Base64.decode_encode (a :: r)
  rw [he] at this
  have h0 : Base64.decode "" = some [] := by decide
  rw [h0] at this
  cases this

/-- the key record after the optional second lookup: the public object's key text -/
def ecP11 (label : String) (hh : Option Bool) (L : EcLoc) (isPublic : Bool) : P11Key :=
  ecP11Of label hh L isPublic (some (Base64.encode L.raw))

/-- "Query again for the public key": a private object without a readable point gets the key text of
    the public object; otherwise nothing is asked -/
theorem refetchPublic_ec (st : Store) (ok : String → Nat → Bool) (mods : List P11Module) (ksk : KskKey)
    (L : EcLoc) (h : EcOnToken st mods ksk.label L) (isPublic : Bool) (s1 : TokState) :
    ∃ s', refetchPublic mods ksk isPublic
        (ecP11Of ksk.label ksk.hashUsingHsm L isPublic (L.firstText isPublic)) (storeToken st ok) s1 =
      (.ok (ecP11 ksk.label ksk.hashUsingHsm L isPublic), s') := by
  by_cases hcase : isPublic = false ∧ (L.privO.ecPoint = none ∨ L.privO.ecPoint = some [])
  · obtain ⟨rfl, habs⟩ := hcase
    obtain ⟨s2, hg2⟩ := getP11Key_ecOnToken st ok mods ksk.label ksk.hashUsingHsm L h true s1
    refine ⟨s2, ?_⟩
    have hft : L.firstText false = none := by simp [EcLoc.firstText, habs]
    unfold refetchPublic
    rw [hft]
    simp only [ecP11Of, Option.isNone_none, Bool.not_false, Bool.and_self, ↓reduceIte]
    rw [bind_run_ok _ _ _ _ _ _ hg2]
    rfl
  · refine ⟨s1, ?_⟩
    have hft : L.firstText isPublic = some (Base64.encode L.raw) := by
      cases isPublic
      · have : ¬ (L.privO.ecPoint = none ∨ L.privO.ecPoint = some []) := fun hc => hcase ⟨rfl, hc⟩
        simp [EcLoc.firstText, this]
      · simp [EcLoc.firstText]
    unfold refetchPublic
    rw [hft]
    simp only [ecP11Of, Option.isNone_some, Bool.false_and, Bool.false_eq_true, ↓reduceIte]
    rfl

/-- the composite key `load_pkcs11_key` returns for an EC key -/
def ecCkOf (ksk : KskKey) (ttl : Int) (L : EcLoc) (isPublic : Bool) : CompositeKey :=
  { p11 := ecP11 ksk.label ksk.hashUsingHsm L isPublic, dns := dnsOf ksk ttl L.raw }

/-- **`load_pkcs11_key` succeeds** on the store-backed token for an EC key that is on the token with the
    configured algorithm's curve, inside its window — public and private lookup, private object with or
    without a readable point, from any state — and returns `ecCkOf`: the DNSKEY of `04 ‖ X ‖ Y`. -/
theorem loadPkcs11Key_ecOnToken (st : Store) (ok : String → Nat → Bool) (mods : List P11Module)
    (ksk : KskKey) (pol : KskPolicy) (b : Bundle) (L : EcLoc) (hw : C04.InWindow ksk b)
    (h : EcOnToken st mods ksk.label L) (hc : EcConfigured ksk L) (isPublic : Bool) (s : TokState) :
    ∃ s', loadPkcs11Key mods ksk pol b isPublic (storeToken st ok) s =
      (.ok (some (ecCkOf ksk pol.ttl L isPublic)), s') := by
  obtain ⟨s1, hg⟩ := getP11Key_ecOnToken st ok mods ksk.label ksk.hashUsingHsm L h isPublic s
  obtain ⟨s2, hr⟩ := refetchPublic_ec st ok mods ksk L h isPublic s1
  exact ⟨s2, (C04.loaded_iff mods ksk pol b isPublic _ s s2 _).mpr
    ⟨hw, _, s1, _, hg, hr, Base64.encode L.raw, rfl, encode_cons_ne_empty _ _, rfl,
      publicKeyToDnssecKey_ec ksk pol.ttl L.xy (hc.size h), Or.inr ⟨rfl, Or.inl hc.ecdsa⟩⟩⟩

end Kskm
