/-
  Lemmas for the civil calendar conversions and the timestamp codec.

  The two facts about the 400-year era that linear arithmetic alone does not settle (recovering the
  year of the era from the day of the era, and back) are established by complete tabulation over the
  146 097 days of an era, checked by the kernel (`decide +kernel` on a balanced recursion of depth 18).
-/
import KskmProofs.Lemmas.C11Digits
namespace Kskm

/-! ### complete tabulation over an initial segment of `Nat` -/

/-- `p` holds on `lo … lo + 2^k - 1` (balanced recursion: depth `k`) -/
def allBelow (p : Nat → Bool) : Nat → Nat → Bool
  | 0, lo => p lo
  | k + 1, lo => allBelow p k lo && allBelow p k (lo + 2 ^ k)

theorem allBelow_spec (p : Nat → Bool) (k lo : Nat) (h : allBelow p k lo = true) :
    ∀ n, lo ≤ n → n < lo + 2 ^ k → p n = true := by
  induction k generalizing lo with
  | zero =>
    intro n h1 h2
    have : n = lo := by simp at h2; omega
    subst this; exact h
  | succ k ih =>
    intro n h1 h2
    simp only [allBelow, Bool.and_eq_true] at h
    by_cases hn : n < lo + 2 ^ k
    · exact ih lo h.1 n h1 hn
    · exact ih (lo + 2 ^ k) h.2 n (by omega) (by rw [Nat.pow_succ] at h2; omega)

/-! ### the era tables (in `Nat`) -/

/-- year of the era from the day of the era -/
def yoeOf (doe : Nat) : Nat := (doe - doe / 1460 + doe / 36524 - doe / 146096) / 365
/-- first day of the era of the (March-based) year `yoe` -/
def yearStart (yoe : Nat) : Nat := 365 * yoe + yoe / 4 - yoe / 100
/-- the March-based year `yoe` of an era contains a 29 February -/
def leapEra (yoe : Nat) : Bool :=
  Nat.beq ((yoe + 1) % 4) 0 && (!(Nat.beq ((yoe + 1) % 100) 0) || Nat.beq (yoe + 1) 400)

theorem leapEra_iff (yoe : Nat) :
    leapEra yoe = true ↔ (yoe + 1) % 4 = 0 ∧ ((yoe + 1) % 100 ≠ 0 ∨ yoe + 1 = 400) := by
  have hb : ∀ a b : Nat, (Nat.beq a b = false) ↔ a ≠ b := fun a b => by
    cases h : Nat.beq a b
    · simp [Nat.ne_of_beq_eq_false h]
    · simp [Nat.eq_of_beq_eq_true h]
  simp only [leapEra, Bool.and_eq_true, Bool.or_eq_true, Nat.beq_eq, Bool.not_eq_true', hb]

def t1Check (doe y : Nat) : Bool :=
  Nat.ble y 399 && Nat.ble (yearStart y) doe &&
    Nat.ble (doe - yearStart y) (364 + (bif leapEra y then 1 else 0))

def t1Leaf (doe : Nat) : Bool := Nat.ble 146097 doe || t1Check doe (yoeOf doe)

theorem t1_table : allBelow t1Leaf 18 0 = true := by decide +kernel

theorem t1 (doe : Nat) (h : doe < 146097) :
    yoeOf doe ≤ 399 ∧ yearStart (yoeOf doe) ≤ doe ∧
      doe - yearStart (yoeOf doe) ≤ 364 + (if leapEra (yoeOf doe) = true then 1 else 0) := by
  have := allBelow_spec t1Leaf 18 0 t1_table doe (Nat.zero_le _) (by omega)
  simp only [t1Leaf, t1Check, Bool.or_eq_true, Bool.and_eq_true, Nat.ble_eq] at this
  rcases this with h' | ⟨⟨a, b⟩, c⟩
  · omega
  · refine ⟨a, b, ?_⟩
    cases hl : leapEra (yoeOf doe) <;> simp [hl] at c ⊢ <;> exact c

def t2Check (yoe doy : Nat) : Bool :=
  Nat.ble 400 yoe || (Nat.beq doy 365 && !leapEra yoe) ||
    (Nat.beq (yoeOf (yearStart yoe + doy)) yoe && Nat.blt (yearStart yoe + doy) 146097)

/-- (year of era, day of year) packed as `yoe * 366 + doy` -/
def t2Leaf (n : Nat) : Bool := t2Check (n / 366) (n % 366)

theorem t2_table : allBelow t2Leaf 18 0 = true := by decide +kernel

theorem t2 (yoe doy : Nat) (hy : yoe ≤ 399) (hd : doy ≤ 365) (hl : doy = 365 → leapEra yoe = true) :
    yoeOf (yearStart yoe + doy) = yoe ∧ yearStart yoe + doy < 146097 := by
  have := allBelow_spec t2Leaf 18 0 t2_table (yoe * 366 + doy) (Nat.zero_le _) (by omega)
  have e1 : (yoe * 366 + doy) / 366 = yoe := by omega
  have e2 : (yoe * 366 + doy) % 366 = doy := by omega
  simp only [t2Leaf, t2Check, e1, e2, Bool.or_eq_true, Bool.and_eq_true, Nat.ble_eq, Nat.beq_eq,
    Nat.blt_eq, Bool.not_eq_true'] at this
  rcases this with (h' | ⟨h1, h2⟩) | ⟨a, b⟩
  · omega
  · rw [hl h1] at h2; exact absurd h2 (by simp)
  · exact ⟨a, b⟩

/-- days of the March-based month `mp` (February, `mp = 11`, listed with 29) -/
def dimMarch (mp : Nat) : Nat :=
  if mp = 11 then 29 else if mp = 1 ∨ mp = 3 ∨ mp = 6 ∨ mp = 8 then 30 else 31

/-- month and day from the day of the (March-based) year -/
theorem t3 : ∀ doy : Fin 366,
    let mp := (5 * doy.val + 2) / 153
    mp ≤ 11 ∧ (153 * mp + 2) / 5 ≤ doy.val ∧ doy.val - (153 * mp + 2) / 5 + 1 ≤ dimMarch mp ∧
      (mp = 11 → doy.val - (153 * mp + 2) / 5 + 1 = 29 → doy.val = 365) := by decide +kernel

/-- and back -/
theorem t4 : ∀ mp : Fin 12, ∀ d : Fin 32, 1 ≤ d.val → d.val ≤ dimMarch mp.val →
    (5 * ((153 * mp.val + 2) / 5 + d.val - 1) + 2) / 153 = mp.val ∧
      (153 * mp.val + 2) / 5 + d.val - 1 ≤ 365 ∧
      ((153 * mp.val + 2) / 5 + d.val - 1 = 365 → mp.val = 11 ∧ d.val = 29) := by decide +kernel


/-! ### civil ↔ day number -/

theorem yoe_bridge (n : Nat) :
    ((n : Int) - (n : Int) / 1460 + (n : Int) / 36524 - (n : Int) / 146096) / 365 = ((yoeOf n : Nat) : Int) := by
  unfold yoeOf; omega

theorem yearStart_bridge (y : Nat) :
    365 * (y : Int) + (y : Int) / 4 - (y : Int) / 100 = ((yearStart y : Nat) : Int) := by
  unfold yearStart; omega

/-- day number → civil date → day number -/
theorem daysOfCivil_civilOfDays (z : Int) : daysOfCivil (civilOfDays z) = z := by
  have hdoe0 : 0 ≤ (z + 719468) % 146097 := Int.emod_nonneg _ (by decide)
  have hdoe1 : (z + 719468) % 146097 < 146097 := Int.emod_lt_of_pos _ (by decide)
  obtain ⟨n, hn⟩ := Int.eq_ofNat_of_zero_le hdoe0
  have hn' : n < 146097 := by omega
  obtain ⟨a, b, c⟩ := t1 n hn'
  have hdoy : n - yearStart (yoeOf n) < 366 := by
    split at c <;> omega
  have t3' := t3 ⟨n - yearStart (yoeOf n), hdoy⟩
  simp only at t3'
  obtain ⟨m1, m2, m3, _⟩ := t3'
  have hz : z + 719468 = (z + 719468) / 146097 * 146097 + (n : Int) := by omega
  simp only [civilOfDays, daysOfCivil, hn, yoe_bridge, yearStart_bridge]
  have hys' := yearStart_bridge (yoeOf n)
  generalize yoeOf n = y at *
  generalize yearStart y = ys at *
  have hdoyI : (n : Int) - (ys : Int) = ((n - ys : Nat) : Int) := by omega
  simp only [hdoyI]
  generalize n - ys = doy at *
  have hmpI : (5 * (doy : Int) + 2) / 153 = (((5 * doy + 2) / 153 : Nat) : Int) := by omega
  simp only [hmpI]
  generalize (5 * doy + 2) / 153 = mp at *
  have hdI : (doy : Int) - (153 * (mp : Int) + 2) / 5 + 1 = ((doy - (153 * mp + 2) / 5 + 1 : Nat) : Int) := by omega
  simp only [hdI, Int.toNat_natCast]
  have hdef : doy - (153 * mp + 2) / 5 + 1 = doy + 1 - (153 * mp + 2) / 5 := by omega
  generalize hd : doy - (153 * mp + 2) / 5 + 1 = d at *
  by_cases hmp : mp < 10
  · have h1 : (mp : Int) < 10 := by omega
    have h2 : ¬ ((mp : Int) + 3 ≤ 2) := by omega
    have h4 : ((mp : Int) + 3).toNat = mp + 3 := by omega
    have h3 : ¬ (mp + 3 ≤ 2) := by omega
    simp only [h1, h2, h4, h3, ↓reduceIte]
    push_cast
    have k1 : ((y : Int) + (z + 719468) / 146097 * 400) / 400 = (z + 719468) / 146097 := by omega
    have k2 : ((y : Int) + (z + 719468) / 146097 * 400) % 400 = y := by omega
    simp only [k1, k2]
    omega
  · have h1 : ¬ (mp : Int) < 10 := by omega
    have h2 : (mp : Int) - 9 ≤ 2 := by omega
    have h4 : ((mp : Int) - 9).toNat = mp - 9 := by omega
    have h3 : mp - 9 ≤ 2 := by omega
    simp only [h1, h2, h4, h3, ↓reduceIte]
    have h5 : ((mp - 9 : Nat) : Int) = (mp : Int) - 9 := by omega
    simp only [h5, Int.add_sub_cancel]
    have k1 : ((y : Int) + (z + 719468) / 146097 * 400) / 400 = (z + 719468) / 146097 := by omega
    have k2 : ((y : Int) + (z + 719468) / 146097 * 400) % 400 = y := by omega
    simp only [k1, k2]
    omega

theorem isLeap_iff (y : Int) : isLeap y = true ↔ (y % 4 = 0 ∧ y % 100 ≠ 0) ∨ y % 400 = 0 := by
  simp [isLeap]

/-- the civil date of every day number is a real calendar date -/
theorem civilOfDays_valid (z : Int) : (civilOfDays z).valid = true := by
  have hdoe0 : 0 ≤ (z + 719468) % 146097 := Int.emod_nonneg _ (by decide)
  have hdoe1 : (z + 719468) % 146097 < 146097 := Int.emod_lt_of_pos _ (by decide)
  obtain ⟨n, hn⟩ := Int.eq_ofNat_of_zero_le hdoe0
  have hn' : n < 146097 := by omega
  obtain ⟨a, b, c⟩ := t1 n hn'
  have hdoy : n - yearStart (yoeOf n) < 366 := by
    split at c <;> omega
  have t3' := t3 ⟨n - yearStart (yoeOf n), hdoy⟩
  simp only at t3'
  obtain ⟨m1, m2, m3, m4⟩ := t3'
  have hleap := leapEra_iff (yoeOf n)
  simp only [Civil.valid, civilOfDays, hn, yoe_bridge, yearStart_bridge, Bool.and_eq_true, decide_eq_true_eq]
  have hys' := yearStart_bridge (yoeOf n)
  generalize yoeOf n = y at *
  generalize yearStart y = ys at *
  have hdoyI : (n : Int) - (ys : Int) = ((n - ys : Nat) : Int) := by omega
  simp only [hdoyI]
  generalize n - ys = doy at *
  have hmpI : (5 * (doy : Int) + 2) / 153 = (((5 * doy + 2) / 153 : Nat) : Int) := by omega
  simp only [hmpI]
  generalize (5 * doy + 2) / 153 = mp at *
  have hdI : (doy : Int) - (153 * (mp : Int) + 2) / 5 + 1 = ((doy - (153 * mp + 2) / 5 + 1 : Nat) : Int) := by omega
  simp only [hdI, Int.toNat_natCast]
  generalize doy - (153 * mp + 2) / 5 + 1 = d at *
  have hm : (if (mp : Int) < 10 then (mp : Int) + 3 else (mp : Int) - 9).toNat = if mp < 10 then mp + 3 else mp - 9 := by
    split <;> split <;> omega
  simp only [hm]
  refine ⟨⟨⟨?_, ?_⟩, ?_⟩, ?_⟩
  · split <;> omega
  · split <;> omega
  · omega
  · -- the day is within the month
    unfold daysInMonth
    unfold dimMarch at m3
    have hcases : mp = 0 ∨ mp = 1 ∨ mp = 2 ∨ mp = 3 ∨ mp = 4 ∨ mp = 5 ∨ mp = 6 ∨ mp = 7 ∨ mp = 8 ∨ mp = 9 ∨
        mp = 10 ∨ mp = 11 := by omega
    rcases hcases with rfl | rfl | rfl | rfl | rfl | rfl | rfl | rfl | rfl | rfl | rfl | rfl
    all_goals simp at m3 ⊢
    all_goals try omega
    -- February
    split
    · exact m3
    · rename_i hnl
      rw [Bool.not_eq_true, ← Bool.not_eq_true, isLeap_iff] at hnl
      by_cases hd29 : d = 29
      · have h365 := m4 rfl hd29
        have hle : leapEra y = true := by
          cases hl : leapEra y
          · simp [hl] at c; omega
          · rfl
        have := hleap.mp hle
        exfalso; apply hnl; omega
      · omega

/-- civil date → day number → civil date, on real calendar dates -/
theorem civilOfDays_daysOfCivil (c : Civil) (hv : c.valid = true) : civilOfDays (daysOfCivil c) = c := by
  obtain ⟨year, month, day⟩ := c
  simp only [Civil.valid, Bool.and_eq_true, decide_eq_true_eq] at hv
  obtain ⟨⟨⟨hm1, hm12⟩, hd1⟩, hdim⟩ := hv
  -- March-based year, era, year of era
  generalize hy' : (if month ≤ 2 then year - 1 else year) = y' at *
  have hY0 : 0 ≤ y' % 400 := Int.emod_nonneg _ (by decide)
  obtain ⟨Y, hY⟩ := Int.eq_ofNat_of_zero_le hY0
  have hY399 : Y ≤ 399 := by omega
  -- March-based month
  generalize hMP : (if month ≤ 2 then month + 9 else month - 3) = MP at *
  have hMP11 : MP < 12 := by rw [← hMP]; split <;> omega
  have hday32 : day < 32 := by
    have : daysInMonth year month ≤ 31 := by
      unfold daysInMonth
      repeat' split
      all_goals omega
    omega
  have hdimM : day ≤ dimMarch MP := by
    unfold daysInMonth at hdim
    unfold dimMarch
    have hcases : month = 1 ∨ month = 2 ∨ month = 3 ∨ month = 4 ∨ month = 5 ∨ month = 6 ∨ month = 7 ∨
        month = 8 ∨ month = 9 ∨ month = 10 ∨ month = 11 ∨ month = 12 := by omega
    rcases hcases with rfl | rfl | rfl | rfl | rfl | rfl | rfl | rfl | rfl | rfl | rfl | rfl
    all_goals simp at hMP hdim; subst hMP; simp
    all_goals first | omega | (split at hdim <;> omega)
  obtain ⟨q1, q2, q3⟩ := t4 ⟨MP, hMP11⟩ ⟨day, hday32⟩ hd1 hdimM
  simp only at q1 q2 q3
  have hleap : (153 * MP + 2) / 5 + day - 1 = 365 → leapEra Y = true := by
    intro h365
    obtain ⟨e1, e2⟩ := q3 h365
    rw [leapEra_iff]
    have hmonth : month = 2 := by rw [← hMP] at e1; split at e1 <;> omega
    subst hmonth; subst e2
    have : isLeap year = true := by
      unfold daysInMonth at hdim
      simp only [↓reduceIte] at hdim
      split at hdim
      · assumption
      · omega
    rw [isLeap_iff] at this
    simp only [Nat.le_refl, ↓reduceIte] at hy'
    omega
  obtain ⟨u1, u2⟩ := t2 Y ((153 * MP + 2) / 5 + day - 1) hY399 q2 hleap
  -- compute
  have hmpI : (if month ≤ 2 then (month : Int) + 9 else (month : Int) - 3) = (MP : Int) := by
    rw [← hMP]; split <;> omega
  simp only [daysOfCivil, civilOfDays, hy', hmpI, hY]
  have hdoyI : (153 * (MP : Int) + 2) / 5 + (day : Int) - 1 = (((153 * MP + 2) / 5 + day - 1 : Nat) : Int) := by omega
  simp only [hdoyI]
  generalize (153 * MP + 2) / 5 + day - 1 = doy at *
  have hdoe : (Y : Int) * 365 + (Y : Int) / 4 - (Y : Int) / 100 + (doy : Int) = ((yearStart Y + doy : Nat) : Int) := by
    have := yearStart_bridge Y; omega
  simp only [hdoe]
  have hz1 : y' / 400 * 146097 + ((yearStart Y + doy : Nat) : Int) - 719468 + 719468
      = y' / 400 * 146097 + ((yearStart Y + doy : Nat) : Int) := by omega
  have hz2 : (y' / 400 * 146097 + ((yearStart Y + doy : Nat) : Int)) / 146097 = y' / 400 := by omega
  have hz3 : (y' / 400 * 146097 + ((yearStart Y + doy : Nat) : Int)) % 146097 = ((yearStart Y + doy : Nat) : Int) := by omega
  simp only [hz1, hz2, hz3, yoe_bridge, u1, yearStart_bridge]
  have hdoy2 : ((yearStart Y + doy : Nat) : Int) - ((yearStart Y : Nat) : Int) = (doy : Int) := by omega
  simp only [hdoy2]
  have hmp2 : (5 * (doy : Int) + 2) / 153 = (MP : Int) := by omega
  simp only [hmp2]
  have hyy : (Y : Int) + y' / 400 * 400 = y' := by omega
  simp only [hyy]
  have hdd : ((doy : Int) - (153 * (MP : Int) + 2) / 5 + 1).toNat = day := by omega
  have hmm : (if (MP : Int) < 10 then (MP : Int) + 3 else (MP : Int) - 9).toNat = month := by
    rw [← hMP]; split <;> split <;> omega
  have hyr : (if (if (MP : Int) < 10 then (MP : Int) + 3 else (MP : Int) - 9) ≤ 2 then y' + 1 else y') = year := by
    rw [← hMP, ← hy']; split <;> split <;> split <;> omega
  simp only [hdd, hmm, hyr]
end Kskm
