/-
  Lemmas for the civil calendar conversions and the timestamp codec.

  The two facts about the 400-year era that linear arithmetic alone does not settle (recovering the
  year of the era from the day of the era, and back) are established by complete tabulation over the
  146 097 days of an era, checked by the kernel (`decide +kernel` on a balanced recursion of depth 18).
-/
import KskmProofs.Lemmas.C11Digits
namespace Kskm

/-! ### complete tabulation over an initial segment of `Nat` -/

/-- `p` holds on `lo … lo + 2^k - 1` (balanced recursion: depth `k`) -/
def allBelow (p : Nat → Bool) : Nat → Nat → Bool
  | 0, lo => p lo
  | k + 1, lo => allBelow p k lo && allBelow p k (lo + 2 ^ k)

theorem allBelow_spec (p : Nat → Bool) (k lo : Nat) (h : allBelow p k lo = true) :
    ∀ n, lo ≤ n → n < lo + 2 ^ k → p n = true := by
  induction k generalizing lo with
  | zero =>
    intro n h1 h2
    have : n = lo := by simp at h2; omega
    subst this; exact h
  | succ k ih =>
    intro n h1 h2
    simp only [allBelow, Bool.and_eq_true] at h
    by_cases hn : n < lo + 2 ^ k
    · exact ih lo h.1 n h1 hn
    · exact ih (lo + 2 ^ k) h.2 n (by omega) (by rw [Nat.pow_succ] at h2; omega)

/-! ### the era tables (in `Nat`) -/

/-- year of the era from the day of the era -/
def yoeOf (doe : Nat) : Nat := (doe - doe / 1460 + doe / 36524 - doe / 146096) / 365
/-- first day of the era of the (March-based) year `yoe` -/
def yearStart (yoe : Nat) : Nat := 365 * yoe + yoe / 4 - yoe / 100
/-- the March-based year `yoe` of an era contains a 29 February -/
def leapEra (yoe : Nat) : Bool :=
  Nat.beq ((yoe + 1) % 4) 0 && (!(Nat.beq ((yoe + 1) % 100) 0) || Nat.beq (yoe + 1) 400)

theorem leapEra_iff (yoe : Nat) :
    leapEra yoe = true ↔ (yoe + 1) % 4 = 0 ∧ ((yoe + 1) % 100 ≠ 0 ∨ yoe + 1 = 400) := by
  have hb : ∀ a b : Nat, (Nat.beq a b = false) ↔ a ≠ b := fun a b => by
    cases h : Nat.beq a b
    · simp [Nat.ne_of_beq_eq_false h]
    · simp [Nat.eq_of_beq_eq_true h]
  simp only [leapEra, Bool.and_eq_true, Bool.or_eq_true, Nat.beq_eq, Bool.not_eq_true', hb]

def t1Check (doe y : Nat) : Bool :=
  Nat.ble y 399 && Nat.ble (yearStart y) doe &&
    Nat.ble (doe - yearStart y) (364 + (bif leapEra y then 1 else 0))

def t1Leaf (doe : Nat) : Bool := Nat.ble 146097 doe || t1Check doe (yoeOf doe)

theorem t1_table : allBelow t1Leaf 18 0 = true := by decide +kernel

theorem t1 (doe : Nat) (h : doe < 146097) :
    yoeOf doe ≤ 399 ∧ yearStart (yoeOf doe) ≤ doe ∧
      doe - yearStart (yoeOf doe) ≤ 364 + (if leapEra (yoeOf doe) = true then 1 else 0) := by
  have := allBelow_spec t1Leaf 18 0 t1_table doe (Nat.zero_le _) (by omega)
  simp only [t1Leaf, t1Check, Bool.or_eq_true, Bool.and_eq_true, Nat.ble_eq] at this
  rcases this with h' | ⟨⟨a, b⟩, c⟩
  · omega
  · refine ⟨a, b, ?_⟩
    cases hl : leapEra (yoeOf doe) <;> simp [hl] at c ⊢ <;> exact c

def t2Check (yoe doy : Nat) : Bool :=
  Nat.ble 400 yoe || (Nat.beq doy 365 && !leapEra yoe) ||
    (Nat.beq (yoeOf (yearStart yoe + doy)) yoe && Nat.blt (yearStart yoe + doy) 146097)

/-- (year of era, day of year) packed as `yoe * 366 + doy` -/
def t2Leaf (n : Nat) : Bool := t2Check (n / 366) (n % 366)

theorem t2_table : allBelow t2Leaf 18 0 = true := by decide +kernel

theorem t2 (yoe doy : Nat) (hy : yoe ≤ 399) (hd : doy ≤ 365) (hl : doy = 365 → leapEra yoe = true) :
    yoeOf (yearStart yoe + doy) = yoe ∧ yearStart yoe + doy < 146097 := by
  have := allBelow_spec t2Leaf 18 0 t2_table (yoe * 366 + doy) (Nat.zero_le _) (by omega)
  have e1 : (yoe * 366 + doy) / 366 = yoe := by omega
  have e2 : (yoe * 366 + doy) % 366 = doy := by omega
  simp only [t2Leaf, t2Check, e1, e2, Bool.or_eq_true, Bool.and_eq_true, Nat.ble_eq, Nat.beq_eq,
    Nat.blt_eq, Bool.not_eq_true'] at this
  rcases this with (h' | ⟨h1, h2⟩) | ⟨a, b⟩
  · omega
  · rw [hl h1] at h2; exact absurd h2 (by simp)
  · exact ⟨a, b⟩

/-- days of the March-based month `mp` (February, `mp = 11`, listed with 29) -/
def dimMarch (mp : Nat) : Nat :=
  if mp = 11 then 29 else if mp = 1 ∨ mp = 3 ∨ mp = 6 ∨ mp = 8 then 30 else 31

/-- month and day from the day of the (March-based) year -/
theorem t3 : ∀ doy : Fin 366,
    let mp := (5 * doy.val + 2) / 153
    mp ≤ 11 ∧ (153 * mp + 2) / 5 ≤ doy.val ∧ doy.val - (153 * mp + 2) / 5 + 1 ≤ dimMarch mp ∧
      (mp = 11 → doy.val - (153 * mp + 2) / 5 + 1 = 29 → doy.val = 365) := by decide +kernel

/-- and back -/
theorem t4 : ∀ mp : Fin 12, ∀ d : Fin 32, 1 ≤ d.val → d.val ≤ dimMarch mp.val →
    (5 * ((153 * mp.val + 2) / 5 + d.val - 1) + 2) / 153 = mp.val ∧
      (153 * mp.val + 2) / 5 + d.val - 1 ≤ 365 ∧
      ((153 * mp.val + 2) / 5 + d.val - 1 = 365 → mp.val = 11 ∧ d.val = 29) := by decide +kernel

end Kskm
