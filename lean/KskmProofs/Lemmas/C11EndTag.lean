/-
  Where the closing tag of the root element can occur in the writer's text: only as the last line.
  A pattern that starts with '<' and contains no other '<' and no newline can only match at a place
  where the writer starts a tag, inside one line.
-/
import KskmProofs.Lemmas.C11Render
namespace Kskm

/-- `</KSR>` -/
def endPat : List Char := ['<', '/', 'K', 'S', 'R', '>']
/-- `/KSR>` -/
def endPatTail : List Char := ['/', 'K', 'S', 'R', '>']

theorem endPat_eq : endPat = '<' :: endPatTail := rfl
theorem closeTag_KSR : closeTag "KSR" = endPat := by decide

/-! ### occurrences (`<:+:`) of the pattern -/

/-- an occurrence cannot start inside '<'-free text -/
theorem occ_skip (a b : List Char) (ha : '<' ∉ a) (h : endPat <:+: a ++ b) : endPat <:+: b := by
  obtain ⟨pre, post, hpp⟩ := h
  rw [List.append_assoc] at hpp
  rcases List.append_eq_append_iff.mp hpp with ⟨x, h1, h2⟩ | ⟨x, h1, h2⟩
  · -- a = pre ++ x, endPat ++ post = x ++ b
    cases x with
    | nil =>
      simp only [List.nil_append] at h2
      exact ⟨[], post, by simpa using h2⟩
    | cons c t =>
      exfalso
      have : c = '<' := by
        have := congrArg List.head? h2
        simpa [endPat] using this.symm
      apply ha
      rw [h1, this]; simp
  · -- pre = a ++ x, b = x ++ (endPat ++ post)
    exact ⟨x, post, by rw [h2, List.append_assoc]⟩

/-- no occurrence in '<'-free text -/
theorem no_occ_of_lt_free (s : List Char) (hs : '<' ∉ s) : ¬ endPat <:+: s := by
  intro h
  have := occ_skip s [] hs (by simpa using h)
  obtain ⟨pre, post, hpp⟩ := this
  have : (pre ++ endPat ++ post).length = 0 := by rw [hpp]; rfl
  simp [endPat] at this

/-- at a '<': the occurrence is here or later -/
theorem occ_at_lt (s : List Char) (h : endPat <:+: '<' :: s) : endPatTail <+: s ∨ endPat <:+: s := by
  obtain ⟨pre, post, hpp⟩ := h
  cases pre with
  | nil =>
    left
    simp only [List.nil_append, endPat, List.cons_append, List.cons.injEq, true_and] at hpp
    exact ⟨post, by simpa [endPatTail] using hpp⟩
  | cons c t =>
    right
    simp only [List.cons_append, List.cons.injEq] at hpp
    exact ⟨t, post, by simpa using hpp.2⟩

/-- the pattern has no newline: an occurrence lies within one line -/
theorem occ_split_nl (a b : List Char) (h : endPat <:+: a ++ '\n' :: b) : endPat <:+: a ∨ endPat <:+: b := by
  obtain ⟨pre, post, hpp⟩ := h
  rw [List.append_assoc] at hpp
  rcases List.append_eq_append_iff.mp hpp with ⟨x, h1, h2⟩ | ⟨x, h1, h2⟩
  · -- a = pre ++ x, endPat ++ post = x ++ '\n' :: b
    rcases List.append_eq_append_iff.mp h2 with ⟨y, g1, g2⟩ | ⟨y, g1, g2⟩
    · -- x = endPat ++ y : the occurrence lies in a
      left
      exact ⟨pre, y, by rw [h1, g1]; simp⟩
    · -- endPat = x ++ y, '\n' :: b = y ++ post : y = [] or the pattern contains '\n'
      cases y with
      | nil =>
        left
        simp only [List.append_nil] at g1
        exact ⟨pre, [], by rw [h1, g1]; simp⟩
      | cons c t =>
        exfalso
        have hc : c = '\n' := by
          have := congrArg List.head? g2
          simpa using this.symm
        have : '\n' ∈ endPat := by rw [g1, hc]; simp
        revert this; decide
  · -- pre = a ++ x, '\n' :: b = x ++ (endPat ++ post)
    cases x with
    | nil =>
      exfalso
      simp only [List.nil_append] at h2
      have := congrArg List.head? h2
      simp [endPat] at this
    | cons c t =>
      right
      simp only [List.cons_append, List.cons.injEq] at h2
      exact ⟨t, post, by rw [h2.2, List.append_assoc]⟩

theorem occ_joinNl (ls : List (List Char)) (h : endPat <:+: joinNl ls) : ∃ l ∈ ls, endPat <:+: l := by
  induction ls with
  | nil =>
    exfalso
    obtain ⟨pre, post, hpp⟩ := h
    have : (pre ++ endPat ++ post).length = 0 := by rw [hpp]; rfl
    simp [endPat] at this
  | cons l t ih =>
    cases t with
    | nil => exact ⟨l, by simp, by simpa [joinNl] using h⟩
    | cons l' t' =>
      simp only [joinNl] at h
      rcases occ_split_nl _ _ h with h1 | h2
      · exact ⟨l, by simp, h1⟩
      · obtain ⟨x, hx, hx'⟩ := ih h2
        exact ⟨x, by simp [hx], hx'⟩


/-! ### element names -/

/-- an element name below the root: it does not start with '/', and its end tag is not `</KSR>` -/
def nameOk (n : String) : Bool :=
  n.toList.head?.any (fun c => c != '/') && !(endPatTail.isPrefixOf ('/' :: n.toList ++ ['>']))

theorem nameOk_head (n : String) (h : nameOk n = true) : ∃ c r, n.toList = c :: r ∧ c ≠ '/' := by
  simp only [nameOk, Bool.and_eq_true] at h
  cases hn : n.toList with
  | nil => rw [hn] at h; simp at h
  | cons c r =>
    rw [hn] at h
    exact ⟨c, r, rfl, by simpa using h.1⟩

theorem nameOk_close (n : String) (h : nameOk n = true) : ¬ endPatTail <+: '/' :: n.toList ++ ['>'] := by
  simp only [nameOk, Bool.and_eq_true, Bool.not_eq_true'] at h
  intro hp
  have := List.isPrefixOf_iff_prefix.mpr hp
  rw [this] at h
  exact absurd h.2 (by simp)

theorem lt_nil : '<' ∉ ([] : List Char) := by simp
theorem lt_cons {c : Char} {l : List Char} (hc : c ≠ '<') (hl : '<' ∉ l) : '<' ∉ c :: l := by
  simp only [List.mem_cons, not_or]; exact ⟨fun e => hc e.symm, hl⟩
theorem lt_append {a b : List Char} (ha : '<' ∉ a) (hb : '<' ∉ b) : '<' ∉ a ++ b := by
  simp only [List.mem_append, not_or]; exact ⟨ha, hb⟩

macro "lt_tac" : tactic =>
  `(tactic| repeat (first | assumption | exact lt_nil | apply lt_append | (apply lt_cons (by decide))))

theorem lt_not_mem_renderAttrs (a : List (String × String)) (h : attrsSafe a) : '<' ∉ renderAttrs a := by
  induction a with
  | nil => simp [renderAttrs]
  | cons p t ih =>
    obtain ⟨n, v⟩ := p
    have hp := h (n, v) (by simp)
    have ht := ih (fun q hq => h q (by simp [hq]))
    have h1 := hp.1.lt
    have h2 := hp.2.lt
    simp only [renderAttrs]
    lt_tac

/-- no occurrence in a start tag (or an empty-element tag) of a properly named element -/
theorem no_occ_tagbody' (n : String) (body : List Char) (hn : Safe n.toList)
    (hhead : ∃ c r, n.toList = c :: r ∧ c ≠ '/')
    (hb : '<' ∉ body) : ¬ endPat <:+: '<' :: (n.toList ++ body) := by
  intro h
  obtain ⟨c, r, hcr, hc⟩ := hhead
  rcases occ_at_lt _ h with h1 | h2
  · obtain ⟨x, hx⟩ := h1
    rw [hcr] at hx
    simp only [endPatTail, List.cons_append, List.cons.injEq] at hx
    exact hc hx.1.symm
  · refine no_occ_of_lt_free _ ?_ h2
    simp only [List.mem_append, not_or]
    exact ⟨hn.lt, hb⟩

theorem no_occ_tagbody (n : String) (body : List Char) (hn : Safe n.toList) (hok : nameOk n = true)
    (hb : '<' ∉ body) : ¬ endPat <:+: '<' :: (n.toList ++ body) :=
  no_occ_tagbody' n body hn (nameOk_head n hok) hb

theorem no_occ_openTag' (n : String) (a : List (String × String)) (hn : Safe n.toList)
    (hhead : ∃ c r, n.toList = c :: r ∧ c ≠ '/') (ha : attrsSafe a) : ¬ endPat <:+: openTag n a := by
  have := no_occ_tagbody' n (renderAttrs a ++ ['>']) hn hhead (by
    simp only [List.mem_append, not_or, List.mem_singleton]
    exact ⟨lt_not_mem_renderAttrs a ha, by decide⟩)
  simpa [openTag, List.append_assoc] using this

theorem no_occ_openTag (n : String) (a : List (String × String)) (hn : Safe n.toList) (hok : nameOk n = true)
    (ha : attrsSafe a) : ¬ endPat <:+: openTag n a := by
  have := no_occ_tagbody n (renderAttrs a ++ ['>']) hn hok (by
    simp only [List.mem_append, not_or, List.mem_singleton]
    exact ⟨lt_not_mem_renderAttrs a ha, by decide⟩)
  simpa [openTag, List.append_assoc] using this

theorem no_occ_emptyTag (n : String) (a : List (String × String)) (hn : Safe n.toList) (hok : nameOk n = true)
    (ha : attrsSafe a) : ¬ endPat <:+: emptyTag n a := by
  have := no_occ_tagbody n (renderAttrs a ++ ['/', '>']) hn hok (by
    simp only [List.mem_append, not_or, List.mem_cons, List.not_mem_nil, or_false]
    exact ⟨lt_not_mem_renderAttrs a ha, by decide, by decide⟩)
  simpa [emptyTag, List.append_assoc] using this

theorem no_occ_closeTag (n : String) (hn : Safe n.toList) (hok : nameOk n = true) :
    ¬ endPat <:+: closeTag n := by
  intro h
  unfold closeTag at h
  rcases occ_at_lt _ h with h1 | h2
  · exact nameOk_close n hok h1
  · refine no_occ_of_lt_free _ ?_ h2
    have h1 := hn.lt
    show '<' ∉ ('/' :: n.toList) ++ ['>']
    lt_tac

/-- a leaf line: start tag, '<'-free text, end tag -/
theorem no_occ_leaf (n : String) (a : List (String × String)) (t : String) (hn : Safe n.toList)
    (hok : nameOk n = true) (ha : attrsSafe a) (ht : Safe t.toList) :
    ¬ endPat <:+: openTag n a ++ t.toList ++ closeTag n := by
  intro h
  obtain ⟨c, r, hcr, hc⟩ := nameOk_head n hok
  have e : openTag n a ++ t.toList ++ closeTag n
      = '<' :: ((n.toList ++ renderAttrs a ++ ['>'] ++ t.toList) ++ closeTag n) := by
    simp [openTag, List.append_assoc]
  rw [e] at h
  have hfree : '<' ∉ n.toList ++ renderAttrs a ++ ['>'] ++ t.toList := by
    simp only [List.mem_append, not_or, List.mem_singleton]
    exact ⟨⟨⟨hn.lt, lt_not_mem_renderAttrs a ha⟩, by decide⟩, ht.lt⟩
  rcases occ_at_lt _ h with h1 | h2
  · obtain ⟨x, hx⟩ := h1
    rw [hcr] at hx
    simp only [endPatTail, List.cons_append, List.append_assoc, List.cons.injEq] at hx
    exact hc hx.1.symm
  · exact no_occ_closeTag n hn hok (occ_skip _ _ hfree h2)

theorem no_occ_ind (l : List Char) (h : ¬ endPat <:+: l) : ¬ endPat <:+: ind l := by
  intro h'
  exact h (occ_skip sp4 l (by decide) h')

/-! ### trees all of whose names are proper -/

mutual
def XTree.namesOk : XTree → Prop
  | .node n _ cs => nameOk n = true ∧ XTree.namesOkList cs
  | .leaf n _ _ => nameOk n = true
  | .empty n _ => nameOk n = true
def XTree.namesOkList : List XTree → Prop
  | [] => True
  | t :: ts => t.namesOk ∧ XTree.namesOkList ts
end

mutual
theorem no_occ_lines : ∀ (t : XTree), t.safe → t.namesOk → ∀ l ∈ renderLines t, ¬ endPat <:+: l
  | .node n a cs, hs, hn => by
    intro l hl
    simp only [renderLines, List.mem_cons, List.mem_append, List.mem_map, List.mem_singleton, List.not_mem_nil,
      or_false] at hl
    rcases hl with (rfl | ⟨l', hl', rfl⟩) | rfl
    · exact no_occ_openTag n a hs.1 hn.1 hs.2.1
    · exact no_occ_ind l' (no_occ_linesList cs hs.2.2 hn.2 l' hl')
    · exact no_occ_closeTag n hs.1 hn.1
  | .leaf n a t, hs, hn => by
    intro l hl
    simp only [renderLines, List.mem_singleton] at hl
    subst hl
    exact no_occ_leaf n a t hs.1 hn hs.2.1 hs.2.2
  | .empty n a, hs, hn => by
    intro l hl
    simp only [renderLines, List.mem_singleton] at hl
    subst hl
    exact no_occ_emptyTag n a hs.1 hn hs.2
theorem no_occ_linesList : ∀ (ts : List XTree), XTree.safeList ts → XTree.namesOkList ts →
    ∀ l ∈ renderLinesList ts, ¬ endPat <:+: l
  | [], _, _ => by intro l hl; simp [renderLinesList] at hl
  | t :: ts, hs, hn => by
    intro l hl
    simp only [renderLinesList, List.mem_append] at hl
    rcases hl with hl | hl
    · exact no_occ_lines t hs.1 hn.1 l hl
    · exact no_occ_linesList ts hs.2 hn.2 l hl
end


/-! ### the whole document -/

/-- the lines before the closing tag of the root element -/
def preLines (a : List (String × String)) (cs : List XTree) : List (List Char) :=
  xmlDecl :: openTag "KSR" a :: (renderLinesList cs).map ind

theorem renderDoc_root (a : List (String × String)) (cs : List XTree) :
    renderDoc (.node "KSR" a cs) = (joinNl (preLines a cs) ++ ['\n']) ++ endPat ++ ['\n'] := by
  have e : xmlDecl :: renderLines (.node "KSR" a cs) ++ [[]] = preLines a cs ++ [endPat, []] := by
    simp [renderLines, preLines, closeTag_KSR]
  unfold renderDoc
  rw [e, joinNl_append _ _ (by simp [preLines]) (by simp)]
  simp [joinNl]

theorem no_occ_xmlDecl : ¬ endPat <:+: xmlDecl := by
  intro h
  have e : xmlDecl = '<' :: "?xml version=\"1.0\" encoding=\"UTF-8\"?>".toList := by decide
  rw [e] at h
  rcases occ_at_lt _ h with h1 | h2
  · revert h1; decide
  · exact no_occ_of_lt_free _ (by decide) h2

theorem no_occ_preLines (a : List (String × String)) (cs : List XTree) (ha : attrsSafe a)
    (hs : XTree.safeList cs) (hn : XTree.namesOkList cs) : ∀ l ∈ preLines a cs, ¬ endPat <:+: l := by
  intro l hl
  simp only [preLines, List.mem_cons, List.mem_map] at hl
  rcases hl with rfl | rfl | ⟨l', hl', rfl⟩
  · exact no_occ_xmlDecl
  · exact no_occ_openTag' "KSR" a (by unfold Safe; decide) ⟨'K', ['S', 'R'], by decide, by decide⟩ ha
  · exact no_occ_ind l' (no_occ_linesList cs hs hn l' hl')

/-- the key fact: before its last character the closing tag of the root has not occurred -/
theorem no_occ_before_end (a : List (String × String)) (cs : List XTree) (ha : attrsSafe a)
    (hs : XTree.safeList cs) (hn : XTree.namesOkList cs) :
    ¬ endPat <:+: (joinNl (preLines a cs) ++ ['\n']) ++ ['<', '/', 'K', 'S', 'R'] := by
  intro h
  rw [List.append_assoc] at h
  simp only [List.singleton_append] at h
  rcases occ_split_nl _ _ h with h1 | h2
  · obtain ⟨l, hl, hl'⟩ := occ_joinNl _ h1
    exact no_occ_preLines a cs ha hs hn l hl hl'
  · revert h2; decide

/-! ### consequences for a text `body ++ </KSR> ++ "\n"` -/

theorem infix_of_infix_prefix {α} {a b c : List α} (h1 : a <:+: b) (h2 : b <+: c) : a <:+: c := by
  obtain ⟨pre, post, e⟩ := h1
  obtain ⟨s, e2⟩ := h2
  exact ⟨pre, post ++ s, by rw [← e2, ← e]; simp⟩

/-- every proper prefix other than "all but the final newline" lacks the closing tag -/
theorem prefix_lacks_end (body : List Char)
    (hK : ¬ endPat <:+: body ++ ['<', '/', 'K', 'S', 'R'])
    (p : List Char) (hp : p <+: body ++ endPat ++ ['\n']) (hne : p ≠ body ++ endPat ++ ['\n'])
    (hne2 : p ≠ (body ++ endPat ++ ['\n']).dropLast) : ¬ endPat <:+: p := by
  intro hocc
  have hdrop : (body ++ endPat ++ ['\n']).dropLast = body ++ endPat := by
    rw [List.dropLast_append_of_ne_nil (by simp)]; simp
  rw [hdrop] at hne2
  have hlen_text : (body ++ endPat ++ ['\n']).length = body.length + 7 := by simp [endPat]
  have hle : p.length ≤ body.length + 7 := by rw [← hlen_text]; exact hp.length_le
  -- p is strictly shorter than the text
  have hlt : p.length < body.length + 7 := by
    rcases Nat.lt_or_ge p.length (body.length + 7) with h | h
    · exact h
    · exfalso
      apply hne
      exact List.IsPrefix.eq_of_length hp (by omega)
  -- and not of length |body| + 6
  have hne6 : p.length ≠ body.length + 6 := by
    intro h6
    apply hne2
    have h1 : p <+: body ++ endPat ++ ['\n'] := hp
    have h2 : body ++ endPat <+: body ++ endPat ++ ['\n'] := List.prefix_append _ _
    have : p = body ++ endPat := by
      have hp' := List.prefix_iff_eq_take.mp h1
      have hb' := List.prefix_iff_eq_take.mp h2
      rw [hp', hb', h6]
      simp [endPat]
    exact this
  -- so p is a prefix of body ++ "</KSR"
  have hshort : p <+: body ++ ['<', '/', 'K', 'S', 'R'] := by
    have e : (body ++ endPat ++ ['\n']) = (body ++ ['<', '/', 'K', 'S', 'R']) ++ ['>', '\n'] := by
      simp [endPat]
    have hX : body ++ ['<', '/', 'K', 'S', 'R'] <+: body ++ endPat ++ ['\n'] := by
      rw [e]; exact List.prefix_append _ _
    exact List.prefix_of_prefix_length_le hp hX (by simp; omega)
  exact hK (infix_of_infix_prefix hocc hshort)

/-- the closing tag occurs exactly once: at the end, followed by the final newline only -/
theorem end_occurs_once (body : List Char)
    (hK : ¬ endPat <:+: body ++ ['<', '/', 'K', 'S', 'R'])
    (pre post : List Char) (h : body ++ endPat ++ ['\n'] = pre ++ endPat ++ post) :
    pre = body ∧ post = ['\n'] := by
  -- pre ++ endPat is a prefix of the text that contains the pattern
  have hpref : pre ++ endPat <+: body ++ endPat ++ ['\n'] := ⟨post, h.symm⟩
  have hocc : endPat <:+: pre ++ endPat := ⟨pre, [], by simp⟩
  have hcases : pre ++ endPat = body ++ endPat ++ ['\n'] ∨ pre ++ endPat = (body ++ endPat ++ ['\n']).dropLast := by
    by_cases h1 : pre ++ endPat = body ++ endPat ++ ['\n']
    · exact Or.inl h1
    · by_cases h2 : pre ++ endPat = (body ++ endPat ++ ['\n']).dropLast
      · exact Or.inr h2
      · exact absurd hocc (prefix_lacks_end body hK _ hpref h1 h2)
  rcases hcases with h1 | h2
  · -- impossible: the text ends with a newline, the pattern with '>'
    exfalso
    have := congrArg List.getLast? h1
    simp [endPat] at this
  · have hdrop : (body ++ endPat ++ ['\n']).dropLast = body ++ endPat := by
      rw [List.dropLast_append_of_ne_nil (by simp)]; simp
    rw [hdrop] at h2
    have hpre : pre = body := List.append_cancel_right h2
    subst hpre
    refine ⟨rfl, ?_⟩
    have := List.append_cancel_left h
    exact this.symm

end Kskm

/-! ### the writer's tree -/
namespace Kskm

theorem namesOkList_append (a b : List XTree) :
    XTree.namesOkList (a ++ b) ↔ XTree.namesOkList a ∧ XTree.namesOkList b := by
  induction a with
  | nil => simp [XTree.namesOkList]
  | cons t ts ih => simp [XTree.namesOkList, ih, and_assoc]

theorem namesOkList_map {α} (f : α → XTree) (l : List α) (h : ∀ x ∈ l, (f x).namesOk) :
    XTree.namesOkList (l.map f) := by
  induction l with
  | nil => simp [XTree.namesOkList]
  | cons x t ih => exact ⟨h x (by simp), ih (fun y hy => h y (by simp [hy]))⟩

macro "names_tac" : tactic =>
  `(tactic| (simp only [XTree.namesOk, XTree.namesOkList, and_true]; repeat' (first | apply And.intro | decide)))

theorem keyTree_names (k : Key) : (keyTree k).namesOk := by unfold keyTree; names_tac
theorem sigTree_names (s : Signature) : (sigTree s).namesOk := by unfold sigTree; names_tac
theorem algTree_names (a : AlgPolicy) : (algTree a).namesOk := by unfold algTree; names_tac

theorem policyTree_names (name : String) (p : SigPolicy) (hn : nameOk name = true) :
    (policyTree name p).namesOk := by
  unfold policyTree
  simp only [XTree.namesOk]
  refine ⟨hn, ?_⟩
  rw [namesOkList_append]
  exact ⟨by names_tac, namesOkList_map _ _ (fun a _ => algTree_names a)⟩

theorem bundleTree_names (b : Bundle) : (bundleTree b).namesOk := by
  unfold bundleTree
  simp only [XTree.namesOk]
  refine ⟨by decide, ?_⟩
  rw [namesOkList_append, namesOkList_append]
  exact ⟨⟨by names_tac, namesOkList_map _ _ (fun k _ => keyTree_names k)⟩,
    namesOkList_map _ _ (fun s _ => sigTree_names s)⟩

/-- the text the writer produces, split at the closing tag of the root element -/
def docBody (r : Response) : List Char :=
  joinNl (preLines [("id", r.id), ("domain", r.domain), ("serial", str (pyIntStr r.serial))]
    [.node "Response" [] (.node "ResponsePolicy" [] [policyTree "KSK" r.kskPolicy, policyTree "ZSK" r.zskPolicy]
      :: r.bundles.map bundleTree)]) ++ ['\n']

theorem renderDoc_treeOf (r : Response) : renderDoc (treeOf r) = docBody r ++ endPat ++ ['\n'] := by
  unfold treeOf docBody
  exact renderDoc_root _ _

theorem docBody_no_end (r : Response) (h : WriterDomain r) :
    ¬ endPat <:+: docBody r ++ ['<', '/', 'K', 'S', 'R'] := by
  have hs := treeOf_safe r h
  unfold treeOf at hs
  simp only [XTree.safe] at hs
  unfold docBody
  refine no_occ_before_end _ _ hs.2.1 hs.2.2 ?_
  simp only [XTree.namesOkList, XTree.namesOk, and_true]
  refine ⟨by decide, ⟨by decide, policyTree_names _ _ (by decide), policyTree_names _ _ (by decide)⟩, ?_⟩
  exact namesOkList_map _ _ (fun b _ => bundleTree_names b)

end Kskm
