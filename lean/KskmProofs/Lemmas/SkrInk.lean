/-
  "Ink": text made of visible, markup-free characters only — no white space (`str.isspace()`), no
  `"`, `<`, `>`, `&`, no control character.  Such a text is carried verbatim by an XML document, is
  left alone by `str.strip()`, and cannot be mistaken for a tag.

  Everything the signer ITSELF prints into an SKR is ink, for every value whatsoever (no domain
  hypothesis): decimal integers (`str(int)`), timestamps (`format_datetime`), durations
  (`timedelta_to_duration`), canonical base64 (`base64.b64encode`, and every text `Base64.decode`
  accepts).  What remains — the identifiers and the domain name the signer copies from the KSR and from
  its configuration — is the hypothesis `TextSafe` of KskmProofs/Lemmas/SkrPlain.lean.
-/
import KskmProofs.Lemmas.C11Extract
import KskmProofs.Lemmas.Base64
namespace Kskm.ReadBack
open Kskm

/-- a visible plain character -/
def inkChar (c : Char) : Bool := plainChar c && !pyIsSpace c

/-- ink: every character is visible and plain -/
def Ink (l : List Char) : Prop := ∀ c ∈ l, inkChar c = true

theorem Ink.nil : Ink [] := fun _ h => by simp at h

theorem Ink.cons {c : Char} {l : List Char} (hc : inkChar c = true) (hl : Ink l) : Ink (c :: l) := by
  intro x hx
  rcases List.mem_cons.mp hx with rfl | h
  · exact hc
  · exact hl x h

theorem Ink.append {a b : List Char} (ha : Ink a) (hb : Ink b) : Ink (a ++ b) := by
  intro c hc
  rcases List.mem_append.mp hc with h | h
  · exact ha c h
  · exact hb c h

theorem ink_ite {p : Prop} [Decidable p] {a b : List Char} (ha : Ink a) (hb : Ink b) : Ink (if p then a else b) := by
  split <;> assumption

/-! ### decimal numbers -/

theorem ink_of_digit (c : Char) (h : c.isDigit = true) : inkChar c = true := by
  rcases digit_cases c h with rfl | rfl | rfl | rfl | rfl | rfl | rfl | rfl | rfl | rfl <;> decide

theorem ink_toDigits (n : Nat) : Ink (Nat.toDigits 10 n) :=
  fun c hc => ink_of_digit c (all_digits_toDigits n c hc)

theorem ink_natStr (n : Nat) : Ink (natStr n) := ink_toDigits n

/-- `str(i)` for EVERY integer (the sign included) -/
theorem ink_pyIntStr (i : Int) : Ink (pyIntStr i) := by
  unfold pyIntStr
  split
  · exact Ink.cons (by decide) (ink_toDigits _)
  · exact ink_toDigits _

theorem ink_digitChar (n : Nat) : inkChar (Nat.digitChar n) = true := by
  by_cases h : n < 10
  · exact ink_of_digit _ (isDigit_digitChar_lt h)
  · have : Nat.digitChar n = '*' ∨ (10 ≤ n ∧ n < 16) := by
      by_cases h16 : n < 16
      · exact Or.inr ⟨by omega, h16⟩
      · left
        unfold Nat.digitChar
        have e : ∀ k, k < 16 → n ≠ k := fun k hk => by omega
        simp [e]
    rcases this with h' | ⟨h1, h2⟩
    · rw [h']; decide
    · have : n = 10 ∨ n = 11 ∨ n = 12 ∨ n = 13 ∨ n = 14 ∨ n = 15 := by omega
      rcases this with rfl | rfl | rfl | rfl | rfl | rfl <;> decide

theorem ink_pad2 (n : Nat) : Ink (pad2 n) := by
  unfold pad2
  exact Ink.cons (ink_digitChar _) (Ink.cons (ink_digitChar _) Ink.nil)

/-! ### timestamps and durations, as the writer's two codecs print them -/

/-- `format_datetime(t)` for EVERY instant -/
theorem ink_formatDatetimeChars (t : Int) : Ink (formatDatetimeChars t) := by
  unfold formatDatetimeChars
  simp only
  have hy : ∀ y : Int, Ink (yearStr y) := fun y => by
    unfold yearStr
    split
    · exact Ink.cons (by decide) (ink_toDigits _)
    · exact ink_toDigits _
  have hl : ∀ c : Char, inkChar c = true → Ink [c] := fun c h => Ink.cons h Ink.nil
  have lit : Ink "+00:00".toList := by unfold Ink; decide
  repeat' apply Ink.append
  all_goals first
    | exact hy _
    | exact ink_pad2 _
    | exact lit
    | (apply hl; decide)

theorem ink_formatTimePart (s : Nat) : Ink (formatTimePart s) := by
  unfold formatTimePart
  simp only
  apply Ink.cons (by decide)
  have hd : ∀ (n : Nat) (c : Char), inkChar c = true → Ink (Nat.toDigits 10 n ++ [c]) :=
    fun n c h => Ink.append (ink_toDigits n) (Ink.cons h Ink.nil)
  exact Ink.append (Ink.append (ink_ite (hd _ _ (by decide)) Ink.nil) (ink_ite (hd _ _ (by decide)) Ink.nil))
    (ink_ite (hd _ _ (by decide)) Ink.nil)

/-- `timedelta_to_duration(d)` for EVERY duration (negative ones included) -/
theorem ink_formatDurationChars (d : Int) : Ink (formatDurationChars d) := by
  unfold formatDurationChars
  split
  · unfold Ink; decide
  · simp only
    apply Ink.append
    · split
      · exact Ink.cons (by decide) (Ink.append (ink_pyIntStr _) (Ink.cons (by decide) Ink.nil))
      · exact Ink.cons (by decide) Ink.nil
    · split
      · exact ink_formatTimePart _
      · exact Ink.nil

theorem formatDurationChars_ne_nil (d : Int) : formatDurationChars d ≠ [] := by
  unfold formatDurationChars
  split
  · decide
  · simp only
    split <;> simp

theorem ink_formatDuration (d : Int) : Ink (formatDuration d).toList := by
  simpa [formatDuration] using ink_formatDurationChars d

theorem ink_formatDatetime (t : Int) : Ink (formatDatetime t).toList := by
  simpa [formatDatetime] using ink_formatDatetimeChars t

theorem ink_str (cs : List Char) (h : Ink cs) : Ink (str cs).toList := by
  simpa [str] using h

/-! ### base64 -/

theorem ink_of_decChar (c : Char) (n : Nat) (h : Base64.decChar c = some n) : inkChar c = true := by
  have hv := c.valid
  have e : c = Char.ofNat c.toNat := (Char.ofNat_toNat c).symm
  unfold Base64.decChar at h
  simp only at h
  have hr : (65 ≤ c.toNat ∧ c.toNat ≤ 90) ∨ (97 ≤ c.toNat ∧ c.toNat ≤ 122) ∨ (48 ≤ c.toNat ∧ c.toNat ≤ 57)
      ∨ c.toNat = 43 ∨ c.toNat = 47 := by
    repeat' split at h
    all_goals first | omega | (exfalso; simp at h; done) | skip
    all_goals omega
  have hlt : c.toNat < 123 := by omega
  have hall : ∀ k : Nat, k < 123 →
      ((65 ≤ k ∧ k ≤ 90) ∨ (97 ≤ k ∧ k ≤ 122) ∨ (48 ≤ k ∧ k ≤ 57) ∨ k = 43 ∨ k = 47) →
      inkChar (Char.ofNat k) = true := by decide +kernel
  rw [e]
  exact hall _ hlt hr

/-- every text the canonical decoder accepts is ink -/
theorem ink_of_decodeChars : ∀ (s : List Char) (b : Bytes), Base64.decodeChars s = some b → Ink s := by
  intro s
  induction s using Base64.decodeChars.induct with
  | case1 => intro _ _; exact Ink.nil
  | case2 a b =>
    intro out h
    simp only [Base64.decodeChars, bind, Option.bind] at h
    cases ha : Base64.decChar a with
    | none => simp [ha] at h
    | some x =>
      cases hb : Base64.decChar b with
      | none => simp [ha, hb] at h
      | some y =>
        exact Ink.cons (ink_of_decChar a x ha) (Ink.cons (ink_of_decChar b y hb)
          (Ink.cons (by decide) (Ink.cons (by decide) Ink.nil)))
  | case3 a b c hne =>
    intro out h
    rw [Base64.decodeChars] at h
    · simp only [bind, Option.bind] at h
      cases ha : Base64.decChar a with
      | none => simp [ha] at h
      | some x =>
        cases hb : Base64.decChar b with
        | none => simp [ha, hb] at h
        | some y =>
          cases hc : Base64.decChar c with
          | none => simp [ha, hb, hc] at h
          | some z =>
            exact Ink.cons (ink_of_decChar a x ha) (Ink.cons (ink_of_decChar b y hb)
              (Ink.cons (ink_of_decChar c z hc) (Ink.cons (by decide) Ink.nil)))
    · exact hne
  | case4 a b c d r h1 h2 ih =>
    intro out h
    rw [Base64.decodeChars] at h
    · simp only [bind, Option.bind] at h
      cases ha : Base64.decChar a with
      | none => simp [ha] at h
      | some x =>
        cases hb : Base64.decChar b with
        | none => simp [ha, hb] at h
        | some y =>
          cases hc : Base64.decChar c with
          | none => simp [ha, hb, hc] at h
          | some z =>
            cases hd : Base64.decChar d with
            | none => simp [ha, hb, hc, hd] at h
            | some w =>
              cases hr : Base64.decodeChars r with
              | none => simp [ha, hb, hc, hd, hr] at h
              | some t =>
                exact Ink.cons (ink_of_decChar a x ha) (Ink.cons (ink_of_decChar b y hb)
                  (Ink.cons (ink_of_decChar c z hc) (Ink.cons (ink_of_decChar d w hd) (ih t hr))))
    · exact h1
    · exact h2
  | case5 s h1 h2 h3 h4 =>
    intro out h
    rw [Base64.decodeChars] at h
    · cases h
    all_goals assumption

/-- canonical base64 text (`xsd:base64Binary` as the signer writes it) is ink -/
theorem ink_of_base64 (s : String) (h : (Base64.decode s).isSome = true) : Ink s.toList := by
  obtain ⟨b, hb⟩ := Option.isSome_iff_exists.mp h
  exact ink_of_decodeChars s.toList b hb

/-- what `base64.b64encode` produces is ink, whatever the octets -/
theorem ink_encode (b : Bytes) : Ink (Base64.encode b).toList :=
  ink_of_base64 _ (by rw [Base64.decode_encode]; rfl)

/-! ### ink is plain text for the reader -/

theorem ink_plain {l : List Char} (h : Ink l) : l.all plainChar = true := by
  rw [List.all_eq_true]
  intro c hc
  have := h c hc
  simp only [inkChar, Bool.and_eq_true] at this
  exact this.1

theorem ink_no_space {l : List Char} (h : Ink l) : ∀ c ∈ l, pyIsSpace c = false := by
  intro c hc
  have := h c hc
  simp only [inkChar, Bool.and_eq_true, Bool.not_eq_true'] at this
  exact this.2

/-- ink satisfies the writer-domain condition on element text -/
theorem elemTextOk_of_ink (s : String) (h : Ink s.toList) : elemTextOk s = true := by
  have hs := ink_no_space h
  simp only [elemTextOk, Bool.and_eq_true, Bool.not_eq_true', ink_plain h, true_and]
  constructor
  · cases hh : s.toList.head? with
    | none => rfl
    | some c => simpa using hs c (List.mem_of_mem_head? hh)
  · cases hh : s.toList.getLast? with
    | none => rfl
    | some c => simpa using hs c (List.mem_of_mem_getLast? hh)

end Kskm.ReadBack
