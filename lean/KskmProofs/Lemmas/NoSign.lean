/- None of the token work that precedes the signing stage of a ceremony issues a `C_Sign`. -/
import Kskm.Ceremony
import KskmProofs.Lemmas.Hsm
namespace Kskm

/-- not a private-key operation -/
def NotSign (op : TokOp) : Prop := isSignOp op = false

/-- one structural step of a `NotSign` proof -/
macro "ns_step" : tactic => `(tactic| first
  | exact Emits.pure _ | exact Emits.fail _ | exact Emits.err _ | exact Emits.lift _
  | exact Emits.askOk (P := NotSign) _ rfl | exact Emits.ask (P := NotSign) _ rfl
  | assumption
  | refine Emits.bind ?_ (fun _ => ?_)
  | split
  | dsimp only)

theorem openSessions_emits (m : P11Module) (slots : List Nat) (acc : P11Module) :
    Emits NotSign (openSessions m slots acc) := by
  induction slots generalizing acc with
  | nil => exact Emits.pure _
  | cons sl rest ih =>
    rw [openSessions]
    repeat' (first | exact ih _ | ns_step)

theorem getSessions_emits (m : P11Module) : Emits NotSign m.getSessions := by
  unfold P11Module.getSessions
  split
  · exact openSessions_emits _ _ _
  · exact Emits.pure _

theorem init_emits (label path : String) (pin soPin : Option String) (so rw : Bool) (typed : String) :
    Emits NotSign (P11Module.init label path pin soPin so rw typed) := by
  unfold P11Module.init
  repeat' (first | exact getSessions_emits _ | ns_step)

theorem initPkcs11Modules_emits (all : List HsmConfig) (name : Option String) (typed : String)
    (l : List HsmConfig) : Emits NotSign (initPkcs11Modules all name typed l) := by
  induction l with
  | nil =>
    rw [initPkcs11Modules]
    repeat' ns_step
  | cons h rest ih =>
    rw [initPkcs11Modules]
    repeat' (first | exact ih | exact init_emits _ _ _ _ _ _ _ | ns_step)

theorem getP11Key_notSign (label : String) (isPublic : Bool) (hh : Option Bool) (mods : List P11Module) :
    Emits NotSign (getP11Key label isPublic hh mods) :=
  (getP11Key_emits label isPublic hh mods).mono (fun _ h => h.not_sign)

theorem lookupPublic_emits (mods : List P11Module) (label : String) :
    Emits NotSign (lookupPublic mods label) := by
  unfold lookupPublic
  repeat' (first | exact getP11Key_notSign _ _ _ _ | ns_step)

theorem keyPresentGo_emits (mods : List P11Module) (lb : Bundle) (sigs : List Signature) :
    Emits NotSign (checkLastSkrKeyPresentTok.go mods lb sigs) := by
  induction sigs with
  | nil => rw [checkLastSkrKeyPresentTok.go]; exact Emits.pure _
  | cons sig rest ih =>
    rw [checkLastSkrKeyPresentTok.go]
    repeat' (first | exact ih | exact lookupPublic_emits _ _ | ns_step)

theorem checkLastSkrKeyPresentTok_emits (last : Response) (pol : RequestPolicy) (mods : List P11Module) :
    Emits NotSign (checkLastSkrKeyPresentTok last pol mods) := by
  unfold checkLastSkrKeyPresentTok
  repeat' (first | exact keyPresentGo_emits _ _ _ | ns_step)

theorem stageChain_emits (a : CeremonyArgs) (req : Request) (skr : Option Response) (mods : List P11Module) :
    Emits NotSign (stageChain a req skr mods) := by
  unfold stageChain
  repeat' (first | exact checkLastSkrKeyPresentTok_emits _ _ _ | ns_step)

end Kskm
