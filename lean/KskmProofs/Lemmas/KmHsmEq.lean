/-
  The keymaster's token lookups are the signer's token lookups.

  Kskm/Keymaster.lean writes `_p11_object_to_public_key`, `find_key_by_label` and `get_p11_key` as programs
  of the free monad `Km.Prog`; Kskm/Hsm.lean writes the same repository functions directly in the token
  monad `TokM` (used by C15 / C04 / C01–C03).  Here: the oracle interpretation `Prog.runTok` is a monad
  morphism (`runTok_bind`), it maps the primitive programs to the primitive `TokM` computations, and hence —
  by unfolding both texts side by side — `runTok` of each `…P` program IS the `TokM` function of
  Kskm/Hsm.lean: equal as functions of the token and the state, i.e. same result, same final operation
  count, same log, for every token oracle and every starting state.
-/
import Kskm.Keymaster
import KskmProofs.Lemmas.Hsm
import KskmProofs.Lemmas.C19Prog
namespace Kskm.Km

/-! ### `TokM` monad laws (as far as needed) -/

theorem tok_bind_assoc {α β γ} (m : TokM α) (f : α → TokM β) (g : β → TokM γ) :
    (m >>= f) >>= g = m >>= fun a => f a >>= g := by
  funext t s
  simp only [TokM.bind_eq]
  cases h : m t s with
  | mk r s1 => cases r <;> rfl

theorem tok_pure_bind {α β} (a : α) (f : α → TokM β) : (pure a : TokM α) >>= f = f a := by
  funext t s
  rw [TokM.bind_eq]
  rfl

theorem tok_bind_pure {α} (m : TokM α) : m >>= pure = m := by
  funext t s
  rw [TokM.bind_eq]
  cases h : m t s with
  | mk r s1 => cases r <;> rfl

theorem tok_fail_bind {α β} (e : Fail) (f : α → TokM β) : (TokM.fail e : TokM α) >>= f = TokM.fail e := by
  funext t s
  rw [TokM.bind_eq]
  rfl

theorem tok_bind_congr {α β} (m : TokM α) {f g : α → TokM β} (h : ∀ a, f a = g a) : m >>= f = m >>= g := by
  have : f = g := funext h
  rw [this]

/-! ### `runTok` is a monad morphism onto `TokM` -/

/-- **`runTok` commutes with sequencing** -/
theorem runTok_bind {α β} (p : Prog α) (f : α → Prog β) :
    (p >>= f).runTok = p.runTok >>= fun a => (f a).runTok := by
  rw [bind_def]
  induction p with
  | ret a => simp only [Prog.bind, runTok_ret, tok_pure_bind]
  | fail e => simp only [Prog.bind, runTok_fail, tok_fail_bind]
  | ask op k ih =>
    simp only [Prog.bind, runTok_ask, tok_bind_assoc]
    exact tok_bind_congr _ ih

@[simp] theorem runTok_pure {α} (a : α) : (pure a : Prog α).runTok = (pure a : TokM α) := rfl

theorem runTok_askP (op : TokOp) : (askP op).runTok = Kskm.ask op := by
  unfold askP
  rw [runTok_ask]
  exact tok_bind_pure _

theorem runTok_errP {α} (k : ErrKind) : (errP k : Prog α).runTok = TokM.err k := rfl

theorem runTok_liftP {α} (r : Res α) : (liftP r).runTok = TokM.lift r := by
  cases r <;> rfl

/-- a PyKCS11Error answer propagates — the same way in both texts -/
theorem runTok_askOkP (op : TokOp) : (askOkP op).runTok = Kskm.askOk op := by
  unfold askOkP Kskm.askOk
  rw [runTok_bind, runTok_askP]
  apply tok_bind_congr
  intro a
  cases a <;> rfl

theorem runTok_attr1P (a : TokAns) : (attr1P a).runTok = attr1 a := by
  cases a with
  | attrs l => rcases l with _ | ⟨x, _ | _⟩ <;> rfl
  | _ => rfl

theorem runTok_attrBytesP (a : AttrAns) : (attrBytesP a).runTok = attrBytes a := by
  cases a <;> rfl

theorem runTok_ite {α} (c : Prop) [Decidable c] (p q : Prog α) :
    (if c then p else q).runTok = if c then p.runTok else q.runTok := by
  split <;> rfl

/-- rewriting `runTok` through the constructs the lookups are written with -/
macro "km_norm" : tactic => `(tactic| simp only [runTok_bind, runTok_askOkP, runTok_attr1P, runTok_attrBytesP,
  runTok_liftP, runTok_errP, runTok_pure, runTok_fail, runTok_ite])

/-! ### the lookups -/

/-- **`_p11_object_to_public_key`**: the keymaster's program, run against a token oracle, is the signer's
    `TokM` function. -/
theorem runTok_p11ObjectToPublicKeyP (path : String) (slot handle : Nat) :
    (p11ObjectToPublicKeyP path slot handle).runTok = p11ObjectToPublicKey path slot handle := by
  unfold p11ObjectToPublicKeyP p11ObjectToPublicKey
  km_norm
  apply tok_bind_congr; intro a
  apply tok_bind_congr; intro kt
  cases kt with
  | none => rfl
  | bytes b => rfl
  | str x => rfl
  | num n =>
    dsimp only
    km_norm
    split
    · rfl
    · split
      · apply tok_bind_congr; intro a2
        apply tok_bind_congr; intro pt
        cases pt with
        | none => rfl
        | num n => rfl
        | str x => rfl
        | bytes point =>
          cases point with
          | nil => rfl
          | cons c r =>
            dsimp only
            km_norm
      · rfl

/-- the end of `find_key_by_label` -/
theorem runTok_foundKeyTailP (m : P11Module) (label : String) (keyClass : Nat) (hh : Option Bool)
    (slot h : Nat) (pk : Option String) :
    (foundKeyTailP m label keyClass hh slot h pk).runTok = foundKeyTail m label keyClass hh slot h pk := by
  unfold foundKeyTailP foundKeyTail
  km_norm
  apply tok_bind_congr; intro a
  apply tok_bind_congr; intro kt
  cases kt with
  | none => rfl
  | bytes b => rfl
  | str x => rfl
  | num n =>
    dsimp only
    cases keyTypeOf n <;> rfl

theorem runTok_foundKeyP (m : P11Module) (label : String) (keyClass : Nat) (hh : Option Bool) (slot h : Nat) :
    (foundKeyP m label keyClass hh slot h).runTok = foundKey m label keyClass hh slot h := by
  unfold foundKeyP foundKey
  rw [runTok_ite, runTok_bind, runTok_p11ObjectToPublicKeyP, runTok_foundKeyTailP]
  congr 1
  apply tok_bind_congr; intro pk
  exact runTok_foundKeyTailP m label keyClass hh slot h pk

/-- **`find_key_by_label`** over the sessions of one module -/
theorem runTok_findInSlotsP (m : P11Module) (label : String) (keyClass : Nat) (hh : Option Bool) :
    ∀ slots : List Nat,
      (findInSlotsP m label keyClass hh slots).runTok = findInSlots m label keyClass hh slots := by
  intro slots
  induction slots with
  | nil => rfl
  | cons sl rest ih =>
    rw [findInSlots_cons, findInSlotsP, runTok_bind, runTok_askOkP]
    apply tok_bind_congr; intro r
    cases r with
    | handles l =>
      rcases l with _ | ⟨h, _ | ⟨h2, r⟩⟩
      · exact ih
      · exact runTok_foundKeyP m label keyClass hh sl h
      · rfl
    | _ => rfl

/-- **`get_p11_key`**: modules in order, the first hit wins -/
theorem runTok_getP11KeyP (label : String) (isPublic : Bool) (hh : Option Bool) :
    ∀ mods : List P11Module,
      (getP11KeyP label isPublic hh mods).runTok = getP11Key label isPublic hh mods := by
  intro mods
  induction mods with
  | nil => rfl
  | cons m rest ih =>
    rw [getP11Key_cons, getP11KeyP, runTok_bind, runTok_findInSlotsP]
    apply tok_bind_congr; intro r
    cases r with
    | none => exact ih
    | some k => rfl

end Kskm.Km
