/-
  Helper lemmas for C01 / C02: the `KeysToSign` algebra (`ktsAdd`, `ktsUpdate`, `ktsGet` and the folds
  `signBundle` builds the published key set with).  Pure list facts, no monad.

  The folds are characterised through the *lookup by public key text*: `lookupPk l p` is the first
  record of `l` whose public key text is `p`.  A list without two records of one public key is
  determined (up to order) by that function, which is what `mem_iff_lookupPk` says.
-/
import Kskm.Signer
namespace Kskm

/-- no two records with the same public key text -/
def UniquePk (l : List Key) : Prop := l.Pairwise (fun a b => a.publicKey ≠ b.publicKey)

/-- the first record of `l` whose public key text is `p` -/
def lookupPk (l : List Key) (p : String) : Option Key := l.find? (fun y => y.publicKey = p)

/-- the TTL override of `_add_unique`, as the code writes it, is `{k with ttl := ttl}` -/
theorem ttlNorm_eq (ttl : Int) (k : Key) :
    (if k.ttl != ttl then { k with ttl := ttl } else k) = { k with ttl := ttl } := by
  by_cases h : k.ttl = ttl
  · cases k; simp_all
  · simp [h]

theorem withTtl_self (ttl : Int) (k : Key) (h : k.ttl = ttl) : { k with ttl := ttl } = k := by
  cases k; simp_all

/-! ### `lookupPk` -/

@[simp] theorem lookupPk_nil (p : String) : lookupPk [] p = none := rfl

theorem lookupPk_cons (a : Key) (l : List Key) (p : String) :
    lookupPk (a :: l) p = if a.publicKey = p then some a else lookupPk l p := by
  simp only [lookupPk, List.find?_cons]
  by_cases h : a.publicKey = p <;> simp [h]

theorem lookupPk_append (l₁ l₂ : List Key) (p : String) :
    lookupPk (l₁ ++ l₂) p = (lookupPk l₁ p).or (lookupPk l₂ p) := by
  simp [lookupPk, List.find?_append]

theorem lookupPk_single (a : Key) (p : String) :
    lookupPk [a] p = if a.publicKey = p then some a else none := by
  simp [lookupPk_cons]

theorem lookupPk_some_pk {l : List Key} {p : String} {k : Key} (h : lookupPk l p = some k) :
    k.publicKey = p := by
  have := List.find?_some h
  simpa using this

theorem lookupPk_some_mem {l : List Key} {p : String} {k : Key} (h : lookupPk l p = some k) :
    k ∈ l := List.mem_of_find?_eq_some h

theorem lookupPk_eq_none {l : List Key} {p : String} :
    lookupPk l p = none ↔ ∀ y ∈ l, y.publicKey ≠ p := by
  simp [lookupPk, List.find?_eq_none]

theorem lookupPk_isSome_of_mem {l : List Key} {k : Key} (h : k ∈ l) :
    ∃ k', lookupPk l k.publicKey = some k' := by
  cases hl : lookupPk l k.publicKey with
  | some k' => exact ⟨k', rfl⟩
  | none => exact absurd rfl (lookupPk_eq_none.mp hl k h)

/-- in a list without repeated public keys, membership is "being the record looked up under one's
    own public key" -/
theorem mem_iff_lookupPk {l : List Key} (hu : UniquePk l) (x : Key) :
    x ∈ l ↔ lookupPk l x.publicKey = some x := by
  constructor
  · intro hx
    induction l with
    | nil => cases hx
    | cons a r ih =>
      rw [lookupPk_cons]
      have hu' := List.pairwise_cons.mp hu
      rcases List.mem_cons.mp hx with rfl | hxr
      · simp
      · have : a.publicKey ≠ x.publicKey := hu'.1 x hxr
        simp only [this, ↓reduceIte]
        exact ih hu'.2 hxr
  · exact lookupPk_some_mem

/-! ### `ktsAdd` -/

theorem ktsAdd_eq (ttl : Int) (keys : List Key) (k : Key) :
    ktsAdd ttl keys k =
      if keys.any (fun x => x.publicKey = k.publicKey) then keys else keys ++ [{ k with ttl := ttl }] := by
  unfold ktsAdd
  rw [ttlNorm_eq]

theorem any_pk_iff (keys : List Key) (p : String) :
    keys.any (fun x => decide (x.publicKey = p)) = true ↔ ∃ y ∈ keys, y.publicKey = p := by
  simp

theorem mem_ktsAdd (ttl : Int) (keys : List Key) (k x : Key) :
    x ∈ ktsAdd ttl keys k ↔
      x ∈ keys ∨ ((∀ y ∈ keys, y.publicKey ≠ k.publicKey) ∧ x = { k with ttl := ttl }) := by
  rw [ktsAdd_eq]
  by_cases h : keys.any (fun x => decide (x.publicKey = k.publicKey)) = true
  · simp only [h, ↓reduceIte]
    constructor
    · exact Or.inl
    · rintro (h1 | ⟨h2, _⟩)
      · exact h1
      · obtain ⟨y, hy, hpk⟩ := (any_pk_iff keys _).mp h
        exact absurd hpk (h2 y hy)
  · simp only [h, Bool.false_eq_true, ↓reduceIte, List.mem_append, List.mem_singleton]
    have h' : ∀ y ∈ keys, y.publicKey ≠ k.publicKey := by
      intro y hy hpk
      exact h ((any_pk_iff keys _).mpr ⟨y, hy, hpk⟩)
    constructor
    · rintro (h1 | h1)
      · exact Or.inl h1
      · exact Or.inr ⟨h', h1⟩
    · rintro (h1 | ⟨_, h1⟩)
      · exact Or.inl h1
      · exact Or.inr h1

theorem ktsAdd_unique (ttl : Int) (keys : List Key) (k : Key) (h : UniquePk keys) :
    UniquePk (ktsAdd ttl keys k) := by
  rw [ktsAdd_eq]
  unfold UniquePk at *
  split
  · exact h
  · rename_i hn
    rw [List.pairwise_append]
    refine ⟨h, by simp, ?_⟩
    intro a ha b hb
    simp only [List.mem_singleton] at hb
    subst hb
    intro hpk
    exact hn ((any_pk_iff keys _).mpr ⟨a, ha, hpk⟩)

theorem ktsAdd_ttl (ttl : Int) (keys : List Key) (k : Key) (h : ∀ x ∈ keys, x.ttl = ttl) :
    ∀ x ∈ ktsAdd ttl keys k, x.ttl = ttl := by
  intro x hx
  rcases (mem_ktsAdd ttl keys k x).mp hx with h1 | ⟨_, rfl⟩
  · exact h x h1
  · rfl

/-- the lookup function after `add`: an existing record wins, otherwise the new one with the TTL set -/
theorem lookupPk_ktsAdd (ttl : Int) (keys : List Key) (k : Key) (p : String) :
    lookupPk (ktsAdd ttl keys k) p
      = (lookupPk keys p).or ((lookupPk [k] p).map fun k => { k with ttl := ttl }) := by
  rw [ktsAdd_eq]
  by_cases h : keys.any (fun x => decide (x.publicKey = k.publicKey)) = true
  · simp only [h, ↓reduceIte]
    by_cases hp : k.publicKey = p
    · subst hp
      obtain ⟨y, hy, hpk⟩ := (any_pk_iff keys _).mp h
      cases hl : lookupPk keys k.publicKey with
      | none => exact absurd hpk (lookupPk_eq_none.mp hl y hy)
      | some z => simp
    · simp [lookupPk_single, hp]
  · simp only [h, Bool.false_eq_true, ↓reduceIte, lookupPk_append, lookupPk_single]
    by_cases hp : k.publicKey = p <;> simp [hp]

/-! ### `ktsUpdate` -/

theorem eraseP_no_pk {keys : List Key} (hu : UniquePk keys) (q : String) :
    ∀ y ∈ keys.eraseP (fun x => x.publicKey = q), y.publicKey ≠ q := by
  induction keys with
  | nil => intro y hy; cases hy
  | cons a r ih =>
    have hu' := List.pairwise_cons.mp hu
    intro y hy
    rw [List.eraseP_cons] at hy
    by_cases ha : a.publicKey = q
    · simp only [ha, decide_true, cond_true] at hy
      intro hyq
      exact hu'.1 y hy (ha.trans hyq.symm)
    · simp only [ha, decide_false, cond_false, List.mem_cons] at hy
      rcases hy with rfl | hy
      · exact ha
      · exact ih hu'.2 y hy

theorem lookupPk_eraseP_ne (keys : List Key) (q p : String) (h : q ≠ p) :
    lookupPk (keys.eraseP (fun x => x.publicKey = q)) p = lookupPk keys p := by
  induction keys with
  | nil => rfl
  | cons a r ih =>
    rw [List.eraseP_cons]
    by_cases ha : a.publicKey = q
    · subst ha
      simp [lookupPk_cons, h]
    · simp only [ha, decide_false, cond_false, lookupPk_cons, ih]

theorem eraseP_uniquePk {keys : List Key} (hu : UniquePk keys) (f : Key → Bool) :
    UniquePk (keys.eraseP f) :=
  List.Pairwise.sublist List.eraseP_sublist hu

theorem ktsUpdate_unique (ttl : Int) (keys : List Key) (k : Key) (h : UniquePk keys) :
    UniquePk (ktsUpdate ttl keys k) :=
  ktsAdd_unique ttl _ k (eraseP_uniquePk h _)

theorem ktsUpdate_ttl (ttl : Int) (keys : List Key) (k : Key) (h : ∀ x ∈ keys, x.ttl = ttl) :
    ∀ x ∈ ktsUpdate ttl keys k, x.ttl = ttl :=
  ktsAdd_ttl ttl _ k (fun x hx => h x (List.mem_of_mem_eraseP hx))

/-- the lookup function after `update`: the new record REPLACES whatever had its public key -/
theorem lookupPk_ktsUpdate (ttl : Int) (keys : List Key) (k : Key) (p : String) (hu : UniquePk keys) :
    lookupPk (ktsUpdate ttl keys k) p
      = if k.publicKey = p then some { k with ttl := ttl } else lookupPk keys p := by
  unfold ktsUpdate
  rw [lookupPk_ktsAdd]
  by_cases hp : k.publicKey = p
  · subst hp
    have : lookupPk (keys.eraseP fun x => x.publicKey = k.publicKey) k.publicKey = none :=
      lookupPk_eq_none.mpr (eraseP_no_pk hu _)
    simp [this, lookupPk_single]
  · simp [lookupPk_eraseP_ne keys _ p hp, lookupPk_single, hp]

theorem mem_ktsUpdate (ttl : Int) (keys : List Key) (k x : Key) (hu : UniquePk keys) :
    x ∈ ktsUpdate ttl keys k ↔
      (x ∈ keys ∧ x.publicKey ≠ k.publicKey) ∨ x = { k with ttl := ttl } := by
  rw [mem_iff_lookupPk (ktsUpdate_unique ttl keys k hu), lookupPk_ktsUpdate ttl keys k _ hu]
  by_cases hp : k.publicKey = x.publicKey
  · simp only [hp, ↓reduceIte, Option.some.injEq]
    constructor
    · intro h; exact Or.inr h.symm
    · rintro (⟨_, h⟩ | h)
      · exact absurd rfl h
      · exact h.symm
  · simp only [hp, ↓reduceIte]
    rw [← mem_iff_lookupPk hu]
    constructor
    · intro h; exact Or.inl ⟨h, fun e => hp e.symm⟩
    · rintro (⟨h, _⟩ | h)
      · exact h
      · subst h; exact absurd rfl hp

/-! ### folds -/

theorem foldl_ktsAdd_unique (ttl : Int) (l : List Key) (acc : List Key) (h : UniquePk acc) :
    UniquePk (l.foldl (fun acc k => ktsAdd ttl acc k) acc) := by
  induction l generalizing acc with
  | nil => exact h
  | cons a r ih => exact ih _ (ktsAdd_unique ttl acc a h)

theorem foldl_ktsAdd_ttl (ttl : Int) (l : List Key) (acc : List Key) (h : ∀ x ∈ acc, x.ttl = ttl) :
    ∀ x ∈ l.foldl (fun acc k => ktsAdd ttl acc k) acc, x.ttl = ttl := by
  induction l generalizing acc with
  | nil => exact h
  | cons a r ih => exact ih _ (ktsAdd_ttl ttl acc a h)

theorem foldl_ktsUpdate_unique (ttl : Int) (l : List Key) (acc : List Key) (h : UniquePk acc) :
    UniquePk (l.foldl (fun acc k => ktsUpdate ttl acc k) acc) := by
  induction l generalizing acc with
  | nil => exact h
  | cons a r ih => exact ih _ (ktsUpdate_unique ttl acc a h)

theorem foldl_ktsUpdate_ttl (ttl : Int) (l : List Key) (acc : List Key) (h : ∀ x ∈ acc, x.ttl = ttl) :
    ∀ x ∈ l.foldl (fun acc k => ktsUpdate ttl acc k) acc, x.ttl = ttl := by
  induction l generalizing acc with
  | nil => exact h
  | cons a r ih => exact ih _ (ktsUpdate_ttl ttl acc a h)

/-- lookup after a run of `add`s: what was there wins, then the FIRST record of the run -/
theorem lookupPk_foldl_ktsAdd (ttl : Int) (l : List Key) (acc : List Key) (p : String) :
    lookupPk (l.foldl (fun acc k => ktsAdd ttl acc k) acc) p
      = (lookupPk acc p).or ((lookupPk l p).map fun k => { k with ttl := ttl }) := by
  induction l generalizing acc with
  | nil => simp
  | cons a r ih =>
    rw [List.foldl_cons, ih, lookupPk_ktsAdd, Option.or_assoc]
    congr 1
    rw [lookupPk_cons a r, lookupPk_single]
    by_cases hp : a.publicKey = p <;> simp [hp]

/-- lookup after a run of `update`s: the LAST record of the run wins, then what was there -/
theorem lookupPk_foldl_ktsUpdate (ttl : Int) (l : List Key) (acc : List Key) (p : String)
    (hu : UniquePk acc) :
    lookupPk (l.foldl (fun acc k => ktsUpdate ttl acc k) acc) p
      = ((lookupPk l.reverse p).map fun k => { k with ttl := ttl }).or (lookupPk acc p) := by
  induction l generalizing acc with
  | nil => simp
  | cons a r ih =>
    rw [List.foldl_cons, ih _ (ktsUpdate_unique ttl acc a hu), lookupPk_ktsUpdate ttl acc a p hu,
      List.reverse_cons, lookupPk_append, lookupPk_single]
    by_cases hp : a.publicKey = p
    · cases lookupPk r.reverse p <;> simp [hp]
    · simp [hp]

/-- the same for a fold over composite keys (`ck.dns`) -/
theorem foldl_map_dns (ttl : Int) (l : List CompositeKey) (acc : List Key) :
    l.foldl (fun acc ck => ktsAdd ttl acc ck.dns) acc
      = (l.map (·.dns)).foldl (fun acc k => ktsAdd ttl acc k) acc := by
  rw [List.foldl_map]

/-! ### `ktsGet` -/

theorem ktsGet_some {keys : List Key} {id : String} {k : Key} (h : ktsGet keys id = .ok (some k)) :
    keys.filter (fun k => k.keyIdentifier = id) = [k] := by
  unfold ktsGet at h
  split at h
  · simp [pure, Except.pure] at h
  · simp only [pure, Except.pure, Except.ok.injEq, Option.some.injEq] at h
    subst h; assumption
  · simp [unsupported] at h

theorem ktsGet_some_mem {keys : List Key} {id : String} {k : Key} (h : ktsGet keys id = .ok (some k)) :
    k ∈ keys ∧ k.keyIdentifier = id ∧ ∀ k' ∈ keys, k'.keyIdentifier = id → k' = k := by
  have hf := ktsGet_some h
  have hk : k ∈ keys.filter (fun k => k.keyIdentifier = id) := by rw [hf]; simp
  have := List.mem_filter.mp hk
  refine ⟨this.1, by simpa using this.2, ?_⟩
  intro k' hk' hid
  have : k' ∈ keys.filter (fun k => k.keyIdentifier = id) := List.mem_filter.mpr ⟨hk', by simpa using hid⟩
  rw [hf] at this
  simpa using this

end Kskm
