/-
  The writer's text is the rendering of the element tree: `skrToXmlChars r = renderDoc (treeOf r)` on the
  writer's domain.  (`Safe` text: no newline — so `_indent` leaves it alone — and no '<' — so that
  a tag can only start where the writer starts one.)
-/
import KskmProofs.Lemmas.C11Writer
import KskmProofs.Lemmas.C11Digits
namespace Kskm

/-! ### safe text -/

def safeChar (c : Char) : Bool := c != '\n' && c != '<'

/-- no newline, no '<' -/
def Safe (l : List Char) : Prop := ∀ c ∈ l, safeChar c = true

theorem Safe.nl {l : List Char} (h : Safe l) : '\n' ∉ l := fun hm => by
  have := h _ hm; revert this; decide

theorem Safe.lt {l : List Char} (h : Safe l) : '<' ∉ l := fun hm => by
  have := h _ hm; revert this; decide

theorem Safe.append {a b : List Char} (ha : Safe a) (hb : Safe b) : Safe (a ++ b) := by
  intro c hc
  rcases List.mem_append.mp hc with h | h
  · exact ha c h
  · exact hb c h

theorem Safe.cons {c : Char} {l : List Char} (hc : safeChar c = true) (hl : Safe l) : Safe (c :: l) := by
  intro x hx
  rcases List.mem_cons.mp hx with rfl | h
  · exact hc
  · exact hl x h

theorem Safe.nil : Safe [] := fun _ h => by simp at h

theorem safe_of_digit (c : Char) (h : c.isDigit = true) : safeChar c = true := by
  rw [Char.isDigit] at h
  simp only [Bool.and_eq_true, decide_eq_true_eq] at h
  simp only [safeChar, Bool.and_eq_true, bne_iff_ne, ne_eq]
  constructor <;> intro e <;> subst e <;> revert h <;> decide

theorem safe_toDigits (n : Nat) : Safe (Nat.toDigits 10 n) :=
  fun c hc => safe_of_digit c (all_digits_toDigits n c hc)

theorem safe_natStr (n : Nat) : Safe (natStr n) := safe_toDigits n

theorem safe_pyIntStr (i : Int) : Safe (pyIntStr i) := by
  unfold pyIntStr
  split
  · exact Safe.cons (by decide) (safe_toDigits _)
  · exact safe_toDigits _

theorem safe_digitChar (n : Nat) : safeChar (Nat.digitChar n) = true := by
  by_cases h : n < 10
  · exact safe_of_digit _ (isDigit_digitChar_lt h)
  · have : Nat.digitChar n = '*' ∨ (10 ≤ n ∧ n < 16) := by
      by_cases h16 : n < 16
      · exact Or.inr ⟨by omega, h16⟩
      · left
        unfold Nat.digitChar
        have e : ∀ k, k < 16 → n ≠ k := fun k hk => by omega
        simp [e]
    rcases this with h' | ⟨h1, h2⟩
    · rw [h']; decide
    · have : n = 10 ∨ n = 11 ∨ n = 12 ∨ n = 13 ∨ n = 14 ∨ n = 15 := by omega
      rcases this with rfl | rfl | rfl | rfl | rfl | rfl <;> decide

theorem safe_pad2 (n : Nat) : Safe (pad2 n) := by
  unfold pad2
  exact Safe.cons (safe_digitChar _) (Safe.cons (safe_digitChar _) Safe.nil)

theorem safe_formatDatetimeChars (t : Int) : Safe (formatDatetimeChars t) := by
  unfold formatDatetimeChars
  simp only
  have hy : ∀ y : Int, Safe (yearStr y) := fun y => by
    unfold yearStr
    split
    · exact Safe.cons (by decide) (safe_toDigits _)
    · exact safe_toDigits _
  have hl : ∀ c : Char, safeChar c = true → Safe [c] := fun c h => Safe.cons h Safe.nil
  have lit : Safe "+00:00".toList := by unfold Safe; decide
  repeat' apply Safe.append
  all_goals first
    | exact hy _
    | exact safe_pad2 _
    | exact lit
    | (apply hl; decide)

theorem safe_ite {p : Prop} [Decidable p] {a b : List Char} (ha : Safe a) (hb : Safe b) :
    Safe (if p then a else b) := by
  split <;> assumption

theorem safe_formatTimePart (s : Nat) : Safe (formatTimePart s) := by
  unfold formatTimePart
  simp only
  apply Safe.cons (by decide)
  have hd : ∀ (n : Nat) (c : Char), safeChar c = true → Safe (Nat.toDigits 10 n ++ [c]) :=
    fun n c h => Safe.append (safe_toDigits n) (Safe.cons h Safe.nil)
  exact Safe.append (Safe.append (safe_ite (hd _ _ (by decide)) Safe.nil) (safe_ite (hd _ _ (by decide)) Safe.nil))
    (safe_ite (hd _ _ (by decide)) Safe.nil)

theorem safe_formatDurationChars (d : Int) : Safe (formatDurationChars d) := by
  unfold formatDurationChars
  split
  · unfold Safe; decide
  · simp only
    apply Safe.append
    · split
      · exact Safe.cons (by decide) (Safe.append (safe_pyIntStr _) (Safe.cons (by decide) Safe.nil))
      · exact Safe.cons (by decide) Safe.nil
    · split
      · exact safe_formatTimePart _
      · exact Safe.nil

theorem safe_of_plain (s : String) (h : s.toList.all plainChar = true) : Safe s.toList := by
  intro c hc
  have := List.all_eq_true.mp h c hc
  simp only [plainChar, Bool.and_eq_true, bne_iff_ne, ne_eq] at this
  simp only [safeChar, Bool.and_eq_true, bne_iff_ne, ne_eq]
  refine ⟨?_, this.1.1.1.1.1.1.2⟩
  intro e
  subst e
  have := this.1.1.1.2
  revert this; decide

theorem safe_str (cs : List Char) (h : Safe cs) : Safe (str cs).toList := by
  simpa [str] using h


/-! ### trees whose every name, attribute and text is safe -/

def attrsSafe (a : List (String × String)) : Prop := ∀ p ∈ a, Safe p.1.toList ∧ Safe p.2.toList

mutual
def XTree.safe : XTree → Prop
  | .node n a cs => Safe n.toList ∧ attrsSafe a ∧ XTree.safeList cs
  | .leaf n a t => Safe n.toList ∧ attrsSafe a ∧ Safe t.toList
  | .empty n a => Safe n.toList ∧ attrsSafe a
def XTree.safeList : List XTree → Prop
  | [] => True
  | t :: ts => t.safe ∧ XTree.safeList ts
end

theorem safeList_append (a b : List XTree) : XTree.safeList (a ++ b) ↔ XTree.safeList a ∧ XTree.safeList b := by
  induction a with
  | nil => simp [XTree.safeList]
  | cons t ts ih => simp [XTree.safeList, ih, and_assoc]

theorem safeList_map {α} (f : α → XTree) (l : List α) (h : ∀ x ∈ l, (f x).safe) : XTree.safeList (l.map f) := by
  induction l with
  | nil => simp [XTree.safeList]
  | cons x t ih => exact ⟨h x (by simp), ih (fun y hy => h y (by simp [hy]))⟩

theorem nl_nil : '\n' ∉ ([] : List Char) := by simp
theorem nl_cons {c : Char} {l : List Char} (hc : c ≠ '\n') (hl : '\n' ∉ l) : '\n' ∉ c :: l := by
  simp only [List.mem_cons, not_or]; exact ⟨fun e => hc e.symm, hl⟩
theorem nl_append {a b : List Char} (ha : '\n' ∉ a) (hb : '\n' ∉ b) : '\n' ∉ a ++ b := by
  simp only [List.mem_append, not_or]; exact ⟨ha, hb⟩

/-- newline-freeness of a text assembled from literal characters and newline-free pieces -/
macro "nl_tac" : tactic =>
  `(tactic| repeat (first | assumption | exact nl_nil | apply nl_append | (apply nl_cons (by decide))))

theorem safe_renderAttrs (a : List (String × String)) (h : attrsSafe a) : '\n' ∉ renderAttrs a := by
  induction a with
  | nil => simp [renderAttrs]
  | cons p t ih =>
    obtain ⟨n, v⟩ := p
    have hp := h (n, v) (by simp)
    have ht := ih (fun q hq => h q (by simp [hq]))
    have h1 := hp.1.nl
    have h2 := hp.2.nl
    simp only [renderAttrs]
    nl_tac

theorem openTag_ok (n : String) (a : List (String × String)) (hn : Safe n.toList) (ha : attrsSafe a) :
    LineOk (openTag n a) := by
  refine ⟨?_, by simp [openTag]⟩
  have h1 := hn.nl
  have h2 := safe_renderAttrs a ha
  simp only [openTag]
  nl_tac

theorem closeTag_ok (n : String) (hn : Safe n.toList) : LineOk (closeTag n) := by
  refine ⟨?_, by simp [closeTag]⟩
  have h1 := hn.nl
  simp only [closeTag]
  nl_tac

theorem emptyTag_ok (n : String) (a : List (String × String)) (hn : Safe n.toList) (ha : attrsSafe a) :
    LineOk (emptyTag n a) := by
  refine ⟨?_, by simp [emptyTag]⟩
  have h1 := hn.nl
  have h2 := safe_renderAttrs a ha
  simp only [emptyTag]
  nl_tac

theorem ind_ok (l : List Char) (h : LineOk l) : LineOk (ind l) := by
  refine ⟨?_, by simp [ind, sp4]⟩
  have h1 := h.1
  simp only [ind, sp4]
  nl_tac

mutual
/-- every rendered line of a safe tree is single-line and not empty -/
theorem renderLines_ok : ∀ (t : XTree), t.safe → ∀ l ∈ renderLines t, LineOk l
  | .node n a cs, h => by
    intro l hl
    simp only [renderLines, List.mem_cons, List.mem_append, List.mem_map, List.mem_singleton, List.not_mem_nil,
      or_false] at hl
    rcases hl with (rfl | ⟨l', hl', rfl⟩) | rfl
    · exact openTag_ok n a h.1 h.2.1
    · exact ind_ok l' (renderLinesList_ok cs h.2.2 l' hl')
    · exact closeTag_ok n h.1
  | .leaf n a t, h => by
    intro l hl
    simp only [renderLines, List.mem_singleton] at hl
    subst hl
    have h1 := openTag_ok n a h.1 h.2.1
    have h2 := closeTag_ok n h.1
    refine ⟨?_, by simp [openTag]⟩
    have h3 := h1.1
    have h4 := h.2.2.nl
    have h5 := h2.1
    nl_tac
  | .empty n a, h => by
    intro l hl
    simp only [renderLines, List.mem_singleton] at hl
    subst hl
    exact emptyTag_ok n a h.1 h.2
theorem renderLinesList_ok : ∀ (ts : List XTree), XTree.safeList ts → ∀ l ∈ renderLinesList ts, LineOk l
  | [], _ => by intro l hl; simp [renderLinesList] at hl
  | t :: ts, h => by
    intro l hl
    simp only [renderLinesList, List.mem_append] at hl
    rcases hl with hl | hl
    · exact renderLines_ok t h.1 l hl
    · exact renderLinesList_ok ts h.2 l hl
end

/-- the first rendered line of any element starts with '<' -/
theorem renderLines_head (t : XTree) : ∃ r rest, renderLines t = ('<' :: r) :: rest := by
  cases t with
  | node n a cs =>
    exact ⟨n.toList ++ renderAttrs a ++ ['>'], (renderLinesList cs).map ind ++ [closeTag n], by
      simp [renderLines, openTag]⟩
  | leaf n a t =>
    exact ⟨n.toList ++ renderAttrs a ++ ['>'] ++ t.toList ++ closeTag n, [], by simp [renderLines, openTag]⟩
  | empty n a => exact ⟨n.toList ++ renderAttrs a ++ ['/', '>'], [], by simp [renderLines, emptyTag]⟩

theorem renderLinesList_append (a b : List XTree) :
    renderLinesList (a ++ b) = renderLinesList a ++ renderLinesList b := by
  induction a with
  | nil => simp [renderLinesList]
  | cons t ts ih => simp [renderLinesList, ih]

theorem renderLinesList_map {α} (f : α → XTree) (l : List α) :
    renderLinesList (l.map f) = (l.map (fun x => renderLines (f x))).flatten := by
  induction l with
  | nil => simp [renderLinesList]
  | cons x t ih => simp [renderLinesList, ih]

theorem lt_not_space : pyIsSpace '<' = false := by decide


/-! ### level by level: every template function returns the block of its element's lines -/

theorem mapM_ok {α β} (f : α → Res β) (g : α → β) (l : List α) (h : ∀ x ∈ l, f x = .ok (g x)) :
    l.mapM f = .ok (l.map g) := by
  induction l with
  | nil => rfl
  | cons x t ih =>
    rw [List.mapM_cons, h x (by simp), ih (fun y hy => h y (by simp [hy]))]
    rfl

/-- `_skr_key_to_xml` -/
theorem keyXml_eq (k : Key) : keyXml k = block (renderLines (keyTree k)) := by
  simp [keyXml, keyTree, block, renderLines, renderLinesList, leafLine, str]

/-- `_skr_signature_to_xml` -/
theorem sigXml_eq (s : Signature) (h1 : s.typeCovered = 48)
    (h2 : minInstant ≤ s.expiration ∧ s.expiration ≤ maxInstant)
    (h3 : minInstant ≤ s.inception ∧ s.inception ≤ maxInstant) :
    sigXml s = .ok (block (renderLines (sigTree s))) := by
  simp [sigXml, sigTree, block, renderLines, renderLinesList, leafLine, str, typeCoveredName, h1, formatDatetimeRes,
    h2, h3, formatDatetime, bind, Except.bind, pure, Except.pure]

structure AlgParts (a : AlgPolicy) : Prop where
  kind : a.kind = .rsa
  exp : a.exponent.isSome = true
  alg : a.algorithm = 5 ∨ a.algorithm = 8 ∨ a.algorithm = 10
  bits0 : 0 ≤ a.bits
  exp0 : 0 ≤ a.exponent.getD 0
  pbits : printable a.bits = true
  pexp : printable (a.exponent.getD 0) = true

theorem algOk_parts (a : AlgPolicy) (h : algOk a = true) : AlgParts a := by
  simp only [algOk, Bool.and_eq_true, Bool.or_eq_true, decide_eq_true_eq, beq_iff_eq] at h
  constructor <;> first | (simp [h]; done) | simp_all | (intros; simp_all) | omega

/-- one pass of `_signature_algorithms_to_xml` -/
theorem algXml_eq (a : AlgPolicy) (h : algOk a = true) : algXml a = .ok (block (renderLines (algTree a))) := by
  have ap := algOk_parts a h
  obtain ⟨e, he'⟩ := Option.isSome_iff_exists.mp ap.exp
  simp [algXml, ap.kind, he', algTree, block, renderLines, renderLinesList, pure, Except.pure]

end Kskm
namespace Kskm

theorem attrsSafe_nil : attrsSafe [] := fun _ h => by simp at h
theorem attrsSafe_cons {n v : String} {t : List (String × String)} (hn : Safe n.toList) (hv : Safe v.toList)
    (ht : attrsSafe t) : attrsSafe ((n, v) :: t) := by
  intro p hp
  rcases List.mem_cons.mp hp with rfl | h
  · exact ⟨hn, hv⟩
  · exact ht p h

theorem safe_formatDuration (d : Int) : Safe (formatDuration d).toList := by
  simpa [formatDuration] using safe_formatDurationChars d
theorem safe_formatDatetime (t : Int) : Safe (formatDatetime t).toList := by
  simpa [formatDatetime] using safe_formatDatetimeChars t

/-- discharge the safety of a tree built from literal names, printed numbers and safe strings -/
macro "safe_tac" : tactic =>
  `(tactic| (
    simp only [XTree.safe, XTree.safeList, and_true, true_and]
    repeat' (first
      | with_reducible apply And.intro
      | with_reducible apply attrsSafe_cons
      | with_reducible exact attrsSafe_nil
      | with_reducible assumption
      | with_reducible exact safe_str _ (safe_pyIntStr _)
      | with_reducible exact safe_str _ (safe_natStr _)
      | with_reducible exact safe_formatDuration _
      | with_reducible exact safe_formatDatetime _
      | (unfold Safe; decide))))

theorem attrText_safe (s : String) (h : attrTextOk s = true) : Safe s.toList := by
  simp only [attrTextOk, Bool.and_eq_true] at h
  exact safe_of_plain s h.2

theorem elemText_safe (s : String) (h : elemTextOk s = true) : Safe s.toList := by
  simp only [elemTextOk, Bool.and_eq_true] at h
  exact safe_of_plain s h.1.1

/-! ### the parts of the domain predicate, by name -/

structure KeyParts (k : Key) : Prop where
  id : attrTextOk k.keyIdentifier = true
  pk : elemTextOk k.publicKey = true
  b64 : (Base64.decode k.publicKey).isSome = true
  tag0 : 0 ≤ k.keyTag
  tag1 : k.keyTag ≤ 65535
  ttl : 0 ≤ k.ttl
  flags0 : 0 ≤ k.flags
  flags1 : k.flags ≤ 65535
  protocol : k.protocol = 3
  alg : k.algorithm ≤ 255
  pttl : printable k.ttl = true

theorem keyOk_parts (k : Key) (h : keyOk k = true) : KeyParts k := by
  simp only [keyOk, Bool.and_eq_true, decide_eq_true_eq] at h
  constructor <;> first | (simp [h]; done) | simp_all | (intros; simp_all)

structure SigParts (s : Signature) : Prop where
  id : attrTextOk s.keyIdentifier = true
  tc : s.typeCovered = 48
  exp : instantOk s.expiration = true
  inc : instantOk s.inception = true
  name : elemTextOk s.signersName = true
  data : elemTextOk s.signatureData = true
  b64 : (Base64.decode s.signatureData).isSome = true
  tag0 : 0 ≤ s.keyTag
  tag1 : s.keyTag ≤ 65535
  ttl : 0 ≤ s.ttl
  ottl : 0 ≤ s.originalTtl
  labels0 : 0 ≤ s.labels
  labels1 : s.labels ≤ 255
  alg : s.algorithm ≤ 255
  pttl : printable s.ttl = true
  pottl : printable s.originalTtl = true

theorem sigOk_parts (s : Signature) (h : sigOk s = true) : SigParts s := by
  simp only [sigOk, Bool.and_eq_true, decide_eq_true_eq, beq_iff_eq] at h
  constructor <;> first | (simp [h]; done) | simp_all | (intros; simp_all)

structure BundleParts (b : Bundle) : Prop where
  id : attrTextOk b.id = true
  signers : b.signers = none
  inc : instantOk b.inception = true
  exp : instantOk b.expiration = true
  keysNe : b.keys ≠ []
  keys : ∀ k ∈ b.keys, keyOk k = true
  sigsNe : b.signatures ≠ []
  sigs : ∀ s ∈ b.signatures, sigOk s = true

theorem bundleOk_parts (b : Bundle) (h : bundleOk b = true) : BundleParts b := by
  simp only [bundleOk, Bool.and_eq_true, List.all_eq_true, Bool.not_eq_true', List.isEmpty_eq_false_iff,
    Option.isNone_iff_eq_none] at h
  constructor <;> first | (simp [h]; done) | simp_all | (intros; simp_all)

structure PolicyParts (p : SigPolicy) : Prop where
  d1 : durationOk p.publishSafety = true
  d2 : durationOk p.retireSafety = true
  d3 : durationOk p.maxSignatureValidity = true
  d4 : durationOk p.minSignatureValidity = true
  d5 : durationOk p.maxValidityOverlap = true
  d6 : durationOk p.minValidityOverlap = true
  algsNe : p.algorithms ≠ []
  algs : ∀ a ∈ p.algorithms, algOk a = true

theorem policyOk_parts (p : SigPolicy) (h : policyOk p = true) : PolicyParts p := by
  simp only [policyOk, Bool.and_eq_true, List.all_eq_true, Bool.not_eq_true', List.isEmpty_eq_false_iff] at h
  constructor <;> first | (simp [h]; done) | simp_all | (intros; simp_all)

structure DomainParts (r : Response) : Prop where
  ts : r.timestamp = none
  id : attrTextOk r.id = true
  domain : attrTextOk r.domain = true
  serial : 0 ≤ r.serial
  pserial : printable r.serial = true
  ksk : policyOk r.kskPolicy = true
  zsk : policyOk r.zskPolicy = true
  bundlesNe : r.bundles ≠ []
  bundles : ∀ b ∈ r.bundles, bundleOk b = true
  sorted : bundlesSorted r.bundles = true

theorem domain_parts (r : Response) (h : WriterDomain r) : DomainParts r := by
  simp only [WriterDomain, writerDomain, Bool.and_eq_true, List.all_eq_true, Bool.not_eq_true',
    List.isEmpty_eq_false_iff, decide_eq_true_eq, Option.isNone_iff_eq_none] at h
  constructor <;> first | (simp [h]; done) | simp_all | (intros; simp_all)


theorem keyTree_safe (k : Key) (h : keyOk k = true) : (keyTree k).safe := by
  have hp := keyOk_parts k h
  have h1 := attrText_safe _ hp.id
  have h2 := elemText_safe _ hp.pk
  unfold keyTree
  safe_tac

theorem sigTree_safe (s : Signature) (h : sigOk s = true) : (sigTree s).safe := by
  have hp := sigOk_parts s h
  have h1 := attrText_safe _ hp.id
  have h2 := elemText_safe _ hp.name
  have h3 := elemText_safe _ hp.data
  unfold sigTree
  safe_tac

theorem algTree_safe (a : AlgPolicy) : (algTree a).safe := by
  unfold algTree
  safe_tac


theorem policyTree_safe (name : String) (p : SigPolicy) (hn : Safe name.toList) : (policyTree name p).safe := by
  unfold policyTree
  simp only [XTree.safe]
  refine ⟨hn, attrsSafe_nil, ?_⟩
  rw [safeList_append]
  constructor
  · safe_tac
  · exact safeList_map _ _ (fun a _ => algTree_safe a)

theorem bundleTree_safe (b : Bundle) (h : bundleOk b = true) : (bundleTree b).safe := by
  have hp := bundleOk_parts b h
  have a5 := hp.keys
  have a7 := hp.sigs
  have h1 := attrText_safe _ hp.id
  unfold bundleTree
  simp only [XTree.safe]
  refine ⟨by unfold Safe; decide, attrsSafe_cons (by unfold Safe; decide) h1 attrsSafe_nil, ?_⟩
  rw [safeList_append, safeList_append]
  refine ⟨⟨?_, ?_⟩, ?_⟩
  · safe_tac
  · apply safeList_map
    intro k hk
    have : k ∈ b.keys := (List.mergeSort_perm _ _).mem_iff.mp hk
    exact keyTree_safe k (a5 k this)
  · exact safeList_map _ _ (fun s hs => sigTree_safe s (a7 s hs))

theorem treeOf_safe (r : Response) (h : WriterDomain r) : (treeOf r).safe := by
  have hp := domain_parts r h
  have a8 := hp.bundles
  have h1 := attrText_safe _ hp.id
  have h2 := attrText_safe _ hp.domain
  unfold treeOf
  simp only [XTree.safe, XTree.safeList, and_true]
  refine ⟨by unfold Safe; decide, ?_, by unfold Safe; decide, attrsSafe_nil, ?_, ?_⟩
  · exact attrsSafe_cons (by unfold Safe; decide) h1 (attrsSafe_cons (by unfold Safe; decide) h2
      (attrsSafe_cons (by unfold Safe; decide) (safe_str _ (safe_pyIntStr _)) attrsSafe_nil))
  · exact ⟨by unfold Safe; decide, attrsSafe_nil, policyTree_safe _ _ (by unfold Safe; decide),
      policyTree_safe _ _ (by unfold Safe; decide)⟩
  · exact safeList_map _ _ (fun b hb => bundleTree_safe b (a8 b hb))

end Kskm

namespace Kskm

/-- body lines of a safe tree, for `indent_blocks` -/
theorem lines_ok_of_safe (t : XTree) (h : t.safe) : ∀ l ∈ renderLines t, LineOk l := renderLines_ok t h

/-- `_indent` of a concatenation of element templates -/
theorem indent_elements {α} (f : α → XTree) (l : List α) (hne : l ≠ []) (hs : ∀ x ∈ l, (f x).safe) :
    sp4 ++ indent ((l.map (fun x => block (renderLines (f x)))).flatten)
      = joinNl ((renderLinesList (l.map f)).map ind) := by
  have e : l.map (fun x => block (renderLines (f x))) = (l.map (fun x => renderLines (f x))).map block := by
    simp [List.map_map]
  rw [e, renderLinesList_map]
  cases l with
  | nil => exact absurd rfl hne
  | cons x t =>
    obtain ⟨r, rest, hr⟩ := renderLines_head (f x)
    refine indent_blocks _ ?_ '<' r (rest ++ (t.map (fun y => renderLines (f y))).flatten) ?_ lt_not_space
    · intro ls hls l' hl'
      obtain ⟨y, hy, rfl⟩ := List.mem_map.mp hls
      exact renderLines_ok (f y) (hs y hy) l' hl'
    · simp [hr]

/-- `_skr_keys_to_xml` inside its template line -/
theorem keys_lines (b : Bundle) (hne : b.keys ≠ []) (hs : ∀ k ∈ b.keys, (keyTree k).safe) :
    sp4 ++ indent (keysXml b) = joinNl ((renderLinesList ((sortKeys b.keys).map keyTree)).map ind) := by
  have hperm := List.mergeSort_perm b.keys (fun a b => decide (a.keyTag ≤ b.keyTag))
  have hne' : sortKeys b.keys ≠ [] := by
    intro e
    have := hperm.length_eq
    unfold sortKeys at e
    rw [e] at this
    exact hne (List.eq_nil_of_length_eq_zero this.symm)
  have : keysXml b = ((sortKeys b.keys).map (fun k => block (renderLines (keyTree k)))).flatten := by
    unfold keysXml
    congr 1
    exact List.map_congr_left (fun k _ => keyXml_eq k)
  rw [this]
  exact indent_elements keyTree _ hne' (fun k hk => hs k (hperm.mem_iff.mp hk))

def SigInRange (s : Signature) : Prop :=
  s.typeCovered = 48 ∧ (minInstant ≤ s.expiration ∧ s.expiration ≤ maxInstant) ∧
    (minInstant ≤ s.inception ∧ s.inception ≤ maxInstant)

/-- `_skr_signatures_to_xml` -/
theorem sigsXml_eq (b : Bundle) (h : ∀ s ∈ b.signatures, SigInRange s) :
    sigsXml b = .ok ((b.signatures.map (fun s => block (renderLines (sigTree s)))).flatten) := by
  unfold sigsXml
  rw [mapM_ok sigXml (fun s => block (renderLines (sigTree s))) _
    (fun s hs => sigXml_eq s (h s hs).1 (h s hs).2.1 (h s hs).2.2)]
  rfl

theorem renderLines_nonempty (t : XTree) : renderLines t ≠ [] := by
  obtain ⟨r, rest, h⟩ := renderLines_head t
  rw [h]; simp

theorem renderLinesList_nonempty (ts : List XTree) (h : ts ≠ []) : renderLinesList ts ≠ [] := by
  cases ts with
  | nil => exact absurd rfl h
  | cons t r =>
    simp only [renderLinesList]
    intro e
    exact renderLines_nonempty t (List.append_eq_nil_iff.mp e).1

/-- `_skr_bundle_to_xml` -/
theorem bundleXml_eq (b : Bundle) (hk : b.keys ≠ []) (hsg : b.signatures ≠ [])
    (hks : ∀ k ∈ b.keys, (keyTree k).safe) (hss : ∀ s ∈ b.signatures, (sigTree s).safe)
    (hr : ∀ s ∈ b.signatures, SigInRange s)
    (hi : minInstant ≤ b.inception ∧ b.inception ≤ maxInstant)
    (he : minInstant ≤ b.expiration ∧ b.expiration ≤ maxInstant) :
    bundleXml b = .ok (block (renderLines (bundleTree b))) := by
  have hK := keys_lines b hk hks
  have hS := indent_elements sigTree b.signatures hsg hss
  have hKne : (renderLinesList ((sortKeys b.keys).map keyTree)).map ind ≠ [] := by
    intro e
    have hperm := List.mergeSort_perm b.keys (fun a b => decide (a.keyTag ≤ b.keyTag))
    have : sortKeys b.keys ≠ [] := by
      intro e'
      have := hperm.length_eq
      unfold sortKeys at e'
      rw [e'] at this
      exact hk (List.eq_nil_of_length_eq_zero this.symm)
    exact renderLinesList_nonempty _ (by simpa using this) (List.map_eq_nil_iff.mp e)
  have hSne : (renderLinesList (b.signatures.map sigTree)).map ind ≠ [] := by
    intro e
    exact renderLinesList_nonempty _ (by simpa using hsg) (List.map_eq_nil_iff.mp e)
  simp only [bundleXml, formatDatetimeRes, hi, he, and_self, ↓reduceIte, sigsXml_eq b hr, bind, Except.bind, pure,
    Except.pure, hK, hS]
  refine congrArg Except.ok ?_
  unfold block
  have s1 := joinNl_splice
    [[], openTag "ResponseBundle" [("id", b.id)], leafLine "Inception" (formatDatetimeChars b.inception),
      leafLine "Expiration" (formatDatetimeChars b.expiration)]
    ((renderLinesList ((sortKeys b.keys).map keyTree)).map ind)
    [joinNl ((renderLinesList (b.signatures.map sigTree)).map ind), closeTag "ResponseBundle", []] hKne
  have s2 := joinNl_splice
    ([[], openTag "ResponseBundle" [("id", b.id)], leafLine "Inception" (formatDatetimeChars b.inception),
      leafLine "Expiration" (formatDatetimeChars b.expiration)] ++ (renderLinesList ((sortKeys b.keys).map keyTree)).map ind)
    ((renderLinesList (b.signatures.map sigTree)).map ind)
    [closeTag "ResponseBundle", []] hSne
  simp only [List.cons_append, List.nil_append, List.append_assoc, List.singleton_append] at s1 s2
  rw [s1, s2]
  simp [bundleTree, renderLines, renderLinesList, renderLinesList_append, leafLine, formatDatetime, List.map_append]

end Kskm

namespace Kskm

def BundleInRange (b : Bundle) : Prop :=
  b.keys ≠ [] ∧ b.signatures ≠ [] ∧ (∀ s ∈ b.signatures, SigInRange s) ∧
    (minInstant ≤ b.inception ∧ b.inception ≤ maxInstant) ∧ (minInstant ≤ b.expiration ∧ b.expiration ≤ maxInstant)

/-- `_skr_response_bundles_to_xml` -/
theorem bundlesXml_eq (r : Response) (h : ∀ b ∈ r.bundles, BundleInRange b ∧ (bundleTree b).safe)
    (hks : ∀ b ∈ r.bundles, (∀ k ∈ b.keys, (keyTree k).safe) ∧ (∀ s ∈ b.signatures, (sigTree s).safe)) :
    bundlesXml r = .ok ((r.bundles.map (fun b => block (renderLines (bundleTree b)))).flatten) := by
  unfold bundlesXml
  rw [mapM_ok bundleXml (fun b => block (renderLines (bundleTree b))) _ (fun b hb => by
    obtain ⟨⟨h1, h2, h3, h4, h5⟩, _⟩ := h b hb
    exact bundleXml_eq b h1 h2 (hks b hb).1 (hks b hb).2 h3 h4 h5)]
  rfl

/-- `_signature_algorithms_to_xml` -/
theorem algsXml_eq (algs : List AlgPolicy) (h : ∀ a ∈ algs, algOk a = true) :
    algsXml algs = .ok ((algs.map (fun a => block (renderLines (algTree a)))).flatten) := by
  unfold algsXml
  rw [mapM_ok algXml (fun a => block (renderLines (algTree a))) _ (fun a ha => algXml_eq a (h a ha))]
  rfl

/-- `_indent` of a text given by single-line lines some of which are blank -/
theorem indent_lines (ls : List (List Char)) (hnl : ∀ l ∈ ls, '\n' ∉ l) (c : Char) (r : List Char)
    (t : List (List Char)) (hhead : nonEmptyLines ls = (c :: r) :: t) (hc : pyIsSpace c = false) :
    sp4 ++ indent (joinNl ls) = joinNl ((nonEmptyLines ls).map ind) := by
  rw [indent_joinNl ls hnl, hhead, sp4_lstrip_ind c r t hc]

theorem nonEmptyLines_append (a b : List (List Char)) :
    nonEmptyLines (a ++ b) = nonEmptyLines a ++ nonEmptyLines b := by
  simp [nonEmptyLines]

theorem nonEmptyLines_of_ok (ls : List (List Char)) (h : ∀ l ∈ ls, LineOk l) : nonEmptyLines ls = ls := by
  unfold nonEmptyLines
  rw [List.filter_eq_self]
  intro l hl
  have := (h l hl).2
  cases l <;> simp_all

/-- `_skr_response_policy_to_xml2` inside its template line -/
theorem policy2_lines (name : String) (p : SigPolicy) (hn : Safe name.toList) (hne : p.algorithms ≠ [])
    (ha : ∀ a ∈ p.algorithms, algOk a = true) :
    ∃ text, policy2Xml name p = .ok text ∧
      sp4 ++ indent text = joinNl ((renderLines (policyTree name p)).map ind) := by
  have hA := indent_elements algTree p.algorithms hne (fun a _ => algTree_safe a)
  have hsafe := policyTree_safe name p hn
  have hok := renderLines_ok _ hsafe
  refine ⟨_, by simp only [policy2Xml, algsXml_eq _ ha, bind, Except.bind, pure, Except.pure, hA]; rfl, ?_⟩
  -- the lines of the template, the algorithm block spliced in
  have hAne : (renderLinesList (p.algorithms.map algTree)).map ind ≠ [] := by
    intro e
    exact renderLinesList_nonempty _ (by simpa using hne) (List.map_eq_nil_iff.mp e)
  have s1 := joinNl_splice
    [[], openTag name [], [], leafLine "PublishSafety" (formatDurationChars p.publishSafety),
      leafLine "RetireSafety" (formatDurationChars p.retireSafety),
      leafLine "MaxSignatureValidity" (formatDurationChars p.maxSignatureValidity),
      leafLine "MinSignatureValidity" (formatDurationChars p.minSignatureValidity),
      leafLine "MaxValidityOverlap" (formatDurationChars p.maxValidityOverlap),
      leafLine "MinValidityOverlap" (formatDurationChars p.minValidityOverlap)]
    ((renderLinesList (p.algorithms.map algTree)).map ind) [closeTag name, []] hAne
  simp only [List.cons_append, List.nil_append, List.append_assoc, List.singleton_append] at s1
  rw [s1]
  -- the rendered lines of the element
  have hlines : renderLines (policyTree name p) =
      openTag name [] :: ([leafLine "PublishSafety" (formatDurationChars p.publishSafety),
      leafLine "RetireSafety" (formatDurationChars p.retireSafety),
      leafLine "MaxSignatureValidity" (formatDurationChars p.maxSignatureValidity),
      leafLine "MinSignatureValidity" (formatDurationChars p.minSignatureValidity),
      leafLine "MaxValidityOverlap" (formatDurationChars p.maxValidityOverlap),
      leafLine "MinValidityOverlap" (formatDurationChars p.minValidityOverlap)]
      ++ (renderLinesList (p.algorithms.map algTree)).map ind ++ [closeTag name]) := by
    simp [policyTree, renderLines, renderLinesList, renderLinesList_append, leafLine, formatDuration, List.map_append]
  have hne' : nonEmptyLines ([] :: openTag name [] :: [] ::
      leafLine "PublishSafety" (formatDurationChars p.publishSafety) ::
      leafLine "RetireSafety" (formatDurationChars p.retireSafety) ::
      leafLine "MaxSignatureValidity" (formatDurationChars p.maxSignatureValidity) ::
      leafLine "MinSignatureValidity" (formatDurationChars p.minSignatureValidity) ::
      leafLine "MaxValidityOverlap" (formatDurationChars p.maxValidityOverlap) ::
      leafLine "MinValidityOverlap" (formatDurationChars p.minValidityOverlap) ::
      ((renderLinesList (p.algorithms.map algTree)).map ind ++ [closeTag name, []]))
      = renderLines (policyTree name p) := by
    have := nonEmptyLines_of_ok _ hok
    rw [hlines] at this ⊢
    simp only [nonEmptyLines, List.filter_cons, List.isEmpty_nil, Bool.not_true, Bool.false_eq_true, ↓reduceIte,
      List.cons_append, List.nil_append, List.filter_append, List.filter_nil, List.append_assoc] at this ⊢
    exact this
  obtain ⟨r0, rest0, hr0⟩ := renderLines_head (policyTree name p)
  rw [indent_lines _ ?_ '<' r0 rest0 (by rw [hne', hr0]) lt_not_space, hne']
  -- single-line
  intro l hl
  have hmem : l = [] ∨ l ∈ renderLines (policyTree name p) := by
    rw [hlines]
    simp only [List.mem_cons, List.mem_append, List.not_mem_nil, or_false] at hl ⊢
    rcases hl with h | h | h | h | h | h | h | h | h | h | h | h
    all_goals simp [h]
  rcases hmem with rfl | h
  · simp
  · exact (hok l h).1

end Kskm

namespace Kskm

def PolicyInRange (p : SigPolicy) : Prop := p.algorithms ≠ [] ∧ ∀ a ∈ p.algorithms, algOk a = true

def rpTree (r : Response) : XTree :=
  .node "ResponsePolicy" [] [policyTree "KSK" r.kskPolicy, policyTree "ZSK" r.zskPolicy]

theorem map_ind_ne_nil (t : XTree) : (renderLines t).map ind ≠ [] := by
  intro e; exact renderLines_nonempty t (List.map_eq_nil_iff.mp e)

/-- `_skr_response_policy_to_xml` -/
theorem policyXml_eq (r : Response) (hk : PolicyInRange r.kskPolicy) (hz : PolicyInRange r.zskPolicy) :
    policyXml r = .ok (block (renderLines (rpTree r))) := by
  obtain ⟨tk, hk1, hk2⟩ := policy2_lines "KSK" r.kskPolicy (by unfold Safe; decide) hk.1 hk.2
  obtain ⟨tz, hz1, hz2⟩ := policy2_lines "ZSK" r.zskPolicy (by unfold Safe; decide) hz.1 hz.2
  simp only [policyXml, hk1, hz1, bind, Except.bind, pure, Except.pure, hk2, hz2]
  refine congrArg Except.ok ?_
  unfold block
  have s1 := joinNl_splice [[], openTag "ResponsePolicy" []]
    ((renderLines (policyTree "KSK" r.kskPolicy)).map ind)
    [joinNl ((renderLines (policyTree "ZSK" r.zskPolicy)).map ind), closeTag "ResponsePolicy", []] (map_ind_ne_nil _)
  have s2 := joinNl_splice ([[], openTag "ResponsePolicy" []] ++ (renderLines (policyTree "KSK" r.kskPolicy)).map ind)
    ((renderLines (policyTree "ZSK" r.zskPolicy)).map ind) [closeTag "ResponsePolicy", []] (map_ind_ne_nil _)
  simp only [List.cons_append, List.nil_append, List.append_assoc, List.singleton_append] at s1 s2
  rw [s1, s2]
  simp [rpTree, renderLines, renderLinesList, List.map_append]

def respTree (r : Response) : XTree := .node "Response" [] (rpTree r :: r.bundles.map bundleTree)

theorem rpTree_safe (r : Response) : (rpTree r).safe := by
  unfold rpTree
  simp only [XTree.safe, XTree.safeList, and_true]
  exact ⟨by unfold Safe; decide, attrsSafe_nil, policyTree_safe _ _ (by unfold Safe; decide),
    policyTree_safe _ _ (by unfold Safe; decide)⟩

/-- `_skr_response_to_xml` -/
theorem responseXml_eq (r : Response) (hk : PolicyInRange r.kskPolicy) (hz : PolicyInRange r.zskPolicy)
    (hne : r.bundles ≠ []) (h : ∀ b ∈ r.bundles, BundleInRange b ∧ (bundleTree b).safe)
    (hks : ∀ b ∈ r.bundles, (∀ k ∈ b.keys, (keyTree k).safe) ∧ (∀ s ∈ b.signatures, (sigTree s).safe)) :
    responseXml r = .ok (block (renderLines (respTree r))) := by
  have hP := indent_elements (fun (_ : Unit) => rpTree r) [()] (by simp) (fun _ _ => rpTree_safe r)
  have hB := indent_elements bundleTree r.bundles hne (fun b hb => (h b hb).2)
  simp only [List.map_cons, List.map_nil, List.flatten_cons, List.flatten_nil, List.append_nil, renderLinesList] at hP
  simp only [responseXml, policyXml_eq r hk hz, bundlesXml_eq r h hks, bind, Except.bind, pure, Except.pure, hP, hB]
  refine congrArg Except.ok ?_
  unfold block
  have hBne : (renderLinesList (r.bundles.map bundleTree)).map ind ≠ [] := by
    intro e
    exact renderLinesList_nonempty _ (by simpa using hne) (List.map_eq_nil_iff.mp e)
  have s1 := joinNl_splice [[], openTag "Response" []] ((renderLines (rpTree r)).map ind)
    [joinNl ((renderLinesList (r.bundles.map bundleTree)).map ind), closeTag "Response", []] (map_ind_ne_nil _)
  have s2 := joinNl_splice ([[], openTag "Response" []] ++ (renderLines (rpTree r)).map ind)
    ((renderLinesList (r.bundles.map bundleTree)).map ind) [closeTag "Response", []] hBne
  simp only [List.cons_append, List.nil_append, List.append_assoc, List.singleton_append] at s1 s2
  rw [s1, s2]
  simp [respTree, renderLines, renderLinesList, List.map_append]

theorem respTree_safe (r : Response) (h : ∀ b ∈ r.bundles, (bundleTree b).safe) : (respTree r).safe := by
  unfold respTree
  simp only [XTree.safe, XTree.safeList]
  exact ⟨by unfold Safe; decide, attrsSafe_nil, rpTree_safe r, safeList_map _ _ h⟩

/-- `skr_to_xml` -/
theorem skrToXmlChars_eq_render (r : Response) (hts : r.timestamp = none)
    (hints : (printedInts r).all printable = true)
    (hk : PolicyInRange r.kskPolicy) (hz : PolicyInRange r.zskPolicy)
    (hne : r.bundles ≠ []) (h : ∀ b ∈ r.bundles, BundleInRange b ∧ (bundleTree b).safe)
    (hks : ∀ b ∈ r.bundles, (∀ k ∈ b.keys, (keyTree k).safe) ∧ (∀ s ∈ b.signatures, (sigTree s).safe)) :
    skrToXmlChars r = .ok (renderDoc (treeOf r)) := by
  have hR := indent_elements (fun (_ : Unit) => respTree r) [()] (by simp)
    (fun _ _ => respTree_safe r (fun b hb => (h b hb).2))
  simp only [List.map_cons, List.map_nil, List.flatten_cons, List.flatten_nil, List.append_nil, renderLinesList] at hR
  simp only [skrToXmlChars, hts, hints, Bool.not_true, Option.isSome_none, Bool.false_eq_true, ↓reduceIte, responseXml_eq r hk hz hne h hks,
    bind, Except.bind, pure, Except.pure, hR]
  refine congrArg Except.ok ?_
  have s1 := joinNl_splice
    [xmlDecl, openTag "KSR" [("id", r.id), ("domain", r.domain), ("serial", str (pyIntStr r.serial))]]
    ((renderLines (respTree r)).map ind) [closeTag "KSR", []] (map_ind_ne_nil _)
  simp only [List.cons_append, List.nil_append, List.append_assoc, List.singleton_append] at s1
  rw [s1]
  simp [renderDoc, treeOf, respTree, rpTree, renderLines, renderLinesList, List.map_append]

end Kskm

namespace Kskm

theorem instantOk_range (t : Int) (h : instantOk t = true) : minInstant ≤ t ∧ t ≤ maxInstant := by
  simp only [instantOk, Bool.and_eq_true, decide_eq_true_eq] at h
  exact ⟨h.1.1.1.2, h.1.1.2⟩

theorem printable_of_bounds (i : Int) (h0 : 0 ≤ i) (h1 : i ≤ 65535) : printable i = true := by
  have big : (65536 : Nat) ≤ 10 ^ maxStrDigits := by
    calc (65536 : Nat) ≤ 10 ^ 5 := by decide
      _ ≤ 10 ^ maxStrDigits := Nat.pow_le_pow_right (by decide) (by decide)
  simp only [printable, decide_eq_true_eq]
  omega

theorem printable_nat (n : Nat) (h : n ≤ 65535) : printable (n : Int) = true :=
  printable_of_bounds _ (by omega) (by omega)

/-- every integer the writer prints is printable on the domain -/
theorem domain_printable (r : Response) (h : WriterDomain r) : (printedInts r).all printable = true := by
  have hp := domain_parts r h
  have halg : ∀ p : SigPolicy, policyOk p = true → ∀ a ∈ p.algorithms,
      ([(a.algorithm : Int), a.bits, a.exponent.getD 0].all printable) = true := by
    intro p hpo a ha
    have ap := algOk_parts a ((policyOk_parts p hpo).algs a ha)
    have : a.algorithm ≤ 65535 := by rcases ap.alg with e | e | e <;> omega
    simp [printable_nat _ this, ap.pbits, ap.pexp]
  simp only [printedInts, List.all_cons, List.all_append, List.all_flatMap, Bool.and_eq_true, List.all_eq_true,
    List.all_nil, Bool.and_true]
  refine ⟨⟨hp.pserial, ?_, ?_⟩, ?_⟩
  · intro a ha
    have := halg _ hp.ksk a ha
    simpa [and_assoc] using this
  · intro a ha
    have := halg _ hp.zsk a ha
    simpa [and_assoc] using this
  · intro b hb
    have bp := bundleOk_parts b (hp.bundles b hb)
    constructor
    · intro k hk
      have kp := keyOk_parts k (bp.keys k hk)
      simp [printable_of_bounds _ kp.tag0 kp.tag1, kp.pttl, printable_of_bounds _ kp.flags0 kp.flags1,
        printable_of_bounds k.protocol (by rw [kp.protocol]; decide) (by rw [kp.protocol]; decide),
        printable_nat k.algorithm (by have := kp.alg; omega)]
    · intro s hs
      have sp := sigOk_parts s (bp.sigs s hs)
      simp [sp.pttl, sp.pottl, printable_of_bounds _ sp.tag0 sp.tag1,
        printable_of_bounds _ sp.labels0 (by have := sp.labels1; omega), printable_nat s.algorithm (by have := sp.alg; omega)]

/-- On the writer's domain the text `skr_to_xml` produces is the rendering of `treeOf r`. -/
theorem skrToXmlChars_of_domain (r : Response) (h : WriterDomain r) :
    skrToXmlChars r = .ok (renderDoc (treeOf r)) := by
  have hp := domain_parts r h
  have hpol : ∀ p : SigPolicy, policyOk p = true → PolicyInRange p := fun p hp' =>
    ⟨(policyOk_parts p hp').algsNe, (policyOk_parts p hp').algs⟩
  apply skrToXmlChars_eq_render r hp.ts (domain_printable r h) (hpol _ hp.ksk) (hpol _ hp.zsk) hp.bundlesNe
  · intro b hbm
    have hbo := hp.bundles b hbm
    have bp := bundleOk_parts b hbo
    refine ⟨⟨bp.keysNe, bp.sigsNe, ?_, instantOk_range _ bp.inc, instantOk_range _ bp.exp⟩, bundleTree_safe b hbo⟩
    intro s hs
    have sp := sigOk_parts s (bp.sigs s hs)
    exact ⟨sp.tc, instantOk_range _ sp.exp, instantOk_range _ sp.inc⟩
  · intro b hbm
    have bp := bundleOk_parts b (hp.bundles b hbm)
    exact ⟨fun k hk => keyTree_safe k (bp.keys k hk), fun s hs => sigTree_safe s (bp.sigs s hs)⟩

end Kskm
