/-
  Helper lemmas for C07 (proof of possession).  Nothing here is a property statement; the property
  theorems are in `KskmProofs/C07.lean`.
-/
import Kskm.KsrPolicy
import KskmProofs.Lemmas.Res
set_option linter.unusedSimpArgs false
namespace Kskm.C07L

/-! ### duplicate key identifiers, key lookup -/

theorem hasDupIds_eq_false_iff (l : List Key) :
    hasDupIds l = false ↔ (l.map (·.keyIdentifier)).Nodup := by
  induction l with
  | nil => simp [hasDupIds]
  | cons k r ih =>
    simp only [hasDupIds, Bool.or_eq_false_iff, ih, List.map_cons, List.nodup_cons]
    apply and_congr_left'
    simp only [List.any_eq_false, decide_eq_true_eq, List.mem_map, not_exists, not_and]

theorem lookupKey_some {keys : List Key} {id : String} {k : Key} (h : lookupKey keys id = some k) :
    k ∈ keys ∧ k.keyIdentifier = id := by
  unfold lookupKey at h
  exact ⟨List.mem_of_find?_eq_some h, by simpa using List.find?_some h⟩

theorem lookupKey_none {keys : List Key} {id : String} :
    lookupKey keys id = none ↔ ∀ k ∈ keys, k.keyIdentifier ≠ id := by
  unfold lookupKey
  rw [List.find?_eq_none]
  simp

/-- with duplicate-free identifiers the lookup returns *the* key carrying the identifier -/
theorem lookupKey_of_mem : ∀ {keys : List Key} {k : Key}, (keys.map (·.keyIdentifier)).Nodup → k ∈ keys →
    lookupKey keys k.keyIdentifier = some k
  | [], _, _, h => by simp at h
  | a :: r, k, hn, h => by
    simp only [List.map_cons, List.nodup_cons, List.mem_map, not_exists, not_and] at hn
    unfold lookupKey
    rw [List.find?_cons]
    rcases List.mem_cons.mp h with rfl | hk
    · simp
    · have : a.keyIdentifier ≠ k.keyIdentifier := fun e => hn.1 k hk e.symm
      simp only [this, decide_false]
      exact lookupKey_of_mem hn.2 hk

theorem eq_of_same_id {keys : List Key} {a b : Key} (hn : (keys.map (·.keyIdentifier)).Nodup)
    (ha : a ∈ keys) (hb : b ∈ keys) (h : a.keyIdentifier = b.keyIdentifier) : a = b := by
  have h1 := lookupKey_of_mem hn ha
  have h2 := lookupKey_of_mem hn hb
  rw [h] at h1
  rw [h1] at h2
  exact Option.some.inj h2

/-! ### `mapM` in `Res` -/

/-- the value a successful `f` yields, `d` otherwise -/
def okOr {α β} (f : α → Res β) (d : β) (a : α) : β :=
  match f a with
  | .ok r => r
  | .error _ => d

theorem mapM_ok_iff {α β} (f : α → Res β) (d : β) : ∀ (l : List α) (rs : List β),
    l.mapM f = .ok rs ↔ (∀ a ∈ l, ∃ r, f a = .ok r) ∧ rs = l.map (okOr f d) := by
  intro l
  induction l with
  | nil => intro rs; simp [pure, Except.pure, eq_comm]
  | cons a r ih =>
    intro rs
    rw [List.mapM_cons]
    cases ha : f a with
    | error e => simp [bind, Except.bind, ha]
    | ok x =>
      cases hr : List.mapM f r with
      | error e =>
        simp only [bind, Except.bind, List.mem_cons, forall_eq_or_imp, ha, List.map_cons]
        constructor
        · intro h; cases h
        rintro ⟨⟨_, hall⟩, _⟩
        have h2 := (ih (r.map (okOr f d))).mpr ⟨hall, rfl⟩
        rw [hr] at h2; cases h2
      | ok xs =>
        obtain ⟨hall, hxs⟩ := (ih xs).mp hr
        simp only [bind, Except.bind, pure, Except.pure, Except.ok.injEq, List.mem_cons,
          forall_eq_or_imp, ha, List.map_cons, exists_eq', true_and]
        have hx : okOr f d a = x := by simp [okOr, ha]
        rw [hx, ← hxs]
        constructor
        · intro h; exact ⟨hall, h.symm⟩
        · rintro ⟨_, h⟩; exact h.symm

/-! ### fixed-width big-endian fields are injective on their wire range -/

theorem ofNat_inj_mod {a b : Nat} (h : UInt8.ofNat a = UInt8.ofNat b) : a % 256 = b % 256 := by
  have := congrArg UInt8.toNat h
  simpa [UInt8.toNat_ofNat'] using this

theorem be8_inj {a b : Nat} (ha : a < 256) (hb : b < 256) (h : be8 a = be8 b) : a = b := by
  simp only [be8, List.cons.injEq, and_true] at h
  have := ofNat_inj_mod h
  omega

theorem be16_inj {a b : Nat} (ha : a < 65536) (hb : b < 65536) (h : be16 a = be16 b) : a = b := by
  simp only [be16, List.cons.injEq, and_true] at h
  have h1 := ofNat_inj_mod h.1
  have h2 := ofNat_inj_mod h.2
  omega

theorem be32_inj {a b : Nat} (ha : a < 4294967296) (hb : b < 4294967296) (h : be32 a = be32 b) : a = b := by
  simp only [be32, List.cons.injEq, and_true] at h
  have h1 := ofNat_inj_mod h.1
  have h2 := ofNat_inj_mod h.2.1
  have h3 := ofNat_inj_mod h.2.2.1
  have h4 := ofNat_inj_mod h.2.2.2
  omega

theorem rrsigHeader_length (tc a l o e i t : Nat) : (rrsigHeader tc a l o e i t).length = 18 := by
  simp [rrsigHeader, be16, be8, be32]

/-! ### the per-signature step of `validate_signatures` and the per-bundle step of the PoP rule -/

def sigStep (verify : Verifier) (b : Bundle) (sig : Signature) : Res Unit := do
  match lookupKey b.keys sig.keyIdentifier with
  | none => err .value
  | some key =>
    publicKeyFromKey key
    match Base64.decode sig.signatureData with
    | none => unsupported
    | some sigBytes =>
      let raw ← makeRawRrsig sig b.keys
      match verify key.algorithm key.publicKey raw sigBytes with
      | .valid => pure ()
      | .invalid => err .invalidSignature
      | .error k => err k
      | .unknown => unsupported

theorem sigStep_ok_iff (verify : Verifier) (b : Bundle) (sig : Signature) :
    sigStep verify b sig = .ok () ↔
      ∃ key, lookupKey b.keys sig.keyIdentifier = some key ∧ publicKeyFromKey key = .ok () ∧
        ∃ raw sigBytes, makeRawRrsig sig b.keys = .ok raw ∧
          Base64.decode sig.signatureData = some sigBytes ∧
          verify key.algorithm key.publicKey raw sigBytes = .valid := by
  unfold sigStep
  cases hl : lookupKey b.keys sig.keyIdentifier with
  | none => simp [err]
  | some key =>
    simp only [Option.some.injEq, exists_eq_left']
    cases hp : publicKeyFromKey key with
    | error e => simp [bind, Except.bind]
    | ok u =>
      cases u
      simp only [bind, Except.bind, true_and]
      cases hd : Base64.decode sig.signatureData with
      | none => simp [unsupported]
      | some sigBytes =>
        simp only [Option.some.injEq, exists_eq_left']
        cases hr : makeRawRrsig sig b.keys with
        | error e => simp
        | ok raw =>
          simp only [Except.ok.injEq, exists_eq_left']
          cases hv : verify key.algorithm key.publicKey raw sigBytes <;>
            simp [hv, pure, Except.pure, err, unsupported]

theorem validateSignatures_eq (verify : Verifier) (b : Bundle) :
    validateSignatures verify b =
      if b.keys.isEmpty then err .value
      else if b.signatures.isEmpty then err .value
      else if hasDupIds b.keys then err .value
      else forEach b.signatures (sigStep verify b) := by
  unfold validateSignatures
  by_cases h1 : b.keys.isEmpty = true
  · simp [h1, err, bind, Except.bind]
  · by_cases h2 : b.signatures.isEmpty = true
    · simp [h1, h2, err, bind, Except.bind, pure, Except.pure]
    · by_cases h3 : hasDupIds b.keys = true
      · simp [h1, h2, h3, err, bind, Except.bind, pure, Except.pure]
      · simp only [h1, h2, h3, Bool.false_eq_true, ↓reduceIte, bind, Except.bind, pure, Except.pure]
        rfl

/-- what the PoP rule does with one bundle -/
def popStep (verify : Verifier) (b : Bundle) : Res Unit := do
  match validateSignatures verify b with
  | .error (.error .invalidSignature) => violation .bundlePop
  | .error e => .error e
  | .ok () => pure ()
  forEach b.keys fun k =>
    if b.signatures.any (fun s => s.keyIdentifier = k.keyIdentifier) then pure ()
    else violation .bundlePop

theorem checkProofOfPossession_eq (verify : Verifier) (req : Request) (pol : RequestPolicy) :
    checkProofOfPossession verify req pol =
      if !pol.validateSignatures then pure () else forEach req.bundles (popStep verify) := rfl

theorem popStep_ok_iff (verify : Verifier) (b : Bundle) :
    popStep verify b = .ok () ↔
      validateSignatures verify b = .ok () ∧
      ∀ k ∈ b.keys, ∃ s ∈ b.signatures, s.keyIdentifier = k.keyIdentifier := by
  unfold popStep
  cases hv : validateSignatures verify b with
  | error e =>
    cases e with
    | violation r => simp [bind, Except.bind]
    | unsupported => simp [bind, Except.bind]
    | error k => cases k <;> simp [bind, Except.bind, violation]
  | ok u =>
    cases u
    simp only [bind, Except.bind, pure, Except.pure, true_and, forEach_ok_iff,
      List.any_eq_true, decide_eq_true_eq]
    apply forall_congr'; intro k; apply imp_congr_right; intro _
    by_cases hx : ∃ x, x ∈ b.signatures ∧ x.keyIdentifier = k.keyIdentifier
    · simp [hx]
    · simp [hx, violation]

/-- the PoP step never ends in anything but acceptance, a PoP violation, or the error
    `validate_signatures` itself raised -/
theorem popStep_cases (verify : Verifier) (b : Bundle) :
    popStep verify b = .ok () ∨ popStep verify b = violation .bundlePop ∨
    (∃ e, validateSignatures verify b = .error e ∧ e ≠ .error .invalidSignature ∧
      popStep verify b = .error e) := by
  unfold popStep
  cases hv : validateSignatures verify b with
  | error e =>
    by_cases he : e = .error .invalidSignature
    · subst he; right; left; simp [bind, Except.bind, violation]
    · right; right
      refine ⟨e, rfl, he, ?_⟩
      cases e with
      | violation r => simp [bind, Except.bind]
      | unsupported => simp [bind, Except.bind]
      | error k => cases k <;> simp_all [bind, Except.bind]
  | ok u =>
    cases u
    simp only [bind, Except.bind, pure, Except.pure]
    generalize b.keys = ks
    induction ks with
    | nil => left; rfl
    | cons k r ih =>
      simp only [forEach]
      by_cases hk : (b.signatures.any fun s => s.keyIdentifier = k.keyIdentifier) = true
      · simp only [hk, ↓reduceIte, pure, Except.pure, bind, Except.bind]
        rcases ih with h | h | ⟨e, h, _⟩
        · left; exact h
        · right; left; exact h
        · cases h
      · right; left
        simp [hk, bind, Except.bind, violation]

/-- a loop whose every step either accepts or raises the violation `r`, and in which some step does
    not accept, ends in the violation `r` -/
theorem forEach_violation {α} (f : α → Res Unit) (r : Rule) : ∀ (l : List α),
    (∀ a ∈ l, f a = .ok () ∨ f a = violation r) → (∃ a ∈ l, f a ≠ .ok ()) →
    forEach l f = violation r
  | [], _, h => by obtain ⟨a, ha, _⟩ := h; simp at ha
  | a :: as, hall, hex => by
    simp only [forEach]
    rcases hall a (by simp) with h | h
    · rw [h]
      simp only [bind, Except.bind]
      apply forEach_violation f r as (fun x hx => hall x (List.mem_cons_of_mem _ hx))
      obtain ⟨x, hx, hne⟩ := hex
      rcases List.mem_cons.mp hx with rfl | hx
      · exact absurd h hne
      · exact ⟨x, hx, hne⟩
    · rw [h]; rfl

end Kskm.C07L
