/-
  Helper lemmas for C10's `emitted_is_loadable` / `C10_timeline_files`:

    * the response-side validation (`validate_response`: bundle count, `check_valid_signatures` per
      bundle) does not depend on the list representation of the key / signature sets, so it passes on
      what the reader makes of a response (`ReadBack.readBackWith`) whenever it passed on the response
      itself (from C07's exact characterisation of `validate_signatures` and the order-independence of
      the RFC 4034 to-be-signed octets);
    * every bundle `create_skr` returns has passed `check_valid_signatures` (the loop of `sign_bundles`
      re-validates each response bundle before it is kept);
    * the neighbour relation of C10 looks at a previous SKR only through its set-valued content, so it
      transfers along `ReadBack.SameResponse`.
-/
import KskmProofs.C07
import KskmProofs.C11
import KskmProofs.Lemmas.SignerInv
import Kskm.Ceremony
namespace Kskm.C10L
open Kskm Kskm.ReadBack Kskm.C07

/-! ### validation is about sets -/

theorem nodup_of_ids {l : List Key} (h : (l.map (·.keyIdentifier)).Nodup) : l.Nodup := by
  induction l with
  | nil => exact List.nodup_nil
  | cons a t ih =>
    rw [List.map_cons, List.nodup_cons] at h
    rw [List.nodup_cons]
    exact ⟨fun hm => h.1 (List.mem_map_of_mem hm), ih h.2⟩

theorem dedup_ne_nil {α} [DecidableEq α] {l : List α} (h : l ≠ []) : Xml.dedup l ≠ [] := by
  cases l with
  | nil => exact absurd rfl h
  | cons a t => simp [Xml.dedup]

/-- the keys the reader returns for a bundle whose key identifiers are pairwise different: the same
    keys, in key-tag order -/
theorem readBack_keys_perm (b : Bundle) (h : (b.keys.map (·.keyIdentifier)).Nodup) :
    (readBackBundle b).keys.Perm b.keys := by
  have hp : (sortKeys b.keys).Perm b.keys := List.mergeSort_perm _ _
  have hn : (sortKeys b.keys).Nodup := hp.nodup_iff.mpr (nodup_of_ids h)
  simp only [readBackBundle, dedup_eq_self _ hn]
  exact hp

theorem validateSignatures_readBack (verify : Verifier) (b : Bundle) (h : validateSignatures verify b = .ok ()) :
    validateSignatures verify (readBackBundle b) = .ok () := by
  rw [validateSignatures_ok_iff] at h ⊢
  obtain ⟨h1, h2, h3, h4⟩ := h
  have hp := readBack_keys_perm b h3
  refine ⟨?_, ?_, ?_, ?_⟩
  · intro e; rw [e] at hp; exact h1 (List.Perm.eq_nil hp.symm)
  · exact dedup_ne_nil h2
  · exact ((hp.map _).nodup_iff).mpr h3
  · intro sig hsig
    have hsig' : sig ∈ b.signatures := (mem_dedup sig _).mp hsig
    obtain ⟨key, ⟨hm, hid, raw, sb, hr, hd, hv⟩, hl⟩ := h4 sig hsig'
    exact ⟨key, ⟨hp.mem_iff.mpr hm, hid, raw, sb, makeRawRrsig_perm sig _ _ hp.symm raw hr, hd, hv⟩, hl⟩

theorem checkValidSignatures_ok_iff (verify : Verifier) (b : Bundle) (pol : ResponsePolicy) :
    checkValidSignatures verify b pol = .ok () ↔
      (pol.validateSignatures = false ∨ validateSignatures verify b = .ok ()) := by
  unfold checkValidSignatures
  cases hf : pol.validateSignatures
  · simp [pure, Except.pure]
  · simp only [Bool.not_true, Bool.false_eq_true, ↓reduceIte]
    split
    · rename_i he; simp [he, violation]
    · rename_i e _ he; simp [he]
    · rename_i he; simp [he, pure, Except.pure]

theorem checkValidSignatures_readBack (verify : Verifier) (b : Bundle) (pol : ResponsePolicy)
    (h : checkValidSignatures verify b pol = .ok ()) :
    checkValidSignatures verify (readBackBundle b) pol = .ok () := by
  rw [checkValidSignatures_ok_iff] at h ⊢
  rcases h with h | h
  · exact Or.inl h
  · exact Or.inr (validateSignatures_readBack verify b h)

theorem validateResponse_ok_iff (verify : Verifier) (r : Response) (pol : ResponsePolicy) :
    validateResponse verify r pol = .ok () ↔
      (r.bundles.length : Int) = pol.numBundles ∧ ∀ b ∈ r.bundles, checkValidSignatures verify b pol = .ok () := by
  unfold validateResponse
  by_cases hc : (r.bundles.length : Int) = pol.numBundles
  · simp [hc, forEach_ok_iff]
  · simp [hc, bind, Except.bind, violation]

/-- **`validate_response` passes on what the reader returns** whenever it passed on the written response
    (bundles already in the loader's order) -/
theorem validateResponse_readBack (gs : Xml.GlueSwitches) (verify : Verifier) (r : Response) (pol : ResponsePolicy)
    (hs : bundlesSorted r.bundles = true) (h : validateResponse verify r pol = .ok ()) :
    validateResponse verify (readBackWith gs r) pol = .ok () := by
  rw [validateResponse_ok_iff] at h ⊢
  rw [readBack_bundles gs r hs]
  refine ⟨by simpa using h.1, ?_⟩
  intro b hb
  obtain ⟨b0, hb0, rfl⟩ := List.mem_map.mp hb
  exact checkValidSignatures_readBack verify b0 pol (h.2 b0 hb0)

theorem loadSkrGate_of_valid (verify : Verifier) (r : Response) (pol : ResponsePolicy)
    (h : validateResponse verify r pol = .ok ()) : loadSkrGate verify r pol = .ok () := by
  unfold loadSkrGate
  rw [h]

/-! ### what `create_skr` returns has been re-validated bundle by bundle -/

theorem createSkr_bundles_valid (ext : Externals) (mods : List P11Module) (cfg : SignerConfig) (req : Request)
    (skr : Response) (t : Token) (s s' : TokState) (h : createSkr ext mods cfg req t s = (.ok skr, s')) :
    skr.bundles.length = req.bundles.length ∧
    ∀ rb ∈ skr.bundles, checkValidSignatures ext.verify rb cfg.responsePolicy = .ok () := by
  unfold createSkr at h
  obtain ⟨bundles, s1, h1, h2⟩ := TokM.bind_ok _ _ _ _ _ _ h
  obtain ⟨kp, s2, _, h3⟩ := TokM.bind_ok _ _ _ _ _ _ h2
  simp only [TokM.pure_run, Prod.mk.injEq, Except.ok.injEq] at h3
  rw [← h3.1]
  simp only
  obtain ⟨hlen, hall⟩ := signBundlesFrom_ok h1
  refine ⟨hlen, ?_⟩
  intro rb hrb
  obtain ⟨i, hi, rfl⟩ := List.mem_iff_getElem.mp hrb
  have hi' : i < req.bundles.length := by omega
  obtain ⟨rb', sa, sb, hget, hsign⟩ := hall i req.bundles[i] (List.getElem?_eq_getElem hi')
  rw [List.getElem?_eq_getElem hi] at hget
  simp only [Option.some.injEq] at hget
  subst hget
  obtain ⟨_, _, _, _, _, _, _, _, _, _, _, _, _, _, _, hfin⟩ := signBundle_ok hsign
  exact (finishBundle_ok hfin).2.2

/-! ### the neighbour relation sees a previous SKR through its sets only -/

theorem SameResponse.refl (a : Response) : SameResponse a a :=
  ⟨rfl, rfl, rfl, rfl, ⟨rfl, fun _ => Iff.rfl⟩, ⟨rfl, fun _ => Iff.rfl⟩, rfl, by
    intro i x y hx hy
    rw [hx] at hy
    simp only [Option.some.injEq] at hy
    subst hy
    exact ⟨rfl, rfl, rfl, rfl, fun _ => Iff.rfl, fun _ => Iff.rfl⟩⟩

/-- corresponding last bundles -/
theorem same_last {a' a : Response} (h : SameResponse a' a) (x : Bundle) (hx : a.bundles.getLast? = some x) :
    ∃ x', a'.bundles.getLast? = some x' ∧ x'.id = x.id ∧ x'.inception = x.inception ∧
      x'.expiration = x.expiration ∧ (∀ k, k ∈ x'.keys ↔ k ∈ x.keys) := by
  rw [List.getLast?_eq_getElem?] at hx
  have hlt : a.bundles.length - 1 < a.bundles.length := by
    rcases Nat.lt_or_ge (a.bundles.length - 1) a.bundles.length with h' | h'
    · exact h'
    · rw [List.getElem?_eq_none h'] at hx; cases hx
  have hlt' : a'.bundles.length - 1 < a'.bundles.length := by rw [h.length]; exact hlt
  refine ⟨a'.bundles[a'.bundles.length - 1], ?_, ?_⟩
  · rw [List.getLast?_eq_getElem?, List.getElem?_eq_getElem hlt']
  · have hx' : a'.bundles[a.bundles.length - 1]? = some (a'.bundles[a'.bundles.length - 1]) := by
      rw [← h.length, List.getElem?_eq_getElem hlt']
    obtain ⟨e1, e2, e3, _, e5, _⟩ := h.bundles _ _ _ hx' hx
    exact ⟨e1, e2, e3, e5⟩

/-- corresponding members -/
theorem same_mem {a' a : Response} (h : SameResponse a' a) (x : Bundle) (hx : x ∈ a.bundles) :
    ∃ x' ∈ a'.bundles, x'.id = x.id := by
  obtain ⟨i, hi, rfl⟩ := List.mem_iff_getElem.mp hx
  have hi' : i < a'.bundles.length := by rw [h.length]; exact hi
  refine ⟨a'.bundles[i], List.getElem_mem hi', ?_⟩
  exact (h.bundles i _ _ (List.getElem?_eq_getElem hi') (List.getElem?_eq_getElem hi)).1

end Kskm.C10L
