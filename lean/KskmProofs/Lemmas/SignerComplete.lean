/-
  Helper lemmas for C01 "completion": from a store-level description of a healthy token to a
  successful run of `_fetch_keys` (forward direction of C15's lookup theorems and C04's
  `loaded_iff` / `fetched_cons_iff`), and from there to `WellFormed` of C01.

  §1  `signingToken`: the store-backed token of C15 / C04 (`storeToken`) that, in addition, answers
      `C_Sign`; reads are answered exactly as by `storeToken`, so results carry over (`ResultVia`)
  §2  `KeyLoc` / `OnToken`: where a label lives on the token; the lookup finds it (public and private)
  §3  `load_pkcs11_key` / `_fetch_keys` succeed, with the explicit composite key `ckOf`
  §4  `HealthyAction`: what must hold of one schema action and one request bundle; the key set the
      slot assembles; every signing key is `SignerReady`
-/
import KskmProofs.Lemmas.TokRel
import KskmProofs.Lemmas.SignerPerm
import KskmProofs.Lemmas.SignerRun
import KskmProofs.Lemmas.Base64
import KskmProofs.C15
import KskmProofs.C04
import KskmProofs.C02
namespace Kskm

/-! ## §1 A store-backed token that signs -/

/-- `storeToken st ok` extended by a signing function: `C_Sign(module, slot, handle, mechanism,
    data)` is answered with `sg module slot handle mechanism data`; everything else is answered by
    `storeToken`.  Answers do not depend on the operation index. -/
def signingToken (st : Store) (ok : String → Nat → Bool)
    (sg : String → Nat → Nat → Nat → Bytes → Bytes) : Token := fun i op =>
  match op with
  | .sign m s h mech data => .sig (sg m s h mech data)
  | op => storeToken st ok i op

theorem storeToken_indexFree (st : Store) (ok : String → Nat → Bool) : IndexFree (storeToken st ok) :=
  fun _ _ _ => rfl

theorem signingToken_indexFree (st : Store) (ok : String → Nat → Bool)
    (sg : String → Nat → Nat → Nat → Bytes → Bytes) : IndexFree (signingToken st ok sg) := by
  intro i j op
  cases op <;> rfl

/-- reads are answered as by the store-backed token -/
theorem signingToken_reads (st : Store) (ok : String → Nat → Bool)
    (sg : String → Nat → Nat → Nat → Bytes → Bytes) (mods : List P11Module) :
    AnswersAlike (IsReadAmong mods) (signingToken st ok sg) (storeToken st ok) := by
  intro i j op hop
  obtain ⟨m, _, hr⟩ := hop
  cases op <;> first | rfl | exact absurd hr (by simp [IsReadOn])

theorem signingToken_sign (st : Store) (ok : String → Nat → Bool)
    (sg : String → Nat → Nat → Nat → Bytes → Bytes) (i : Nat) (m : String) (s h mech : Nat) (d : Bytes) :
    signingToken st ok sg i (.sign m s h mech d) = .sig (sg m s h mech d) := rfl

/-! ## §2 Where a label lives -/

/-- module, slot, the public and the private object, modulus, public exponent and the RFC 3110
    encoding of (exponent, modulus) of one RSA key pair -/
structure KeyLoc where
  m : P11Module
  slot : Nat
  pubO : StoreObj
  privO : StoreObj
  n : Bytes
  e : Bytes
  raw : Bytes
  deriving Repr, Inhabited

/-- the object of the requested class -/
def KeyLoc.obj (L : KeyLoc) (isPublic : Bool) : StoreObj := if isPublic then L.pubO else L.privO

/-- an RSA object (public or private) with readable modulus and public exponent -/
structure RsaObj (st : Store) (path : String) (slot : Nat) (o : StoreObj) (n e : Bytes) : Prop where
  find : (st path slot).find? (·.handle == o.handle) = some o
  keyType : o.keyType = some ckkRsa
  modulus : o.modulus = some n
  exponent : o.publicExponent = some e

/-- **The label is on the token, once.** In module order and, within the module, session-slot order,
    the first slot that holds any public or private object labelled `label` is slot `L.slot` of module
    `L.m`, and it holds exactly one public and exactly one private object under that label, both RSA
    with modulus `L.n` and public exponent `L.e`; `L.raw` is the RFC 3110 encoding. -/
structure OnToken (st : Store) (mods : List P11Module) (label : String) (L : KeyLoc) : Prop where
  modules : ∃ pre post, mods = pre ++ L.m :: post ∧
    ∀ m' ∈ pre, ∀ sl ∈ m'.sessions, ∀ isPublic, matching st m' label (classOf isPublic) sl = []
  sessions : ∃ spre spost, L.m.sessions = spre ++ L.slot :: spost ∧
    ∀ sl ∈ spre, ∀ isPublic, matching st L.m label (classOf isPublic) sl = []
  one : ∀ isPublic, matching st L.m label (classOf isPublic) L.slot = [L.obj isPublic]
  rsa : ∀ isPublic, RsaObj st L.m.path L.slot (L.obj isPublic) L.n L.e
  encoded : rsaEncodeBytes (beNat L.e) L.n = .ok L.raw
  positive : 1 ≤ beNat L.e
  /-- the DNSKEY RDATA (4 octets + key) fits a 16-bit length -/
  small : L.raw.length + 4 < 65536

/-- the key record `find_key_by_label` builds for that object -/
def p11Of (label : String) (hh : Option Bool) (L : KeyLoc) (isPublic : Bool) : P11Key :=
  { label, keyType := .rsa, keyClass := classOf isPublic, hashUsingHsm := hh,
    publicKey := some (Base64.encode L.raw), module := L.m.path, slot := L.slot,
    privHandle := if classOf isPublic ≠ ckoPublic then some (L.obj isPublic).handle else none,
    pubHandle := if classOf isPublic ≠ ckoSecret then some (L.obj isPublic).handle else none }

theorem classOf_ne_secret (isPublic : Bool) : classOf isPublic ≠ ckoSecret := by
  cases isPublic <;> decide

/-- (b) of C15 with the key text explicit: the first slot holding the label holds one RSA object ⇒
    the lookup returns its record with the RFC 3110 text of (exponent, modulus) -/
theorem find_first_rsa_text (st : Store) (ok : String → Nat → Bool) (m : P11Module) (label : String)
    (cls : Nat) (hh : Option Bool) (pre post : List Nat) (s₀ : Nat) (o : StoreObj) (n e raw : Bytes)
    (hpre : ∀ sl ∈ pre, matching st m label cls sl = [])
    (hone : matching st m label cls s₀ = [o]) (ho : RsaObj st m.path s₀ o n e)
    (henc : rsaEncodeBytes (beNat e) n = .ok raw) (hcls : cls ≠ ckoSecret) (s : TokState) :
    ∃ s', findInSlots m label cls hh (pre ++ s₀ :: post) (storeToken st ok) s =
        (.ok (some { label, keyType := .rsa, keyClass := cls, hashUsingHsm := hh,
                     publicKey := some (Base64.encode raw), module := m.path, slot := s₀,
                     privHandle := if cls ≠ ckoPublic then some o.handle else none,
                     pubHandle := if cls ≠ ckoSecret then some o.handle else none }), s') := by
  have hkt' : ∀ i, storeToken st ok i (.getAttr m.path s₀ o.handle ["KEY_TYPE"]) = .attrs [.num ckkRsa] := by
    intro i; rw [storeToken_getAttr1 st ok i m.path s₀ _ o ho.find, o.attr_keyType _ ho.keyType]
  have hn' : ∀ i, storeToken st ok i (.getAttr m.path s₀ o.handle ["MODULUS"]) = .attrs [.bytes n] := by
    intro i; rw [storeToken_getAttr1 st ok i m.path s₀ _ o ho.find, o.attr_modulus, ho.modulus]; rfl
  have he' : ∀ i, storeToken st ok i (.getAttr m.path s₀ o.handle ["PUBLIC_EXPONENT"]) = .attrs [.bytes e] := by
    intro i; rw [storeToken_getAttr1 st ok i m.path s₀ _ o ho.find, o.attr_publicExponent, ho.exponent]; rfl
  have hrun := p11ObjectToPublicKey_rsa_run (storeToken st ok) m.path s₀ o.handle n e hkt' hn' he'
    ((C15.afterEmpty m label cls pre s).push (findOp m label cls s₀) (.handles [o.handle]))
  have henc' : (rsaEncode (beNat e) n).map some = .ok (some (Base64.encode raw)) := by
    simp [rsaEncode, henc, bind, Except.bind, pure, Except.pure, Except.map]
  rw [henc'] at hrun
  obtain ⟨s1, hrun⟩ : ∃ s1, p11ObjectToPublicKey m.path s₀ o.handle (storeToken st ok)
      ((C15.afterEmpty m label cls pre s).push (findOp m label cls s₀) (.handles [o.handle])) =
      (.ok (some (Base64.encode raw)), s1) := ⟨_, hrun⟩
  refine ⟨s1.push (.getAttr m.path s₀ o.handle ["KEY_TYPE"]) (.attrs [.num ckkRsa]), ?_⟩
  rw [C15.find_first st ok m label cls hh pre post s₀ o hpre hone]
  unfold foundKey
  rw [if_pos hcls, bind_run_ok _ _ _ _ _ _ hrun,
    foundKeyTail_run m label cls hh s₀ o.handle (some (Base64.encode raw)) _ s1 ckkRsa .rsa (hkt' _) rfl]

/-- `get_p11_key` finds the label where `OnToken` says it is -/
theorem getP11Key_onToken (st : Store) (ok : String → Nat → Bool) (mods : List P11Module)
    (label : String) (hh : Option Bool) (L : KeyLoc) (h : OnToken st mods label L) (isPublic : Bool)
    (s : TokState) :
    ∃ s', getP11Key label isPublic hh mods (storeToken st ok) s =
      (.ok (some (p11Of label hh L isPublic)), s') := by
  obtain ⟨pre, post, hm, hpre⟩ := h.modules
  obtain ⟨spre, spost, hs, hspre⟩ := h.sessions
  obtain ⟨s₁, h1, _⟩ := C15.getP11Key_skip_modules st ok label isPublic hh pre (L.m :: post)
    (fun m' hm' sl hsl => hpre m' hm' sl hsl isPublic) s
  obtain ⟨s', h2⟩ := find_first_rsa_text st ok L.m label (classOf isPublic) hh spre spost L.slot
    (L.obj isPublic) L.n L.e L.raw (fun sl hsl => hspre sl hsl isPublic) (h.one isPublic)
    (h.rsa isPublic) h.encoded (classOf_ne_secret isPublic) s₁
  rw [← hs] at h2
  exact ⟨s', by rw [hm, h1, getP11Key_cons_hit _ _ _ _ _ _ _ _ _ h2]; rfl⟩

/-! ## §3 `load_pkcs11_key` and `_fetch_keys` succeed -/

/-- the DNSKEY record of a KSK whose RFC 3110 key octets are `raw` -/
def dnsOf (ksk : KskKey) (ttl : Int) (raw : Bytes) : Key :=
  { keyIdentifier := ksk.label, keyTag := (keyTagOfRdata (rdataOf 257 3 ksk.algorithm raw) : Nat), ttl,
    flags := 257, protocol := 3, algorithm := ksk.algorithm, publicKey := Base64.encode raw }

/-- the composite key `load_pkcs11_key` returns for it -/
def ckOf (ksk : KskKey) (ttl : Int) (L : KeyLoc) (isPublic : Bool) : CompositeKey :=
  { p11 := p11Of ksk.label ksk.hashUsingHsm L isPublic, dns := dnsOf ksk ttl L.raw }

theorem isAlgorithmRsa_cases {a : Nat} (h : isAlgorithmRsa a = true) : a = 5 ∨ a = 8 ∨ a = 10 := by
  simp only [isAlgorithmRsa, algRSASHA1, algRSASHA256, algRSASHA512, Bool.or_eq_true, beq_iff_eq] at h
  rcases h with (h | h) | h
  · exact Or.inl h
  · exact Or.inr (Or.inl h)
  · exact Or.inr (Or.inr h)

theorem rsa_not_ecdsa {a : Nat} (h : isAlgorithmRsa a = true) : isAlgorithmEcdsa a = false := by
  rcases isAlgorithmRsa_cases h with rfl | rfl | rfl <;> decide

theorem keyToRdata_dnsOf (ksk : KskKey) (ttl : Int) (raw : Bytes) (flags : Nat) (tag : Int)
    (hf : flags < 65536) (ha : ksk.algorithm < 256) :
    keyToRdata { dnsOf ksk ttl raw with flags := (flags : Int), keyTag := tag } =
      .ok (rdataOf flags 3 ksk.algorithm raw) := by
  have h1 : inRange 16 (flags : Int) = true := by
    simp only [inRange, Bool.and_eq_true, decide_eq_true_eq]
    refine ⟨by omega, ?_⟩
    simp only [Int.toNat_natCast]
    omega
  have h2 : inRange 8 (3 : Int) = true := by decide
  simp only [keyToRdata, dnsOf, h1, h2, ha, decide_true, Bool.and_self, Bool.not_true, Bool.false_eq_true,
    ↓reduceIte, Base64.decode_encode, Int.toNat_natCast, pure, Except.pure]
  rfl

/-- `public_key_to_dnssec_key` succeeds on the RFC 3110 text of an RSA key -/
theorem publicKeyToDnssecKey_rsa (ksk : KskKey) (ttl : Int) (raw : Bytes)
    (hr : isAlgorithmRsa ksk.algorithm = true) :
    publicKeyToDnssecKey (Base64.encode raw) ksk.label ksk.algorithm ttl 257 = .ok (dnsOf ksk ttl raw) := by
  have ha : ksk.algorithm < 256 := by rcases isAlgorithmRsa_cases hr with h | h | h <;> omega
  have hrd := keyToRdata_dnsOf ksk ttl raw 257 0 (by omega) ha
  unfold publicKeyToDnssecKey Key.validate calculateKeyTag
  simp only [rsa_not_ecdsa hr, Bool.false_eq_true, ↓reduceIte, true_or, bind, Except.bind, pure, Except.pure]
  have : keyToRdata ⟨ksk.label, 0, ttl, 257, 3, ksk.algorithm, Base64.encode raw⟩ =
      .ok (rdataOf 257 3 ksk.algorithm raw) := hrd
  rw [this]
  rfl

/-- the configured RSA parameters are those of the key on the token -/
structure RsaConfigured (ksk : KskKey) (L : KeyLoc) : Prop where
  family : isAlgorithmRsa ksk.algorithm = true
  size : ksk.rsaSize = some ((8 * L.n.length : Nat) : Int)
  exponent : ksk.rsaExponent = some ((beNat L.e : Nat) : Int)

theorem rsaDecode_raw {L : KeyLoc} {label : String} {st : Store} {mods : List P11Module}
    (h : OnToken st mods label L) (alg : Nat) (ha : isAlgorithmRsa alg = true) :
    rsaDecode (Base64.encode L.raw) alg = .ok { bits := 8 * L.n.length, exponent := beNat L.e, n := L.n } := by
  have hdec := C14.rsa_decode_encode (beNat L.e) L.n L.raw (by have := h.positive; omega) h.encoded
  simp [rsaDecode, Base64.decode_encode, hdec, bind, Except.bind, ha, pure, Except.pure, Nat.mul_comm]

theorem encode_raw_ne_empty {L : KeyLoc} {label : String} {st : Store} {mods : List P11Module}
    (h : OnToken st mods label L) : Base64.encode L.raw ≠ "" := by
  intro he
  have := rsaDecode_raw h 8 (by decide)
  rw [he] at this
  have h0 : rsaDecode "" 8 = .error (.error .index) := by decide
  rw [h0] at this
  cases this

/-- **`load_pkcs11_key` succeeds** on the store-backed token for a key that is on the token with the
    configured parameters, inside its window — for the public and for the private lookup, from any
    state — and returns `ckOf`. -/
theorem loadPkcs11Key_onToken (st : Store) (ok : String → Nat → Bool) (mods : List P11Module)
    (ksk : KskKey) (pol : KskPolicy) (b : Bundle) (L : KeyLoc) (hw : C04.InWindow ksk b)
    (h : OnToken st mods ksk.label L) (hc : RsaConfigured ksk L) (isPublic : Bool) (s : TokState) :
    ∃ s', loadPkcs11Key mods ksk pol b isPublic (storeToken st ok) s =
      (.ok (some (ckOf ksk pol.ttl L isPublic)), s') := by
  obtain ⟨s1, hg⟩ := getP11Key_onToken st ok mods ksk.label ksk.hashUsingHsm L h isPublic s
  refine ⟨s1, (C04.loaded_iff mods ksk pol b isPublic _ s s1 _).mpr
    ⟨hw, p11Of ksk.label ksk.hashUsingHsm L isPublic, s1, p11Of ksk.label ksk.hashUsingHsm L isPublic, hg, ?_,
      Base64.encode L.raw, rfl, encode_raw_ne_empty h, rfl, publicKeyToDnssecKey_rsa ksk pol.ttl L.raw hc.family,
      Or.inl ⟨rfl, hc.family, _, rsaDecode_raw h ksk.algorithm hc.family, ?_, ?_⟩⟩⟩
  · simp [refetchPublic, p11Of]
  · rw [hc.size]
  · rw [hc.exponent]

/-- what must hold of one name the schema lists, for request bundle `b` -/
structure HealthyName (ext : Externals) (st : Store) (mods : List P11Module) (cfg : SignerConfig)
    (loc : String → KeyLoc) (b : Bundle) (name : String) (ksk : KskKey) : Prop where
  configured : cfg.kskKeys.lookup name = some ksk
  window : C04.InWindow ksk b
  onToken : OnToken st mods ksk.label (loc ksk.label)
  rsa : RsaConfigured ksk (loc ksk.label)
  /-- configured key tag / DS digest (each only where configured) are those of the key -/
  identity : validateDnskeyMatchesKsk ext ksk (dnsOf ksk cfg.kskPolicy.ttl (loc ksk.label).raw) = .ok ()

/-- the keys `_fetch_keys` returns: one per name, in order, each the `ckOf` of its configured entry -/
def FetchedExactly (cfg : SignerConfig) (loc : String → KeyLoc) (isPublic : Bool) :
    List String → List CompositeKey → Prop
  | [], cks => cks = []
  | name :: rest, cks => ∃ ksk more, cfg.kskKeys.lookup name = some ksk ∧
      cks = ckOf ksk cfg.kskPolicy.ttl (loc ksk.label) isPublic :: more ∧
      FetchedExactly cfg loc isPublic rest more

theorem FetchedExactly.mem {cfg : SignerConfig} {loc : String → KeyLoc} {isPublic : Bool} :
    ∀ {names : List String} {cks : List CompositeKey}, FetchedExactly cfg loc isPublic names cks →
      (∀ ck ∈ cks, ∃ name ∈ names, ∃ ksk, cfg.kskKeys.lookup name = some ksk ∧
        ck = ckOf ksk cfg.kskPolicy.ttl (loc ksk.label) isPublic) ∧
      (∀ name ∈ names, ∃ ksk, cfg.kskKeys.lookup name = some ksk ∧
        ckOf ksk cfg.kskPolicy.ttl (loc ksk.label) isPublic ∈ cks)
  | [], cks, h => by
    simp only [FetchedExactly] at h
    subst h
    simp
  | name :: rest, cks, h => by
    obtain ⟨ksk, more, hl, rfl, hrest⟩ := h
    obtain ⟨ih1, ih2⟩ := FetchedExactly.mem hrest
    constructor
    · intro ck hck
      rcases List.mem_cons.mp hck with rfl | hck
      · exact ⟨name, List.mem_cons_self, ksk, hl, rfl⟩
      · obtain ⟨n, hn, r⟩ := ih1 ck hck
        exact ⟨n, List.mem_cons_of_mem _ hn, r⟩
    · intro n hn
      rcases List.mem_cons.mp hn with rfl | hn
      · exact ⟨ksk, hl, List.mem_cons_self⟩
      · obtain ⟨k, hk, hm⟩ := ih2 n hn
        exact ⟨k, hk, List.mem_cons_of_mem _ hm⟩

/-- **`_fetch_keys` succeeds on the store-backed token** when every name is healthy, from any state. -/
theorem fetchKeys_onToken (ext : Externals) (st : Store) (ok : String → Nat → Bool)
    (mods : List P11Module) (cfg : SignerConfig) (loc : String → KeyLoc) (b : Bundle) (isPublic : Bool) :
    ∀ (names : List String), (∀ name ∈ names, ∃ ksk, HealthyName ext st mods cfg loc b name ksk) →
      ∀ s, ∃ cks s', fetchKeys ext mods cfg b isPublic names (storeToken st ok) s = (.ok cks, s') ∧
        FetchedExactly cfg loc isPublic names cks := by
  intro names
  induction names with
  | nil => intro _ s; exact ⟨[], s, by simp [fetchKeys], rfl⟩
  | cons name rest ih =>
    intro hall s
    obtain ⟨ksk, hn⟩ := hall name List.mem_cons_self
    obtain ⟨s1, hload⟩ := loadPkcs11Key_onToken st ok mods ksk cfg.kskPolicy b (loc ksk.label) hn.window
      hn.onToken hn.rsa isPublic s
    obtain ⟨more, s2, hmore, hex⟩ := ih (fun n h => hall n (List.mem_cons_of_mem _ h)) s1
    refine ⟨_ :: more, s2, (C04.fetched_cons_iff ext mods cfg b isPublic name rest _ s s2 _).mpr
      ⟨ksk, _, more, s1, rfl, hn.configured, hload, (C04.identityOk_iff ext ksk _).mp hn.identity, hmore⟩,
      ksk, more, hn.configured, rfl, hex⟩

/-- … and therefore on every token that answers reads like it (`signingToken`) -/
theorem fetchKeys_onSigningToken (ext : Externals) (st : Store) (ok : String → Nat → Bool)
    (sg : String → Nat → Nat → Nat → Bytes → Bytes)
    (mods : List P11Module) (cfg : SignerConfig) (loc : String → KeyLoc) (b : Bundle) (isPublic : Bool)
    (names : List String) (hall : ∀ name ∈ names, ∃ ksk, HealthyName ext st mods cfg loc b name ksk)
    (s : TokState) :
    ∃ cks s', fetchKeys ext mods cfg b isPublic names (signingToken st ok sg) s = (.ok cks, s') ∧
      FetchedExactly cfg loc isPublic names cks := by
  obtain ⟨cks, s', h, hex⟩ := fetchKeys_onToken ext st ok mods cfg loc b isPublic names hall s
  obtain ⟨s1, h1⟩ := (fetchKeys_via ext mods cfg b isPublic names).transfer
    (signingToken_reads st ok sg mods) h s
  exact ⟨cks, s1, h1, hex⟩

/-! ## §4 One slot -/

/-- the revoked form of `dnsOf` -/
def revokedOf (ksk : KskKey) (ttl : Int) (raw : Bytes) : Key :=
  { dnsOf ksk ttl raw with flags := 385, keyTag := (keyTagOfRdata (rdataOf 385 3 ksk.algorithm raw) : Nat) }

theorem rsa_alg_lt {a : Nat} (h : isAlgorithmRsa a = true) : a < 256 := by
  rcases isAlgorithmRsa_cases h with h | h | h <;> omega

theorem asRevoked_dnsOf (ksk : KskKey) (ttl : Int) (raw : Bytes) (hr : isAlgorithmRsa ksk.algorithm = true) :
    (dnsOf ksk ttl raw).asRevoked = .ok (revokedOf ksk ttl raw) := by
  have hrd := keyToRdata_dnsOf ksk ttl raw 385 (dnsOf ksk ttl raw).keyTag (by omega) (rsa_alg_lt hr)
  unfold Key.asRevoked calculateKeyTag
  have hf : ¬ (dnsOf ksk ttl raw).flags < 0 := by simp [dnsOf]
  have h385 : ((setRevokeBit (dnsOf ksk ttl raw).flags.toNat : Nat) : Int) = ((385 : Nat) : Int) := by
    simp [dnsOf, setRevokeBit]
  simp only [hf, ↓reduceIte, bind, Except.bind, pure, Except.pure, h385]
  have : keyToRdata { dnsOf ksk ttl raw with flags := ((385 : Nat) : Int) } =
      .ok (rdataOf 385 3 ksk.algorithm raw) := hrd
  rw [this]
  rfl

/-- a record of the slot's key set that stems from a configured KSK: label, key text, algorithm,
    policy TTL, decodable RDATA of bounded length, computed tag -/
structure KskRec (cfg : SignerConfig) (loc : String → KeyLoc) (ksk : KskKey) (x : Key) : Prop where
  id : x.keyIdentifier = ksk.label
  pk : x.publicKey = Base64.encode (loc ksk.label).raw
  alg : x.algorithm = ksk.algorithm
  ttl : x.ttl = cfg.kskPolicy.ttl
  rdata : ∃ flags, keyToRdata x = .ok (rdataOf flags 3 ksk.algorithm (loc ksk.label).raw)
  tag : ∃ r, x.keyTag = ((keyTagOfRdata r : Nat) : Int)

theorem kskRec_dnsOf (cfg : SignerConfig) (loc : String → KeyLoc) (ksk : KskKey)
    (hr : isAlgorithmRsa ksk.algorithm = true) :
    KskRec cfg loc ksk (dnsOf ksk cfg.kskPolicy.ttl (loc ksk.label).raw) :=
  ⟨rfl, rfl, rfl, rfl, ⟨257, keyToRdata_dnsOf ksk _ _ 257 _ (by omega) (rsa_alg_lt hr)⟩, ⟨_, rfl⟩⟩

theorem kskRec_revokedOf (cfg : SignerConfig) (loc : String → KeyLoc) (ksk : KskKey)
    (hr : isAlgorithmRsa ksk.algorithm = true) :
    KskRec cfg loc ksk (revokedOf ksk cfg.kskPolicy.ttl (loc ksk.label).raw) :=
  ⟨rfl, rfl, rfl, rfl, ⟨385, keyToRdata_dnsOf ksk _ _ 385 _ (by omega) (rsa_alg_lt hr)⟩, ⟨_, rfl⟩⟩

/-- the names an action lists -/
def SchemaAction.names (act : SchemaAction) : List String := act.publish ++ act.revoke ++ act.sign

/-- **What must hold of one schema action `act` and one request bundle `b`** for the slot to be
    signed, on the token `signingToken st ok sg` (where `loc` says where each label lives). -/
structure HealthyAction (ext : Externals) (st : Store) (sg : String → Nat → Nat → Nat → Bytes → Bytes)
    (mods : List P11Module) (cfg : SignerConfig) (loc : String → KeyLoc) (b : Bundle)
    (act : SchemaAction) : Prop where
  /-- every listed name is a configured KSK inside its window, on the token with the configured
      parameters, and passes the identity check -/
  names : ∀ name ∈ act.names, ∃ ksk, HealthyName ext st mods cfg loc b name ksk
  /-- a label is configured with one algorithm number -/
  labelAlg : ∀ n₁ ∈ act.names, ∀ n₂ ∈ act.names, ∀ k₁ k₂, cfg.kskKeys.lookup n₁ = some k₁ →
    cfg.kskKeys.lookup n₂ = some k₂ → k₁.label = k₂.label → k₁.algorithm = k₂.algorithm
  /-- different labels are different key material -/
  distinctKeys : ∀ n₁ ∈ act.names, ∀ n₂ ∈ act.names, ∀ k₁ k₂, cfg.kskKeys.lookup n₁ = some k₁ →
    cfg.kskKeys.lookup n₂ = some k₂ → (loc k₁.label).raw = (loc k₂.label).raw → k₁.label = k₂.label
  /-- the request bundle has keys, with pairwise different identifiers, none of them a KSK label,
      each with decodable RDATA that fits a 16-bit length -/
  zsks : b.keys ≠ []
  zskIds : b.keys.Pairwise (fun x y => x.keyIdentifier ≠ y.keyIdentifier)
  zskNotKsk : ∀ z ∈ b.keys, ∀ name ∈ act.names, ∀ k, cfg.kskKeys.lookup name = some k →
    z.keyIdentifier ≠ k.label
  zskRdata : ∀ z ∈ b.keys, ∃ r, keyToRdata z = .ok r ∧ r.length < 65536
  /-- the ZSK algorithm set is the algorithm set of the keys listed under `sign` -/
  algs : ∀ a, a ∈ b.keys.map (·.algorithm) ↔
    ∃ name ∈ act.sign, ∃ k, cfg.kskKeys.lookup name = some k ∧ k.algorithm = a
  /-- inception and expiration (in seconds) pack into 32 bits -/
  expiration : inRange 32 (tsSeconds b.expiration) = true
  inception : inRange 32 (tsSeconds b.inception) = true
  /-- **the signature scheme is healthy**: what the token answers to `C_Sign` on the private object of
      a signing key, for the data `_format_data_for_signing` hands over, is accepted by the software
      verifier under the key text derived from that object, over the octets that were formatted -/
  signs : ∀ name ∈ act.sign, ∀ k, cfg.kskKeys.lookup name = some k → ∀ raw d,
    formatDataForSigning ext.hash (p11Of k.label k.hashUsingHsm (loc k.label) false) raw k.algorithm = .ok d →
    ext.verify k.algorithm (Base64.encode (loc k.label).raw) raw
      (sg (loc k.label).m.path (loc k.label).slot (loc k.label).privO.handle d.mechanism d.data) = .valid

/-- configuration-level and oracle-level hypotheses shared by all slots -/
structure HealthyBase (ext : Externals) (cfg : SignerConfig) : Prop where
  /-- the signer name is the root (the only one `dn2wire` implements) -/
  root : cfg.kskPolicy.signersName = "."
  /-- the KSK TTL packs into 32 bits -/
  ttl : inRange 32 cfg.kskPolicy.ttl = true
  /-- the hash oracle answers (SHA-1/256/384/512 are total functions) -/
  hashes : ∀ h d, ∃ x, ext.hash h d = some x

theorem mapM_ok_of_forall {α β} (f : α → Res β) (Q : β → Prop) :
    ∀ (l : List α), (∀ a ∈ l, ∃ b, f a = .ok b ∧ Q b) → ∃ r, l.mapM f = .ok r ∧ ∀ b ∈ r, Q b
  | [], _ => ⟨[], rfl, by simp⟩
  | a :: t, h => by
    obtain ⟨b, hb, hq⟩ := h a List.mem_cons_self
    obtain ⟨r, hr, hall⟩ := mapM_ok_of_forall f Q t (fun x hx => h x (List.mem_cons_of_mem _ hx))
    refine ⟨b :: r, by rw [List.mapM_cons, hb, hr]; rfl, ?_⟩
    intro x hx
    rcases List.mem_cons.mp hx with rfl | hx
    · exact hq
    · exact hall x hx

theorem keyToRdata_ttl (k : Key) (ttl : Int) : keyToRdata { k with ttl := ttl } = keyToRdata k := rfl

theorem rdataOf_length (f p a : Nat) (pk : Bytes) : (rdataOf f p a pk).length = pk.length + 4 := by
  simp [rdataOf, be16, be8]

/-- `_format_data_for_signing` succeeds for an RSA algorithm, a key with a decodable non-empty text
    and a hash oracle that answers -/
theorem formatDataForSigning_rsa (hash : Hasher) (key : P11Key) (raw : Bytes) (alg : Nat) (pk : String)
    (pub : RsaPub) (ha : isAlgorithmRsa alg = true) (hpk : key.publicKey = some pk)
    (hne : pk.isEmpty = false) (hdec : rsaDecode pk alg = .ok pub) (htot : ∀ h d, ∃ x, hash h d = some x) :
    ∃ d, formatDataForSigning hash key raw alg = .ok d := by
  unfold formatDataForSigning
  obtain ⟨x1, hx1⟩ := htot .sha1 raw
  obtain ⟨x2, hx2⟩ := htot .sha256 raw
  obtain ⟨x3, hx3⟩ := htot .sha512 raw
  cases hon : (key.hashUsingHsm == some true) <;>
    rcases isAlgorithmRsa_cases ha with rfl | rfl | rfl <;>
    simp [mechanismFor, rsaDigestFor, algRSASHA1, algRSASHA256, algRSASHA512, ckmRsaX509, ckmSha1RsaPkcs,
      ckmSha256RsaPkcs, ckmSha512RsaPkcs, ckmEcdsaSha256, ckmEcdsaSha384, hx1, hx2, hx3, hpk, hne, hdec]

/-- a record of the slot's key set: it stems from a listed KSK, or it is a request key with the TTL set -/
def SlotRec (cfg : SignerConfig) (loc : String → KeyLoc) (act : SchemaAction) (b : Bundle)
    (ksks : List Key) (x : Key) : Prop :=
  (∃ name ∈ act.names, ∃ k, cfg.kskKeys.lookup name = some k ∧ KskRec cfg loc k x) ∨
  (∃ z ∈ b.keys, x = { z with ttl := cfg.kskPolicy.ttl } ∧ ∀ k ∈ ksks, k.publicKey ≠ z.publicKey)

theorem base64_encode_inj {a b : Bytes} (h : Base64.encode a = Base64.encode b) : a = b := by
  have := Base64.decode_encode a
  rw [h, Base64.decode_encode] at this
  exact (Option.some.inj this).symm

theorem pairwise_id_inj {l : List Key} (h : l.Pairwise (fun x y => x.keyIdentifier ≠ y.keyIdentifier)) :
    ∀ a ∈ l, ∀ b ∈ l, a.keyIdentifier = b.keyIdentifier → a = b := by
  induction l with
  | nil => intro a ha; cases ha
  | cons x r ih =>
    obtain ⟨h1, h2⟩ := List.pairwise_cons.mp h
    intro a ha b hb e
    rcases List.mem_cons.mp ha with ha | ha <;> rcases List.mem_cons.mp hb with hb | hb
    · rw [ha, hb]
    · rw [ha] at e; exact absurd e (h1 b hb)
    · rw [hb] at e; exact absurd e.symm (h1 a ha)
    · exact ih h2 a ha b hb e

/-- **A healthy action runs up to the signing loop, and every signing key is ready.**  On
    `signingToken st ok sg`, from any state: the three fetches succeed, the revoked forms exist, the
    ZSK / signing-key algorithm sets agree, an identifier names one algorithm among the signing keys,
    the assembled key set has no repeated identifier, and every signing key is `SignerReady` from
    operation 0 on. -/
theorem healthyAction_ready (ext : Externals) (st : Store) (ok : String → Nat → Bool)
    (sg : String → Nat → Nat → Nat → Bytes → Bytes) (mods : List P11Module) (cfg : SignerConfig)
    (loc : String → KeyLoc) (b : Bundle) (act : SchemaAction) (hb : HealthyBase ext cfg)
    (ha : HealthyAction ext st sg mods cfg loc b act) (s : TokState) :
    ∃ pub rev signing revoked s1 s2 s3,
      fetchKeys ext mods cfg b true act.publish (signingToken st ok sg) s = (.ok pub, s1) ∧
      fetchKeys ext mods cfg b true act.revoke (signingToken st ok sg) s1 = (.ok rev, s2) ∧
      rev.mapM (fun ck => ck.dns.asRevoked) = .ok revoked ∧
      fetchKeys ext mods cfg b false act.sign (signingToken st ok sg) s2 = (.ok signing, s3) ∧
      (∀ a, a ∈ b.keys.map (·.algorithm) ↔ a ∈ signing.map (·.dns.algorithm)) ∧
      (∀ x ∈ signing, ∀ y ∈ signing, x.dns.keyIdentifier = y.dns.keyIdentifier →
        x.dns.algorithm = y.dns.algorithm) ∧
      hasDupIds (slotFold cfg.kskPolicy.ttl (pub.map (·.dns)) revoked (signing.map (·.dns)) b.keys) = false ∧
      ∀ sk ∈ signing, SignerReady ext b cfg.kskPolicy
        (slotFold cfg.kskPolicy.ttl (pub.map (·.dns)) revoked (signing.map (·.dns)) b.keys) sk
        (signingToken st ok sg) 0 := by
  have hpubN : ∀ n ∈ act.publish, n ∈ act.names := fun n h => by simp [SchemaAction.names, h]
  have hrevN : ∀ n ∈ act.revoke, n ∈ act.names := fun n h => by simp [SchemaAction.names, h]
  have hsignN : ∀ n ∈ act.sign, n ∈ act.names := fun n h => by simp [SchemaAction.names, h]
  -- a listed name with its configured entry is healthy
  have hn : ∀ name ∈ act.names, ∀ k, cfg.kskKeys.lookup name = some k →
      HealthyName ext st mods cfg loc b name k := by
    intro name hname k hk
    obtain ⟨k', h'⟩ := ha.names name hname
    have : k' = k := by have := h'.configured; rw [hk] at this; exact (Option.some.inj this).symm
    exact this ▸ h'
  obtain ⟨pub, s1, hpub, epub⟩ := fetchKeys_onSigningToken ext st ok sg mods cfg loc b true act.publish
    (fun n h => ha.names n (hpubN n h)) s
  obtain ⟨rev, s2, hrev, erev⟩ := fetchKeys_onSigningToken ext st ok sg mods cfg loc b true act.revoke
    (fun n h => ha.names n (hrevN n h)) s1
  obtain ⟨signing, s3, hsign, esign⟩ := fetchKeys_onSigningToken ext st ok sg mods cfg loc b false act.sign
    (fun n h => ha.names n (hsignN n h)) s2
  obtain ⟨mpub, _⟩ := epub.mem
  obtain ⟨mrev, _⟩ := erev.mem
  obtain ⟨msign, msign'⟩ := esign.mem
  -- revoked forms
  obtain ⟨revoked, hrevoked, qrev⟩ := mapM_ok_of_forall (fun ck : CompositeKey => ck.dns.asRevoked)
    (fun r => ∃ name ∈ act.revoke, ∃ k, cfg.kskKeys.lookup name = some k ∧
      r = revokedOf k cfg.kskPolicy.ttl (loc k.label).raw) rev (by
      intro ck hck
      obtain ⟨name, hname, k, hk, rfl⟩ := mrev ck hck
      exact ⟨_, asRevoked_dnsOf k _ _ (hn name (hrevN name hname) k hk).rsa.family, name, hname, k, hk, rfl⟩)
  refine ⟨pub, rev, signing, revoked, s1, s2, s3, hpub, hrev, hrevoked, hsign, ?_, ?_, ?_, ?_⟩
  · -- algorithm sets
    intro a
    rw [ha.algs a]
    simp only [List.mem_map]
    constructor
    · rintro ⟨name, hname, k, hk, rfl⟩
      obtain ⟨k', hk', hm⟩ := msign' name hname
      rw [hk] at hk'; cases hk'
      exact ⟨_, hm, rfl⟩
    · rintro ⟨ck, hck, rfl⟩
      obtain ⟨name, hname, k, hk, rfl⟩ := msign ck hck
      exact ⟨name, hname, k, hk, rfl⟩
  · -- an identifier names one algorithm
    intro x hx y hy hid
    obtain ⟨n₁, hn₁, k₁, hk₁, rfl⟩ := msign x hx
    obtain ⟨n₂, hn₂, k₂, hk₂, rfl⟩ := msign y hy
    exact ha.labelAlg n₁ (hsignN n₁ hn₁) n₂ (hsignN n₂ hn₂) k₁ k₂ hk₁ hk₂ hid
  all_goals
    have hspec := C02.slotFold_spec cfg.kskPolicy.ttl (pub.map (·.dns)) revoked (signing.map (·.dns)) b.keys
    -- every record of the key set is a KSK record of a listed name or a request key
    have hclass : ∀ x ∈ slotFold cfg.kskPolicy.ttl (pub.map (·.dns)) revoked (signing.map (·.dns)) b.keys,
        SlotRec cfg loc act b (pub.map (·.dns) ++ revoked ++ signing.map (·.dns)) x := by
      intro x hx
      rcases hspec.sound x hx with ⟨r, hr, rfl⟩ | ⟨k0, hkm, rfl, _⟩ | ⟨z, hz, rfl, hzn⟩
      · obtain ⟨name, hname, k, hk, rfl⟩ := qrev r hr
        exact Or.inl ⟨name, hrevN name hname, k, hk,
          kskRec_revokedOf cfg loc k (hn name (hrevN name hname) k hk).rsa.family⟩
      · rcases List.mem_append.mp hkm with hkm | hkm
        · obtain ⟨ck, hck, rfl⟩ := List.mem_map.mp hkm
          obtain ⟨name, hname, k, hk, rfl⟩ := mpub ck hck
          exact Or.inl ⟨name, hpubN name hname, k, hk,
            kskRec_dnsOf cfg loc k (hn name (hpubN name hname) k hk).rsa.family⟩
        · obtain ⟨ck, hck, rfl⟩ := List.mem_map.mp hkm
          obtain ⟨name, hname, k, hk, rfl⟩ := msign ck hck
          exact Or.inl ⟨name, hsignN name hname, k, hk,
            kskRec_dnsOf cfg loc k (hn name (hsignN name hname) k hk).rsa.family⟩
      · exact Or.inr ⟨z, hz, rfl, hzn⟩
  · -- no repeated identifier
    rw [noDupIds_iff]
    refine hspec.unique.imp_of_mem ?_
    intro x y hx hy hne hid
    apply hne
    rcases hclass x hx with ⟨n₁, hn₁, k₁, hk₁, r₁⟩ | ⟨z₁, hz₁, rfl, _⟩ <;>
      rcases hclass y hy with ⟨n₂, hn₂, k₂, hk₂, r₂⟩ | ⟨z₂, hz₂, rfl, _⟩
    · rw [r₁.pk, r₂.pk, show k₁.label = k₂.label by rw [← r₁.id, ← r₂.id]; exact hid]
    · exact absurd (r₁.id.symm.trans hid).symm (ha.zskNotKsk z₂ hz₂ n₁ hn₁ k₁ hk₁)
    · exact absurd (hid.trans r₂.id) (ha.zskNotKsk z₁ hz₁ n₂ hn₂ k₂ hk₂)
    · rw [pairwise_id_inj ha.zskIds z₁ hz₁ z₂ hz₂ hid]
  · -- every signing key is ready
    intro sk hsk
    obtain ⟨name, hname, k, hk, rfl⟩ := msign sk hsk
    have H := hn name (hsignN name hname) k hk
    have hdnsS : (ckOf k cfg.kskPolicy.ttl (loc k.label) false).dns ∈ signing.map (·.dns) :=
      List.mem_map.mpr ⟨_, hsk, rfl⟩
    obtain ⟨x, hx, hxpk⟩ := hspec.complete (ckOf k cfg.kskPolicy.ttl (loc k.label) false).dns
      (List.mem_append_left _ (List.mem_append_right _ hdnsS))
    have hxpk' : x.publicKey = Base64.encode (loc k.label).raw := hxpk
    -- the published record with that key text is a KSK record under the same label and algorithm
    obtain ⟨n₂, hn₂, k₂, hk₂, r₂, hlab, halg⟩ : ∃ n₂ ∈ act.names, ∃ k₂, cfg.kskKeys.lookup n₂ = some k₂ ∧
        KskRec cfg loc k₂ x ∧ k₂.label = k.label ∧ k₂.algorithm = k.algorithm := by
      rcases hclass x hx with ⟨n₂, hn₂, k₂, hk₂, r₂⟩ | ⟨z, hz, rfl, hzn⟩
      · have hraw : (loc k₂.label).raw = (loc k.label).raw :=
          base64_encode_inj (r₂.pk.symm.trans hxpk')
        have hlab := ha.distinctKeys n₂ hn₂ name (hsignN name hname) k₂ k hk₂ hk hraw
        exact ⟨n₂, hn₂, k₂, hk₂, r₂, hlab,
          ha.labelAlg n₂ hn₂ name (hsignN name hname) k₂ k hk₂ hk hlab⟩
      · exact absurd hxpk.symm (hzn _ (List.mem_append_right _ hdnsS))
    -- RDATA of every record of the set
    obtain ⟨rdatas, hrd, hshort⟩ := mapM_ok_of_forall keyToRdata (fun r => r.length < 65536)
      (slotFold cfg.kskPolicy.ttl (pub.map (·.dns)) revoked (signing.map (·.dns)) b.keys) (by
      intro y hy
      rcases hclass y hy with ⟨n₃, hn₃, k₃, hk₃, r₃⟩ | ⟨z, hz, rfl, _⟩
      · obtain ⟨fl, hfl⟩ := r₃.rdata
        refine ⟨_, hfl, ?_⟩
        rw [rdataOf_length]
        exact (hn n₃ hn₃ k₃ hk₃).onToken.small
      · exact ha.zskRdata z hz)
    have htag : inRange 16 x.keyTag = true := by
      obtain ⟨r, hr⟩ := r₂.tag
      rw [hr]
      have := C14.keyTag_lt r
      simp only [inRange, Bool.and_eq_true, decide_eq_true_eq, Int.toNat_natCast]
      exact ⟨by omega, by omega⟩
    have hraw := makeRawRrsig_of
      (sig := sigTemplate b (ckOf k cfg.kskPolicy.ttl (loc k.label) false) cfg.kskPolicy 0 x.keyTag)
      (by simp [sigTemplate]) (by simp only [sigTemplate, ckOf, dnsOf]; exact rsa_alg_lt H.rsa.family)
      (by simp [sigTemplate, inRange]) (by simp only [sigTemplate]; exact hb.ttl)
      (by simp only [sigTemplate]; exact ha.expiration) (by simp only [sigTemplate]; exact ha.inception)
      (by simp only [sigTemplate]; exact htag) (by simp only [sigTemplate]; exact hb.root) hrd hshort
    have hdec := rsaDecode_raw H.onToken k.algorithm H.rsa.family
    obtain ⟨d, hd⟩ := formatDataForSigning_rsa ext.hash (ckOf k cfg.kskPolicy.ttl (loc k.label) false).p11
      (rawRrsigOf _ _ _ _ _ _ _ rdatas) k.algorithm (Base64.encode (loc k.label).raw) _ H.rsa.family rfl
      (by simpa using encode_raw_ne_empty H.onToken) hdec hb.hashes
    refine ⟨x, Base64.encode (loc k.label).raw, _, d, (loc k.label).privO.handle, hx, ?_, hxpk', ?_, rfl, ?_,
      hraw, by simp [ckOf, p11Of], by simp [ckOf, p11Of], hd, ?_, ?_⟩
    · rw [r₂.id, hlab]; rfl
    · rw [r₂.alg, halg]; rfl
    · simp only [publicKeyFromKey, ckOf, dnsOf, H.rsa.family, ↓reduceIte, hdec, bind, Except.bind, pure,
        Except.pure]
    · simp [ckOf, p11Of, classOf, ckoPublic, ckoPrivate, KeyLoc.obj]
    · intro n _
      exact ⟨_, signingToken_sign st ok sg n _ _ _ _ _, ha.signs name hname k hk _ d hd⟩

end Kskm
