/-
  `treeOf r` — the element tree `skr_to_xml` writes — is plain (needs `TextSafe r` only) and five levels
  deep: KSR > Response > ResponsePolicy > KSK > SignatureAlgorithm > RSA.
-/
import KskmProofs.Lemmas.SkrPlain
namespace Kskm.ReadBack
open Kskm Kskm.Xml

theorem pyIntStr_ne_nil (i : Int) : (str (pyIntStr i)).toList ≠ [] := by
  simp only [str, String.toList_ofList]
  unfold pyIntStr
  split
  · simp
  · exact Nat.toDigits_ne_nil

theorem natStr_ne_nil (n : Nat) : (str (natStr n)).toList ≠ [] := by
  simp only [str, String.toList_ofList, natStr]
  exact Nat.toDigits_ne_nil

theorem attrsPlain_nil : attrsPlain [] := fun _ h => by simp at h

theorem attrsPlain_cons {n v : String} {t : List (String × String)} (h : PlainAttr pyClasses (n.toList, v.toList))
    (ht : attrsPlain t) : attrsPlain ((n, v) :: t) := by
  intro p hp
  rcases List.mem_cons.mp hp with rfl | h'
  · exact h
  · exact ht p h'

/-- attribute holding a printed integer -/
theorem intAttr (n : String) (i : Int) (hn : n ∈ skrNames := by decide) :
    PlainAttr pyClasses (n.toList, (str (pyIntStr i)).toList) :=
  plainAttr_of_ink (pn n hn) _ (ink_str _ (ink_pyIntStr i)) (pyIntStr_ne_nil i)

theorem natAttr (n : String) (k : Nat) (hn : n ∈ skrNames := by decide) :
    PlainAttr pyClasses (n.toList, (str (natStr k)).toList) :=
  plainAttr_of_ink (pn n hn) _ (ink_str _ (ink_natStr k)) (natStr_ne_nil k)

/-- `<name>text</name>` with ink text -/
theorem inkLeaf (n : String) (t : String) (ht : Ink t.toList) (hn : n ∈ skrNames := by decide) :
    PlainX (.leaf n [] t) :=
  ⟨pn n hn, attrsPlain_nil, plainText_of_ink t ht⟩

theorem okLeaf (n : String) (t : String) (ht : elemTextOk t = true) (hn : n ∈ skrNames := by decide) :
    PlainX (.leaf n [] t) :=
  ⟨pn n hn, attrsPlain_nil, plainText_of_ok t ht⟩

theorem intLeaf (n : String) (i : Int) (hn : n ∈ skrNames := by decide) : PlainX (.leaf n [] (str (pyIntStr i))) :=
  inkLeaf n _ (ink_str _ (ink_pyIntStr i)) hn

theorem natLeaf (n : String) (k : Nat) (hn : n ∈ skrNames := by decide) : PlainX (.leaf n [] (str (natStr k))) :=
  inkLeaf n _ (ink_str _ (ink_natStr k)) hn

theorem durLeaf (n : String) (d : Int) (hn : n ∈ skrNames := by decide) : PlainX (.leaf n [] (formatDuration d)) :=
  inkLeaf n _ (ink_formatDuration d) hn

theorem timeLeaf (n : String) (t : Int) (hn : n ∈ skrNames := by decide) : PlainX (.leaf n [] (formatDatetime t)) :=
  inkLeaf n _ (ink_formatDatetime t) hn

/-! ### element by element -/

theorem algTree_plain (a : AlgPolicy) : PlainX (algTree a) := by
  unfold algTree
  refine ⟨pn "SignatureAlgorithm", attrsPlain_cons (natAttr "algorithm" _) attrsPlain_nil, by simp, ?_, ?_⟩
  · refine ⟨⟨pn "RSA", attrsPlain_cons (intAttr "size" _) (attrsPlain_cons (intAttr "exponent" _) attrsPlain_nil),
      by simp⟩, trivial⟩
  · simp [occursXL, occursX]

theorem algTree_names (a : AlgPolicy) (m : String) (h : occursX m (algTree a)) :
    m = "SignatureAlgorithm" ∨ m = "RSA" := by
  simp only [algTree, occursX, occursXL, or_false] at h
  rcases h with h | h
  · exact Or.inl h.symm
  · exact Or.inr h.symm

theorem policyTree_plain (name : String) (hn : name ∈ skrNames) (hne : name ≠ "SignatureAlgorithm" ∧ name ≠ "RSA"
      ∧ name ≠ "PublishSafety" ∧ name ≠ "RetireSafety" ∧ name ≠ "MaxSignatureValidity"
      ∧ name ≠ "MinSignatureValidity" ∧ name ≠ "MaxValidityOverlap" ∧ name ≠ "MinValidityOverlap")
    (p : SigPolicy) : PlainX (policyTree name p) := by
  unfold policyTree
  refine ⟨pn name hn, attrsPlain_nil, by simp, ?_, ?_⟩
  · rw [plainXL_append]
    refine ⟨⟨durLeaf "PublishSafety" _, durLeaf "RetireSafety" _, durLeaf "MaxSignatureValidity" _,
      durLeaf "MinSignatureValidity" _, durLeaf "MaxValidityOverlap" _, durLeaf "MinValidityOverlap" _, trivial⟩, ?_⟩
    exact plainXL_map _ _ (fun a _ => algTree_plain a)
  · rw [occursXL_append, not_or]
    constructor
    · simp only [occursXL, occursX, or_false, not_or]
      obtain ⟨_, _, h1, h2, h3, h4, h5, h6⟩ := hne
      exact ⟨fun e => h1 e.symm, fun e => h2 e.symm, fun e => h3 e.symm, fun e => h4 e.symm, fun e => h5 e.symm,
        fun e => h6 e.symm⟩
    · apply not_occursXL_map
      intro a _ ho
      rcases algTree_names a name ho with e | e
      · exact hne.1 e
      · exact hne.2.1 e

theorem policyTree_names (name : String) (p : SigPolicy) (m : String) (h : occursX m (policyTree name p)) :
    m = name ∨ m ∈ ["PublishSafety", "RetireSafety", "MaxSignatureValidity", "MinSignatureValidity",
      "MaxValidityOverlap", "MinValidityOverlap", "SignatureAlgorithm", "RSA"] := by
  simp only [policyTree, occursX] at h
  rcases h with h | h
  · exact Or.inl h.symm
  · right
    rw [occursXL_append] at h
    rcases h with h | h
    · simp only [occursXL, occursX, or_false] at h
      rcases h with h | h | h | h | h | h <;> simp [← h]
    · by_cases hc : m = "SignatureAlgorithm" ∨ m = "RSA"
      · rcases hc with rfl | rfl <;> simp
      · exfalso
        exact not_occursXL_map m algTree p.algorithms (fun a _ ho => hc (algTree_names a m ho)) h

theorem keyTree_plain (k : Key) (h1 : attrTextOk k.keyIdentifier = true) (h2 : elemTextOk k.publicKey = true) :
    PlainX (keyTree k) := by
  unfold keyTree
  refine ⟨pn "Key", attrsPlain_cons (plainAttr_of_ok (pn "keyIdentifier") _ h1)
    (attrsPlain_cons (intAttr "keyTag" _) attrsPlain_nil), by simp, ?_, ?_⟩
  · exact ⟨intLeaf "TTL" _, intLeaf "Flags" _, intLeaf "Protocol" _, natLeaf "Algorithm" _,
      okLeaf "PublicKey" _ h2, trivial⟩
  · simp [occursXL, occursX]

theorem keyTree_names (k : Key) (m : String) (h : occursX m (keyTree k)) :
    m ∈ ["Key", "TTL", "Flags", "Protocol", "Algorithm", "PublicKey"] := by
  simp only [keyTree, occursX, occursXL, or_false] at h
  rcases h with h | h | h | h | h | h <;> simp [← h]

theorem sigTree_plain (s : Signature) (h1 : attrTextOk s.keyIdentifier = true)
    (h2 : elemTextOk s.signersName = true) (h3 : elemTextOk s.signatureData = true) : PlainX (sigTree s) := by
  unfold sigTree
  refine ⟨pn "Signature", attrsPlain_cons (plainAttr_of_ok (pn "keyIdentifier") _ h1) attrsPlain_nil, by simp, ?_, ?_⟩
  · exact ⟨intLeaf "TTL" _, inkLeaf "TypeCovered" _ (by unfold Ink; decide), natLeaf "Algorithm" _,
      intLeaf "Labels" _, intLeaf "OriginalTTL" _, timeLeaf "SignatureExpiration" _,
      timeLeaf "SignatureInception" _, intLeaf "KeyTag" _, okLeaf "SignersName" _ h2,
      okLeaf "SignatureData" _ h3, trivial⟩
  · simp [occursXL, occursX]

theorem sigTree_names (s : Signature) (m : String) (h : occursX m (sigTree s)) :
    m ∈ ["Signature", "TTL", "TypeCovered", "Algorithm", "Labels", "OriginalTTL", "SignatureExpiration",
      "SignatureInception", "KeyTag", "SignersName", "SignatureData"] := by
  simp only [sigTree, occursX, occursXL, or_false] at h
  rcases h with h | h | h | h | h | h | h | h | h | h | h <;> simp [← h]

/-- the per-bundle part of `TextSafe` -/
def bundleSafe (b : Bundle) : Prop :=
  attrTextOk b.id = true ∧
    (∀ k ∈ b.keys, attrTextOk k.keyIdentifier = true ∧ elemTextOk k.publicKey = true) ∧
    (∀ s ∈ b.signatures, attrTextOk s.keyIdentifier = true ∧ elemTextOk s.signersName = true ∧
      elemTextOk s.signatureData = true)

theorem bundleSafe_of (r : Response) (h : TextSafe r) : ∀ b ∈ r.bundles, bundleSafe b := by
  simp only [TextSafe, textSafe, Bool.and_eq_true, List.all_eq_true] at h
  intro b hb
  obtain ⟨⟨h1, h2⟩, h3⟩ := h.2 b hb
  exact ⟨h1, h2, fun s hs => ⟨(h3 s hs).1.1, (h3 s hs).1.2, (h3 s hs).2⟩⟩

theorem mem_sortKeys {k : Key} {l : List Key} : k ∈ sortKeys l ↔ k ∈ l :=
  (List.mergeSort_perm l _).mem_iff

theorem bundleTree_names (b : Bundle) (m : String) (h : occursX m (bundleTree b)) :
    m ∈ ["ResponseBundle", "Inception", "Expiration", "Key", "TTL", "Flags", "Protocol", "Algorithm", "PublicKey",
      "Signature", "TypeCovered", "Labels", "OriginalTTL", "SignatureExpiration", "SignatureInception", "KeyTag",
      "SignersName", "SignatureData"] := by
  simp only [bundleTree, occursX] at h
  rcases h with h | h
  · simp [← h]
  · rw [occursXL_append, occursXL_append] at h
    rcases h with (h | h) | h
    · simp only [occursXL, occursX, or_false] at h
      rcases h with h | h <;> simp [← h]
    · by_cases hc : m ∈ ["Key", "TTL", "Flags", "Protocol", "Algorithm", "PublicKey"]
      · simp only [List.mem_cons, List.not_mem_nil, or_false] at hc
        rcases hc with rfl | rfl | rfl | rfl | rfl | rfl <;> simp
      · exact absurd h (not_occursXL_map m keyTree _ (fun k _ ho => hc (keyTree_names k m ho)))
    · by_cases hc : m ∈ ["Signature", "TTL", "TypeCovered", "Algorithm", "Labels", "OriginalTTL",
          "SignatureExpiration", "SignatureInception", "KeyTag", "SignersName", "SignatureData"]
      · simp only [List.mem_cons, List.not_mem_nil, or_false] at hc
        rcases hc with rfl | rfl | rfl | rfl | rfl | rfl | rfl | rfl | rfl | rfl | rfl <;> simp
      · exact absurd h (not_occursXL_map m sigTree _ (fun s _ ho => hc (sigTree_names s m ho)))

theorem bundleTree_plain (b : Bundle) (h : bundleSafe b) : PlainX (bundleTree b) := by
  obtain ⟨h1, h2, h3⟩ := h
  unfold bundleTree
  refine ⟨pn "ResponseBundle", attrsPlain_cons (plainAttr_of_ok (pn "id") _ h1) attrsPlain_nil, by simp, ?_, ?_⟩
  · rw [plainXL_append, plainXL_append]
    refine ⟨⟨⟨timeLeaf "Inception" _, timeLeaf "Expiration" _, trivial⟩, ?_⟩, ?_⟩
    · exact plainXL_map _ _ (fun k hk => keyTree_plain k (h2 k (mem_sortKeys.mp hk)).1 (h2 k (mem_sortKeys.mp hk)).2)
    · exact plainXL_map _ _ (fun s hs => sigTree_plain s (h3 s hs).1 (h3 s hs).2.1 (h3 s hs).2.2)
  · rw [occursXL_append, occursXL_append, not_or, not_or]
    refine ⟨⟨by simp [occursXL, occursX], ?_⟩, ?_⟩
    · exact not_occursXL_map _ _ _ (fun k _ ho => by have := keyTree_names k _ ho; simp at this)
    · exact not_occursXL_map _ _ _ (fun s _ ho => by have := sigTree_names s _ ho; simp at this)

/-- **the writer's tree is PlainXml** — under `TextSafe` alone -/
theorem treeOf_plain (r : Response) (h : TextSafe r) : PlainX (treeOf r) := by
  have hb := bundleSafe_of r h
  simp only [TextSafe, textSafe, Bool.and_eq_true] at h
  unfold treeOf
  refine ⟨pn "KSR", attrsPlain_cons (plainAttr_of_ok (pn "id") _ h.1.1)
    (attrsPlain_cons (plainAttr_of_ok (pn "domain") _ h.1.2) (attrsPlain_cons (intAttr "serial" _) attrsPlain_nil)),
    by simp, ⟨?_, trivial⟩, ?_⟩
  · -- Response
    refine ⟨pn "Response", attrsPlain_nil, by simp, ⟨?_, ?_⟩, ?_⟩
    · -- ResponsePolicy
      refine ⟨pn "ResponsePolicy", attrsPlain_nil, by simp,
        ⟨policyTree_plain "KSK" (by decide) (by decide) _, policyTree_plain "ZSK" (by decide) (by decide) _, trivial⟩, ?_⟩
      simp only [occursXL, or_false, not_or]
      constructor <;> intro ho
      · have := policyTree_names _ _ _ ho; simp at this
      · have := policyTree_names _ _ _ ho; simp at this
    · exact plainXL_map _ _ (fun b hb' => bundleTree_plain b (hb b hb'))
    · simp only [occursXL, occursX, or_false, not_or]
      refine ⟨⟨by decide, ?_, ?_⟩, ?_⟩
      · intro ho; have := policyTree_names _ _ _ ho; simp at this
      · intro ho; have := policyTree_names _ _ _ ho; simp at this
      · exact not_occursXL_map _ _ _ (fun b _ ho => by have := bundleTree_names b _ ho; simp at this)
  · simp only [occursXL, occursX, or_false, not_or]
    refine ⟨by decide, ⟨by decide, ?_, ?_⟩, ?_⟩
    · intro ho; have := policyTree_names _ _ _ ho; simp at this
    · intro ho; have := policyTree_names _ _ _ ho; simp at this
    · exact not_occursXL_map _ _ _ (fun b _ ho => by have := bundleTree_names b _ ho; simp at this)

/-! ### depth -/

theorem heightX_algTree (a : AlgPolicy) : heightX (algTree a) ≤ 1 := by
  simp [algTree, heightX, heightXL]

theorem heightX_policyTree (name : String) (p : SigPolicy) : heightX (policyTree name p) ≤ 2 := by
  have := heightXL_map_le algTree p.algorithms 1 (fun a _ => heightX_algTree a)
  simp only [policyTree, heightX, heightXL_append, heightXL]
  omega

theorem heightX_keyTree (k : Key) : heightX (keyTree k) ≤ 1 := by
  simp [keyTree, heightX, heightXL]

theorem heightX_sigTree (s : Signature) : heightX (sigTree s) ≤ 1 := by
  simp [sigTree, heightX, heightXL]

theorem heightX_bundleTree (b : Bundle) : heightX (bundleTree b) ≤ 2 := by
  have h1 := heightXL_map_le keyTree (sortKeys b.keys) 1 (fun k _ => heightX_keyTree k)
  have h2 := heightXL_map_le sigTree b.signatures 1 (fun s _ => heightX_sigTree s)
  simp only [bundleTree, heightX, heightXL_append, heightXL]
  omega

/-- five levels: exactly what `parse(xml, recurse=5)` allows -/
theorem heightX_treeOf (r : Response) : heightX (treeOf r) ≤ 5 := by
  have h1 := heightX_policyTree "KSK" r.kskPolicy
  have h2 := heightX_policyTree "ZSK" r.zskPolicy
  have h3 := heightXL_map_le bundleTree r.bundles 2 (fun b _ => heightX_bundleTree b)
  simp only [treeOf, heightX, heightXL]
  omega

end Kskm.ReadBack
