/-
  Decimal printing (`Nat.toDigits 10`, what Python's `str(int)` and Lean's `Nat.repr` produce) followed
  by the readers' digit scanners is the identity.  Shared by the duration and timestamp round trips.
-/
import Kskm.Duration
import Kskm.Time
namespace Kskm

theorem takeWhile_append_stop {α} (p : α → Bool) (l r : List α)
    (hl : ∀ c ∈ l, p c = true) (hr : ∀ c, r.head? = some c → p c = false) :
    (l ++ r).takeWhile p = l ∧ (l ++ r).dropWhile p = r := by
  induction l with
  | nil =>
    cases r with
    | nil => simp
    | cons c t => simp [List.takeWhile, List.dropWhile, hr c rfl]
  | cons a t ih =>
    have ha : p a = true := hl a (by simp)
    have := ih (fun c hc => hl c (by simp [hc]))
    simp [List.takeWhile, List.dropWhile, ha, this.1, this.2]

theorem all_digits_toDigits (n : Nat) : ∀ c ∈ Nat.toDigits 10 n, c.isDigit = true :=
  fun _ hc => Nat.isDigit_of_mem_toDigits (by decide) (by decide) hc

/-- the digit scanner stops exactly after a printed number when a non-digit follows -/
theorem scan_toDigits (n : Nat) (r : List Char) (hr : ∀ c, r.head? = some c → c.isDigit = false) :
    (Nat.toDigits 10 n ++ r).takeWhile Char.isDigit = Nat.toDigits 10 n ∧
    (Nat.toDigits 10 n ++ r).dropWhile Char.isDigit = r :=
  takeWhile_append_stop _ _ _ (all_digits_toDigits n) hr

theorem length_toDigits_le (n k : Nat) (hk : 0 < k) (h : n < 10 ^ k) : (Nat.toDigits 10 n).length ≤ k :=
  (Nat.length_toDigits_le_iff (by decide) hk).mpr h

theorem toDigits_ne_nil' (n : Nat) : Nat.toDigits 10 n ≠ [] := Nat.toDigits_ne_nil

theorem toDigits_isEmpty (n : Nat) : (Nat.toDigits 10 n).isEmpty = false := by
  cases h : Nat.toDigits 10 n with
  | nil => exact absurd h Nat.toDigits_ne_nil
  | cons => rfl

/-- no character of a printed number is any of the given non-digit characters -/
theorem not_mem_toDigits_of_not_digit (n : Nat) (c : Char) (hc : c.isDigit = false) :
    c ∉ Nat.toDigits 10 n := fun h => by
  have := all_digits_toDigits n c h
  simp [hc] at this

theorem isDigit_digitChar_lt {n : Nat} (h : n < 10) : (Nat.digitChar n).isDigit = true := by
  simp [Nat.isDigit_digitChar, h]

/-- two-digit fields -/
theorem parseDigitsN_pad2 (n : Nat) (h : n < 100) (r : List Char) (acc : Nat) :
    parseDigitsN 2 (pad2 n ++ r) acc = some (acc * 100 + n, r) := by
  have h1 : n / 10 % 10 < 10 := Nat.mod_lt _ (by decide)
  have h2 : n % 10 < 10 := Nat.mod_lt _ (by decide)
  have d1 := isDigit_digitChar_lt h1
  have d2 := isDigit_digitChar_lt h2
  simp only [pad2, List.cons_append, List.nil_append, parseDigitsN, d1, d2, ↓reduceIte,
    Nat.toNat_digitChar_sub_48_of_lt_ten h1, Nat.toNat_digitChar_sub_48_of_lt_ten h2]
  congr 2
  omega

/-- a four-digit number prints as exactly its four digits -/
theorem toDigits_four (n : Nat) (h1 : 1000 ≤ n) (h2 : n ≤ 9999) :
    Nat.toDigits 10 n = [Nat.digitChar (n / 1000), Nat.digitChar (n / 100 % 10), Nat.digitChar (n / 10 % 10),
      Nat.digitChar (n % 10)] := by
  rw [Nat.toDigits_of_base_le (by decide) (by omega), Nat.toDigits_of_base_le (by decide) (by omega),
    Nat.toDigits_of_base_le (by decide) (by omega), Nat.toDigits_of_lt_base (by omega)]
  simp only [List.cons_append, List.nil_append, List.append_assoc]
  have e1 : n / 10 / 10 / 10 = n / 1000 := by omega
  have e2 : n / 10 / 10 % 10 = n / 100 % 10 := by omega
  rw [e1, e2]

theorem parseDigitsN_four (n : Nat) (h1 : 1000 ≤ n) (h2 : n ≤ 9999) (r : List Char) :
    parseDigitsN 4 (Nat.toDigits 10 n ++ r) 0 = some (n, r) := by
  rw [toDigits_four n h1 h2]
  have a : n / 1000 < 10 := by omega
  have b : n / 100 % 10 < 10 := Nat.mod_lt _ (by decide)
  have c : n / 10 % 10 < 10 := Nat.mod_lt _ (by decide)
  have d : n % 10 < 10 := Nat.mod_lt _ (by decide)
  simp only [List.cons_append, List.nil_append, parseDigitsN, isDigit_digitChar_lt a,
    isDigit_digitChar_lt b, isDigit_digitChar_lt c, isDigit_digitChar_lt d,
    ↓reduceIte, Nat.toNat_digitChar_sub_48_of_lt_ten a, Nat.toNat_digitChar_sub_48_of_lt_ten b,
    Nat.toNat_digitChar_sub_48_of_lt_ten c, Nat.toNat_digitChar_sub_48_of_lt_ten d]
  have : (((0 * 10 + n / 1000) * 10 + n / 100 % 10) * 10 + n / 10 % 10) * 10 + n % 10 = n := by omega
  rw [this]

end Kskm
