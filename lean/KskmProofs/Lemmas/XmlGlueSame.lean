/-
  What the glue makes of `DictPerm` values (C12, sibling order below the bundle level).

  `DictPerm` (KskmProofs/Lemmas/XmlChildPerm.lean) relates the reader's results on two documents that differ
  in the order of child elements: equal except for the order of the entries of the lists that collect
  same-named siblings.  The glue of Kskm/XmlGlue.lean turns exactly those lists into Python `set`s (keys,
  signatures, signers, signature algorithms) — duplicate-free lists in first-occurrence order here — or into
  the sorted bundle list.  Hence:

    * every record built from ONE element (`keyOf`, `signatureOf`, `algPolicyOf`, one signer) is EQUAL on
      `DictPerm` arguments, error class included (`…_perm`);
    * a loop over a repeated element (`List.mapM`) succeeds on one order iff it succeeds on the other, with
      permuted results (`mapM_listPerm`); WHICH element's exception comes out when several are faulty does
      depend on the order, so failures are only related as failures (`ResSame`);
    * `keysOf`, `signaturesOf`, `signatureAlgorithmsOf`, `signersOf` return permutations of the same
      duplicate-free list; `requestBundleOf` / `responseBundleOf` return `SameBundle`s;
    * the bundle sort by (expiration, inception, id) is total when bundle ids are pairwise distinct, and its
      comparison does not look at the set-valued fields, so the sorted LISTS agree position by position
      (`sortByKey_permRel`);
    * `requestFromDict` / `responseFromDict` return `SameRequest` / `SameResponseP` objects: the same Python
      object, `set` fields compared as sets.
-/
import KskmProofs.Lemmas.XmlChildPerm
import KskmProofs.Lemmas.XmlGlueEq
namespace Kskm.Xml

/-! ### outcomes that are "the same up to …" -/

/-- both succeed with `R`-related results, or both fail -/
def ResSame {α β : Type} (R : α → β → Prop) (x : Res α) (y : Res β) : Prop :=
  match x, y with
  | .ok a, .ok b => R a b
  | .error _, .error _ => True
  | _, _ => False

theorem ResSame.bind {α β α' β' : Type} {R : α → β → Prop} {S : α' → β' → Prop} {x : Res α} {y : Res β}
    {f : α → Res α'} {g : β → Res β'} (h : ResSame R x y) (hfg : ∀ a b, R a b → ResSame S (f a) (g b)) :
    ResSame S (x >>= f) (y >>= g) := by
  cases x with
  | error e =>
    cases y with
    | error e' => exact trivial
    | ok b => exact h.elim
  | ok a =>
    cases y with
    | error e' => exact h.elim
    | ok b => exact hfg a b h

theorem ResSame.bind_eq {γ α' β' : Type} {S : α' → β' → Prop} {x y : Res γ} {f : γ → Res α'} {g : γ → Res β'}
    (h : x = y) (hfg : ∀ a, ResSame S (f a) (g a)) : ResSame S (x >>= f) (y >>= g) := by
  subst h
  cases x with
  | error e => exact trivial
  | ok a => exact hfg a

theorem ResSame.pure {α β : Type} {R : α → β → Prop} {a : α} {b : β} (h : R a b) :
    ResSame R (Pure.pure a : Res α) (Pure.pure b : Res β) := h

theorem ResSame.of_eq {α : Type} {R : α → α → Prop} (hr : ∀ a, R a a) {x y : Res α} (h : x = y) : ResSame R x y := by
  subst h
  cases x with
  | error e => exact trivial
  | ok a => exact hr a

theorem ResSame.imp {α β : Type} {R S : α → β → Prop} (h : ∀ a b, R a b → S a b) {x : Res α} {y : Res β}
    (hx : ResSame R x y) : ResSame S x y := by
  cases x <;> cases y <;> first | exact trivial | exact hx.elim | exact h _ _ hx

theorem ResSame.trans {α : Type} {R : α → α → Prop} (ht : ∀ a b c, R a b → R b c → R a c) {x y z : Res α}
    (h : ResSame R x y) (h' : ResSame R y z) : ResSame R x z := by
  cases x <;> cases y <;> cases z <;> first | exact trivial | exact h.elim | exact h'.elim | exact ht _ _ _ h h'

theorem ResSame.ok_iff {α β : Type} {R : α → β → Prop} {x : Res α} {y : Res β} (h : ResSame R x y) :
    (∃ a, x = .ok a) ↔ (∃ b, y = .ok b) := by
  cases x <;> cases y <;> first | exact h.elim | simp

/-! ### exact outcomes on `DictPerm` arguments (single elements) -/

def ResRelP (x y : Res XVal) : Prop :=
  match x, y with
  | .ok u, .ok v => DictPerm u v
  | .error e, .error e' => e = e'
  | _, _ => False

def ResOptRelP (x y : Res (Option XVal)) : Prop :=
  match x, y with
  | .ok u, .ok v => OptRelP u v
  | .error e, .error e' => e = e'
  | _, _ => False

theorem bind_relP {α} {x y : Res XVal} {f g : XVal → Res α} (h : ResRelP x y)
    (hfg : ∀ u v, DictPerm u v → f u = g v) : (x >>= f) = (y >>= g) := by
  cases x with
  | error e =>
    cases y with
    | error e' => simp only [ResRelP] at h; subst h; rfl
    | ok v => simp [ResRelP] at h
  | ok u =>
    cases y with
    | error e' => simp [ResRelP] at h
    | ok v => exact hfg u v h

theorem bind_relOptP {α} {x y : Res (Option XVal)} {f g : Option XVal → Res α} (h : ResOptRelP x y)
    (hfg : ∀ u v, OptRelP u v → f u = g v) : (x >>= f) = (y >>= g) := by
  cases x with
  | error e =>
    cases y with
    | error e' => simp only [ResOptRelP] at h; subst h; rfl
    | ok v => simp [ResOptRelP] at h
  | ok u =>
    cases y with
    | error e' => simp [ResOptRelP] at h
    | ok v => exact hfg u v h

theorem ResRelP.same {x y : Res XVal} (h : ResRelP x y) : ResSame DictPerm x y := by
  cases x <;> cases y <;> first | exact trivial | exact h.elim | exact h

theorem ResOptRelP.same {x y : Res (Option XVal)} (h : ResOptRelP x y) : ResSame OptRelP x y := by
  cases x <;> cases y <;> first | exact trivial | exact h.elim | exact h

/-! ### the dynamic operations -/

theorem getItem_perm {a b : XVal} (h : DictPerm a b) (k : String) : ResRelP (a.getItem k) (b.getItem k) := by
  cases h with
  | str s => simp [XVal.getItem, ResRelP, err]
  | list _ => simp [XVal.getItem, ResRelP, err]
  | @dict d d' h1 h2 =>
    have := DictRelP.lookups ⟨h1, h2⟩ k.toList
    simp only [XVal.getItem]
    generalize List.lookup k.toList d = x, List.lookup k.toList d' = y at this
    cases this with
    | none => simp [ResRelP, err]
    | some hr => simpa [ResRelP, pure, Except.pure] using hr

theorem get?_perm {a b : XVal} (h : DictPerm a b) (k : String) : ResOptRelP (a.get? k) (b.get? k) := by
  cases h with
  | str s => simp [XVal.get?, ResOptRelP, err]
  | list _ => simp [XVal.get?, ResOptRelP, err]
  | dict h1 h2 =>
    have := DictRelP.lookups ⟨h1, h2⟩ k.toList
    simpa [XVal.get?, ResOptRelP, pure, Except.pure] using this

theorem DictPerm.eq_str_iff {a b : XVal} (h : DictPerm a b) (s : List Char) : a = .str s ↔ b = .str s := by
  cases h <;> simp

theorem any_eq_str_all₂ : ∀ {l l' : List XVal}, All₂ DictPerm l l' → ∀ (s : List Char),
    l.any (fun x => decide (x = .str s)) = l'.any (fun x => decide (x = .str s))
  | _, _, .nil, _ => rfl
  | _, _, .cons h t, s => by
    simp only [List.any_cons]
    rw [any_eq_str_all₂ t s]
    congr 1
    exact decide_eq_decide.mpr (h.eq_str_iff s)

theorem any_perm {α} (p : α → Bool) {l l' : List α} (h : l.Perm l') : l.any p = l'.any p := by
  rw [Bool.eq_iff_iff]
  simp only [List.any_eq_true]
  exact ⟨fun ⟨x, hx, hp⟩ => ⟨x, h.mem_iff.mp hx, hp⟩, fun ⟨x, hx, hp⟩ => ⟨x, h.mem_iff.mpr hx, hp⟩⟩

theorem dictRelP_isEmpty {d d' : Dict} (h : DictRelP d d') : d.isEmpty = d'.isEmpty := by
  cases d with
  | nil =>
    cases d' with
    | nil => rfl
    | cons p r =>
      obtain ⟨pk, pv⟩ := p
      have := (h.1 pk).mp rfl
      simp [List.lookup] at this
  | cons p r =>
    cases d' with
    | nil =>
      obtain ⟨pk, pv⟩ := p
      have := (h.1 pk).mpr rfl
      simp [List.lookup] at this
    | cons _ _ => rfl

theorem contains_perm {a b : XVal} (h : DictPerm a b) (k : String) : a.contains k = b.contains k := by
  cases h with
  | str s => rfl
  | list hl =>
    obtain ⟨m, hp, ha⟩ := hl.split
    simp only [XVal.contains]
    rw [any_perm _ hp, any_eq_str_all₂ ha]
  | dict h1 h2 =>
    simp only [XVal.contains]
    rw [any_key_eq_isSome, any_key_eq_isSome]
    have := h1 k.toList
    cases hx : List.lookup k.toList _ <;> cases hy : List.lookup k.toList _ <;> simp_all

theorem truthy_perm {a b : XVal} (h : DictPerm a b) : a.truthy = b.truthy := by
  cases h with
  | str s => rfl
  | list hl => simp only [XVal.truthy]; rw [hl.isEmpty]
  | dict h1 h2 => simp only [XVal.truthy]; rw [dictRelP_isEmpty ⟨h1, h2⟩]

theorem asList_perm {a b : XVal} (h : DictPerm a b) : ListPerm a.asList b.asList := by
  cases h with
  | str s => exact .cons (.str s) .nil
  | list hl => exact hl
  | dict h1 h2 => exact .cons (.dict h1 h2) .nil

theorem intOf_perm {a b : XVal} (h : DictPerm a b) : intOf a = intOf b := by cases h <;> rfl
theorem strictStr_perm {a b : XVal} (h : DictPerm a b) : strictStr a = strictStr b := by cases h <;> rfl
theorem bytesOf_perm {a b : XVal} (h : DictPerm a b) : bytesOf a = bytesOf b := by cases h <;> rfl
theorem datetimeOf_perm {a b : XVal} (h : DictPerm a b) : datetimeOf a = datetimeOf b := by cases h <;> rfl
theorem typeCoveredOf_perm {a b : XVal} (h : DictPerm a b) : typeCoveredOf a = typeCoveredOf b := by cases h <;> rfl

theorem durationOf_perm {a b : XVal} (h : DictPerm a b) : durationOf a = durationOf b := by
  unfold durationOf
  rw [truthy_perm h]
  cases h <;> rfl

theorem algorithmOf_perm {a b : XVal} (h : DictPerm a b) : algorithmOf a = algorithmOf b := by
  unfold algorithmOf
  rw [intOf_perm h]

/-- the answer of an atomic conversion on `DictPerm` arguments -/
macro "pleaf" : tactic => `(tactic| first
  | rfl
  | exact intOf_perm (by assumption)
  | exact strictStr_perm (by assumption)
  | exact bytesOf_perm (by assumption)
  | exact datetimeOf_perm (by assumption)
  | exact durationOf_perm (by assumption)
  | exact algorithmOf_perm (by assumption)
  | exact typeCoveredOf_perm (by assumption))

/-- one `←` of a `do` block whose result is equal on both sides -/
macro "pstep" : tactic => `(tactic| first
  | (refine bind_relP (getItem_perm (by assumption) _) ?_; intro _ _ _)
  | (refine bind_relOptP (get?_perm (by assumption) _) ?_; intro _ _ _)
  | (refine bind_eq (by pleaf) ?_; intro _))

/-! ### records built from one element: equal -/

theorem algPolicyOf_perm {a b : XVal} (h : DictPerm a b) : algPolicyOf a = algPolicyOf b := by
  unfold algPolicyOf
  repeat pstep
  split
  · repeat pstep
    rfl
  · split
    · repeat pstep
      rfl
    · split
      · repeat pstep
        rfl
      · rfl

theorem keyOf_perm {a b : XVal} (h : DictPerm a b) : keyOf a = keyOf b := by
  unfold keyOf
  repeat pstep
  rfl

theorem signatureOf_perm {a b : XVal} (h : DictPerm a b) : signatureOf a = signatureOf b := by
  unfold signatureOf
  repeat pstep
  cases ‹OptRelP _ _› with
  | none => rfl
  | some hxy =>
    dsimp only
    repeat pstep
    rfl

theorem signerStep_perm {a b : XVal} (h : DictPerm a b) : signerStep a = signerStep b := by
  unfold signerStep
  repeat pstep
  rfl

theorem timestampOf_perm {a b : XVal} (h : DictPerm a b) : timestampOf a = timestampOf b := by
  unfold timestampOf
  rw [contains_perm h]
  split
  · repeat pstep
    rfl
  · rfl

/-! ### loops over a repeated element -/

theorem mapM_all₂ {α} {f : XVal → Res α} (hf : ∀ u v, DictPerm u v → f u = f v) :
    ∀ {l l' : List XVal}, All₂ DictPerm l l' → l.mapM f = l'.mapM f
  | _, _, .nil => rfl
  | _, _, .cons h t => by
    rw [List.mapM_cons, List.mapM_cons, hf _ _ h, mapM_all₂ hf t]

/-- a loop that may raise, over a permuted list: succeeds iff it did, with permuted results -/
theorem mapM_perm_ok {α β} (f : α → Res β) {l₁ l₂ : List α} (hp : l₁.Perm l₂) :
    ∀ r₁, l₁.mapM f = .ok r₁ → ∃ r₂, l₂.mapM f = .ok r₂ ∧ r₁.Perm r₂ := by
  induction hp with
  | nil => intro r₁ h; exact ⟨r₁, h, List.Perm.refl _⟩
  | cons x _ ih =>
    intro r₁ h
    rw [List.mapM_cons] at h ⊢
    cases hx : f x with
    | error e => simp [hx, bind, Except.bind] at h
    | ok y =>
      simp only [hx, bind, Except.bind] at h ⊢
      rename_i la lb _
      cases hl : la.mapM f with
      | error e => simp [hl] at h
      | ok ys =>
        simp only [hl, pure, Except.pure, Except.ok.injEq] at h
        obtain ⟨r₂, h2, hp2⟩ := ih ys hl
        subst h
        exact ⟨y :: r₂, by simp [h2, pure, Except.pure], hp2.cons y⟩
  | swap x y l =>
    intro r₁ h
    simp only [List.mapM_cons, bind, Except.bind] at h ⊢
    cases hy : f y with
    | error e => simp [hy] at h
    | ok y' =>
      cases hx : f x with
      | error e => simp [hy, hx] at h
      | ok x' =>
        cases hl : l.mapM f with
        | error e => simp [hy, hx, hl] at h
        | ok ys =>
          simp only [hy, hx, hl, pure, Except.pure, Except.ok.injEq] at h
          subst h
          exact ⟨x' :: y' :: ys, rfl, List.Perm.swap _ _ _⟩
  | trans _ _ ih1 ih2 =>
    intro r₁ h
    obtain ⟨r₂, h2, hp2⟩ := ih1 r₁ h
    obtain ⟨r₃, h3, hp3⟩ := ih2 r₂ h2
    exact ⟨r₃, h3, hp2.trans hp3⟩

theorem mapM_perm_same {α β} (f : α → Res β) {l₁ l₂ : List α} (hp : l₁.Perm l₂) :
    ResSame List.Perm (l₁.mapM f) (l₂.mapM f) := by
  cases h1 : l₁.mapM f with
  | ok r₁ =>
    obtain ⟨r₂, h2, hp2⟩ := mapM_perm_ok f hp r₁ h1
    rw [h2]
    exact hp2
  | error e =>
    cases h2 : l₂.mapM f with
    | error e' => exact trivial
    | ok r₂ =>
      obtain ⟨r₁, h1', _⟩ := mapM_perm_ok f hp.symm r₂ h2
      rw [h1] at h1'
      cases h1'

/-- **a loop building one record per occurrence, over the two orders of a repeated element**: both fail
    or both succeed, with permutations of the same records -/
theorem mapM_listPerm {α} {f : XVal → Res α} (hf : ∀ u v, DictPerm u v → f u = f v) {l l' : List XVal}
    (h : ListPerm l l') : ResSame List.Perm (l.mapM f) (l'.mapM f) := by
  obtain ⟨m, hp, ha⟩ := h.split
  rw [← mapM_all₂ hf ha]
  exact mapM_perm_same f hp

/-- the same for a loop whose records are only `R`-related on related arguments -/
theorem mapM_all₂_same {α} {R : α → α → Prop} {f : XVal → Res α} (hf : ∀ u v, DictPerm u v → ResSame R (f u) (f v)) :
    ∀ {l l' : List XVal}, All₂ DictPerm l l' → ResSame (All₂ R) (l.mapM f) (l'.mapM f)
  | _, _, .nil => All₂.nil
  | _, _, .cons h t => by
    rw [List.mapM_cons, List.mapM_cons]
    refine ResSame.bind (hf _ _ h) (fun a b hab => ?_)
    refine ResSame.bind (mapM_all₂_same hf t) (fun as bs habs => ?_)
    exact All₂.cons hab habs

theorem mapM_listPerm_same {α} {R : α → α → Prop} {f : XVal → Res α}
    (hf : ∀ u v, DictPerm u v → ResSame R (f u) (f v)) {l l' : List XVal} (h : ListPerm l l') :
    ResSame (PermRel R) (l.mapM f) (l'.mapM f) := by
  obtain ⟨m, hp, ha⟩ := h.split
  have h1 := mapM_perm_same f hp
  have h2 := mapM_all₂_same hf ha
  cases hl : l.mapM f with
  | error e =>
    rw [hl] at h1
    cases hm : m.mapM f with
    | ok _ => rw [hm] at h1; exact h1.elim
    | error e' =>
      rw [hm] at h2
      cases hl' : l'.mapM f with
      | ok _ => rw [hl'] at h2; exact h2.elim
      | error _ => exact trivial
  | ok r =>
    rw [hl] at h1
    cases hm : m.mapM f with
    | error _ => rw [hm] at h1; exact h1.elim
    | ok rm =>
      rw [hm] at h1 h2
      cases hl' : l'.mapM f with
      | error _ => rw [hl'] at h2; exact h2.elim
      | ok r' =>
        rw [hl'] at h2
        exact ⟨rm, h1, h2⟩

/-! ### Python sets as duplicate-free lists -/

theorem mem_dedup' {α} [DecidableEq α] (x : α) : ∀ (l : List α), x ∈ dedup l ↔ x ∈ l
  | [] => by simp [dedup]
  | a :: t => by
    by_cases hx : x = a
    · subst hx; simp [dedup]
    · simp [dedup, mem_dedup' x t, hx]

theorem nodup_dedup' {α} [DecidableEq α] : ∀ (l : List α), (dedup l).Nodup
  | [] => by simp [dedup]
  | a :: t => by
    rw [dedup, List.nodup_cons]
    exact ⟨by simp, (nodup_dedup' t).sublist List.filter_sublist⟩

/-- the set built from the occurrences does not depend on their order -/
theorem dedup_perm {α} [DecidableEq α] {l l' : List α} (h : l.Perm l') : (dedup l).Perm (dedup l') := by
  rw [List.perm_ext_iff_of_nodup (nodup_dedup' l) (nodup_dedup' l')]
  intro x
  rw [mem_dedup', mem_dedup', h.mem_iff]

theorem keysOf_same {a b : XVal} (h : DictPerm a b) : ResSame List.Perm (keysOf a) (keysOf b) := by
  unfold keysOf
  exact ResSame.bind (mapM_listPerm (fun _ _ => keyOf_perm) (asList_perm h)) (fun _ _ hp => dedup_perm hp)

theorem signaturesOf_same {a b : XVal} (h : DictPerm a b) : ResSame List.Perm (signaturesOf a) (signaturesOf b) := by
  unfold signaturesOf
  exact ResSame.bind (mapM_listPerm (fun _ _ => signatureOf_perm) (asList_perm h)) (fun _ _ hp => dedup_perm hp)

theorem signatureAlgorithmsOf_same {a b : XVal} (h : DictPerm a b) :
    ResSame List.Perm (signatureAlgorithmsOf a) (signatureAlgorithmsOf b) := by
  unfold signatureAlgorithmsOf
  exact ResSame.bind (mapM_listPerm (fun _ _ => algPolicyOf_perm) (asList_perm h)) (fun _ _ hp => dedup_perm hp)

/-- an optional set -/
inductive OptPerm {α : Type} : Option (List α) → Option (List α) → Prop
  | none : OptPerm none none
  | some {l l' : List α} : l.Perm l' → OptPerm (some l) (some l')

theorem OptPerm.refl {α} : ∀ (o : Option (List α)), OptPerm o o
  | .none => .none
  | .some l => .some (List.Perm.refl l)

theorem OptPerm.symm {α} {a b : Option (List α)} (h : OptPerm a b) : OptPerm b a := by
  cases h with
  | none => exact .none
  | some hp => exact .some hp.symm

theorem OptPerm.trans {α} {a b c : Option (List α)} (h : OptPerm a b) (h' : OptPerm b c) : OptPerm a c := by
  cases h with
  | none => exact h'
  | some hp =>
    cases h' with
    | some hp' => exact .some (hp.trans hp')

theorem iter_mapM_same {α} {f : XVal → Res α} {e : Fail} (hf : ∀ u v, DictPerm u v → f u = f v)
    (hs : ∀ s, f (.str s) = .error e) {a b : XVal} (h : DictPerm a b) :
    ResSame List.Perm (a.iter.mapM f) (b.iter.mapM f) := by
  cases h with
  | str s => exact ResSame.of_eq List.Perm.refl rfl
  | list hl => exact mapM_listPerm hf hl
  | dict h1 h2 =>
    rw [mapM_iter_dict hs, mapM_iter_dict hs, dictRelP_isEmpty ⟨h1, h2⟩]
    exact ResSame.of_eq List.Perm.refl rfl

theorem signersOf_same (gs : GlueSwitches) {a b : XVal} (h : DictPerm a b) :
    ResSame OptPerm (signersOf gs a) (signersOf gs b) := by
  unfold signersOf
  rw [truthy_perm h]
  split
  · exact OptPerm.none
  · refine ResSame.bind (R := List.Perm) ?_ (fun _ _ hp => OptPerm.some (dedup_perm hp))
    cases gs.wrapsSingleSigner with
    | true => exact mapM_listPerm (fun _ _ => signerStep_perm) (asList_perm h)
    | false => exact iter_mapM_same (e := .error .type) (fun _ _ => signerStep_perm) (fun _ => rfl) h

/-! ### the same Python object, `set` fields compared as sets -/

structure SamePolicy (a b : SigPolicy) : Prop where
  publishSafety : a.publishSafety = b.publishSafety
  retireSafety : a.retireSafety = b.retireSafety
  maxSignatureValidity : a.maxSignatureValidity = b.maxSignatureValidity
  minSignatureValidity : a.minSignatureValidity = b.minSignatureValidity
  maxValidityOverlap : a.maxValidityOverlap = b.maxValidityOverlap
  minValidityOverlap : a.minValidityOverlap = b.minValidityOverlap
  algorithms : a.algorithms.Perm b.algorithms

structure SameBundle (a b : Bundle) : Prop where
  id : a.id = b.id
  inception : a.inception = b.inception
  expiration : a.expiration = b.expiration
  keys : a.keys.Perm b.keys
  signatures : a.signatures.Perm b.signatures
  signers : OptPerm a.signers b.signers

theorem SamePolicy.refl (a : SigPolicy) : SamePolicy a a := ⟨rfl, rfl, rfl, rfl, rfl, rfl, List.Perm.refl _⟩
theorem SameBundle.refl (a : Bundle) : SameBundle a a :=
  ⟨rfl, rfl, rfl, List.Perm.refl _, List.Perm.refl _, OptPerm.refl _⟩

theorem SameBundle.trans {a b c : Bundle} (h : SameBundle a b) (h' : SameBundle b c) : SameBundle a c :=
  ⟨h.id.trans h'.id, h.inception.trans h'.inception, h.expiration.trans h'.expiration, h.keys.trans h'.keys,
    h.signatures.trans h'.signatures, h.signers.trans h'.signers⟩

theorem SameBundle.symm {a b : Bundle} (h : SameBundle a b) : SameBundle b a :=
  ⟨h.id.symm, h.inception.symm, h.expiration.symm, h.keys.symm, h.signatures.symm, h.signers.symm⟩

/-- one `←` of a `do` block, results related -/
macro "sstep" : tactic => `(tactic| first
  | (refine ResSame.bind (getItem_perm (by assumption) _).same ?_; intro _ _ _)
  | (refine ResSame.bind (get?_perm (by assumption) _).same ?_; intro _ _ _)
  | (refine ResSame.bind_eq (by pleaf) ?_; intro _))

theorem signaturePolicyOf_same {a b : XVal} (h : DictPerm a b) :
    ResSame SamePolicy (signaturePolicyOf a) (signaturePolicyOf b) := by
  unfold signaturePolicyOf
  repeat sstep
  refine ResSame.bind (signatureAlgorithmsOf_same (by assumption)) ?_
  intro _ _ hp
  exact ⟨rfl, rfl, rfl, rfl, rfl, rfl, hp⟩

theorem getD_relP {o o' : Option XVal} (h : OptRelP o o') {d d' : XVal} (hd : DictPerm d d') :
    DictPerm (o.getD d) (o'.getD d') := by
  cases h with
  | none => exact hd
  | some hr => exact hr

theorem requestBundleOf_same (gs : GlueSwitches) {a b : XVal} (h : DictPerm a b) :
    ResSame SameBundle (requestBundleOf gs a) (requestBundleOf gs b) := by
  unfold requestBundleOf
  repeat sstep
  cases ‹OptRelP _ _› with
  | none => exact trivial
  | some hxy =>
    dsimp only
    rw [truthy_perm hxy]
    split
    · exact trivial
    · refine ResSame.bind_eq ?_ ?_
      · congr 1
        funext name
        pstep
        rw [contains_perm (by assumption)]
      · intro _
        repeat sstep
        refine ResSame.bind (keysOf_same (by assumption)) ?_
        intro _ _ hk
        repeat sstep
        refine ResSame.bind (signaturesOf_same (by assumption)) ?_
        intro _ _ hs
        repeat sstep
        refine ResSame.bind (signersOf_same gs (getD_relP (by assumption) (DictPerm.refl _))) ?_
        intro _ _ hsn
        repeat sstep
        exact ⟨rfl, rfl, rfl, hk, hs, hsn⟩

theorem responseBundleOf_same {a b : XVal} (h : DictPerm a b) :
    ResSame SameBundle (responseBundleOf a) (responseBundleOf b) := by
  unfold responseBundleOf
  repeat sstep
  refine ResSame.bind (keysOf_same (by assumption)) ?_
  intro _ _ hk
  repeat sstep
  refine ResSame.bind (signaturesOf_same (by assumption)) ?_
  intro _ _ hs
  repeat sstep
  exact ⟨rfl, rfl, rfl, hk, hs, OptPerm.none⟩

/-! ### the bundle sort -/

theorem all₂_of_pairs {α β} {R : α → β → Prop} : ∀ (ps : List (α × β)), (∀ p ∈ ps, R p.1 p.2) →
    All₂ R (ps.map (·.1)) (ps.map (·.2))
  | [], _ => .nil
  | p :: ps, h => .cons (h p List.mem_cons_self) (all₂_of_pairs ps (fun q hq => h q (List.mem_cons_of_mem _ hq)))

theorem All₂.pairs {α β} {R : α → β → Prop} : ∀ {l : List α} {l' : List β}, All₂ R l l' →
    ∃ ps : List (α × β), ps.map (·.1) = l ∧ ps.map (·.2) = l' ∧ ∀ p ∈ ps, R p.1 p.2
  | _, _, .nil => ⟨[], rfl, rfl, by simp⟩
  | _, _, .cons (a := a) (b := b) h t => by
    obtain ⟨ps, h1, h2, h3⟩ := All₂.pairs t
    refine ⟨(a, b) :: ps, by simp [h1], by simp [h2], ?_⟩
    intro p hp
    rcases List.mem_cons.mp hp with rfl | hp
    · exact h
    · exact h3 p hp

/-- a stable sort whose comparison cannot tell `R`-related elements apart maps lists that are `R`-related
    position by position to such lists -/
theorem mergeSort_all₂ {α} {R : α → α → Prop} {le : α → α → Bool}
    (hle : ∀ a a' b b', R a a' → R b b' → le a b = le a' b') {l l' : List α} (h : All₂ R l l') :
    All₂ R (l.mergeSort le) (l'.mergeSort le) := by
  obtain ⟨ps, rfl, rfl, hp⟩ := h.pairs
  have e1 : (ps.map (·.1)).mergeSort le = (ps.mergeSort (fun p q => le p.1 q.1)).map (·.1) :=
    (List.map_mergeSort (r := fun (p q : α × α) => le p.1 q.1) (s := le) (f := fun (p : α × α) => p.1)
      (fun _ _ _ _ => rfl)).symm
  have e2 : (ps.map (·.2)).mergeSort le = (ps.mergeSort (fun p q => le p.1 q.1)).map (·.2) :=
    (List.map_mergeSort (r := fun (p q : α × α) => le p.1 q.1) (s := le) (f := fun (p : α × α) => p.2)
      (fun a ha b hb => hle _ _ _ _ (hp a ha) (hp b hb))).symm
  rw [e1, e2]
  exact all₂_of_pairs _ (fun p hp' => hp p ((List.mergeSort_perm _ _).mem_iff.mp hp'))

theorem bundleKeyLe_same {a a' b b' : Bundle} (ha : SameBundle a a') (hb : SameBundle b b') :
    bundleKeyLe a b = bundleKeyLe a' b' := by
  simp only [bundleKeyLe, ha.id, ha.inception, ha.expiration, hb.id, hb.inception, hb.expiration]

theorem bkLe_iff (a b : Bundle) : bundleKeyLe a b = true ↔
    a.expiration < b.expiration ∨ (a.expiration = b.expiration ∧
      (a.inception < b.inception ∨ (a.inception = b.inception ∧ a.id ≤ b.id))) := by
  simp [bundleKeyLe]

theorem bkLe_total (a b : Bundle) : (bundleKeyLe a b || bundleKeyLe b a) = true := by
  simp only [Bool.or_eq_true, bkLe_iff]
  rcases Int.lt_trichotomy a.expiration b.expiration with h | h | h
  · exact Or.inl (Or.inl h)
  · rcases Int.lt_trichotomy a.inception b.inception with h' | h' | h'
    · exact Or.inl (Or.inr ⟨h, Or.inl h'⟩)
    · rcases String.le_total a.id b.id with hi | hi
      · exact Or.inl (Or.inr ⟨h, Or.inr ⟨h', hi⟩⟩)
      · exact Or.inr (Or.inr ⟨h.symm, Or.inr ⟨h'.symm, hi⟩⟩)
    · exact Or.inr (Or.inr ⟨h.symm, Or.inl h'⟩)
  · exact Or.inr (Or.inl h)

theorem bkLe_trans (a b c : Bundle) (h1 : bundleKeyLe a b = true) (h2 : bundleKeyLe b c = true) :
    bundleKeyLe a c = true := by
  rw [bkLe_iff] at *
  rcases h1 with h1 | ⟨e1, h1⟩
  · rcases h2 with h2 | ⟨e2, _⟩
    · exact Or.inl (by omega)
    · exact Or.inl (by omega)
  · rcases h2 with h2 | ⟨e2, h2⟩
    · exact Or.inl (by omega)
    · refine Or.inr ⟨by omega, ?_⟩
      rcases h1 with h1 | ⟨i1, h1⟩
      · rcases h2 with h2 | ⟨i2, _⟩
        · exact Or.inl (by omega)
        · exact Or.inl (by omega)
      · rcases h2 with h2 | ⟨i2, h2⟩
        · exact Or.inl (by omega)
        · exact Or.inr ⟨by omega, String.le_trans h1 h2⟩

theorem bkLe_antisymm_id (a b : Bundle) (h1 : bundleKeyLe a b = true) (h2 : bundleKeyLe b a = true) : a.id = b.id := by
  rw [bkLe_iff] at *
  rcases h1 with h1 | ⟨e1, h1⟩
  · rcases h2 with h2 | ⟨e2, _⟩ <;> omega
  · rcases h2 with h2 | ⟨_, h2⟩
    · omega
    · rcases h1 with h1 | ⟨i1, h1⟩
      · rcases h2 with h2 | ⟨i2, _⟩ <;> omega
      · rcases h2 with h2 | ⟨_, h2⟩
        · omega
        · exact String.le_antisymm h1 h2

theorem eq_of_mem_pairwise_id' {l : List Bundle} (hd : l.Pairwise (fun a b => a.id ≠ b.id)) :
    ∀ a ∈ l, ∀ b ∈ l, a.id = b.id → a = b := by
  induction l with
  | nil => intro a ha; simp at ha
  | cons x r ih =>
    rw [List.pairwise_cons] at hd
    intro a ha b hb he
    rcases List.mem_cons.mp ha with rfl | ha' <;> rcases List.mem_cons.mp hb with rfl | hb'
    · rfl
    · exact absurd he (hd.1 b hb')
    · exact absurd he.symm (hd.1 a ha')
    · exact ih hd.2 a ha' b hb' he

/-- sorting by (expiration, inception, id) gives ONE list for all orders of bundles with pairwise distinct ids
    (= `C12_order_key` of KskmProofs/C12.lean, needed here below it in the import order) -/
theorem sortByKey_perm_eq (l₁ l₂ : List Bundle) (hp : l₁.Perm l₂)
    (hd : l₁.Pairwise (fun a b => a.id ≠ b.id)) : sortByKey l₁ = sortByKey l₂ := by
  unfold sortByKey
  apply List.Perm.eq_of_pairwise (le := fun a b => bundleKeyLe a b = true)
  · intro a b ha hb h1 h2
    have ha' : a ∈ l₁ := (List.mergeSort_perm l₁ _).mem_iff.mp ha
    have hb' : b ∈ l₁ := hp.mem_iff.mpr ((List.mergeSort_perm l₂ _).mem_iff.mp hb)
    exact eq_of_mem_pairwise_id' hd a ha' b hb' (bkLe_antisymm_id a b h1 h2)
  · exact List.pairwise_mergeSort bkLe_trans bkLe_total l₁
  · exact List.pairwise_mergeSort bkLe_trans bkLe_total l₂
  · exact (List.mergeSort_perm l₁ _).trans (hp.trans (List.mergeSort_perm l₂ _).symm)

theorem PermRel.of_perm_left {α} {R : α → α → Prop} {a a' b : List α} (hp : a.Perm a') (h : PermRel R a' b) :
    PermRel R a b := by
  obtain ⟨m, hm, ha⟩ := h
  exact ⟨m, hp.trans hm, ha⟩

theorem PermRel.of_perm_right {α} {R : α → α → Prop} {a b b' : List α} (h : PermRel R a b) (hp : b.Perm b') :
    PermRel R a b' := by
  obtain ⟨m, hm, ha⟩ := h
  obtain ⟨m', hm', ha'⟩ := All₂.perm_comm hp ha
  exact ⟨m', hm.trans hm', ha'⟩

theorem PermRel.of_all₂ {α} {R : α → α → Prop} {a b : List α} (h : All₂ R a b) : PermRel R a b :=
  ⟨a, List.Perm.refl _, h⟩

theorem PermRel.length_eq {α} {R : α → α → Prop} {a b : List α} (h : PermRel R a b) : a.length = b.length := by
  obtain ⟨m, hm, ha⟩ := h
  rw [hm.length_eq, ha.length_eq]

/-- **the sorted bundle LISTS agree position by position** when the bundles loaded from the two orders are the
    same up to order and `set` fields and their ids are pairwise distinct -/
theorem sortByKey_permRel {u u' : List Bundle} (h : PermRel SameBundle u u')
    (hd : u.Pairwise (fun a b => a.id ≠ b.id)) : All₂ SameBundle (sortByKey u) (sortByKey u') := by
  obtain ⟨m, hp, ha⟩ := h
  rw [sortByKey_perm_eq u m hp hd]
  exact mergeSort_all₂ (R := SameBundle) (fun _ _ _ _ h1 h2 => bundleKeyLe_same h1 h2) ha

/-- two bundle lists as loaded from two sibling orders: the same bundles (up to `set` fields) in some order;
    in the same order when `ordered` and the ids are pairwise distinct -/
def BundlesSame (ordered : Bool) (r r' : List Bundle) : Prop :=
  PermRel SameBundle r r' ∧ (ordered = true → r.Pairwise (fun a b => a.id ≠ b.id) → All₂ SameBundle r r')

theorem bundlesSame_sorted {u u' : List Bundle} (h : PermRel SameBundle u u') :
    BundlesSame true (sortByKey u) (sortByKey u') := by
  have p1 : (sortByKey u).Perm u := List.mergeSort_perm _ _
  have p2 : (sortByKey u').Perm u' := List.mergeSort_perm _ _
  refine ⟨(h.of_perm_left p1).of_perm_right p2.symm, fun _ hd => sortByKey_permRel h ?_⟩
  exact (p1.pairwise_iff (fun h => fun h' => h h'.symm)).mp hd

theorem bundlesSame_unordered {u u' r r' : List Bundle} (h : PermRel SameBundle u u') (p1 : r.Perm u) (p2 : r'.Perm u') :
    BundlesSame false r r' :=
  ⟨(h.of_perm_left p1).of_perm_right p2.symm, fun hc => by cases hc⟩

theorem requestBundlesOf_same (gs : GlueSwitches) {l l' : List XVal} (h : ListPerm l l') :
    ResSame (BundlesSame gs.sortsRequestBundlesByTriple) (requestBundlesOf gs l) (requestBundlesOf gs l') := by
  unfold requestBundlesOf
  refine ResSame.bind (mapM_listPerm_same (fun _ _ => requestBundleOf_same gs) h) ?_
  intro u u' hu
  cases gs.sortsRequestBundlesByTriple with
  | true => exact bundlesSame_sorted hu
  | false => exact bundlesSame_unordered hu (List.mergeSort_perm _ _) (List.mergeSort_perm _ _)

theorem iter_mapM_listPerm_same {α} {R : α → α → Prop} {f : XVal → Res α} {e : Fail}
    (hf : ∀ u v, DictPerm u v → ResSame R (f u) (f v)) (hs : ∀ s, f (.str s) = .error e) {a b : XVal}
    (h : DictPerm a b) : ResSame (PermRel R) (a.iter.mapM f) (b.iter.mapM f) := by
  cases h with
  | str s =>
    cases s with
    | nil => exact PermRel.of_all₂ All₂.nil
    | cons c r =>
      simp only [XVal.iter, List.map_cons, List.mapM_cons, hs]
      exact trivial
  | list hl => exact mapM_listPerm_same hf hl
  | dict h1 h2 =>
    rw [mapM_iter_dict hs, mapM_iter_dict hs, dictRelP_isEmpty ⟨h1, h2⟩]
    split
    · exact PermRel.of_all₂ All₂.nil
    · exact trivial

theorem responseBundlesOf_same (gs : GlueSwitches) {a b : XVal} (h : DictPerm a b) :
    ResSame (BundlesSame gs.sortsResponseBundles) (responseBundlesOf gs a) (responseBundlesOf gs b) := by
  unfold responseBundlesOf
  refine ResSame.bind (R := PermRel SameBundle) ?_ ?_
  · cases gs.wrapsSingleResponseBundle with
    | true => exact mapM_listPerm_same (fun _ _ => responseBundleOf_same) (asList_perm h)
    | false => exact iter_mapM_listPerm_same (e := .error .type) (fun _ _ => responseBundleOf_same) (fun _ => rfl) h
  · intro u u' hu
    cases gs.sortsResponseBundles with
    | true => exact bundlesSame_sorted hu
    | false => exact bundlesSame_unordered hu (List.Perm.refl _) (List.Perm.refl _)

/-! ### requests and responses -/

/-- the same `Request` as Python objects go — `set` fields (keys, signatures, signers, algorithms) compared
    as sets — except possibly for the order of the bundle list; `ordered`: see `BundlesSame` -/
structure RequestSame (ordered : Bool) (a b : Request) : Prop where
  id : a.id = b.id
  serial : a.serial = b.serial
  domain : a.domain = b.domain
  timestamp : a.timestamp = b.timestamp
  zskPolicy : SamePolicy a.zskPolicy b.zskPolicy
  bundles : BundlesSame ordered a.bundles b.bundles

structure ResponseSame (ordered : Bool) (a b : Response) : Prop where
  id : a.id = b.id
  serial : a.serial = b.serial
  domain : a.domain = b.domain
  timestamp : a.timestamp = b.timestamp
  zskPolicy : SamePolicy a.zskPolicy b.zskPolicy
  kskPolicy : SamePolicy a.kskPolicy b.kskPolicy
  bundles : BundlesSame ordered a.bundles b.bundles

macro "sstep3" : tactic => `(tactic| first
  | sstep
  | (refine ResSame.bind_eq (timestampOf_perm (by assumption)) ?_; intro _))

/-- **`request_from_xml` after the reader, on `DictPerm` dicts**: both raise, or both return — the same
    `Request` up to `set` fields and (unless ids are distinct and the sort is by the full key) bundle order. -/
theorem requestFromDict_same (gs : GlueSwitches) {a b : XVal} (h : DictPerm a b) :
    ResSame (RequestSame gs.sortsRequestBundlesByTriple) (requestFromDict gs a) (requestFromDict gs b) := by
  unfold requestFromDict
  repeat sstep
  dsimp only
  refine ResSame.bind (requestBundlesOf_same gs (asList_perm (getD_relP (by assumption) (DictPerm.refl _)))) ?_
  intro _ _ hb
  repeat sstep
  refine ResSame.bind (signaturePolicyOf_same (by assumption)) ?_
  intro _ _ hz
  repeat sstep3
  exact ⟨rfl, rfl, rfl, rfl, hz, hb⟩

/-- **`response_from_xml` after the reader, on `DictPerm` dicts** -/
theorem responseFromDict_same (gs : GlueSwitches) {a b : XVal} (h : DictPerm a b) :
    ResSame (ResponseSame gs.sortsResponseBundles) (responseFromDict gs a) (responseFromDict gs b) := by
  unfold responseFromDict
  repeat sstep
  refine ResSame.bind (responseBundlesOf_same gs (by assumption)) ?_
  intro _ _ hb
  repeat sstep
  refine ResSame.bind (signaturePolicyOf_same (by assumption)) ?_
  intro _ _ hk
  repeat sstep
  refine ResSame.bind (signaturePolicyOf_same (by assumption)) ?_
  intro _ _ hz
  repeat sstep3
  exact ⟨rfl, rfl, rfl, rfl, hz, hk, hb⟩

/-! ### the relation in the property's vocabulary: position by position -/

theorem All₂.get {α β} {R : α → β → Prop} : ∀ {l : List α} {l' : List β}, All₂ R l l' →
    ∀ (i : Nat) (x : α) (y : β), l[i]? = some x → l'[i]? = some y → R x y
  | _, _, .nil, i, x, y, hx, _ => by simp at hx
  | _, _, .cons h t, 0, x, y, hx, hy => by
    simp only [List.getElem?_cons_zero, Option.some.injEq] at hx hy
    subst hx hy
    exact h
  | _, _, .cons h t, i + 1, x, y, hx, hy => by
    simp only [List.getElem?_cons_succ] at hx hy
    exact All₂.get t i x y hx hy

theorem All₂.of_get {α β} {R : α → β → Prop} : ∀ (l : List α) (l' : List β), l.length = l'.length →
    (∀ (i : Nat) (x : α) (y : β), l[i]? = some x → l'[i]? = some y → R x y) → All₂ R l l'
  | [], [], _, _ => .nil
  | [], _ :: _, h, _ => by simp at h
  | _ :: _, [], h, _ => by simp at h
  | a :: l, b :: l', h, hg =>
    .cons (hg 0 a b (by simp) (by simp))
      (All₂.of_get l l' (by simpa using h) (fun i x y hx hy => hg (i + 1) x y (by simpa using hx) (by simpa using hy)))

/-- **The same `Request` as Python compares them**: header fields equal, the `set`-valued fields (a policy's
    algorithms; a bundle's keys, signatures, signers) equal as sets — permutations of duplicate-free lists —,
    and the bundle LIST the same position by position. -/
structure SameRequest (a b : Request) : Prop where
  id : a.id = b.id
  serial : a.serial = b.serial
  domain : a.domain = b.domain
  timestamp : a.timestamp = b.timestamp
  zskPolicy : SamePolicy a.zskPolicy b.zskPolicy
  length : a.bundles.length = b.bundles.length
  bundles : ∀ (i : Nat) (x y : Bundle), a.bundles[i]? = some x → b.bundles[i]? = some y → SameBundle x y

/-- the same `Response`, likewise (cf. `ReadBack.SameResponse` of the C11 composition, which states the
    `set` fields by membership; here: permutations, and the signers too) -/
structure SameResponsePerm (a b : Response) : Prop where
  id : a.id = b.id
  serial : a.serial = b.serial
  domain : a.domain = b.domain
  timestamp : a.timestamp = b.timestamp
  zskPolicy : SamePolicy a.zskPolicy b.zskPolicy
  kskPolicy : SamePolicy a.kskPolicy b.kskPolicy
  length : a.bundles.length = b.bundles.length
  bundles : ∀ (i : Nat) (x y : Bundle), a.bundles[i]? = some x → b.bundles[i]? = some y → SameBundle x y

theorem SamePolicy.symm {a b : SigPolicy} (h : SamePolicy a b) : SamePolicy b a :=
  ⟨h.publishSafety.symm, h.retireSafety.symm, h.maxSignatureValidity.symm, h.minSignatureValidity.symm,
    h.maxValidityOverlap.symm, h.minValidityOverlap.symm, h.algorithms.symm⟩

theorem SameRequest.symm {a b : Request} (h : SameRequest a b) : SameRequest b a :=
  ⟨h.id.symm, h.serial.symm, h.domain.symm, h.timestamp.symm, h.zskPolicy.symm, h.length.symm,
    fun i x y hx hy => (h.bundles i y x hy hx).symm⟩

theorem SameResponsePerm.symm {a b : Response} (h : SameResponsePerm a b) : SameResponsePerm b a :=
  ⟨h.id.symm, h.serial.symm, h.domain.symm, h.timestamp.symm, h.zskPolicy.symm, h.kskPolicy.symm, h.length.symm,
    fun i x y hx hy => (h.bundles i y x hy hx).symm⟩

theorem SameRequest.all₂ {a b : Request} (h : SameRequest a b) : All₂ SameBundle a.bundles b.bundles :=
  All₂.of_get _ _ h.length h.bundles

theorem SameResponsePerm.all₂ {a b : Response} (h : SameResponsePerm a b) : All₂ SameBundle a.bundles b.bundles :=
  All₂.of_get _ _ h.length h.bundles

theorem all₂_ids {l l' : List Bundle} (h : All₂ SameBundle l l') : l.map (·.id) = l'.map (·.id) := by
  induction h with
  | nil => rfl
  | cons h1 _ ih => simp only [List.map_cons, h1.id, ih]

theorem permRel_ids {l l' : List Bundle} (h : PermRel SameBundle l l') : (l.map (·.id)).Perm (l'.map (·.id)) := by
  obtain ⟨m, hp, ha⟩ := h
  rw [← all₂_ids ha]
  exact hp.map _

theorem pairwise_ids_iff (l : List Bundle) : l.Pairwise (fun a b => a.id ≠ b.id) ↔ (l.map (·.id)).Nodup := by
  rw [List.Nodup, List.pairwise_map]

/-- with the full sort key and pairwise distinct bundle ids — on EITHER side — the bundle lists agree
    position by position -/
theorem BundlesSame.all₂ {r r' : List Bundle} (h : BundlesSame true r r')
    (hd : r.Pairwise (fun a b => a.id ≠ b.id) ∨ r'.Pairwise (fun a b => a.id ≠ b.id)) : All₂ SameBundle r r' := by
  apply h.2 rfl
  rcases hd with hd | hd
  · exact hd
  · rw [pairwise_ids_iff] at hd ⊢
    exact (permRel_ids h.1).nodup_iff.mpr hd

theorem RequestSame.same {a b : Request} (h : RequestSame true a b)
    (hd : a.bundles.Pairwise (fun x y => x.id ≠ y.id) ∨ b.bundles.Pairwise (fun x y => x.id ≠ y.id)) :
    SameRequest a b :=
  have ha := h.bundles.all₂ hd
  ⟨h.id, h.serial, h.domain, h.timestamp, h.zskPolicy, ha.length_eq, ha.get⟩

theorem ResponseSame.same {a b : Response} (h : ResponseSame true a b)
    (hd : a.bundles.Pairwise (fun x y => x.id ≠ y.id) ∨ b.bundles.Pairwise (fun x y => x.id ≠ y.id)) :
    SameResponsePerm a b :=
  have ha := h.bundles.all₂ hd
  ⟨h.id, h.serial, h.domain, h.timestamp, h.zskPolicy, h.kskPolicy, ha.length_eq, ha.get⟩

end Kskm.Xml
