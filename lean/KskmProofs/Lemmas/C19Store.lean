/-
  The lookups of kskm/misc/hsm.py against a store (`Kskm.Km.Store`): they only read, and what they
  return is what the store holds — `getP11KeyP_none` (nothing found ⇒ no object of that label and class
  in any searched slot) and `getP11KeyP_some` (found ⇒ the one object of that label and class in that
  slot, with its handle).
-/
import KskmProofs.Lemmas.C19Prog
namespace Kskm.Km

/-- one structural step of an `AllOps isReadOp` proof -/
macro "ro_step" : tactic => `(tactic| first
  | exact AllOps.pure _ | exact AllOps.errP _ | exact AllOps.fail _ | exact AllOps.liftP _
  | exact AllOps.askOkP _ trivial | exact AllOps.askP _ trivial
  | assumption
  | refine AllOps.bind ?_ (fun _ => ?_)
  | split
  | dsimp only)

theorem attr1P_ro (a : TokAns) : AllOps isReadOp (attr1P a) := by unfold attr1P; repeat' ro_step
theorem attrBytesP_ro (a : AttrAns) : AllOps isReadOp (attrBytesP a) := by unfold attrBytesP; repeat' ro_step

macro "ro_step'" : tactic => `(tactic| first
  | exact attr1P_ro _ | exact attrBytesP_ro _ | ro_step)

theorem p11ObjectToPublicKeyP_ro (path : String) (slot handle : Nat) :
    AllOps isReadOp (p11ObjectToPublicKeyP path slot handle) := by
  unfold p11ObjectToPublicKeyP
  repeat' ro_step'

theorem foundKeyTailP_ro (m : P11Module) (label : String) (cls : Nat) (hh : Option Bool) (slot h : Nat)
    (pk : Option String) : AllOps isReadOp (foundKeyTailP m label cls hh slot h pk) := by
  unfold foundKeyTailP
  repeat' ro_step'

theorem foundKeyP_ro (m : P11Module) (label : String) (cls : Nat) (hh : Option Bool) (slot h : Nat) :
    AllOps isReadOp (foundKeyP m label cls hh slot h) := by
  unfold foundKeyP
  split
  · exact AllOps.bind (p11ObjectToPublicKeyP_ro _ _ _) (fun pk => foundKeyTailP_ro _ _ _ _ _ _ pk)
  · exact foundKeyTailP_ro _ _ _ _ _ _ _

theorem findInSlotsP_ro (m : P11Module) (label : String) (cls : Nat) (hh : Option Bool) (slots : List Nat) :
    AllOps isReadOp (findInSlotsP m label cls hh slots) := by
  induction slots with
  | nil => exact AllOps.pure _
  | cons sl rest ih =>
    rw [findInSlotsP]
    refine AllOps.bind (AllOps.askOkP _ trivial) (fun r => ?_)
    split
    · exact ih
    · exact foundKeyP_ro _ _ _ _ _ _
    · exact AllOps.errP _
    · exact AllOps.fail _

theorem getP11KeyP_ro (label : String) (isPublic : Bool) (hh : Option Bool) (mods : List P11Module) :
    AllOps isReadOp (getP11KeyP label isPublic hh mods) := by
  induction mods with
  | nil => exact AllOps.pure _
  | cons m rest ih =>
    rw [getP11KeyP]
    refine AllOps.bind (findInSlotsP_ro _ _ _ _ _) (fun r => ?_)
    split
    · exact AllOps.pure _
    · exact ih

/-- a lookup leaves the store as it was -/
theorem getP11KeyP_store (label : String) (isPublic : Bool) (hh : Option Bool) (mods : List P11Module)
    (st : Store) : ((getP11KeyP label isPublic hh mods).runSt st).2 = st :=
  (getP11KeyP_ro label isPublic hh mods).readOnly st

/-! ### what a lookup finds -/

def classOfB (isPublic : Bool) : Nat := if isPublic then ckoPublic else ckoPrivate

/-- the object carries this label and class -/
def Obj.named (o : Obj) (label : String) (cls : Nat) : Prop := o.label = label ∧ o.cls = cls

instance (o : Obj) (label : String) (cls : Nat) : Decidable (o.named label cls) := by
  unfold Obj.named; infer_instance

theorem matchesTmpl_lookup (o : Obj) (label : String) (cls : Nat) :
    o.matchesTmpl [("LABEL", .str label), ("CLASS", .num cls)] = decide (o.named label cls) := by
  rw [Bool.eq_iff_iff]
  simp only [Obj.matchesTmpl, Obj.matches1, List.all_cons, List.all_nil, Bool.and_true,
    Bool.and_eq_true, beq_iff_eq]
  exact decide_eq_true_iff.symm

/-- the (module, slot) pairs a lookup searches -/
def searched (mods : List P11Module) : List (String × Nat) :=
  mods.flatMap (fun m => m.sessions.map (fun s => (m.path, s)))

theorem mem_searched {mods : List P11Module} {p : String} {n : Nat} :
    (p, n) ∈ searched mods ↔ ∃ m ∈ mods, m.path = p ∧ n ∈ m.sessions := by
  simp only [searched, List.mem_flatMap, List.mem_map, Prod.mk.injEq]
  constructor
  · rintro ⟨m, hm, s, hs, rfl, rfl⟩; exact ⟨m, hm, rfl, hs⟩
  · rintro ⟨m, hm, rfl, hs⟩; exact ⟨m, hm, n, hs, rfl, rfl⟩

/-- the key record `find_key_by_label` builds for the object with handle `h` -/
def IsFound (k : P11Key) (path : String) (slot h : Nat) (label : String) (cls : Nat) : Prop :=
  k.module = path ∧ k.slot = slot ∧ k.label = label ∧ k.keyClass = cls ∧
  k.privHandle = (if cls ≠ ckoPublic then some h else none) ∧
  k.pubHandle = (if cls ≠ ckoSecret then some h else none)

theorem foundKeyTailP_ok {m : P11Module} {label : String} {cls : Nat} {hh : Option Bool} {slot h : Nat}
    {pk : Option String} {st st' : Store} {r : Option P11Key}
    (hr : (foundKeyTailP m label cls hh slot h pk).runSt st = (.ok r, st')) :
    ∃ k, r = some k ∧ IsFound k m.path slot h label cls := by
  unfold foundKeyTailP at hr
  obtain ⟨a, st2, _, hr⟩ := runSt_bind_ok hr
  obtain ⟨kt, st3, _, hr⟩ := runSt_bind_ok hr
  cases kt with
  | num n =>
    simp only at hr
    cases hk : keyTypeOf n with
    | none => simp [hk] at hr
    | some t =>
      simp only [hk, runSt_pure, Prod.mk.injEq, Except.ok.injEq] at hr
      exact ⟨_, hr.1.symm, rfl, rfl, rfl, rfl, rfl, rfl⟩
  | none => simp at hr
  | bytes b => simp at hr
  | str x => simp at hr

theorem foundKeyP_ok {m : P11Module} {label : String} {cls : Nat} {hh : Option Bool} {slot h : Nat}
    {st st' : Store} {r : Option P11Key} (hr : (foundKeyP m label cls hh slot h).runSt st = (.ok r, st')) :
    ∃ k, r = some k ∧ IsFound k m.path slot h label cls := by
  unfold foundKeyP at hr
  split at hr
  · obtain ⟨pk, st1, _, hr⟩ := runSt_bind_ok hr
    exact foundKeyTailP_ok hr
  · exact foundKeyTailP_ok hr

theorem storeStep_find_none {st : Store} {p : String} {n : Nat} (t : List (String × TmplVal))
    (h : st.slots p n = none) : storeStep st (.findObjects p n t) = (.error, st) := by
  simp [storeStep, h]

theorem storeStep_find_some {st : Store} {p : String} {n : Nat} {s : SlotSt} (t : List (String × TmplVal))
    (h : st.slots p n = some s) :
    storeStep st (.findObjects p n t) = (.handles ((s.objects.filter (·.matchesTmpl t)).map (·.handle)), st) := by
  simp [storeStep, h]

/-- one slot of `find_key_by_label` against a store -/
theorem findInSlotsP_cons_run (m : P11Module) (label : String) (cls : Nat) (hh : Option Bool) (slot : Nat)
    (rest : List Nat) (st : Store) :
    (findInSlotsP m label cls hh (slot :: rest)).runSt st =
      match st.slots m.path slot with
      | none => (.error (.error .p11), st)
      | some s =>
        match (s.objects.filter (fun o => decide (o.named label cls))).map (·.handle) with
        | [] => (findInSlotsP m label cls hh rest).runSt st
        | [h] => (foundKeyP m label cls hh slot h).runSt st
        | _ :: _ :: _ => (.error (.error .runtime), st) := by
  cases hs : st.slots m.path slot with
  | none =>
    rw [findInSlotsP, runSt_bind, runSt_askOkP, storeStep_find_none _ hs]
    simp
  | some s =>
    rw [findInSlotsP, runSt_bind, runSt_askOkP, storeStep_find_some _ hs]
    simp only [matchesTmpl_lookup]
    cases hl : (s.objects.filter (fun o => decide (o.named label cls))).map (·.handle) with
    | nil => simp
    | cons a r =>
      cases r with
      | nil => simp
      | cons b r' => simp

theorem filter_map_singleton {s : List Obj} {P : Obj → Bool} {h : Nat}
    (hl : (s.filter P).map (·.handle) = [h]) : ∃ o, s.filter P = [o] ∧ o.handle = h := by
  cases hf : s.filter P with
  | nil => simp [hf] at hl
  | cons o r =>
    cases r with
    | nil => simp only [hf, List.map_cons, List.map_nil, List.cons.injEq, and_true] at hl; exact ⟨o, rfl, hl⟩
    | cons b r' => simp [hf] at hl

theorem findInSlotsP_none {m : P11Module} {label : String} {cls : Nat} {hh : Option Bool} :
    ∀ {slots : List Nat} {st st' : Store}, (findInSlotsP m label cls hh slots).runSt st = (.ok none, st') →
      ∀ slot ∈ slots, ∀ o ∈ st.objs m.path slot, ¬ o.named label cls := by
  intro slots
  induction slots with
  | nil => intro st st' _ slot hs; simp at hs
  | cons sl rest ih =>
    intro st st' hr slot hs o ho
    rw [findInSlotsP_cons_run] at hr
    cases hsl : st.slots m.path sl with
    | none => simp [hsl] at hr
    | some s =>
      simp only [hsl] at hr
      cases hl : (s.objects.filter (fun o => decide (o.named label cls))).map (·.handle) with
      | nil =>
        simp only [hl] at hr
        rcases List.mem_cons.mp hs with rfl | hs'
        · simp only [Store.objs, hsl] at ho
          have : s.objects.filter (fun o => decide (o.named label cls)) = [] := by simpa using hl
          intro hn
          have hm : o ∈ s.objects.filter (fun o => decide (o.named label cls)) := by simp [ho, hn]
          rw [this] at hm
          simp at hm
        · exact ih hr slot hs' o ho
      | cons a r =>
        cases r with
        | nil =>
          simp only [hl] at hr
          obtain ⟨k, hk, _⟩ := foundKeyP_ok hr
          cases hk
        | cons b r' => simp [hl] at hr

theorem findInSlotsP_some {m : P11Module} {label : String} {cls : Nat} {hh : Option Bool} {k : P11Key} :
    ∀ {slots : List Nat} {st st' : Store}, (findInSlotsP m label cls hh slots).runSt st = (.ok (some k), st') →
      ∃ slot ∈ slots, ∃ s o, st.slots m.path slot = some s ∧
        s.objects.filter (fun o => decide (o.named label cls)) = [o] ∧ IsFound k m.path slot o.handle label cls := by
  intro slots
  induction slots with
  | nil => intro st st' hr; simp [findInSlotsP] at hr
  | cons sl rest ih =>
    intro st st' hr
    rw [findInSlotsP_cons_run] at hr
    cases hsl : st.slots m.path sl with
    | none => simp [hsl] at hr
    | some s =>
      simp only [hsl] at hr
      cases hl : (s.objects.filter (fun o => decide (o.named label cls))).map (·.handle) with
      | nil =>
        simp only [hl] at hr
        obtain ⟨slot, hs, x⟩ := ih hr
        exact ⟨slot, List.mem_cons_of_mem _ hs, x⟩
      | cons a r =>
        cases r with
        | nil =>
          simp only [hl] at hr
          obtain ⟨k', hk, hf⟩ := foundKeyP_ok hr
          obtain ⟨o, ho, hh'⟩ := filter_map_singleton hl
          cases hk
          exact ⟨sl, List.mem_cons_self, s, o, hsl, ho, by rw [hh']; exact hf⟩
        | cons b r' => simp [hl] at hr

theorem getP11KeyP_cons_run (label : String) (isPublic : Bool) (hh : Option Bool) (m : P11Module)
    (rest : List P11Module) (st : Store) :
    (getP11KeyP label isPublic hh (m :: rest)).runSt st =
      match (findInSlotsP m label (classOfB isPublic) hh m.sessions).runSt st with
      | (.ok (some k), st') => (.ok (some k), st')
      | (.ok none, st') => (getP11KeyP label isPublic hh rest).runSt st'
      | (.error e, st') => (.error e, st') := by
  rw [getP11KeyP, runSt_bind]
  simp only [classOfB]
  cases h : (findInSlotsP m label (if isPublic = true then ckoPublic else ckoPrivate) hh m.sessions).runSt st with
  | mk r st' =>
    cases r with
    | error e => rfl
    | ok o => cases o <;> rfl

/-- **Nothing found** ⇒ no object of that label and class in any searched slot. -/
theorem getP11KeyP_none {label : String} {isPublic : Bool} {hh : Option Bool} :
    ∀ {mods : List P11Module} {st st' : Store}, (getP11KeyP label isPublic hh mods).runSt st = (.ok none, st') →
      ∀ p n, (p, n) ∈ searched mods → ∀ o ∈ st.objs p n, ¬ o.named label (classOfB isPublic) := by
  intro mods
  induction mods with
  | nil => intro st st' _ p n h; simp [searched] at h
  | cons m rest ih =>
    intro st st' hr p n hpn o ho
    rw [getP11KeyP_cons_run] at hr
    have hro := (findInSlotsP_ro m label (classOfB isPublic) hh m.sessions).readOnly st
    cases hf : (findInSlotsP m label (classOfB isPublic) hh m.sessions).runSt st with
    | mk r st1 =>
      rw [hf] at hr hro
      simp only at hro
      subst hro
      cases r with
      | error e => simp at hr
      | ok o' =>
        cases o' with
        | some k => simp at hr
        | none =>
          simp only at hr
          rcases mem_searched.mp hpn with ⟨m', hm', rfl, hn⟩
          rcases List.mem_cons.mp hm' with rfl | hm''
          · exact findInSlotsP_none hf n hn o ho
          · exact ih hr _ n (mem_searched.mpr ⟨m', hm'', rfl, hn⟩) o ho

/-- **Found** ⇒ it is THE object of that label and class in a searched slot, with its handle. -/
theorem getP11KeyP_some {label : String} {isPublic : Bool} {hh : Option Bool} {k : P11Key} :
    ∀ {mods : List P11Module} {st st' : Store}, (getP11KeyP label isPublic hh mods).runSt st = (.ok (some k), st') →
      (k.module, k.slot) ∈ searched mods ∧ ∃ s o, st.slots k.module k.slot = some s ∧
        s.objects.filter (fun o => decide (o.named label (classOfB isPublic))) = [o] ∧
        IsFound k k.module k.slot o.handle label (classOfB isPublic) := by
  intro mods
  induction mods with
  | nil => intro st st' hr; simp [getP11KeyP] at hr
  | cons m rest ih =>
    intro st st' hr
    rw [getP11KeyP_cons_run] at hr
    have hro := (findInSlotsP_ro m label (classOfB isPublic) hh m.sessions).readOnly st
    cases hf : (findInSlotsP m label (classOfB isPublic) hh m.sessions).runSt st with
    | mk r st1 =>
      rw [hf] at hr hro
      simp only at hro
      subst hro
      cases r with
      | error e => simp at hr
      | ok o' =>
        cases o' with
        | some k' =>
          simp only [Prod.mk.injEq, Except.ok.injEq, Option.some.injEq] at hr
          obtain ⟨rfl, _⟩ := hr
          obtain ⟨slot, hs, s, o, hsl, hfl, hfound⟩ := findInSlotsP_some hf
          have hm := hfound.1
          have hsl' := hfound.2.1
          refine ⟨mem_searched.mpr ⟨m, List.mem_cons_self, hm.symm, by rw [hsl']; exact hs⟩, s, o, ?_, hfl, ?_⟩
          · rw [hm, hsl']; exact hsl
          · rw [hm, hsl']; exact hfound
        | none =>
          simp only at hr
          obtain ⟨hmem, x⟩ := ih hr
          refine ⟨?_, x⟩
          rcases mem_searched.mp hmem with ⟨m', hm', hp, hn⟩
          exact mem_searched.mpr ⟨m', List.mem_cons_of_mem _ hm', hp, hn⟩

end Kskm.Km
