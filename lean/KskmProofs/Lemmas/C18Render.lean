/-
  The trust-anchor document as the plain serialisation of an element tree (C18, rendering theorem).
  `Xml` / `render` are the SPECIFICATION side (a generic element tree and its textbook serialisation);
  `toXmlDoc_eq_render` ties the model's string building (`KeyDigest.toXml`, `TrustAnchorDoc.toXml`) to it.
-/
import Kskm.TrustAnchor
namespace Kskm.C18


/-- a plain XML element tree -/
inductive Xml where
  | text (s : String)
  | node (name : String) (attrs : List (String × String)) (children : List Xml)

def renderAttrs : List (String × String) → String
  | [] => ""
  | (k, v) :: r => " " ++ k ++ "=\"" ++ v ++ "\"" ++ renderAttrs r

mutual
/-- the plain serialisation: `<name a="v" …>children</name>`; text as it is -/
def Xml.render : Xml → String
  | .text s => s
  | .node n as cs => "<" ++ n ++ renderAttrs as ++ ">" ++ Xml.renderList cs ++ "</" ++ n ++ ">"
def Xml.renderList : List Xml → String
  | [] => ""
  | c :: cs => c.render ++ Xml.renderList cs
end

/-- `<name>text</name>` followed by a line break -/
def leafLine (name text : String) : List Xml := [.node name [] [.text text], .text "\n"]

/-- the element tree of one entry -/
def digestTree (d : KeyDigest) : Xml :=
  .node "KeyDigest"
    ([("id", d.id), ("validFrom", formatDatetime d.validFrom)] ++
      (match d.validUntil with
       | some u => [("validUntil", formatDatetime u)]
       | none => []))
    ([.text "\n"] ++ leafLine "KeyTag" (toString d.keyTag) ++ leafLine "Algorithm" (toString d.algorithm)
      ++ leafLine "DigestType" (toString d.digestType) ++ leafLine "Digest" (upperHex d.digest))

def entryNodes : List KeyDigest → List Xml
  | [] => []
  | d :: r => digestTree d :: .text "\n" :: entryNodes r

/-- the element tree of the document -/
def docTree (ta : TrustAnchorDoc) : Xml :=
  .node "TrustAnchor" [("id", ta.id), ("source", ta.source)]
    ([.text "\n"] ++ leafLine "Zone" ta.zone ++ entryNodes (sortDigests ta.keyDigests))

/-- attribute values that need no escaping -/
def AttrSafe (v : String) : Prop := ∀ c ∈ v.toList, c ≠ '"' ∧ c ≠ '<' ∧ c ≠ '&'

/-! literal boundaries: the model writes merged literals, the serialiser assembles them from pieces -/
theorem lit_open_kd : "<KeyDigest id=\"" = "<" ++ ("KeyDigest" ++ (" " ++ ("id" ++ "=\""))) := by decide +kernel
theorem lit_vf : " validFrom=\"" = " " ++ ("validFrom" ++ "=\"") := by decide +kernel
theorem lit_vu : " validUntil=\"" = " " ++ ("validUntil" ++ "=\"") := by decide +kernel
theorem lit_gt_nl : ">\n" = ">" ++ "\n" := by decide +kernel
theorem lit_o_tag : "<KeyTag>" = "<" ++ ("KeyTag" ++ ">") := by decide +kernel
theorem lit_c_tag : "</KeyTag>\n" = "</" ++ ("KeyTag" ++ (">" ++ "\n")) := by decide +kernel
theorem lit_o_alg : "<Algorithm>" = "<" ++ ("Algorithm" ++ ">") := by decide +kernel
theorem lit_c_alg : "</Algorithm>\n" = "</" ++ ("Algorithm" ++ (">" ++ "\n")) := by decide +kernel
theorem lit_o_dt : "<DigestType>" = "<" ++ ("DigestType" ++ ">") := by decide +kernel
theorem lit_c_dt : "</DigestType>\n" = "</" ++ ("DigestType" ++ (">" ++ "\n")) := by decide +kernel
theorem lit_o_dg : "<Digest>" = "<" ++ ("Digest" ++ ">") := by decide +kernel
theorem lit_c_dg : "</Digest>\n" = "</" ++ ("Digest" ++ (">" ++ "\n")) := by decide +kernel
theorem lit_c_kd : "</KeyDigest>\n" = "</" ++ ("KeyDigest" ++ (">" ++ "\n")) := by decide +kernel
theorem lit_open_ta : "<TrustAnchor id=\"" = "<" ++ ("TrustAnchor" ++ (" " ++ ("id" ++ "=\""))) := by decide +kernel
theorem lit_src : "\" source=\"" = "\"" ++ (" " ++ ("source" ++ "=\"")) := by decide +kernel
theorem lit_q_gt_nl : "\">\n" = "\"" ++ (">" ++ "\n") := by decide +kernel
theorem lit_o_zone : "<Zone>" = "<" ++ ("Zone" ++ ">") := by decide +kernel
theorem lit_c_zone : "</Zone>\n" = "</" ++ ("Zone" ++ (">" ++ "\n")) := by decide +kernel
theorem lit_c_ta : "</TrustAnchor>" = "</" ++ ("TrustAnchor" ++ ">") := by decide +kernel

theorem toXml_eq_render (d : KeyDigest) : d.toXml = (digestTree d).render ++ "\n" := by
  unfold KeyDigest.toXml digestTree
  cases d.validUntil <;>
    simp only [lit_open_kd, lit_vf, lit_vu, lit_gt_nl, lit_o_tag, lit_c_tag, lit_o_alg, lit_c_alg, lit_o_dt,
      lit_c_dt, lit_o_dg, lit_c_dg, lit_c_kd, Xml.render, Xml.renderList, renderAttrs, leafLine,
      String.append_assoc, List.cons_append, List.nil_append, List.append_nil, String.append_empty]

theorem renderList_append (a b : List Xml) : Xml.renderList (a ++ b) = Xml.renderList a ++ Xml.renderList b := by
  induction a with
  | nil => simp only [List.nil_append, Xml.renderList, String.empty_append]
  | cons x r ih => simp only [List.cons_append, Xml.renderList, ih, String.append_assoc]

theorem join_entries (l : List KeyDigest) : String.join (l.map KeyDigest.toXml) = Xml.renderList (entryNodes l) := by
  induction l with
  | nil => rfl
  | cons d r ih =>
    simp only [List.map_cons, String.join_cons, entryNodes, Xml.renderList, Xml.render, ih, toXml_eq_render,
      String.append_assoc]

theorem toXmlDoc_eq_render (ta : TrustAnchorDoc) : ta.toXmlDoc = xmlDeclLine ++ (docTree ta).render := by
  unfold TrustAnchorDoc.toXmlDoc TrustAnchorDoc.toXml TrustAnchorDoc.header TrustAnchorDoc.entries docTree taFooter
  simp only [join_entries, lit_open_ta, lit_src, lit_q_gt_nl, lit_o_zone, lit_c_zone, lit_c_ta, Xml.render,
    Xml.renderList, renderAttrs, leafLine, String.append_assoc, List.cons_append,
    List.nil_append, String.append_empty]

end Kskm.C18
