/-
  The glue on the standard reading of the writer's tree, continued: policy blocks, bundles, the document.

      signaturePolicyOf (value of policyTree p)  = p with the algorithm set de-duplicated
      responseBundleOf  (value of bundleTree b)  = readBackBundle b
      responseFromDict  (dict of treeOf r)       = readBackWith gs r

  `readBackWith gs r` is what the repository's reader really makes of a response: `timestamp` absent,
  set-valued fields (keys, signatures, algorithms) as sets — duplicate-free lists here —, keys in the
  writer's key-tag order, bundles sorted by (expiration, inception, id) when the glue sorts them.
  Proved for EITHER value of the two glue switches tabulated from the code: with
  `wrapsSingleResponseBundle = false` (the pinned tree, finding F12) the statement needs two bundles.
-/
import KskmProofs.Lemmas.SkrGlue
namespace Kskm.ReadBack
open Kskm Kskm.Xml Kskm.C12

/-- the six duration elements of a policy block, as stored -/
def polBase (p : SigPolicy) : Dict :=
  [("PublishSafety".toList, sv (formatDuration p.publishSafety)),
   ("RetireSafety".toList, sv (formatDuration p.retireSafety)),
   ("MaxSignatureValidity".toList, sv (formatDuration p.maxSignatureValidity)),
   ("MinSignatureValidity".toList, sv (formatDuration p.minSignatureValidity)),
   ("MaxValidityOverlap".toList, sv (formatDuration p.maxValidityOverlap)),
   ("MinValidityOverlap".toList, sv (formatDuration p.minValidityOverlap))]

def polVal (p : SigPolicy) : XVal :=
  .dict (storeAll (polBase p) "SignatureAlgorithm".toList (p.algorithms.map algVal))

theorem val_policyTree (pre : List Char) (name : String) (p : SigPolicy) :
    valT (toP pre (policyTree name p)) = polVal p := by
  unfold policyTree
  simp only [List.cons_append, List.nil_append]
  rw [val_node]
  simp only [storeXL_cons, XTree.name, val_leaf]
  rw [storeXL_map (pre ++ sp4) algTree algVal "SignatureAlgorithm" p.algorithms
    (fun a _ => ⟨rfl, val_algTree _ a⟩)]
  simp [polVal, polBase, storeElement, List.lookup, attrsOpt, attrsP, elementValue]


theorem isList_algVal (a : AlgPolicy) : (algVal a).isList = false := rfl

theorem signaturePolicyOf_polVal (p : SigPolicy) (h : policyOk p = true) :
    signaturePolicyOf (polVal p) = .ok { p with algorithms := dedup p.algorithms } := by
  have hp := policyOk_parts p h
  have hother : ∀ k : String, k.toList ≠ "SignatureAlgorithm".toList →
      (storeAll (polBase p) "SignatureAlgorithm".toList (p.algorithms.map algVal)).lookup k.toList
        = (polBase p).lookup k.toList := fun k hk => storeAll_other _ _ hk _ _
  have hne : p.algorithms.map algVal ≠ [] := by simpa using hp.algsNe
  have hnl : ∀ v ∈ p.algorithms.map algVal, v.isList = false := by
    intro v hv
    obtain ⟨a, _, rfl⟩ := List.mem_map.mp hv
    rfl
  have hrep := (storeElement_repetition (polBase p) "SignatureAlgorithm".toList (by simp [polBase, List.lookup]) _ hnl).1
  rw [if_neg hne] at hrep
  have halgs : signatureAlgorithmsOf (repeated (p.algorithms.map algVal)) = .ok (dedup p.algorithms) := by
    rw [C12_glue_algorithms _ hne hnl, mapM_map_val algVal algPolicyOf p.algorithms
      (fun a ha => algPolicyOf_algVal a (hp.algs a ha))]
    rfl
  unfold signaturePolicyOf polVal
  rw [getItem_of_lookup (k := "PublishSafety") (by rw [hother _ (by decide)]; rfl),
    getItem_of_lookup (k := "RetireSafety") (by rw [hother _ (by decide)]; rfl),
    getItem_of_lookup (k := "MaxSignatureValidity") (by rw [hother _ (by decide)]; rfl),
    getItem_of_lookup (k := "MinSignatureValidity") (by rw [hother _ (by decide)]; rfl),
    getItem_of_lookup (k := "MaxValidityOverlap") (by rw [hother _ (by decide)]; rfl),
    getItem_of_lookup (k := "MinValidityOverlap") (by rw [hother _ (by decide)]; rfl),
    getItem_of_lookup (k := "SignatureAlgorithm") hrep]
  simp only [bind, Except.bind, durationOf_format _ hp.d1, durationOf_format _ hp.d2, durationOf_format _ hp.d3,
    durationOf_format _ hp.d4, durationOf_format _ hp.d5, durationOf_format _ hp.d6, halgs, pure, Except.pure]


def bundleBase (b : Bundle) : Dict :=
  [("Inception".toList, sv (formatDatetime b.inception)), ("Expiration".toList, sv (formatDatetime b.expiration))]

def bundleDict (b : Bundle) : Dict :=
  storeAll (storeAll (bundleBase b) "Key".toList ((sortKeys b.keys).map keyVal)) "Signature".toList
    (b.signatures.map sigVal)

def bundleVal (b : Bundle) : XVal :=
  .dict [(kAttrs, .dict [("id".toList, sv b.id)]), (kValue, .dict (bundleDict b))]

theorem val_bundleTree (pre : List Char) (b : Bundle) : valT (toP pre (bundleTree b)) = bundleVal b := by
  unfold bundleTree
  simp only [List.cons_append, List.nil_append]
  rw [val_node]
  simp only [storeXL_cons, XTree.name, val_leaf]
  rw [storeXL_append, storeXL_map (pre ++ sp4) keyTree keyVal "Key" _ (fun k _ => ⟨rfl, val_keyTree _ k⟩),
    storeXL_map (pre ++ sp4) sigTree sigVal "Signature" _ (fun s _ => ⟨rfl, val_sigTree _ s⟩)]
  simp [bundleVal, bundleDict, bundleBase, storeElement, List.lookup, attrsOpt, attrsP, attrsDict, dictSet, elementValue,
    sv]

/-- the reader's view of a bundle: keys in the writer's key-tag order; keys and signatures are sets -/
def readBackBundle (b : Bundle) : Bundle :=
  { b with keys := dedup (sortKeys b.keys), signatures := dedup b.signatures, signers := none }

def bundleConstructible (b : Bundle) : Bool :=
  b.keys.all keyConstructible && b.signatures.all (fun s => algMember s.algorithm)

theorem responseBundleOf_bundleVal (b : Bundle) (h : bundleOk b = true) (hc : bundleConstructible b = true) :
    responseBundleOf (bundleVal b) = .ok (readBackBundle b) := by
  have bp := bundleOk_parts b h
  simp only [bundleConstructible, Bool.and_eq_true, List.all_eq_true] at hc
  -- lookups
  have hkne : (sortKeys b.keys).map keyVal ≠ [] := by
    intro e
    have : (sortKeys b.keys).length = 0 := by simpa using congrArg List.length e
    have hl := (List.mergeSort_perm b.keys (fun a b => decide (a.keyTag ≤ b.keyTag))).length_eq
    unfold sortKeys at this
    exact bp.keysNe (List.eq_nil_of_length_eq_zero (by omega))
  have hknl : ∀ v ∈ (sortKeys b.keys).map keyVal, v.isList = false := by
    intro v hv; obtain ⟨k, _, rfl⟩ := List.mem_map.mp hv; rfl
  have hsne : b.signatures.map sigVal ≠ [] := by simpa using bp.sigsNe
  have hsnl : ∀ v ∈ b.signatures.map sigVal, v.isList = false := by
    intro v hv; obtain ⟨k, _, rfl⟩ := List.mem_map.mp hv; rfl
  have hk := (storeElement_repetition (bundleBase b) "Key".toList (by simp [bundleBase, List.lookup]) _ hknl)
  rw [if_neg hkne] at hk
  have hs := (storeElement_repetition (storeAll (bundleBase b) "Key".toList ((sortKeys b.keys).map keyVal))
    "Signature".toList (by rw [hk.2 _ (by decide)]; simp [bundleBase, List.lookup]) _ hsnl)
  rw [if_neg hsne] at hs
  have lInc : (bundleDict b).lookup "Inception".toList = some (sv (formatDatetime b.inception)) := by
    unfold bundleDict; rw [hs.2 _ (by decide), hk.2 _ (by decide)]; rfl
  have lExp : (bundleDict b).lookup "Expiration".toList = some (sv (formatDatetime b.expiration)) := by
    unfold bundleDict; rw [hs.2 _ (by decide), hk.2 _ (by decide)]; rfl
  have lKey : (bundleDict b).lookup "Key".toList = some (repeated ((sortKeys b.keys).map keyVal)) := by
    unfold bundleDict; rw [hs.2 _ (by decide), hk.1]
  have lSig : (bundleDict b).lookup "Signature".toList = some (repeated (b.signatures.map sigVal)) := by
    unfold bundleDict; exact hs.1
  have hkeys : keysOf (repeated ((sortKeys b.keys).map keyVal)) = .ok (dedup (sortKeys b.keys)) := by
    rw [C12_glue_keys _ hkne hknl, mapM_map_val keyVal keyOf _
      (fun k hk' => keyOf_keyVal k (bp.keys k (mem_sortKeys.mp hk')) (hc.1 k (mem_sortKeys.mp hk')))]
    rfl
  have hsigs : signaturesOf (repeated (b.signatures.map sigVal)) = .ok (dedup b.signatures) := by
    rw [C12_glue_signatures _ hsne hsnl, mapM_map_val sigVal signatureOf _
      (fun s hs' => signatureOf_sigVal s (bp.sigs s hs') (hc.2 s hs'))]
    rfl
  have hattrs : XVal.getItem (bundleVal b) "attrs" = .ok (.dict [("id".toList, sv b.id)]) := by
    simp [bundleVal, XVal.getItem, List.lookup, kAttrs, kValue, pure, Except.pure]
  have hvalue : XVal.getItem (bundleVal b) "value" = .ok (.dict (bundleDict b)) := by
    simp [bundleVal, XVal.getItem, List.lookup, kAttrs, kValue, pure, Except.pure]
  have hid : XVal.getItem (.dict [("id".toList, sv b.id)]) "id" = .ok (sv b.id) := by
    simp [XVal.getItem, List.lookup, pure, Except.pure]
  unfold responseBundleOf
  simp only [hattrs, hvalue, hid, bind, Except.bind, getItem_of_lookup lInc, getItem_of_lookup lExp,
    getItem_of_lookup lKey, getItem_of_lookup lSig, datetimeOf_format _ bp.inc, datetimeOf_format _ bp.exp, hkeys, hsigs,
    strictStr_sv, pure, Except.pure]
  rfl


def rpVal (r : Response) : XVal := .dict [("KSK".toList, polVal r.kskPolicy), ("ZSK".toList, polVal r.zskPolicy)]

def respDict (r : Response) : Dict :=
  storeAll [("ResponsePolicy".toList, rpVal r)] "ResponseBundle".toList (r.bundles.map bundleVal)

def rootVal (r : Response) : XVal :=
  .dict [(kAttrs, .dict [("id".toList, sv r.id), ("domain".toList, sv r.domain), ("serial".toList, .str (pyIntStr r.serial))]),
    (kValue, .dict [("Response".toList, .dict (respDict r))])]

theorem name_policyTree (name : String) (p : SigPolicy) : (policyTree name p).name = name := rfl
theorem name_node (n : String) (a : List (String × String)) (cs : List XTree) : (XTree.node n a cs).name = n := rfl

/-- the dict C12's reader theorem yields for the writer's text -/
theorem dictOf_treeOf (r : Response) : dictOf (toP [] (treeOf r)) = [("KSR".toList, rootVal r)] := by
  unfold treeOf dictOf
  rw [name_toP, val_node]
  simp only [storeXL_cons, storeXL_nil, name_policyTree, name_node, val_node, val_policyTree]
  rw [storeXL_map _ bundleTree bundleVal "ResponseBundle" _ (fun b _ => ⟨rfl, val_bundleTree _ b⟩)]
  simp [rootVal, respDict, rpVal, storeElement, List.lookup, attrsOpt, attrsP, attrsDict, dictSet, elementValue, sv, str]

def readBackPolicy (p : SigPolicy) : SigPolicy := { p with algorithms := dedup p.algorithms }

/-- what the repository's reader makes of a response (per glue switch): set-valued fields
    de-duplicated, keys in key-tag order, bundles sorted by (expiration, inception, id) -/
def readBackWith (gs : GlueSwitches) (r : Response) : Response :=
  { r with
    timestamp := none
    zskPolicy := readBackPolicy r.zskPolicy
    kskPolicy := readBackPolicy r.kskPolicy
    bundles := if gs.sortsResponseBundles then sortByKey (r.bundles.map readBackBundle) else r.bundles.map readBackBundle }

def constructible (r : Response) : Bool := r.bundles.all bundleConstructible

theorem responseFromDict_root (gs : GlueSwitches) (r : Response) (h : WriterDomain r) (hc : constructible r = true)
    (hsw : gs.wrapsSingleResponseBundle = true ∨ 2 ≤ r.bundles.length) :
    responseFromDict gs (.dict [("KSR".toList, rootVal r)]) = .ok (readBackWith gs r) := by
  have hp := domain_parts r h
  simp only [constructible, List.all_eq_true] at hc
  have hbne : r.bundles.map bundleVal ≠ [] := by simpa using hp.bundlesNe
  have hbnl : ∀ v ∈ r.bundles.map bundleVal, v.isList = false := by
    intro v hv; obtain ⟨k, _, rfl⟩ := List.mem_map.mp hv; rfl
  have hb := storeElement_repetition [("ResponsePolicy".toList, rpVal r)] "ResponseBundle".toList
    (by simp [List.lookup]) _ hbnl
  rw [if_neg hbne] at hb
  have lB : (respDict r).lookup "ResponseBundle".toList = some (repeated (r.bundles.map bundleVal)) := hb.1
  have lP : (respDict r).lookup "ResponsePolicy".toList = some (rpVal r) := by
    unfold respDict; rw [hb.2 _ (by decide)]; simp [List.lookup]
  have hmap : (r.bundles.map bundleVal).mapM responseBundleOf = .ok (r.bundles.map readBackBundle) := by
    have := mapM_ok (fun b => responseBundleOf (bundleVal b)) readBackBundle r.bundles
      (fun b hb' => responseBundleOf_bundleVal b (hp.bundles b hb') (hc b hb'))
    rw [List.mapM_map]
    exact this
  have hbundles : responseBundlesOf gs (repeated (r.bundles.map bundleVal)) = .ok (readBackWith gs r).bundles := by
    unfold responseBundlesOf
    have hl : (if gs.wrapsSingleResponseBundle then (repeated (r.bundles.map bundleVal)).asList
        else (repeated (r.bundles.map bundleVal)).iter) = r.bundles.map bundleVal := by
      rcases hsw with hw | hlen
      · rw [if_pos hw, asList_repeated _ hbne hbnl]
      · split
        · exact asList_repeated _ hbne hbnl
        · match hbs : r.bundles, hlen with
          | b1 :: b2 :: rest, _ => simp [repeated, XVal.iter]
    rw [hl, hmap]
    rfl
  have e1 : XVal.getItem (.dict [("KSR".toList, rootVal r)]) "KSR" = .ok (rootVal r) := by
    simp [XVal.getItem, List.lookup, pure, Except.pure]
  have e2 : XVal.getItem (rootVal r) "value" = .ok (.dict [("Response".toList, .dict (respDict r))]) := by
    simp [rootVal, XVal.getItem, List.lookup, kAttrs, kValue, pure, Except.pure]
  have e3 : XVal.getItem (.dict [("Response".toList, .dict (respDict r))]) "Response" = .ok (.dict (respDict r)) := by
    simp [XVal.getItem, List.lookup, pure, Except.pure]
  have e4 : XVal.getItem (rootVal r) "attrs" = .ok (.dict [("id".toList, sv r.id), ("domain".toList, sv r.domain),
      ("serial".toList, .str (pyIntStr r.serial))]) := by
    simp [rootVal, XVal.getItem, List.lookup, kAttrs, kValue, pure, Except.pure]
  have e5 : XVal.getItem (rpVal r) "KSK" = .ok (polVal r.kskPolicy) := by
    simp [rpVal, XVal.getItem, List.lookup, pure, Except.pure]
  have e6 : XVal.getItem (rpVal r) "ZSK" = .ok (polVal r.zskPolicy) := by
    simp [rpVal, XVal.getItem, List.lookup, pure, Except.pure]
  have e7 : timestampOf (.dict [("id".toList, sv r.id), ("domain".toList, sv r.domain),
      ("serial".toList, .str (pyIntStr r.serial))]) = .ok none := by
    simp [timestampOf, XVal.contains, pure, Except.pure]
  have e8 : XVal.getItem (.dict [("id".toList, sv r.id), ("domain".toList, sv r.domain),
      ("serial".toList, .str (pyIntStr r.serial))]) "id" = .ok (sv r.id) := by
    simp [XVal.getItem, List.lookup, pure, Except.pure]
  have e9 : XVal.getItem (.dict [("id".toList, sv r.id), ("domain".toList, sv r.domain),
      ("serial".toList, .str (pyIntStr r.serial))]) "serial" = .ok (.str (pyIntStr r.serial)) := by
    simp [XVal.getItem, List.lookup, pure, Except.pure]
  have e10 : XVal.getItem (.dict [("id".toList, sv r.id), ("domain".toList, sv r.domain),
      ("serial".toList, .str (pyIntStr r.serial))]) "domain" = .ok (sv r.domain) := by
    simp [XVal.getItem, List.lookup, pure, Except.pure]
  unfold responseFromDict
  simp only [e1, e2, e3, e4, e5, e6, e7, e8, e9, e10, bind, Except.bind, getItem_of_lookup lB, getItem_of_lookup lP,
    hbundles, signaturePolicyOf_polVal _ hp.ksk, signaturePolicyOf_polVal _ hp.zsk, intOf_int _ hp.serial hp.pserial,
    strictStr_sv, pure, Except.pure]
  rfl

/-- **F12 seen from the writer's side.**  With the pinned glue (`wrapsSingleResponseBundle = false`) the
    dict of an emitted SKR with exactly ONE bundle makes `response_from_xml` raise TypeError — whatever
    the bundle contains.  (Fixed in /repo by 84feffe; the switch is tabulated from the code.) -/
theorem responseFromDict_root_pinned (gs : GlueSwitches) (hgs : gs.wrapsSingleResponseBundle = false)
    (r : Response) (b : Bundle) (hb : r.bundles = [b]) :
    responseFromDict gs (.dict [("KSR".toList, rootVal r)]) = err .type := by
  have lB : (respDict r).lookup "ResponseBundle".toList = some (bundleVal b) := by
    simp [respDict, hb, storeAll, storeElement, List.lookup]
  have e1 : XVal.getItem (.dict [("KSR".toList, rootVal r)]) "KSR" = .ok (rootVal r) := by
    simp [XVal.getItem, List.lookup, pure, Except.pure]
  have e2 : XVal.getItem (rootVal r) "value" = .ok (.dict [("Response".toList, .dict (respDict r))]) := by
    simp [rootVal, XVal.getItem, List.lookup, kAttrs, kValue, pure, Except.pure]
  have e3 : XVal.getItem (.dict [("Response".toList, .dict (respDict r))]) "Response" = .ok (.dict (respDict r)) := by
    simp [XVal.getItem, List.lookup, pure, Except.pure]
  have hbad : responseBundlesOf gs (bundleVal b) = err .type :=
    C12_glue_response_bundles_counterexample gs hgs _ _
  unfold responseFromDict
  simp only [e1, e2, e3, bind, Except.bind, getItem_of_lookup lB, hbad, err]

end Kskm.ReadBack
