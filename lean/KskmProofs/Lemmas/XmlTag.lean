/-
  Helper lemmas: what the two start-tag expressions consume (a decomposition of the input), and where
  `str.index` can point.
-/
import KskmProofs.Lemmas.XmlBasic
namespace Kskm.Xml

/-! ### `(.+?)(/*)>` -/

theorem matchAttrsSlash_decomp (q a s : List Char) (h : matchAttrsSlash q = some (a, s)) :
    ∃ rest, q = a ++ s ++ '>' :: rest ∧ a ≠ [] := by
  unfold matchAttrsSlash at h
  split at h
  · simp at h
  · rename_i c r
    split at h
    · simp at h
    · simp only at h
      split at h
      · rename_i rest hq
        simp only [Option.some.injEq, Prod.mk.injEq] at h
        obtain ⟨ha, hs⟩ := h
        refine ⟨rest, ?_, ?_⟩
        · rw [← ha, ← hs, List.take_append_drop]
          have := List.takeWhile_append_dropWhile (p := fun x => x ≠ '>' && x ≠ '\n') (l := r)
          rw [hq] at this
          simp only [List.cons_append]
          rw [this]
        · rw [← ha]
          intro hnil
          have := congrArg List.length hnil
          simp only [List.length_take, List.length_cons, List.length_nil] at this
          omega
      · simp at h

/-! ### `(\s+?)(.+?)(/*)>` -/

theorem findWs_decomp (cls : Classes) : ∀ (l acc ws a s : List Char),
    findWs cls acc l = some (ws, a, s) →
    ∃ w rest, ws = acc ++ w ∧ w ≠ [] ∧ l = w ++ a ++ s ++ '>' :: rest ∧ a ≠ [] ∧ (∀ c ∈ w, cls.isSpace c = true) := by
  intro l
  induction l with
  | nil => intro acc ws a s h; simp [findWs] at h
  | cons c q ih =>
    intro acc ws a s h
    unfold findWs at h
    split at h
    · rename_i hc
      split at h
      · rename_i a' s' hm
        simp only [Option.some.injEq, Prod.mk.injEq] at h
        obtain ⟨hws, ha, hs⟩ := h
        subst ha hs
        obtain ⟨rest, hq, hne⟩ := matchAttrsSlash_decomp q a' s' hm
        exact ⟨[c], rest, hws.symm, by simp, by simp [hq], hne, by simpa using hc⟩
      · obtain ⟨w, rest, hws, _, hq, hne, hsp⟩ := ih (acc ++ [c]) ws a s h
        refine ⟨c :: w, rest, by simp [hws], by simp, by simp [hq], hne, ?_⟩
        intro x hx
        rcases List.mem_cons.mp hx with rfl | hx
        · exact hc
        · exact hsp x hx
    · simp at h

/-! ### the two start-tag expressions -/

theorem matchTag1_decomp (cls : Classes) (xml n ws a s : List Char)
    (h : matchTag1 cls xml = some (n, ws, a, s)) :
    ∃ rest, xml = '<' :: (n ++ ws ++ a ++ s ++ '>' :: rest) ∧ n ≠ [] ∧ ws ≠ [] ∧ a ≠ [] ∧
      (∀ c ∈ n, cls.isWord c = true) ∧ (∀ c ∈ ws, cls.isSpace c = true) := by
  unfold matchTag1 at h
  split at h
  · rename_i r
    simp only at h
    split at h
    · simp at h
    · rename_i hname
      split at h
      · rename_i ws' a' s' hf
        simp only [Option.some.injEq, Prod.mk.injEq] at h
        obtain ⟨hn, hws, ha, hs⟩ := h
        subst hws ha hs
        obtain ⟨w, rest, hw, hwne, hl, hane, hsp⟩ := findWs_decomp cls _ [] ws' a' s' hf
        simp only [List.nil_append] at hw
        subst hw
        refine ⟨rest, ?_, ?_, hwne, hane, ?_, hsp⟩
        · have := List.takeWhile_append_dropWhile (p := cls.isWord) (l := r)
          rw [hl, hn] at this
          rw [← this]
          simp [List.append_assoc]
        · rw [← hn]; intro hnil; simp [hnil] at hname
        · intro c hc
          rw [← hn] at hc
          exact (mem_takeWhile_imp hc)
      · simp at h
  · simp at h

theorem matchTag2_decomp (cls : Classes) (xml n : List Char) (h : matchTag2 cls xml = some n) :
    ∃ rest, xml = '<' :: (n ++ '>' :: rest) ∧ n ≠ [] ∧ (∀ c ∈ n, cls.isWord c = true) := by
  unfold matchTag2 at h
  split at h
  · rename_i r
    simp only at h
    split at h
    · simp at h
    · rename_i hname
      split at h
      · rename_i rest hd
        simp only [Option.some.injEq] at h
        refine ⟨rest, ?_, ?_, ?_⟩
        · have := List.takeWhile_append_dropWhile (p := cls.isWord) (l := r)
          rw [hd, h] at this
          rw [← this]
        · rw [← h]; intro hnil; simp [hnil] at hname
        · intro c hc
          rw [← h] at hc
          exact (mem_takeWhile_imp hc)
      · simp at h
  · simp at h

/-! ### `str.index` -/

theorem findAux_spec (pat : List Char) : ∀ (l : List Char) (i j : Nat), findAux pat l i = some j →
    ∃ k, j = i + k ∧ pat <+: l.drop k ∧ k + pat.length ≤ l.length := by
  intro l
  induction l with
  | nil =>
    intro i j h
    unfold findAux at h
    split at h
    · rename_i hp
      simp only [Option.some.injEq] at h
      have : pat = [] := by simpa using hp
      exact ⟨0, by omega, by simp [this], by simp [this]⟩
    · simp at h
  | cons c r ih =>
    intro i j h
    unfold findAux at h
    split at h
    · rename_i hp
      simp only [Option.some.injEq] at h
      have hpre : pat <+: c :: r := List.isPrefixOf_iff_prefix.mp hp
      exact ⟨0, by omega, by simpa using hpre, by simpa using hpre.length_le⟩
    · obtain ⟨k, hk, hpre, hlen⟩ := ih (i + 1) j h
      exact ⟨k + 1, by omega, by simpa using hpre, by simp; omega⟩

/-- an index returned by `hay.index(pat, start)` is at or after `start`, `pat` occurs there, and the
    occurrence lies inside `hay` -/
theorem indexFrom_spec (pat hay : List Char) (start i : Nat) (h : indexFrom pat hay start = some i) :
    start ≤ i ∧ pat <+: hay.drop i ∧ i + pat.length ≤ hay.length := by
  unfold indexFrom at h
  split at h
  · simp at h
  · rename_i hs
    obtain ⟨k, hk, hpre, hlen⟩ := findAux_spec pat _ start i h
    subst hk
    refine ⟨by omega, ?_, ?_⟩
    · rw [← List.drop_drop]; exact hpre
    · simp only [List.length_drop] at hlen; omega

end Kskm.Xml
