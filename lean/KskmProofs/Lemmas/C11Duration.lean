/-
  Lemmas for the duration codec: progress of the reader's loop (fuel is never exhausted), one loop
  pass on a printed component, and the pieces of `duration_roundtrip`.
-/
import KskmProofs.Lemmas.C11Digits
namespace Kskm

/-! ### progress: fuel never runs out -/

theorem length_takeWhile_le {α} (p : α → Bool) (l : List α) : (l.takeWhile p).length ≤ l.length := by
  induction l with
  | nil => simp
  | cons a t ih =>
    simp only [List.takeWhile]
    split <;> simp <;> omega

theorem length_dropWhile_le {α} (p : α → Bool) (l : List α) : (l.dropWhile p).length ≤ l.length := by
  induction l with
  | nil => simp
  | cons a t ih =>
    simp only [List.dropWhile]
    split <;> simp <;> omega

/-- the same for the pass over Unicode decimal digits (work package B2) -/
theorem durationStepUni_shrinks (s1 : List Char) (ts : Bool) (acc : Int) (rest : List Char) (ts' : Bool) (acc' : Int)
    (h : durationStepUni s1 ts acc = .ok (.more rest ts' acc')) : rest.length < s1.length := by
  have key := length_dropWhile_le isPyDecimal s1
  unfold durationStepUni at h
  simp only [bind, Except.bind, pure, Except.pure] at h
  generalize List.dropWhile isPyDecimal s1 = r1 at h key
  cases r1 with
  | nil => simp [err] at h
  | cons w r2 =>
    simp only at h
    have hA := length_takeWhile_le (fun x => decide (x ≠ '\n')) r2
    simp only [List.length_cons] at key
    repeat' split at h
    all_goals first
      | (exfalso; simp [err] at h; done)
      | (simp only [Except.ok.injEq, DurStep.more.injEq] at h
         obtain ⟨h1, -, -⟩ := h
         subst h1
         omega)

/-- every pass that goes round again has strictly shortened `duration` -/
theorem durationStep_shrinks (s : List Char) (ts : Bool) (acc : Int) (rest : List Char) (ts' : Bool) (acc' : Int)
    (h : durationStep s ts acc = .ok (.more rest ts' acc')) : rest.length < s.length := by
  have key : (List.dropWhile Char.isDigit (if s.head? = some 'T' then s.tail else s)).length ≤ s.length := by
    refine Nat.le_trans (length_dropWhile_le _ _) ?_
    split
    · cases s <;> simp
    · exact Nat.le_refl _
  unfold durationStep at h
  simp only [bind, Except.bind, pure, Except.pure] at h
  generalize List.dropWhile Char.isDigit (if s.head? = some 'T' then s.tail else s) = r1 at h key
  cases r1 with
  | nil => simp [err] at h
  | cons w r2 =>
    simp only at h
    have hA := length_takeWhile_le (fun x => decide (x ≠ '\n')) r2
    simp only [List.length_cons] at key
    repeat' split at h
    all_goals first
      | (exfalso; simp [err] at h; done)
      | (have hu := durationStepUni_shrinks _ _ _ _ _ _ h
         have ht : s.tail.length ≤ s.length := by simp
         omega)
      | (simp only [Except.ok.injEq, DurStep.more.injEq] at h
         obtain ⟨h1, -, -⟩ := h
         subst h1
         omega)

/-- with at least `length` fuel the answer does not depend on the fuel: the out-of-fuel branch is
    never taken -/
theorem parseDurationLoop_fuel (f1 f2 : Nat) (s : List Char) (ts : Bool) (acc : Int)
    (h1 : s.length ≤ f1) (h2 : s.length ≤ f2) :
    parseDurationLoop f1 s ts acc = parseDurationLoop f2 s ts acc := by
  induction f1 generalizing f2 s ts acc with
  | zero =>
    have : s = [] := List.eq_nil_of_length_eq_zero (by omega)
    subst this
    cases f2 <;> simp [parseDurationLoop]
  | succ n ih =>
    cases hs : s with
    | nil => cases f2 <;> simp [parseDurationLoop]
    | cons c t =>
      cases f2 with
      | zero => simp [hs] at h2
      | succ m =>
        simp only [parseDurationLoop, List.isEmpty_cons, Bool.false_eq_true, ↓reduceIte]
        cases hstep : durationStep (c :: t) ts acc with
        | error e => rfl
        | ok st =>
          cases st with
          | done v => rfl
          | more rest ts' acc' =>
            have := durationStep_shrinks _ _ _ _ _ _ hstep
            simp only
            apply ih
            · rw [hs] at h1; omega
            · rw [hs] at h2; omega

/-- the loop never answers "out of fuel" when started as `parseDurationChars` starts it -/
theorem parseDurationLoop_never_out_of_fuel (f : Nat) (s : List Char) (ts : Bool) (acc : Int)
    (h : s.length ≤ f) : parseDurationLoop f s ts acc = parseDurationLoop (f + 1) s ts acc :=
  parseDurationLoop_fuel _ _ _ _ _ h (by omega)

/-! ### one pass over a printed component -/

theorem designator_facts (w : Char) (hw : isDesignator w = true) :
    w.isDigit = false ∧ w.toNat < 128 ∧ intCharOk w = false ∧ w ≠ 'T' ∧ w ≠ '\n' := by
  simp only [isDesignator, Bool.or_eq_true, decide_eq_true_eq] at hw
  rcases hw with (((rfl | rfl) | rfl) | rfl) | rfl <;> decide

theorem pyInt_nil : pyInt [] = .ok none := by decide

/-- text that contains a designator letter is no integer literal -/
theorem pyInt_of_mem_designator (rest : List Char) (w : Char) (hw : isDesignator w = true) (hm : w ∈ rest) :
    pyInt rest = .ok none := by
  obtain ⟨_, h2, h3, _, _⟩ := designator_facts w hw
  unfold pyInt
  rw [if_pos]
  · rfl
  · simp only [List.any_eq_true]
    exact ⟨w, hm, by simp [h2, h3]⟩

theorem takeWhile_ne_nl (l : List Char) (h : '\n' ∉ l) : l.takeWhile (fun x => decide (x ≠ '\n')) = l := by
  induction l with
  | nil => rfl
  | cons a t ih =>
    have ha : a ≠ '\n' := fun e => h (by simp [e])
    simp only [List.takeWhile, ha, ne_eq, not_false_eq_true, decide_true]
    rw [ih (fun hm => h (by simp [hm]))]

/-- One pass on `<digits of n><w><rest>` (no leading `T`): the unit is added and the loop continues with
    `rest`, provided `rest` is single-line and no integer literal, and the sums are in `timedelta` range. -/
theorem durationStep_component (n : Nat) (w : Char) (rest : List Char) (ts : Bool) (acc : Int)
    (hw : isDesignator w = true) (hn : n < 10 ^ 4300) (hnl : '\n' ∉ rest) (hint : pyInt rest = .ok none)
    (hM : w = 'M' → ts = true)
    (hr1 : tdInRange ((n : Int) * unitUs w) = true) (hr2 : tdInRange (acc + (n : Int) * unitUs w) = true) :
    durationStep (Nat.toDigits 10 n ++ w :: rest) ts acc = .ok (.more rest ts (acc + (n : Int) * unitUs w)) := by
  obtain ⟨hd, _, _, hT, _⟩ := designator_facts w hw
  obtain ⟨c, cs, hcs⟩ := List.exists_cons_of_ne_nil (toDigits_ne_nil' n)
  have hc : c.isDigit = true := all_digits_toDigits n c (by simp [hcs])
  have hcT : c ≠ 'T' := by intro e; rw [e] at hc; exact absurd hc (by decide)
  have hscan := scan_toDigits n (w :: rest) (by intro c' h; simp at h; rw [← h]; exact hd)
  have hhead : (Nat.toDigits 10 n ++ w :: rest).head? ≠ some 'T' := by
    rw [hcs]; simp [hcT]
  unfold durationStep
  simp only [hhead, ↓reduceIte, hscan.1, hscan.2, hw, Bool.not_true, Bool.false_eq_true, toDigits_isEmpty]
  have hlen : ¬ (Nat.toDigits 10 n).length > maxStrDigits := by
    have := length_toDigits_le n 4300 (by decide) hn
    simp only [maxStrDigits]; omega
  rw [if_neg hlen]
  have hMc : ¬ ((w = 'M' && !ts) = true) := by
    intro h
    simp only [Bool.and_eq_true, decide_eq_true_eq, Bool.not_eq_eq_eq_not, Bool.not_true] at h
    rw [hM h.1] at h; simp at h
  simp only [Nat.ofDigitChars_ten_toDigits, takeWhile_ne_nl rest hnl, hint, tdCheck, hr1, hr2, ↓reduceIte, bind,
    Except.bind, pure, Except.pure, hMc, Bool.false_eq_true]

/-- the same with the `T` that opens the time section in front -/
theorem durationStep_component_T (n : Nat) (w : Char) (rest : List Char) (ts : Bool) (acc : Int)
    (hw : isDesignator w = true) (hn : n < 10 ^ 4300) (hnl : '\n' ∉ rest) (hint : pyInt rest = .ok none)
    (hr1 : tdInRange ((n : Int) * unitUs w) = true) (hr2 : tdInRange (acc + (n : Int) * unitUs w) = true) :
    durationStep ('T' :: (Nat.toDigits 10 n ++ w :: rest)) ts acc
      = .ok (.more rest true (acc + (n : Int) * unitUs w)) := by
  have := durationStep_component n w rest true acc hw hn hnl hint (fun _ => rfl) hr1 hr2
  unfold durationStep at this ⊢
  simp only [List.head?_cons, ↓reduceIte, List.tail_cons]
  obtain ⟨hd, _, _, hT, _⟩ := designator_facts w hw
  obtain ⟨c, cs, hcs⟩ := List.exists_cons_of_ne_nil (toDigits_ne_nil' n)
  have hc : c.isDigit = true := all_digits_toDigits n c (by simp [hcs])
  have hcT : c ≠ 'T' := by intro e; rw [e] at hc; exact absurd hc (by decide)
  have hhead : (Nat.toDigits 10 n ++ w :: rest).head? ≠ some 'T' := by
    rw [hcs]; simp [hcT]
  simp only [hhead, ↓reduceIte] at this
  exact this

/-- loop form of the two lemmas above -/
theorem loop_component (fuel n : Nat) (w : Char) (rest : List Char) (ts : Bool) (acc : Int)
    (hw : isDesignator w = true) (hn : n < 10 ^ 4300) (hnl : '\n' ∉ rest) (hint : pyInt rest = .ok none)
    (hM : w = 'M' → ts = true)
    (hr1 : tdInRange ((n : Int) * unitUs w) = true) (hr2 : tdInRange (acc + (n : Int) * unitUs w) = true) :
    parseDurationLoop (fuel + 1) (Nat.toDigits 10 n ++ w :: rest) ts acc
      = parseDurationLoop fuel rest ts (acc + (n : Int) * unitUs w) := by
  obtain ⟨c, cs, hcs⟩ := List.exists_cons_of_ne_nil (toDigits_ne_nil' n)
  have hne : (Nat.toDigits 10 n ++ w :: rest).isEmpty = false := by rw [hcs]; rfl
  rw [parseDurationLoop, hne]
  simp only [Bool.false_eq_true, ↓reduceIte,
    durationStep_component n w rest ts acc hw hn hnl hint hM hr1 hr2]

theorem loop_component_T (fuel n : Nat) (w : Char) (rest : List Char) (ts : Bool) (acc : Int)
    (hw : isDesignator w = true) (hn : n < 10 ^ 4300) (hnl : '\n' ∉ rest) (hint : pyInt rest = .ok none)
    (hr1 : tdInRange ((n : Int) * unitUs w) = true) (hr2 : tdInRange (acc + (n : Int) * unitUs w) = true) :
    parseDurationLoop (fuel + 1) ('T' :: (Nat.toDigits 10 n ++ w :: rest)) ts acc
      = parseDurationLoop fuel rest true (acc + (n : Int) * unitUs w) := by
  rw [parseDurationLoop]
  simp only [List.isEmpty_cons, Bool.false_eq_true, ↓reduceIte,
    durationStep_component_T n w rest ts acc hw hn hnl hint hr1 hr2]

theorem loop_nil (fuel : Nat) (ts : Bool) (acc : Int) : parseDurationLoop fuel [] ts acc = .ok acc := by
  cases fuel <;> simp [parseDurationLoop, pure, Except.pure]

end Kskm

namespace Kskm

/-! ### a printed duration as a list of components -/

/-- `<n><designator>` components, as both codecs see them -/
def renderComps : List (Nat × Char) → List Char
  | [] => []
  | (n, w) :: r => Nat.toDigits 10 n ++ w :: renderComps r

def sumComps : List (Nat × Char) → Int
  | [] => 0
  | (n, w) :: r => (n : Int) * unitUs w + sumComps r

theorem unitUs_pos (w : Char) : 0 < unitUs w := by
  unfold unitUs
  repeat' split
  all_goals decide

theorem sumComps_nonneg (cs : List (Nat × Char)) : 0 ≤ sumComps cs := by
  induction cs with
  | nil => exact Int.le_refl _
  | cons a r ih =>
    obtain ⟨n, w⟩ := a
    simp only [sumComps]
    have := unitUs_pos w
    have : 0 ≤ (n : Int) * unitUs w := Int.mul_nonneg (Int.natCast_nonneg n) (Int.le_of_lt this)
    omega

theorem tdInRange_of_bounds (x : Int) (h0 : 0 ≤ x) (h1 : x / usPerDay ≤ 999999999) : tdInRange x = true := by
  have : 0 ≤ x / usPerDay := Int.ediv_nonneg h0 (by decide)
  simp only [tdInRange, maxDeltaDays, Bool.and_eq_true]
  exact ⟨decide_eq_true (by omega), decide_eq_true (by omega)⟩

theorem pyInt_of_mem_bad (rest : List Char) (w : Char) (h2 : w.toNat < 128) (h3 : intCharOk w = false)
    (hm : w ∈ rest) : pyInt rest = .ok none := by
  unfold pyInt
  rw [if_pos]
  · rfl
  · simp only [List.any_eq_true]
    exact ⟨w, hm, by simp [h2, h3]⟩

def GoodComps (cs : List (Nat × Char)) : Prop :=
  ∀ p ∈ cs, isDesignator p.2 = true ∧ p.1 < 10 ^ 4300

theorem nl_not_mem_renderComps (cs : List (Nat × Char)) (h : GoodComps cs) : '\n' ∉ renderComps cs := by
  induction cs with
  | nil => simp [renderComps]
  | cons a r ih =>
    obtain ⟨n, w⟩ := a
    have hw := (h (n, w) (by simp)).1
    obtain ⟨_, _, _, _, hnl⟩ := designator_facts w hw
    simp only [renderComps, List.mem_append, List.mem_cons, not_or]
    exact ⟨not_mem_toDigits_of_not_digit n '\n' (by decide), fun e => hnl e.symm,
      ih (fun p hp => h p (by simp [hp]))⟩

theorem pyInt_renderComps (cs : List (Nat × Char)) (h : GoodComps cs) : pyInt (renderComps cs) = .ok none := by
  cases cs with
  | nil => exact pyInt_nil
  | cons a r =>
    obtain ⟨n, w⟩ := a
    have hw := (h (n, w) (by simp)).1
    exact pyInt_of_mem_designator _ w hw (by simp [renderComps])

/-- the reader's loop over printed components adds them up -/
theorem loop_comps (cs : List (Nat × Char)) (fuel : Nat) (acc : Int) (hf : cs.length ≤ fuel)
    (hg : GoodComps cs) (h0 : 0 ≤ acc) (hmax : (acc + sumComps cs) / usPerDay ≤ 999999999) :
    parseDurationLoop fuel (renderComps cs) true acc = .ok (acc + sumComps cs) := by
  induction cs generalizing fuel acc with
  | nil => simp [renderComps, sumComps, loop_nil]
  | cons a r ih =>
    obtain ⟨n, w⟩ := a
    cases fuel with
    | zero => simp at hf
    | succ f =>
      have hgr : GoodComps r := fun p hp => hg p (by simp [hp])
      obtain ⟨hw, hn⟩ := hg (n, w) (by simp)
      have hu := unitUs_pos w
      have hnu : 0 ≤ (n : Int) * unitUs w := Int.mul_nonneg (Int.natCast_nonneg n) (Int.le_of_lt hu)
      have hsr := sumComps_nonneg r
      simp only [sumComps] at hmax
      have b1 : ((n : Int) * unitUs w) / usPerDay ≤ 999999999 := by
        simp only [usPerDay] at *; omega
      have b2 : (acc + (n : Int) * unitUs w) / usPerDay ≤ 999999999 := by
        simp only [usPerDay] at *; omega
      simp only [renderComps, sumComps]
      rw [loop_component f n w (renderComps r) true acc hw hn (nl_not_mem_renderComps r hgr)
        (pyInt_renderComps r hgr) (fun _ => rfl) (tdInRange_of_bounds _ hnu b1)
        (tdInRange_of_bounds _ (by omega) b2)]
      rw [ih f _ (by simpa using hf) hgr (by omega) (by rw [Int.add_assoc]; exact hmax), Int.add_assoc]

/-- the same when the components stand behind the `T` that opens the time section -/
theorem loop_comps_T (cs : List (Nat × Char)) (fuel : Nat) (ts : Bool) (acc : Int) (hne : cs ≠ [])
    (hf : cs.length ≤ fuel) (hg : GoodComps cs) (h0 : 0 ≤ acc)
    (hmax : (acc + sumComps cs) / usPerDay ≤ 999999999) :
    parseDurationLoop fuel ('T' :: renderComps cs) ts acc = .ok (acc + sumComps cs) := by
  cases cs with
  | nil => exact absurd rfl hne
  | cons a r =>
    obtain ⟨n, w⟩ := a
    cases fuel with
    | zero => simp at hf
    | succ f =>
      have hgr : GoodComps r := fun p hp => hg p (by simp [hp])
      obtain ⟨hw, hn⟩ := hg (n, w) (by simp)
      have hu := unitUs_pos w
      have hnu : 0 ≤ (n : Int) * unitUs w := Int.mul_nonneg (Int.natCast_nonneg n) (Int.le_of_lt hu)
      have hsr := sumComps_nonneg r
      simp only [sumComps] at hmax
      have b1 : ((n : Int) * unitUs w) / usPerDay ≤ 999999999 := by
        simp only [usPerDay] at *; omega
      have b2 : (acc + (n : Int) * unitUs w) / usPerDay ≤ 999999999 := by
        simp only [usPerDay] at *; omega
      simp only [renderComps, sumComps]
      rw [loop_component_T f n w (renderComps r) ts acc hw hn (nl_not_mem_renderComps r hgr)
        (pyInt_renderComps r hgr) (tdInRange_of_bounds _ hnu b1) (tdInRange_of_bounds _ (by omega) b2)]
      rw [loop_comps r f _ (by simpa using hf) hgr (by omega) (by rw [Int.add_assoc]; exact hmax), Int.add_assoc]

/-! ### the writer's time part is such a list -/

/-- hours / minutes / seconds components of `td.seconds = s`, with the writer's strict `>` tests -/
def timeComps (s : Nat) : List (Nat × Char) :=
  let r1 := if s > 3600 then s % 3600 else s
  let r2 := if r1 > 60 then r1 % 60 else r1
  (if s > 3600 then [(s / 3600, 'H')] else []) ++ (if r1 > 60 then [(r1 / 60, 'M')] else [])
    ++ (if r2 ≠ 0 then [(r2, 'S')] else [])

theorem formatTimePart_eq (s : Nat) : formatTimePart s = 'T' :: renderComps (timeComps s) := by
  simp only [formatTimePart, timeComps]
  split <;> split <;> split <;> simp [renderComps]

theorem timeComps_ne_nil (s : Nat) (h : s ≠ 0) : timeComps s ≠ [] := by
  simp only [timeComps]
  repeat' split
  all_goals first
    | (simp; done)
    | (exfalso; omega)

theorem timeComps_good (s : Nat) (h : s < 86400) : GoodComps (timeComps s) := by
  intro p hp
  have big : (86400 : Nat) < 10 ^ 4300 := by
    calc (86400 : Nat) < 10 ^ 5 := by decide
      _ ≤ 10 ^ 4300 := Nat.pow_le_pow_right (by decide) (by decide)
  have aux : ∀ n, n ≤ s → n < 10 ^ 4300 := fun n hn => by omega
  have d1 : s / 3600 ≤ s := Nat.div_le_self _ _
  have d2 : s % 3600 / 60 ≤ s := Nat.le_trans (Nat.div_le_self _ _) (Nat.mod_le _ _)
  have d3 : s / 60 ≤ s := Nat.div_le_self _ _
  have d4 : s % 3600 % 60 ≤ s := Nat.le_trans (Nat.mod_le _ _) (Nat.mod_le _ _)
  have d5 : s % 3600 ≤ s := Nat.mod_le _ _
  have d6 : s % 60 ≤ s := Nat.mod_le _ _
  have hH : isDesignator 'H' = true := by decide
  have hM : isDesignator 'M' = true := by decide
  have hS : isDesignator 'S' = true := by decide
  simp only [timeComps, List.mem_append] at hp
  rcases hp with (hp | hp) | hp
  all_goals
    repeat' split at hp
    all_goals first
      | (simp only [List.mem_singleton] at hp
         subst hp
         refine ⟨by assumption, aux _ ?_⟩
         first | assumption | exact Nat.le_refl _)
      | (simp at hp; done)

theorem unitUs_H : unitUs 'H' = 3600000000 := by decide
theorem unitUs_M : unitUs 'M' = 60000000 := by decide
theorem unitUs_S : unitUs 'S' = 1000000 := by decide
theorem unitUs_D : unitUs 'D' = 86400000000 := by decide

theorem sumComps_timeComps (s : Nat) : sumComps (timeComps s) = (s : Int) * 1000000 := by
  simp only [timeComps]
  split <;> split <;> split <;> simp [sumComps, unitUs_H, unitUs_M, unitUs_S] <;> omega

end Kskm

namespace Kskm

theorem parseDurationLoop_fuel_add (k : Nat) (s : List Char) (ts : Bool) (acc : Int) :
    parseDurationLoop s.length s ts acc = parseDurationLoop (s.length + k) s ts acc :=
  parseDurationLoop_fuel _ _ _ _ _ (Nat.le_refl _) (by omega)

theorem T_facts : 'T'.toNat < 128 ∧ intCharOk 'T' = false := by decide

/-- `duration_roundtrip` on characters -/
theorem duration_roundtrip_chars (d : Int) (h0 : 0 ≤ d) (hs : d % 1000000 = 0)
    (hmax : d / usPerDay ≤ 999999999) : parseDurationChars (formatDurationChars d) = .ok d := by
  by_cases hd0 : d = 0
  · subst hd0; decide
  · -- days and seconds of the day
    have hD0 : 0 ≤ d / usPerDay := Int.ediv_nonneg h0 (by decide)
    obtain ⟨D, hD⟩ := Int.eq_ofNat_of_zero_le hD0
    have hS0 : 0 ≤ d % usPerDay / usPerSecond :=
      Int.ediv_nonneg (Int.emod_nonneg _ (by decide)) (by decide)
    obtain ⟨S, hS⟩ := Int.eq_ofNat_of_zero_le hS0
    have hSlt : S < 86400 := by
      have : d % usPerDay / usPerSecond < 86400 := by simp only [usPerDay, usPerSecond]; omega
      omega
    have hdecomp : d = (D : Int) * 86400000000 + (S : Int) * 1000000 := by
      simp only [usPerDay, usPerSecond] at hD hS; omega
    have hDbig : D < 10 ^ 4300 := by
      have : D ≤ 999999999 := by omega
      calc D < 10 ^ 10 := by omega
        _ ≤ 10 ^ 4300 := Nat.pow_le_pow_right (by decide) (by decide)
    have hgT := timeComps_good S hSlt
    have hsumT := sumComps_timeComps S
    unfold formatDurationChars
    rw [if_neg hd0]
    simp only [hD, hS, Int.toNat_natCast]
    by_cases hDz : D = 0
    · -- no day part
      subst hDz
      have hSnz : S ≠ 0 := by intro e; subst e; simp at hdecomp; exact hd0 hdecomp
      simp only [Int.natCast_zero, ne_eq, not_true_eq_false, ↓reduceIte, hSnz, not_false_eq_true,
        List.cons_append, List.nil_append, formatTimePart_eq, parseDurationChars]
      rw [parseDurationLoop_fuel_add (timeComps S).length]
      rw [loop_comps_T _ _ _ _ (timeComps_ne_nil S hSnz) (by omega) hgT (Int.le_refl _)
        (by rw [hsumT]; simp only [usPerDay]; omega)]
      rw [hsumT, hdecomp]; simp
    · -- a day part `<D>D`
      have hDne : (D : Int) ≠ 0 := by omega
      have hstr : pyIntStr (D : Int) = Nat.toDigits 10 D := by
        unfold pyIntStr
        rw [if_neg (by omega)]; simp
      simp only [ne_eq, hDne, not_false_eq_true, ↓reduceIte, hstr, parseDurationChars, List.cons_append,
        List.append_assoc, List.nil_append]
      have hDD : isDesignator 'D' = true := by decide
      have hnuD : 0 ≤ (D : Int) * unitUs 'D' := by rw [unitUs_D]; omega
      have hb1 : ((D : Int) * unitUs 'D') / usPerDay ≤ 999999999 := by
        rw [unitUs_D]; simp only [usPerDay]; omega
      by_cases hSz : S = 0
      · subst hSz
        simp only [ne_eq, not_true_eq_false, ↓reduceIte, List.append_nil]
        rw [parseDurationLoop_fuel_add 1]
        rw [loop_component _ D 'D' [] false 0 hDD hDbig (by simp) pyInt_nil (by decide)
          (tdInRange_of_bounds _ hnuD hb1) (tdInRange_of_bounds _ (by omega) (by simpa using hb1))]
        rw [loop_nil, unitUs_D, hdecomp]; simp
      · simp only [ne_eq, hSz, not_false_eq_true, ↓reduceIte, formatTimePart_eq]
        rw [parseDurationLoop_fuel_add ((timeComps S).length + 1), ← Nat.add_assoc]
        have hrest_nl : '\n' ∉ 'T' :: renderComps (timeComps S) := by
          simp only [List.mem_cons, not_or]
          exact ⟨by decide, nl_not_mem_renderComps _ hgT⟩
        rw [loop_component _ D 'D' ('T' :: renderComps (timeComps S)) false 0 hDD hDbig hrest_nl
          (pyInt_of_mem_bad _ 'T' T_facts.1 T_facts.2 (by simp)) (by decide)
          (tdInRange_of_bounds _ hnuD hb1) (tdInRange_of_bounds _ (by omega) (by simpa using hb1))]
        rw [loop_comps_T _ _ _ _ (timeComps_ne_nil S hSz) (Nat.le_add_left _ _) hgT (by omega)
          (by rw [hsumT, unitUs_D]; simp only [usPerDay]; omega)]
        rw [hsumT, unitUs_D, hdecomp]; simp

end Kskm
