/-
  The data of an SKR read off its element tree (`extractResponse`) — the schema-directed, "standards
  parser" reading: attribute values and element texts are taken verbatim and converted with the SAME
  codecs the repository's reader uses (`pyInt` = Python `int()`, `parseDurationChars`, `parseDatetimeChars`).
  `extract_treeOf`: on the writer's domain the tree the writer renders yields the response back,
  keys in the writer's (key-tag) order.
-/
import KskmProofs.Lemmas.C11Schema
import KskmProofs.Lemmas.C11Duration
import KskmProofs.Lemmas.C11Datetime
namespace Kskm

/-! ### `int(str(i)) = i` -/

theorem intRun_digits (ds : List Char) (h : ∀ c ∈ ds, c.isDigit = true) : intRun ds = (ds, [], true) := by
  induction ds with
  | nil => rfl
  | cons c t ih =>
    have hc := h c (by simp)
    simp [intRun, hc, ih (fun x hx => h x (by simp [hx]))]

theorem digit_facts (c : Char) (h : c.isDigit = true) :
    isCSpace c = false ∧ c ≠ '+' ∧ c ≠ '-' ∧ c.toNat < 128 ∧ intCharOk c = true := by
  have h128 := digit_ascii c h
  refine ⟨?_, ?_, ?_, h128, by simp [intCharOk, h]⟩
  · rw [Char.isDigit] at h
    simp only [Bool.and_eq_true, decide_eq_true_eq] at h
    simp only [isCSpace, Bool.or_eq_false_iff, decide_eq_false_iff_not]
    refine ⟨⟨⟨⟨⟨?_, ?_⟩, ?_⟩, ?_⟩, ?_⟩, ?_⟩ <;> intro e <;> subst e <;> revert h <;> decide
  · intro e; subst e; revert h; decide
  · intro e; subst e; revert h; decide

theorem digit_cases (c : Char) (h : c.isDigit = true) :
    c = '0' ∨ c = '1' ∨ c = '2' ∨ c = '3' ∨ c = '4' ∨ c = '5' ∨ c = '6' ∨ c = '7' ∨ c = '8' ∨ c = '9' := by
  have h1 := Char.isDigit_iff_toNat.mp h
  have e : ∀ k : Nat, c.toNat = k → c = Char.ofNat k := fun k hk => by rw [← hk, Char.ofNat_toNat]
  have : c.toNat = 48 ∨ c.toNat = 49 ∨ c.toNat = 50 ∨ c.toNat = 51 ∨ c.toNat = 52 ∨ c.toNat = 53 ∨ c.toNat = 54 ∨
      c.toNat = 55 ∨ c.toNat = 56 ∨ c.toNat = 57 := by
    simp only [Char.reduceToNat] at h1; omega
  rcases this with h | h | h | h | h | h | h | h | h | h
  all_goals (have := e _ h; simp only [this]; decide)

theorem pyIntAscii_toDigits (n : Nat) (hn : n < 10 ^ maxStrDigits) :
    pyIntAscii (Nat.toDigits 10 n) = some (n : Int) := by
  obtain ⟨c, cs, hcs⟩ := List.exists_cons_of_ne_nil (toDigits_ne_nil' n)
  have hall := all_digits_toDigits n
  have hc : c.isDigit = true := hall c (by simp [hcs])
  have hlen : ¬ (Nat.toDigits 10 n).length > maxStrDigits := by
    have := length_toDigits_le n maxStrDigits (by decide) hn
    omega
  have hrun := intRun_digits _ hall
  have hval := @Nat.ofDigitChars_ten_toDigits n
  rw [hcs] at hrun hlen hval ⊢
  rcases digit_cases c hc with rfl | rfl | rfl | rfl | rfl | rfl | rfl | rfl | rfl | rfl
  all_goals
    simp only [pyIntAscii, List.dropWhile, isCSpace, Char.reduceEq, decide_false, Bool.or_self, Bool.false_eq_true,
      ↓reduceIte, hrun, List.dropWhile_nil, List.isEmpty_nil, hlen, Char.isDigit, Char.reduceVal, hval,
      Bool.not_true, Bool.not_false]
    simp
    refine ⟨?_, ?_, ?_, ?_⟩
    · exact congrArg (fun x => x.2.2) hrun
    · have := congrArg (fun x => x.2.1) hrun
      simp only at this
      rw [this]; rfl
    · have := congrArg (fun x => x.1) hrun
      simp only at this
      rw [this]; omega
    · have := congrArg (fun x => x.1) hrun
      simp only at this
      rw [this, hval]

theorem pyInt_toDigits (n : Nat) (hn : n < 10 ^ maxStrDigits) : pyInt (Nat.toDigits 10 n) = .ok (some (n : Int)) := by
  have hall := all_digits_toDigits n
  unfold pyInt
  rw [if_neg, if_neg, pyIntAscii_toDigits n hn]
  · rfl
  · simp only [List.any_eq_true, decide_eq_true_eq, not_exists, not_and]
    intro c hc
    have := (digit_facts c (hall c hc)).2.2.2.1
    omega
  · simp only [List.any_eq_true, Bool.and_eq_true, decide_eq_true_eq, Bool.not_eq_true', not_exists, not_and]
    intro c hc _
    simp [(digit_facts c (hall c hc)).2.2.2.2]

/-- Python's `int(str(i)) == i` for every printable `i ≥ 0` (the negative case is not needed on the
    writer's domain) -/
theorem pyInt_pyIntStr (i : Int) (h0 : 0 ≤ i) (hp : printable i = true) : pyInt (pyIntStr i) = .ok (some i) := by
  obtain ⟨n, rfl⟩ := Int.eq_ofNat_of_zero_le h0
  have : pyIntStr (n : Int) = Nat.toDigits 10 n := by
    unfold pyIntStr; rw [if_neg (by omega)]; simp
  rw [this]
  exact pyInt_toDigits n (by simpa [printable] using hp)

end Kskm

namespace Kskm

/-! ### reading the data off the tree -/

def intOfStr (s : String) : Res Int := do
  match ← pyInt s.toList with
  | some i => pure i
  | none => err .value

def natOfStr (s : String) : Res Nat := do
  let i ← intOfStr s
  if 0 ≤ i then pure i.toNat else err .value

def attrOf (a : List (String × String)) (n : String) : Res String :=
  match a.lookup n with
  | some v => pure v
  | none => err .key

/-- the text of `<name>text</name>` -/
def textOf (name : String) : XTree → Res String
  | .leaf n _ t => if n = name then pure t else err .key
  | _ => err .type

def extractAlg : XTree → Res AlgPolicy
  | .node "SignatureAlgorithm" a [.empty "RSA" ra] => do
    let alg ← natOfStr (← attrOf a "algorithm")
    let bits ← intOfStr (← attrOf ra "size")
    let e ← intOfStr (← attrOf ra "exponent")
    pure { kind := .rsa, bits := bits, algorithm := alg, exponent := some e }
  | _ => unsupported

def durationOfStr (s : String) : Res Int := parseDurationChars s.toList
def datetimeOfStr (s : String) : Res Int := parseDatetimeChars s.toList

def extractPolicy : XTree → Res SigPolicy
  | .node _ _ (c1 :: c2 :: c3 :: c4 :: c5 :: c6 :: algs) => do
    let d1 ← durationOfStr (← textOf "PublishSafety" c1)
    let d2 ← durationOfStr (← textOf "RetireSafety" c2)
    let d3 ← durationOfStr (← textOf "MaxSignatureValidity" c3)
    let d4 ← durationOfStr (← textOf "MinSignatureValidity" c4)
    let d5 ← durationOfStr (← textOf "MaxValidityOverlap" c5)
    let d6 ← durationOfStr (← textOf "MinValidityOverlap" c6)
    let as ← algs.mapM extractAlg
    pure { publishSafety := d1, retireSafety := d2, maxSignatureValidity := d3, minSignatureValidity := d4,
           maxValidityOverlap := d5, minValidityOverlap := d6, algorithms := as }
  | _ => unsupported

def extractKey : XTree → Res Key
  | .node "Key" a [c1, c2, c3, c4, c5] => do
    let id ← attrOf a "keyIdentifier"
    let tag ← intOfStr (← attrOf a "keyTag")
    let ttl ← intOfStr (← textOf "TTL" c1)
    let flags ← intOfStr (← textOf "Flags" c2)
    let protocol ← intOfStr (← textOf "Protocol" c3)
    let alg ← natOfStr (← textOf "Algorithm" c4)
    let pk ← textOf "PublicKey" c5
    pure { keyIdentifier := id, keyTag := tag, ttl := ttl, flags := flags, protocol := protocol, algorithm := alg,
           publicKey := pk }
  | _ => unsupported

def extractSig : XTree → Res Signature
  | .node "Signature" a [c1, c2, c3, c4, c5, c6, c7, c8, c9, c10] => do
    let id ← attrOf a "keyIdentifier"
    let ttl ← intOfStr (← textOf "TTL" c1)
    let tc ← textOf "TypeCovered" c2
    let alg ← natOfStr (← textOf "Algorithm" c3)
    let labels ← intOfStr (← textOf "Labels" c4)
    let ottl ← intOfStr (← textOf "OriginalTTL" c5)
    let exp ← datetimeOfStr (← textOf "SignatureExpiration" c6)
    let inc ← datetimeOfStr (← textOf "SignatureInception" c7)
    let tag ← intOfStr (← textOf "KeyTag" c8)
    let name ← textOf "SignersName" c9
    let data ← textOf "SignatureData" c10
    if tc ≠ "DNSKEY" then err .key
    pure { keyIdentifier := id, ttl := ttl, typeCovered := 48, algorithm := alg, labels := labels, originalTtl := ottl,
           expiration := exp, inception := inc, keyTag := tag, signersName := name, signatureData := data }
  | _ => unsupported

def isNamed (n : String) (t : XTree) : Bool := t.name == n

def extractBundle : XTree → Res Bundle
  | .node "ResponseBundle" a (c1 :: c2 :: rest) => do
    let id ← attrOf a "id"
    let inc ← datetimeOfStr (← textOf "Inception" c1)
    let exp ← datetimeOfStr (← textOf "Expiration" c2)
    let keys ← (rest.filter (isNamed "Key")).mapM extractKey
    let sigs ← (rest.filter (isNamed "Signature")).mapM extractSig
    pure { id := id, inception := inc, expiration := exp, keys := keys, signatures := sigs }
  | _ => unsupported

def extractResponse : XTree → Res Response
  | .node "KSR" a [.node "Response" _ (.node "ResponsePolicy" _ [k, z] :: bundles)] => do
    let id ← attrOf a "id"
    let serial ← intOfStr (← attrOf a "serial")
    let domain ← attrOf a "domain"
    let ksk ← extractPolicy k
    let zsk ← extractPolicy z
    let bs ← bundles.mapM extractBundle
    pure { id := id, serial := serial, domain := domain, timestamp := none, zskPolicy := zsk, kskPolicy := ksk,
           bundles := bs }
  | _ => unsupported

/-- the response as the writer lays it out: keys of every bundle in ascending key-tag order -/
def canonical (r : Response) : Response :=
  { r with bundles := r.bundles.map (fun b => { b with keys := sortKeys b.keys }) }

end Kskm

namespace Kskm

theorem intOfStr_int (i : Int) (h0 : 0 ≤ i) (hp : printable i = true) : intOfStr (str (pyIntStr i)) = .ok i := by
  simp [intOfStr, str, pyInt_pyIntStr i h0 hp, bind, Except.bind, pure, Except.pure]

theorem natOfStr_nat (n : Nat) (hp : printable (n : Int) = true) : natOfStr (str (natStr n)) = .ok n := by
  have : pyInt (natStr n) = .ok (some (n : Int)) := pyInt_toDigits n (by simpa [printable] using hp)
  simp [natOfStr, intOfStr, str, this, bind, Except.bind, pure, Except.pure]

theorem durationOfStr_format (d : Int) (h : durationOk d = true) : durationOfStr (formatDuration d) = .ok d := by
  simp only [durationOk, Bool.and_eq_true, decide_eq_true_eq] at h
  simp only [durationOfStr, formatDuration, String.toList_ofList]
  exact duration_roundtrip_chars d h.1.1 h.1.2 (by have := h.2; simp only [usPerDay] at *; omega)

theorem datetimeOfStr_format (t : Int) (h : instantOk t = true) : datetimeOfStr (formatDatetime t) = .ok t := by
  simp only [instantOk, Bool.and_eq_true, decide_eq_true_eq] at h
  simp only [datetimeOfStr, formatDatetime, String.toList_ofList]
  exact datetime_roundtrip_chars t h.1.1.1.1 h.1.2 h.2

theorem extractAlg_algTree (a : AlgPolicy) (h : algOk a = true) : extractAlg (algTree a) = .ok a := by
  have ap := algOk_parts a h
  obtain ⟨e, he⟩ := Option.isSome_iff_exists.mp ap.exp
  have halg : printable (a.algorithm : Int) = true :=
    printable_nat _ (by rcases ap.alg with e | e | e <;> omega)
  have he0 : 0 ≤ e := by have := ap.exp0; simpa [he] using this
  have hpe : printable e = true := by have := ap.pexp; simpa [he] using this
  simp only [algTree, extractAlg, attrOf, List.lookup, beq_self_eq_true, bind, Except.bind, pure, Except.pure,
    natOfStr_nat _ halg, intOfStr_int _ ap.bits0 ap.pbits, he, Option.getD_some, intOfStr_int _ he0 hpe]
  have hk := ap.kind
  cases a
  simp_all [intOfStr_int _ he0 hpe]

end Kskm

namespace Kskm

theorem extractPolicy_policyTree (name : String) (p : SigPolicy) (h : policyOk p = true) :
    extractPolicy (policyTree name p) = .ok p := by
  have hp := policyOk_parts p h
  have halgs : (p.algorithms.map algTree).mapM extractAlg = .ok p.algorithms := by
    have : ∀ l : List AlgPolicy, (∀ a ∈ l, algOk a = true) → (l.map algTree).mapM extractAlg = .ok l := by
      intro l hl
      induction l with
      | nil => rfl
      | cons a t ih =>
        rw [List.map_cons, List.mapM_cons, extractAlg_algTree a (hl a (by simp)),
          ih (fun x hx => hl x (by simp [hx]))]
        rfl
    exact this _ hp.algs
  simp only [policyTree, List.cons_append, List.nil_append, extractPolicy, textOf, ↓reduceIte, bind, Except.bind, pure,
    Except.pure, durationOfStr_format _ hp.d1, durationOfStr_format _ hp.d2, durationOfStr_format _ hp.d3,
    durationOfStr_format _ hp.d4, durationOfStr_format _ hp.d5, durationOfStr_format _ hp.d6, halgs]

theorem extractKey_keyTree (k : Key) (h : keyOk k = true) : extractKey (keyTree k) = .ok k := by
  have kp := keyOk_parts k h
  have p1 := printable_of_bounds _ kp.tag0 kp.tag1
  have p2 := printable_of_bounds _ kp.flags0 kp.flags1
  have p3 : printable k.protocol = true := printable_of_bounds _ (by rw [kp.protocol]; decide) (by rw [kp.protocol]; decide)
  have p4 : printable (k.algorithm : Int) = true := printable_nat k.algorithm (by have := kp.alg; omega)
  have h3 : 0 ≤ k.protocol := by rw [kp.protocol]; decide
  simp only [keyTree, extractKey, attrOf, List.lookup, beq_self_eq_true, textOf, ↓reduceIte, bind, Except.bind, pure,
    Except.pure, intOfStr_int _ kp.tag0 p1, intOfStr_int _ kp.ttl kp.pttl, intOfStr_int _ kp.flags0 p2,
    intOfStr_int _ h3 p3, natOfStr_nat _ p4, String.reduceBEq]

theorem extractSig_sigTree (s : Signature) (h : sigOk s = true) : extractSig (sigTree s) = .ok s := by
  have sp := sigOk_parts s h
  have p1 := printable_of_bounds _ sp.tag0 sp.tag1
  have p2 := printable_of_bounds _ sp.labels0 (by have := sp.labels1; omega)
  have p4 : printable (s.algorithm : Int) = true := printable_nat s.algorithm (by have := sp.alg; omega)
  simp only [sigTree, extractSig, attrOf, List.lookup, beq_self_eq_true, textOf, ↓reduceIte, bind, Except.bind, pure,
    Except.pure, intOfStr_int _ sp.tag0 p1, intOfStr_int _ sp.ttl sp.pttl, intOfStr_int _ sp.labels0 p2,
    intOfStr_int _ sp.ottl sp.pottl, natOfStr_nat _ p4, datetimeOfStr_format _ sp.exp, datetimeOfStr_format _ sp.inc,
    ne_eq, not_true_eq_false, String.reduceBEq]
  have := sp.tc
  cases s
  simp_all

end Kskm

namespace Kskm

theorem mapM_map_ok {α β} (f : α → XTree) (g : XTree → Res β) (h : α → β) (l : List α)
    (hl : ∀ x ∈ l, g (f x) = .ok (h x)) : (l.map f).mapM g = .ok (l.map h) := by
  induction l with
  | nil => rfl
  | cons a t ih =>
    rw [List.map_cons, List.mapM_cons, hl a (by simp), ih (fun x hx => hl x (by simp [hx]))]
    rfl

theorem filter_named_keys (ks : List Key) (ss : List Signature) :
    ((ks.map keyTree ++ ss.map sigTree).filter (isNamed "Key")) = ks.map keyTree := by
  rw [List.filter_append]
  have h1 : (ks.map keyTree).filter (isNamed "Key") = ks.map keyTree := by
    rw [List.filter_eq_self]
    intro t ht
    obtain ⟨k, _, rfl⟩ := List.mem_map.mp ht
    simp [isNamed, keyTree, XTree.name]
  have h2 : (ss.map sigTree).filter (isNamed "Key") = [] := by
    rw [List.filter_eq_nil_iff]
    intro t ht
    obtain ⟨s, _, rfl⟩ := List.mem_map.mp ht
    simp [isNamed, sigTree, XTree.name]
  rw [h1, h2, List.append_nil]

theorem filter_named_sigs (ks : List Key) (ss : List Signature) :
    ((ks.map keyTree ++ ss.map sigTree).filter (isNamed "Signature")) = ss.map sigTree := by
  rw [List.filter_append]
  have h1 : (ss.map sigTree).filter (isNamed "Signature") = ss.map sigTree := by
    rw [List.filter_eq_self]
    intro t ht
    obtain ⟨k, _, rfl⟩ := List.mem_map.mp ht
    simp [isNamed, sigTree, XTree.name]
  have h2 : (ks.map keyTree).filter (isNamed "Signature") = [] := by
    rw [List.filter_eq_nil_iff]
    intro t ht
    obtain ⟨s, _, rfl⟩ := List.mem_map.mp ht
    simp [isNamed, keyTree, XTree.name]
  rw [h1, h2, List.nil_append]

theorem extractBundle_bundleTree (b : Bundle) (h : bundleOk b = true) :
    extractBundle (bundleTree b) = .ok { b with keys := sortKeys b.keys } := by
  have bp := bundleOk_parts b h
  have hsn := bp.signers
  have hk : ((sortKeys b.keys).map keyTree).mapM extractKey = .ok (sortKeys b.keys) := by
    have := mapM_map_ok keyTree extractKey (fun k => k) (sortKeys b.keys) (fun k hk =>
      extractKey_keyTree k (bp.keys k ((List.mergeSort_perm _ _).mem_iff.mp hk)))
    simpa using this
  have hs : (b.signatures.map sigTree).mapM extractSig = .ok b.signatures := by
    have := mapM_map_ok sigTree extractSig (fun s => s) b.signatures (fun s hs => extractSig_sigTree s (bp.sigs s hs))
    simpa using this
  simp only [bundleTree, List.cons_append, List.nil_append, extractBundle, attrOf, List.lookup, beq_self_eq_true, textOf,
    ↓reduceIte, bind, Except.bind, pure, Except.pure, datetimeOfStr_format _ bp.inc, datetimeOfStr_format _ bp.exp,
    filter_named_keys, filter_named_sigs, hk, hs]
  cases b
  simp_all

/-- reading the writer's tree gives the response back (keys in the writer's order) -/
theorem extract_treeOf (r : Response) (h : WriterDomain r) :
    extractResponse (treeOf r) = .ok (canonical r) := by
  have hp := domain_parts r h
  have hb : (r.bundles.map bundleTree).mapM extractBundle
      = .ok (r.bundles.map (fun b => { b with keys := sortKeys b.keys })) :=
    mapM_map_ok bundleTree extractBundle _ r.bundles (fun b hb =>
      extractBundle_bundleTree b (hp.bundles b hb))
  simp only [treeOf, extractResponse, attrOf, List.lookup, beq_self_eq_true, bind, Except.bind, pure, Except.pure,
    intOfStr_int _ hp.serial hp.pserial, extractPolicy_policyTree _ _ hp.ksk, extractPolicy_policyTree _ _ hp.zsk, hb,
    String.reduceBEq]
  have := hp.ts
  cases r
  simp_all [canonical]

end Kskm
