/- Helper lemmas for C08 / C09: membership views of the small list predicates used by Kskm.Chain. -/
import Kskm.Chain
import KskmProofs.Lemmas.Res
namespace Kskm

/-- `hasKeyId b id` ⇔ some key of `b` carries the identifier -/
theorem hasKeyId_iff (b : Bundle) (id : String) :
    hasKeyId b id = true ↔ ∃ k ∈ b.keys, k.keyIdentifier = id := by
  simp [hasKeyId, List.any_eq_true]

/-- the list of revoked identifiers of a bundle, by membership -/
theorem mem_revokedIds (keys : List Key) (id : String) :
    ((keys.filter isRevokedKey).map (·.keyIdentifier)).contains id = true ↔
      ∃ k ∈ keys, isRevokedKey k = true ∧ k.keyIdentifier = id := by
  simp only [List.contains_iff_mem, List.mem_map, List.mem_filter]
  constructor
  · rintro ⟨k, ⟨hk, hr⟩, he⟩; exact ⟨k, hk, hr, he⟩
  · rintro ⟨k, hk, hr, he⟩; exact ⟨k, ⟨hk, hr⟩, he⟩

end Kskm
