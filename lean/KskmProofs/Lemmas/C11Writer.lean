/-
  Lemmas about the text helpers of the SKR writer (`joinNl`, `splitNl`, `indent`) and the agreement of the
  writer's text with the rendering of the element tree.
-/
import Kskm.SkrXml
namespace Kskm

/-! ### split / join -/

theorem splitNl_nlfree (l : List Char) (h : '\n' ∉ l) : splitNl l = [l] := by
  induction l with
  | nil => rfl
  | cons c t ih =>
    have hc : c ≠ '\n' := fun e => h (by simp [e])
    have ht : '\n' ∉ t := fun hm => h (by simp [hm])
    simp [splitNl, hc, ih ht]

theorem splitNl_append_nl (l r : List Char) (h : '\n' ∉ l) : splitNl (l ++ '\n' :: r) = l :: splitNl r := by
  induction l with
  | nil => simp [splitNl]
  | cons c t ih =>
    have hc : c ≠ '\n' := fun e => h (by simp [e])
    have ht : '\n' ∉ t := fun hm => h (by simp [hm])
    simp [splitNl, hc, ih ht]

theorem splitNl_joinNl (ls : List (List Char)) (hne : ls ≠ []) (h : ∀ l ∈ ls, '\n' ∉ l) :
    splitNl (joinNl ls) = ls := by
  induction ls with
  | nil => exact absurd rfl hne
  | cons l t ih =>
    cases t with
    | nil => simp [joinNl, splitNl_nlfree l (h l (by simp))]
    | cons l' t' =>
      simp only [joinNl]
      rw [splitNl_append_nl _ _ (h l (by simp)), ih (by simp) (fun x hx => h x (by simp [hx]))]

/-- what follows the first line in a join -/
def joinTail : List (List Char) → List Char
  | [] => []
  | l :: ls => '\n' :: joinNl (l :: ls)

theorem joinNl_cons (l : List Char) (ls : List (List Char)) : joinNl (l :: ls) = l ++ joinTail ls := by
  cases ls <;> simp [joinNl, joinTail]

theorem joinNl_append (a b : List (List Char)) (ha : a ≠ []) (hb : b ≠ []) :
    joinNl (a ++ b) = joinNl a ++ '\n' :: joinNl b := by
  induction a with
  | nil => exact absurd rfl ha
  | cons l t ih =>
    cases t with
    | nil =>
      cases b with
      | nil => exact absurd rfl hb
      | cons b1 bt => simp [joinNl]
    | cons l' t' =>
      have := ih (by simp)
      simp only [List.cons_append] at this ⊢
      simp only [joinNl, this, List.append_assoc, List.cons_append]

/-- a "line" that is itself a join of lines can be spliced in -/
theorem joinNl_splice (a xs b : List (List Char)) (hx : xs ≠ []) :
    joinNl (a ++ [joinNl xs] ++ b) = joinNl (a ++ xs ++ b) := by
  cases ha : a with
  | nil =>
    cases hb : b with
    | nil => simp [joinNl]
    | cons b1 bt =>
      simp only [List.nil_append, List.singleton_append]
      rw [joinNl_append xs (b1 :: bt) hx (by simp)]
      simp [joinNl]
  | cons a1 at' =>
    cases hb : b with
    | nil =>
      simp only [List.append_nil]
      rw [joinNl_append (a1 :: at') [joinNl xs] (by simp) (by simp),
        joinNl_append (a1 :: at') xs (by simp) hx]
      simp [joinNl]
    | cons b1 bt =>
      rw [List.append_assoc, List.append_assoc, joinNl_append (a1 :: at') _ (by simp) (by simp),
        joinNl_append (a1 :: at') _ (by simp) (by simp [hx])]
      simp only [List.singleton_append]
      rw [joinNl_append xs (b1 :: bt) hx (by simp)]
      simp [joinNl]

/-! ### `_indent` -/

def nonEmptyLines (ls : List (List Char)) : List (List Char) := ls.filter (fun l => !l.isEmpty)

/-- `_indent` of a text given by its lines: blank lines go, the rest is indented, the very first
    indentation is stripped again -/
theorem indent_joinNl (ls : List (List Char)) (h : ∀ l ∈ ls, '\n' ∉ l) :
    indent (joinNl ls) = lstrip (joinNl ((nonEmptyLines ls).map ind)) := by
  cases ls with
  | nil => simp [indent, joinNl, splitNl, nonEmptyLines, ind]
  | cons l t =>
    unfold indent
    rw [splitNl_joinNl _ (by simp) h]
    rfl

theorem sp4_space : ∀ c ∈ sp4, pyIsSpace c = true := by decide

/-- the `lstrip()` removes exactly the four blanks put before the first line when that line starts
    with a non-blank character -/
theorem sp4_lstrip_ind (c : Char) (r : List Char) (t : List (List Char)) (hc : pyIsSpace c = false) :
    sp4 ++ lstrip (joinNl (((c :: r) :: t).map ind)) = joinNl (((c :: r) :: t).map ind) := by
  simp only [List.map_cons, joinNl_cons, ind, lstrip, sp4, List.cons_append, List.nil_append, List.dropWhile]
  have hs : pyIsSpace ' ' = true := by decide
  simp [hs, hc]

/-! ### blocks: what a template function returns -/

/-- a template: an empty first line, the lines, an empty last line -/
def block (ls : List (List Char)) : List Char := joinNl ([] :: ls ++ [[]])

/-- a line of a template body: single-line and not empty -/
def LineOk (l : List Char) : Prop := '\n' ∉ l ∧ l ≠ []

theorem blocks_flatten (lss : List (List (List Char))) :
    (lss.map block).flatten = joinNl (lss.flatMap (fun ls => [] :: ls) ++ [[]]) := by
  induction lss with
  | nil => simp [joinNl]
  | cons ls t ih =>
    have e1 : joinNl (([] :: ls) ++ [[]]) = joinNl ([] :: ls) ++ ['\n'] := by
      rw [joinNl_append _ _ (by simp) (by simp)]; simp [joinNl]
    have e2 : joinNl (([] :: ls) ++ (List.flatMap (fun ls => [] :: ls) t ++ [[]]))
        = joinNl ([] :: ls) ++ '\n' :: joinNl (List.flatMap (fun ls => [] :: ls) t ++ [[]]) :=
      joinNl_append _ _ (by simp) (by simp)
    simp only [List.cons_append] at e1 e2
    simp only [List.map_cons, List.flatten_cons, ih, List.flatMap_cons, block, List.cons_append, List.append_assoc,
      e1, e2, List.nil_append]

theorem nonEmptyLines_blocks (lss : List (List (List Char))) (hok : ∀ ls ∈ lss, ∀ l ∈ ls, LineOk l) :
    nonEmptyLines (lss.flatMap (fun ls => [] :: ls) ++ [[]]) = lss.flatten := by
  induction lss with
  | nil => simp [nonEmptyLines]
  | cons ls t ih =>
    have h1 : nonEmptyLines ls = ls := by
      unfold nonEmptyLines
      rw [List.filter_eq_self]
      intro l hl
      have := (hok ls (by simp) l hl).2
      cases l <;> simp_all
    have := ih (fun ls' h' => hok ls' (by simp [h']))
    simp only [nonEmptyLines, List.flatMap_cons, List.cons_append, List.append_assoc, List.filter_cons,
      List.isEmpty_nil, Bool.not_true, Bool.false_eq_true, ↓reduceIte, List.filter_append, List.flatten_cons] at this ⊢
    rw [this]
    unfold nonEmptyLines at h1
    rw [h1]

/-- The heart of the layout argument: `_indent` applied to a concatenation of templates whose body
    lines are single-line and non-empty, the first of them starting with a non-blank character,
    yields — with the four blanks of the enclosing template line put back — the body lines, each
    indented by four more blanks. -/
theorem indent_blocks (lss : List (List (List Char))) (hok : ∀ ls ∈ lss, ∀ l ∈ ls, LineOk l)
    (c : Char) (r : List Char) (t : List (List Char)) (hhead : lss.flatten = (c :: r) :: t)
    (hc : pyIsSpace c = false) :
    sp4 ++ indent ((lss.map block).flatten) = joinNl (lss.flatten.map ind) := by
  rw [blocks_flatten, indent_joinNl, nonEmptyLines_blocks lss hok, hhead, sp4_lstrip_ind c r t hc]
  intro l hl
  simp only [List.mem_append, List.mem_flatMap, List.mem_cons, List.mem_singleton, List.not_mem_nil, or_false] at hl
  rcases hl with ⟨ls, hls, rfl | hl⟩ | rfl
  · simp
  · exact (hok ls hls l hl).1
  · simp

end Kskm
