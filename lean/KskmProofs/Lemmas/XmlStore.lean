/-
  Helper lemmas for C12: insertion-ordered dicts (`dictSet`, `List.lookup`), `_store_element` under
  repetition, monadic maps under permutation.
-/
import Kskm.XmlGlue
namespace Kskm.Xml

theorem lookup_dictSet_self {β} (d : List (List Char × β)) (k : List Char) (v : β) :
    (dictSet d k v).lookup k = some v := by
  unfold dictSet
  split
  · rename_i h
    induction d with
    | nil => simp at h
    | cons p r ih =>
      obtain ⟨pk, pv⟩ := p
      by_cases hk : pk = k
      · subst hk; simp [List.lookup]
      · have hr : r.any (fun p => decide (p.1 = k)) = true := by
          simp only [List.any_cons, Bool.or_eq_true, decide_eq_true_eq] at h
          rcases h with h | h
          · exact absurd h hk
          · exact h
        have hne : (k == pk) = false := by
          simp only [beq_eq_false_iff_ne, ne_eq]; exact fun h => hk h.symm
        simp only [List.map_cons, hk, ↓reduceIte, List.lookup, hne]
        exact ih hr
  · rename_i h
    induction d with
    | nil => simp [List.lookup]
    | cons p r ih =>
      obtain ⟨pk, pv⟩ := p
      have hk : pk ≠ k := by
        intro hk; apply h; simp [hk]
      have hne : (k == pk) = false := by
        simp only [beq_eq_false_iff_ne, ne_eq]; exact fun h => hk h.symm
      have hr : ¬ r.any (fun p => decide (p.1 = k)) = true := by
        intro hr; apply h; simp only [List.any_cons, Bool.or_eq_true]; exact Or.inr hr
      simp only [List.cons_append, List.lookup, hne]
      exact ih hr

theorem lookup_map_other {β} (d : List (List Char × β)) (k k' : List Char) (v : β) (hne : k' ≠ k) :
    (d.map (fun p => if p.1 = k then (k, v) else p)).lookup k' = d.lookup k' := by
  induction d with
  | nil => simp
  | cons p r ih =>
    obtain ⟨pk, pv⟩ := p
    by_cases hk : pk = k
    · subst hk
      have : (k' == pk) = false := by simpa using hne
      simp only [List.map_cons, ↓reduceIte, List.lookup, this]
      exact ih
    · simp only [List.map_cons, hk, ↓reduceIte, List.lookup]
      cases hb : (k' == pk) with
      | true => rfl
      | false => exact ih

theorem lookup_append_other {β} (d : List (List Char × β)) (k k' : List Char) (v : β) (hne : k' ≠ k) :
    (d ++ [(k, v)]).lookup k' = d.lookup k' := by
  induction d with
  | nil =>
    have : (k' == k) = false := by simpa using hne
    simp [List.lookup, this]
  | cons p r ih =>
    obtain ⟨pk, pv⟩ := p
    simp only [List.cons_append, List.lookup]
    cases hb : (k' == pk) with
    | true => rfl
    | false => exact ih

theorem lookup_dictSet_other {β} (d : List (List Char × β)) (k k' : List Char) (v : β) (hne : k' ≠ k) :
    (dictSet d k v).lookup k' = d.lookup k' := by
  unfold dictSet
  split
  · exact lookup_map_other d k k' v hne
  · exact lookup_append_other d k k' v hne

theorem lookup_append_fresh {β} (d : List (List Char × β)) (k : List Char) (v : β) (h : d.lookup k = none) :
    (d ++ [(k, v)]).lookup k = some v := by
  induction d with
  | nil => simp [List.lookup]
  | cons p r ih =>
    obtain ⟨pk, pv⟩ := p
    simp only [List.lookup] at h
    cases hb : (k == pk) with
    | true => simp [hb] at h
    | false =>
      simp only [hb] at h
      simp only [List.cons_append, List.lookup, hb]
      exact ih h

/-- storing under one name leaves every other name alone -/
theorem storeElement_other (res : Dict) (name k : List Char) (v : XVal) (hne : k ≠ name) :
    (storeElement res name v).lookup k = res.lookup k := by
  unfold storeElement
  split
  · exact lookup_dictSet_other _ _ _ _ hne
  · exact lookup_dictSet_other _ _ _ _ hne
  · exact lookup_append_other _ _ _ _ hne

/-- `_store_element` for every value of a repeated element, in document order -/
def storeAll (res : Dict) (name : List Char) (vs : List XVal) : Dict :=
  vs.foldl (fun r v => storeElement r name v) res

def XVal.isList : XVal → Bool
  | .list _ => true
  | _ => false

theorem storeAll_list (name : List Char) : ∀ (vs : List XVal) (res : Dict) (l : List XVal),
    res.lookup name = some (.list l) → (storeAll res name vs).lookup name = some (.list (l ++ vs)) := by
  intro vs
  induction vs with
  | nil => intro res l h; simpa [storeAll] using h
  | cons v r ih =>
    intro res l h
    have h1 : (storeElement res name v).lookup name = some (.list (l ++ [v])) := by
      unfold storeElement; rw [h]; exact lookup_dictSet_self _ _ _
    have := ih (storeElement res name v) (l ++ [v]) h1
    simpa [storeAll, List.append_assoc] using this

theorem storeAll_other (name k : List Char) (hk : k ≠ name) : ∀ (vs : List XVal) (res : Dict),
    (storeAll res name vs).lookup k = res.lookup k := by
  intro vs
  induction vs with
  | nil => intro res; rfl
  | cons v r ih =>
    intro res
    simp only [storeAll, List.foldl] at ih ⊢
    rw [ih]
    exact storeElement_other _ _ _ _ hk

theorem storeElement_fresh (res : Dict) (name : List Char) (v : XVal) (h : res.lookup name = none) :
    (storeElement res name v).lookup name = some v := by
  unfold storeElement
  rw [h]
  exact lookup_append_fresh _ _ _ h

theorem storeElement_second (res : Dict) (name : List Char) (old v : XVal) (h : res.lookup name = some old)
    (hold : old.isList = false) : (storeElement res name v).lookup name = some (.list [old, v]) := by
  unfold storeElement
  rw [h]
  cases old with
  | list l => simp [XVal.isList] at hold
  | str s => exact lookup_dictSet_self _ _ _
  | dict d => exact lookup_dictSet_self _ _ _

end Kskm.Xml
