/-
  Inversion lemmas for `load_pkcs11_key` / `_fetch_keys` (C04): what must have been true when a
  key was accepted.
-/
import KskmProofs.Lemmas.Hsm
namespace Kskm

/-- what `public_key_to_dnssec_key` returns, when it returns -/
theorem publicKeyToDnssecKey_inv_c04 (pk id : String) (alg : Nat) (ttl flags : Int) (k : Key)
    (h : publicKeyToDnssecKey pk id alg ttl flags = .ok k) :
    k.publicKey = pk ∧ k.keyIdentifier = id ∧ k.algorithm = alg ∧ k.ttl = ttl ∧ k.flags = flags ∧
    k.protocol = 3 ∧ ∃ r, keyToRdata k = .ok r ∧ k.keyTag = (keyTagOfRdata r : Nat) := by
  unfold publicKeyToDnssecKey at h
  simp only [bind, Except.bind] at h
  split at h
  · simp at h
  · split at h
    · simp at h
    · rename_i tag htag
      simp only [pure, Except.pure, Except.ok.injEq] at h
      subst h
      unfold calculateKeyTag at htag
      simp only [bind, Except.bind] at htag
      split at htag
      · simp at htag
      · rename_i r hr
        simp only [pure, Except.pure, Except.ok.injEq] at htag
        refine ⟨rfl, rfl, rfl, rfl, rfl, rfl, r, ?_, ?_⟩
        · simpa [keyToRdata] using hr
        · simp [← htag]

/-- the configured RSA parameters, as `load_pkcs11_key` compares them -/
def RsaParamsMatch (ksk : KskKey) (pk : String) : Prop :=
  isAlgorithmRsa ksk.algorithm = true ∧ ∃ pub, rsaDecode pk ksk.algorithm = .ok pub ∧
    some (pub.bits : Int) = ksk.rsaSize ∧ some (pub.exponent : Int) = ksk.rsaExponent

/-- the family / RSA parameter comparison of `load_pkcs11_key` -/
def familyCheck (ksk : KskKey) (kt : KeyType) (pk : String) : Res Unit :=
  match kt with
  | .rsa =>
    if !isAlgorithmRsa ksk.algorithm then err .value
    else do
      let pub ← rsaDecode pk ksk.algorithm
      if some (pub.bits : Int) != ksk.rsaSize then err .value
      else if some (pub.exponent : Int) != ksk.rsaExponent then err .value
      else pure ()
  | .ec =>
    if !isAlgorithmEcdsa ksk.algorithm && !isAlgorithmEddsa ksk.algorithm then err .value
    else pure ()
  | _ => pure ()

theorem acceptKey_eq (ksk : KskKey) (pol : KskPolicy) (found : P11Key) :
    acceptKey ksk pol found =
      (match found.publicKey with
      | none => pure none
      | some pk =>
        if pk.isEmpty then pure none else do
        familyCheck ksk found.keyType pk
        match found.keyType with
        | .aes => pure none
        | .des3 => pure none
        | _ => do
          let key ← publicKeyToDnssecKey pk ksk.label ksk.algorithm pol.ttl 257
          pure (some { p11 := found, dns := key })) := by
  unfold acceptKey familyCheck
  cases found.publicKey with
  | none => rfl
  | some pk =>
    simp only
    split
    · rfl
    · cases found.keyType
      · simp only
        split
        · rfl
        · cases rsaDecode pk ksk.algorithm with
          | error e => rfl
          | ok pub =>
            simp only [bind, Except.bind]
            split
            · rfl
            · split <;> rfl
      · simp only
        split <;> rfl
      · rfl
      · rfl

theorem familyCheck_rsa_iff (ksk : KskKey) (pk : String) :
    familyCheck ksk .rsa pk = .ok () ↔ RsaParamsMatch ksk pk := by
  unfold familyCheck RsaParamsMatch
  cases hr : isAlgorithmRsa ksk.algorithm
  · simp [err]
  · cases hdec : rsaDecode pk ksk.algorithm with
    | error e => simp [bind, Except.bind]
    | ok pub =>
      by_cases h1 : some (pub.bits : Int) = ksk.rsaSize
      · by_cases h2 : some (pub.exponent : Int) = ksk.rsaExponent
        · simp [bind, Except.bind, h1, h2, pure, Except.pure]
        · simp [bind, Except.bind, h1, h2, err]
      · simp [bind, Except.bind, h1, err]

theorem familyCheck_ec_iff (ksk : KskKey) (pk : String) :
    familyCheck ksk .ec pk = .ok () ↔
      (isAlgorithmEcdsa ksk.algorithm = true ∨ isAlgorithmEddsa ksk.algorithm = true) := by
  unfold familyCheck
  cases isAlgorithmEcdsa ksk.algorithm <;> cases isAlgorithmEddsa ksk.algorithm <;>
    simp [err, pure, Except.pure]

/-- **the pure acceptance test accepts exactly when** the public part is readable and non-empty,
    the key type is asymmetric, the family matches, RSA size and exponent are the configured ones,
    and the DNSKEY record can be built from the text -/
theorem acceptKey_some_iff (ksk : KskKey) (pol : KskPolicy) (found : P11Key) (ck : CompositeKey) :
    acceptKey ksk pol found = .ok (some ck) ↔
      ∃ pk, found.publicKey = some pk ∧ pk.isEmpty = false ∧ ck.p11 = found ∧
        publicKeyToDnssecKey pk ksk.label ksk.algorithm pol.ttl 257 = .ok ck.dns ∧
        ((found.keyType = .rsa ∧ RsaParamsMatch ksk pk) ∨
         (found.keyType = .ec ∧ (isAlgorithmEcdsa ksk.algorithm = true ∨ isAlgorithmEddsa ksk.algorithm = true))) := by
  rw [acceptKey_eq]
  cases hpk : found.publicKey with
  | none => simp [pure, Except.pure]
  | some pk =>
    simp only [Option.some.injEq, exists_eq_left']
    cases he : pk.isEmpty
    case true => simp [pure, Except.pure]
    simp only [Bool.false_eq_true, ↓reduceIte, true_and]
    have build : ∀ (kt : KeyType), kt = found.keyType → kt ≠ .aes → kt ≠ .des3 →
        ((do let key ← publicKeyToDnssecKey pk ksk.label ksk.algorithm pol.ttl 257
             pure (some { p11 := found, dns := key }) : Res (Option CompositeKey)) = .ok (some ck) ↔
          ck.p11 = found ∧ publicKeyToDnssecKey pk ksk.label ksk.algorithm pol.ttl 257 = .ok ck.dns) := by
      intro kt _ _ _
      cases hd : publicKeyToDnssecKey pk ksk.label ksk.algorithm pol.ttl 257 with
      | error e => simp [bind, Except.bind]
      | ok k =>
        simp only [bind, Except.bind, pure, Except.pure, Except.ok.injEq, Option.some.injEq]
        constructor
        · rintro rfl; exact ⟨rfl, rfl⟩
        · rintro ⟨h1, h2⟩; cases ck; simp_all
    cases hkt : found.keyType with
    | aes => simp [familyCheck, bind, Except.bind, pure, Except.pure]
    | des3 => simp [familyCheck, bind, Except.bind, pure, Except.pure]
    | ec =>
      simp only [reduceCtorEq, false_and, false_or, true_and]
      cases hc : familyCheck ksk .ec pk with
      | error e =>
        have := mt (familyCheck_ec_iff ksk pk).mpr (by rw [hc]; simp)
        simp [bind, Except.bind, this]
      | ok u =>
        have := (familyCheck_ec_iff ksk pk).mp (by rw [hc])
        simp only [bind, Except.bind, this, and_true]
        exact build .ec hkt.symm (by simp) (by simp)
    | rsa =>
      simp only [reduceCtorEq, false_and, or_false, true_and]
      cases hc : familyCheck ksk .rsa pk with
      | error e =>
        have := mt (familyCheck_rsa_iff ksk pk).mpr (by rw [hc]; simp)
        simp [bind, Except.bind, this]
      | ok u =>
        have := (familyCheck_rsa_iff ksk pk).mp (by rw [hc])
        simp only [bind, Except.bind, this, and_true]
        exact build .rsa hkt.symm (by simp) (by simp)

/-- the second lookup changes nothing but the public key text -/
theorem refetchPublic_ok (mods : List P11Module) (ksk : KskKey) (isPublic : Bool) (f0 f : P11Key)
    (tok : Token) (s s' : TokState) (h : refetchPublic mods ksk isPublic f0 tok s = (.ok f, s')) :
    (f = f0 ∧ (f0.publicKey.isSome ∨ isPublic = true ∨
        getP11Key ksk.label true ksk.hashUsingHsm mods tok s = (.ok none, s'))) ∨
    (f0.publicKey = none ∧ isPublic = false ∧
      ∃ fp, getP11Key ksk.label true ksk.hashUsingHsm mods tok s = (.ok (some fp), s') ∧
        f = { f0 with publicKey := fp.publicKey }) := by
  unfold refetchPublic at h
  split at h
  · rename_i hc
    simp only [Bool.and_eq_true, Option.isNone_iff_eq_none, Bool.not_eq_true'] at hc
    obtain ⟨o, s1, hg, h⟩ := TokM.bind_ok _ _ _ _ _ _ h
    cases o with
    | none =>
      simp only [TokM.pure_run, Prod.mk.injEq, Except.ok.injEq] at h
      obtain ⟨rfl, rfl⟩ := h
      left; exact ⟨rfl, Or.inr (Or.inr hg)⟩
    | some fp =>
      simp only [TokM.pure_run, Prod.mk.injEq, Except.ok.injEq] at h
      obtain ⟨rfl, rfl⟩ := h
      right; exact ⟨hc.1, hc.2, fp, hg, rfl⟩
  · rename_i hc
    simp only [TokM.pure_run, Prod.mk.injEq, Except.ok.injEq] at h
    obtain ⟨rfl, rfl⟩ := h
    left
    refine ⟨rfl, ?_⟩
    simp only [Bool.and_eq_true, Option.isNone_iff_eq_none, Bool.not_eq_true', not_and,
      Bool.not_eq_false] at hc
    cases hp : f0.publicKey with
    | none => right; left; exact hc hp
    | some x => left; rfl

/-- **inversion of `load_pkcs11_key`**: a key came back only if the window holds, the first lookup
    found `f0`, the (possibly re-fetched) record `f` passed the pure acceptance test -/
theorem loadPkcs11Key_some (mods : List P11Module) (ksk : KskKey) (pol : KskPolicy) (b : Bundle)
    (isPublic : Bool) (tok : Token) (s s' : TokState) (ck : CompositeKey)
    (h : loadPkcs11Key mods ksk pol b isPublic tok s = (.ok (some ck), s')) :
    ¬ WindowViolated ksk b ∧ ∃ f0 s1 f,
      getP11Key ksk.label isPublic ksk.hashUsingHsm mods tok s = (.ok (some f0), s1) ∧
      refetchPublic mods ksk isPublic f0 tok s1 = (.ok f, s') ∧
      acceptKey ksk pol f = .ok (some ck) := by
  by_cases hw : WindowViolated ksk b
  · rw [loadPkcs11Key_violated _ _ _ _ _ _ _ hw] at h; simp at h
  · refine ⟨hw, ?_⟩
    rw [loadPkcs11Key_inside _ _ _ _ _ _ _ hw] at h
    unfold loadAfterWindow at h
    cases hg : getP11Key ksk.label isPublic ksk.hashUsingHsm mods tok s with
    | mk r s1 =>
      rw [hg] at h
      cases r with
      | error e => simp at h
      | ok o =>
        cases o with
        | none => simp at h
        | some f0 =>
          simp only at h
          cases hr : refetchPublic mods ksk isPublic f0 tok s1 with
          | mk r2 s2 =>
            rw [hr] at h
            cases r2 with
            | error e => simp at h
            | ok f =>
              simp only [Prod.mk.injEq] at h
              obtain ⟨h1, rfl⟩ := h
              exact ⟨f0, s1, f, rfl, hr, h1⟩

/-- **inversion of `load_pkcs11_key`, "not loaded"** (`None`): inside the window, and either the
    label is on no token, or the record found (after the second lookup) was not accepted for lack
    of a usable public part / for being a symmetric key -/
theorem loadPkcs11Key_none (mods : List P11Module) (ksk : KskKey) (pol : KskPolicy) (b : Bundle)
    (isPublic : Bool) (tok : Token) (s s' : TokState)
    (h : loadPkcs11Key mods ksk pol b isPublic tok s = (.ok none, s')) :
    ¬ WindowViolated ksk b ∧
    (getP11Key ksk.label isPublic ksk.hashUsingHsm mods tok s = (.ok none, s') ∨
     ∃ f0 s1 f, getP11Key ksk.label isPublic ksk.hashUsingHsm mods tok s = (.ok (some f0), s1) ∧
      refetchPublic mods ksk isPublic f0 tok s1 = (.ok f, s') ∧ acceptKey ksk pol f = .ok none) := by
  by_cases hw : WindowViolated ksk b
  · rw [loadPkcs11Key_violated _ _ _ _ _ _ _ hw] at h; simp at h
  · refine ⟨hw, ?_⟩
    rw [loadPkcs11Key_inside _ _ _ _ _ _ _ hw] at h
    unfold loadAfterWindow at h
    cases hg : getP11Key ksk.label isPublic ksk.hashUsingHsm mods tok s with
    | mk r s1 =>
      rw [hg] at h
      cases r with
      | error e => simp at h
      | ok o =>
        cases o with
        | none =>
          simp only [Prod.mk.injEq, true_and] at h
          left; rw [h]
        | some f0 =>
          right
          simp only at h
          cases hr : refetchPublic mods ksk isPublic f0 tok s1 with
          | mk r2 s2 =>
            rw [hr] at h
            cases r2 with
            | error e => simp at h
            | ok f =>
              simp only [Prod.mk.injEq] at h
              obtain ⟨h1, rfl⟩ := h
              exact ⟨f0, s1, f, rfl, hr, h1⟩

/-- `validate_dnskey_matches_ksk` accepts exactly when the configured DS digest (if any, non-empty)
    equals, case-insensitively, SHA-256 over owner ‖ RDATA, and the configured key tag (if any)
    equals the key's tag -/
theorem validateDnskeyMatchesKsk_ok (ext : Externals) (ksk : KskKey) (k : Key)
    (h : validateDnskeyMatchesKsk ext ksk k = .ok ()) :
    (∀ t, ksk.keyTag = some t → k.keyTag = t) ∧
    (∀ ds, ksk.dsSha256 = some ds → ds.isEmpty = false →
      ∃ inp digest, dsInput k = .ok inp ∧ ext.hash .sha256 inp = some digest ∧
        ds.toUpper = upperHex digest) := by
  have htag : (match ksk.keyTag with
      | none => pure ()
      | some t => if (k.keyTag != t) = true then err .runtime else pure () : Res Unit) = .ok () →
      ∀ t, ksk.keyTag = some t → k.keyTag = t := by
    intro h t ht
    rw [ht] at h
    simp only at h
    by_cases hne : (k.keyTag != t) = true
    · simp [hne, err] at h
    · simpa using hne
  unfold validateDnskeyMatchesKsk at h
  simp only at h
  cases hd : ksk.dsSha256 with
  | none =>
    rw [hd] at h
    exact ⟨htag h, by intro ds hds; simp at hds⟩
  | some ds =>
    rw [hd] at h
    simp only at h
    cases hemp : ds.isEmpty
    case true =>
      simp only [hemp, ↓reduceIte] at h
      refine ⟨htag h, ?_⟩
      intro ds' hds' he'
      simp only [Option.some.injEq] at hds'
      subst hds'
      rw [hemp] at he'; simp at he'
    simp only [hemp, Bool.false_eq_true, ↓reduceIte, bind, Except.bind] at h
    cases hin : dsInput k with
    | error e => simp [hin] at h
    | ok inp =>
      simp only [hin] at h
      cases hh : ext.hash .sha256 inp with
      | none => simp [hashOrUnknown, hh, unsupported] at h
      | some digest =>
        simp only [hashOrUnknown, hh, pure, Except.pure] at h
        by_cases hne : (ds.toUpper != upperHex digest) = true
        · simp [hne, err] at h
        · simp only [hne, Bool.false_eq_true, ↓reduceIte] at h
          refine ⟨htag h, ?_⟩
          intro ds' hds' _
          simp only [Option.some.injEq] at hds'
          subst hds'
          exact ⟨inp, digest, rfl, hh, by simpa using hne⟩


/-- the DS half of `validate_dnskey_matches_ksk` -/
def dsCheck (ext : Externals) (ksk : KskKey) (k : Key) : Res Unit :=
  match ksk.dsSha256 with
  | none => pure ()
  | some ds =>
    if ds.isEmpty then pure () else do
    let inp ← dsInput k
    let digest ← hashOrUnknown ext.hash .sha256 inp
    if ds.toUpper != upperHex digest then err .runtime else pure ()

/-- the key-tag half -/
def tagCheck (ksk : KskKey) (k : Key) : Res Unit :=
  match ksk.keyTag with
  | none => pure ()
  | some t => if k.keyTag != t then err .runtime else pure ()

theorem validateDnskeyMatchesKsk_eq (ext : Externals) (ksk : KskKey) (k : Key) :
    validateDnskeyMatchesKsk ext ksk k = (do dsCheck ext ksk k; tagCheck ksk k) := by
  unfold validateDnskeyMatchesKsk dsCheck tagCheck
  cases ksk.dsSha256 with
  | none => rfl
  | some ds =>
    simp only
    split
    · rfl
    · cases dsInput k with
      | error e => rfl
      | ok inp =>
        cases hh : hashOrUnknown ext.hash .sha256 inp with
        | error e => simp [bind, Except.bind, hh]
        | ok digest =>
          simp only [bind, Except.bind, hh]
          split <;> rfl

theorem tagCheck_ok_iff (ksk : KskKey) (k : Key) :
    tagCheck ksk k = .ok () ↔ ∀ t, ksk.keyTag = some t → k.keyTag = t := by
  unfold tagCheck
  cases ksk.keyTag with
  | none => simp [pure, Except.pure]
  | some t =>
    by_cases hne : k.keyTag = t
    · simp [hne, pure, Except.pure]
    · simp [hne, err]

theorem dsCheck_ok_iff (ext : Externals) (ksk : KskKey) (k : Key) :
    dsCheck ext ksk k = .ok () ↔
      ∀ ds, ksk.dsSha256 = some ds → ds.isEmpty = false →
        ∃ inp digest, dsInput k = .ok inp ∧ ext.hash .sha256 inp = some digest ∧
          ds.toUpper = upperHex digest := by
  unfold dsCheck
  cases ksk.dsSha256 with
  | none => simp [pure, Except.pure]
  | some ds =>
    simp only [Option.some.injEq, forall_eq']
    cases hemp : ds.isEmpty
    case true => simp [pure, Except.pure]
    simp only [Bool.false_eq_true, ↓reduceIte, bind, Except.bind, forall_const]
    cases hin : dsInput k with
    | error e => simp
    | ok inp =>
      simp only [Except.ok.injEq]
      cases hh : ext.hash .sha256 inp with
      | none => simp [hashOrUnknown, hh, unsupported]
      | some digest =>
        simp only [hashOrUnknown, hh, pure, Except.pure]
        by_cases hne : ds.toUpper = upperHex digest
        · simp [hne]
          exact ⟨digest, hh, rfl⟩
        · simp [hne, err]
          intro x hx; rw [hh] at hx; cases hx; exact hne

/-- **`validate_dnskey_matches_ksk` accepts exactly when** the configured key tag (if any) equals
    the key's tag and the configured DS digest (if any, non-empty) equals, case-insensitively,
    SHA-256 over owner ‖ RDATA -/
theorem validateDnskeyMatchesKsk_ok_iff (ext : Externals) (ksk : KskKey) (k : Key) :
    validateDnskeyMatchesKsk ext ksk k = .ok () ↔
    (∀ t, ksk.keyTag = some t → k.keyTag = t) ∧
    (∀ ds, ksk.dsSha256 = some ds → ds.isEmpty = false →
      ∃ inp digest, dsInput k = .ok inp ∧ ext.hash .sha256 inp = some digest ∧
        ds.toUpper = upperHex digest) := by
  rw [validateDnskeyMatchesKsk_eq, seq_ok_iff, tagCheck_ok_iff, dsCheck_ok_iff]
  exact And.comm


end Kskm
