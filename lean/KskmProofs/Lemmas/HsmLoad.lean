/-
  Inversion lemmas for `load_pkcs11_key` / `_fetch_keys` (C04): what must have been true when a
  key was accepted.
-/
import KskmProofs.Lemmas.Hsm
namespace Kskm

/-- what `public_key_to_dnssec_key` returns, when it returns -/
theorem publicKeyToDnssecKey_ok (pk id : String) (alg : Nat) (ttl flags : Int) (k : Key)
    (h : publicKeyToDnssecKey pk id alg ttl flags = .ok k) :
    k.publicKey = pk ∧ k.keyIdentifier = id ∧ k.algorithm = alg ∧ k.ttl = ttl ∧ k.flags = flags ∧
    k.protocol = 3 ∧ ∃ r, keyToRdata k = .ok r ∧ k.keyTag = (keyTagOfRdata r : Nat) := by
  unfold publicKeyToDnssecKey at h
  simp only [bind, Except.bind] at h
  split at h
  · simp at h
  · split at h
    · simp at h
    · rename_i tag htag
      simp only [pure, Except.pure, Except.ok.injEq] at h
      subst h
      unfold calculateKeyTag at htag
      simp only [bind, Except.bind] at htag
      split at htag
      · simp at htag
      · rename_i r hr
        simp only [pure, Except.pure, Except.ok.injEq] at htag
        refine ⟨rfl, rfl, rfl, rfl, rfl, rfl, r, ?_, ?_⟩
        · simpa [keyToRdata] using hr
        · simp [← htag]

/-- the configured RSA parameters, as `load_pkcs11_key` compares them -/
def RsaParamsMatch (ksk : KskKey) (pk : String) : Prop :=
  isAlgorithmRsa ksk.algorithm = true ∧ ∃ pub, rsaDecode pk ksk.algorithm = .ok pub ∧
    some (pub.bits : Int) = ksk.rsaSize ∧ some (pub.exponent : Int) = ksk.rsaExponent

/-- the family / RSA parameter comparison of `load_pkcs11_key` -/
def familyCheck (ksk : KskKey) (kt : KeyType) (pk : String) : Res Unit :=
  match kt with
  | .rsa =>
    if !isAlgorithmRsa ksk.algorithm then err .value
    else do
      let pub ← rsaDecode pk ksk.algorithm
      if some (pub.bits : Int) != ksk.rsaSize then err .value
      else if some (pub.exponent : Int) != ksk.rsaExponent then err .value
      else pure ()
  | .ec =>
    if !isAlgorithmEcdsa ksk.algorithm && !isAlgorithmEddsa ksk.algorithm then err .value
    else pure ()
  | _ => pure ()

theorem acceptKey_eq (ksk : KskKey) (pol : KskPolicy) (found : P11Key) :
    acceptKey ksk pol found =
      (match found.publicKey with
      | none => pure none
      | some pk =>
        if pk.isEmpty then pure none else do
        familyCheck ksk found.keyType pk
        match found.keyType with
        | .aes => pure none
        | .des3 => pure none
        | _ => do
          let key ← publicKeyToDnssecKey pk ksk.label ksk.algorithm pol.ttl 257
          pure (some { p11 := found, dns := key })) := by
  unfold acceptKey familyCheck
  cases found.publicKey with
  | none => rfl
  | some pk =>
    simp only
    split
    · rfl
    · cases found.keyType
      · simp only
        split
        · rfl
        · cases rsaDecode pk ksk.algorithm with
          | error e => rfl
          | ok pub =>
            simp only [bind, Except.bind]
            split
            · rfl
            · split <;> rfl
      · simp only
        split <;> rfl
      · rfl
      · rfl

theorem familyCheck_rsa_iff (ksk : KskKey) (pk : String) :
    familyCheck ksk .rsa pk = .ok () ↔ RsaParamsMatch ksk pk := by
  unfold familyCheck RsaParamsMatch
  cases hr : isAlgorithmRsa ksk.algorithm
  · simp [err]
  · cases hdec : rsaDecode pk ksk.algorithm with
    | error e => simp [bind, Except.bind]
    | ok pub =>
      by_cases h1 : some (pub.bits : Int) = ksk.rsaSize
      · by_cases h2 : some (pub.exponent : Int) = ksk.rsaExponent
        · simp [bind, Except.bind, h1, h2, pure, Except.pure]
        · simp [bind, Except.bind, h1, h2, err]
      · simp [bind, Except.bind, h1, err]

theorem familyCheck_ec_iff (ksk : KskKey) (pk : String) :
    familyCheck ksk .ec pk = .ok () ↔
      (isAlgorithmEcdsa ksk.algorithm = true ∨ isAlgorithmEddsa ksk.algorithm = true) := by
  unfold familyCheck
  cases isAlgorithmEcdsa ksk.algorithm <;> cases isAlgorithmEddsa ksk.algorithm <;>
    simp [err, pure, Except.pure]

/-- **the pure acceptance test accepts exactly when** the public part is readable and non-empty,
    the key type is asymmetric, the family matches, RSA size and exponent are the configured ones,
    and the DNSKEY record can be built from the text -/
theorem acceptKey_some_iff (ksk : KskKey) (pol : KskPolicy) (found : P11Key) (ck : CompositeKey) :
    acceptKey ksk pol found = .ok (some ck) ↔
      ∃ pk, found.publicKey = some pk ∧ pk.isEmpty = false ∧ ck.p11 = found ∧
        publicKeyToDnssecKey pk ksk.label ksk.algorithm pol.ttl 257 = .ok ck.dns ∧
        ((found.keyType = .rsa ∧ RsaParamsMatch ksk pk) ∨
         (found.keyType = .ec ∧ (isAlgorithmEcdsa ksk.algorithm = true ∨ isAlgorithmEddsa ksk.algorithm = true))) := by
  rw [acceptKey_eq]
  cases hpk : found.publicKey with
  | none => simp [pure, Except.pure]
  | some pk =>
    simp only [Option.some.injEq, exists_eq_left']
    cases he : pk.isEmpty
    case true => simp [pure, Except.pure]
    simp only [Bool.false_eq_true, ↓reduceIte, true_and]
    have build : ∀ (kt : KeyType), kt = found.keyType → kt ≠ .aes → kt ≠ .des3 →
        ((do let key ← publicKeyToDnssecKey pk ksk.label ksk.algorithm pol.ttl 257
             pure (some { p11 := found, dns := key }) : Res (Option CompositeKey)) = .ok (some ck) ↔
          ck.p11 = found ∧ publicKeyToDnssecKey pk ksk.label ksk.algorithm pol.ttl 257 = .ok ck.dns) := by
      intro kt _ _ _
      cases hd : publicKeyToDnssecKey pk ksk.label ksk.algorithm pol.ttl 257 with
      | error e => simp [bind, Except.bind]
      | ok k =>
        simp only [bind, Except.bind, pure, Except.pure, Except.ok.injEq, Option.some.injEq]
        constructor
        · rintro rfl; exact ⟨rfl, rfl⟩
        · rintro ⟨h1, h2⟩; cases ck; simp_all
    cases hkt : found.keyType with
    | aes => simp [familyCheck, bind, Except.bind, pure, Except.pure]
    | des3 => simp [familyCheck, bind, Except.bind, pure, Except.pure]
    | ec =>
      simp only [reduceCtorEq, false_and, false_or, true_and]
      cases hc : familyCheck ksk .ec pk with
      | error e =>
        have := mt (familyCheck_ec_iff ksk pk).mpr (by rw [hc]; simp)
        simp [bind, Except.bind, this]
      | ok u =>
        have := (familyCheck_ec_iff ksk pk).mp (by rw [hc])
        simp only [bind, Except.bind, this, and_true]
        exact build .ec hkt.symm (by simp) (by simp)
    | rsa =>
      simp only [reduceCtorEq, false_and, or_false, true_and]
      cases hc : familyCheck ksk .rsa pk with
      | error e =>
        have := mt (familyCheck_rsa_iff ksk pk).mpr (by rw [hc]; simp)
        simp [bind, Except.bind, this]
      | ok u =>
        have := (familyCheck_rsa_iff ksk pk).mp (by rw [hc])
        simp only [bind, Except.bind, this, and_true]
        exact build .rsa hkt.symm (by simp) (by simp)

end Kskm
