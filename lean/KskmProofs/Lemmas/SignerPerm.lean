/-
  Helper lemmas for C02 "order independence": Python iterates `set[Key]`, the signature set and the
  schema lists in some order; nothing observable may depend on it.

  §1  lists with the same elements (`SameElems`: covers permutation AND repetition), lookups by
      public key text / identifier on them, `mapM`
  §2  the pieces of `_sign_keys` / `validate_signatures` that read the key set: invariant under
      permutation of the key set
  §3  on a token whose answers do not depend on the operation index (`IndexFree`, Lemmas/TokRel.lean):
      `_fetch_keys` is `mapM` of a per-name function, the signing loop is a pure fold of a per-key
      function
  §4  the pure signing fold does not depend on the order (nor on repetition) of the signing keys
  §5  which fields of configuration and bundle the steps read; tools for the examples
-/
import KskmProofs.Lemmas.TokRel
import KskmProofs.Lemmas.SignerKeys
import KskmProofs.Lemmas.SignerInv
import KskmProofs.Lemmas.SignerRun
import KskmProofs.C14
namespace Kskm

/-! ## §1 Same elements -/

/-- `l` and `l'` have the same elements (as sets): permutations of each other, or differing only in
    order and in how often an element is repeated -/
def SameElems {α} (l l' : List α) : Prop := ∀ x, x ∈ l ↔ x ∈ l'

theorem SameElems.refl {α} (l : List α) : SameElems l l := fun _ => Iff.rfl
theorem SameElems.symm {α} {l l' : List α} (h : SameElems l l') : SameElems l' l := fun x => (h x).symm
theorem SameElems.trans {α} {a b c : List α} (h1 : SameElems a b) (h2 : SameElems b c) : SameElems a c :=
  fun x => (h1 x).trans (h2 x)
theorem SameElems.of_perm {α} {l l' : List α} (h : l.Perm l') : SameElems l l' := fun _ => h.mem_iff

theorem SameElems.of_subsets {α} {l l' : List α} (h1 : ∀ x ∈ l, x ∈ l') (h2 : ∀ x ∈ l', x ∈ l) :
    SameElems l l' := fun x => ⟨h1 x, h2 x⟩

theorem SameElems.map {α β} {l l' : List α} (h : SameElems l l') (f : α → β) :
    SameElems (l.map f) (l'.map f) := by
  intro y
  simp only [List.mem_map]
  constructor
  · rintro ⟨x, hx, rfl⟩; exact ⟨x, (h x).mp hx, rfl⟩
  · rintro ⟨x, hx, rfl⟩; exact ⟨x, (h x).mpr hx, rfl⟩

theorem SameElems.reverse {α} {l l' : List α} (h : SameElems l l') : SameElems l.reverse l'.reverse := by
  intro x; simp only [List.mem_reverse]; exact h x

theorem SameElems.append {α} {a a' b b' : List α} (h1 : SameElems a a') (h2 : SameElems b b') :
    SameElems (a ++ b) (a' ++ b') := by
  intro x; simp only [List.mem_append, h1 x, h2 x]

theorem SameElems.nil_iff {α} {l : List α} : SameElems l [] ↔ l = [] := by
  constructor
  · intro h
    cases l with
    | nil => rfl
    | cons a r => exact absurd ((h a).mp List.mem_cons_self) (by simp)
  · rintro rfl; exact SameElems.refl _

/-- two duplicate-free lists with the same elements are permutations of each other -/
theorem SameElems.perm_of_nodup {α} {l l' : List α} (h : SameElems l l') (h1 : l.Nodup) (h2 : l'.Nodup) :
    l.Perm l' := (List.perm_ext_iff_of_nodup h1 h2).mpr h

/-- records with one public key text are one record -/
def PkFun (l : List Key) : Prop := ∀ a ∈ l, ∀ b ∈ l, a.publicKey = b.publicKey → a = b

theorem PkFun.of_same {l l' : List Key} (h : SameElems l l') (hf : PkFun l) : PkFun l' :=
  fun a ha b hb e => hf a ((h a).mpr ha) b ((h b).mpr hb) e

/-- **the lookup by public key text does not depend on order or repetition** when a public key text
    names one record -/
theorem lookupPk_same {l l' : List Key} (h : SameElems l l') (hf : PkFun l) (p : String) :
    lookupPk l p = lookupPk l' p := by
  cases h1 : lookupPk l p with
  | none =>
    symm
    rw [lookupPk_eq_none] at h1 ⊢
    exact fun y hy => h1 y ((h y).mpr hy)
  | some k =>
    have hk := lookupPk_some_mem h1
    have hp := lookupPk_some_pk h1
    cases h2 : lookupPk l' p with
    | none => exact absurd hp (lookupPk_eq_none.mp h2 k ((h k).mp hk))
    | some k' =>
      have hk' := (h k').mpr (lookupPk_some_mem h2)
      rw [hf k hk k' hk' (hp.trans (lookupPk_some_pk h2).symm)]

theorem uniquePk_nodup {l : List Key} (h : UniquePk l) : l.Nodup := by
  rw [List.nodup_iff_pairwise_ne]
  exact h.imp (fun hne e => hne (by rw [e]))

/-- `mapM` over lists with the same elements: succeeds on one iff on the other (success side), with
    the same results as a set -/
theorem mapM_same {α β} (f : α → Res β) {l l' : List α} {r : List β} (h : SameElems l l')
    (hr : l.mapM f = .ok r) : ∃ r', l'.mapM f = .ok r' ∧ SameElems r r' := by
  obtain ⟨hm, _, hall⟩ := mapM_ok_mem f l r hr
  have hex : ∀ l'' : List α, (∀ a ∈ l'', ∃ b, f a = .ok b) → ∃ r'', l''.mapM f = .ok r'' := by
    intro l''
    induction l'' with
    | nil => intro _; exact ⟨[], rfl⟩
    | cons a t ih =>
      intro ha
      obtain ⟨b, hb⟩ := ha a List.mem_cons_self
      obtain ⟨r'', hr''⟩ := ih (fun x hx => ha x (List.mem_cons_of_mem _ hx))
      exact ⟨b :: r'', by rw [List.mapM_cons, hb, hr'']; rfl⟩
  obtain ⟨r', hr'⟩ := hex l' (fun a ha => hall a ((h a).mpr ha))
  obtain ⟨hm', _, _⟩ := mapM_ok_mem f l' r' hr'
  refine ⟨r', hr', ?_⟩
  intro b
  rw [hm b, hm' b]
  constructor
  · rintro ⟨a, ha, hb⟩; exact ⟨a, (h a).mp ha, hb⟩
  · rintro ⟨a, ha, hb⟩; exact ⟨a, (h a).mpr ha, hb⟩

/-- `mapM` of a permutation is a permutation of the results -/
theorem mapM_perm {α β} (f : α → Res β) {l l' : List α} (h : l.Perm l') :
    ∀ {r : List β}, l.mapM f = .ok r → ∃ r', l'.mapM f = .ok r' ∧ r.Perm r' := by
  induction h with
  | nil => intro r hr; exact ⟨r, hr, List.Perm.refl _⟩
  | cons a _ ih =>
    intro r hr
    rw [List.mapM_cons] at hr
    cases hfa : f a with
    | error e => simp [hfa, bind, Except.bind] at hr
    | ok b =>
      rename_i l₁ l₂ _
      cases hl : l₁.mapM f with
      | error e => simp [hfa, hl, bind, Except.bind] at hr
      | ok r0 =>
        simp only [hfa, hl, bind, Except.bind, pure, Except.pure, Except.ok.injEq] at hr
        subst hr
        obtain ⟨r', hr', hp⟩ := ih hl
        exact ⟨b :: r', by rw [List.mapM_cons, hfa, hr']; rfl, hp.cons b⟩
  | swap a b l =>
    intro r hr
    rw [List.mapM_cons, List.mapM_cons] at hr
    cases hfb : f b with
    | error e => simp [hfb, bind, Except.bind] at hr
    | ok b' =>
      cases hfa : f a with
      | error e => simp [hfb, hfa, bind, Except.bind] at hr
      | ok a' =>
        cases hl : l.mapM f with
        | error e => simp [hfb, hfa, hl, bind, Except.bind] at hr
        | ok r0 =>
          simp only [hfb, hfa, hl, bind, Except.bind, pure, Except.pure, Except.ok.injEq] at hr
          subst hr
          exact ⟨a' :: b' :: r0, by rw [List.mapM_cons, List.mapM_cons, hfa, hfb, hl]; rfl,
            List.Perm.swap a' b' r0⟩
  | trans _ _ ih1 ih2 =>
    intro r hr
    obtain ⟨r1, h1, p1⟩ := ih1 hr
    obtain ⟨r2, h2, p2⟩ := ih2 h1
    exact ⟨r2, h2, p1.trans p2⟩

/-! ## §2 Readers of the key set -/

theorem noDupIds_iff (keys : List Key) :
    hasDupIds keys = false ↔ keys.Pairwise (fun a b => a.keyIdentifier ≠ b.keyIdentifier) := by
  induction keys with
  | nil => simp [hasDupIds]
  | cons a r ih =>
    rw [hasDupIds_cons, List.pairwise_cons, ih]
    constructor
    · rintro ⟨h1, h2⟩; exact ⟨fun x hx e => h1 x hx e.symm, h2⟩
    · rintro ⟨h1, h2⟩; exact ⟨fun x hx e => h1 x hx e.symm, h2⟩

theorem hasDupIds_perm {keys keys' : List Key} (h : keys.Perm keys') : hasDupIds keys = hasDupIds keys' := by
  have : hasDupIds keys = false ↔ hasDupIds keys' = false := by
    rw [noDupIds_iff, noDupIds_iff]
    exact h.pairwise_iff (fun hne e => hne e.symm)
  cases h1 : hasDupIds keys <;> cases h2 : hasDupIds keys' <;> simp_all

theorem ktsGet_perm {keys keys' : List Key} (h : keys.Perm keys') (id : String) :
    ktsGet keys id = ktsGet keys' id := by
  have hf := h.filter (fun k => decide (k.keyIdentifier = id))
  unfold ktsGet
  generalize keys.filter (fun k => decide (k.keyIdentifier = id)) = a at hf
  generalize keys'.filter (fun k => decide (k.keyIdentifier = id)) = b at hf
  match a, b, hf with
  | [], b, hf => rw [hf.symm.eq_nil]
  | [k], b, hf => rw [List.singleton_perm.mp hf]
  | k1 :: k2 :: r, [], hf => exact absurd hf.eq_nil (by simp)
  | k1 :: k2 :: r, [x], hf => exact absurd (List.perm_singleton.mp hf) (by simp)
  | k1 :: k2 :: r, x1 :: x2 :: r', _ => rfl

theorem lookupKey_perm {keys keys' : List Key} (h : keys.Perm keys') (hnd : hasDupIds keys = false)
    (id : String) : lookupKey keys id = lookupKey keys' id := by
  have hnd' : hasDupIds keys' = false := by rw [← hasDupIds_perm h]; exact hnd
  cases h1 : lookupKey keys id with
  | none =>
    symm
    unfold lookupKey at h1 ⊢
    rw [List.find?_eq_none] at h1 ⊢
    exact fun x hx => h1 x (h.mem_iff.mpr hx)
  | some k =>
    have hk : k ∈ keys := List.mem_of_find?_eq_some h1
    have hid : k.keyIdentifier = id := by simpa using List.find?_some h1
    rw [← hid]
    exact (lookupKey_of_noDup hnd' (h.mem_iff.mp hk)).symm

/-- the to-be-signed octets do not depend on the order of the key set -/
theorem makeRawRrsig_perm {keys keys' : List Key} (h : keys.Perm keys') (sig : Signature) {raw : Bytes}
    (hr : makeRawRrsig sig keys = .ok raw) : makeRawRrsig sig keys' = .ok raw := by
  obtain ⟨rdatas, hrd, hroot, h1, h2, h3, h4, h5, h6, h7, hlen, rfl⟩ := makeRawRrsig_ok hr
  obtain ⟨rdatas', hrd', hp⟩ := mapM_perm keyToRdata h hrd
  rw [makeRawRrsig_of h1 h2 h3 h4 h5 h6 h7 hroot hrd' (fun r hr => hlen r (hp.mem_iff.mpr hr))]
  exact congrArg _ (C14.rawRrsig_perm _ _ _ _ _ _ _ _ _ hp.symm)

/-- `_sign_keys` run forward from the facts `signKeys_ok` extracts -/
theorem signKeys_of {ext : Externals} {bundle : Bundle} {keys : List Key} {sk : CompositeKey}
    {pol : KskPolicy} {t : Token} {s s' : TokState} {dnsKey : Key} {labels : Int} {raw sigBytes : Bytes}
    {pk : String}
    (httl : ∀ k ∈ keys, k.ttl = pol.ttl)
    (hget : ktsGet keys sk.dns.keyIdentifier = .ok (some dnsKey))
    (hl : dndepth pol.signersName = .ok labels)
    (hraw : makeRawRrsig (sigTemplate bundle sk pol labels dnsKey.keyTag) keys = .ok raw)
    (hsign : signUsingP11 ext.hash sk.p11 raw sk.dns.algorithm t s = (.ok sigBytes, s'))
    (hpk : sk.p11.publicKey = some pk)
    (hu : publicKeyFromKey { sk.dns with publicKey := pk } = .ok ())
    (hv : ext.verify sk.dns.algorithm pk raw sigBytes = .valid) :
    signKeys ext bundle keys sk pol t s =
      (.ok { sigTemplate bundle sk pol labels dnsKey.keyTag with signatureData := Base64.encode sigBytes }, s') := by
  have hany : (keys.any fun k => k.ttl != pol.ttl) = false := by
    rw [Bool.eq_false_iff]
    intro h
    simp only [List.any_eq_true, bne_iff_ne, ne_eq] at h
    obtain ⟨k, hk, hne⟩ := h
    exact hne (httl k hk)
  unfold signKeys
  simp only [hany, Bool.false_eq_true, ↓reduceIte, TokM.bind_eq, TokM.lift_run, hget, hl]
  unfold sigTemplate at hraw
  simp only [hraw, hsign, hpk, hu, hv]
  rfl

/-- **`_sign_keys` does not depend on the order of the key set** (success side: same signature,
    same token operation) -/
theorem signKeys_perm {ext : Externals} {bundle : Bundle} {keys keys' : List Key} {sk : CompositeKey}
    {pol : KskPolicy} {t : Token} {s s' : TokState} {σ : Signature} (hp : keys.Perm keys')
    (h : signKeys ext bundle keys sk pol t s = (.ok σ, s')) :
    signKeys ext bundle keys' sk pol t s = (.ok σ, s') := by
  obtain ⟨httl, dnsKey, labels, raw, sigBytes, pk, hget, hl, hraw, hsign, hpk, hu, hv, rfl⟩ := signKeys_ok h
  exact signKeys_of (fun k hk => httl k (hp.mem_iff.mpr hk)) (by rw [← ktsGet_perm hp]; exact hget) hl
    (makeRawRrsig_perm hp _ hraw) hsign hpk hu hv

/-- what `validate_signatures` checks of one signature, as a function -/
def sigCheck (verify : Verifier) (keys : List Key) (sig : Signature) : Res Unit :=
  match lookupKey keys sig.keyIdentifier with
  | none => err .value
  | some key => do
    publicKeyFromKey key
    match Base64.decode sig.signatureData with
    | none => unsupported
    | some sigBytes =>
      let raw ← makeRawRrsig sig keys
      match verify key.algorithm key.publicKey raw sigBytes with
      | .valid => pure ()
      | .invalid => err .invalidSignature
      | .error k => err k
      | .unknown => unsupported

theorem validateSignatures_ok_iff_sigCheck (verify : Verifier) (b : Bundle) :
    validateSignatures verify b = .ok () ↔
      b.keys ≠ [] ∧ b.signatures ≠ [] ∧ hasDupIds b.keys = false ∧
      ∀ σ ∈ b.signatures, sigCheck verify b.keys σ = .ok () := by
  unfold validateSignatures
  cases hk : b.keys with
  | nil => simp [err, bind, Except.bind]
  | cons k kr =>
    cases hs : b.signatures with
    | nil => simp [err, bind, Except.bind]
    | cons σ0 sr =>
      cases hd : hasDupIds (k :: kr) with
      | true => simp [err, bind, Except.bind]
      | false =>
        simp only [List.isEmpty_cons, Bool.false_eq_true, ↓reduceIte, bind, Except.bind, pure,
          Except.pure, ne_eq, reduceCtorEq, not_false_eq_true, true_and]
        rw [forEach_ok_iff]
        rfl

theorem sigCheck_ok {verify : Verifier} {keys : List Key} {σ : Signature}
    (h : sigCheck verify keys σ = .ok ()) : ReValid verify keys σ := by
  unfold sigCheck at h
  cases hl : lookupKey keys σ.keyIdentifier with
  | none => simp [hl, err] at h
  | some key =>
    simp only [hl, bind, Except.bind] at h
    cases hp : publicKeyFromKey key with
    | error e => simp [hp] at h
    | ok u =>
      simp only [hp] at h
      cases hd : Base64.decode σ.signatureData with
      | none => simp [hd, unsupported] at h
      | some sigBytes =>
        simp only [hd] at h
        cases hr : makeRawRrsig σ keys with
        | error e => simp [hr] at h
        | ok raw =>
          simp only [hr] at h
          cases hv : verify key.algorithm key.publicKey raw sigBytes with
          | valid => exact ⟨key, sigBytes, raw, hl, hp, hd, hr, hv⟩
          | invalid => simp [hv, err] at h
          | error k => simp [hv, err] at h
          | unknown => simp [hv, unsupported] at h

theorem sigCheck_of {verify : Verifier} {keys : List Key} {σ : Signature}
    (h : ReValid verify keys σ) : sigCheck verify keys σ = .ok () := by
  obtain ⟨key, sigBytes, raw, hl, hp, hd, hr, hv⟩ := h
  unfold sigCheck
  simp only [hl, hp, hd, hr, hv, bind, Except.bind, pure, Except.pure]

theorem reValid_perm {verify : Verifier} {keys keys' : List Key} {σ : Signature} (hp : keys.Perm keys')
    (hnd : hasDupIds keys = false) (h : ReValid verify keys σ) : ReValid verify keys' σ := by
  obtain ⟨key, sigBytes, raw, hl, hpk, hd, hr, hv⟩ := h
  exact ⟨key, sigBytes, raw, by rw [← lookupKey_perm hp hnd]; exact hl, hpk, hd,
    makeRawRrsig_perm hp _ hr, hv⟩

/-- **`validate_signatures` accepts a bundle whatever the order of its keys and signatures** (and
    however often a signature is listed) -/
theorem validateSignatures_same (verify : Verifier) (b b' : Bundle) (hk : b.keys.Perm b'.keys)
    (hs : SameElems b.signatures b'.signatures) (h : validateSignatures verify b = .ok ()) :
    validateSignatures verify b' = .ok () := by
  rw [validateSignatures_ok_iff_sigCheck] at h ⊢
  obtain ⟨h1, h2, h3, h4⟩ := h
  refine ⟨?_, ?_, by rw [← hasDupIds_perm hk]; exact h3, ?_⟩
  · intro e; rw [e] at hk; exact h1 hk.eq_nil
  · intro e; rw [e] at hs; exact h2 (SameElems.nil_iff.mp hs)
  · intro σ hσ
    exact sigCheck_of (reValid_perm hk h3 (sigCheck_ok (h4 σ ((hs σ).mpr hσ))))

theorem checkValidSignatures_same (verify : Verifier) (b b' : Bundle) (pol : ResponsePolicy)
    (hk : b.keys.Perm b'.keys) (hs : SameElems b.signatures b'.signatures)
    (h : checkValidSignatures verify b pol = .ok ()) : checkValidSignatures verify b' pol = .ok () := by
  unfold checkValidSignatures at h ⊢
  cases hv : pol.validateSignatures with
  | false => simp [pure, Except.pure]
  | true =>
    simp only [hv, Bool.not_true, Bool.false_eq_true, ↓reduceIte] at h ⊢
    have : validateSignatures verify b = .ok () := by
      split at h
      · simp [violation] at h
      · simp at h
      · assumption
    rw [validateSignatures_same verify b b' hk hs this]
    rfl

/-- the tail of `signBundle` accepts whatever the order of request keys, key set and signatures -/
theorem finishBundle_same {ext : Externals} {cfg cfg' : SignerConfig} {bundle bundle' : Bundle}
    {keys keys' : List Key} {sigs sigs' : List Signature} {rb : Bundle}
    (hrp : cfg'.responsePolicy = cfg.responsePolicy)
    (hid : bundle'.id = bundle.id) (hinc : bundle'.inception = bundle.inception)
    (hexp : bundle'.expiration = bundle.expiration) (hz : SameElems bundle.keys bundle'.keys)
    (hk : keys.Perm keys') (hs : SameElems sigs sigs')
    (h : finishBundle ext cfg bundle keys sigs = .ok rb) :
    finishBundle ext cfg' bundle' keys' sigs' =
      .ok { id := bundle.id, inception := bundle.inception, expiration := bundle.expiration,
            keys := keys', signatures := sigs' } := by
  obtain ⟨hsame, hrb, hcv⟩ := finishBundle_ok h
  have hsame' : sameSet (bundle'.keys.map (·.algorithm)) (sigs'.map (·.algorithm)) = true := by
    rw [sameSet_iff] at hsame ⊢
    intro a
    rw [← (hz.map (·.algorithm)) a, ← (hs.map (·.algorithm)) a]
    exact hsame a
  subst hrb
  have := checkValidSignatures_same ext.verify _
    { id := bundle.id, inception := bundle.inception, expiration := bundle.expiration,
      keys := keys', signatures := sigs' } cfg.responsePolicy hk hs hcv
  simp only [finishBundle, hsame', Bool.not_true, Bool.false_eq_true, ↓reduceIte, hid, hinc, hexp, hrp,
    this]

/-! ## §3 On a token whose answers do not depend on the operation index -/

/-- one name of `_fetch_keys` (a view of the loop body; tied to the model by `fetchKeys_cons_one`) -/
def fetchOne (ext : Externals) (mods : List P11Module) (cfg : SignerConfig) (bundle : Bundle)
    (isPublic : Bool) (name : String) : TokM CompositeKey :=
  match cfg.kskKeys.lookup name with
  | none => TokM.err .key
  | some ksk => do
    match ← loadPkcs11Key mods ksk cfg.kskPolicy bundle isPublic with
    | none => TokM.err .configuration
    | some ck => do
      TokM.lift (validateDnskeyMatchesKsk ext ksk ck.dns)
      pure ck

theorem fetchOne_run (ext : Externals) (mods : List P11Module) (cfg : SignerConfig) (b : Bundle)
    (isPublic : Bool) (name : String) (tok : Token) (s : TokState) :
    fetchOne ext mods cfg b isPublic name tok s =
      match cfg.kskKeys.lookup name with
      | none => (.error (.error .key), s)
      | some ksk =>
        match loadPkcs11Key mods ksk cfg.kskPolicy b isPublic tok s with
        | (.error e, s1) => (.error e, s1)
        | (.ok none, s1) => (.error (.error .configuration), s1)
        | (.ok (some ck), s1) =>
          match validateDnskeyMatchesKsk ext ksk ck.dns with
          | .error e => (.error e, s1)
          | .ok _ => (.ok ck, s1) := by
  unfold fetchOne
  cases cfg.kskKeys.lookup name with
  | none => rfl
  | some ksk =>
    simp only [bind_run]
    cases loadPkcs11Key mods ksk cfg.kskPolicy b isPublic tok s with
    | mk r s1 =>
      cases r with
      | error e => rfl
      | ok o =>
        cases o with
        | none => rfl
        | some ck =>
          simp only [lift_bind_run]
          cases validateDnskeyMatchesKsk ext ksk ck.dns <;> rfl

/-- `_fetch_keys` is the loop over `fetchOne` -/
theorem fetchKeys_cons_one (ext : Externals) (mods : List P11Module) (cfg : SignerConfig) (b : Bundle)
    (isPublic : Bool) (name : String) (rest : List String) (tok : Token) (s : TokState) :
    fetchKeys ext mods cfg b isPublic (name :: rest) tok s =
      match fetchOne ext mods cfg b isPublic name tok s with
      | (.error e, s1) => (.error e, s1)
      | (.ok ck, s1) =>
        match fetchKeys ext mods cfg b isPublic rest tok s1 with
        | (.error e, s2) => (.error e, s2)
        | (.ok more, s2) => (.ok (ck :: more), s2) := by
  rw [fetchKeys_cons_run, fetchOne_run]
  cases cfg.kskKeys.lookup name with
  | none => rfl
  | some ksk =>
    simp only
    cases loadPkcs11Key mods ksk cfg.kskPolicy b isPublic tok s with
    | mk r s1 =>
      cases r with
      | error e => rfl
      | ok o =>
        cases o with
        | none => rfl
        | some ck =>
          simp only
          cases validateDnskeyMatchesKsk ext ksk ck.dns <;> rfl

theorem fetchOne_via (ext : Externals) (mods : List P11Module) (cfg : SignerConfig) (b : Bundle)
    (isPublic : Bool) (name : String) :
    ResultVia (IsReadAmong mods) (fetchOne ext mods cfg b isPublic name) := by
  have := fun ksk => loadPkcs11Key_via mods ksk cfg.kskPolicy b isPublic
  unfold fetchOne
  split
  · exact ResultVia.err _
  · refine ResultVia.bind (this _) (fun o => ?_)
    repeat' via_step

/-- the key `_fetch_keys` obtains for one name on the token `tok`, as a function of the name -/
def fetchedOf (ext : Externals) (mods : List P11Module) (cfg : SignerConfig) (b : Bundle)
    (isPublic : Bool) (tok : Token) (name : String) : Res CompositeKey :=
  (fetchOne ext mods cfg b isPublic name tok {}).1

/-- **On an index-free token `_fetch_keys` is `mapM` of a function of the name**: what is fetched for
    a name does not depend on what was fetched before. -/
theorem fetchKeys_indexFree (ext : Externals) (mods : List P11Module) (cfg : SignerConfig) (b : Bundle)
    (isPublic : Bool) {tok : Token} (ht : IndexFree tok) (names : List String) (s : TokState) :
    (fetchKeys ext mods cfg b isPublic names tok s).1 =
      names.mapM (fetchedOf ext mods cfg b isPublic tok) := by
  induction names generalizing s with
  | nil => rfl
  | cons name rest ih =>
    rw [fetchKeys_cons_one, List.mapM_cons]
    have h1 := (fetchOne_via ext mods cfg b isPublic name).indep ht s {}
    unfold fetchedOf
    cases hr : fetchOne ext mods cfg b isPublic name tok s with
    | mk r s1 =>
      rw [hr] at h1
      simp only at h1
      rw [← h1]
      cases r with
      | error e => rfl
      | ok ck =>
        have h2 := ih s1
        simp only
        cases hr2 : fetchKeys ext mods cfg b isPublic rest tok s1 with
        | mk r2 s2 =>
          rw [hr2] at h2
          simp only at h2
          unfold fetchedOf at h2
          rw [← h2]
          cases r2 <;> rfl

/-- **`_fetch_keys` on an index-free token, names in any order / repeated**: if the fetch succeeds
    for `names` it succeeds for every list with the same names — from any state — and returns the same
    keys (as a set). -/
theorem fetchKeys_same (ext : Externals) (mods : List P11Module) (cfg : SignerConfig) (b : Bundle)
    (isPublic : Bool) {tok : Token} (ht : IndexFree tok) {names names' : List String}
    (hn : SameElems names names') {s s1 : TokState} {cks : List CompositeKey}
    (h : fetchKeys ext mods cfg b isPublic names tok s = (.ok cks, s1)) (s' : TokState) :
    ∃ cks' s1', fetchKeys ext mods cfg b isPublic names' tok s' = (.ok cks', s1') ∧
      SameElems cks cks' := by
  have h1 := fetchKeys_indexFree ext mods cfg b isPublic ht names s
  rw [h] at h1
  obtain ⟨cks', h2, hs⟩ := mapM_same _ hn h1.symm
  rw [← fetchKeys_indexFree ext mods cfg b isPublic ht names' s'] at h2
  exact ⟨cks', (fetchKeys ext mods cfg b isPublic names' tok s').2, Prod.ext h2 rfl, hs⟩

/-- the same for a permutation of the names: a permutation of the keys -/
theorem fetchKeys_perm (ext : Externals) (mods : List P11Module) (cfg : SignerConfig) (b : Bundle)
    (isPublic : Bool) {tok : Token} (ht : IndexFree tok) {names names' : List String}
    (hn : names.Perm names') {s s1 : TokState} {cks : List CompositeKey}
    (h : fetchKeys ext mods cfg b isPublic names tok s = (.ok cks, s1)) (s' : TokState) :
    ∃ cks' s1', fetchKeys ext mods cfg b isPublic names' tok s' = (.ok cks', s1') ∧ cks.Perm cks' := by
  have h1 := fetchKeys_indexFree ext mods cfg b isPublic ht names s
  rw [h] at h1
  obtain ⟨cks', h2, hs⟩ := mapM_perm _ hn h1.symm
  rw [← fetchKeys_indexFree ext mods cfg b isPublic ht names' s'] at h2
  exact ⟨cks', (fetchKeys ext mods cfg b isPublic names' tok s').2, Prod.ext h2 rfl, hs⟩

/-- what is fetched for a name depends on the name only through its configured entry -/
theorem fetchedOf_congr (ext : Externals) (mods : List P11Module) (cfg : SignerConfig) (b : Bundle)
    (isPublic : Bool) (tok : Token) {n₁ n₂ : String} (h : cfg.kskKeys.lookup n₁ = cfg.kskKeys.lookup n₂) :
    fetchedOf ext mods cfg b isPublic tok n₁ = fetchedOf ext mods cfg b isPublic tok n₂ := by
  unfold fetchedOf fetchOne
  rw [h]

/-- a fetched key carries the label of the configured entry of its name as identifier -/
theorem fetchedOf_ok {ext : Externals} {mods : List P11Module} {cfg : SignerConfig} {b : Bundle}
    {isPublic : Bool} {tok : Token} {n : String} {ck : CompositeKey}
    (h : fetchedOf ext mods cfg b isPublic tok n = .ok ck) :
    ∃ ksk, cfg.kskKeys.lookup n = some ksk ∧ ck.dns.keyIdentifier = ksk.label := by
  unfold fetchedOf at h
  rw [fetchOne_run] at h
  cases hl : cfg.kskKeys.lookup n with
  | none => simp [hl] at h
  | some ksk =>
    simp only [hl] at h
    cases hload : loadPkcs11Key mods ksk cfg.kskPolicy b isPublic tok {} with
    | mk r s1 =>
      rw [hload] at h
      cases r with
      | error e => simp at h
      | ok o =>
        cases o with
        | none => simp at h
        | some ck' =>
          simp only at h
          cases hv : validateDnskeyMatchesKsk ext ksk ck'.dns with
          | error e => simp [hv] at h
          | ok u =>
            simp only [hv, Except.ok.injEq] at h
            subst h
            obtain ⟨pk, _, hd⟩ := (loadPkcs11Key_good mods ksk cfg.kskPolicy b isPublic).out _ _ _ _ hload
            exact ⟨ksk, rfl, (publicKeyToDnssecKey_ok hd).1⟩

/-! ## §4 The signing loop as a pure fold -/

/-- the loop of `sign_bundles` over a per-key signing function -/
def signAllPure (f : CompositeKey → Res Signature) : List CompositeKey → List Signature → Res (List Signature)
  | [], acc => pure acc
  | sk :: rest, acc =>
    if acc.any (fun s => s.keyIdentifier = sk.dns.keyIdentifier) then signAllPure f rest acc
    else do
      let s ← f sk
      signAllPure f rest (acc ++ [s])

/-- the signature `_sign_keys` obtains with one key on the token `tok`, as a function of the key -/
def signedBy (ext : Externals) (bundle : Bundle) (keys : List Key) (pol : KskPolicy) (tok : Token)
    (sk : CompositeKey) : Res Signature := (signKeys ext bundle keys sk pol tok {}).1

theorem signAll_indexFree (ext : Externals) (bundle : Bundle) (keys : List Key) (pol : KskPolicy)
    {tok : Token} (ht : IndexFree tok) (sks : List CompositeKey) (acc : List Signature) (s : TokState) :
    (signAll ext bundle keys pol sks acc tok s).1 =
      signAllPure (signedBy ext bundle keys pol tok) sks acc := by
  induction sks generalizing acc s with
  | nil => rfl
  | cons sk rest ih =>
    rw [signAll_cons, signAllPure]
    split
    · exact ih acc s
    · rw [TokM.bind_eq]
      have h1 := (signKeys_via ext bundle keys sk pol).indep ht s {}
      unfold signedBy
      cases hr : signKeys ext bundle keys sk pol tok s with
      | mk r s1 =>
        rw [hr] at h1
        simp only at h1
        rw [← h1]
        cases r with
        | error e => rfl
        | ok σ => exact ih (acc ++ [σ]) s1

/-- same identifier ⇒ same signing key -/
def IdFun (sks : List CompositeKey) : Prop :=
  ∀ a ∈ sks, ∀ b ∈ sks, a.dns.keyIdentifier = b.dns.keyIdentifier → a = b

theorem IdFun.of_same {l l' : List CompositeKey} (h : SameElems l l') (hf : IdFun l) : IdFun l' :=
  fun a ha b hb e => hf a ((h a).mpr ha) b ((h b).mpr hb) e

/-- **the signatures the loop returns, as a set**: exactly the signatures of the listed keys —
    provided an identifier names one signing key (`IdFun all`; `acc` holds signatures of keys of `all`) -/
theorem signAllPure_mem (f : CompositeKey → Res Signature) (all : List CompositeKey) (hall : IdFun all)
    (hid : ∀ sk σ, f sk = .ok σ → σ.keyIdentifier = sk.dns.keyIdentifier) :
    ∀ (sks : List CompositeKey) (acc sigs : List Signature), (∀ sk ∈ sks, sk ∈ all) →
      (∀ σ ∈ acc, ∃ sk ∈ all, f sk = .ok σ) → signAllPure f sks acc = .ok sigs →
      ∀ σ, σ ∈ sigs ↔ σ ∈ acc ∨ ∃ sk ∈ sks, f sk = .ok σ := by
  intro sks
  induction sks with
  | nil =>
    intro acc sigs _ _ h σ
    simp only [signAllPure, pure, Except.pure, Except.ok.injEq] at h
    subst h
    simp
  | cons sk rest ih =>
    intro acc sigs hsub hacc h σ
    have hsk : sk ∈ all := hsub sk List.mem_cons_self
    have hrest : ∀ x ∈ rest, x ∈ all := fun x hx => hsub x (List.mem_cons_of_mem _ hx)
    rw [signAllPure] at h
    by_cases hany : acc.any (fun s => s.keyIdentifier = sk.dns.keyIdentifier) = true
    · simp only [hany, ↓reduceIte] at h
      rw [ih acc sigs hrest hacc h σ]
      simp only [List.any_eq_true, decide_eq_true_eq] at hany
      obtain ⟨σ0, hσ0, hid0⟩ := hany
      obtain ⟨sk0, hsk0, hf0⟩ := hacc σ0 hσ0
      have : sk0 = sk := hall sk0 hsk0 sk hsk ((hid sk0 σ0 hf0).symm.trans hid0)
      subst this
      constructor
      · rintro (h1 | ⟨x, hx, hfx⟩)
        · exact Or.inl h1
        · exact Or.inr ⟨x, List.mem_cons_of_mem _ hx, hfx⟩
      · rintro (h1 | ⟨x, hx, hfx⟩)
        · exact Or.inl h1
        · rcases List.mem_cons.mp hx with rfl | hx
          · rw [hf0] at hfx
            cases hfx
            exact Or.inl hσ0
          · exact Or.inr ⟨x, hx, hfx⟩
    · simp only [hany, Bool.false_eq_true, ↓reduceIte] at h
      cases hf : f sk with
      | error e => simp [hf, bind, Except.bind] at h
      | ok s0 =>
        simp only [hf, bind, Except.bind] at h
        have hacc' : ∀ σ ∈ acc ++ [s0], ∃ sk ∈ all, f sk = .ok σ := by
          intro x hx
          rcases List.mem_append.mp hx with hx | hx
          · exact hacc x hx
          · simp only [List.mem_singleton] at hx
            subst hx
            exact ⟨sk, hsk, hf⟩
        rw [ih (acc ++ [s0]) sigs hrest hacc' h σ]
        simp only [List.mem_append, List.mem_cons, List.not_mem_nil, or_false, exists_eq_or_imp, hf,
          Except.ok.injEq]
        constructor
        · rintro ((h1 | h1) | h1)
          · exact Or.inl h1
          · exact Or.inr (Or.inl h1.symm)
          · exact Or.inr (Or.inr h1)
        · rintro (h1 | h1 | h1)
          · exact Or.inl (Or.inl h1)
          · exact Or.inl (Or.inr h1.symm)
          · exact Or.inr h1

/-- the loop succeeds as soon as every listed key signs -/
theorem signAllPure_total (f : CompositeKey → Res Signature) :
    ∀ (sks : List CompositeKey) (acc : List Signature), (∀ sk ∈ sks, ∃ σ, f sk = .ok σ) →
      ∃ sigs, signAllPure f sks acc = .ok sigs := by
  intro sks
  induction sks with
  | nil => intro acc _; exact ⟨acc, rfl⟩
  | cons sk rest ih =>
    intro acc h
    rw [signAllPure]
    split
    · exact ih acc (fun x hx => h x (List.mem_cons_of_mem _ hx))
    · obtain ⟨σ, hσ⟩ := h sk List.mem_cons_self
      simp only [hσ, bind, Except.bind]
      exact ih _ (fun x hx => h x (List.mem_cons_of_mem _ hx))

/-- when the loop succeeds from the empty accumulator, every listed key signed -/
theorem signAllPure_each (f : CompositeKey → Res Signature) (all : List CompositeKey) (hall : IdFun all)
    (hid : ∀ sk σ, f sk = .ok σ → σ.keyIdentifier = sk.dns.keyIdentifier) :
    ∀ (sks : List CompositeKey) (acc sigs : List Signature), (∀ sk ∈ sks, sk ∈ all) →
      (∀ σ ∈ acc, ∃ sk ∈ all, f sk = .ok σ) → signAllPure f sks acc = .ok sigs →
      ∀ sk ∈ sks, ∃ σ, f sk = .ok σ := by
  intro sks
  induction sks with
  | nil => intro _ _ _ _ _ sk hsk; cases hsk
  | cons sk rest ih =>
    intro acc sigs hsub hacc h x hx
    have hsk : sk ∈ all := hsub sk List.mem_cons_self
    have hrest : ∀ x ∈ rest, x ∈ all := fun x hx => hsub x (List.mem_cons_of_mem _ hx)
    rw [signAllPure] at h
    by_cases hany : acc.any (fun s => s.keyIdentifier = sk.dns.keyIdentifier) = true
    · simp only [hany, ↓reduceIte] at h
      rcases List.mem_cons.mp hx with rfl | hx
      · simp only [List.any_eq_true, decide_eq_true_eq] at hany
        obtain ⟨σ0, hσ0, hid0⟩ := hany
        obtain ⟨sk0, hsk0, hf0⟩ := hacc σ0 hσ0
        have : sk0 = x := hall sk0 hsk0 x hsk ((hid sk0 σ0 hf0).symm.trans hid0)
        subst this
        exact ⟨σ0, hf0⟩
      · exact ih acc sigs hrest hacc h x hx
    · simp only [hany, Bool.false_eq_true, ↓reduceIte] at h
      cases hf : f sk with
      | error e => simp [hf, bind, Except.bind] at h
      | ok s0 =>
        simp only [hf, bind, Except.bind] at h
        rcases List.mem_cons.mp hx with rfl | hx
        · exact ⟨s0, hf⟩
        · refine ih (acc ++ [s0]) sigs hrest ?_ h x hx
          intro y hy
          rcases List.mem_append.mp hy with hy | hy
          · exact hacc y hy
          · simp only [List.mem_singleton] at hy
            subst hy
            exact ⟨sk, hsk, hf⟩

/-- **the signing fold does not depend on the order (or repetition) of the signing keys**, nor on
    which of two equal-on-these-keys signing functions is used -/
theorem signAllPure_same (f f' : CompositeKey → Res Signature) {sks sks' : List CompositeKey}
    (hs : SameElems sks sks') (hfun : IdFun sks)
    (hid : ∀ sk σ, f sk = .ok σ → σ.keyIdentifier = sk.dns.keyIdentifier)
    (hff : ∀ sk ∈ sks, ∀ σ, f sk = .ok σ → f' sk = .ok σ)
    {sigs : List Signature} (h : signAllPure f sks [] = .ok sigs) :
    ∃ sigs', signAllPure f' sks' [] = .ok sigs' ∧ SameElems sigs sigs' := by
  have heach := signAllPure_each f sks hfun hid sks [] sigs (fun _ h => h) (by simp) h
  have hmem := signAllPure_mem f sks hfun hid sks [] sigs (fun _ h => h) (by simp) h
  have hid' : ∀ sk ∈ sks', ∀ σ, f' sk = .ok σ → σ.keyIdentifier = sk.dns.keyIdentifier := by
    intro sk hsk σ hσ
    obtain ⟨σ0, h0⟩ := heach sk ((hs sk).mpr hsk)
    have := hff sk ((hs sk).mpr hsk) σ0 h0
    rw [hσ] at this
    cases this
    exact hid sk σ h0
  -- `f'` restricted to the listed keys, so that the identifier fact holds for every key
  let g : CompositeKey → Res Signature := fun sk => if sk ∈ sks' then f' sk else .error .unsupported
  have hg : ∀ (l : List CompositeKey) (acc : List Signature), (∀ sk ∈ l, sk ∈ sks') →
      signAllPure g l acc = signAllPure f' l acc := by
    intro l
    induction l with
    | nil => intro acc _; rfl
    | cons sk rest ih =>
      intro acc hsub
      have hrest : ∀ x ∈ rest, x ∈ sks' := fun x hx => hsub x (List.mem_cons_of_mem _ hx)
      rw [signAllPure, signAllPure, ih acc hrest]
      have : g sk = f' sk := by simp only [g, hsub sk List.mem_cons_self, ↓reduceIte]
      rw [this]
      split
      · rfl
      · cases f' sk with
        | error e => rfl
        | ok σ => simp only [bind, Except.bind]; exact ih _ hrest
  have hgid : ∀ sk σ, g sk = .ok σ → σ.keyIdentifier = sk.dns.keyIdentifier := by
    intro sk σ hσ
    by_cases hm : sk ∈ sks'
    · simp only [g, hm, ↓reduceIte] at hσ; exact hid' sk hm σ hσ
    · simp [g, hm] at hσ
  have hgf : ∀ sk ∈ sks', ∀ σ, g sk = .ok σ ↔ f sk = .ok σ := by
    intro sk hsk σ
    simp only [g, hsk, ↓reduceIte]
    obtain ⟨σ0, h0⟩ := heach sk ((hs sk).mpr hsk)
    rw [hff sk ((hs sk).mpr hsk) σ0 h0, h0]
  obtain ⟨sigs', h'⟩ := signAllPure_total g sks' [] (by
    intro sk hsk
    obtain ⟨σ0, h0⟩ := heach sk ((hs sk).mpr hsk)
    exact ⟨σ0, (hgf sk hsk σ0).mpr h0⟩)
  have hmem' := signAllPure_mem g sks' (hfun.of_same hs) hgid sks' [] sigs' (fun _ h => h) (by simp) h'
  refine ⟨sigs', by rw [← hg sks' [] (fun _ h => h)]; exact h', ?_⟩
  intro σ
  rw [hmem σ, hmem' σ]
  simp only [List.not_mem_nil, false_or]
  constructor
  · rintro ⟨sk, hsk, hf⟩; exact ⟨sk, (hs sk).mp hsk, (hgf sk ((hs sk).mp hsk) σ).mpr hf⟩
  · rintro ⟨sk, hsk, hf⟩; exact ⟨sk, (hs sk).mpr hsk, (hgf sk hsk σ).mp hf⟩

/-! ## What the steps read of configuration and bundle -/

theorem key_ext {a b : Key} (h1 : a.keyIdentifier = b.keyIdentifier) (h2 : a.keyTag = b.keyTag)
    (h3 : a.ttl = b.ttl) (h4 : a.flags = b.flags) (h5 : a.protocol = b.protocol)
    (h6 : a.algorithm = b.algorithm) (h7 : a.publicKey = b.publicKey) : a = b := by
  cases a; cases b; simp_all

theorem loadPkcs11Key_bundle_congr (mods : List P11Module) (ksk : KskKey) (pol : KskPolicy) (b b' : Bundle)
    (isPublic : Bool) (h1 : b'.inception = b.inception) (h2 : b'.expiration = b.expiration) :
    loadPkcs11Key mods ksk pol b' isPublic = loadPkcs11Key mods ksk pol b isPublic := by
  unfold loadPkcs11Key
  rw [h1, h2]

/-- `_fetch_keys` reads the configured keys, the KSK policy and the bundle's two times, nothing else -/
theorem fetchKeys_congr (ext : Externals) (mods : List P11Module) (cfg cfg' : SignerConfig) (b b' : Bundle)
    (isPublic : Bool) (hk : cfg'.kskKeys = cfg.kskKeys) (hp : cfg'.kskPolicy = cfg.kskPolicy)
    (h1 : b'.inception = b.inception) (h2 : b'.expiration = b.expiration) (names : List String) :
    fetchKeys ext mods cfg' b' isPublic names = fetchKeys ext mods cfg b isPublic names := by
  induction names with
  | nil => simp [fetchKeys]
  | cons name rest ih =>
    rw [fetchKeys, fetchKeys, hk, hp]
    simp only [loadPkcs11Key_bundle_congr mods _ _ b b' isPublic h1 h2, ih]

theorem signKeys_bundle_congr (ext : Externals) (b b' : Bundle) (keys : List Key) (sk : CompositeKey)
    (pol : KskPolicy) (h1 : b'.inception = b.inception) (h2 : b'.expiration = b.expiration) :
    signKeys ext b' keys sk pol = signKeys ext b keys sk pol := by
  unfold signKeys
  rw [h1, h2]

/-! ## Tools for non-vacuity examples -/

/-- the value of a successful result (with a default) -/
def okOr {α} (d : α) : Res α → α
  | .ok a => a
  | _ => d

theorem eq_okOr {α} {r : Res α} (d : α) (h : r.toOption.isSome = true) : r = .ok (okOr d r) := by
  cases r with
  | error e => simp [Except.toOption] at h
  | ok a => rfl

end Kskm
