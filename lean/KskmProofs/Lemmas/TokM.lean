/- Inversion lemmas for the token monad `TokM` (state survives failures; every `ask` is logged). -/
import Kskm.Signer
namespace Kskm

theorem TokM.bind_ok {α β} (m : TokM α) (f : α → TokM β) (t : Token) (s s' : TokState) (b : β)
    (h : (m >>= f) t s = (.ok b, s')) :
    ∃ a s1, m t s = (.ok a, s1) ∧ f a t s1 = (.ok b, s') := by
  simp only [bind] at h
  cases hm : m t s with
  | mk r s1 =>
    cases r with
    | error e => simp [hm] at h
    | ok a => exact ⟨a, s1, rfl, by simpa [hm] using h⟩

theorem TokM.bind_eq {α β} (m : TokM α) (f : α → TokM β) (t : Token) (s : TokState) :
    (m >>= f) t s = match m t s with
      | (.ok a, s1) => f a t s1
      | (.error e, s1) => (.error e, s1) := by
  simp only [bind]
  rfl

@[simp] theorem TokM.pure_run {α} (a : α) (t : Token) (s : TokState) :
    (pure a : TokM α) t s = (.ok a, s) := rfl

@[simp] theorem TokM.fail_run {α} (f : Fail) (t : Token) (s : TokState) :
    (TokM.fail f : TokM α) t s = (.error f, s) := rfl

@[simp] theorem TokM.err_run {α} (k : ErrKind) (t : Token) (s : TokState) :
    (TokM.err k : TokM α) t s = (.error (.error k), s) := rfl

@[simp] theorem TokM.lift_run {α} (r : Res α) (t : Token) (s : TokState) :
    (TokM.lift r : TokM α) t s = (r, s) := rfl

theorem ask_run (op : TokOp) (t : Token) (s : TokState) :
    ask op t s = (.ok (t s.count op), { count := s.count + 1, log := (op, t s.count op) :: s.log }) := rfl

/-- the log only grows: every computation extends the log it started with -/
def LogExtends (s s' : TokState) : Prop := ∃ l, s'.log = l ++ s.log

theorem LogExtends.refl (s : TokState) : LogExtends s s := ⟨[], rfl⟩
theorem LogExtends.trans {a b c : TokState} (h1 : LogExtends a b) (h2 : LogExtends b c) : LogExtends a c := by
  obtain ⟨l1, e1⟩ := h1; obtain ⟨l2, e2⟩ := h2
  exact ⟨l2 ++ l1, by rw [e2, e1, List.append_assoc]⟩

/-- is this logged operation a private-key operation (`C_Sign`)? -/
def isSignOp : TokOp → Bool
  | .sign .. => true
  | _ => false

end Kskm
